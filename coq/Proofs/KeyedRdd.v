(* C02: the partition structure of the results.  Context.parallelize(list, n) only re-slices (its
   concatenation is the list, for every n), flatMap / filter / mapValues are partition-wise; hence collect() of
   every result is the flat-level function of the flattened inputs, whatever the partitioning of either input
   and whatever numPartitions. *)
From Coq Require Import ZArith List Bool Permutation Lia.
Require Import PV.Base.PyArith PV.Gen.Parallelize PV.Model.Keyed PV.Model.KeyedSpec PV.Proofs.Keyed PV.Proofs.KeyedAgg.
Import ListNotations.
Open Scope Z_scope.

Definition nsum (l : list nat) : nat := fold_right Nat.add 0%nat l.

Lemma firstn_skipn_add {A} (a b : nat) (xs : list A) :
  firstn a xs ++ firstn b (skipn a xs) = firstn (a + b) xs.
Proof.
  revert xs. induction a as [|a IH]; intros xs; simpl; [reflexivity|].
  destruct xs as [|x xs]; simpl; [rewrite firstn_nil; reflexivity|]. rewrite IH. reflexivity.
Qed.

Lemma take_seq_concat {A} (sizes : list Z) (xs : list A) :
  concat (take_seq sizes xs) = firstn (nsum (map Z.to_nat sizes)) xs.
Proof.
  revert xs. induction sizes as [|s sizes IH]; intros xs; simpl; [reflexivity|].
  rewrite IH. apply firstn_skipn_add.
Qed.

(* the slice bounds of the regenerated kernel *)
Definition qb (len n i : Z) : Z := (i * len) / n.

Lemma qb_mono len n i : 0 <= len -> 0 < n -> 0 <= i -> 0 <= qb len n i <= qb len n (i + 1).
Proof.
  intros Hl Hn Hi. unfold qb. split.
  - apply Z.div_pos; [nia | exact Hn].
  - apply Z.div_le_mono; [exact Hn | nia].
Qed.

Lemma par_take_inner len n i : 0 <= len -> 0 < n -> 0 <= i -> i + 1 <> n ->
  par_take i len n = qb len n (i + 1) - qb len n i.
Proof.
  intros Hl Hn Hi Hne. unfold par_take, qb.
  rewrite !int_truediv_nonneg by nia.
  destruct (Z.eqb_spec (i + 1) n) as [E | E]; [contradiction | reflexivity].
Qed.
Lemma par_take_last len n : 0 <= len -> 1 < n ->
  par_take (n - 1) len n = qb len n n + 1 - qb len n (n - 1).
Proof.
  intros Hl Hn. unfold par_take, qb.
  rewrite !int_truediv_nonneg by nia.
  replace (n - 1 + 1) with n by lia. rewrite Z.eqb_refl. reflexivity.
Qed.

Lemma sizes_prefix len n (m : nat) : 0 <= len -> 0 < n -> Z.of_nat m < n ->
  nsum (map Z.to_nat (map (fun i => par_take (Z.of_nat i) len n) (seq 0 m))) = Z.to_nat (qb len n (Z.of_nat m)).
Proof.
  intros Hl Hn. induction m as [|m IH]; intros Hm.
  - unfold qb. simpl. reflexivity.
  - replace (Z.of_nat (S m)) with (Z.of_nat m + 1) in * by lia.
    rewrite seq_S, !map_app.
    assert (Happ : forall a b, nsum (a ++ b) = (nsum a + nsum b)%nat).
    { induction a as [|x a IHa]; intros b; simpl; [reflexivity | rewrite IHa; lia]. }
    rewrite Happ, IH by lia. cbn [map nsum fold_right Nat.add].
    rewrite par_take_inner by lia.
    pose proof (qb_mono len n (Z.of_nat m) Hl Hn ltac:(lia)) as Hq. lia.
Qed.

Lemma sizes_total len n : 0 <= len -> 1 < n ->
  nsum (map Z.to_nat (map (fun i => par_take (Z.of_nat i) len n) (seq 0 (Z.to_nat n)))) = Z.to_nat (len + 1).
Proof.
  intros Hl Hn.
  assert (E : Z.to_nat n = S (Z.to_nat (n - 1))) by lia.
  rewrite E, seq_S, !map_app.
  assert (Happ : forall a b, nsum (a ++ b) = (nsum a + nsum b)%nat).
  { induction a as [|x a IHa]; intros b; simpl; [reflexivity | rewrite IHa; lia]. }
  rewrite Happ, sizes_prefix by lia. cbn [map nsum fold_right Nat.add].
  rewrite Z2Nat.id by lia. rewrite par_take_last by lia.
  pose proof (qb_mono len n (n - 1) Hl ltac:(lia) ltac:(lia)) as Hq.
  replace (n - 1 + 1) with n in Hq by lia.
  assert (Hqn : qb len n n = len). { unfold qb. rewrite Z.mul_comm. apply Z.div_mul. lia. }
  rewrite Hqn in *. lia.
Qed.

(* Context.parallelize only re-slices: for EVERY list and EVERY numSlices (None, <= 1, > length ...) *)
Theorem parallelize_flat {A} (xs : list A) (num : option Z) : concat (parallelize xs num) = xs.
Proof.
  unfold parallelize. destruct num as [n|]; [|simpl; apply app_nil_r].
  unfold par_single. destruct (Z.leb_spec n 1) as [H | H]; [simpl; apply app_nil_r|].
  rewrite take_seq_concat, sizes_total by lia.
  apply firstn_all2. lia.
Qed.

Lemma concat_map_flat_map {A B} (f : A -> list B) (parts : list (list A)) :
  concat (map (flat_map f) parts) = flat_map f (concat parts).
Proof. induction parts as [|p parts IH]; simpl; [reflexivity|]. rewrite flat_map_app, IH. reflexivity. Qed.
Lemma concat_map_map {A B} (f : A -> B) (parts : list (list A)) :
  concat (map (map f) parts) = map f (concat parts).
Proof. symmetry. apply concat_map. Qed.
Lemma concat_map_filter {A} (p : A -> bool) (parts : list (list A)) :
  concat (map (filter p) parts) = filter p (concat parts).
Proof. induction parts as [|q parts IH]; simpl; [reflexivity|]. rewrite filter_app, IH. reflexivity. Qed.

Theorem rdd_group_by_key_flat {K X} (keqb : K -> K -> bool) (lp : list (list (K * X))) np :
  concat (rdd_group_by_key keqb lp np) = group_by_key keqb (concat lp).
Proof. apply parallelize_flat. Qed.

Section RddFlat.
  Context {K : Type} (keqb : K -> K -> bool) {V W : Type}.
  Implicit Types (lp : list (list (K * V))) (rp : list (list (K * W))) (np : option Z).

  Theorem rdd_reduce_by_key_flat f lp np : concat (rdd_reduce_by_key keqb f lp np) = reduce_by_key keqb f (concat lp).
  Proof. unfold rdd_reduce_by_key. rewrite concat_map_map, rdd_group_by_key_flat. reflexivity. Qed.
  Theorem rdd_cogroup_flat lp rp : concat (rdd_cogroup keqb lp rp) = cogroup keqb (concat lp) (concat rp).
  Proof. unfold rdd_cogroup. simpl. apply app_nil_r. Qed.
  Theorem rdd_join_flat lp rp np : concat (rdd_join keqb lp rp np) = join keqb (concat lp) (concat rp).
  Proof. unfold rdd_join. rewrite concat_map_flat_map, rdd_group_by_key_flat. reflexivity. Qed.
  Theorem rdd_left_outer_join_flat lp rp :
    concat (rdd_left_outer_join keqb lp rp) = left_outer_join keqb (concat lp) (concat rp).
  Proof. unfold rdd_left_outer_join. rewrite concat_map_flat_map, rdd_group_by_key_flat. reflexivity. Qed.
  Theorem rdd_right_outer_join_flat lp rp :
    concat (rdd_right_outer_join keqb lp rp) = right_outer_join keqb (concat lp) (concat rp).
  Proof. unfold rdd_right_outer_join. rewrite concat_map_flat_map, rdd_group_by_key_flat. reflexivity. Qed.
  Theorem rdd_full_outer_join_flat lp rp :
    concat (rdd_full_outer_join keqb lp rp) = full_outer_join keqb (concat lp) (concat rp).
  Proof. unfold rdd_full_outer_join. rewrite concat_map_flat_map, rdd_cogroup_flat. reflexivity. Qed.
  Theorem rdd_left_semi_join_flat lp rp :
    concat (rdd_left_semi_join keqb lp rp) = left_semi_join keqb (concat lp) (concat rp).
  Proof. unfold rdd_left_semi_join. rewrite concat_map_flat_map, rdd_group_by_key_flat. reflexivity. Qed.
  Theorem rdd_left_anti_join_flat lp rp :
    concat (rdd_left_anti_join keqb lp rp) = left_anti_join keqb (concat lp) (concat rp).
  Proof. unfold rdd_left_anti_join. rewrite concat_map_flat_map, rdd_group_by_key_flat. reflexivity. Qed.
  Theorem rdd_subtract_by_key_flat lp rp :
    concat (rdd_subtract_by_key keqb lp rp) = subtract_by_key keqb (concat lp) (concat rp).
  Proof.
    unfold rdd_subtract_by_key. rewrite concat_map_flat_map, concat_map_filter, rdd_cogroup_flat. reflexivity.
  Qed.
End RddFlat.

Theorem rdd_distinct_flat {A} (aeqb : A -> A -> bool) (lp : list (list A)) np :
  concat (rdd_distinct aeqb lp np) = distinct aeqb (concat lp).
Proof. apply parallelize_flat. Qed.
Theorem rdd_intersection_flat {A} (aeqb : A -> A -> bool) (lp rp : list (list A)) :
  concat (rdd_intersection aeqb lp rp) = intersection aeqb (concat lp) (concat rp).
Proof. unfold rdd_intersection. simpl. apply app_nil_r. Qed.
Theorem rdd_cartesian_flat {A B} (lp : list (list A)) (rp : list (list B)) :
  concat (rdd_cartesian lp rp) = cartesian (concat lp) (concat rp).
Proof. unfold rdd_cartesian. simpl. apply app_nil_r. Qed.
Theorem rdd_sort_by_key_flat {K V} (le : K -> K -> bool) asc (lp : list (list (K * V))) np :
  concat (rdd_sort_by_key le asc lp np) = sort_by_key le asc (concat lp).
Proof. apply parallelize_flat. Qed.

(* ------------------------------------------------------------------------------------------------
   The property, end to end: collect() of the RDD each method returns -- for EVERY partitioning of self
   and other and EVERY numPartitions -- against the comprehension spec over the flattened inputs. *)
Section RddSpec.
  Context {K : Type} (keqb : K -> K -> bool).
  Hypothesis keqb_spec : decides_eq keqb.
  Context {V W : Type}.
  Implicit Types (lp : list (list (K * V))) (rp : list (list (K * W))) (np : option Z).

  Theorem rdd_group_by_key_spec lp np : concat (rdd_group_by_key keqb lp np) = group_spec keqb (concat lp).
  Proof. rewrite rdd_group_by_key_flat. apply (group_by_key_closed keqb keqb_spec). Qed.
  Theorem rdd_reduce_by_key_spec (f : V -> V -> V) lp np :
    concat (rdd_reduce_by_key keqb f lp np)
    = map (fun k => (k, reduce1 f (values keqb k (concat lp)))) (firstkeys keqb (map fst (concat lp))).
  Proof. rewrite rdd_reduce_by_key_flat. apply (reduce_by_key_closed keqb keqb_spec). Qed.
  Theorem rdd_aggregate_by_key_spec {A} (z : A) (s : A -> V -> A) (c : A -> A -> A) lp :
    agg_hom z s c -> concat (rdd_aggregate_by_key keqb z s c lp) = fold_per_key keqb s z (concat lp).
  Proof.
    intros H. unfold rdd_aggregate_by_key. simpl. rewrite app_nil_r.
    apply (aggregate_by_key_closed keqb keqb_spec). exact H.
  Qed.
  Theorem rdd_cogroup_spec lp rp : concat (rdd_cogroup keqb lp rp) = cogroup_spec keqb (concat lp) (concat rp).
  Proof. rewrite rdd_cogroup_flat. apply (cogroup_closed keqb keqb_spec). Qed.
  Theorem rdd_join_spec lp rp np :
    Permutation (concat (rdd_join keqb lp rp np)) (join_spec keqb (concat lp) (concat rp)).
  Proof. rewrite rdd_join_flat. apply (join_perm keqb keqb_spec). Qed.
  Theorem rdd_left_outer_join_spec lp rp :
    Permutation (concat (rdd_left_outer_join keqb lp rp)) (left_outer_spec keqb (concat lp) (concat rp)).
  Proof. rewrite rdd_left_outer_join_flat. apply (left_outer_join_perm keqb keqb_spec). Qed.
  Theorem rdd_right_outer_join_spec lp rp :
    Permutation (concat (rdd_right_outer_join keqb lp rp)) (right_outer_spec keqb (concat lp) (concat rp)).
  Proof. rewrite rdd_right_outer_join_flat. apply (right_outer_join_perm keqb keqb_spec). Qed.
  Theorem rdd_full_outer_join_spec lp rp :
    Permutation (concat (rdd_full_outer_join keqb lp rp)) (full_outer_spec keqb (concat lp) (concat rp)).
  Proof. rewrite rdd_full_outer_join_flat. apply (full_outer_join_perm keqb keqb_spec). Qed.
  Theorem rdd_left_semi_join_spec lp rp :
    Permutation (concat (rdd_left_semi_join keqb lp rp)) (matched keqb (concat lp) (concat rp)).
  Proof. rewrite rdd_left_semi_join_flat. apply (left_semi_join_eq keqb keqb_spec). Qed.
  Theorem rdd_left_anti_join_spec lp rp :
    Permutation (concat (rdd_left_anti_join keqb lp rp)) (unmatched keqb (concat lp) (concat rp)).
  Proof. rewrite rdd_left_anti_join_flat. apply (left_anti_join_eq keqb keqb_spec). Qed.
  Theorem rdd_subtract_by_key_spec lp rp :
    Permutation (concat (rdd_subtract_by_key keqb lp rp)) (unmatched keqb (concat lp) (concat rp)).
  Proof. rewrite rdd_subtract_by_key_flat. apply (subtract_by_key_perm keqb keqb_spec). Qed.
End RddSpec.

Section RddSetSpec.
  Context {A : Type} (aeqb : A -> A -> bool).
  Hypothesis aeqb_spec : decides_eq aeqb.
  Theorem rdd_subtract_spec (lp rp : list (list A)) :
    concat (rdd_subtract aeqb lp rp) = filter (fun e => negb (kmem aeqb e (concat rp))) (concat lp).
  Proof. apply subtract_flat. Qed.
  Theorem rdd_distinct_spec (lp : list (list A)) np :
    NoDup (concat (rdd_distinct aeqb lp np)) /\ forall x, In x (concat (rdd_distinct aeqb lp np)) <-> In x (concat lp).
  Proof.
    rewrite rdd_distinct_flat. split; [apply (distinct_NoDup aeqb aeqb_spec) | apply (distinct_In aeqb aeqb_spec)].
  Qed.
  Theorem rdd_intersection_spec (lp rp : list (list A)) :
    NoDup (concat (rdd_intersection aeqb lp rp))
    /\ forall x, In x (concat (rdd_intersection aeqb lp rp)) <-> In x (concat lp) /\ In x (concat rp).
  Proof.
    rewrite rdd_intersection_flat.
    split; [apply (intersection_NoDup aeqb aeqb_spec) | apply (intersection_In aeqb aeqb_spec)].
  Qed.
End RddSetSpec.

Theorem rdd_cartesian_spec {A B} (lp : list (list A)) (rp : list (list B)) :
  concat (rdd_cartesian lp rp) = list_prod (concat lp) (concat rp).
Proof. rewrite rdd_cartesian_flat. apply cartesian_exact. Qed.

Theorem rdd_sort_by_key_spec {K V} (le : K -> K -> bool) :
  (forall a b, le a b = true \/ le b a = true) ->
  (forall a b c, le a b = true -> le b c = true -> le a c = true) ->
  forall asc (lp : list (list (K * V))) np,
  let out := concat (rdd_sort_by_key le asc lp np) in
  Sorted.Sorted (key_le (dir_le le asc)) out /\ Permutation out (concat lp)
  /\ forall k, filter (same_key le k) out = filter (same_key le k) (concat lp).
Proof.
  intros Htot Htr asc lp np. simpl. rewrite rdd_sort_by_key_flat. split; [|split].
  - apply sort_by_key_sorted. exact Htot.
  - apply sort_by_key_perm.
  - intros k. apply sort_by_key_stable. exact Htr.
Qed.

(* The result does not depend on how either input is partitioned or on numPartitions: two runs on inputs
   with the same flattened contents collect the same elements, whatever the partitionings and the
   numPartitions arguments.  (No assumption on the key equality is needed for this.) *)
Theorem partition_independence {K V W} (keqb : K -> K -> bool)
        (lp lp' : list (list (K * V))) (rp rp' : list (list (K * W))) (np np' : option Z) :
  concat lp = concat lp' -> concat rp = concat rp' ->
  concat (rdd_group_by_key keqb lp np) = concat (rdd_group_by_key keqb lp' np')
  /\ (forall f, concat (rdd_reduce_by_key keqb f lp np) = concat (rdd_reduce_by_key keqb f lp' np'))
  /\ concat (rdd_cogroup keqb lp rp) = concat (rdd_cogroup keqb lp' rp')
  /\ concat (rdd_join keqb lp rp np) = concat (rdd_join keqb lp' rp' np')
  /\ concat (rdd_left_outer_join keqb lp rp) = concat (rdd_left_outer_join keqb lp' rp')
  /\ concat (rdd_right_outer_join keqb lp rp) = concat (rdd_right_outer_join keqb lp' rp')
  /\ concat (rdd_full_outer_join keqb lp rp) = concat (rdd_full_outer_join keqb lp' rp')
  /\ concat (rdd_left_semi_join keqb lp rp) = concat (rdd_left_semi_join keqb lp' rp')
  /\ concat (rdd_left_anti_join keqb lp rp) = concat (rdd_left_anti_join keqb lp' rp')
  /\ concat (rdd_subtract_by_key keqb lp rp) = concat (rdd_subtract_by_key keqb lp' rp')
  /\ concat (rdd_cartesian lp rp) = concat (rdd_cartesian lp' rp')
  /\ (forall le asc, concat (rdd_sort_by_key le asc lp np) = concat (rdd_sort_by_key le asc lp' np')).
Proof.
  intros El Er.
  rewrite !rdd_group_by_key_flat, !rdd_cogroup_flat, !rdd_join_flat, !rdd_left_outer_join_flat,
    !rdd_right_outer_join_flat, !rdd_full_outer_join_flat, !rdd_left_semi_join_flat, !rdd_left_anti_join_flat,
    !rdd_subtract_by_key_flat, !rdd_cartesian_flat, El, Er.
  repeat split.
  - intros f. rewrite !rdd_reduce_by_key_flat, El. reflexivity.
  - intros le asc. rewrite !rdd_sort_by_key_flat, El. reflexivity.
Qed.

Theorem partition_independence_elements {A} (aeqb : A -> A -> bool)
        (lp lp' rp rp' : list (list A)) (np np' : option Z) :
  concat lp = concat lp' -> concat rp = concat rp' ->
  concat (rdd_subtract aeqb lp rp) = concat (rdd_subtract aeqb lp' rp')
  /\ concat (rdd_distinct aeqb lp np) = concat (rdd_distinct aeqb lp' np')
  /\ concat (rdd_intersection aeqb lp rp) = concat (rdd_intersection aeqb lp' rp').
Proof.
  intros El Er. unfold rdd_subtract. rewrite !subtract_flat, !rdd_distinct_flat, !rdd_intersection_flat, El, Er.
  repeat split.
Qed.

(* aggregateByKey / foldByKey / countByKey fold each partition separately: independence needs the contract *)
Theorem partition_independence_aggregate {K V A} (keqb : K -> K -> bool) :
  decides_eq keqb ->
  forall (z : A) (s : A -> V -> A) (c : A -> A -> A) (lp lp' : list (list (K * V))),
  agg_hom z s c -> concat lp = concat lp' ->
  concat (rdd_aggregate_by_key keqb z s c lp) = concat (rdd_aggregate_by_key keqb z s c lp')
  /\ count_by_key keqb lp = count_by_key keqb lp'.
Proof.
  intros Hk z s c lp lp' Hh E. split.
  - rewrite !(rdd_aggregate_by_key_spec keqb Hk) by exact Hh. rewrite E. reflexivity.
  - rewrite !(count_by_key_closed keqb Hk), E. reflexivity.
Qed.
