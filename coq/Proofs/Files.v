(* C08 -- lemmas for the save / re-read model (Model/Files.v): parallelize covers its input in order, the
   layout of the files a save produces, the common reader, and the text / pickle round trips. *)
From Coq Require Import String ZArith NArith List Bool Lia.
Require Import PV.Base.PyArith PV.Base.PyStrOps PV.Gen.Codecs PV.Gen.Parallelize PV.Model.Files.
Require Import PV.Proofs.FilesStr PV.Proofs.FilesText.
Import ListNotations.
Ltac Zify.zify_post_hook ::= Z.to_euclidean_division_equations.
Open Scope Z_scope.

(* ==================== F1.v *)

(* ---------- res *)
Lemma res_all_ok : forall {A B} (f : A -> res B) (g : A -> B) l,
  (forall x, In x l -> f x = Ok (g x)) -> res_all (map f l) = Ok (map g l).
Proof.
  induction l as [|x l IH]; intros H; [reflexivity|].
  cbn [map res_all]. rewrite (H x) by (left; reflexivity). cbn [res_bind].
  rewrite IH by (intros; apply H; right; assumption). reflexivity.
Qed.

Lemma concat_map_concat : forall {A B} (g : A -> list B) (ls : list (list A)),
  concat (map (fun l => concat (map g l)) ls) = concat (map g (concat ls)).
Proof.
  induction ls as [|l ls IH]; [reflexivity|].
  cbn [map concat]. rewrite map_app, concat_app, IH. reflexivity.
Qed.

(* ---------- zrange *)
Lemma zrange_cons : forall a n, a < n -> zrange a n = a :: zrange (a + 1) n.
Proof.
  intros a n H. unfold zrange.
  replace (Z.to_nat (n - a)) with (S (Z.to_nat (n - (a + 1)))) by lia.
  cbn [seq map]. f_equal; [lia|].
  rewrite <- seq_shift, map_map. apply map_ext. intros k. lia.
Qed.
Lemma zrange_nil : forall a n, n <= a -> zrange a n = [].
Proof. intros a n H. unfold zrange. replace (Z.to_nat (n - a)) with 0%nat by lia. reflexivity. Qed.
Lemma zrange_length : forall a n, length (zrange a n) = Z.to_nat (n - a).
Proof. intros. unfold zrange. rewrite map_length, seq_length. reflexivity. Qed.

(* ---------- parallelize: the sequential takes cover the list, in order *)
Lemma par_chain_nil : forall {A} len n idx, concat (@par_chain A [] len n idx) = [].
Proof.
  induction idx as [|i idx IH]; [reflexivity|].
  cbn [par_chain]. rewrite firstn_nil, skipn_nil. cbn [concat app]. exact IH.
Qed.

Lemma par_chain_concat : forall {A} (len n : Z) (m : nat) (a : Z) (xs : list A),
  0 <= len -> 0 < n -> Z.to_nat (n - a) = m -> 0 <= a <= n ->
  Z.of_nat (length xs) = len - a * len / n ->
  concat (par_chain xs len n (zrange a n)) = xs.
Proof.
  intros A len n. induction m as [|m IH]; intros a xs Hlen Hn Hm Ha Hxs.
  - assert (a = n) by lia. subst a. rewrite zrange_nil by lia.
    replace (n * len) with (len * n) in Hxs by ring. rewrite Z.div_mul in Hxs by lia. destruct xs; [reflexivity|cbn in Hxs; lia].
  - rewrite zrange_cons by lia. cbn [par_chain concat].
    unfold par_take. rewrite !int_truediv_nonneg by nia.
    destruct (Z.eqb_spec (a + 1) n) as [E|E].
    + rewrite E. replace (n * len) with (len * n) by ring. rewrite Z.div_mul by lia.
      replace ((a + 1) * len) with (len * n) in * by (rewrite <- E; ring).
      rewrite firstn_all2 by lia. rewrite skipn_all2 by lia.
      rewrite par_chain_nil. apply app_nil_r.
    + assert (Hmono : a * len / n <= (a + 1) * len / n) by (apply Z.div_le_mono; nia).
      assert (Hup : (a + 1) * len / n <= len).
      { apply Z.div_le_upper_bound; nia. }
      rewrite IH; [apply firstn_skipn|assumption|assumption|lia|lia|].
      rewrite skipn_length. lia.
Qed.

Lemma parallelize_concat : forall {A} (xs : list A) n, concat (parallelize xs n) = xs.
Proof.
  intros A xs n. unfold parallelize, par_single.
  destruct (Z.leb_spec n 1); [cbn; apply app_nil_r|].
  apply (par_chain_concat _ _ (Z.to_nat n) 0); try lia.
  rewrite Z.mul_0_l, Z.div_0_l by lia. lia.
Qed.

Lemma parallelize_in : forall {A} (xs : list A) n part x, In part (parallelize xs n) -> In x part -> In x xs.
Proof.
  intros A xs n part x Hp Hx. rewrite <- (parallelize_concat xs n). apply in_concat. exists part. auto.
Qed.

(* ==================== F2.v *)

(* ---------- generic list facts *)
Lemma filter_all_true : forall {A} (P : A -> bool) l, (forall x, In x l -> P x = true) -> filter P l = l.
Proof.
  induction l as [|x l IH]; intros H; [reflexivity|]. cbn. rewrite (H x) by (left; reflexivity).
  f_equal. apply IH. intros; apply H; right; assumption.
Qed.
Lemma filter_all_false : forall {A} (P : A -> bool) l, (forall x, In x l -> P x = false) -> filter P l = [].
Proof.
  induction l as [|x l IH]; intros H; [reflexivity|]. cbn. rewrite (H x) by (left; reflexivity).
  apply IH. intros; apply H; right; assumption.
Qed.
Lemma existsb_false_all : forall {A} (P : A -> bool) l, existsb P l = false -> forall x, In x l -> P x = false.
Proof.
  intros A P l H x Hx. destruct (P x) eqn:E; [|reflexivity].
  assert (existsb P l = true) by (apply existsb_exists; exists x; auto). congruence.
Qed.
Lemma find_app_none : forall {A} (P : A -> bool) l1 l2, (forall x, In x l1 -> P x = false) -> find P (l1 ++ l2) = find P l2.
Proof.
  induction l1 as [|x l1 IH]; intros l2 H; [reflexivity|]. cbn. rewrite (H x) by (left; reflexivity).
  apply IH. intros; apply H; right; assumption.
Qed.
Lemma map_fst_combine : forall {A B} (l1 : list A) (l2 : list B), length l1 = length l2 -> map fst (combine l1 l2) = l1.
Proof.
  induction l1 as [|x l1 IH]; intros [|y l2] H; try discriminate; [reflexivity|].
  cbn. f_equal. apply IH. cbn in H. lia.
Qed.
Lemma Forall2_combine : forall {A B C} (R : C -> B -> Prop) (f : A -> C) l1 l2,
  length l1 = length l2 -> (forall x y, In (x, y) (combine l1 l2) -> R (f x) y) -> Forall2 R (map f l1) l2.
Proof.
  induction l1 as [|x l1 IH]; intros [|y l2] H HR; try discriminate; [constructor|].
  cbn. constructor; [apply HR; left; reflexivity|]. apply IH; [cbn in H; lia|].
  intros; apply HR; right; assumption.
Qed.
Lemma fold_left_map : forall {A B C} (g : A -> B -> A) (h : C -> B) l a,
  fold_left (fun a c => g a (h c)) l a = fold_left g (map h l) a.
Proof. induction l as [|c l IH]; intros a; [reflexivity|]. cbn. apply IH. Qed.

(* names built from an index function that is injective / monotone below a bound *)
Lemma nodup_map_seq : forall (g : nat -> str) bound a m,
  (forall i j, (i < j < bound)%nat -> g i <> g j) -> (a + m <= bound)%nat -> NoDup (map g (seq a m)).
Proof.
  intros g bound a m Hinj. revert a. induction m as [|m IH]; intros a Hb; [constructor|].
  cbn. constructor; [|apply IH; lia].
  intros Hin. apply in_map_iff in Hin. destruct Hin as [k [Hk Hin]]. apply in_seq in Hin.
  apply (Hinj a k); [lia|]. congruence.
Qed.
Lemma sorted_map_seq : forall (g : nat -> str) bound a m,
  (forall i j, (i < j < bound)%nat -> str_leb (g i) (g j) = true) -> (a + m <= bound)%nat -> sorted_str (map g (seq a m)).
Proof.
  intros g bound a m Hmono. revert a. induction m as [|m IH]; intros a Hb; [constructor|].
  destruct m as [|m]; [constructor|].
  cbn [seq map]. constructor; [apply Hmono; lia|]. apply (IH (S a)). lia.
Qed.

Lemma str_eqb_eq : forall a b, str_eqb a b = true -> a = b.
Proof. intros a b H. destruct (str_eqb_spec a b); [assumption|discriminate]. Qed.
Lemma str_eqb_neq : forall a b, a <> b -> str_eqb a b = false.
Proof. intros a b H. destruct (str_eqb_spec a b); [contradiction|reflexivity]. Qed.

Lemma str_eqb_false : forall a b, str_eqb a b = false -> a <> b.
Proof. intros a b H E. subst. rewrite str_eqb_refl in H. discriminate. Qed.
Lemma nodup_snoc : forall {A} (l : list A) x, NoDup l -> ~ In x l -> NoDup (l ++ [x]).
Proof.
  induction l as [|y l IH]; intros x Hnd Hx; [constructor; [intros []|constructor]|].
  inversion Hnd as [|? ? Hy Hl]; subst. cbn. constructor.
  - intros Hin. apply in_app_or in Hin. destruct Hin as [Hin|[->|[]]]; [contradiction|]. apply Hx. left. reflexivity.
  - apply IH; [assumption|]. intros Hin. apply Hx. right. assumption.
Qed.
Lemma fold_left_ext_eq : forall {A B} (g h : A -> B -> A) l a, (forall a b, g a b = h a b) -> fold_left g l a = fold_left h l a.
Proof. induction l as [|b l IH]; intros a H; [reflexivity|]. cbn. rewrite H. apply IH. exact H. Qed.

(* ---------- the file system *)
Lemma fs_write_fresh : forall f p b, (forall e, In e f -> fst e <> p) -> fs_write f p b = f ++ [(p, b)].
Proof.
  intros f p b H. unfold fs_write. f_equal. apply filter_all_true.
  intros e He. rewrite str_eqb_neq by (apply H; assumption). reflexivity.
Qed.
Lemma fold_write_fresh : forall es f,
  NoDup (map fst es) -> (forall e e', In e es -> In e' f -> fst e' <> fst e) ->
  fold_left (fun f (e : path * bytes) => fs_write f (fst e) (snd e)) es f = f ++ es.
Proof.
  induction es as [|e es IH]; intros f Hnd Hfresh; [symmetry; apply app_nil_r|].
  cbn [fold_left]. rewrite fs_write_fresh by (intros e' He'; apply (Hfresh e e'); [left; reflexivity|assumption]).
  rewrite <- surjective_pairing. cbn [map] in Hnd. inversion Hnd as [|? ? Hnotin Hnd']; subst.
  rewrite IH; [rewrite <- app_assoc; reflexivity|assumption|].
  intros e1 e2 H1 H2. apply in_app_or in H2. destruct H2 as [H2|[<-|[]]].
  - apply Hfresh; [right; assumption|assumption].
  - intros E. apply Hnotin. rewrite E. apply in_map. assumption.
Qed.
Lemma fs_lookup_skip : forall f g p, (forall e, In e f -> fst e <> p) -> fs_lookup (f ++ g) p = fs_lookup g p.
Proof.
  intros f g p H. unfold fs_lookup. rewrite find_app_none; [reflexivity|].
  intros e He. apply str_eqb_neq. apply H. assumption.
Qed.
Lemma fs_lookup_nodup : forall es p b, NoDup (map fst es) -> In (p, b) es -> fs_lookup es p = Some b.
Proof.
  induction es as [|e es IH]; intros p b Hnd Hin; [contradiction|].
  unfold fs_lookup. cbn [find]. cbn [map] in Hnd. inversion Hnd as [|? ? Hnotin Hnd']; subst.
  destruct Hin as [->|Hin].
  - cbn [fst]. rewrite str_eqb_refl. reflexivity.
  - destruct (str_eqb _ p) eqn:E.
    + exfalso. apply Hnotin. apply str_eqb_eq in E.
      assert (Hi : In (fst (p, b)) (map fst es)) by (apply in_map; assumption).
      cbn [fst] in Hi. rewrite <- E in Hi. exact Hi.
    + apply IH; assumption.
Qed.
Lemma fs_lookup_rel_some : forall f p b, fs_lookup f p = Some b -> fs_lookup_rel f p = Some b.
Proof. intros f p b H. unfold fs_lookup_rel. rewrite H. reflexivity. Qed.

Lemma not_self_prefix : forall (p : str) c r, p <> p ++ c :: r.
Proof.
  intros p c r E. assert (L : length p = length (p ++ c :: r)) by congruence.
  rewrite app_length in L. cbn in L. lia.
Qed.

(* os.path.join(path, name) for a non-empty path that does not end with a separator *)
Lemma path_join_std : forall p b, p <> [] -> ends_with p [slash] = false -> starts_with b [slash] = false ->
  path_join p b = p ++ slash :: b.
Proof.
  intros p b Hp He Hb. unfold path_join. fold slash. rewrite Hb. destruct p; [contradiction|].
  rewrite He. reflexivity.
Qed.

(* ==================== F3.v *)

Definition part_word : str := [112; 97; 114; 116]%N.                  (* "part" *)
Definition std_part_name (i : Z) (s : str) : str := [112; 97; 114; 116; 45]%N ++ pad_int 5 i ++ s.

(* what is written where: one chunk per data file *)
Definition chunks {A} (parts : list (list A)) : list (list A) :=
  if (length parts =? 1)%nat then [concat parts] else parts.
Definition data_names {A} (sfx : path -> str) (p : path) (parts : list (list A)) : list path :=
  if (length parts =? 1)%nat then [p]
  else map (fun i => path_join p (std_part_name i (sfx p))) (zrange 0 (Z.of_nat (length parts))).

Lemma std_part_name_lt : forall i j s, 0 <= i < j -> j < 100000 -> lex_lt (std_part_name i s) (std_part_name j s).
Proof. intros. unfold std_part_name. apply lex_lt_pre, lex_lt_app, pad5_lt; assumption. Qed.
Lemma std_part_name_start : forall i s, starts_with (std_part_name i s) part_word = true.
Proof. intros. reflexivity. Qed.
Lemma std_part_name_noslash : forall i s, starts_with (std_part_name i s) [slash] = false.
Proof. intros. reflexivity. Qed.

Lemma sorted_map_prefix : forall q l, sorted_str l -> sorted_str (map (fun n => q ++ n) l).
Proof.
  intros q l H. induction H as [|a|a b l Hab H IH]; cbn; try constructor.
  - rewrite str_leb_app. exact Hab.
  - exact IH.
Qed.

Section Layout.
Variable compress : codec -> bytes -> bytes.

Section Save.
Context {A : Type}.
Variable payload : list A -> bytes.
Variable sfx : path -> str.
Variable pname : Z -> str -> str.
Variable marker : str.
Hypothesis pname_std : forall i s, pname i s = std_part_name i s.
Hypothesis marker_not_part : starts_with marker part_word = false.
Hypothesis marker_rel : starts_with marker [slash] = false.

Variable f : fs.
Variable p : path.
Hypothesis p_fresh : fs_exists f p = false.
Hypothesis p_nonempty : p <> [].
Hypothesis p_no_trailing_sep : ends_with p [slash] = false.

Let pd := p ++ [slash].
(* names resolved for an expression without a separator carry a leading "./" *)
Definition rel_prefix (p : path) : str := if contains_char slash p then [] else dot_slash.
Let pre := rel_prefix p.

Lemma f_not_file : forall e, In e f -> fst e <> p.
Proof.
  intros e He E. unfold fs_exists in p_fresh. apply orb_false_elim in p_fresh. destruct p_fresh as [Hf _].
  pose proof (existsb_false_all _ _ Hf e He) as H. cbv beta in H. exact (str_eqb_false _ _ H E).
Qed.
Lemma f_not_below : forall e, In e f -> starts_with (fst e) pd = false.
Proof.
  intros e He. unfold fs_exists in p_fresh. apply orb_false_elim in p_fresh. destruct p_fresh as [_ Hd].
  exact (existsb_false_all _ _ Hd e He).
Qed.
Lemma below_not_f : forall e n, In e f -> starts_with n pd = true -> fst e <> n.
Proof. intros e n He Hn E. rewrite <- E, (f_not_below e He) in Hn. discriminate. Qed.
Lemma below_not_p : forall r, p ++ slash :: r <> p.
Proof. intros r E. symmetry in E. exact (not_self_prefix _ _ _ E). Qed.
Lemma below_start : forall r, starts_with (p ++ slash :: r) pd = true.
Proof. intros r. unfold pd. apply starts_with_spec. exists r. rewrite <- app_assoc. reflexivity. Qed.
Lemma glob_below : forall n, starts_with n (p ++ part_glob) = true -> starts_with n pd = true.
Proof.
  intros n H. apply starts_with_spec in H. destruct H as [r ->]. apply starts_with_spec.
  exists (part_word ++ r). unfold pd, part_glob, part_word. rewrite <- !app_assoc. reflexivity.
Qed.
Lemma glob_match : forall r, starts_with (p ++ slash :: r) (p ++ part_glob) = starts_with r part_word.
Proof.
  intros r. rewrite starts_with_app_same. unfold part_glob, part_word, slash. cbn [starts_with].
  rewrite N.eqb_refl. reflexivity.
Qed.

(* ----- one partition: a single file *)
Lemma save_single : forall parts, length parts = 1%nat ->
  exists f', save_parts compress payload sfx pname marker f p parts = Ok f' /\
    sort_str (resolve f' p) = [p] /\
    fs_lookup f' p = Some (enc compress (get_codec p) (payload (concat parts))).
Proof.
  intros parts L. unfold save_parts. rewrite p_fresh, L. cbn [Nat.eqb].
  eexists. split; [reflexivity|].
  unfold dump. rewrite fs_write_fresh by exact f_not_file.
  assert (Hl : fs_lookup (f ++ [(p, enc compress (get_codec p) (payload (concat parts)))]) p
               = Some (enc compress (get_codec p) (payload (concat parts)))).
  { rewrite fs_lookup_skip by exact f_not_file. unfold fs_lookup. cbn [find fst]. rewrite str_eqb_refl. reflexivity. }
  split; [|exact Hl].
  unfold resolve. unfold fs_isfile. rewrite existsb_app. cbn [existsb fst]. rewrite str_eqb_refl, orb_true_r.
  reflexivity.
Qed.

(* ----- several (or zero) partitions: a directory of part files and the marker *)
Let name (i : Z) : path := p ++ slash :: std_part_name i (sfx p).

Lemma name_join : forall i, path_join p (pname i (sfx p)) = name i.
Proof.
  intros i. rewrite pname_std. apply path_join_std; try assumption. apply std_part_name_noslash.
Qed.
Lemma marker_join : path_join p marker = p ++ slash :: marker.
Proof. apply path_join_std; assumption. Qed.
Lemma name_lt : forall i j, 0 <= i < j -> j < 100000 -> lex_lt (name i) (name j).
Proof.
  intros i j Hij Hj. unfold name. apply lex_lt_pre.
  change (slash :: std_part_name i (sfx p)) with ([slash] ++ std_part_name i (sfx p)).
  change (slash :: std_part_name j (sfx p)) with ([slash] ++ std_part_name j (sfx p)).
  apply lex_lt_pre. apply std_part_name_lt; assumption.
Qed.

Let gname (k : nat) : path := name (0 + Z.of_nat k).

Lemma names_as_seq : forall n, map name (zrange 0 n) = map gname (seq 0 (Z.to_nat (n - 0))).
Proof. intros n. unfold zrange. rewrite map_map. reflexivity. Qed.

Lemma names_nodup : forall n, n <= 100000 -> NoDup (map name (zrange 0 n)).
Proof.
  intros n Hn. rewrite names_as_seq. apply (nodup_map_seq gname (Z.to_nat 100000)); [|lia].
  intros i j Hij. apply lex_lt_neq. apply name_lt; lia.
Qed.
Lemma names_sorted : forall n, n <= 100000 -> sorted_str (map name (zrange 0 n)).
Proof.
  intros n Hn. rewrite names_as_seq. apply (sorted_map_seq gname (Z.to_nat 100000)); [|lia].
  intros i j Hij. apply lex_lt_leb. apply name_lt; lia.
Qed.

Definition entry (ip : Z * list A) : path * bytes :=
  (name (fst ip), enc compress (get_codec (name (fst ip))) (payload (snd ip))).

Lemma save_multi : forall parts, length parts <> 1%nat -> Z.of_nat (length parts) <= 100000 ->
  let names := map name (zrange 0 (Z.of_nat (length parts))) in
  exists f', save_parts compress payload sfx pname marker f p parts = Ok f' /\
    sort_str (resolve f' p) = map (fun n => pre ++ n) names /\
    Forall2 (fun n xs => fs_lookup f' n = Some (enc compress (get_codec n) (payload xs))) names parts /\
    fs_lookup f' (p ++ slash :: marker) = Some (enc compress (get_codec (p ++ slash :: marker)) []) /\
    (forall e, In e f' -> In e f \/ In (fst e) names \/ fst e = p ++ slash :: marker).
Proof.
  intros parts L Hn names. unfold save_parts. rewrite p_fresh.
  destruct (Nat.eqb_spec (length parts) 1) as [E|_]; [contradiction|].
  set (idx := zrange 0 (Z.of_nat (length parts))).
  assert (Hlen : length idx = length parts).
  { unfold idx. rewrite zrange_length. lia. }
  set (entries := map entry (combine idx parts)).
  assert (Hkeys : map fst entries = names).
  { unfold entries. rewrite map_map. cbn [entry fst].
    rewrite <- (map_map fst name). rewrite map_fst_combine by exact Hlen. reflexivity. }
  assert (Hfold : fold_left (fun (f0 : fs) (ip : Z * list A) =>
                    dump compress f0 (path_join p (pname (fst ip) (sfx p))) (payload (snd ip)))
                    (combine idx parts) f = f ++ entries).
  { transitivity (fold_left (fun f0 (e : path * bytes) => fs_write f0 (fst e) (snd e)) entries f).
    - unfold entries. rewrite <- fold_left_map. apply fold_left_ext_eq.
      intros f0 ip. unfold dump, entry. cbn [fst snd]. rewrite name_join. reflexivity.
    - apply fold_write_fresh.
      + rewrite Hkeys. apply names_nodup. exact Hn.
      + intros e e' He He'. apply below_not_f; [assumption|].
        assert (Hk : In (fst e) names) by (rewrite <- Hkeys; apply in_map; assumption).
        unfold names in Hk. apply in_map_iff in Hk. destruct Hk as [i [<- _]]. apply below_start. }
  set (mk := p ++ slash :: marker).
  assert (Hmk_names : ~ In mk names).
  { intros Hin. unfold names in Hin. apply in_map_iff in Hin. destruct Hin as [i [Hi _]].
    unfold name, mk in Hi. apply app_inv_head in Hi. injection Hi as Hi.
    pose proof (std_part_name_start i (sfx p)) as Hs. rewrite Hi, marker_not_part in Hs. discriminate. }
  assert (Hmk_fresh : forall e, In e (f ++ entries) -> fst e <> mk).
  { intros e He. apply in_app_or in He. destruct He as [He|He].
    - apply below_not_f; [assumption|apply below_start].
    - intros E. apply Hmk_names. rewrite <- E, <- Hkeys. apply in_map. assumption. }
  set (M := (mk, enc compress (get_codec mk) [])).
  assert (Hnd : NoDup (map fst (entries ++ [M]))).
  { rewrite map_app, Hkeys. cbn [map fst M]. apply nodup_snoc; [apply names_nodup; exact Hn|exact Hmk_names]. }
  exists ((f ++ entries) ++ [M]). split.
  { rewrite Hfold, marker_join. unfold dump. rewrite fs_write_fresh by exact Hmk_fresh. reflexivity. }
  split; [|split; [|split]].
  - (* resolve + sorted *)
    unfold resolve.
    assert (Hnf : fs_isfile ((f ++ entries) ++ [M]) p = false).
    { unfold fs_isfile. apply not_true_is_false. intros Hex. apply existsb_exists in Hex.
      destruct Hex as [e [He Heq]]. apply str_eqb_eq in Heq.
      rewrite <- app_assoc in He. apply in_app_or in He. destruct He as [He|He].
      - exact (f_not_file e He Heq).
      - assert (Hk : In (fst e) (names ++ [mk])).
        { apply in_app_or in He. apply in_or_app. destruct He as [He|[<-|[]]].
          - left. rewrite <- Hkeys. apply in_map. assumption.
          - right. left. reflexivity. }
        apply in_app_or in Hk. destruct Hk as [Hk|[Hk|[]]].
        + unfold names in Hk. apply in_map_iff in Hk. destruct Hk as [i [Hi _]].
          unfold name in Hi. rewrite Heq in Hi. exact (below_not_p _ Hi).
        + unfold mk in Hk. rewrite Heq in Hk. exact (below_not_p _ Hk). }
    replace (fs_isfile _ p) with false by (symmetry; exact Hnf).
    rewrite !filter_app.
    rewrite (filter_all_false _ f).
    2:{ intros e He. apply not_true_is_false. intros Hs. apply glob_below in Hs.
        exact (eq_true_false_abs _ Hs (f_not_below e He)). }
    rewrite (filter_all_true _ entries).
    2:{ intros e He. assert (Hk : In (fst e) names) by (rewrite <- Hkeys; apply in_map; assumption).
        assert (G : forall n, In n names -> starts_with n (p ++ part_glob) = true).
        { intros n Hin. unfold names in Hin. apply in_map_iff in Hin. destruct Hin as [i [<- _]].
          unfold name. rewrite glob_match. apply std_part_name_start. }
        apply G. exact Hk. }
    cbn [filter M fst]. unfold mk at 1. rewrite glob_match, marker_not_part.
    cbn [app]. rewrite app_nil_r.
    fold (rel_prefix p). fold pre.
    transitivity (sort_str (map (fun n => pre ++ n) names));
      [|apply sort_sorted_id, sorted_map_prefix, names_sorted; exact Hn].
    f_equal. rewrite <- Hkeys. rewrite map_map. apply map_ext. reflexivity.
  - (* every part file holds its partition *)
    unfold names. apply Forall2_combine; [exact Hlen|].
    intros i xs Hin. rewrite <- app_assoc.
    rewrite fs_lookup_skip by (intros e He; apply below_not_f; [assumption|apply below_start]).
    apply fs_lookup_nodup; [exact Hnd|]. apply in_or_app. left.
    unfold entries. apply in_map_iff. exists (i, xs). split; [reflexivity|assumption].
  - rewrite <- app_assoc.
    rewrite fs_lookup_skip by (intros e He; apply below_not_f; [assumption|apply below_start]).
    rewrite (fs_lookup_nodup _ mk (enc compress (get_codec mk) []) Hnd) by (apply in_or_app; right; left; reflexivity).
    reflexivity.
  - intros e He. apply in_app_or in He. destruct He as [He|[<-|[]]].
    + apply in_app_or in He. destruct He as [He|He]; [left; exact He|].
      right. left. rewrite <- Hkeys. apply in_map. exact He.
    + right. right. reflexivity.
Qed.
End Save.

Variable decompress : codec -> bytes -> option bytes.
Hypothesis codec_roundtrip : forall c b, decompress c (compress c b) = Some b.

Lemma dec_enc : forall c b, dec decompress c (enc compress c b) = Some b.
Proof. intros c b. unfold dec, enc. destruct (trivial_codec c); [reflexivity|apply codec_roundtrip]. Qed.

Lemma load_written : forall f n b, fs_lookup f n = Some (enc compress (get_codec n) b) -> load_bytes decompress f n = Ok b.
Proof. intros f n b H. unfold load_bytes. rewrite (fs_lookup_rel_some _ _ _ H), dec_enc. reflexivity. Qed.
End Layout.

(* ==================== F4.v *)

Lemma Forall2_refine : forall {A B} (R R' : A -> B -> Prop) (P : B -> Prop) l1 l2,
  Forall2 R l1 l2 -> Forall P l2 -> (forall x y, R x y -> P y -> R' x y) -> Forall2 R' l1 l2.
Proof.
  intros A B R R' P l1 l2 H. induction H as [|x y l1 l2 Hxy H IH]; intros HP Himp; [constructor|].
  inversion HP; subst. constructor; [apply Himp; assumption|apply IH; assumption].
Qed.
Lemma Forall_concat_intro : forall {A} (P : A -> Prop) ls, Forall (Forall P) ls -> Forall P (concat ls).
Proof.
  induction ls as [|l ls IH]; intros H; [constructor|]. inversion H; subst. cbn. apply Forall_app. auto.
Qed.

(* ---------- the common reader *)
Lemma read_parts_ext : forall {A} (l1 l2 : path -> res (list A)) f expr minP,
  (forall n, l1 n = l2 n) -> read_parts l1 f expr minP = read_parts l2 f expr minP.
Proof.
  intros A l1 l2 f expr minP H. unfold read_parts. f_equal. apply map_ext. intros part.
  f_equal. f_equal. apply map_ext. exact H.
Qed.

Lemma read_parts_ok : forall {A} (loader : path -> res (list A)) (g : path -> list A) f expr minP,
  (forall n, In n (sort_str (resolve f expr)) -> loader n = Ok (g n)) ->
  exists pss, read_parts loader f expr minP = Ok pss /\
              concat pss = concat (map g (sort_str (resolve f expr))).
Proof.
  intros A loader g f expr minP H. unfold read_parts.
  set (names := sort_str (resolve f expr)) in *.
  set (k := n_partitions (length names) minP).
  exists (map (fun part => concat (map g part)) (parallelize names k)). split.
  - apply res_all_ok. intros part Hpart.
    rewrite (res_all_ok loader g part); [reflexivity|].
    intros n Hn. apply H. eapply parallelize_in; eassumption.
  - rewrite concat_map_concat, parallelize_concat. reflexivity.
Qed.

Lemma read_parts_forall2 : forall {A} (loader : path -> res (list A)) f expr minP names cs,
  sort_str (resolve f expr) = names -> Forall2 (fun n c => loader n = Ok c) names cs ->
  exists pss, read_parts loader f expr minP = Ok pss /\ concat pss = concat cs.
Proof.
  intros A loader f expr minP names cs Hn HF.
  set (g := fun n => match loader n with Ok c => c | Err _ => [] end).
  assert (H1 : forall n, In n names -> loader n = Ok (g n)).
  { clear Hn. induction HF as [|n c names cs Hnc HF IH]; intros m Hm; [contradiction|].
    destruct Hm as [<-|Hm]; [unfold g; rewrite Hnc; reflexivity|apply IH; assumption]. }
  assert (H2 : map g names = cs).
  { clear Hn H1. induction HF as [|n c names cs Hnc HF IH]; [reflexivity|].
    cbn. rewrite IH. unfold g at 1. rewrite Hnc. reflexivity. }
  rewrite <- Hn in H1. destruct (read_parts_ok loader g f expr minP H1) as [pss [Hr Hc]].
  exists pss. split; [exact Hr|]. rewrite Hc, Hn, H2. reflexivity.
Qed.


(* ---------- relative targets: the resolver prefixes "./", the loader finds the same file *)
Lemma first_slash : forall (p x r : str), contains_char slash p = false ->
  dot_slash ++ x = p ++ slash :: r -> p = [46%N] /\ x = r.
Proof.
  intros p x r Hp E. destruct p as [|c p]; [cbn in E; discriminate|].
  cbn in E. injection E as <- E.
  destruct p as [|d p]; [cbn in E; injection E as <-; auto|].
  cbn in E. injection E as <- E. cbn in Hp. discriminate.
Qed.

Lemma starts_with_app_short : forall x a b, (length x <= length a)%nat -> starts_with (a ++ b) x = starts_with a x.
Proof.
  induction x as [|c x IH]; intros a b L; [reflexivity|].
  destruct a as [|d a]; [cbn in L; lia|]. cbn [app starts_with]. rewrite IH by (cbn in L; lia). reflexivity.
Qed.
Lemma ends_with_prefix : forall q s e, (length e <= length s)%nat -> ends_with (q ++ s) e = ends_with s e.
Proof.
  intros q s e L. unfold ends_with. rewrite rev_app_distr. apply starts_with_app_short. rewrite !rev_length. exact L.
Qed.
Lemma endings_short : forallb (fun e : str => (length e <=? 8)%nat) all_endings = true.
Proof. vm_compute. reflexivity. Qed.
Lemma find_ext_in : forall {A} (P Q : A -> bool) l, (forall x, In x l -> P x = Q x) -> find P l = find Q l.
Proof.
  induction l as [|x l IH]; intros H; [reflexivity|]. cbn. rewrite (H x) by (left; reflexivity).
  rewrite IH by (intros; apply H; right; assumption). reflexivity.
Qed.
Lemma existsb_ext_in : forall {A} (P Q : A -> bool) l, (forall x, In x l -> P x = Q x) -> existsb P l = existsb Q l.
Proof.
  induction l as [|x l IH]; intros H; [reflexivity|]. cbn. rewrite (H x) by (left; reflexivity).
  rewrite IH by (intros; apply H; right; assumption). reflexivity.
Qed.

Lemma get_codec_rel : forall n, contains_char slash n = true -> (8 <= length n)%nat ->
  get_codec (dot_slash ++ n) = get_codec n.
Proof.
  intros n Hs L. unfold get_codec, get_codec_name. f_equal.
  assert (Hg : get_codec_guard (dot_slash ++ n) = get_codec_guard n).
  { unfold get_codec_guard. fold slash.
    apply rfind_present in Hs.
    rewrite (rfind_app_in slash dot_slash n) by exact Hs.
    rewrite contains_app. change (contains_char 46%N dot_slash) with true. cbn [orb negb].
    destruct (contains_char 46%N n) eqn:Hd.
    - apply rfind_present in Hd. rewrite (rfind_app_in 46%N dot_slash n) by exact Hd. cbn [negb orb length].
      rewrite !Z.gtb_ltb.
      destruct (Z.ltb_spec (rfind_char 46%N n) (rfind_char slash n));
        destruct (Z.ltb_spec (Z.of_nat (length dot_slash) + rfind_char 46%N n)
                             (Z.of_nat (length dot_slash) + rfind_char slash n)); try reflexivity; lia.
    - apply rfind_absent in Hd. rewrite (rfind_app_out 46%N dot_slash n) by exact Hd. cbn [negb orb length].
      change (rfind_char 46%N dot_slash) with 0. rewrite Z.gtb_ltb. apply Z.ltb_lt.
      change (length dot_slash) with 2%nat. lia. }
  rewrite Hg. destruct (get_codec_guard n); [reflexivity|].
  rewrite (find_ext_in _ (fun ec : list str * string => existsb (fun e => ends_with n e) (fst ec))); [reflexivity|].
  intros ec Hec. apply existsb_ext_in. intros e He. apply ends_with_prefix.
  pose proof endings_short as H8. rewrite forallb_forall in H8.
  assert (Hin : In e all_endings) by (unfold all_endings; apply in_flat_map; exists ec; auto).
  specialize (H8 e Hin). apply Nat.leb_le in H8. lia.
Qed.

Lemma pad_int_length5 : forall i, (5 <= length (pad_int 5 i))%nat.
Proof.
  intros i. unfold pad_int. destruct (i <? 0); cbn [length]; rewrite fixed_digits_length; lia.
Qed.
Lemma fs_lookup_absent : forall f p, (forall e, In e f -> fst e <> p) -> fs_lookup f p = None.
Proof. intros f p H. rewrite <- (app_nil_r f). rewrite fs_lookup_skip by exact H. reflexivity. Qed.

Section RoundTrip.
Variable compress : codec -> bytes -> bytes.
Variable decompress : codec -> bytes -> option bytes.
Hypothesis codec_roundtrip : forall c b, decompress c (compress c b) = Some b.

(* ---------- save, then read: the generic statement *)
Section Generic.
Context {A : Type}.
Variable payload : list A -> bytes.
Variable decode : bytes -> res (list A).
Variable good : list A -> Prop.
Hypothesis decode_payload : forall xs, good xs -> decode (payload xs) = Ok xs.
Variable sfx : path -> str.
Variable pname : Z -> str -> str.
Variable marker : str.
Hypothesis pname_std : forall i s, pname i s = std_part_name i s.
Hypothesis marker_not_part : starts_with marker part_word = false.
Hypothesis marker_rel : starts_with marker [slash] = false.
Hypothesis marker_not_dot : starts_with marker [46%N] = false.

Lemma has_sep_nonempty : forall p, contains_char slash p = true -> p <> [].
Proof. intros p H E. subst. discriminate. Qed.

Theorem save_layout : forall f p parts,
  fs_exists f p = false -> ends_with p [slash] = false -> contains_char slash p = true ->
  Z.of_nat (length parts) <= 100000 ->
  exists f', save_parts compress payload sfx pname marker f p parts = Ok f' /\
    sort_str (resolve f' p) = data_names sfx p parts /\
    Forall2 (fun n xs => fs_lookup f' n = Some (enc compress (get_codec n) (payload xs)))
            (data_names sfx p parts) (chunks parts).
Proof.
  intros f p parts Hf He Hs Hn. pose proof (has_sep_nonempty p Hs) as Hp.
  unfold data_names, chunks. destruct (Nat.eqb_spec (length parts) 1) as [L|L].
  - destruct (save_single compress payload sfx pname marker f p Hf parts L) as [f' [H1 [H2 H3]]].
    exists f'. split; [exact H1|]. split; [exact H2|]. constructor; [exact H3|constructor].
  - destruct (save_multi compress payload sfx pname marker pname_std marker_not_part marker_rel f p Hf Hp He parts L Hn)
      as [f' [H1 [H2 [H3 _]]]].
    exists f'. split; [exact H1|]. split.
    + rewrite H2. unfold rel_prefix. rewrite Hs. rewrite map_map. apply map_ext. intros i. cbn [app].
      symmetry. apply path_join_std; try assumption. apply std_part_name_noslash.
    + erewrite map_ext; [exact H3|]. intros i. cbv beta.
      apply path_join_std; try assumption. apply std_part_name_noslash.
Qed.

Lemma Forall2_map_l : forall {X Y Z0} (g : X -> Y) (R : Y -> Z0 -> Prop) l1 l2,
  Forall2 (fun x y => R (g x) y) l1 l2 -> Forall2 R (map g l1) l2.
Proof. intros X Y Z0 g R l1 l2 H. induction H; cbn; constructor; assumption. Qed.
Lemma Forall2_impl_in0 : forall {X Y} (R R' : X -> Y -> Prop) l1 l2,
  Forall2 R l1 l2 -> (forall x y, In x l1 -> R x y -> R' x y) -> Forall2 R' l1 l2.
Proof.
  intros X Y R R' l1 l2 H. induction H as [|x y l1 l2 Hxy H IH]; intros Himp; [constructor|].
  constructor; [apply Himp; [left; reflexivity|assumption]|]. apply IH. intros; apply Himp; [right|]; assumption.
Qed.

(* for EVERY target shape (with or without a separator): the files the reader resolves after the save
   load, in order, to the payloads of the chunks *)
Theorem save_loadable : forall f p parts,
  fs_exists f p = false -> p <> [] -> ends_with p [slash] = false ->
  (contains_char slash p = false -> fs_exists f (dot_slash ++ p) = false) ->
  Z.of_nat (length parts) <= 100000 ->
  exists f' rnames, save_parts compress payload sfx pname marker f p parts = Ok f' /\
    sort_str (resolve f' p) = rnames /\
    Forall2 (fun n xs => load_bytes decompress f' n = Ok (payload xs)) rnames (chunks parts).
Proof.
  intros f p parts Hf Hp He Halias Hn. destruct (contains_char slash p) eqn:Hs.
  - destruct (save_layout f p parts Hf He Hs Hn) as [f' [H1 [H2 H3]]].
    exists f', (data_names sfx p parts). split; [exact H1|]. split; [exact H2|].
    eapply Forall2_impl_in0; [exact H3|]. intros n xs _ Hl. cbv beta in *.
    apply (load_written compress decompress codec_roundtrip). exact Hl.
  - specialize (Halias eq_refl). unfold chunks.
    destruct (Nat.eqb_spec (length parts) 1) as [L|L].
    + destruct (save_single compress payload sfx pname marker f p Hf parts L) as [f' [H1 [H2 H3]]].
      exists f', [p]. split; [exact H1|]. split; [exact H2|].
      constructor; [|constructor]. apply (load_written compress decompress codec_roundtrip). exact H3.
    + destruct (save_multi compress payload sfx pname marker pname_std marker_not_part marker_rel f p Hf Hp He parts L Hn)
        as [f' [H1 [H2 [H3 [_ Hkeys]]]]].
      eexists f', _. split; [exact H1|]. split; [exact H2|].
      unfold rel_prefix. rewrite Hs. apply Forall2_map_l.
      eapply Forall2_impl_in0; [exact H3|]. intros n xs Hin Hl. cbv beta in *.
      apply in_map_iff in Hin. destruct Hin as [i [Hi _]].
      assert (Hnone : fs_lookup f' (dot_slash ++ n) = None).
      { apply fs_lookup_absent. intros e He' E.
        destruct (Hkeys e He') as [Hf0|[Hnm|Hmk]].
        - (* a file that was there before would lie below ./p *)
          unfold fs_exists in Halias. apply orb_false_elim in Halias. destruct Halias as [_ Hd].
          pose proof (existsb_false_all _ _ Hd e Hf0) as Hfalse. cbv beta in Hfalse.
          assert (Htrue : starts_with (fst e) ((dot_slash ++ p) ++ [slash]) = true).
          { rewrite E, <- Hi. apply starts_with_spec. exists (std_part_name i (sfx p)).
            rewrite <- !app_assoc. reflexivity. }
          exact (eq_true_false_abs _ Htrue Hfalse).
        - apply in_map_iff in Hnm. destruct Hnm as [j [Hj _]].
          rewrite <- Hj, <- Hi in E. symmetry in E.
          destruct (first_slash p _ _ Hs E) as [-> Hx]. cbn in Hx. discriminate.
        - rewrite Hmk, <- Hi in E. symmetry in E.
          destruct (first_slash p _ _ Hs E) as [-> Hx]. rewrite <- Hx in marker_not_dot. cbn in marker_not_dot. discriminate. }
      unfold load_bytes, fs_lookup_rel. rewrite Hnone.
      rewrite starts_with_app. change (skipn 2 (dot_slash ++ n)) with n. rewrite Hl.
      rewrite get_codec_rel.
      * rewrite (dec_enc compress decompress codec_roundtrip). reflexivity.
      * rewrite <- Hi. rewrite contains_app. apply orb_true_iff. right. reflexivity.
      * rewrite <- Hi. rewrite app_length. cbn [length]. unfold std_part_name. rewrite !app_length.
        pose proof (pad_int_length5 i). destruct p; [contradiction|]. cbn [length]. lia.
Qed.

Theorem save_read_roundtrip : forall f p parts minP,
  fs_exists f p = false -> p <> [] -> ends_with p [slash] = false ->
  (contains_char slash p = false -> fs_exists f (dot_slash ++ p) = false) ->
  Z.of_nat (length parts) <= 100000 ->
  Forall good parts -> good (concat parts) ->
  exists f' pss,
    save_parts compress payload sfx pname marker f p parts = Ok f' /\
    read_parts (fun n => res_bind (load_bytes decompress f' n) decode) f' p minP = Ok pss /\
    concat pss = concat parts.
Proof.
  intros f p parts minP Hf Hp He Halias Hn Hgood Hgoodc.
  destruct (save_loadable f p parts Hf Hp He Halias Hn) as [f' [rnames [H1 [H2 H3]]]].
  assert (Hchunks : Forall good (chunks parts)).
  { unfold chunks. destruct (length parts =? 1)%nat; [constructor; [assumption|constructor]|assumption]. }
  assert (HF : Forall2 (fun n c => res_bind (load_bytes decompress f' n) decode = Ok c) rnames (chunks parts)).
  { eapply Forall2_refine; [exact H3|exact Hchunks|].
    intros n xs Hl Hg. cbv beta in *. rewrite Hl. cbn [res_bind]. apply decode_payload. exact Hg. }
  destruct (read_parts_forall2 _ f' p minP _ _ H2 HF) as [pss [Hr Hc]].
  exists f', pss. split; [exact H1|]. split; [exact Hr|].
  rewrite Hc. unfold chunks. destruct (length parts =? 1)%nat; [cbn; apply app_nil_r|reflexivity].
Qed.
End Generic.

(* ---------- text *)
Definition text_decode (b : bytes) : res (list str) :=
  Ok (splitlines (utf8_decode b)).

Lemma read_text_as_decode : forall f expr minP,
  read_text decompress f expr minP
  = read_parts (fun n => res_bind (load_bytes decompress f n) text_decode) f expr minP.
Proof.
  intros. unfold read_text. apply read_parts_ext. intros n. unfold load_text.
  destruct (load_bytes decompress f n); reflexivity.
Qed.

Definition good_lines (xs : list str) : Prop := Forall no_break xs /\ Forall scalar_str xs.

Lemma scalar_lines : forall xs, Forall scalar_str xs -> scalar_str (concat (map text_line xs)).
Proof.
  induction xs as [|l xs IH]; intros H; [constructor|]. inversion H; subst.
  cbn [map concat]. apply Forall_app. split; [|apply IH; assumption].
  unfold text_line. apply Forall_app. split; [assumption|]. constructor; [reflexivity|constructor].
Qed.

Lemma text_decode_payload : forall xs, good_lines xs -> text_decode (text_payload xs) = Ok xs.
Proof.
  intros xs [Hb Hs]. unfold text_decode, text_payload.
  rewrite utf8_roundtrip by (apply scalar_lines; exact Hs).
  rewrite splitlines_join by exact Hb. reflexivity.
Qed.

Theorem text_roundtrip : forall f p parts minP,
  fs_exists f p = false -> p <> [] -> ends_with p [slash] = false ->
  (contains_char slash p = false -> fs_exists f (dot_slash ++ p) = false) ->
  Z.of_nat (length parts) <= 100000 ->
  Forall (Forall no_break) parts -> Forall (Forall scalar_str) parts ->
  exists f' pss,
    save_text compress f p parts = Ok f' /\
    read_text decompress f' p minP = Ok pss /\
    concat pss = concat parts.
Proof.
  intros f p parts minP Hf Hp He Hs Hn Hb Hsc.
  assert (Hgood : Forall good_lines parts).
  { clear -Hb Hsc. induction parts as [|x parts IH]; [constructor|].
    inversion Hb; inversion Hsc; subst. constructor; [split; assumption|apply IH; assumption]. }
  assert (Hgoodc : good_lines (concat parts)).
  { split; apply Forall_concat_intro; assumption. }
  destruct (save_read_roundtrip text_payload text_decode good_lines text_decode_payload
              text_codec_suffix text_part_name text_marker_name (fun i s => eq_refl) eq_refl eq_refl eq_refl
              f p parts minP Hf Hp He Hs Hn Hgood Hgoodc) as [f' [pss [H1 [H2 H3]]]].
  exists f', pss. split; [exact H1|]. split; [|exact H3].
  rewrite read_text_as_decode. exact H2.
Qed.

(* ---------- pickle: any serialiser with loads (dumps x) = x *)
Theorem pickle_roundtrip : forall (obj : Type) (dumps : list obj -> bytes) (loads : bytes -> res (list obj)),
  (forall xs, loads (dumps xs) = Ok xs) ->
  forall f p parts minP,
  fs_exists f p = false -> p <> [] -> ends_with p [slash] = false ->
  (contains_char slash p = false -> fs_exists f (dot_slash ++ p) = false) ->
  Z.of_nat (length parts) <= 100000 ->
  exists f' pss,
    save_pickle compress obj dumps f p parts = Ok f' /\
    pickle_file decompress obj loads f' p minP = Ok pss /\
    concat pss = concat parts.
Proof.
  intros obj dumps loads Hrt f p parts minP Hf Hp He Hs Hn.
  apply (save_read_roundtrip dumps loads (fun _ => True) (fun xs _ => Hrt xs)
           pickle_codec_suffix pickle_part_name pickle_marker_name (fun i s => eq_refl) eq_refl eq_refl eq_refl
           f p parts minP Hf Hp He Hs Hn).
  - apply Forall_forall. trivial.
  - trivial.
Qed.
End RoundTrip.
