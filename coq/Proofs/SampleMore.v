(* C16 -- packaging of the statements of Properties/C16.v and the witness for the refuted full
   statement of takeSample(True, n). *)
From Coq Require Import ZArith NArith Bool String List Lia Permutation.
From Coq Require Import SpecFloat.
Require Import PV.Base.Num PV.Base.NumSF PV.Gen.Sampling PV.Model.Sample PV.Proofs.Sample.
Import ListNotations.
Open Scope Z_scope.

Lemma sample_submultiset fexp A K key_of keq (O : oracle) (s : sampler K) seed (parts : list (list A)) g rs g' :
  is_bern K s = true ->
  sample_rdd fexp A K key_of keq O s seed parts g = Ok (rs, g') ->
  Subseq (List.concat rs) (List.concat parts) /\ SubMultiset (List.concat rs) (List.concat parts).
Proof.
  intros Hb H. assert (S : Subseq (List.concat rs) (List.concat parts)).
  { apply Subseq_concat. eapply sample_subseq; eauto. }
  split; [exact S | apply Subseq_submultiset; exact S].
Qed.

Lemma sample_repl_members_both fexp A K key_of keq (O : oracle) (s : sampler K) seed (parts : list (list A)) g rs g' :
  sample_rdd fexp A K key_of keq O s seed parts g = Ok (rs, g') ->
  Forall2 (fun r p => exists ns, List.length ns = List.length p /\ r = expand A p ns) rs parts
  /\ forall y, In y (List.concat rs) -> In y (List.concat parts).
Proof. intros H. split; [eapply sample_repl_members; exact H | eapply sample_members; exact H]. Qed.

Lemma takeSample_norepl_all fexp flog A K key_of keq (O : oracle) num seed (parts : list (list A)) g l g' :
  0 <= num ->
  takeSample fexp flog A K key_of keq O false num seed parts g = Ok (l, g') ->
  lenZ l = Z.min num (lenZ (List.concat parts))
  /\ Permutation l (takeZ num (List.concat parts))
  /\ SubMultiset l (List.concat parts)
  /\ g' = g.
Proof.
  intros Hn H. destruct (takeSample_norepl _ _ _ _ _ _ _ _ _ _ _ _ _ Hn H) as [H1 [H2 H3]].
  repeat split; try assumption. eapply takeSample_norepl_submultiset; eauto.
Qed.

(* A stream of zeros: Knuth's loop returns 0 for every element, the sample stays empty, and the loop
   `while len(samples) < num` goes on for as long as there are raw integers to draw seeds from. *)
Definition half : fl := S754_finite false 4503599627370496 (-53).
Definition zero_oracle : oracle := fun _ => mkGen (repeat sf_zero 8) (repeat 0 5).

Lemma zero_oracle_01 : draws01 zero_oracle.
Proof.
  intros k. simpl. repeat constructor.
Qed.

Lemma takeSample_repl_full_false :
  ~ (forall fexp flog A K key_of keq (O : oracle) num seed (parts : list (list A)) g,
       draws01 O -> 0 < num -> List.concat parts <> [] ->
       exists l g', takeSample fexp flog A K key_of keq O true num seed parts g = Ok (l, g') /\ lenZ l = num).
Proof.
  intros H.
  destruct (H (fun _ => half) (fun _ => sf_zero) unit unit (fun _ => Ok tt) (fun _ _ => true)
              zero_oracle 1 (KInt 0) [[tt]] (mkG None (mkGen [] []))
              zero_oracle_01 ltac:(lia) ltac:(discriminate)) as [l [g' [E _]]].
  vm_compute in E. discriminate.
Qed.
