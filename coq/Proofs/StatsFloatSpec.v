(* C17: the statement of the floating-point clause of the property ("within a 1e-9 tolerance relative to the magnitude
   of the data") over the PrimFloat instance of the model.  It is STATED here, not proved: the theorems of
   Properties/C17.v are about exact real arithmetic; the float clause is supported by the bit-exact correspondence
   between this instance and CPython and by the oracle of py/c17.py (see design.d/C17.md). *)
From Coq Require Import ZArith Reals List.
From Coq Require Import PrimFloat SpecFloat FloatOps.
Require Import PV.Base.Num PV.Base.NumR PV.Base.SqrtOps PV.Base.SqrtOpsR.
Require Import PV.Model.Stats PV.Proofs.Stats PV.Proofs.StatsCov.
Import ListNotations.
Open Scope R_scope.

(* the real number denoted by a finite binary64 value *)
Definition SF2R (x : spec_float) : R :=
  match x with
  | S754_finite s m e => (if s then -1 else 1) * IZR (Z.pos m) * powerRZ 2 e
  | _ => 0
  end.
Definition f2r (x : float) : R := SF2R (Prim2SF x).
Definition finite_f (x : float) : bool :=
  match Prim2SF x with S754_zero _ | S754_finite _ _ _ => true | _ => false end.

(* the graded numeric domain: finite, every non-zero magnitude within [1e-100, 1e100] *)
Definition in_domain (x : float) : Prop :=
  finite_f x = true /\ (f2r x = 0 \/ / 10 ^ 100 <= Rabs (f2r x) <= 10 ^ 100).
Definition magnitude (xs : list R) : R := fold_right Rmax 0 (map Rabs xs).
Definition tol : R := / 10 ^ 9.
Definition close (eps : R) (got : float) (want : R) : Prop :=
  finite_f got = true /\ Rabs (f2r got - want) <= eps.
Definition close_opt (eps : R) (got : option float) (want : R) : Prop :=
  exists v, got = Some v /\ close eps v want.

(* every merge tree over at most max_len finite numbers of the domain: the float summary is within the tolerance of
   the exact two-pass value, per statistic relative to the magnitude M of the data *)
Definition C17_float_full (max_len : nat) : Prop :=
  forall t : mtree float,
    (length (tdata t) <= max_len)%nat -> (2 <= length (tdata t))%nat -> Forall in_domain (tdata t) ->
    let s := @tree_stats FloatOps neg_infinity infinity t in
    let xs := map f2r (tdata t) in
    let M := magnitude xs in
    st_count s = Z.of_nat (length xs) /\
    close (tol * M) (st_mean s) (tp_mean xs) /\
    close (tol * M * len xs) (st_sum s) (sumR xs) /\
    (exists m, is_max m xs /\ close (tol * M) (st_max s) m) /\
    (exists m, is_min m xs /\ close (tol * M) (st_min s) m) /\
    close_opt (tol * M * M) (st_variance s) (tp_var xs) /\
    close_opt (tol * M * M) (st_sampleVariance s) (tp_svar xs) /\
    close_opt (tol * M) (@st_stdev FloatOps FloatSqrtOps s) (R_sqrt.sqrt (tp_var xs)) /\
    close_opt (tol * M) (@st_sampleStdev FloatOps FloatSqrtOps s) (R_sqrt.sqrt (tp_svar xs)).

Definition C17_float_cov_full (max_len : nat) : Prop :=
  forall t : mtree (float * float),
    (length (tdata t) <= max_len)%nat -> (2 <= length (tdata t))%nat ->
    Forall (fun p => in_domain (fst p) /\ in_domain (snd p)) (tdata t) ->
    let c := @tree_cov FloatOps t in
    let ps := map (fun p => (f2r (fst p), f2r (snd p))) (tdata t) in
    let Mx := magnitude (xs_of ps) in
    let My := magnitude (ys_of ps) in
    cc_n c = Z.of_nat (length ps) /\
    close_opt (tol * Mx * My) (cv_samp c) (tp_cov_samp ps) /\
    close_opt (tol * Mx * My) (cv_pop c) (tp_cov_pop ps).
