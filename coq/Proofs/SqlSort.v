(* Stable sorting: the multi-pass stable sort used by DataFrameInternal.sort (one sorted() pass per key,
   last key first) IS the stable sort by the lexicographic order of the keys, for any number of keys.
   Everything is relative to a predicate [ok] on the elements (the rows whose key values are mutually
   comparable), on which each key order is a strict weak order. *)
From Coq Require Import Bool List Permutation Sorted Lia.
Require Import PV.Model.SqlRel.
Import ListNotations.

Section SWO.
  Context {A : Type}.
  Variable ok : A -> Prop.
  Implicit Types lt : A -> A -> bool.
  Implicit Types x y z : A.
  Implicit Types l : list A.

  Record swo (lt : A -> A -> bool) : Prop := {
    swo_irrefl : forall x, ok x -> lt x x = false;
    swo_trans : forall x y z, ok x -> ok y -> ok z -> lt x y = true -> lt y z = true -> lt x z = true;
    swo_ntrans : forall x y z, ok x -> ok y -> ok z -> lt x y = false -> lt y z = false -> lt x z = false
  }.

  Definition le_of (lt : A -> A -> bool) (x y : A) : Prop := lt y x = false.
  Definition eqv_of (lt : A -> A -> bool) (x y : A) : bool := negb (lt x y) && negb (lt y x).

  Lemma swo_asym lt : swo lt -> forall x y, ok x -> ok y -> lt x y = true -> lt y x = false.
  Proof.
    intros S x y Hx Hy Hxy. destruct (lt y x) eqn:Hyx; [|reflexivity].
    rewrite <- (swo_irrefl lt S x Hx). symmetry. eapply (swo_trans lt S); eauto.
  Qed.

  Lemma eqv_refl lt : swo lt -> forall x, ok x -> eqv_of lt x x = true.
  Proof. intros S x Hx. unfold eqv_of. rewrite (swo_irrefl lt S x Hx). reflexivity. Qed.

  (* ---------- permutation *)
  Lemma insert_perm lt x l : Permutation (insert lt x l) (x :: l).
  Proof.
    induction l as [|y l IH]; simpl; [constructor; constructor|].
    destruct (lt y x).
    - eapply perm_trans; [apply perm_skip; exact IH | apply perm_swap].
    - apply Permutation_refl.
  Qed.

  Lemma isort_perm lt l : Permutation (isort lt l) l.
  Proof.
    induction l as [|x l IH]; simpl; [constructor|].
    eapply perm_trans; [apply insert_perm | apply perm_skip; exact IH].
  Qed.

  Lemma isort_ok lt l : Forall ok l -> Forall ok (isort lt l).
  Proof. intros H. eapply Permutation_Forall; [apply Permutation_sym, isort_perm | exact H]. Qed.

  (* ---------- sortedness *)
  Lemma insert_sorted lt (S : swo lt) x l :
    ok x -> Forall ok l -> StronglySorted (le_of lt) l -> StronglySorted (le_of lt) (insert lt x l).
  Proof.
    intros Hx Hl Hs. induction l as [|y l IH]; simpl.
    - constructor; constructor.
    - inversion Hl as [|? ? Hy Hl']; subst. inversion Hs as [|? ? Hs' Hall]; subst.
      destruct (lt y x) eqn:Hyx.
      + constructor; [apply IH; assumption|].
        eapply Permutation_Forall; [apply Permutation_sym, insert_perm|].
        constructor; [|exact Hall]. unfold le_of. eapply swo_asym; eauto.
      + constructor; [constructor; assumption|].
        constructor; [exact Hyx|].
        rewrite Forall_forall in Hall, Hl' |- *. intros z Hz. unfold le_of in *.
        eapply (swo_ntrans lt S z y x); auto.
  Qed.

  Lemma isort_sorted lt (S : swo lt) l : Forall ok l -> StronglySorted (le_of lt) (isort lt l).
  Proof.
    induction l as [|x l IH]; intros Hl; simpl; [constructor|].
    inversion Hl; subst. apply insert_sorted; auto. apply isort_ok; assumption.
  Qed.

  (* ---------- stability: the elements of each equivalence class keep their order *)
  Lemma eqv_trans lt (S : swo lt) x y z :
    ok x -> ok y -> ok z -> eqv_of lt x y = true -> eqv_of lt x z = true -> eqv_of lt y z = true.
  Proof.
    unfold eqv_of. intros Hx Hy Hz H1 H2.
    apply andb_true_iff in H1 as [A1 A2]. apply andb_true_iff in H2 as [B1 B2].
    apply negb_true_iff in A1, A2, B1, B2.
    rewrite (swo_ntrans lt S y x z), (swo_ntrans lt S z x y); auto.
  Qed.

  Lemma insert_stable lt (S : swo lt) z x l :
    ok z -> ok x -> Forall ok l ->
    filter (eqv_of lt z) (insert lt x l) = filter (eqv_of lt z) (x :: l).
  Proof.
    intros Hz Hx Hl. induction l as [|y l IH]; [reflexivity|].
    inversion Hl as [|? ? Hy Hl']; subst. cbn [insert].
    destruct (lt y x) eqn:Hyx; [|reflexivity].
    cbn [filter]. rewrite (IH Hl'). cbn [filter].
    destruct (eqv_of lt z y) eqn:Ezy; destruct (eqv_of lt z x) eqn:Ezx; try reflexivity.
    exfalso. pose proof (eqv_trans lt S z y x Hz Hy Hx Ezy Ezx) as E.
    unfold eqv_of in E. rewrite Hyx in E. discriminate E.
  Qed.

  Lemma isort_stable lt (S : swo lt) z l :
    ok z -> Forall ok l -> filter (eqv_of lt z) (isort lt l) = filter (eqv_of lt z) l.
  Proof.
    intros Hz Hl. induction l as [|x l IH]; [reflexivity|].
    inversion Hl; subst. cbn [isort]. rewrite insert_stable; auto using isort_ok.
    cbn [filter]. rewrite IH; auto.
  Qed.

  (* ---------- a sorted list is determined by its equivalence classes in order *)
  Lemma sorted_stable_unique lt (S : swo lt) : forall l1 l2,
    Forall ok l1 -> Forall ok l2 ->
    StronglySorted (le_of lt) l1 -> StronglySorted (le_of lt) l2 ->
    (forall z, ok z -> filter (eqv_of lt z) l1 = filter (eqv_of lt z) l2) -> l1 = l2.
  Proof.
    induction l1 as [|a t1 IH]; intros l2 O1 O2 S1 S2 Hf.
    - destruct l2 as [|b t2]; [reflexivity|]. inversion O2; subst.
      specialize (Hf b ltac:(assumption)). cbn [filter] in Hf. rewrite eqv_refl in Hf; auto. discriminate Hf.
    - inversion O1 as [|? ? Ha O1']; subst.
      destruct l2 as [|b t2].
      { specialize (Hf a Ha). cbn [filter] in Hf. rewrite eqv_refl in Hf; auto. discriminate Hf. }
      inversion O2 as [|? ? Hb O2']; subst.
      inversion S1 as [|? ? S1' A1]; subst. inversion S2 as [|? ? S2' A2]; subst.
      assert (Hba : lt a b = false).
      { pose proof (Hf a Ha) as E. cbn [filter] in E. rewrite (eqv_refl lt S a Ha) in E.
        assert (In a (filter (eqv_of lt a) (b :: t2))) as I by (cbn [filter]; rewrite <- E; left; reflexivity).
        apply filter_In in I as [I _]. destruct I as [->|I]; [apply (swo_irrefl lt S); auto|].
        rewrite Forall_forall in A2. apply A2; assumption. }
      assert (Hab : lt b a = false).
      { pose proof (Hf b Hb) as E. cbn [filter] in E. rewrite (eqv_refl lt S b Hb) in E.
        assert (In b (filter (eqv_of lt b) (a :: t1))) as I by (cbn [filter]; rewrite E; left; reflexivity).
        apply filter_In in I as [I _]. destruct I as [->|I]; [apply (swo_irrefl lt S); auto|].
        rewrite Forall_forall in A1. apply A1; assumption. }
      assert (a = b).
      { pose proof (Hf a Ha) as E. cbn [filter] in E. rewrite (eqv_refl lt S a Ha) in E.
        unfold eqv_of at 2 in E. rewrite Hba, Hab in E. cbn in E. inversion E; reflexivity. }
      subst b. f_equal. apply IH; auto.
      intros z Hz. specialize (Hf z Hz). cbn [filter] in Hf.
      destruct (eqv_of lt z a); [inversion Hf; reflexivity | exact Hf].
  Qed.

  (* ---------- lexicographic combination of two orders *)
  Definition lex (lt1 lt2 : A -> A -> bool) (x y : A) : bool :=
    lt1 x y || (negb (lt1 y x) && lt2 x y).

  Lemma swo_lt_le lt (S : swo lt) x y z :
    ok x -> ok y -> ok z -> lt x y = true -> lt z y = false -> lt x z = true.
  Proof.
    intros Hx Hy Hz H1 H2. destruct (lt x z) eqn:E; [reflexivity|].
    rewrite (swo_ntrans lt S x z y) in H1; auto.
  Qed.

  Lemma swo_le_lt lt (S : swo lt) x y z :
    ok x -> ok y -> ok z -> lt y x = false -> lt y z = true -> lt x z = true.
  Proof.
    intros Hx Hy Hz H1 H2. destruct (lt x z) eqn:E; [reflexivity|].
    rewrite (swo_ntrans lt S y x z) in H2; auto.
  Qed.

  Lemma lex_swo lt1 lt2 : swo lt1 -> swo lt2 -> swo (lex lt1 lt2).
  Proof.
    intros S1 S2. split.
    - intros x Hx. unfold lex. rewrite (swo_irrefl lt1 S1 x Hx), (swo_irrefl lt2 S2 x Hx). reflexivity.
    - intros x y z Hx Hy Hz. unfold lex. intros H1 H2.
      apply orb_true_iff in H1. apply orb_true_iff in H2.
      destruct H1 as [H1|H1]; destruct H2 as [H2|H2].
      + rewrite (swo_trans lt1 S1 x y z); auto.
      + apply andb_true_iff in H2 as [H2 _]. apply negb_true_iff in H2.
        rewrite (swo_lt_le lt1 S1 x y z); auto.
      + apply andb_true_iff in H1 as [H1 _]. apply negb_true_iff in H1.
        rewrite (swo_le_lt lt1 S1 x y z); auto.
      + apply andb_true_iff in H1 as [H1 H1']. apply negb_true_iff in H1.
        apply andb_true_iff in H2 as [H2 H2']. apply negb_true_iff in H2.
        rewrite (swo_ntrans lt1 S1 z y x), (swo_trans lt2 S2 x y z); auto. apply orb_true_r.
    - intros x y z Hx Hy Hz. unfold lex. intros H1 H2.
      apply orb_false_iff in H1 as [H1 H1']. apply orb_false_iff in H2 as [H2 H2'].
      rewrite (swo_ntrans lt1 S1 x y z); auto. cbn [orb].
      apply andb_false_iff in H1'. apply andb_false_iff in H2'.
      destruct H1' as [H1'|H1'].
      + apply negb_false_iff in H1'.
        assert (lt1 z x = true) as ->; [|reflexivity].
        destruct (lt1 z x) eqn:E; [reflexivity|].
        rewrite (swo_ntrans lt1 S1 y z x) in H1'; auto.
      + destruct H2' as [H2'|H2'].
        * apply negb_false_iff in H2'.
          assert (lt1 z x = true) as ->; [|reflexivity].
          destruct (lt1 z x) eqn:E; [reflexivity|].
          rewrite (swo_ntrans lt1 S1 z x y) in H2'; auto.
        * rewrite (swo_ntrans lt2 S2 x y z); auto. apply andb_false_r.
  Qed.

  Lemma eqv_lex lt1 lt2 x y :
    eqv_of (lex lt1 lt2) x y = eqv_of lt1 x y && eqv_of lt2 x y.
  Proof.
    unfold eqv_of, lex. destruct (lt1 x y), (lt1 y x), (lt2 x y), (lt2 y x); reflexivity.
  Qed.

  Lemma filter_andb (p q : A -> bool) l :
    filter (fun x => p x && q x) l = filter q (filter p l).
  Proof.
    induction l as [|a l IH]; [reflexivity|]. cbn [filter].
    destruct (p a); cbn [andb filter]; [destruct (q a)|]; rewrite IH; reflexivity.
  Qed.

  Lemma filter_comm (p q : A -> bool) l : filter p (filter q l) = filter q (filter p l).
  Proof.
    rewrite <- !filter_andb. apply filter_ext. intros a. apply andb_comm.
  Qed.

  Lemma filter_sorted (R : A -> A -> Prop) (p : A -> bool) l :
    StronglySorted R l -> StronglySorted R (filter p l).
  Proof.
    induction 1 as [|a l Hs IH Ha]; cbn [filter]; [constructor|].
    destruct (p a); [|exact IH]. constructor; [exact IH|].
    rewrite Forall_forall in Ha |- *. intros z Hz. apply filter_In in Hz as [Hz _]. auto.
  Qed.

  Lemma filter_ok (p : A -> bool) l : Forall ok l -> Forall ok (filter p l).
  Proof.
    rewrite !Forall_forall. intros H z Hz. apply filter_In in Hz as [Hz _]. auto.
  Qed.

  (* a list sorted by lt1 whose lt1-classes are each sorted by lt2 is sorted lexicographically *)
  Lemma sorted_lex lt1 lt2 (S1 : swo lt1) (S2 : swo lt2) : forall l,
    Forall ok l -> StronglySorted (le_of lt1) l ->
    (forall z, ok z -> StronglySorted (le_of lt2) (filter (eqv_of lt1 z) l)) ->
    StronglySorted (le_of (lex lt1 lt2)) l.
  Proof.
    induction l as [|a l IH]; intros Ho Hs Hc; [constructor|].
    inversion Ho as [|? ? Ha Ho']; subst. inversion Hs as [|? ? Hs' Hall]; subst.
    constructor.
    - apply IH; auto. intros z Hz. specialize (Hc z Hz). cbn [filter] in Hc.
      destruct (eqv_of lt1 z a); [inversion Hc; assumption | exact Hc].
    - rewrite Forall_forall in Hall, Ho' |- *. intros y Hy. unfold le_of, lex.
      rewrite (Hall y Hy). cbn [orb].
      destruct (lt1 a y) eqn:Hay; [reflexivity|]. cbn [negb andb].
      specialize (Hc a Ha). cbn [filter] in Hc. rewrite (eqv_refl lt1 S1 a Ha) in Hc.
      inversion Hc as [|? ? _ Hall2]; subst. rewrite Forall_forall in Hall2.
      apply Hall2. apply filter_In. split; [exact Hy|]. unfold eqv_of. rewrite Hay, (Hall y Hy). reflexivity.
  Qed.

  (* ---------- two passes = one lexicographic pass *)
  Theorem two_pass lt1 lt2 (S1 : swo lt1) (S2 : swo lt2) l :
    Forall ok l -> isort lt1 (isort lt2 l) = isort (lex lt1 lt2) l.
  Proof.
    intros Ho. pose proof (lex_swo lt1 lt2 S1 S2) as SL.
    apply (sorted_stable_unique (lex lt1 lt2) SL).
    - apply isort_ok, isort_ok, Ho.
    - apply isort_ok, Ho.
    - apply sorted_lex; auto.
      + apply isort_ok, isort_ok, Ho.
      + apply isort_sorted; auto. apply isort_ok, Ho.
      + intros z Hz. rewrite isort_stable; auto using isort_ok.
        apply filter_sorted. apply isort_sorted; auto.
    - apply isort_sorted; auto.
    - intros z Hz.
      rewrite (filter_ext _ _ (eqv_lex lt1 lt2 z)), !filter_andb.
      rewrite (isort_stable lt1 S1 z); auto using isort_ok.
      rewrite filter_comm, (isort_stable lt2 S2 z); auto.
      rewrite filter_comm, <- filter_andb.
      rewrite (isort_stable (lex lt1 lt2) SL z); auto.
      apply filter_ext. intros a. symmetry. apply eqv_lex.
  Qed.

  (* ---------- any number of passes *)
  Fixpoint lexn (lts : list (A -> A -> bool)) : A -> A -> bool :=
    match lts with
    | [] => fun _ _ => false
    | lt :: r => lex lt (lexn r)
    end.

  (* for lt in reversed(lts): l = sorted(l, lt)   -- the FIRST order is applied last *)
  Fixpoint multi_pass (lts : list (A -> A -> bool)) l : list A :=
    match lts with
    | [] => l
    | lt :: r => isort lt (multi_pass r l)
    end.

  Lemma lexn_swo lts : Forall swo lts -> swo (lexn lts).
  Proof.
    induction 1 as [|lt r Hlt Hr IH]; cbn [lexn].
    - split; intros; congruence.
    - apply lex_swo; assumption.
  Qed.

  Lemma isort_trivial l : isort (fun _ _ : A => false) l = l.
  Proof.
    induction l as [|x l IH]; [reflexivity|]. cbn [isort]. rewrite IH. destruct l; reflexivity.
  Qed.

  Theorem multi_pass_lex lts : Forall swo lts -> forall l, Forall ok l -> multi_pass lts l = isort (lexn lts) l.
  Proof.
    induction 1 as [|lt r Hlt Hr IH]; intros l Ho; cbn [multi_pass lexn].
    - symmetry. apply isort_trivial.
    - rewrite IH; auto. apply two_pass; auto. apply lexn_swo; assumption.
  Qed.

  (* the specification of a stable sort *)
  Theorem isort_spec lt (S : swo lt) l :
    Forall ok l ->
    Permutation (isort lt l) l /\
    StronglySorted (le_of lt) (isort lt l) /\
    (forall z, ok z -> filter (eqv_of lt z) (isort lt l) = filter (eqv_of lt z) l).
  Proof.
    intros Ho. split; [apply isort_perm|]. split; [apply isort_sorted; auto|].
    intros z Hz. apply isort_stable; auto.
  Qed.
End SWO.
