(* Lemmas for C06 (PV.Model.Lazy). *)
From Coq Require Import ZArith List Bool Permutation Lia.
Require Import PV.Model.Lazy.
Import ListNotations.
Open Scope Z_scope.

(* ---- defining a lineage logs nothing ----------------------------------------------------------------------- *)
Lemma define_all_from : forall stages lin log,
  fold_left define stages (lin, log) = (lin ++ stages, log).
Proof.
  induction stages as [|s r IH]; intros lin log; simpl.
  - now rewrite app_nil_r.
  - unfold define at 2; simpl. rewrite IH, <- app_assoc. reflexivity.
Qed.

Lemma define_all_silent : forall stages, define_all stages = (stages, []).
Proof. intros stages. unfold define_all. now rewrite define_all_from. Qed.
