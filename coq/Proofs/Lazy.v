(* Lemmas for C06 (PV.Model.Lazy). *)
From Coq Require Import ZArith List Bool Permutation Lia.
Require Import PV.Model.Lazy.
Import ListNotations.
Open Scope Z_scope.

(* ---- defining a lineage logs nothing ----------------------------------------------------------------------- *)
Lemma define_all_from : forall stages lin log seen,
  fold_left define stages (lin, log, seen) = (lin ++ stages, log, seen ++ repeat (length log) (length stages)).
Proof.
  induction stages as [|s r IH]; intros lin log seen; simpl.
  - now rewrite !app_nil_r.
  - rewrite IH, <- !app_assoc. reflexivity.
Qed.

Lemma define_all_silent : forall stages,
  define_all stages = (stages, [], repeat 0%nat (S (length stages))).
Proof. intros stages. unfold define_all. now rewrite define_all_from. Qed.

(* ---- traces --------------------------------------------------------------------------------------------------- *)
Lemma events_app : forall t1 t2, events (t1 ++ t2) = events t1 ++ events t2.
Proof. induction t1 as [|[e|v] t IH]; intros t2; simpl; rewrite ?IH; reflexivity. Qed.
Lemma outs_app : forall t1 t2, outs (t1 ++ t2) = outs t1 ++ outs t2.
Proof. induction t1 as [|[e|v] t IH]; intros t2; simpl; rewrite ?IH; reflexivity. Qed.
Lemma events_map_Out : forall l, events (map Out l) = [].
Proof. induction l; simpl; auto. Qed.
Lemma outs_map_Out : forall l, outs (map Out l) = l.
Proof. induction l; simpl; congruence. Qed.
Lemma events_map_Ev : forall l, events (map Ev l) = l.
Proof. induction l; simpl; congruence. Qed.
Lemma outs_map_Ev : forall l, outs (map Ev l) = [].
Proof. induction l; simpl; auto. Qed.

Lemma flat_map_single : forall l : list Z, flat_map (fun a => [a]) l = l.
Proof. induction l; simpl; congruence. Qed.

(* ---- a generator expression: same outputs as the plain list, one call per pulled element -------------------- *)
Lemma lazy_stage_outs : forall s p k t j, outs (lazy_stage s p k j t) = flat_map k (outs t).
Proof.
  intros s p k. induction t as [|[e|a] t IH]; intros j; simpl; auto.
  rewrite outs_app, outs_map_Out, IH. reflexivity.
Qed.

Lemma lazy_stage_events : forall s p k t j,
  Permutation (events (lazy_stage s p k j t)) (events t ++ enum_events s p j (outs t)).
Proof.
  intros s p k. induction t as [|[e|a] t IH]; intros j; simpl.
  - constructor.
  - constructor. apply IH.
  - rewrite events_app, events_map_Out. simpl. apply Permutation_cons_app. apply IH.
Qed.

Lemma silent_stage_outs : forall f t, outs (silent_stage f t) = map f (outs t).
Proof. intros f. induction t as [|[e|a] t IH]; simpl; auto. now rewrite IH. Qed.
Lemma silent_stage_events : forall f t, events (silent_stage f t) = events t.
Proof. intros f. induction t as [|[e|a] t IH]; simpl; auto. now rewrite IH. Qed.

Lemma skip_stage_outs : forall s p t j f, outs (skip_stage s p j f t) = outs t.
Proof.
  intros s p. induction t as [|[e|a] t IH]; intros j f; simpl; auto.
  destruct f; simpl; rewrite IH; reflexivity.
Qed.

Lemma skip_stage_events : forall s p t j f,
  Permutation (events (skip_stage s p j f t))
              (events t ++ enum_events s p j (if f then tl (outs t) else outs t)).
Proof.
  intros s p. induction t as [|[e|a] t IH]; intros j f; simpl.
  - destruct f; simpl; constructor.
  - constructor. apply IH.
  - destruct f; simpl.
    + apply (IH j false).
    + apply Permutation_cons_app. apply (IH (j + 1) false).
Qed.

(* ---- one stage, a pipeline, a partition ----------------------------------------------------------------------- *)
Lemma perm_insert : forall (c e : list event) x, Permutation (c ++ x :: e) ((c ++ e) ++ [x]).
Proof.
  intros c e x. rewrite <- app_assoc. apply Permutation_app_head.
  change (x :: e) with ([x] ++ e). apply Permutation_app_comm.
Qed.

Lemma run_stage_spec : forall s p st pt,
  all_outs (run_stage s p st pt) = sem_stage st (all_outs pt) /\
  Permutation (all_events (run_stage s p st pt)) (all_events pt ++ own_events s p st (all_outs pt)).
Proof.
  intros s p st [cr b]. unfold all_outs, all_events.
  destruct st as [f|q|g|m| |wi h| |f0]; simpl.
  1-4: (split; [apply lazy_stage_outs |
                rewrite <- app_assoc; apply Permutation_app_head; apply lazy_stage_events]).
  - rewrite outs_map_Out, events_map_Out, !app_nil_r. split; auto.
  - rewrite outs_map_Out, events_map_Out, app_nil_r. split; auto. apply perm_insert.
  - rewrite outs_app, outs_map_Ev, events_app, events_map_Ev. simpl. rewrite app_nil_r. split; auto.
    apply perm_insert.
  - rewrite silent_stage_outs, silent_stage_events, app_nil_r. split; auto.
Qed.

Lemma run_from_spec : forall stages s p pt,
  all_outs (run_from s p stages pt) = sem_pipe stages (all_outs pt) /\
  Permutation (all_events (run_from s p stages pt)) (all_events pt ++ exp_from s p stages (all_outs pt)).
Proof.
  induction stages as [|st rest IH]; intros s p pt; simpl.
  - rewrite app_nil_r. split; auto.
  - destruct (run_stage_spec s p st pt) as [Ho He].
    destruct (IH (s + 1) p (run_stage s p st pt)) as [Ho' He'].
    rewrite Ho in Ho', He'. split; auto.
    rewrite He'. rewrite He. rewrite <- app_assoc. reflexivity.
Qed.

Lemma run_part_outs : forall p stages xs, all_outs (run_part p stages xs) = sem_pipe stages xs.
Proof.
  intros p stages xs. unfold run_part. destruct (run_from_spec stages 1 p (source p xs)) as [H _].
  rewrite H. unfold source, all_outs; simpl. rewrite lazy_stage_outs, outs_map_Out, flat_map_single. reflexivity.
Qed.

Lemma run_part_events : forall p stages xs,
  Permutation (all_events (run_part p stages xs)) (part_events p stages xs).
Proof.
  intros p stages xs. unfold run_part, part_events.
  destruct (run_from_spec stages 1 p (source p xs)) as [_ H]. rewrite H.
  assert (Ho : all_outs (source p xs) = xs).
  { unfold source, all_outs; simpl. now rewrite lazy_stage_outs, outs_map_Out, flat_map_single. }
  rewrite Ho. apply Permutation_app_tail.
  unfold source, all_events; simpl. rewrite lazy_stage_events, events_map_Out, outs_map_Out. reflexivity.
Qed.

(* ---- single-pass jobs ----------------------------------------------------------------------------------------- *)
Lemma act_body_outs : forall a sa p t, outs (act_body a sa p t) = outs t.
Proof.
  intros a sa p t. destruct a; simpl; auto;
    try (rewrite lazy_stage_outs; apply flat_map_single); apply skip_stage_outs.
Qed.

Lemma act_body_events : forall a sa p t,
  Permutation (events (act_body a sa p t)) (events t ++ act_events a sa p (outs t)).
Proof.
  intros a sa p t. destruct a; simpl; rewrite ?app_nil_r; auto;
    try apply lazy_stage_events. apply (skip_stage_events sa p t 0 true).
Qed.

Lemma perm_rearrange : forall (X Y A B C D E : list event),
  Permutation X (A ++ B) -> Permutation Y (C ++ D) ->
  Permutation (X ++ E ++ Y) ((A ++ C) ++ (B ++ E ++ D)).
Proof.
  intros X Y A B C D E HX HY. rewrite HX, HY.
  rewrite <- !app_assoc. apply Permutation_app_head.
  rewrite (app_assoc B E (C ++ D)). rewrite (app_assoc B E D).
  apply Permutation_app_swap_app.
Qed.

Definition task_of (stages : list stage) (px : Z * list Z) : Z * ptrace :=
  (fst px, run_part (fst px) stages (snd px)).

Lemma indexed_map : forall (A B : Type) (f : A -> B) l i,
  indexed i (map f l) = map (fun px => (fst px, f (snd px))) (indexed i l).
Proof. induction l as [|x r IH]; intros i; simpl; auto. now rewrite IH. Qed.

(* the calls of the action's function that happen while the partitions are being processed *)
Fixpoint mid_loop (a : action) (sa : Z) (st : option Z * Z) (os : list (Z * list Z)) : list event :=
  match os with
  | [] => []
  | (p, o) :: rest =>
      let ce := comb_step a sa p st o in
      act_events a sa p o ++ (if deferred a then [] else fst ce) ++ mid_loop a sa (snd ce) rest
  end.

Lemma job_loop_perm : forall a sa stages parts i st,
  Permutation (job_loop a sa st (map (task_of stages) (indexed i parts)))
              (concat (map (fun px => part_events (fst px) stages (snd px)) (indexed i parts))
               ++ mid_loop a sa st (indexed i (map (sem_pipe stages) parts))).
Proof.
  intros a sa stages. induction parts as [|xs rest IH]; intros i st; simpl.
  - constructor.
  - rewrite act_body_outs.
    change (outs (body (run_part i stages xs))) with (all_outs (run_part i stages xs)).
    rewrite run_part_outs.
    set (ce := comb_step a sa i st (sem_pipe stages xs)).
    apply perm_rearrange.
    + rewrite act_body_events.
      change (outs (body (run_part i stages xs))) with (all_outs (run_part i stages xs)).
      rewrite run_part_outs. rewrite app_assoc. apply Permutation_app_tail.
      apply run_part_events.
    + apply IH.
Qed.

Lemma mid_loop_split : forall a sa os st,
  Permutation (mid_loop a sa st os ++ (if deferred a then comb_loop a sa st os else []))
              (action_loop a sa st os).
Proof.
  intros a sa. induction os as [|[p o] rest IH]; intros st; simpl.
  - destruct (deferred a); constructor.
  - specialize (IH (snd (comb_step a sa p st o))). destruct (deferred a); simpl.
    + rewrite <- app_assoc. apply Permutation_app_head.
      rewrite Permutation_app_swap_app. apply Permutation_app_head. exact IH.
    + rewrite app_nil_r in *. apply Permutation_app_head. apply Permutation_app_head. exact IH.
Qed.

Lemma tasks_outs_indexed : forall stages parts i,
  map (fun t : Z * ptrace => (fst t, all_outs (snd t))) (map (task_of stages) (indexed i parts)) =
  indexed i (map (sem_pipe stages) parts).
Proof.
  intros stages. induction parts as [|xs rest IH]; intros i; simpl; auto.
  rewrite IH, run_part_outs. reflexivity.
Qed.

Lemma job_log_perm : forall a stages parts,
  Permutation (job_log a stages parts) (pipeline_events stages parts ++ action_events a stages parts).
Proof.
  intros. unfold job_log, tasks, pipeline_events, action_events.
  fold (task_of stages). rewrite tasks_outs_indexed.
  rewrite job_loop_perm, <- app_assoc. apply Permutation_app_head. apply mid_loop_split.
Qed.

(* ---- the expected events are pairwise distinct ----------------------------------------------------------------- *)
Definition epid (e : event) : Z := match e with (_, p, _, _) => p end.
Definition eidx (e : event) : Z := match e with (_, _, j, _) => j end.

Lemma NoDup_app_intro : forall (A : Type) (l1 l2 : list A),
  NoDup l1 -> NoDup l2 -> (forall x, In x l1 -> ~ In x l2) -> NoDup (l1 ++ l2).
Proof.
  induction l1 as [|a l1 IH]; intros l2 H1 H2 D; simpl; auto.
  inversion H1; subst. constructor.
  - rewrite in_app_iff. intros [H|H]; [contradiction | apply (D a); simpl; auto].
  - apply IH; auto. intros x Hx. apply D. simpl; auto.
Qed.

Lemma NoDup_app_l : forall (A : Type) (l1 l2 : list A), NoDup (l1 ++ l2) -> NoDup l1.
Proof.
  induction l1 as [|a l1 IH]; intros l2 H; [constructor|].
  simpl in H. inversion H; subst. constructor.
  - intros C. apply H2. apply in_or_app. auto.
  - eapply IH; eauto.
Qed.

Lemma enum_events_in : forall s p l j e,
  In e (enum_events s p j l) -> estage e = s /\ epid e = p /\ j <= eidx e.
Proof.
  intros s p. induction l as [|a r IH]; intros j e H; simpl in H; [contradiction|].
  destruct H as [H|H].
  - subst e; simpl. repeat split; lia.
  - destruct (IH _ _ H) as (H1 & H2 & H3). repeat split; auto; lia.
Qed.

Lemma enum_events_nth : forall s p l j i a,
  nth_error l i = Some a -> In (s, p, j + Z.of_nat i, a) (enum_events s p j l).
Proof.
  intros s p. induction l as [|b r IH]; intros j i a H; destruct i; simpl in *; try discriminate.
  - inversion H; subst. left. do 2 f_equal; lia.
  - right. replace (j + Z.pos (Pos.of_succ_nat i)) with ((j + 1) + Z.of_nat i) by lia. apply IH; auto.
Qed.

Lemma enum_events_inv : forall s p l j e,
  In e (enum_events s p j l) ->
  exists i a, nth_error l i = Some a /\ e = (s, p, j + Z.of_nat i, a).
Proof.
  intros s p. induction l as [|b r IH]; intros j e H; simpl in H; [contradiction|].
  destruct H as [H|H].
  - exists 0%nat, b. split; auto. subst e. do 2 f_equal; lia.
  - destruct (IH _ _ H) as (i & a & Hn & He). exists (S i), a. split; auto.
    subst e. do 2 f_equal; lia.
Qed.

Lemma enum_events_NoDup : forall s p l j, NoDup (enum_events s p j l).
Proof.
  intros s p. induction l as [|a r IH]; intros j; simpl; constructor; auto.
  intros H. apply enum_events_in in H. simpl in H. lia.
Qed.

Lemma epart_of_pid : forall e p, 0 <= p -> epid e = p -> epart e = p.
Proof.
  intros [[[s q] j] v] p Hp H; simpl in *. subst q.
  destruct (p =? -1) eqn:E; auto. apply Z.eqb_eq in E. lia.
Qed.

Lemma own_events_in : forall s p st xs e, 0 <= p ->
  In e (own_events s p st xs) -> estage e = s /\ epart e = p.
Proof.
  intros s p st xs e Hp H.
  assert (Henum : forall l, In e (enum_events s p 0 l) -> estage e = s /\ epart e = p).
  { intros l Hl. apply enum_events_in in Hl. destruct Hl as (H1 & H2 & _). split; auto.
    apply epart_of_pid; auto. }
  destruct st as [f|q|g|m| |wi h| |f0]; simpl in H; eauto.
  4: contradiction.
  - contradiction.
  - destruct H as [H|[]]. subst e. unfold call_event. destruct wi; simpl; split; auto.
    destruct (p =? -1) eqn:E; auto. apply Z.eqb_eq in E. lia.
  - destruct H as [H|[]]. subst e; simpl. split; auto.
    destruct (p =? -1) eqn:E; auto. apply Z.eqb_eq in E. lia.
Qed.

Lemma own_events_NoDup : forall s p st xs, NoDup (own_events s p st xs).
Proof.
  intros s p st xs. destruct st; simpl; try apply enum_events_NoDup; repeat constructor; simpl; tauto.
Qed.

Lemma exp_from_in : forall stages s p xs e, 0 <= p ->
  In e (exp_from s p stages xs) -> s <= estage e < s + Z.of_nat (length stages) /\ epart e = p.
Proof.
  induction stages as [|st rest IH]; intros s p xs e Hp H; simpl in H; [contradiction|].
  apply in_app_or in H. destruct H as [H|H].
  - apply own_events_in in H; auto. destruct H. split; auto. simpl length. lia.
  - apply IH in H; auto. destruct H. split; auto. simpl length. lia.
Qed.

Lemma exp_from_NoDup : forall stages s p xs, 0 <= p -> NoDup (exp_from s p stages xs).
Proof.
  induction stages as [|st rest IH]; intros s p xs Hp; simpl; [constructor|].
  apply NoDup_app_intro; auto using own_events_NoDup.
  intros e H1 H2. apply own_events_in in H1; auto. apply exp_from_in in H2; auto. lia.
Qed.

Lemma part_events_in : forall p stages xs e, 0 <= p ->
  In e (part_events p stages xs) -> 0 <= estage e <= Z.of_nat (length stages) /\ epart e = p.
Proof.
  intros p stages xs e Hp H. unfold part_events in H. apply in_app_or in H. destruct H as [H|H].
  - apply enum_events_in in H. destruct H as (H1 & H2 & _). split; [lia|]. apply epart_of_pid; auto.
  - apply exp_from_in in H; auto. destruct H. split; auto. lia.
Qed.

Lemma part_events_NoDup : forall p stages xs, 0 <= p -> NoDup (part_events p stages xs).
Proof.
  intros p stages xs Hp. unfold part_events. apply NoDup_app_intro.
  - apply enum_events_NoDup.
  - apply exp_from_NoDup; auto.
  - intros e H1 H2. apply enum_events_in in H1. apply exp_from_in in H2; auto. lia.
Qed.

Definition pe (stages : list stage) (px : Z * list Z) : list event := part_events (fst px) stages (snd px).

Lemma indexed_in : forall (A : Type) (l : list A) i p x, In (p, x) (indexed i l) -> i <= p < i + Z.of_nat (length l).
Proof.
  induction l as [|y r IH]; intros i p x H; simpl in H; [contradiction|].
  destruct H as [H|H].
  - inversion H; subst. simpl length. lia.
  - apply IH in H. simpl length. lia.
Qed.

Lemma pipeline_from_in : forall stages parts i e, 0 <= i ->
  In e (concat (map (pe stages) (indexed i parts))) ->
  0 <= estage e <= Z.of_nat (length stages) /\ i <= epart e < i + Z.of_nat (length parts).
Proof.
  intros stages parts i e Hi H. apply in_concat in H. destruct H as (l & Hl & He).
  apply in_map_iff in Hl. destruct Hl as ([p xs] & Hpe & Hin). subst l. unfold pe in He; simpl in He.
  apply indexed_in in Hin. apply part_events_in in He; [|lia]. destruct He. split; auto. lia.
Qed.

Lemma pipeline_from_NoDup : forall stages parts i, 0 <= i -> NoDup (concat (map (pe stages) (indexed i parts))).
Proof.
  intros stages. induction parts as [|xs rest IH]; intros i Hi; simpl; [constructor|].
  apply NoDup_app_intro.
  - unfold pe; simpl. apply part_events_NoDup; auto.
  - apply IH. lia.
  - intros e H1 H2. unfold pe in H1; simpl in H1. apply part_events_in in H1; auto.
    apply pipeline_from_in in H2; [|lia]. lia.
Qed.

Lemma pipeline_events_NoDup : forall stages parts, NoDup (pipeline_events stages parts).
Proof. intros. apply (pipeline_from_NoDup stages parts 0). lia. Qed.

Lemma pipeline_events_in : forall stages parts e, In e (pipeline_events stages parts) ->
  0 <= estage e <= Z.of_nat (length stages) /\ 0 <= epart e < Z.of_nat (length parts).
Proof. intros stages parts e H. apply (pipeline_from_in stages parts 0) in H; lia. Qed.

(* ---- take ------------------------------------------------------------------------------------------------------ *)
Lemma take_trace_spec : forall t n l o r, take_trace n t = (l, o, r) ->
  (exists suf, events t = l ++ suf) /\ (r <> 0%nat -> l = events t) /\
  o = firstn n (outs t) /\ r = (n - length (outs t))%nat.
Proof.
  induction t as [|[e|a] t IH]; intros n l o r H; destruct n as [|n']; simpl in H.
  - inversion H; subst. repeat split; auto. exists []; auto.
  - inversion H; subst. repeat split; auto. exists []; auto.
  - inversion H; subst. repeat split; auto; [eexists; simpl; reflexivity | intros C; congruence].
  - destruct (take_trace (S n') t) as [[l1 o1] r1] eqn:E. inversion H; subst.
    destruct (IH _ _ _ _ E) as ((suf & Hs) & Hr & Ho & Hn). simpl outs. simpl events.
    repeat split; auto.
    + exists suf. rewrite Hs. reflexivity.
    + intros C. rewrite (Hr C). reflexivity.
  - inversion H; subst. repeat split; auto; [eexists; simpl; reflexivity | intros C; congruence].
  - destruct (take_trace n' t) as [[l1 o1] r1] eqn:E. inversion H; subst.
    destruct (IH _ _ _ _ E) as ((suf & Hs) & Hr & Ho & Hn). simpl outs. simpl events.
    split; [|split; [|split]].
    + exists suf. exact Hs.
    + exact Hr.
    + simpl. rewrite Ho. reflexivity.
    + simpl. exact Hn.
Qed.

Definition ev_of (t : Z * ptrace) : list event := all_events (snd t).
Definition out_of (t : Z * ptrace) : list Z := all_outs (snd t).

Lemma take_parts_zero : forall ts, take_parts 0 ts = ([], []).
Proof. destruct ts; reflexivity. Qed.

Lemma take_parts_spec : forall ts n l o, take_parts n ts = (l, o) ->
  (exists suf, concat (map ev_of ts) = l ++ suf) /\ o = firstn n (concat (map out_of ts)).
Proof.
  induction ts as [|[p pt] rest IH]; intros n l o H.
  - destruct n; simpl in H; inversion H; subst; simpl; split; eauto.
  - destruct n as [|n']; [rewrite take_parts_zero in H; inversion H; subst; simpl; split; eauto|].
    simpl in H. destruct (take_trace (S n') (body pt)) as [[l1 o1] r] eqn:E1.
    destruct (take_parts r rest) as [l2 o2] eqn:E2. inversion H; subst. clear H.
    destruct (take_trace_spec _ _ _ _ _ E1) as ((suf1 & Hs1) & Hr & Ho1 & Hn).
    destruct (IH _ _ _ E2) as ((suf2 & Hs2) & Ho2).
    simpl map. simpl concat. split.
    + unfold ev_of at 1, all_events. simpl snd.
      destruct r as [|r'].
      * rewrite take_parts_zero in E2. inversion E2; subst. rewrite Hs1.
        exists (suf1 ++ concat (map ev_of rest)). rewrite app_nil_r, <- !app_assoc. reflexivity.
      * rewrite (Hr ltac:(discriminate)), Hs2. exists suf2. rewrite <- !app_assoc. reflexivity.
    + unfold out_of at 1, all_outs. simpl snd. rewrite firstn_app, <- Ho1, <- Hn, <- Ho2. reflexivity.
Qed.

Lemma take_parts_frontier : forall ts n q l o, take_parts n ts = (l, o) ->
  (n <= length (concat (map out_of (firstn (S q) ts))))%nat ->
  exists suf, concat (map ev_of (firstn (S q) ts)) = l ++ suf.
Proof.
  induction ts as [|[p pt] rest IH]; intros n q l o H Hn.
  - destruct n; simpl in H; inversion H; subst; simpl; eauto.
  - destruct n as [|n']; [rewrite take_parts_zero in H; inversion H; subst; simpl; eauto|].
    simpl in H. destruct (take_trace (S n') (body pt)) as [[l1 o1] r] eqn:E1.
    destruct (take_parts r rest) as [l2 o2] eqn:E2. inversion H; subst. clear H.
    destruct (take_trace_spec _ _ _ _ _ E1) as ((suf1 & Hs1) & Hr & Ho1 & Hr2).
    change (firstn (S q) ((p, pt) :: rest)) with ((p, pt) :: firstn q rest) in *.
    simpl map in Hn |- *. simpl concat in Hn |- *. unfold ev_of at 1, all_events. unfold out_of at 1, all_outs in Hn.
    simpl snd in Hn |- *. rewrite app_length in Hn.
    destruct r as [|r'].
    + rewrite take_parts_zero in E2. inversion E2; subst. rewrite Hs1.
      exists (suf1 ++ concat (map ev_of (firstn q rest))). rewrite app_nil_r, <- !app_assoc. reflexivity.
    + destruct q as [|q'].
      * simpl in Hn. lia.
      * destruct (IH (S r') q' l2 o2 E2) as (suf2 & Hs2); [lia|].
        rewrite (Hr ltac:(discriminate)), Hs2. exists suf2. rewrite <- !app_assoc. reflexivity.
Qed.

Lemma tasks_eq : forall stages parts, tasks stages parts = map (task_of stages) (indexed 0 parts).
Proof. reflexivity. Qed.

Lemma tasks_outs_from : forall stages parts i,
  map out_of (map (task_of stages) (indexed i parts)) = map (sem_pipe stages) parts.
Proof.
  intros stages. induction parts as [|xs rest IH]; intros i; simpl; auto.
  rewrite IH. unfold out_of at 1. simpl. now rewrite run_part_outs.
Qed.

Lemma tasks_outs : forall stages parts, map out_of (tasks stages parts) = map (sem_pipe stages) parts.
Proof. intros. apply tasks_outs_from. Qed.

Lemma tasks_events_from : forall stages parts i,
  Permutation (concat (map ev_of (map (task_of stages) (indexed i parts))))
              (concat (map (pe stages) (indexed i parts))).
Proof.
  intros stages. induction parts as [|xs rest IH]; intros i; simpl; auto.
  apply Permutation_app; [|apply IH]. unfold ev_of, pe; simpl. apply run_part_events.
Qed.

Lemma tasks_events : forall stages parts,
  Permutation (concat (map ev_of (tasks stages parts))) (pipeline_events stages parts).
Proof. intros. apply tasks_events_from. Qed.

Lemma drain_NoDup : forall stages parts, NoDup (concat (map ev_of (tasks stages parts))).
Proof.
  intros. eapply Permutation_NoDup; [symmetry; apply tasks_events | apply pipeline_events_NoDup].
Qed.

(* collect drains every task, one after the other *)
Lemma job_loop_collect : forall sa ts st, job_loop ACollect sa st ts = concat (map ev_of ts).
Proof.
  intros sa. induction ts as [|[p pt] rest IH]; intros st; simpl; auto.
  rewrite IH. reflexivity.
Qed.

Lemma collect_log_drain : forall stages parts,
  job_log ACollect stages parts = concat (map ev_of (tasks stages parts)).
Proof. intros. unfold job_log. simpl. rewrite app_nil_r. apply job_loop_collect. Qed.

Lemma take_log_prefix : forall n stages parts,
  exists suf, job_log ACollect stages parts = take_log n stages parts ++ suf.
Proof.
  intros n stages parts. rewrite collect_log_drain. unfold take_log.
  destruct (take_parts n (tasks stages parts)) as [l o] eqn:E.
  destruct (take_parts_spec _ _ _ _ E) as [H _]. exact H.
Qed.

Lemma take_log_NoDup : forall n stages parts, NoDup (take_log n stages parts).
Proof.
  intros n stages parts. destruct (take_log_prefix n stages parts) as (suf & H).
  pose proof (drain_NoDup stages parts) as D. rewrite <- collect_log_drain, H in D.
  eapply NoDup_app_l. exact D.
Qed.

Lemma take_result_spec : forall n stages parts,
  take_result n stages parts = firstn n (concat (map (sem_pipe stages) parts)).
Proof.
  intros n stages parts. unfold take_result.
  destruct (take_parts n (tasks stages parts)) as [l o] eqn:E.
  destruct (take_parts_spec _ _ _ _ E) as [_ H]. simpl. rewrite H, tasks_outs. reflexivity.
Qed.

Lemma take_zero_silent : forall stages parts, take_log 0 stages parts = [].
Proof. intros. unfold take_log. now rewrite take_parts_zero. Qed.

Lemma firstn_indexed_in : forall (A : Type) (l : list A) k i p x,
  In (p, x) (firstn k (indexed i l)) -> i <= p < i + Z.of_nat k.
Proof.
  induction l as [|y r IH]; intros k i p x H; destruct k; simpl in H; try contradiction.
  destruct H as [H|H].
  - inversion H; subst. lia.
  - apply IH in H. lia.
Qed.

Lemma take_log_frontier : forall n stages parts q e,
  (n <= length (concat (firstn (S q) (map (sem_pipe stages) parts))))%nat ->
  In e (take_log n stages parts) -> 0 <= epart e <= Z.of_nat q.
Proof.
  intros n stages parts q e Hn He. unfold take_log in He.
  destruct (take_parts n (tasks stages parts)) as [l o] eqn:E. simpl in He.
  destruct (take_parts_frontier _ _ q _ _ E) as (suf & Hs).
  - rewrite <- firstn_map, tasks_outs. exact Hn.
  - assert (Hin : In e (concat (map ev_of (firstn (S q) (tasks stages parts))))).
    { rewrite Hs. apply in_or_app. auto. }
    apply in_concat in Hin. destruct Hin as (l' & Hl' & Hel').
    apply in_map_iff in Hl'. destruct Hl' as ([p pt] & Hev & Hin). subst l'.
    rewrite tasks_eq, firstn_map in Hin. apply in_map_iff in Hin.
    destruct Hin as ([p' xs] & Ht & Hin). unfold task_of in Ht; simpl in Ht. inversion Ht; subst. clear Ht.
    apply firstn_indexed_in in Hin. unfold ev_of in Hel'; simpl in Hel'.
    apply (Permutation_in _ (run_part_events p stages xs)) in Hel'.
    apply part_events_in in Hel'; [|lia]. lia.
Qed.

(* ---- the action's own function(s): expected calls are pairwise distinct and distinct from pipeline calls ------ *)
Definition nonreduce (a : action) : Prop := match a with AReduce _ => False | _ => True end.

Definition mk_act (a : action) (sa : Z) (st : option Z * Z) (po : Z * list Z) : list event :=
  act_events a sa (fst po) (snd po) ++ fst (comb_step a sa (fst po) st (snd po)).

Lemma action_loop_nonreduce : forall a sa st l, nonreduce a ->
  action_loop a sa st l = concat (map (mk_act a sa st) l).
Proof.
  intros a sa st l Ha. induction l as [|[p o] r IH]; simpl; auto.
  assert (E : snd (comb_step a sa p st o) = st) by (destruct a; simpl; auto; contradiction).
  rewrite E, IH. unfold mk_act at 2; simpl. now rewrite app_assoc.
Qed.

Lemma mk_act_in : forall a sa st p o e, nonreduce a -> 0 <= p ->
  In e (mk_act a sa st (p, o)) -> sa <= estage e <= sa + 1 /\ epart e = p.
Proof.
  intros a sa st p o e Ha Hp H. unfold mk_act in H; simpl in H. apply in_app_or in H.
  assert (Hm1 : (p =? -1) = false) by (apply Z.eqb_neq; lia).
  destruct a; simpl in H; try contradiction; try (destruct H; contradiction);
    destruct H as [H|H]; try contradiction;
    try (apply enum_events_in in H; destruct H as (H1 & H2 & _); split; [lia | apply epart_of_pid; auto]);
    try (destruct H as [H|[]]; subst e; simpl; split; [lia | reflexivity]).
Qed.

Lemma mk_act_NoDup : forall a sa st p o, nonreduce a -> 0 <= p -> NoDup (mk_act a sa st (p, o)).
Proof.
  intros a sa st p o Ha Hp. unfold mk_act; simpl.
  destruct a; simpl; try contradiction; rewrite ?app_nil_r; try constructor; try apply enum_events_NoDup.
  all: apply NoDup_app_intro; [apply enum_events_NoDup | repeat constructor; simpl; tauto |].
  all: intros e H1 [H2|[]]; subst e; apply enum_events_in in H1; simpl in H1; lia.
Qed.

Lemma nonreduce_loop_in : forall a sa st os i e, nonreduce a -> 0 <= i ->
  In e (concat (map (mk_act a sa st) (indexed i os))) -> sa <= estage e <= sa + 1 /\ i <= epart e.
Proof.
  intros a sa st os i e Ha Hi H. apply in_concat in H. destruct H as (l & Hl & He).
  apply in_map_iff in Hl. destruct Hl as ([p o] & Hm & Hin). subst l.
  apply indexed_in in Hin. apply mk_act_in in He; auto; lia.
Qed.

Lemma nonreduce_loop_NoDup : forall a sa st os i, nonreduce a -> 0 <= i ->
  NoDup (concat (map (mk_act a sa st) (indexed i os))).
Proof.
  intros a sa st. induction os as [|o rest IH]; intros i Ha Hi; simpl; [constructor|].
  apply NoDup_app_intro.
  - apply mk_act_NoDup; auto.
  - apply IH; auto; lia.
  - intros e H1 H2. apply mk_act_in in H1; auto. apply nonreduce_loop_in in H2; auto; lia.
Qed.

Lemma reduce_loop_spec : forall op sa os i acc c, 0 <= i ->
  NoDup (action_loop (AReduce op) sa (acc, c) (indexed i os)) /\
  forall e, In e (action_loop (AReduce op) sa (acc, c) (indexed i os)) ->
    estage e = sa /\ ((epid e = -1 /\ c <= eidx e) \/ i <= epid e).
Proof.
  intros op sa. induction os as [|o rest IH]; intros i acc c Hi; [simpl; split; [constructor | contradiction]|].
  assert (Hi1 : 0 <= i + 1) by lia.
  simpl indexed. cbn [action_loop]. destruct o as [|a0 o'].
  - simpl. destruct (IH (i + 1) acc c Hi1) as [N B]. split; auto.
    intros e He. destruct (B e He) as (Hs & [H|H]); split; auto. right; lia.
  - assert (Henum : forall e, In e (enum_events sa i 0 o') -> estage e = sa /\ epid e = i).
    { intros e He. apply enum_events_in in He. tauto. }
    cbn [act_events tl comb_step fst snd]. destruct acc as [x|].
    + destruct o' as [|a1 o''].
      * cbn [fst snd enum_events app].
        destruct (IH (i + 1) (Some (op x (fold_left op [] a0))) c Hi1) as [N B]. split.
        -- constructor; auto. intros C. destruct (B _ C) as (_ & [H|H]); simpl in H; lia.
        -- intros e [He|He]; [subst e; simpl; split; auto; right; lia|].
           destruct (B e He) as (Hs & [H|H]); split; auto. right; lia.
      * cbn [fst snd].
        set (r := fold_left op (a1 :: o'') a0).
        destruct (IH (i + 1) (Some (op x r)) (c + 1) Hi1) as [N B]. split.
        -- apply NoDup_app_intro; [apply enum_events_NoDup | |].
           ++ simpl. constructor; auto. intros C. destruct (B _ C) as (_ & [H|H]); simpl in H; lia.
           ++ intros e H1 [H2|H2].
              ** subst e. apply Henum in H1. simpl in H1. lia.
              ** apply Henum in H1. destruct (B _ H2) as (_ & [H|H]); lia.
        -- intros e He. apply in_app_or in He. destruct He as [He|[He|He]].
           ++ apply Henum in He. split; [tauto | right; lia].
           ++ subst e; simpl. split; auto. left; lia.
           ++ destruct (B e He) as (Hs & [H|H]); split; auto; [left; lia | right; lia].
    + cbn [fst snd app].
      destruct (IH (i + 1) (Some (fold_left op o' a0)) c Hi1) as [N B]. split.
      * apply NoDup_app_intro; [apply enum_events_NoDup | auto |].
        intros e H1 H2. apply Henum in H1. destruct (B _ H2) as (_ & [H|H]); lia.
      * intros e He. apply in_app_or in He. destruct He as [He|He].
        -- apply Henum in He. split; [tauto | right; lia].
        -- destruct (B e He) as (Hs & [H|H]); split; auto. right; lia.
Qed.

Lemma action_events_spec : forall a stages parts,
  NoDup (action_events a stages parts) /\
  forall e, In e (action_events a stages parts) -> Z.of_nat (length stages) < estage e.
Proof.
  intros a stages parts. unfold action_events.
  set (sa := Z.of_nat (length stages) + 1). set (os := map (sem_pipe stages) parts).
  destruct a as [ | | |op| | | | | | ].
  4: { destruct (reduce_loop_spec op sa os 0 None 0 ltac:(lia)) as [N B]. split; auto.
       intros e He. destruct (B e He) as [Hs _]. unfold sa in Hs. lia. }
  all: rewrite action_loop_nonreduce by exact I; split;
    [apply nonreduce_loop_NoDup; [exact I | lia] |
     intros e He; apply nonreduce_loop_in in He; [unfold sa in He; lia | exact I | lia]].
Qed.

Lemma expected_NoDup : forall a stages parts,
  NoDup (pipeline_events stages parts ++ action_events a stages parts).
Proof.
  intros a stages parts. destruct (action_events_spec a stages parts) as [N B].
  apply NoDup_app_intro; auto using pipeline_events_NoDup.
  intros e H1 H2. apply pipeline_events_in in H1. apply B in H2. lia.
Qed.

(* ---- exactly once, as call counts ------------------------------------------------------------------------------ *)
Definition event_eq_dec : forall x y : event, {x = y} + {x <> y}.
Proof. repeat decide equality. Defined.

Lemma single_pass_spec : forall a stages parts,
  Permutation (job_log a stages parts) (pipeline_events stages parts ++ action_events a stages parts) /\
  NoDup (pipeline_events stages parts ++ action_events a stages parts).
Proof. intros. split; [apply job_log_perm | apply expected_NoDup]. Qed.

Lemma single_pass_counts : forall a stages parts e,
  (In e (pipeline_events stages parts ++ action_events a stages parts) ->
   count_occ event_eq_dec (job_log a stages parts) e = 1%nat) /\
  (~ In e (pipeline_events stages parts ++ action_events a stages parts) ->
   count_occ event_eq_dec (job_log a stages parts) e = 0%nat).
Proof.
  intros a stages parts e. destruct (single_pass_spec a stages parts) as [P N].
  rewrite (proj1 (Permutation_count_occ event_eq_dec _ _) P e). split; intros H.
  - apply (proj1 (NoDup_count_occ' event_eq_dec _) N). exact H.
  - apply count_occ_not_In. exact H.
Qed.

Lemma job_log_NoDup : forall a stages parts, NoDup (job_log a stages parts).
Proof.
  intros a stages parts. destruct (single_pass_spec a stages parts) as [P N].
  eapply Permutation_NoDup; [symmetry; exact P | exact N].
Qed.

(* which calls of an element-wise stage are expected: one per element of the plain-list input of that stage *)
Lemma kernel_own_events : forall st k s p xs, kernel st = Some k -> own_events s p st xs = enum_events s p 0 xs.
Proof. intros st k s p xs H. destruct st; simpl in *; auto; discriminate. Qed.

Lemma enum_events_iff : forall s p l s' p' j v,
  In (s', p', j, v) (enum_events s p 0 l) <->
  s' = s /\ p' = p /\ exists jn, j = Z.of_nat jn /\ nth_error l jn = Some v.
Proof.
  intros s p l s' p' j v. split.
  - intros H. apply enum_events_inv in H. destruct H as (i & a & Hn & He). inversion He; subst. eauto.
  - intros (Hs & Hp & jn & Hj & Hn). subst. apply (enum_events_nth s p l 0 jn v Hn).
Qed.

Lemma exp_from_elementwise : forall stages s0 p xs i st k p' j v, 0 <= p ->
  nth_error stages i = Some st -> kernel st = Some k ->
  (In (s0 + Z.of_nat i, p', j, v) (exp_from s0 p stages xs) <->
   p' = p /\ exists jn, j = Z.of_nat jn /\ nth_error (sem_pipe (firstn i stages) xs) jn = Some v).
Proof.
  induction stages as [|st0 rest IH]; intros s0 p xs i st k p' j v Hp Hn Hk; [destruct i; discriminate|].
  destruct i as [|i'].
  - simpl in Hn. inversion Hn; subst st0. simpl exp_from. rewrite (kernel_own_events st k) by auto.
    replace (s0 + Z.of_nat 0) with s0 by lia. simpl firstn. simpl sem_pipe.
    rewrite in_app_iff, enum_events_iff. split; [|tauto].
    intros [H|H]; [tauto|]. apply exp_from_in in H; auto. simpl in H. lia.
  - simpl in Hn. simpl exp_from. simpl firstn. simpl sem_pipe.
    replace (s0 + Z.of_nat (S i')) with ((s0 + 1) + Z.of_nat i') by lia.
    rewrite in_app_iff, <- (IH (s0 + 1) p (sem_stage st0 xs) i' st k p' j v Hp Hn Hk).
    split; [|tauto]. intros [H|H]; auto. apply own_events_in in H; auto. simpl in H. lia.
Qed.

Lemma indexed_iff : forall (A : Type) (l : list A) i p x,
  In (p, x) (indexed i l) <-> exists n, p = i + Z.of_nat n /\ nth_error l n = Some x.
Proof.
  induction l as [|y r IH]; intros i p x; simpl.
  - split; [contradiction | intros (n & _ & H); destruct n; discriminate].
  - rewrite IH. split.
    + intros [H|(n & Hp & Hn)].
      * inversion H; subst. exists 0%nat. split; [lia | reflexivity].
      * exists (S n). split; [lia | exact Hn].
    + intros (n & Hp & Hn). destruct n as [|n'].
      * left. simpl in Hn. inversion Hn; subst. f_equal. lia.
      * right. exists n'. split; [lia | exact Hn].
Qed.

Lemma pipeline_events_iff : forall stages parts e,
  In e (pipeline_events stages parts) <->
  exists pn xs, nth_error parts pn = Some xs /\ In e (part_events (Z.of_nat pn) stages xs).
Proof.
  intros stages parts e. unfold pipeline_events. rewrite in_concat. split.
  - intros (l & Hl & He). apply in_map_iff in Hl. destruct Hl as ([p xs] & Hm & Hin). subst l. simpl in He.
    apply indexed_iff in Hin. destruct Hin as (n & Hp & Hn). exists n, xs. split; auto.
    replace (Z.of_nat n) with p by lia. exact He.
  - intros (pn & xs & Hn & He). exists (part_events (Z.of_nat pn) stages xs). split; auto.
    apply in_map_iff. exists (Z.of_nat pn, xs). split; auto. apply indexed_iff. exists pn. split; [lia | auto].
Qed.

(* the calls of element-wise stage number i+1 (function st) that are expected *)
Lemma elementwise_expected_iff : forall stages parts i st k p j v,
  nth_error stages i = Some st -> kernel st = Some k ->
  (In (Z.of_nat i + 1, p, j, v) (pipeline_events stages parts) <->
   exists pn xs jn, p = Z.of_nat pn /\ j = Z.of_nat jn /\ nth_error parts pn = Some xs /\
                    nth_error (sem_pipe (firstn i stages) xs) jn = Some v).
Proof.
  intros stages parts i st k p j v Hn Hk. rewrite pipeline_events_iff. split.
  - intros (pn & xs & Hp & He). unfold part_events in He. apply in_app_or in He. destruct He as [He|He].
    + apply enum_events_in in He. simpl in He. lia.
    + replace (Z.of_nat i + 1) with (1 + Z.of_nat i) in He by lia.
      apply (exp_from_elementwise stages 1 (Z.of_nat pn) xs i st k p j v ltac:(lia) Hn Hk) in He.
      destruct He as (Hpp & jn & Hj & Hjn). exists pn, xs, jn. auto.
  - intros (pn & xs & jn & Hp & Hj & Hpn & Hjn). subst p. exists pn, xs. split; auto.
    unfold part_events. apply in_or_app. right.
    replace (Z.of_nat i + 1) with (1 + Z.of_nat i) by lia.
    apply (exp_from_elementwise stages 1 (Z.of_nat pn) xs i st k (Z.of_nat pn) j v ltac:(lia) Hn Hk). eauto.
Qed.

Lemma elementwise_called_once : forall a stages parts i st k pn xs jn v,
  nth_error stages i = Some st -> kernel st = Some k ->
  nth_error parts pn = Some xs -> nth_error (sem_pipe (firstn i stages) xs) jn = Some v ->
  count_occ event_eq_dec (job_log a stages parts) (Z.of_nat i + 1, Z.of_nat pn, Z.of_nat jn, v) = 1%nat.
Proof.
  intros a stages parts i st k pn xs jn v Hn Hk Hp Hj.
  apply (proj1 (single_pass_counts a stages parts _)). apply in_or_app. left.
  apply (elementwise_expected_iff stages parts i st k _ _ _ Hn Hk). exists pn, xs, jn. auto.
Qed.

Lemma elementwise_called_only_on_elements : forall a stages parts i st k p j v,
  nth_error stages i = Some st -> kernel st = Some k ->
  In (Z.of_nat i + 1, p, j, v) (job_log a stages parts) ->
  exists pn xs jn, p = Z.of_nat pn /\ j = Z.of_nat jn /\ nth_error parts pn = Some xs /\
                   nth_error (sem_pipe (firstn i stages) xs) jn = Some v.
Proof.
  intros a stages parts i st k p j v Hn Hk He.
  apply (Permutation_in _ (job_log_perm a stages parts)) in He. apply in_app_or in He.
  destruct He as [He|He].
  - apply (elementwise_expected_iff stages parts i st k _ _ _ Hn Hk). exact He.
  - apply (proj2 (action_events_spec a stages parts)) in He. simpl in He.
    assert (i < length stages)%nat by (apply nth_error_Some; congruence). lia.
Qed.

Lemma source_read_once : forall a stages parts pn xs jn v,
  nth_error parts pn = Some xs -> nth_error xs jn = Some v ->
  count_occ event_eq_dec (job_log a stages parts) (0, Z.of_nat pn, Z.of_nat jn, v) = 1%nat.
Proof.
  intros a stages parts pn xs jn v Hp Hj.
  apply (proj1 (single_pass_counts a stages parts _)). apply in_or_app. left.
  apply pipeline_events_iff. exists pn, xs. split; auto. unfold part_events. apply in_or_app. left.
  apply enum_events_iff. repeat split; auto. eauto.
Qed.

Lemma take_log_incl : forall n stages parts e,
  In e (take_log n stages parts) -> In e (pipeline_events stages parts).
Proof.
  intros n stages parts e He. destruct (take_log_prefix n stages parts) as (suf & H).
  apply (Permutation_in _ (tasks_events stages parts)). rewrite <- collect_log_drain, H.
  apply in_or_app. auto.
Qed.

Lemma take_elementwise_only_on_elements : forall n stages parts i st k p j v,
  nth_error stages i = Some st -> kernel st = Some k ->
  In (Z.of_nat i + 1, p, j, v) (take_log n stages parts) ->
  exists pn xs jn, p = Z.of_nat pn /\ j = Z.of_nat jn /\ nth_error parts pn = Some xs /\
                   nth_error (sem_pipe (firstn i stages) xs) jn = Some v.
Proof.
  intros n stages parts i st k p j v Hn Hk He. apply take_log_incl in He.
  apply (elementwise_expected_iff stages parts i st k _ _ _ Hn Hk). exact He.
Qed.

(* first() and isEmpty() are take(1) as far as evaluation is concerned *)
Lemma query_log_first : forall stages parts, fst (run_query QFirst stages parts) = take_log 1 stages parts.
Proof. reflexivity. Qed.

Lemma query_log_isEmpty : forall stages parts,
  fst (run_query QIsEmpty stages parts) = match parts with [] => [] | _ => take_log 1 stages parts end.
Proof. intros stages [|xs r]; reflexivity. Qed.

Lemma take_log_nil_parts : forall n stages, take_log n stages [] = [].
Proof. intros [|n] stages; reflexivity. Qed.

Lemma query_log_isEmpty' : forall stages parts, fst (run_query QIsEmpty stages parts) = take_log 1 stages parts.
Proof. intros stages [|xs r]; reflexivity. Qed.

Lemma program_spec : forall stages q parts,
  run_program stages q parts = (repeat 0%nat (S (length stages)), run_query q stages parts).
Proof. intros. unfold run_program. rewrite define_all_silent. reflexivity. Qed.

(* ---- take(n) stops immediately after the n-th element has been yielded ------------------------------------------ *)
Definition gt_of (t : Z * ptrace) : trace := map Ev (created (snd t)) ++ body (snd t).

Lemma take_trace_zero : forall t, take_trace 0 t = ([], [], 0%nat).
Proof. destruct t as [|[e|a] t]; reflexivity. Qed.

Lemma take_trace_app : forall t1 t2 n,
  take_trace n (t1 ++ t2) =
  let '(l1, o1, r) := take_trace n t1 in
  let '(l2, o2, r2) := take_trace r t2 in (l1 ++ l2, o1 ++ o2, r2).
Proof.
  induction t1 as [|[e|a] t1 IH]; intros t2 n.
  - destruct n as [|n]; simpl app.
    + rewrite !take_trace_zero. reflexivity.
    + cbn [take_trace]. destruct (take_trace (S n) t2) as [[l2 o2] r2]. reflexivity.
  - destruct n as [|n]; [simpl app; rewrite !take_trace_zero; reflexivity|].
    simpl app. cbn [take_trace]. rewrite IH.
    destruct (take_trace (S n) t1) as [[l1 o1] r]. destruct (take_trace r t2) as [[l2 o2] r2]. reflexivity.
  - destruct n as [|n]; [simpl app; rewrite !take_trace_zero; reflexivity|].
    simpl app. cbn [take_trace]. rewrite IH.
    destruct (take_trace n t1) as [[l1 o1] r]. destruct (take_trace r t2) as [[l2 o2] r2]. reflexivity.
Qed.

Lemma take_trace_map_Ev : forall cr n, take_trace (S n) (map Ev cr) = (cr, [], S n).
Proof.
  induction cr as [|e cr IH]; intros n; [reflexivity|].
  simpl map. cbn [take_trace]. rewrite IH. reflexivity.
Qed.

(* islice(chain.from_iterable(tasks)) = islice over the flattened computation *)
Lemma take_parts_flat : forall ts n,
  take_parts n ts = let '(l, o, _) := take_trace n (concat (map gt_of ts)) in (l, o).
Proof.
  induction ts as [|[p pt] rest IH]; intros n.
  - destruct n; reflexivity.
  - destruct n as [|n]; [rewrite take_parts_zero, take_trace_zero; reflexivity|].
    cbn [take_parts map concat]. unfold gt_of at 1. cbn [snd].
    rewrite <- app_assoc, take_trace_app, take_trace_map_Ev, take_trace_app.
    destruct (take_trace (S n) (body pt)) as [[l1 o1] r]. rewrite IH.
    destruct (take_trace r (concat (map gt_of rest))) as [[l2 o2] r2]. reflexivity.
Qed.

Lemma take_trace_stops : forall t n l o r, take_trace n t = (l, o, r) ->
  exists pre post, t = pre ++ post /\ l = events pre /\ o = outs pre /\
    (post = [] \/ (length o = n /\ (n = 0%nat \/ exists pre' a, pre = pre' ++ [Out a]))).
Proof.
  induction t as [|[e|a] t IH]; intros n l o r H.
  - exists [], []. destruct n; simpl in H; inversion H; subst; auto 6.
  - destruct n as [|n].
    { rewrite take_trace_zero in H; inversion H; subst. exists [], (Ev e :: t). simpl. auto 8. }
    cbn [take_trace] in H. destruct (take_trace (S n) t) as [[l1 o1] r1] eqn:E. inversion H; subst.
    destruct (IH _ _ _ _ E) as (pre & post & Ht & Hl & Ho & Hc).
    exists (Ev e :: pre), post. subst t l1 o. simpl. split; [reflexivity|]. split; [reflexivity|]. split; [reflexivity|].
    destruct Hc as [Hc|(Hc1 & Hc2)]; [left; exact Hc|].
    right. split; [exact Hc1|]. destruct Hc2 as [Hc2|(pre' & a & Hc2)]; [discriminate|].
    right. exists (Ev e :: pre'), a. subst pre. reflexivity.
  - destruct n as [|n].
    { rewrite take_trace_zero in H; inversion H; subst. exists [], (Out a :: t). simpl. auto 8. }
    cbn [take_trace] in H. destruct (take_trace n t) as [[l1 o1] r1] eqn:E. inversion H; subst.
    destruct (IH _ _ _ _ E) as (pre & post & Ht & Hl & Ho & Hc).
    exists (Out a :: pre), post. subst t l o1. simpl. split; [reflexivity|]. split; [reflexivity|]. split; [reflexivity|].
    destruct Hc as [Hc|(Hc1 & Hc2)]; [left; exact Hc|].
    right. split; [congruence|]. right. destruct Hc2 as [Hc2|(pre' & a' & Hc2)].
    + try subst n. try rewrite Hc2 in E. rewrite take_trace_zero in E. injection E as El Eo Er.
      destruct pre as [|[e'|a'] pre]; simpl in El, Eo; try discriminate.
      exists [], a. reflexivity.
    + exists (Out a :: pre'), a'. subst pre. reflexivity.
Qed.

Lemma global_trace_eq : forall stages parts, global_trace stages parts = concat (map gt_of (tasks stages parts)).
Proof. reflexivity. Qed.

Lemma take_stops_at_nth : forall n stages parts,
  exists pre post, global_trace stages parts = pre ++ post /\
    take_log n stages parts = events pre /\ take_result n stages parts = outs pre /\
    (post = [] \/ (length (take_result n stages parts) = n /\ (n = 0%nat \/ exists pre' a, pre = pre' ++ [Out a]))).
Proof.
  intros n stages parts. unfold take_log, take_result. rewrite take_parts_flat, <- global_trace_eq.
  destruct (take_trace n (global_trace stages parts)) as [[l o] r] eqn:E. simpl.
  apply (take_trace_stops _ _ _ _ _ E).
Qed.

Lemma global_trace_events : forall stages parts,
  events (global_trace stages parts) = job_log ACollect stages parts.
Proof.
  intros. rewrite collect_log_drain, global_trace_eq.
  induction (tasks stages parts) as [|[p pt] rest IH]; simpl; auto.
  rewrite events_app, IH. unfold gt_of, ev_of, all_events; simpl. now rewrite events_app, events_map_Ev.
Qed.

Lemma global_trace_outs : forall stages parts,
  outs (global_trace stages parts) = concat (map (sem_pipe stages) parts).
Proof.
  intros. rewrite <- tasks_outs, global_trace_eq.
  induction (tasks stages parts) as [|[p pt] rest IH]; simpl; auto.
  rewrite outs_app, IH. unfold gt_of, out_of, all_outs; simpl. now rewrite outs_app, outs_map_Ev.
Qed.

Lemma global_trace_full_pass : forall stages parts,
  events (global_trace stages parts) = job_log ACollect stages parts /\
  outs (global_trace stages parts) = concat (map (sem_pipe stages) parts).
Proof. intros. split; [apply global_trace_events | apply global_trace_outs]. Qed.

(* ---- histories: each action of a sequence on one (uncached) dataset object is evaluated on its own ------------- *)
Lemma history_nth : forall stages qs parts i q,
  nth_error qs i = Some q -> nth_error (run_history stages qs parts) i = Some (run_query q stages parts).
Proof.
  intros stages qs parts i q H. unfold run_history.
  exact (map_nth_error (fun q0 => run_query q0 stages parts) i qs H).
Qed.

Lemma history_length : forall stages qs parts, length (run_history stages qs parts) = length qs.
Proof. intros. unfold run_history. apply map_length. Qed.

Lemma history_action_exactly_once : forall stages qs parts i a,
  uncached stages = true -> nth_error qs i = Some (QAction a) ->
  exists l r, nth_error (run_history stages qs parts) i = Some (l, r) /\
    Permutation l (pipeline_events stages parts ++ action_events a stages parts) /\
    NoDup (pipeline_events stages parts ++ action_events a stages parts).
Proof.
  intros stages qs parts i a _ Hq. eexists _, _. split.
  - rewrite (history_nth _ _ _ _ _ Hq). simpl. reflexivity.
  - apply single_pass_spec.
Qed.

Lemma history_take_same : forall stages qs parts i n,
  uncached stages = true -> nth_error qs i = Some (QTake n) ->
  exists r, nth_error (run_history stages qs parts) i = Some (take_log n stages parts, r).
Proof. intros stages qs parts i n _ Hq. eexists. rewrite (history_nth _ _ _ _ _ Hq). simpl. reflexivity. Qed.
