(* Lemmas about the partition-layout model (C07): PV.Model.Layout on top of the regenerated kernels
   PV.Gen.Parallelize (par_take, par_single) and PV.Gen.Layout (coalesce_plan, unique_id, ...). *)
From Coq Require Import String.
From Coq Require Import ZArith NArith List Bool Lia FinFun Permutation.
Require Import PV.Base.Val PV.Base.PyArith PV.Gen.Parallelize PV.Gen.Layout PV.Model.Layout.
Import ListNotations.
Open Scope Z_scope.

(* ---------- zrange *)
Lemma zrange_nil lo hi : hi <= lo -> zrange lo hi = [].
Proof. intros H. unfold zrange. replace (Z.to_nat (hi - lo)) with 0%nat by lia. reflexivity. Qed.

Lemma zrange_cons lo hi : lo < hi -> zrange lo hi = lo :: zrange (lo + 1) hi.
Proof.
  intros H. unfold zrange.
  replace (Z.to_nat (hi - lo)) with (S (Z.to_nat (hi - (lo + 1)))) by lia.
  cbn [seq map]. f_equal. { lia. }
  rewrite <- seq_shift, map_map. apply map_ext. intros k. lia.
Qed.

Lemma zrange_length lo hi : length (zrange lo hi) = Z.to_nat (hi - lo).
Proof. unfold zrange. now rewrite map_length, seq_length. Qed.

Lemma zrange_In lo hi x : In x (zrange lo hi) <-> lo <= x < hi.
Proof.
  unfold zrange. rewrite in_map_iff. split.
  - intros (k & <- & Hk). apply in_seq in Hk. lia.
  - intros H. exists (Z.to_nat (x - lo)). split; [lia|]. apply in_seq. lia.
Qed.

Lemma zrange_nth_error lo hi i : 0 <= i < hi - lo -> nth_error (zrange lo hi) (Z.to_nat i) = Some (lo + i).
Proof.
  intros H. unfold zrange.
  erewrite map_nth_error with (d := Z.to_nat i).
  - f_equal. lia.
  - rewrite <- (Nat.add_0_l (Z.to_nat i)) at 2.
    remember (Z.to_nat i) as k. assert (Hk : (k < Z.to_nat (hi - lo))%nat) by lia.
    clear - Hk. revert Hk. generalize (Z.to_nat (hi - lo)) as m. generalize 0%nat as a.
    induction k as [|k IH]; intros a m Hk; destruct m as [|m]; try lia; cbn.
    + f_equal. lia.
    + rewrite IH by lia. f_equal. lia.
Qed.

Lemma zrange_app lo mid hi : lo <= mid <= hi -> zrange lo hi = zrange lo mid ++ zrange mid hi.
Proof.
  intros H. remember (Z.to_nat (mid - lo)) as k eqn:Hk. revert lo H Hk.
  induction k as [|k IH]; intros lo H Hk.
  - assert (lo = mid) by lia. subst. rewrite (zrange_nil mid mid) by lia. reflexivity.
  - rewrite (zrange_cons lo hi), (zrange_cons lo mid) by lia. cbn. f_equal. apply IH; lia.
Qed.

(* ---------- enumerate *)
Lemma enum_from_length {A} (l : list A) a : length (enum_from a l) = length l.
Proof. revert a. induction l as [|x l IH]; intros a; cbn; [reflexivity|now rewrite IH]. Qed.

Lemma enum_from_snd {A} (l : list A) a : map snd (enum_from a l) = l.
Proof. revert a. induction l as [|x l IH]; intros a; cbn; [reflexivity|now rewrite IH]. Qed.

Lemma enum_from_fst {A} (l : list A) a : map fst (enum_from a l) = zrange a (a + Z.of_nat (length l)).
Proof.
  revert a. induction l as [|x l IH]; intros a; cbn [enum_from map length].
  - rewrite zrange_nil by lia. reflexivity.
  - rewrite zrange_cons by lia. cbn. f_equal. rewrite IH. f_equal. lia.
Qed.

Lemma enum_from_nth_error {A} (l : list A) a k x :
  nth_error l k = Some x -> nth_error (enum_from a l) k = Some (a + Z.of_nat k, x).
Proof.
  revert a k. induction l as [|y l IH]; intros a k H; destruct k as [|k]; cbn in *; try discriminate.
  - injection H as ->. do 2 f_equal. lia.
  - rewrite (IH _ _ H). do 2 f_equal. lia.
Qed.

Lemma enum_from_In {A} (l : list A) a i x : In (i, x) (enum_from a l) -> In x l.
Proof.
  intros H. apply (in_map snd) in H. now rewrite enum_from_snd in H.
Qed.

(* ---------- slices *)
Definition slice {A} (xs : list A) (a b : Z) : list A :=
  firstn (Z.to_nat (b - a)) (skipn (Z.to_nat a) xs).

Lemma firstn_firstn_skipn {A} (l : list A) n m : firstn n l ++ firstn m (skipn n l) = firstn (n + m) l.
Proof.
  revert l. induction n as [|n IH]; intros l; cbn; [reflexivity|].
  destruct l as [|x l]; cbn.
  - now rewrite firstn_nil.
  - now rewrite IH.
Qed.

Lemma skipn_skipn {A} (l : list A) a b : skipn a (skipn b l) = skipn (a + b) l.
Proof.
  revert l. induction b as [|b IH]; intros l.
  - now rewrite Nat.add_0_r.
  - rewrite Nat.add_succ_r. destruct l as [|x l]; cbn [skipn].
    + now rewrite !skipn_nil.
    + apply IH.
Qed.

Lemma slice_app {A} (xs : list A) a b c : 0 <= a <= b -> b <= c -> slice xs a b ++ slice xs b c = slice xs a c.
Proof.
  intros H1 H2. unfold slice.
  replace (Z.to_nat b) with (Z.to_nat (b - a) + Z.to_nat a)%nat by lia.
  rewrite <- skipn_skipn, firstn_firstn_skipn. f_equal. lia.
Qed.

Lemma slice_length {A} (xs : list A) a b :
  0 <= a <= b -> b <= Z.of_nat (length xs) -> Z.of_nat (length (slice xs a b)) = b - a.
Proof. intros H1 H2. unfold slice. rewrite firstn_length, skipn_length. lia. Qed.

Lemma slice_full {A} (xs : list A) : slice xs 0 (Z.of_nat (length xs)) = xs.
Proof. unfold slice. cbn. rewrite Z.sub_0_r, Nat2Z.id. apply firstn_all. Qed.

Lemma concat_slices {A} (xs : list A) (s : Z -> Z) lo hi :
  lo <= hi -> 0 <= s lo -> (forall i, lo <= i < hi -> s i <= s (i + 1)) ->
  concat (map (fun i => slice xs (s i) (s (i + 1))) (zrange lo hi)) = slice xs (s lo) (s hi).
Proof.
  intros Hle. remember (Z.to_nat (hi - lo)) as k eqn:Hk. revert lo Hle Hk.
  induction k as [|k IH]; intros lo Hle Hk H0 Hm.
  - assert (lo = hi) by lia. subst. rewrite zrange_nil by lia. cbn. unfold slice.
    now rewrite Z.sub_diag.
  - rewrite zrange_cons by lia. cbn [map concat]. rewrite IH; try lia.
    + apply slice_app. * split; [lia|]. apply Hm. lia.
      * assert (Hmono : forall j, lo + 1 <= j <= hi -> s (lo + 1) <= s j).
        { intros j Hj. remember (Z.to_nat (j - (lo + 1))) as d eqn:Hd. revert j Hj Hd.
          induction d as [|d IHd]; intros j Hj Hd.
          - assert (j = lo + 1) by lia. subst. lia.
          - specialize (IHd (j - 1) ltac:(lia) ltac:(lia)). specialize (Hm (j - 1) ltac:(lia)).
            replace (j - 1 + 1) with j in Hm by lia. lia. }
        apply Hmono. lia.
    + specialize (Hm lo ltac:(lia)). lia.
    + intros i Hi. apply Hm. lia.
Qed.

(* ---------- slice boundaries floor(i*len/n) *)
Section Starts.
  Variables len n : Z.
  Hypothesis Hlen : 0 <= len.
  Hypothesis Hn : 0 < n.
  Let s := slice_start len n.

  Lemma start_0 : s 0 = 0.
  Proof. unfold s, slice_start. now rewrite Z.mul_0_l, Z.div_0_l by lia. Qed.

  Lemma start_n : s n = len.
  Proof. unfold s, slice_start. rewrite Z.mul_comm. apply Z.div_mul. lia. Qed.

  Lemma start_mono i j : i <= j -> s i <= s j.
  Proof. intros H. unfold s, slice_start. apply Z.div_le_mono; [lia|]. apply Z.mul_le_mono_nonneg_r; lia. Qed.

  Lemma start_bounds i : 0 <= i <= n -> 0 <= s i <= len.
  Proof.
    intros H. pose proof (start_mono 0 i ltac:(lia)) as H1. pose proof (start_mono i n ltac:(lia)) as H2.
    rewrite start_0 in H1. rewrite start_n in H2. lia.
  Qed.

  Lemma start_step i : s (i + 1) - s i = len / n \/ s (i + 1) - s i = len / n + 1.
  Proof.
    unfold s, slice_start.
    pose proof (Z.div_mod (i * len) n ltac:(lia)) as E1.
    pose proof (Z.mod_pos_bound (i * len) n Hn) as B1.
    pose proof (Z.div_mod ((i + 1) * len) n ltac:(lia)) as E2.
    pose proof (Z.mod_pos_bound ((i + 1) * len) n Hn) as B2.
    pose proof (Z.div_mod len n ltac:(lia)) as E3.
    pose proof (Z.mod_pos_bound len n Hn) as B3.
    nia.
  Qed.

  Lemma par_take_spec i : 0 <= i < n ->
    par_take i len n = s (i + 1) - s i + (if i + 1 =? n then 1 else 0).
  Proof.
    intros Hi. unfold par_take, s, slice_start.
    rewrite !int_truediv_nonneg by nia.
    destruct (i + 1 =? n); lia.
  Qed.
End Starts.

Lemma par_slices_spec {A} (xs : list A) n :
  1 < n ->
  let len := Z.of_nat (length xs) in
  forall lo, 0 <= lo <= n ->
  par_slices (skipn (Z.to_nat (slice_start len n lo)) xs) len n (zrange lo n)
  = map (fun i => slice xs (slice_start len n i) (slice_start len n (i + 1))) (zrange lo n).
Proof.
  intros Hn len lo. remember (Z.to_nat (n - lo)) as k eqn:Hk. revert lo Hk.
  induction k as [|k IH]; intros lo Hk Hlo.
  - rewrite zrange_nil by lia. reflexivity.
  - rewrite zrange_cons by lia. cbn [par_slices map].
    assert (Hlen : 0 <= len) by (unfold len; lia).
    pose proof (start_bounds len n Hlen ltac:(lia) lo ltac:(lia)) as Bl.
    pose proof (start_bounds len n Hlen ltac:(lia) (lo + 1) ltac:(lia)) as Bh.
    pose proof (start_mono len n Hlen ltac:(lia) lo (lo + 1) ltac:(lia)) as Hm.
    rewrite (par_take_spec len n Hlen ltac:(lia) lo ltac:(lia)).
    destruct (Z.eqb_spec (lo + 1) n) as [E|NE].
    + (* last slice: islice asks for one more element than there is *)
      rewrite (zrange_nil (lo + 1) n) by lia. cbn [par_slices map]. f_equal.
      unfold slice. rewrite E, (start_n len n) by lia.
      rewrite !firstn_all2; [reflexivity| |]; rewrite skipn_length; fold len; lia.
    + f_equal.
      * unfold slice. f_equal. lia.
      * rewrite skipn_skipn.
        replace (Z.to_nat (slice_start len n (lo + 1) - slice_start len n lo + 0) + Z.to_nat (slice_start len n lo))%nat
          with (Z.to_nat (slice_start len n (lo + 1))) by lia.
        apply IH; lia.
Qed.

Definition par_parts {A} (xs : list A) (n : Z) : list (list A) :=
  let len := Z.of_nat (length xs) in
  map (fun i => slice xs (slice_start len n i) (slice_start len n (i + 1))) (zrange 0 n).

Lemma parallelize_eq (xs : list val) n : 1 < n -> parallelize xs (Some n) = mk_rdd (par_parts xs n).
Proof.
  intros Hn. unfold parallelize, par_single.
  destruct (Z.leb_spec n 1) as [H|_]; [lia|].
  f_equal. pose proof (par_slices_spec xs n Hn 0 ltac:(lia)) as H.
  cbv zeta in H. rewrite start_0 in H by lia. exact H.
Qed.

Lemma par_parts_length {A} (xs : list A) n : 0 <= n -> Z.of_nat (length (par_parts xs n)) = n.
Proof. intros H. unfold par_parts. rewrite map_length, zrange_length. lia. Qed.

Lemma par_parts_concat {A} (xs : list A) n : 0 < n -> concat (par_parts xs n) = xs.
Proof.
  intros Hn. unfold par_parts. set (len := Z.of_nat (length xs)).
  assert (Hlen : 0 <= len) by (unfold len; lia).
  rewrite (concat_slices xs (slice_start len n) 0 n); try lia.
  - rewrite start_0, start_n by lia. apply slice_full.
  - rewrite start_0; lia.
  - intros i Hi. apply start_mono; lia.
Qed.

Lemma mk_rdd_glom ps : glom (mk_rdd ps) = ps.
Proof. apply enum_from_snd. Qed.
Lemma mk_rdd_num ps : num_partitions (mk_rdd ps) = Z.of_nat (length ps).
Proof. unfold num_partitions, mk_rdd. now rewrite enum_from_length. Qed.
Lemma mk_rdd_indices ps : indices (mk_rdd ps) = zrange 0 (Z.of_nat (length ps)).
Proof. unfold indices, mk_rdd. now rewrite enum_from_fst. Qed.
Lemma mk_rdd_local_iter ps : local_iter (mk_rdd ps) = concat ps.
Proof. unfold local_iter. now rewrite mk_rdd_glom. Qed.

Lemma parallelize_layout_lemma (xs : list val) n : 1 < n ->
  let len := Z.of_nat (length xs) in
  let r := parallelize xs (Some n) in
  num_partitions r = n /\
  (forall i, 0 <= i < n ->
     nth_error r (Z.to_nat i) = Some (i, slice xs (slice_start len n i) (slice_start len n (i + 1)))) /\
  local_iter r = xs /\
  (forall i p, In (i, p) r -> Z.of_nat (length p) = len / n \/ Z.of_nat (length p) = len / n + 1).
Proof.
  intros Hn len r. subst r. rewrite parallelize_eq by assumption.
  assert (Hlen : 0 <= len) by (unfold len; lia).
  split; [|split; [|split]].
  - rewrite mk_rdd_num. apply par_parts_length. lia.
  - intros i Hi. unfold mk_rdd.
    erewrite enum_from_nth_error.
    + f_equal. f_equal. lia.
    + unfold par_parts. erewrite map_nth_error; [reflexivity|].
      rewrite zrange_nth_error by lia. f_equal.
  - rewrite mk_rdd_local_iter. apply par_parts_concat. lia.
  - intros i p Hin. apply enum_from_In in Hin. unfold par_parts in Hin. apply in_map_iff in Hin.
    destruct Hin as (j & <- & Hj). apply zrange_In in Hj. fold len.
    rewrite slice_length.
    + apply start_step; lia.
    + split; [apply start_bounds; lia|apply start_mono; lia].
    + fold len. apply start_bounds; lia.
Qed.

Lemma parallelize_sizes_differ (xs : list val) n : 1 < n ->
  forall i p j q, In (i, p) (parallelize xs (Some n)) -> In (j, q) (parallelize xs (Some n)) ->
  Z.abs (Z.of_nat (length p) - Z.of_nat (length q)) <= 1.
Proof.
  intros Hn i p j q Hp Hq.
  destruct (parallelize_layout_lemma xs n Hn) as (_ & _ & _ & Hs).
  destruct (Hs _ _ Hp), (Hs _ _ Hq); lia.
Qed.

Lemma parallelize_single (xs : list val) n : n <= 1 -> parallelize xs (Some n) = [(0, xs)].
Proof. intros H. unfold parallelize, par_single. destruct (Z.leb_spec n 1); [reflexivity|lia]. Qed.

(* range(N): the virtual walk used by the correspondence agrees with the list model *)
Lemma range_slices_spec len n :
  1 < n -> 0 <= len ->
  forall lo, 0 <= lo <= n ->
  range_slices (slice_start len n lo) len n (zrange lo n)
  = map (range_probe len n) (zrange lo n).
Proof.
  intros Hn Hlen lo. remember (Z.to_nat (n - lo)) as k eqn:Hk. revert lo Hk.
  induction k as [|k IH]; intros lo Hk Hlo.
  - rewrite zrange_nil by lia. reflexivity.
  - rewrite zrange_cons by lia. cbn [range_slices map].
    pose proof (start_bounds len n Hlen ltac:(lia) lo ltac:(lia)) as Bl.
    pose proof (start_bounds len n Hlen ltac:(lia) (lo + 1) ltac:(lia)) as Bh.
    pose proof (start_mono len n Hlen ltac:(lia) lo (lo + 1) ltac:(lia)) as Hm.
    rewrite (par_take_spec len n Hlen ltac:(lia) lo ltac:(lia)).
    assert (E : Z.min (Z.max 0 (slice_start len n (lo + 1) - slice_start len n lo + (if lo + 1 =? n then 1 else 0)))
                  (len - slice_start len n lo) = slice_start len n (lo + 1) - slice_start len n lo).
    { destruct (Z.eqb_spec (lo + 1) n) as [E|NE]; [|lia].
      rewrite E, (start_n len n) by lia. lia. }
    rewrite E. unfold range_probe at 1. f_equal.
    replace (slice_start len n lo + (slice_start len n (lo + 1) - slice_start len n lo))
      with (slice_start len n (lo + 1)) by lia.
    apply IH; lia.
Qed.

Lemma zrange_slice a b N : 0 <= a <= b -> b <= N -> slice (zrange 0 N) a b = zrange a b.
Proof.
  intros H1 H2. rewrite (zrange_app 0 a N), (zrange_app a b N) by lia.
  unfold slice. rewrite skipn_app, skipn_all2 by (rewrite zrange_length; lia).
  rewrite zrange_length. replace (Z.to_nat a - Z.to_nat (a - 0))%nat with 0%nat by lia. cbn [skipn app].
  rewrite firstn_app, firstn_all2 by (rewrite zrange_length; lia).
  rewrite zrange_length. replace (Z.to_nat (b - a) - Z.to_nat (b - a))%nat with 0%nat by lia.
  cbn. now rewrite app_nil_r.
Qed.

(* ---------- the partition_mapping table *)
Fixpoint expand (p : Z) (sizes : list nat) : list Z :=
  match sizes with
  | [] => []
  | s :: ss => repeat p s ++ expand (p + 1) ss
  end.

Fixpoint chunk {A} (sizes : list nat) (l : list A) : list (list A) :=
  match sizes with
  | [] => []
  | s :: ss => firstn s l :: chunk ss (skipn s l)
  end.

Lemma map_const_zrange (p : Z) lo hi : map (fun _ : Z => p) (zrange lo hi) = repeat p (Z.to_nat (hi - lo)).
Proof.
  unfold zrange. rewrite map_map. generalize (Z.to_nat (hi - lo)) as k. generalize 0%nat as a.
  intros a k. revert a. induction k as [|k IH]; intros a; cbn; [reflexivity|now rewrite IH].
Qed.

Lemma expand_app p l1 l2 : expand p (l1 ++ l2) = expand p l1 ++ expand (p + Z.of_nat (length l1)) l2.
Proof.
  revert p. induction l1 as [|s l1 IH]; intros p; cbn [app expand length].
  - now rewrite Z.add_0_r.
  - rewrite IH, <- app_assoc. do 3 f_equal. lia.
Qed.

Lemma flat_map_repeat_zrange (k : nat) lo hi :
  flat_map (fun p => repeat p k) (zrange lo hi) = expand lo (repeat k (Z.to_nat (hi - lo))).
Proof.
  remember (Z.to_nat (hi - lo)) as d eqn:Hd. revert lo Hd.
  induction d as [|d IH]; intros lo Hd.
  - rewrite zrange_nil by lia. reflexivity.
  - rewrite zrange_cons by lia. cbn [flat_map repeat expand]. f_equal. apply IH. lia.
Qed.

Definition group_sizes (cur new : Z) : list nat :=
  repeat (S (Z.to_nat (cur / new))) (Z.to_nat (cur mod new))
  ++ repeat (Z.to_nat (cur / new)) (Z.to_nat (new - cur mod new)).

Lemma coalesce_plan_spec m cur : 1 <= m -> 1 <= cur ->
  coalesce_plan m cur = (Z.min m cur, expand 0 (group_sizes cur (Z.min m cur))).
Proof.
  intros Hm Hc. unfold coalesce_plan, group_sizes. set (new := Z.min m cur).
  assert (Hnew : 1 <= new <= cur) by (unfold new; lia).
  pose proof (Z.mod_pos_bound cur new ltac:(lia)) as Hr.
  pose proof (Z.div_pos cur new ltac:(lia) ltac:(lia)) as Hq.
  f_equal. rewrite expand_app, repeat_length.
  f_equal.
  - erewrite flat_map_ext by (intros p; apply map_const_zrange).
    rewrite flat_map_repeat_zrange. do 2 f_equal; lia.
  - erewrite flat_map_ext by (intros p; apply map_const_zrange).
    rewrite flat_map_repeat_zrange. f_equal; [lia|]. f_equal; lia.
Qed.

(* ---------- the scatter loop *)
Lemma py_idx_in len t : 0 <= t < Z.of_nat len -> py_idx len t = Some (Z.to_nat t).
Proof.
  intros H. unfold py_idx.
  destruct (Z.leb_spec 0 t); [|lia]. destruct (Z.ltb_spec t (Z.of_nat len)); [|lia]. reflexivity.
Qed.

Lemma extend_at_app pre b rest p :
  extend_at (pre ++ b :: rest) (length pre) p = pre ++ (b ++ p) :: rest.
Proof. induction pre as [|x pre IH]; cbn; [reflexivity|now rewrite IH]. Qed.

Lemma extend_at_length l j p : length (extend_at l j p) = length l.
Proof. revert j. induction l as [|b l IH]; intros [|j]; cbn; auto. Qed.

Lemma scatter_repeat (g : parts) : forall pre b rest mapping ps,
  scatter (pre ++ b :: rest) (repeat (Z.of_nat (length pre)) (length g) ++ mapping) (g ++ ps)
  = scatter (pre ++ (b ++ concat g) :: rest) mapping ps.
Proof.
  induction g as [|p g IH]; intros pre b rest mapping ps; cbn [length repeat app concat].
  - now rewrite app_nil_r.
  - cbn [scatter]. rewrite py_idx_in by (rewrite app_length; cbn; lia).
    rewrite Nat2Z.id, extend_at_app, IH. now rewrite app_assoc.
Qed.

Lemma scatter_expand (sizes : list nat) : forall pre ps,
  fold_right Nat.add 0%nat sizes = length ps ->
  scatter (pre ++ repeat [] (length sizes)) (expand (Z.of_nat (length pre)) sizes) ps
  = Ok (pre ++ map (@concat val) (chunk sizes ps)).
Proof.
  induction sizes as [|s ss IH]; intros pre ps Hsum; cbn [length repeat expand chunk map fold_right] in *.
  - destruct ps; [|discriminate]. reflexivity.
  - rewrite <- (firstn_skipn s ps) at 1.
    assert (Hl : length (firstn s ps) = s) by (rewrite firstn_length; lia).
    rewrite <- Hl at 1. rewrite scatter_repeat. cbn [app].
    replace (pre ++ concat (firstn s ps) :: repeat [] (length ss))
      with ((pre ++ [concat (firstn s ps)]) ++ repeat [] (length ss)) by (now rewrite <- app_assoc).
    replace (Z.of_nat (length pre) + 1) with (Z.of_nat (length (pre ++ [concat (firstn s ps)])))
      by (rewrite app_length; cbn; lia).
    rewrite IH by (rewrite skipn_length; lia).
    now rewrite <- app_assoc.
Qed.

(* ---------- chunks *)
Lemma chunk_concat {A} sizes (l : list A) :
  fold_right Nat.add 0%nat sizes = length l -> concat (chunk sizes l) = l.
Proof.
  revert l. induction sizes as [|s ss IH]; intros l H; cbn in *.
  - destruct l; [reflexivity|discriminate].
  - rewrite IH by (rewrite skipn_length; lia). apply firstn_skipn.
Qed.

Lemma chunk_lengths {A} sizes (l : list A) :
  (fold_right Nat.add 0%nat sizes <= length l)%nat -> map (@length _) (chunk sizes l) = sizes.
Proof.
  revert l. induction sizes as [|s ss IH]; intros l H; cbn in *; [reflexivity|].
  rewrite IH by (rewrite skipn_length; lia). f_equal. rewrite firstn_length. lia.
Qed.

Lemma chunk_length {A} sizes (l : list A) : length (chunk sizes l) = length sizes.
Proof. revert l. induction sizes as [|s ss IH]; intros l; cbn; [reflexivity|now rewrite IH]. Qed.

Lemma concat_concat {A} (l : list (list (list A))) : concat (map (@concat A) l) = concat (concat l).
Proof. induction l as [|x l IH]; cbn; [reflexivity|]. now rewrite concat_app, IH. Qed.

Lemma map_repeat {A B} (f : A -> B) a k : map f (repeat a k) = repeat (f a) k.
Proof. induction k as [|k IH]; cbn; [reflexivity|now rewrite IH]. Qed.

Lemma sum_repeat a k : fold_right Nat.add 0%nat (repeat a k) = (k * a)%nat.
Proof. induction k as [|k IH]; cbn; [reflexivity|]. rewrite IH. lia. Qed.

Lemma sum_app l1 l2 : fold_right Nat.add 0%nat (l1 ++ l2) = (fold_right Nat.add 0%nat l1 + fold_right Nat.add 0%nat l2)%nat.
Proof. induction l1 as [|x l1 IH]; cbn; [reflexivity|]. rewrite IH. lia. Qed.

Lemma group_sizes_sum cur new : 1 <= new <= cur ->
  Z.of_nat (fold_right Nat.add 0%nat (group_sizes cur new)) = cur.
Proof.
  intros H. unfold group_sizes. rewrite sum_app, !sum_repeat.
  pose proof (Z.mod_pos_bound cur new ltac:(lia)) as Hr.
  pose proof (Z.div_pos cur new ltac:(lia) ltac:(lia)) as Hq.
  pose proof (Z.div_mod cur new ltac:(lia)) as E.
  set (q := cur / new) in *. set (rm := cur mod new) in *. clearbody q rm.
  rewrite Nat2Z.inj_add, !Nat2Z.inj_mul, Nat2Z.inj_succ. rewrite (Z2Nat.id rm), (Z2Nat.id q), (Z2Nat.id (new - rm)); try lia.
Qed.

Lemma group_sizes_length cur new : 1 <= new -> Z.of_nat (length (group_sizes cur new)) = new.
Proof.
  intros H. unfold group_sizes. rewrite app_length, !repeat_length.
  pose proof (Z.mod_pos_bound cur new ltac:(lia)) as Hr. lia.
Qed.

Lemma coalesce_layout_lemma (r : rdd) m : 1 <= m -> r <> [] ->
  let cur := num_partitions r in
  let new := Z.min m cur in
  exists groups : list parts,
    coalesce r m = Ok (mk_rdd (map (@concat val) groups)) /\
    concat groups = glom r /\
    Z.of_nat (length groups) = new /\
    map (fun g => Z.of_nat (length g)) groups
      = repeat (cur / new + 1) (Z.to_nat (cur mod new)) ++ repeat (cur / new) (Z.to_nat (new - cur mod new)) /\
    local_iter (mk_rdd (map (@concat val) groups)) = local_iter r.
Proof.
  intros Hm Hne cur new.
  assert (Hcur : 1 <= cur). { unfold cur, num_partitions. destruct r; [congruence|cbn; lia]. }
  assert (Hnew : 1 <= new <= cur) by (unfold new; lia).
  pose proof (group_sizes_sum cur new Hnew) as Hsum.
  assert (Hsum' : fold_right Nat.add 0%nat (group_sizes cur new) = length (glom r)).
  { unfold glom. rewrite map_length. assert (Ec : cur = Z.of_nat (length r)) by reflexivity. lia. }
  exists (chunk (group_sizes cur new) (glom r)).
  split; [|split; [|split; [|split]]].
  - unfold coalesce. fold cur. fold new.
    destruct (Z.eqb_spec new 0) as [E|_]; [lia|].
    rewrite coalesce_plan_spec by assumption. fold new.
    pose proof (scatter_expand (group_sizes cur new) [] (glom r) Hsum') as Hs.
    cbn [app length Z.of_nat] in Hs.
    replace (Z.to_nat new) with (length (group_sizes cur new)) by (pose proof (group_sizes_length cur new); lia).
    now rewrite Hs.
  - now apply chunk_concat.
  - rewrite chunk_length. apply group_sizes_length. lia.
  - rewrite <- (map_map (@length _) Z.of_nat), chunk_lengths by lia.
    unfold group_sizes. rewrite map_app, !map_repeat.
    pose proof (Z.div_pos cur new ltac:(lia) ltac:(lia)) as Hq.
    f_equal; f_equal; lia.
  - rewrite mk_rdd_local_iter, concat_concat, chunk_concat by assumption. reflexivity.
Qed.

(* ---------- partitionBy *)
Definition sel (f : val -> Z) (n j : Z) (kv : val) : bool :=
  match key_of kv with Ok k => (f k) mod n =? j | Err _ => false end.

Definition pairs_ok (kvs : list val) : Prop := forall kv, In kv kvs -> exists k, key_of kv = Ok k.

Lemma extend_at_nth (l : parts) j p i : (j < length l)%nat ->
  nth i (extend_at l j p) [] = if Nat.eqb i j then nth i l [] ++ p else nth i l [].
Proof.
  revert j i. induction l as [|b l IH]; intros j i Hj; cbn in Hj; [lia|].
  destruct j as [|j]; destruct i as [|i]; cbn; try reflexivity.
  apply IH. lia.
Qed.

Lemma pb_scatter_spec f n : 0 < n -> forall kvs new,
  Z.of_nat (length new) = n -> pairs_ok kvs ->
  exists new', pb_scatter f n new kvs = Ok new' /\ length new' = length new /\
    forall j, (j < length new)%nat -> nth j new' [] = nth j new [] ++ filter (sel f n (Z.of_nat j)) kvs.
Proof.
  intros Hn kvs. induction kvs as [|kv kvs IH]; intros new Hlen Hok.
  - exists new. cbn. split; [reflexivity|split; [reflexivity|]]. intros j _. now rewrite app_nil_r.
  - destruct (Hok kv (or_introl eq_refl)) as (k & Hk).
    cbn [pb_scatter]. rewrite Hk.
    destruct (Z.eqb_spec n 0) as [E|_]; [lia|].
    unfold partition_index.
    pose proof (Z.mod_pos_bound (f k) n Hn) as Hb.
    rewrite py_idx_in by lia.
    set (j0 := Z.to_nat (f k mod n)).
    destruct (IH (extend_at new j0 [kv])) as (new' & E & Hl & Hnth).
    + rewrite extend_at_length. exact Hlen.
    + intros x Hx. apply Hok. now right.
    + exists new'. split; [exact E|]. rewrite extend_at_length in Hl, Hnth. split; [exact Hl|].
      intros j Hj. rewrite (Hnth j Hj), extend_at_nth by (unfold j0; lia).
      cbn [filter]. unfold sel at 2. rewrite Hk.
      destruct (Nat.eqb_spec j j0) as [->|Hne].
      * unfold j0. rewrite Z2Nat.id by lia. rewrite Z.eqb_refl. now rewrite <- app_assoc.
      * destruct (Z.eqb_spec (f k mod n) (Z.of_nat j)) as [E'|_]; [unfold j0 in Hne; lia|reflexivity].
Qed.

Lemma nth_repeat_nil {A} k j : nth j (repeat (@nil A) k) [] = [].
Proof. revert j. induction k as [|k IH]; intros [|j]; cbn; auto. Qed.

Lemma nth_error_nth' {A} (l : list A) j d : (j < length l)%nat -> nth_error l j = Some (nth j l d).
Proof. revert j. induction l as [|x l IH]; intros [|j] H; cbn in *; try lia; auto. apply IH. lia. Qed.

Lemma partitionBy_layout_lemma f (r : rdd) n : 0 < n -> pairs_ok (local_iter r) ->
  exists ps, partitionBy f r n = Ok (mk_rdd ps) /\ Z.of_nat (length ps) = n /\
    forall j, 0 <= j < n -> nth_error ps (Z.to_nat j) = Some (filter (sel f n j) (local_iter r)).
Proof.
  intros Hn Hok.
  destruct (pb_scatter_spec f n Hn (local_iter r) (repeat [] (Z.to_nat n))) as (ps & E & Hl & Hnth).
  - rewrite repeat_length. lia.
  - exact Hok.
  - exists ps. unfold partitionBy. rewrite E. rewrite repeat_length in Hl, Hnth.
    split; [reflexivity|split; [lia|]].
    intros j Hj. rewrite (nth_error_nth' ps (Z.to_nat j) []) by lia.
    rewrite Hnth by lia. rewrite nth_repeat_nil, Z2Nat.id by lia. reflexivity.
Qed.

(* every pair sits in partition f(key) mod n, and nowhere else *)
Lemma partitionBy_place_lemma f (r : rdd) n ps : 0 < n -> pairs_ok (local_iter r) ->
  partitionBy f r n = Ok (mk_rdd ps) ->
  forall kv k, key_of kv = Ok k ->
    (In kv (local_iter r) <-> exists p, nth_error ps (Z.to_nat (f k mod n)) = Some p /\ In kv p) /\
    (forall j p, nth_error ps j = Some p -> In kv p -> Z.of_nat j = f k mod n).
Proof.
  intros Hn Hok E kv k Hk.
  destruct (partitionBy_layout_lemma f r n Hn Hok) as (ps' & E' & Hl & Hnth).
  rewrite E in E'. injection E' as E'. apply (f_equal glom) in E'. rewrite !mk_rdd_glom in E'. subst ps'.
  pose proof (Z.mod_pos_bound (f k) n Hn) as Hb.
  split.
  - rewrite (Hnth _ Hb). split.
    + intros Hin. eexists. split; [reflexivity|]. apply filter_In. split; [exact Hin|].
      unfold sel. rewrite Hk. apply Z.eqb_refl.
    + intros (p & Ep & Hin). injection Ep as <-. now apply filter_In in Hin.
  - intros j p Ej Hin.
    assert (Hj : (j < length ps)%nat) by (apply nth_error_Some; congruence).
    rewrite <- (Nat2Z.id j) in Ej. rewrite Hnth in Ej by lia. injection Ej as <-.
    apply filter_In in Hin. destruct Hin as (_ & Hs). unfold sel in Hs. rewrite Hk in Hs.
    apply Z.eqb_eq in Hs. lia.
Qed.

(* ---------- zipWithUniqueId *)
Lemma uid_part_nth n i (p : list val) k x : nth_error p k = Some x ->
  nth_error (zip_uid_part n i p) k = Some (VTup [x; VInt (Z.of_nat k * n + i)]).
Proof.
  intros H. unfold zip_uid_part.
  erewrite map_nth_error by (apply enum_from_nth_error; exact H). reflexivity.
Qed.

Lemma uid_form_lemma (r : rdd) j i p k x :
  nth_error r j = Some (i, p) -> nth_error p k = Some x ->
  exists q, nth_error (zip_with_unique_id r) j = Some (i, q) /\
            nth_error q k = Some (VTup [x; VInt (Z.of_nat k * num_partitions r + i)]).
Proof.
  intros Hj Hk. unfold zip_with_unique_id. erewrite map_nth_error by exact Hj. cbn [fst snd].
  eexists. split; [reflexivity|]. now apply uid_part_nth.
Qed.

Lemma uid_injective_lemma n i i' k k' :
  0 <= i < n -> 0 <= i' < n -> unique_id k n i = unique_id k' n i' -> k = k' /\ i = i'.
Proof.
  unfold unique_id. intros Hi Hi' E.
  destruct (Z.lt_trichotomy k k') as [H|[H|H]].
  - assert ((k + 1) * n <= k' * n) by (apply Z.mul_le_mono_nonneg_r; lia). lia.
  - subst. lia.
  - assert ((k' + 1) * n <= k * n) by (apply Z.mul_le_mono_nonneg_r; lia). lia.
Qed.

Definition uid_of (v : val) : Z := match v with VTup [_; VInt z] => z | _ => -1 end.
Definition wf (r : rdd) : Prop := indices r = zrange 0 (num_partitions r).

Lemma NoDup_app' {A} (l1 l2 : list A) :
  NoDup l1 -> NoDup l2 -> (forall x, In x l1 -> ~ In x l2) -> NoDup (l1 ++ l2).
Proof.
  induction l1 as [|a l1 IH]; intros H1 H2 Hd; cbn; [exact H2|].
  inversion H1 as [|? ? Ha H1']; subst. constructor.
  - rewrite in_app_iff. intros [H|H]; [contradiction|]. apply (Hd a); [now left|exact H].
  - apply IH; auto. intros x Hx. apply Hd. now right.
Qed.

Lemma zrange_NoDup lo hi : NoDup (zrange lo hi).
Proof.
  unfold zrange. apply FinFun.Injective_map_NoDup; [|apply seq_NoDup].
  intros a b H. lia.
Qed.

Lemma uid_part_ids n i (p : list val) :
  map uid_of (zip_uid_part n i p) = map (fun e => unique_id e n i) (zrange 0 (Z.of_nat (length p))).
Proof.
  unfold zip_uid_part. rewrite map_map. cbn [uid_of].
  replace (Z.of_nat (length p)) with (0 + Z.of_nat (length p)) by lia.
  rewrite <- (enum_from_fst p 0), map_map. reflexivity.
Qed.

Lemma uid_ids_NoDup (l : rdd) n :
  NoDup (map fst l) -> (forall i p, In (i, p) l -> 0 <= i < n) ->
  NoDup (map uid_of (concat (map (fun ip => zip_uid_part n (fst ip) (snd ip)) l))).
Proof.
  induction l as [|[i p] l IH]; intros Hnd Hb; cbn [map concat]; [constructor|].
  cbn [fst snd] in *. inversion Hnd as [|? ? Hi Hnd']; subst.
  rewrite map_app. apply NoDup_app'.
  - rewrite uid_part_ids. apply FinFun.Injective_map_NoDup; [|apply zrange_NoDup].
    intros a b E. unfold unique_id in E.
    assert (0 < n) by (specialize (Hb i p (or_introl eq_refl)); lia). nia.
  - apply IH; [exact Hnd'|]. intros i' p' H'. apply (Hb i' p'). now right.
  - intros x Hx Hx'. rewrite uid_part_ids in Hx. apply in_map_iff in Hx. destruct Hx as (e & <- & _).
    apply in_map_iff in Hx'. destruct Hx' as (v & Ev & Hv).
    apply in_concat in Hv. destruct Hv as (q & Hq & Hv). apply in_map_iff in Hq.
    destruct Hq as ([i' p'] & <- & Hin). cbn [fst snd] in Hv.
    assert (Hvid : In (uid_of v) (map uid_of (zip_uid_part n i' p'))) by (now apply in_map).
    rewrite uid_part_ids, Ev in Hvid. apply in_map_iff in Hvid. destruct Hvid as (e' & E' & _).
    apply uid_injective_lemma in E'.
    + destruct E' as (_ & ->). apply Hi. apply (in_map fst) in Hin. exact Hin.
    + apply (Hb i' p'). now right.
    + apply (Hb i p). now left.
Qed.

Lemma wf_bounds (r : rdd) : wf r -> NoDup (map fst r) /\ forall i p, In (i, p) r -> 0 <= i < num_partitions r.
Proof.
  intros H. unfold wf, indices in H. split.
  - rewrite H. apply zrange_NoDup.
  - intros i p Hin. apply (in_map fst) in Hin. rewrite H in Hin. apply zrange_In in Hin. exact Hin.
Qed.

Lemma uid_distinct_lemma (r : rdd) : wf r -> NoDup (map uid_of (local_iter (zip_with_unique_id r))).
Proof.
  intros H. destruct (wf_bounds r H) as (Hnd & Hb).
  unfold local_iter, glom, zip_with_unique_id. rewrite map_map. cbn [snd].
  now apply uid_ids_NoDup.
Qed.

(* ---------- indices: every dataset that the layout code can build numbers its partitions 0..n-1 *)
Lemma wf_mk_rdd ps : wf (mk_rdd ps).
Proof. unfold wf. now rewrite mk_rdd_indices, mk_rdd_num. Qed.

Lemma wf_parallelize xs n : wf (parallelize xs n).
Proof.
  unfold parallelize. destruct n as [n|]; [destruct (par_single n)|]; try apply wf_mk_rdd; reflexivity.
Qed.

Lemma wf_map (g : Z * list val -> list val) (r : rdd) : wf r -> wf (map (fun ip => (fst ip, g ip)) r).
Proof.
  unfold wf, indices, num_partitions. intros H. rewrite map_map, map_length. cbn [fst]. exact H.
Qed.

Lemma wf_run_op o (r r' : rdd) : wf r -> run_op o r = Ok r' -> wf r'.
Proof.
  intros H E. destruct o as [m|m|n f| | |g|g| | |fi]; cbn [run_op] in E.
  - unfold coalesce in E. destruct (Z.min m (num_partitions r) =? 0); [discriminate|].
    destruct (coalesce_plan m (num_partitions r)) as [nn mp].
    destruct (scatter _ _ _); [|discriminate]. injection E as <-. apply wf_mk_rdd.
  - injection E as <-. unfold repartition. apply wf_parallelize.
  - unfold partitionBy in E. destruct (pb_scatter _ _ _ _); [|discriminate]. injection E as <-. apply wf_mk_rdd.
  - injection E as <-. unfold zip_with_unique_id.
    apply (wf_map (fun ip => zip_uid_part (num_partitions r) (fst ip) (snd ip))). exact H.
  - injection E as <-. unfold map_partitions_with_index.
    apply (wf_map (fun ip => tag_index (fst ip) (snd ip))). exact H.
  - injection E as <-. unfold map_partitions_with_index.
    apply (wf_map (fun ip => map g (snd ip))). exact H.
  - injection E as <-. unfold map_partitions_with_index.
    apply (wf_map (fun ip => flat_map g (snd ip))). exact H.
  - injection E as <-. exact H.
  - injection E as <-. unfold zip_with_index. apply wf_parallelize.
  - injection E as <-. exact H.
Qed.

Lemma wf_pipeline s ops (r : rdd) : run_pipeline s ops = Ok r -> wf r.
Proof.
  unfold run_pipeline. assert (H0 : wf (run_source s)).
  { destruct s; cbn; [apply wf_parallelize|apply wf_mk_rdd]. }
  revert H0. generalize (run_source s) as r0. induction ops as [|o ops IH]; intros r0 H0 E; cbn in E.
  - injection E as <-. exact H0.
  - destruct (run_op o r0) as [r1|] eqn:E1; [|discriminate].
    apply (IH r1); [|exact E]. eapply wf_run_op; eauto.
Qed.

Lemma mpwi_indices_lemma (f : Z -> list val -> list val) (r : rdd) :
  wf r ->
  indices (map_partitions_with_index f r) = zrange 0 (num_partitions r) /\
  glom (map_partitions_with_index f r) = map (fun ip => f (fst ip) (snd ip)) r /\
  glom (map_partitions_with_index (fun i _ => [VInt i]) r) = map (fun i => [VInt i]) (zrange 0 (num_partitions r)).
Proof.
  intros H. unfold map_partitions_with_index, indices, glom. rewrite !map_map. cbn [fst snd].
  split; [exact H|split; [reflexivity|]]. rewrite <- H. unfold indices. now rewrite map_map.
Qed.

(* ---------- hashing *)
Section ValInd.
  Variable P : val -> Prop.
  Hypothesis HNone : P VNone.
  Hypothesis HBool : forall b, P (VBool b).
  Hypothesis HInt : forall z, P (VInt z).
  Hypothesis HFloat : forall f, P (VFloat f).
  Hypothesis HStr : forall s, P (VStr s).
  Hypothesis HTup : forall l, Forall P l -> P (VTup l).
  Hypothesis HList : forall l, Forall P l -> P (VList l).
  Hypothesis HErr : forall e, P (VErr e).
  Fixpoint val_ind' (v : val) : P v :=
    let fix go (l : list val) : Forall P l :=
        match l with [] => Forall_nil P | x :: l' => Forall_cons x (val_ind' x) (go l') end in
    match v with
    | VNone => HNone | VBool b => HBool b | VInt z => HInt z | VFloat f => HFloat f | VStr s => HStr s
    | VTup l => HTup l (go l) | VList l => HList l (go l) | VErr e => HErr e
    end.
End ValInd.

(* keys built from None, bools, ints, floats, strings and (nested) tuples / lists of them *)
Fixpoint portableb (v : val) : bool :=
  match v with
  | VErr _ => false
  | VTup l | VList l => forallb portableb l
  | _ => true
  end.

Lemma fold_hash_ext (h1 h2 : string -> Z) (l : list val) :
  Forall (fun x => portableb x = true -> portable_hash h1 x = portable_hash h2 x) l ->
  forallb portableb l = true ->
  forall init,
    fold_left (fun h x => tuplehash_step sys_maxsize h (portable_hash h1 x)) l init
    = fold_left (fun h x => tuplehash_step sys_maxsize h (portable_hash h2 x)) l init.
Proof.
  induction 1 as [|x l Hx _ IH]; intros Hp init; cbn in *; [reflexivity|].
  apply andb_prop in Hp. destruct Hp as (Hpx & Hpl). rewrite (Hx Hpx). now apply IH.
Qed.

Lemma portable_hash_seed_independent_lemma (h1 h2 : string -> Z) (k : val) :
  portableb k = true -> portable_hash h1 k = portable_hash h2 k.
Proof.
  induction k as [| | | | |l IH|l IH|e] using val_ind'; intros Hp; cbn in *; try reflexivity; try discriminate.
  - now rewrite (fold_hash_ext h1 h2 l IH Hp).
  - now rewrite (fold_hash_ext h1 h2 l IH Hp).
Qed.

Lemma rdd_hash_mask_range h : 0 <= rdd_hash_mask h < 2 ^ 32.
Proof.
  unfold rdd_hash_mask. change 4294967295 with (Z.ones 32). rewrite Z.land_ones by lia.
  apply Z.mod_pos_bound. lia.
Qed.

Lemma default_partition_range h k n : 0 < n ->
  0 <= partition_index (rdd_hash h k) n < n.
Proof. intros Hn. unfold partition_index. apply Z.mod_pos_bound. exact Hn. Qed.

Lemma portable_hash_list_tuple h l : portable_hash h (VList l) = portable_hash h (VTup l).
Proof. reflexivity. Qed.

(* ---------- repartition *)
Lemma repartition_layout_lemma (r : rdd) m : 1 <= m ->
  let xs := local_iter r in
  let len := Z.of_nat (length xs) in
  let r' := repartition r m in
  num_partitions r' = m /\
  (forall i, 0 <= i < m ->
     nth_error r' (Z.to_nat i) = Some (i, slice xs (slice_start len m i) (slice_start len m (i + 1)))) /\
  local_iter r' = xs /\
  (forall i p, In (i, p) r' -> Z.of_nat (length p) = len / m \/ Z.of_nat (length p) = len / m + 1).
Proof.
  intros Hm xs len r'. unfold r', repartition. fold xs.
  destruct (Z.eq_dec m 1) as [->|Hne].
  - rewrite parallelize_single by lia. unfold local_iter, num_partitions. cbn [glom map snd concat length].
    rewrite app_nil_r. split; [reflexivity|split; [|split; [reflexivity|]]].
    + intros i Hi. assert (i = 0) by lia. subst i. cbn [Z.to_nat nth_error]. do 2 f_equal.
      unfold slice_start. rewrite Z.mul_0_l, Z.add_0_l, Z.mul_1_l, !Z.div_1_r. symmetry. apply slice_full.
    + intros i p [E|[]]. injection E as _ <-. fold len. rewrite Z.div_1_r. now left.
  - assert (H1 : 1 < m) by lia. pose proof (parallelize_layout_lemma xs m H1) as H. cbv zeta in H. exact H.
Qed.

(* ---------- the virtual range walk of the correspondence agrees with parallelize *)
Lemma slice_map {A B} (f : A -> B) (l : list A) a b : slice (map f l) a b = map f (slice l a b).
Proof. unfold slice. now rewrite skipn_map, firstn_map. Qed.

Lemma range_probe_correct_lemma N n i : 1 < n -> 0 <= N -> 0 <= i < n ->
  nth_error (parallelize (map VInt (zrange 0 N)) (Some n)) (Z.to_nat i)
  = Some (i, map VInt (zrange (fst (range_probe N n i)) (fst (range_probe N n i) + snd (range_probe N n i)))).
Proof.
  intros Hn HN Hi.
  destruct (parallelize_layout_lemma (map VInt (zrange 0 N)) n Hn) as (_ & Hnth & _).
  rewrite (Hnth i Hi). rewrite map_length, zrange_length, Z.sub_0_r, Z2Nat.id by lia.
  do 2 f_equal. rewrite slice_map. f_equal. unfold range_probe. cbn [fst snd].
  pose proof (start_bounds N n HN ltac:(lia) i ltac:(lia)).
  pose proof (start_bounds N n HN ltac:(lia) (i + 1) ltac:(lia)).
  pose proof (start_mono N n HN ltac:(lia) i (i + 1) ltac:(lia)).
  rewrite zrange_slice by lia. f_equal. lia.
Qed.

Lemma range_slices_correct_lemma N n : 1 < n -> 0 <= N ->
  range_slices 0 N n (zrange 0 n) = map (range_probe N n) (zrange 0 n).
Proof.
  intros Hn HN. pose proof (range_slices_spec N n Hn HN 0 ltac:(lia)) as H.
  rewrite start_0 in H by lia. exact H.
Qed.

Lemma slice_boundaries_lemma len n : 0 <= len -> 0 < n ->
  slice_start len n 0 = 0 /\ slice_start len n n = len /\
  (forall i j, i <= j -> slice_start len n i <= slice_start len n j) /\
  (forall i, 0 <= i <= n -> 0 <= slice_start len n i <= len).
Proof.
  intros Hl Hn. split; [apply start_0; assumption|split; [apply start_n; assumption|split]].
  - apply start_mono; assumption.
  - apply start_bounds; assumption.
Qed.

(* scattering by a total classifier only permutes *)
Lemma concat_insert {A} (x : A) (F : Z -> list A) (j0 : Z) (L : list Z) :
  NoDup L -> In j0 L ->
  Permutation (concat (map (fun j => if j0 =? j then x :: F j else F j) L)) (x :: concat (map F L)).
Proof.
  induction L as [|j L IH]; intros Hnd Hin; [destruct Hin|].
  inversion Hnd as [|? ? Hj Hnd']; subst. cbn [map concat].
  destruct (Z.eqb_spec j0 j) as [->|Hne].
  - cbn. constructor. apply Permutation_app_head.
    assert (E : map (fun j1 => if j =? j1 then x :: F j1 else F j1) L = map F L).
    { apply map_ext_in. intros a Ha. destruct (Z.eqb_spec j a) as [->|_]; [contradiction|reflexivity]. }
    now rewrite E.
  - destruct Hin as [->|Hin]; [congruence|].
    rewrite (IH Hnd' Hin). apply Permutation_sym, Permutation_middle.
Qed.

Lemma scatter_filter_perm {A} (g : A -> Z) n (l : list A) :
  (forall x, In x l -> 0 <= g x < n) ->
  Permutation (concat (map (fun j => filter (fun x => g x =? j) l) (zrange 0 n))) l.
Proof.
  induction l as [|x l IH]; intros Hb.
  - cbn [filter]. induction (zrange 0 n) as [|j L IHL]; cbn; [constructor|exact IHL].
  - cbn [filter].
    rewrite (concat_insert x (fun j => filter (fun y => g y =? j) l) (g x) (zrange 0 n)).
    + constructor. apply IH. intros y Hy. apply Hb. now right.
    + apply zrange_NoDup.
    + apply zrange_In. apply Hb. now left.
Qed.

Lemma nth_error_ext {A} (l1 l2 : list A) : (forall k, nth_error l1 k = nth_error l2 k) -> l1 = l2.
Proof.
  revert l2. induction l1 as [|a l1 IH]; intros [|b l2] H; try reflexivity.
  - specialize (H 0%nat). discriminate.
  - specialize (H 0%nat). discriminate.
  - pose proof (H 0%nat) as H0. cbn in H0. injection H0 as ->. f_equal. apply IH. intros k. apply (H (S k)).
Qed.

Lemma partitionBy_perm_lemma f (r : rdd) n ps : 0 < n -> pairs_ok (local_iter r) ->
  partitionBy f r n = Ok (mk_rdd ps) -> Permutation (concat ps) (local_iter r).
Proof.
  intros Hn Hok E.
  destruct (partitionBy_layout_lemma f r n Hn Hok) as (ps' & E' & Hl & Hnth).
  rewrite E in E'. injection E' as E'. apply (f_equal glom) in E'. rewrite !mk_rdd_glom in E'. subst ps'.
  assert (Eps : ps = map (fun j => filter (sel f n j) (local_iter r)) (zrange 0 n)).
  { apply nth_error_ext. intros k.
    destruct (Nat.lt_ge_cases k (length ps)) as [Hk|Hk].
    - rewrite <- (Nat2Z.id k). rewrite Hnth by lia.
      erewrite map_nth_error; [|apply zrange_nth_error; lia]. do 2 f_equal.
    - rewrite (proj2 (nth_error_None _ _)) by exact Hk.
      symmetry. apply nth_error_None. rewrite map_length, zrange_length. lia. }
  rewrite Eps.
  set (g := fun kv => match key_of kv with Ok k => f k mod n | Err _ => 0 end).
  assert (Ef : forall j, filter (sel f n j) (local_iter r) = filter (fun x => g x =? j) (local_iter r)).
  { intros j. apply filter_ext_in. intros kv Hkv. destruct (Hok kv Hkv) as (k & Hk).
    unfold sel, g. now rewrite Hk. }
  erewrite map_ext by (intros j; apply Ef).
  apply scatter_filter_perm. intros kv Hkv. destruct (Hok kv Hkv) as (k & Hk). unfold g. rewrite Hk.
  apply Z.mod_pos_bound. exact Hn.
Qed.

(* ---------- error branches *)
Lemma coalesce_zero_lemma (r : rdd) m : Z.min m (num_partitions r) = 0 -> coalesce r m = Err "ZeroDivisionError".
Proof. intros H. unfold coalesce. rewrite H. reflexivity. Qed.

Lemma coalesce_negative_lemma (r : rdd) m : m < 0 -> r <> [] -> coalesce r m = Err "IndexError".
Proof.
  intros Hm Hne. unfold coalesce. set (cur := num_partitions r).
  assert (Hcur : 1 <= cur). { unfold cur, num_partitions. destruct r; [congruence|cbn [length]; lia]. }
  destruct (Z.eqb_spec (Z.min m cur) 0) as [E|_]; [lia|].
  unfold coalesce_plan. replace (Z.min m cur) with m by lia.
  pose proof (Z.mod_neg_bound cur m Hm) as Hb.
  rewrite (zrange_nil 0 (cur mod m)) by lia.
  rewrite (zrange_nil (cur mod m)) by lia. cbn [flat_map app].
  unfold glom. destruct r as [|[i p] r]; [congruence|]. reflexivity.
Qed.

Lemma partitionBy_empty_lemma f (r : rdd) n : local_iter r = [] ->
  partitionBy f r n = Ok (mk_rdd (repeat [] (Z.to_nat n))).
Proof. intros H. unfold partitionBy. rewrite H. reflexivity. Qed.

Lemma partitionBy_zero_lemma f (r : rdd) kv kvs k :
  local_iter r = kv :: kvs -> key_of kv = Ok k -> partitionBy f r 0 = Err "ZeroDivisionError".
Proof. intros H Hk. unfold partitionBy. rewrite H. cbn [pb_scatter]. rewrite Hk. reflexivity. Qed.

Lemma partitionBy_negative_lemma f (r : rdd) n kv kvs k : n < 0 ->
  local_iter r = kv :: kvs -> key_of kv = Ok k -> partitionBy f r n = Err "IndexError".
Proof.
  intros Hn H Hk. unfold partitionBy. rewrite H. cbn [pb_scatter]. rewrite Hk.
  destruct (Z.eqb_spec n 0); [lia|].
  replace (Z.to_nat n) with 0%nat by lia. cbn [repeat length].
  unfold py_idx. cbn [Z.of_nat]. rewrite Z.opp_0.
  destruct (partition_index (f k) n) as [|q|q]; reflexivity.
Qed.

Lemma partitionBy_not_a_pair_lemma f (r : rdd) n kv kvs e :
  local_iter r = kv :: kvs -> key_of kv = Err e -> partitionBy f r n = Err e.
Proof. intros H Hk. unfold partitionBy. rewrite H. cbn [pb_scatter]. rewrite Hk. reflexivity. Qed.

(* ---------- a partitionBy at the end of any pipeline *)
Lemma run_ops_app a b (r : rdd) :
  run_ops (a ++ b) r = match run_ops a r with Ok r' => run_ops b r' | Err e => Err e end.
Proof.
  revert r. induction a as [|o a IH]; intros r; cbn [app run_ops]; [reflexivity|].
  destruct (run_op o r) as [r1|e]; [apply IH|reflexivity].
Qed.

Lemma partitionBy_after_pipeline_lemma s ops (r : rdd) n f :
  0 < n -> run_pipeline s ops = Ok r -> pairs_ok (local_iter r) ->
  exists ps, run_pipeline s (ops ++ [OPartitionBy n f]) = Ok (mk_rdd ps) /\
    Z.of_nat (length ps) = n /\
    (forall j, 0 <= j < n -> nth_error ps (Z.to_nat j) = Some (filter (sel f n j) (local_iter r))) /\
    (forall j p kv k, nth_error ps j = Some p -> In kv p -> key_of kv = Ok k -> Z.of_nat j = f k mod n).
Proof.
  intros Hn E Hok. unfold run_pipeline in *.
  destruct (partitionBy_layout_lemma f r n Hn Hok) as (ps & Ep & Hl & Hnth).
  exists ps. rewrite run_ops_app, E. cbn [run_ops run_op]. rewrite Ep.
  split; [reflexivity|split; [exact Hl|split; [exact Hnth|]]].
  intros j p kv k Ej Hin Hk.
  destruct (partitionBy_place_lemma f r n ps Hn Hok Ep kv k Hk) as (_ & H). exact (H j p Ej Hin).
Qed.

(* ---------- retried tasks *)
Lemma run_task_transient attempts plan f (ip : Z * list val) :
  (fails_before plan < attempts)%nat ->
  run_task attempts plan f ip = (Ok (f (fst ip) (snd ip)), repeat (fst ip) (S (fails_before plan))).
Proof.
  revert plan. induction attempts as [|k IH]; intros plan H; [lia|].
  destruct plan as [|[|] plan']; cbn [run_task fails_before repeat] in *; try reflexivity.
  destruct k as [|k']; [lia|].
  rewrite IH by lia. reflexivity.
Qed.

Lemma run_task_gives_up attempts plan f (ip : Z * list val) :
  (0 < attempts <= fails_before plan)%nat ->
  run_task attempts plan f ip = (Err "RuntimeError", repeat (fst ip) attempts).
Proof.
  revert plan. induction attempts as [|k IH]; intros plan H; [lia|].
  destruct plan as [|[|] plan']; cbn [fails_before] in H; try lia.
  cbn [run_task]. destruct k as [|k']; [reflexivity|].
  rewrite IH by lia. reflexivity.
Qed.

Definition transient_plans (plans : Z -> list bool) (r : rdd) : Prop :=
  forall i p, In (i, p) r -> (fails_before (plans i) < max_retries)%nat.

Lemma run_job_transient plans f (r : rdd) :
  transient_plans plans r ->
  run_job plans f r =
    (Ok (glom (map_partitions_with_index f r)),
     flat_map (fun ip => repeat (fst ip) (S (fails_before (plans (fst ip))))) r).
Proof.
  induction r as [|[i p] r IH]; intros H; [reflexivity|].
  cbn [run_job fst snd]. rewrite run_task_transient by (apply (H i p); now left).
  cbn [fst snd]. rewrite IH by (intros i' p' Hin; apply (H i' p'); now right).
  reflexivity.
Qed.

(* every attempt of every task sees the index of its own partition, whatever fails *)
Lemma run_task_indices attempts plan f (ip : Z * list val) :
  forall i, In i (snd (run_task attempts plan f ip)) -> i = fst ip.
Proof.
  revert plan. induction attempts as [|k IH]; intros plan i Hin; [destruct Hin|].
  destruct plan as [|[|] plan']; cbn [run_task snd] in Hin.
  - destruct Hin as [<-|[]]. reflexivity.
  - destruct k as [|k']; cbn [snd] in Hin.
    + destruct Hin as [<-|[]]. reflexivity.
    + destruct Hin as [<-|Hin]; [reflexivity|]. exact (IH _ _ Hin).
  - destruct Hin as [<-|[]]. reflexivity.
Qed.

(* zipWithUniqueId evaluated by retried tasks: same ids as without faults *)
Lemma uid_under_retries_lemma plans (r : rdd) :
  transient_plans plans r ->
  fst (run_job plans (zip_uid_part (num_partitions r)) r) = Ok (glom (zip_with_unique_id r)).
Proof. intros H. rewrite run_job_transient by exact H. reflexivity. Qed.

(* ---------- zipWithIndex *)
Lemma zip_with_index_lemma (r : rdd) :
  num_partitions (zip_with_index r) = 1 /\
  length (local_iter (zip_with_index r)) = length (local_iter r) /\
  forall k x, nth_error (local_iter r) k = Some x ->
              nth_error (local_iter (zip_with_index r)) k = Some (VTup [x; VInt (Z.of_nat k)]).
Proof.
  unfold zip_with_index, parallelize. set (l := map _ (enum_from 0 (local_iter r))).
  assert (E : local_iter [(0, l)] = l) by (unfold local_iter; cbn; apply app_nil_r).
  rewrite E. unfold l. split; [reflexivity|split].
  - now rewrite map_length, enum_from_length.
  - intros k x H. erewrite map_nth_error by (apply enum_from_nth_error; exact H). reflexivity.
Qed.

(* ---------- a job on a subset / reordering of the partitions *)
Lemma subset_job_lemma plans f (r sel : rdd) :
  incl sel r -> transient_plans plans sel ->
  run_job plans f sel =
    (Ok (map (fun ip => f (fst ip) (snd ip)) sel),
     flat_map (fun ip => repeat (fst ip) (S (fails_before (plans (fst ip))))) sel) /\
  (forall ip, In ip sel -> In (fst ip, f (fst ip) (snd ip)) (map_partitions_with_index f r)).
Proof.
  intros Hincl Ht. split.
  - rewrite run_job_transient by exact Ht. unfold glom, map_partitions_with_index. now rewrite map_map.
  - intros ip Hin. unfold map_partitions_with_index.
    apply (in_map (fun ip0 => (fst ip0, f (fst ip0) (snd ip0)))). apply Hincl. exact Hin.
Qed.

Lemma uid_subset_lemma (r sel : rdd) j i p k x :
  incl sel r -> nth_error sel j = Some (i, p) -> nth_error p k = Some x ->
  exists ps q, fst (run_job (fun _ => []) (zip_uid_part (num_partitions r)) sel) = Ok ps /\
    nth_error ps j = Some q /\
    nth_error q k = Some (VTup [x; VInt (Z.of_nat k * num_partitions r + i)]).
Proof.
  intros Hincl Hj Hk.
  destruct (subset_job_lemma (fun _ => []) (zip_uid_part (num_partitions r)) r sel Hincl) as (E & _).
  { intros i' p' _. cbn. unfold max_retries. lia. }
  rewrite E. cbn [fst]. eexists. eexists. split; [reflexivity|split].
  - erewrite map_nth_error by exact Hj. reflexivity.
  - cbn [fst snd]. now apply uid_part_nth.
Qed.
