(* C01 -- fold(zero, op) for a monoid on a carrier. *)
From Coq Require Import String ZArith NArith List Bool Lia.
Require Import PV.Base.Val PV.Base.PyArith.
Require Import PV.Model.Rdd PV.Proofs.Rdd PV.Proofs.RddTr PV.Proofs.RddCount PV.Proofs.RddAct.
Import ListNotations.
Open Scope Z_scope.

(* fold(zero, op) in its textbook form: op associative with neutral element zero on a carrier D that is
   closed under op, data in D.  (agg_hom is the weaker, image-based contract; this is the familiar one.) *)
Definition monoid_on (D : val -> Prop) (z : val) (op : op2) : Prop :=
  D z /\
  (forall a b, D a -> D b -> exists c, op a b = Ok c /\ D c) /\
  (forall a, D a -> op z a = Ok a /\ op a z = Ok a) /\
  (forall a b c, D a -> D b -> D c -> (bc <- op b c ;; op a bc) = (ab <- op a b ;; op ab c)).

Section Monoid.
  Variable D : val -> Prop.
  Variable z : val.
  Variable op : op2.
  Hypothesis M : monoid_on D z op.

  Lemma mon_fold_total xs : Forall D xs -> forall a, D a -> exists r, foldM op xs a = Ok r /\ D r.
  Proof.
    destruct M as [_ [Hc _]].
    induction 1 as [|x xs Hx Hxs IH]; intros a Ha; simpl.
    - exists a; auto.
    - destruct (Hc a x Ha Hx) as [c [E Dc]]. rewrite E. simpl. apply IH; assumption.
  Qed.

  (* a + (b + x1 + ... + xn) = (a + b) + x1 + ... + xn *)
  Lemma mon_fold_shift xs : Forall D xs -> forall a b, D a -> D b ->
    (r <- foldM op xs b ;; op a r) = (ab <- op a b ;; foldM op xs ab).
  Proof.
    destruct M as [_ [Hc [_ Ha]]].
    induction 1 as [|x xs Hx Hxs IH]; intros a b Da Db; simpl.
    - destruct (op a b); reflexivity.
    - destruct (Hc b x Db Hx) as [bx [E Dbx]]. rewrite E. simpl.
      rewrite (IH a bx Da Dbx).
      pose proof (Ha a b x Da Db Hx) as A. rewrite E in A. simpl in A. rewrite A.
      destruct (op a b); reflexivity.
  Qed.

  Lemma mon_parts ps : Forall (Forall D) ps -> forall acc, D acc ->
    job_fold (fun p => foldM op p z) op ps acc = foldM op (concat ps) acc.
  Proof.
    destruct M as [Dz [Hc [Hn _]]].
    induction 1 as [|p ps Hp Hps IH]; intros acc Dacc; simpl; auto.
    rewrite foldM_app.
    destruct (mon_fold_total p Hp z Dz) as [t [Et Dt]].
    destruct (mon_fold_total p Hp acc Dacc) as [r [Er Dr]].
    pose proof (mon_fold_shift p Hp acc z Dacc Dz) as S.
    rewrite Et in S. simpl in S. rewrite (proj2 (Hn acc Dacc)) in S. simpl in S.
    rewrite Et, Er. simpl. rewrite S, Er. simpl. apply IH; assumption.
  Qed.

  Theorem fold_monoid ps : Forall (Forall D) ps ->
    run_act (AFold z op) ps = run_list (AFold z op) (concat ps).
  Proof. intros H. simpl. apply mon_parts; auto. destruct M; assumption. Qed.
End Monoid.
