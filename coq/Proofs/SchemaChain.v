(* C15 -- joins, grouped aggregation / pivot, createDataFrame, range, and every reachable DataFrame. *)
From Coq Require Import String ZArith NArith List Bool Lia.
Require Import PV.Base.Val PV.Gen.SchemaNames PV.Model.Schema PV.Proofs.Schema PV.Proofs.SchemaOps PV.Proofs.SchemaLink.
Import ListNotations.
Open Scope Z_scope.
Close Scope string_scope.


(* ---------- joins ---------- *)
Lemma filter_combine_fst {A B} (P : A -> bool) : forall (a : list A) (b : list B),
  length a = length b -> map fst (filter (fun fv => P (fst fv)) (combine a b)) = filter P a.
Proof.
  induction a as [|x a IH]; destruct b as [|y b]; simpl; intros H; try discriminate; auto.
  destruct (P x); simpl; rewrite IH by lia; auto.
Qed.

Lemma mapM_tag_snd {A K} (h : A -> res K) : forall l lk,
  mapM (fun r => bind (h r) (fun k => Ok (k, r))) l = Ok lk -> map snd lk = l.
Proof.
  induction l as [|x l IH]; simpl; intros lk H.
  - inversion H; reflexivity.
  - inv_bind H as y Hy. inv_bind Hy as k Hk. inversion Hy; subst.
    inv_bind H as ys Hys. inversion H; subst. simpl. f_equal. auto.
Qed.

Lemma in_match_map {A B} (f : A -> B) (dflt : list B) (ms : list A) (x : B) :
  In x (match ms with [] => dflt | p :: l0 => map f (p :: l0) end) ->
  (ms = [] /\ In x dflt) \/ (exists y, In y ms /\ x = f y).
Proof.
  destruct ms as [|m ms]; intros H; [left; auto|right].
  apply in_map_iff in H. destruct H as [y [E Hy]]. eauto.
Qed.

Lemma join_pairs_from : forall how lk rk l r,
  In (l, r) (join_pairs how lk rk) ->
  (forall lr, l = Some lr -> In lr (map snd lk)) /\
  (how <> JSemi -> forall rr, r = Some rr -> In rr (map snd rk)).
Proof.
  intros how lk rk l r H.
  assert (Hfl : forall (k : list val) side (x : list val * row),
             In x (filter (fun kr => vals_eqb k (fst kr)) side) -> In (snd x) (map snd side)).
  { intros k side x Hx. apply filter_In in Hx. apply in_map. tauto. }
  destruct how; cbv beta iota delta [join_pairs] in H.
  - (* inner *)
    apply in_flat_map in H. destruct H as [x [Hx H]]. apply in_map_iff in H. destruct H as [y [E Hy]].
    inversion E; subst. split; intros; match goal with E' : Some _ = Some _ |- _ => inversion E'; subst end;
      [now apply in_map | eauto].
  - (* left *)
    apply in_flat_map in H. destruct H as [x [Hx H]].
    apply in_match_map in H. destruct H as [[_ [E|[]]]|[y [Hy E]]]; inversion E; subst;
      (split; intros; try discriminate; match goal with E' : Some _ = Some _ |- _ => inversion E'; subst end);
      [now apply in_map | now apply in_map | eauto].
  - (* right *)
    apply in_flat_map in H. destruct H as [x [Hx H]].
    apply in_match_map in H. destruct H as [[_ [E|[]]]|[y [Hy E]]]; inversion E; subst;
      (split; intros; try discriminate; match goal with E' : Some _ = Some _ |- _ => inversion E'; subst end);
      [now apply in_map | eauto | now apply in_map].
  - (* full *)
    apply in_app_or in H. destruct H as [H|H].
    + apply in_flat_map in H. destruct H as [x [Hx H]].
      apply in_match_map in H. destruct H as [[_ [E|[]]]|[y [Hy E]]]; inversion E; subst;
        (split; intros; try discriminate; match goal with E' : Some _ = Some _ |- _ => inversion E'; subst end);
        [now apply in_map | now apply in_map | eauto].
    + apply in_flat_map in H. destruct H as [x [Hx H]].
      destruct (filter _ lk) as [|m ms] eqn:E; [|contradiction].
      destruct H as [E'|[]]. inversion E'; subst. split; intros; try discriminate.
      match goal with E'' : Some _ = Some _ |- _ => inversion E''; subst end. now apply in_map.
  - (* semi *)
    apply in_flat_map in H. destruct H as [x [Hx H]].
    destruct (filter _ rk) as [|m ms] eqn:E; [contradiction|].
    destruct H as [E'|[]]. inversion E'; subst. split; intros; [|congruence].
    match goal with E'' : Some _ = Some _ |- _ => inversion E''; subst end. now apply in_map.
  - (* anti *)
    apply in_flat_map in H. destruct H as [x [Hx H]].
    destruct (filter _ rk) as [|m ms] eqn:E; [|contradiction].
    destruct H as [E'|[]]. inversion E'; subst. split; intros; try discriminate.
    match goal with E'' : Some _ = Some _ |- _ => inversion E''; subst end. now apply in_map.
Qed.

Definition join_names (f g : frame) (how : jointype) (on : list name) (lon ron : list field) : list name :=
  on ++ map fname (filter (not_in lon) (fields f))
     ++ (if schema_keeps_right (gh how) then map fname (filter (not_in ron) (fields g)) else []).

Lemma merge_schemas_names : forall f g how on lon ron pfs,
  mapM (first_named (fields f)) on = Ok lon -> mapM (first_named (fields g)) on = Ok ron ->
  merge_schemas f g how on = Ok pfs -> map pname pfs = join_names f g how on lon ron.
Proof.
  intros f g how on lon ron pfs Hl Hr H. unfold merge_schemas in H.
  rewrite Hl, Hr in H. simpl in H. inversion H; subst. clear H.
  pose proof (first_named_names _ _ _ Hl) as Nl. pose proof (first_named_names _ _ _ Hr) as Nr.
  unfold join_names. rewrite !map_app, !map_map. simpl.
  f_equal; [|f_equal].
  - destruct how; rewrite ?map_map; simpl; auto.
  - destruct (schema_keeps_right (gh how)); rewrite ?map_map; simpl; auto.
Qed.

Lemma merge_joined_ok : forall f g how on lon ron l r row',
  wf f -> wf g ->
  mapM (first_named (fields f)) on = Ok lon -> mapM (first_named (fields g)) on = Ok ron ->
  (forall lr, l = Some lr -> row_ok (columns f) lr) ->
  (how <> JSemi -> forall rr, r = Some rr -> row_ok (columns g) rr) ->
  merge_joined f g how on lon ron l r = Ok row' ->
  row_ok (join_names f g how on lon ron) row'.
Proof.
  intros f g how on lon ron l r row' [Nf _] [Ng _] Hl Hr HL HR H. unfold merge_joined in H.
  inv_bind H as on_parts Hon. inv_bind H as left_parts Hlp. inv_bind H as right_parts Hrp.
  inversion H; subst. apply row_of_pairs_ok. rewrite !map_app. unfold join_names.
  f_equal; [|f_equal].
  - apply (mapM_tag_fst (fun c : name => c)) in Hon. now rewrite map_id in Hon.
  - assert (Hnull : length (snd (null_row (snames f))) = length (fields f)).
    { unfold null_row; simpl. rewrite map_length, Nf. unfold columns. now rewrite map_length. }
    assert (Hlen : forall lr, (match l, how with
                               | None, JFull | None, JRight => Some (null_row (snames f))
                               | _, _ => l end) = Some lr -> length (snd lr) = length (fields f)).
    { intros lr E. destruct l as [l0|].
      - assert (E' : Some l0 = Some lr) by (destruct how; exact E). inversion E'; subst.
        destruct (HL _ eq_refl) as [_ Hlen]. rewrite Hlen. unfold columns. now rewrite map_length.
      - destruct how; try discriminate; inversion E; subst; exact Hnull. }
    destruct (match l, how with
              | None, JFull | None, JRight => Some (null_row (snames f))
              | _, _ => l end) as [lr|] eqn:E; [|discriminate].
    inversion Hlp; subst. rewrite map_map. simpl.
    rewrite <- (map_map fst fname). f_equal.
    apply (filter_combine_fst (not_in lon)). symmetry. now apply Hlen.
  - rewrite <- right_fields_agree in Hrp.
    destruct (schema_keeps_right (gh how)) eqn:K; [|inversion Hrp; subst; reflexivity].
    assert (Hns : how <> JSemi) by (intros ->; change (gh JSemi) with G_LEFT_SEMI_JOIN in K; rewrite semi_drops_right in K; discriminate).
    assert (Hnull : length (snd (null_row (snames g))) = length (fields g))
      by (unfold null_row; simpl; rewrite map_length, Ng; unfold columns; now rewrite map_length).
    match type of Hrp with
    | (match ?x with Some _ => _ | None => _ end) = _ => destruct x as [rr|] eqn:E; [|discriminate]
    end.
    inversion Hrp; subst; rewrite map_map; simpl; rewrite <- (map_map fst fname); f_equal.
    apply (filter_combine_fst (not_in ron)); symmetry.
    destruct r as [r0|].
    + assert (E' : Some r0 = Some rr) by (destruct how; exact E). inversion E'; subst.
      destruct (HR Hns _ eq_refl) as [_ Hlen]. rewrite Hlen. unfold columns. now rewrite map_length.
    + destruct how; try discriminate; inversion E; subst; exact Hnull.
Qed.

Lemma wf_join : forall f g how on p, wf f -> wf g -> join f g how on = Ok p -> wf_pre p.
Proof.
  intros f g how on p Hf Hg H. unfold join in H.
  inv_bind H as pfs Hpfs. inv_bind H as lon Hlon. inv_bind H as ron Hron.
  inv_bind H as lk Hlk. inv_bind H as rk Hrk. inv_bind H as rs Hrs. inversion H; subst.
  apply struct_of_wf. rewrite (merge_schemas_names _ _ _ _ _ _ _ Hlon Hron Hpfs).
  rewrite Forall_forall. intros row' Hin.
  destruct (mapM_In _ _ _ _ Hrs Hin) as [[l r] [Hp Hm]]. simpl in Hm.
  destruct (join_pairs_from _ _ _ _ _ Hp) as [HL HR].
  apply mapM_tag_snd in Hlk. apply mapM_tag_snd in Hrk. rewrite Hlk in HL. rewrite Hrk in HR.
  eapply merge_joined_ok; eauto.
  - intros lr E. destruct Hf as [_ Hf]. rewrite Forall_forall in Hf. auto.
  - intros Hs rr E. destruct Hg as [_ Hg]. rewrite Forall_forall in Hg. auto.
Qed.

(* semi and anti joins declare and return only columns of the left side (repaired defect 7a47d84) *)
Lemma semi_anti_columns : forall f g how on lon ron pfs,
  (how = JSemi \/ how = JAnti) ->
  mapM (first_named (fields f)) on = Ok lon -> mapM (first_named (fields g)) on = Ok ron ->
  merge_schemas f g how on = Ok pfs ->
  map pname pfs = on ++ map fname (filter (not_in lon) (fields f)).
Proof.
  intros f g how on lon ron pfs Hh Hl Hr H.
  rewrite (merge_schemas_names _ _ _ _ _ _ _ Hl Hr H). unfold join_names.
  destruct Hh; subst; [change (gh JSemi) with G_LEFT_SEMI_JOIN; rewrite semi_drops_right|change (gh JAnti) with G_LEFT_ANTI_JOIN; rewrite anti_drops_right]; now rewrite app_nil_r.
Qed.

(* ---------- groupBy / agg / pivot ---------- *)
Lemma grp_fields_name : forall f e pf, grp_fields f e = Ok pf -> map pname pf = [expr_str e].
Proof.
  intros f e pf H. unfold grp_fields, sel_fields in H.
  destruct e; try (inversion H; subst; reflexivity).
  inv_bind H as p Hp. destruct (nth_error (fields f) p) eqn:E; [|discriminate].
  inversion H; subst. simpl. f_equal. eapply find_pos_name; eauto.
Qed.
Lemma grp_fields_names : forall f keys gfs,
  mapM (grp_fields f) keys = Ok gfs -> map pname (concat gfs) = map expr_str keys.
Proof.
  intros f keys gfs H. apply mapM_Forall2 in H. induction H; simpl; auto.
  rewrite map_app, IHForall2. erewrite grp_fields_name by eauto. reflexivity.
Qed.

Lemma group_keys_In : forall ks seen k, In k (group_keys seen ks) -> In k seen \/ In k ks.
Proof.
  induction ks as [|x ks IH]; simpl; intros seen k H.
  - left. now apply in_rev.
  - destruct (existsb (vals_eqb x) seen).
    + destruct (IH _ _ H); auto.
    + destruct (IH _ _ H) as [[<-|?]|?]; auto.
Qed.

Definition row_name (single : bool) (cell : option val) (a : agg) : name :=
  match cell with
  | None => agg_str a
  | Some pv => if single then pv_str pv else pivot_name_row (pv_str pv) (agg_str a)
  end.
Lemma stat_name_row_eq : forall single cell a nm,
  stat_name_row single cell a = Ok nm -> nm = row_name single cell a.
Proof.
  intros single cell a nm H. unfold stat_name_row, row_name in *.
  destruct cell as [pv|]; [|inversion H; auto].
  destruct single; inversion H; auto.
Qed.

Lemma cell_stats_names {X} (single : bool) (cell : option val) (val_of : nat * agg -> X) :
  forall (ias : list (nat * agg)) st,
  mapM (fun ia => bind (stat_name_row single cell (snd ia)) (fun nm => Ok (nm, val_of ia))) ias = Ok st ->
  map fst st = map (fun ia => row_name single cell (snd ia)) ias.
Proof.
  induction ias as [|ia ias IH]; simpl; intros st H.
  - inversion H; reflexivity.
  - inv_bind H as y Hy. inv_bind Hy as nm Hnm. inversion Hy; subst.
    inv_bind H as ys Hys. inversion H; subst. simpl. f_equal; auto.
    now apply stat_name_row_eq.
Qed.

Lemma schema_names_cells : forall pvals aggs,
  stat_names_schema pvals aggs =
  flat_map (fun cell => map (row_name (Nat.eqb (length aggs) 1) cell) aggs) (pivot_cells pvals).
Proof.
  intros pvals aggs. unfold stat_names_schema, pivot_cells.
  destruct pvals as [vs|]; simpl.
  - destruct (Nat.eqb (length aggs) 1) eqn:E.
    + apply Nat.eqb_eq in E. destruct aggs as [|a [|b aggs]]; try discriminate.
      induction vs as [|v vs IH]; simpl; auto. f_equal; auto.
    + induction vs as [|v vs IH]; simpl; auto. f_equal; auto.
  - now rewrite app_nil_r.
Qed.

Lemma group_row_ok : forall keys pvals aggs ars k row',
  length k = length keys ->
  group_row keys pvals aggs ars k = Ok row' ->
  row_ok (map expr_str keys ++ stat_names_schema pvals aggs) row'.
Proof.
  intros keys pvals aggs ars k row' Hk H. unfold group_row in H.
  inv_bind H as stats Hst. inversion H; subst. apply row_of_pairs_ok.
  rewrite map_app. f_equal.
  - apply map_fst_combine. now rewrite map_length.
  - rewrite schema_names_cells. clear H Hk.
    revert stats Hst. induction (pivot_cells pvals) as [|cell cells IH]; simpl; intros stats Hst.
    + inversion Hst; reflexivity.
    + inv_bind Hst as st Hcell. inv_bind Hst as sts Hcells. inversion Hst; subst.
      simpl. rewrite map_app. f_equal; auto.
      apply cell_stats_names in Hcell. rewrite Hcell.
      rewrite <- (map_map snd (row_name _ cell)). f_equal.
      apply map_snd_combine. now rewrite seq_length.
Qed.

Lemma wf_grouped_agg : forall f keys pivot aggs p, grouped_agg f keys pivot aggs = Ok p -> wf_pre p.
Proof.
  intros f keys pivot aggs p H. unfold grouped_agg in H.
  destruct aggs as [|a0 aggs0]; [discriminate|]. remember (a0 :: aggs0) as aggs.
  inv_bind H as pvals Hpv. inv_bind H as gfs Hgfs. inv_bind H as ars Hars. inv_bind H as rs Hrs.
  inversion H; subst p. apply struct_of_wf.
  rewrite map_app, map_map. simpl. rewrite map_id. rewrite (grp_fields_names _ _ _ Hgfs).
  rewrite Forall_forall. intros row' Hin.
  destruct (mapM_In _ _ _ _ Hrs Hin) as [k [Hk Hrow]].
  eapply group_row_ok; eauto.
  apply group_keys_In in Hk. destruct Hk as [[]|Hk].
  apply in_map_iff in Hk. destruct Hk as [ar [<- Har]].
  destruct (mapM_In _ _ _ _ Hars Har) as [r [_ Hr]]. unfold agg_row in Hr.
  inv_bind Hr as kk Hkk. inv_bind Hr as pv Hpv'. inv_bind Hr as args Hargs. inversion Hr; subst. simpl.
  eapply mapM_length; eauto.
Qed.

(* ---------- createDataFrame / range ---------- *)
Lemma rename_loop_length : forall names i acc r, rename_loop names i acc = Ok r -> length r = length acc.
Proof.
  induction names as [|n names IH]; simpl; intros i acc r H.
  - inversion H; auto.
  - destruct (set_nth acc i n) as [acc'|] eqn:E; [|discriminate].
    rewrite (IH _ _ _ H).
    clear - E. revert i acc' E. induction acc as [|y acc IHa]; destruct i; simpl; intros acc' E; try discriminate.
    + inversion E; auto.
    + destruct (set_nth acc i n) eqn:E'; [|discriminate]. inversion E; subst. simpl. f_equal. eauto.
Qed.

Definition rectangular (data : list (list val)) : Prop := exists w, Forall (fun d => length d = w) data.

Lemma fold_max_const : forall (l : list nat) w a, Forall (fun n => n = w) l -> fold_left Nat.max l a = Nat.max a (match l with [] => a | _ => w end).
Proof.
  induction l as [|x l IH]; simpl; intros w a H.
  - now rewrite Nat.max_id.
  - inversion H; subst. rewrite (IH w); auto. destruct l; lia.
Qed.

Lemma wf_create : forall by_struct names data p,
  (by_struct = false -> rectangular data) -> create by_struct names data = Ok p -> wf_pre p.
Proof.
  intros by_struct names data p Hrect H. unfold create in H. destruct by_struct.
  - destruct (forallb _ data) eqn:E; [|discriminate]. inversion H; subst.
    apply struct_of_wf. rewrite map_map. simpl. rewrite map_id.
    rewrite forallb_forall in E. rewrite Forall_forall. intros r Hin.
    apply in_map_iff in Hin. destruct Hin as [d [<- Hd]]. split; simpl; auto.
    apply Nat.eqb_eq. auto.
  - destruct (Hrect eq_refl) as [w Hw]. destruct data as [|first rest]; [discriminate|].
    remember (first :: rest) as data.
    set (width := fold_left Nat.max (map (@length val) data) O) in *.
    destruct (forallb _ _); [|discriminate].
    inv_bind H as fnames Hfn. inv_bind H as nnames Hnn. inversion H; subst p.
    assert (nnames = fnames) by congruence. subst nnames.
    unfold wf_pre; simpl. rewrite map_map. simpl. rewrite map_id. split; auto.
    apply rename_loop_length in Hfn. rewrite firstn_length in Hfn.
    assert (Hwidth : width = w).
    { unfold width. rewrite (fold_max_const _ w).
      - subst data. simpl. inversion Hw; subst. lia.
      - rewrite Forall_forall in *. intros n Hn. apply in_map_iff in Hn. destruct Hn as [d [<- Hd]]. auto. }
    assert (Hpad : (width <= length (pad_names names width))%nat).
    { unfold pad_names. rewrite app_length, map_length, seq_length. lia. }
    rewrite Forall_forall in *. intros r Hin. apply in_map_iff in Hin. destruct Hin as [d [<- Hd]].
    split; simpl; auto. rewrite (Hw _ Hd). lia.
Qed.

Lemma wf_range : forall a b s p, range_frame a b s = Ok p -> wf_pre p.
Proof.
  intros a b s p H. unfold range_frame in H. destruct (s =? 0); [discriminate|]. inversion H; subst.
  apply struct_of_wf. simpl. rewrite Forall_forall. intros x Hx. apply in_map_iff in Hx.
  destruct Hx as [i [<- _]]. split; reflexivity.
Qed.

(* rows that carry their own field names (Row / namedtuple), renamed by the schema argument *)
Lemma names_eqb_eq : forall a b, names_eqb a b = true -> a = b.
Proof.
  induction a as [|x a IH]; destruct b as [|y b]; simpl; intros E; try discriminate; auto.
  apply andb_true_iff in E. destruct E as [E1 E2]. apply name_eqb_eq in E1. f_equal; auto.
Qed.

(* when the row's own names are duplicate-free (or equal to the struct's), the converted row has one
   value per struct name *)
Lemma match_by_name_length : forall own names d vs,
  length d = length own -> (nodup_names own = true \/ length names = length own) ->
  forallb (fun n => mem_name n own) names = true ->
  match_by_name own names d = Ok vs -> length vs = length names.
Proof.
  intros own names d vs Hd Hnd Hsub H. unfold match_by_name in H. rewrite Hsub in H. rewrite andb_true_r in H.
  destruct (names_eqb own names) eqn:E; simpl in H.
  - inversion H; subst. apply names_eqb_eq in E. subst. auto.
  - destruct (nodup_names own) eqn:N; simpl in H.
    + eapply mapM_length; eauto.
    + inversion H; subst. destruct Hnd as [Hnd|Hnd]; [discriminate|]. congruence.
Qed.
Lemma match_by_name_length_same : forall own names d vs,
  length d = length own -> length names = length own ->
  match_by_name own names d = Ok vs -> length vs = length names.
Proof.
  intros own names d vs Hd Hl H. unfold match_by_name in H.
  destruct (negb (names_eqb own names) && nodup_names own && forallb (fun n => mem_name n own) names).
  - eapply mapM_length; eauto.
  - inversion H; subst. congruence.
Qed.

(* rows that carry their own field names (Row / namedtuple), renamed by the schema argument *)
Lemma wf_create_rows : forall is_row by_struct own names data p,
  (by_struct = true -> is_row = true -> nodup_names own = true) ->
  create_rows is_row by_struct own names data = Ok p -> wf_pre p.
Proof.
  intros is_row by_struct own names data p Hnd H. unfold create_rows in H.
  destruct (forallb (fun d => Nat.eqb (length d) (length own)) data) eqn:Hlen; simpl in H; [|discriminate].
  rewrite forallb_forall in Hlen.
  destruct by_struct.
  - destruct is_row; simpl in H.
    + destruct data as [|d0 data0]; [inversion H; subst; apply struct_of_wf; constructor|].
      remember (d0 :: data0) as data.
      destruct (forallb (fun n => mem_name n own) names) eqn:Hsub; simpl in H; [|discriminate].
      inv_bind H as rs Hrs. inversion H; subst p. apply struct_of_wf.
      rewrite map_map. simpl. rewrite map_id.
      rewrite Forall_forall. intros r Hin.
      destruct (mapM_In _ _ _ _ Hrs Hin) as [d [Hd Hr]].
      inv_bind Hr as vs Hvs. inversion Hr; subst. split; simpl; auto.
      eapply match_by_name_length; [|left; exact (Hnd eq_refl eq_refl)|exact Hsub|exact Hvs].
      apply Nat.eqb_eq. apply Hlen. exact Hd.
    + destruct (forallb (fun d => Nat.eqb (length d) (length names)) data) eqn:E; [|discriminate].
      inversion H; subst. apply struct_of_wf. rewrite map_map. simpl. rewrite map_id.
      rewrite forallb_forall in E. rewrite Forall_forall. intros r Hin.
      apply in_map_iff in Hin. destruct Hin as [d [<- Hd]]. split; simpl; auto. apply Nat.eqb_eq. auto.
  - destruct data as [|first rest]; [discriminate|]. remember (first :: rest) as data.
    destruct (forallb _ _); [|discriminate].
    inv_bind H as fnames Hfn. inv_bind H as nnames Hnn. inv_bind H as rs Hrs. inversion H; subst p.
    assert (nnames = fnames) by congruence. subst nnames.
    unfold wf_pre; simpl. rewrite map_map. simpl. rewrite map_id. split; auto.
    apply rename_loop_length in Hfn.
    rewrite Forall_forall. intros r Hin.
    destruct (mapM_In _ _ _ _ Hrs Hin) as [d [Hd Hr]].
    inversion Hr; subst. split; simpl; auto.
    assert (Hld : length d = length own) by (apply Nat.eqb_eq; auto). congruence.
Qed.

(* ---------- every reachable DataFrame ---------- *)
Definition instr_rect (i : instr) : Prop :=
  match i with
  | ICreate false _ data => rectangular data
  | ICreateRows true true own _ _ => nodup_names own = true    (* Row objects under a StructType *)
  | _ => True
  end.

Lemma get_wf : forall env s f, Forall wf env -> get env s = Ok f -> wf f.
Proof.
  intros env s f Henv H. unfold get in H. destruct (nth_error env s) eqn:E; [|discriminate].
  inversion H; subst. rewrite Forall_forall in Henv. apply Henv. eapply nth_error_In; eauto.
Qed.

Lemma wf_step : forall env i p, Forall wf env -> instr_rect i -> step env i = Ok p -> wf_pre p.
Proof.
  intros env i p Henv Hrect H. destruct i; simpl in H.
  - eapply wf_create; eauto. intros ->. exact Hrect.
  - eapply wf_range; eauto.
  - inv_bind H as f Hf. eapply wf_select; eauto using get_wf.
  - inv_bind H as f Hf. eapply wf_with_column; eauto using get_wf.
  - inv_bind H as f Hf. eapply wf_drop; eauto using get_wf.
  - inv_bind H as f Hf. eapply wf_rename; eauto using get_wf.
  - inv_bind H as f Hf. eapply wf_to_df; eauto using get_wf.
  - inv_bind H as f Hf. inv_bind H as g Hg. inv_bind H as u1 Hu1. inv_bind H as u2 Hu2.
    eapply wf_join; [eapply get_wf; [exact Henv|exact Hf] | eapply get_wf; [exact Henv|exact Hg] | exact H].
  - inv_bind H as f Hf. inv_bind H as g Hg. eapply wf_cross_join; [eapply get_wf; [exact Henv|exact Hf] | eapply get_wf; [exact Henv|exact Hg] | exact H].
  - inv_bind H as f Hf. inv_bind H as g Hg. eapply wf_union; [eapply get_wf; [exact Henv|exact Hf] | eapply get_wf; [exact Henv|exact Hg] | exact H].
  - inv_bind H as f Hf. inv_bind H as g Hg. eapply wf_union_by_name; [eapply get_wf; [exact Henv|exact Hf] | exact H].
  - inv_bind H as f Hf. inv_bind H as u Hu. eapply wf_grouped_agg; eauto.
  - inv_bind H as f Hf. eapply wf_sort; eauto using get_wf.
  - inv_bind H as f Hf. eapply wf_limit; eauto using get_wf.
  - inv_bind H as f Hf. inv_bind H as u Hu. eapply wf_distinct; eauto using get_wf.
  - inv_bind H as f Hf. inv_bind H as u Hu. eapply wf_sample; eauto using get_wf.
  - inv_bind H as f Hf. eapply wf_repartition; eauto using get_wf.
  - eapply wf_create_rows; [|exact H]. intros -> ->. exact Hrect.
  - unfold create_strict in H. destruct (_ && _); [discriminate|]. eapply wf_create; eauto. discriminate.
  - inv_bind H as f Hf. inv_bind H as u Hu. eapply wf_drop_duplicates; eauto using get_wf.
Qed.

Lemma wf_run : forall prog env c, Forall wf env -> Forall instr_rect prog ->
  Forall wf (fst (run_prog env c prog)).
Proof.
  induction prog as [|i prog IH]; simpl; intros env c Henv Hrect; auto.
  inversion Hrect; subst.
  destruct (step env i) as [p|e] eqn:E; simpl; auto.
  pose proof (finish_wf c p (wf_step _ _ _ Henv H1 E)) as Hw.
  destruct (finish c p) as [f c']. simpl in Hw.
  apply IH; auto. apply Forall_app. split; auto.
Qed.

Theorem wf_chain_lemma : forall prog c, Forall instr_rect prog -> Forall wf (fst (run_prog [] c prog)).
Proof. intros. apply wf_run; auto. Qed.


(* ---------- name-level effect of operations ---------- *)
Lemma sel_fields_expr_name : forall f e pf, sel_fields f (SExpr e) = Ok pf -> map pname pf = [expr_str e].
Proof. exact grp_fields_name. Qed.

Lemma mem_name_in : forall n l, mem_name n l = true -> In n l.
Proof.
  intros n l H. unfold mem_name in H. apply existsb_exists in H. destruct H as [x [Hx E]].
  apply name_eqb_eq in E. now subst.
Qed.

(* withColumn with a new name appends one column; with an existing name it keeps the column list
   (the repaired defect aaa3884: it used to append a second column of that name) *)
Lemma with_column_columns : forall f n e p,
  wf f -> with_column f n e = Ok p ->
  map pname (p_fields p) = if mem_name n (snames f) then columns f else columns f ++ [n].
Proof.
  intros f n e p [Hn _] H. unfold with_column in H.
  destruct (mem_name n (snames f)) eqn:Em; unfold select in H;
    inv_bind H as pfs Hpfs; inv_bind H as rs Hrs; inversion H; subst; simpl.
  - rewrite <- Hn. clear - Hpfs. revert pfs Hpfs.
    induction (snames f) as [|nm l IH]; simpl; intros pfs H.
    + inversion H; reflexivity.
    + inv_bind H as pf Hpf. inv_bind H as pfs' Hpfs'. inversion H; subst. simpl. rewrite map_app.
      rewrite (IH _ Hpfs'). destruct (name_eqb nm n) eqn:E.
      * apply sel_fields_expr_name in Hpf. rewrite Hpf. simpl. apply name_eqb_eq in E. now subst.
      * apply sel_fields_expr_name in Hpf. rewrite Hpf. reflexivity.
  - simpl in Hpfs. inversion Hpfs; subst. simpl.
    rewrite map_app, map_map. simpl. reflexivity.
Qed.

Lemma agg_columns : forall f keys pivot aggs p pvals,
  pivot_values f pivot = Ok pvals -> grouped_agg f keys pivot aggs = Ok p ->
  map pname (p_fields p) = map expr_str keys ++ stat_names_schema pvals aggs.
Proof.
  intros f keys pivot aggs p pvals Hpv H. unfold grouped_agg in H.
  destruct aggs as [|a0 aggs0]; [discriminate|]. rewrite Hpv in H. simpl in H.
  inv_bind H as gfs Hgfs. inv_bind H as ars Hars. inv_bind H as rs Hrs. inversion H; subst. simpl.
  rewrite map_app, map_map. simpl. rewrite map_id. now rewrite (grp_fields_names _ _ _ Hgfs).
Qed.

Lemma join_columns : forall f g how on lon ron p,
  mapM (first_named (fields f)) on = Ok lon -> mapM (first_named (fields g)) on = Ok ron ->
  join f g how on = Ok p -> map pname (p_fields p) = join_names f g how on lon ron.
Proof.
  intros f g how on lon ron p Hl Hr H. unfold join in H.
  inv_bind H as pfs Hpfs. inv_bind H as lon' Hlon. inv_bind H as ron' Hron.
  inv_bind H as lk Hlk. inv_bind H as rk Hrk. inv_bind H as rs Hrs. inversion H; subst. simpl.
  eapply merge_schemas_names; eauto.
Qed.

(* what the check observes of a well-formed frame *)
Lemma wf_observed : forall f, wf f ->
  snames f = columns f /\
  (forall r, In r (collect f) -> fst r = columns f /\ length (snd r) = length (columns f)).
Proof.
  intros f [Hn Hr]. split; auto. intros r Hin. rewrite Forall_forall in Hr. exact (Hr r Hin).
Qed.

(* df.rdd is the very RDD that collect() and count() read (DataFrame.rdd -> _jdf.rdd() -> _rdd):
   for every partitioning of it, its rows are the collected rows, each with the frame's fields *)
Lemma rdd_same_rows_parts : forall f parts, wf f -> concat parts = rows f ->
  concat parts = collect f /\ Forall (row_ok (columns f)) (concat parts).
Proof. intros f parts [_ Hr] H. rewrite H. split; auto. Qed.

(* ---------- the same statements about the DataFrame that _with_rdd finally builds ---------- *)
Lemma frame_select : forall f cols p c, wf f -> select f cols = Ok p -> wf (fst (finish c p)).
Proof. intros. apply finish_wf. eapply wf_select; eauto. Qed.
Lemma frame_with_column : forall f n e p c, wf f -> with_column f n e = Ok p -> wf (fst (finish c p)).
Proof. intros. apply finish_wf. eapply wf_with_column; eauto. Qed.
Lemma frame_drop : forall f cols p c, wf f -> drop f cols = Ok p -> wf (fst (finish c p)).
Proof. intros. apply finish_wf. eapply wf_drop; eauto. Qed.
Lemma frame_rename : forall f old new p c, wf f -> rename f old new = Ok p -> wf (fst (finish c p)).
Proof. intros. apply finish_wf. eapply wf_rename; eauto. Qed.
Lemma frame_to_df : forall f names p c, wf f -> to_df f names = Ok p -> wf (fst (finish c p)).
Proof. intros. apply finish_wf. eapply wf_to_df; eauto. Qed.
Lemma frame_join : forall f g how on p c, wf f -> wf g -> join f g how on = Ok p -> wf (fst (finish c p)).
Proof. intros until c. intros Hf Hg H. apply finish_wf. eapply wf_join; [exact Hf|exact Hg|exact H]. Qed.
Lemma frame_cross_join : forall f g p c, wf f -> wf g -> cross_join f g = Ok p -> wf (fst (finish c p)).
Proof. intros until c. intros Hf Hg H. apply finish_wf. eapply wf_cross_join; [exact Hf|exact Hg|exact H]. Qed.
Lemma frame_union : forall f g p c, wf f -> wf g -> union f g = Ok p -> wf (fst (finish c p)).
Proof. intros until c. intros Hf Hg H. apply finish_wf. eapply wf_union; [exact Hf|exact Hg|exact H]. Qed.
Lemma frame_union_by_name : forall f g p c, wf f -> union_by_name f g = Ok p -> wf (fst (finish c p)).
Proof. intros. apply finish_wf. eapply wf_union_by_name; eauto. Qed.
Lemma frame_sort : forall f keys p c, wf f -> sort f keys = Ok p -> wf (fst (finish c p)).
Proof. intros. apply finish_wf. eapply wf_sort; eauto. Qed.
Lemma frame_limit : forall f n p c, wf f -> limit f n = Ok p -> wf (fst (finish c p)).
Proof. intros. apply finish_wf. eapply wf_limit; eauto. Qed.
Lemma frame_distinct : forall f p c, wf f -> distinct f = Ok p -> wf (fst (finish c p)).
Proof. intros. apply finish_wf. eapply wf_distinct; eauto. Qed.
Lemma frame_sample : forall mult f p c, wf f -> sample_with mult f = Ok p -> wf (fst (finish c p)).
Proof. intros. apply finish_wf. eapply wf_sample; eauto. Qed.
Lemma frame_repartition : forall f cols p c, wf f -> repartition f cols = Ok p -> wf (fst (finish c p)).
Proof. intros. apply finish_wf. eapply wf_repartition; eauto. Qed.
Lemma frame_grouped_agg : forall f keys pivot aggs p c, grouped_agg f keys pivot aggs = Ok p -> wf (fst (finish c p)).
Proof. intros. apply finish_wf. eapply wf_grouped_agg; eauto. Qed.
Lemma frame_create_struct : forall names data p c, create true names data = Ok p -> wf (fst (finish c p)).
Proof. intros. apply finish_wf. eapply wf_create; eauto. discriminate. Qed.
Lemma frame_create_names : forall names data p c, rectangular data -> create false names data = Ok p -> wf (fst (finish c p)).
Proof. intros. apply finish_wf. eapply wf_create; eauto. Qed.
Lemma frame_create_rows : forall is_row by_struct own names data p c,
  (by_struct = true -> is_row = true -> nodup_names own = true) ->
  create_rows is_row by_struct own names data = Ok p -> wf (fst (finish c p)).
Proof. intros. apply finish_wf. eapply wf_create_rows; eauto. Qed.
Lemma frame_create_strict : forall names strict data p c,
  create_strict names strict data = Ok p -> wf (fst (finish c p)).
Proof.
  intros names strict data p c H. apply finish_wf. unfold create_strict in H.
  destruct (_ && _); [discriminate|]. eapply wf_create; eauto. discriminate.
Qed.
Lemma frame_drop_duplicates : forall f cols p c, wf f -> drop_duplicates f cols = Ok p -> wf (fst (finish c p)).
Proof. intros. apply finish_wf. eapply wf_drop_duplicates; eauto. Qed.
Lemma frame_range : forall a b s p c, range_frame a b s = Ok p -> wf (fst (finish c p)).
Proof. intros. apply finish_wf. eapply wf_range; eauto. Qed.
