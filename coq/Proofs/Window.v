(* C11 -- general lemmas about the stream stepping model (PV.Model.Window):
   list update, guards, "a node whose guard time reached t is frozen", stepping a node whose parent
   was already stepped, preservation of the number of nodes and of the time bound, runs. *)
From Coq Require Import ZArith NArith Bool String List Lia.
Require Import PV.Base.Val PV.Gen.Window PV.Model.Window.
Import ListNotations.
Open Scope Z_scope.
Open Scope list_scope.

(* the regenerated order of effects in WindowedDStream._step is the one the model transcribes:
   guard, advance the guard time, step the parent, append, trim, counter, skip test, union *)
Lemma win_step_order_ok : win_step_order = [0; 1; 2; 3; 4; 5; 6; 7].
Proof. reflexivity. Qed.

(* ---------- list update ---------- *)
Lemma upd_length {A} i (f : A -> A) l : length (upd i f l) = length l.
Proof. revert i; induction l as [|x l IH]; intros [|i]; simpl; auto. Qed.

Lemma nth_error_upd_eq {A} i (f : A -> A) l x :
  nth_error l i = Some x -> nth_error (upd i f l) i = Some (f x).
Proof. revert i; induction l as [|y l IH]; intros [|i] H; simpl in *; try discriminate; auto. congruence. Qed.

Lemma nth_error_upd_neq {A} i j (f : A -> A) l : i <> j -> nth_error (upd i f l) j = nth_error l j.
Proof.
  revert i j; induction l as [|y l IH]; intros [|i] [|j] H; simpl; auto; try congruence.
Qed.

Lemma upd_upd {A} i (a b : A) l : upd i (fun _ => a) (upd i (fun _ => b) l) = upd i (fun _ => a) l.
Proof. revert i; induction l as [|y l IH]; intros [|i]; simpl; auto. f_equal; auto. Qed.

Lemma put_nodes i n st : gnodes (put i n st) = upd i (fun _ => n) (gnodes st).
Proof. reflexivity. Qed.
Lemma put_log i n st : glog (put i n st) = glog st.
Proof. reflexivity. Qed.
Lemma put_put i a b st : put i a (put i b st) = put i a st.
Proof. unfold put, updn; simpl. now rewrite upd_upd. Qed.
Lemma nth_put_eq i n st x : nth_error (gnodes st) i = Some x -> nth_error (gnodes (put i n st)) i = Some n.
Proof. intros H. rewrite put_nodes. now rewrite (nth_error_upd_eq _ _ _ _ H). Qed.
Lemma nth_put_neq i j n st : i <> j -> nth_error (gnodes (put i n st)) j = nth_error (gnodes st) j.
Proof. intros H. rewrite put_nodes. now apply nth_error_upd_neq. Qed.
Lemma rdd_of_put_neq i p n st : i <> p -> rdd_of (put i n st) p = rdd_of st p.
Proof. intros H. unfold rdd_of. now rewrite nth_put_neq. Qed.
Lemma rdd_of_add_log lg st p : rdd_of (add_log lg st) p = rdd_of st p.
Proof. reflexivity. Qed.

(* ---------- guards (link lemmas for the regenerated kernels) ---------- *)
Lemma src_guard_spec t c : src_guard t c = (t <=? c). Proof. reflexivity. Qed.
Lemma tr_guard_spec t c : tr_guard t c = (t <=? c). Proof. reflexivity. Qed.
Lemma win_guard_spec t c : win_guard t c = (t <=? c). Proof. reflexivity. Qed.
Lemma st_guard_spec t c : st_guard t c = (t <=? c). Proof. reflexivity. Qed.

(* a node whose guard time has reached t is not stepped again *)
Lemma step_blocked fuel g i t st nd ns :
  nth_error g i = Some nd -> nth_error (gnodes st) i = Some ns -> t <= ntime ns ->
  step (S fuel) g i t st = (st, None).
Proof.
  intros Hg Hs Ht. simpl. rewrite Hg, Hs.
  assert (E : (t <=? ntime ns) = true) by (apply Z.leb_le; lia).
  destruct nd; rewrite ?src_guard_spec, ?tr_guard_spec, ?win_guard_spec, ?st_guard_spec, E; reflexivity.
Qed.

(* the state of a node whose guard time has reached t is frozen, whatever is stepped at time t *)
Lemma step_frozen fuel : forall g i t st j ns,
  nth_error (gnodes st) j = Some ns -> t <= ntime ns ->
  nth_error (gnodes (fst (step fuel g i t st))) j = Some ns.
Proof.
  induction fuel as [|fuel IH]; intros g i t st j ns Hj Ht; [exact Hj|].
  cbn [step].
  destruct (nth_error g i) as [nd|] eqn:Hg; [|exact Hj].
  destruct (nth_error (gnodes st) i) as [nsi|] eqn:Hi; [|exact Hj].
  assert (Hneq : (t <=? ntime nsi) = false -> i <> j).
  { intros E Heq. subst j. rewrite Hi in Hj. inversion Hj; subst. apply Z.leb_gt in E. lia. }
  destruct nd as [q|f p|w s p|u p].
  - rewrite src_guard_spec. destruct (t <=? ntime nsi) eqn:E; cbn [fst]; auto.
    rewrite nth_put_neq; auto.
  - rewrite tr_guard_spec. destruct (t <=? ntime nsi) eqn:E; cbn [fst]; auto.
    specialize (IH g p t st j ns Hj Ht).
    destruct (step fuel g p t st) as [st1 e]. cbn [fst] in IH.
    destruct e; cbn [fst]; auto.
    destruct (nth_error (gnodes st1) i) as [ns1|]; cbn [fst]; auto.
    destruct (trans_post f t (rdd_of st1 p) ns1) as [[n2 lg] e2]. cbn [fst].
    unfold add_log; cbn [gnodes]. rewrite nth_put_neq; auto.
  - rewrite win_guard_spec. destruct (t <=? ntime nsi) eqn:E; cbn [fst]; auto.
    assert (Hj0 : nth_error (gnodes (put i (set_time t nsi) st)) j = Some ns) by (rewrite nth_put_neq; auto).
    specialize (IH g p t _ j ns Hj0 Ht).
    destruct (step fuel g p t (put i (set_time t nsi) st)) as [st1 e]. cbn [fst] in IH.
    destruct e; cbn [fst]; auto.
    destruct (nth_error (gnodes st1) i) as [ns1|]; cbn [fst]; auto.
    destruct (window_post w s (rdd_of st1 p) ns1) as [n2 e2]. cbn [fst].
    rewrite nth_put_neq; auto.
  - rewrite st_guard_spec. destruct (t <=? ntime nsi) eqn:E; cbn [fst]; auto.
    specialize (IH g p t st j ns Hj Ht).
    destruct (step fuel g p t st) as [st1 e]. cbn [fst] in IH.
    destruct e; cbn [fst]; auto.
    destruct (nth_error (gnodes st1) i) as [ns1|]; cbn [fst]; auto.
    destruct (stateful_post u t (rdd_of st1 p) ns1) as [n2 e2]. cbn [fst].
    rewrite nth_put_neq; auto.
Qed.

Lemma tick_nodes_frozen fuel g t : forall is st j ns,
  nth_error (gnodes st) j = Some ns -> t <= ntime ns ->
  nth_error (gnodes (fst (tick_nodes fuel g is t st))) j = Some ns.
Proof.
  induction is as [|i is IH]; intros st j ns Hj Ht; cbn [tick_nodes fst]; auto.
  pose proof (step_frozen fuel g i t st j ns Hj Ht) as H.
  destruct (step fuel g i t st) as [st1 e]. cbn [fst] in H.
  destruct e; cbn [fst]; auto.
Qed.

Lemma rdd_of_nth st p ns : nth_error (gnodes st) p = Some ns -> rdd_of st p = nrdd ns.
Proof. intros H. unfold rdd_of. now rewrite H. Qed.

Lemma guard_false t c : c < t -> (t <=? c) = false.
Proof. intros. apply Z.leb_gt. lia. Qed.

Lemma step_src_go fuel g i t st q ns :
  nth_error g i = Some (Src q) -> nth_error (gnodes st) i = Some ns -> ntime ns < t ->
  step (S fuel) g i t st = (put i (src_pop (set_time t ns)) st, None).
Proof.
  intros Hg Hs Ht. cbn [step]. rewrite Hg, Hs, src_guard_spec, guard_false; auto.
Qed.

Lemma step_trans_unfold fuel g i t st f p ns :
  nth_error g i = Some (Trans f p) -> nth_error (gnodes st) i = Some ns -> ntime ns < t ->
  step (S fuel) g i t st =
    (let '(st1, e) := step fuel g p t st in
     match e with
     | Some _ => (st1, e)
     | None => match nth_error (gnodes st1) i with
               | Some ns1 => let '(n2, lg, e2) := trans_post f t (rdd_of st1 p) ns1 in
                             (add_log lg (put i n2 st1), e2)
               | None => (st1, Some "BadGraph"%string)
               end
     end).
Proof.
  intros Hg Hs Ht. cbn [step]. rewrite Hg, Hs, tr_guard_spec, guard_false by auto. reflexivity.
Qed.

Lemma step_window_unfold fuel g i t st w s p ns :
  nth_error g i = Some (Window w s p) -> nth_error (gnodes st) i = Some ns -> ntime ns < t ->
  step (S fuel) g i t st =
    (let st0 := put i (set_time t ns) st in
     let '(st1, e) := step fuel g p t st0 in
     match e with
     | Some _ => (st1, e)
     | None => match nth_error (gnodes st1) i with
               | Some ns1 => let '(n2, e2) := window_post w s (rdd_of st1 p) ns1 in (put i n2 st1, e2)
               | None => (st1, Some "BadGraph"%string)
               end
     end).
Proof.
  intros Hg Hs Ht. cbn [step]. rewrite Hg, Hs, win_guard_spec, guard_false by auto. reflexivity.
Qed.

Lemma step_stateful_unfold fuel g i t st u p ns :
  nth_error g i = Some (Stateful u p) -> nth_error (gnodes st) i = Some ns -> ntime ns < t ->
  step (S fuel) g i t st =
    (let '(st1, e) := step fuel g p t st in
     match e with
     | Some _ => (st1, e)
     | None => match nth_error (gnodes st1) i with
               | Some ns1 => let '(n2, e2) := stateful_post u t (rdd_of st1 p) ns1 in (put i n2 st1, e2)
               | None => (st1, Some "BadGraph"%string)
               end
     end).
Proof.
  intros Hg Hs Ht. cbn [step]. rewrite Hg, Hs, st_guard_spec, guard_false by auto. reflexivity.
Qed.

(* stepping a node whose parent was already stepped at time t: the parent is not stepped again *)
Lemma step_trans_go fuel g i t st f p ns ndp nsp :
  nth_error g i = Some (Trans f p) -> nth_error (gnodes st) i = Some ns -> ntime ns < t ->
  nth_error g p = Some ndp -> nth_error (gnodes st) p = Some nsp -> t <= ntime nsp ->
  step (S (S fuel)) g i t st =
    (let '(n2, lg, e2) := trans_post f t (nrdd nsp) ns in (add_log lg (put i n2 st), e2)).
Proof.
  intros Hg Hs Ht Hgp Hsp Htp.
  rewrite (step_trans_unfold _ _ _ _ _ _ _ _ Hg Hs Ht).
  rewrite (step_blocked fuel g p t st ndp nsp Hgp Hsp Htp).
  cbv zeta. rewrite Hs, (rdd_of_nth _ _ _ Hsp). reflexivity.
Qed.

Lemma step_stateful_go fuel g i t st u p ns ndp nsp :
  nth_error g i = Some (Stateful u p) -> nth_error (gnodes st) i = Some ns -> ntime ns < t ->
  nth_error g p = Some ndp -> nth_error (gnodes st) p = Some nsp -> t <= ntime nsp ->
  step (S (S fuel)) g i t st =
    (let '(n2, e2) := stateful_post u t (nrdd nsp) ns in (put i n2 st, e2)).
Proof.
  intros Hg Hs Ht Hgp Hsp Htp.
  rewrite (step_stateful_unfold _ _ _ _ _ _ _ _ Hg Hs Ht).
  rewrite (step_blocked fuel g p t st ndp nsp Hgp Hsp Htp).
  cbv zeta. rewrite Hs, (rdd_of_nth _ _ _ Hsp). reflexivity.
Qed.

Lemma step_window_go fuel g i t st w s p ns ndp nsp :
  nth_error g i = Some (Window w s p) -> nth_error (gnodes st) i = Some ns -> ntime ns < t ->
  nth_error g p = Some ndp -> nth_error (gnodes st) p = Some nsp -> t <= ntime nsp ->
  step (S (S fuel)) g i t st =
    (let '(n2, e2) := window_post w s (nrdd nsp) (set_time t ns) in (put i n2 st, e2)).
Proof.
  intros Hg Hs Ht Hgp Hsp Htp.
  assert (Hip : i <> p).
  { intros ->. rewrite Hs in Hsp. inversion Hsp; subst. lia. }
  rewrite (step_window_unfold _ _ _ _ _ _ _ _ _ Hg Hs Ht). cbv zeta.
  assert (Hsp0 : nth_error (gnodes (put i (set_time t ns) st)) p = Some nsp) by (rewrite nth_put_neq; auto).
  rewrite (step_blocked fuel g p t _ ndp nsp Hgp Hsp0 Htp).
  rewrite (nth_put_eq _ _ _ _ Hs), (rdd_of_nth _ _ _ Hsp0).
  destruct (window_post w s (nrdd nsp) (set_time t ns)) as [n2 e2].
  now rewrite put_put.
Qed.

(* ---------- strictly increasing tick times ---------- *)
Fixpoint increasing (T : Z) (ts : list Z) : Prop :=
  match ts with [] => True | t :: ts' => T < t /\ increasing t ts' end.

Lemma last_cons {A} (x d : A) l : last (x :: l) d = last l x.
Proof. revert x; induction l as [|y l IH]; intros x; [reflexivity|]. cbn [last] in *. destruct l; auto. Qed.

Lemma increasing_app T a b : increasing T (a ++ b) <-> increasing T a /\ increasing (last a T) b.
Proof.
  revert T; induction a as [|x a IH]; intros T.
  - cbn. tauto.
  - rewrite last_cons. cbn [app increasing]. rewrite IH. tauto.
Qed.

(* ---------- runs ---------- *)
Lemma run_ticks_cons g t ts st :
  fst (run_ticks g (t :: ts) st) = fst (run_ticks g ts (fst (tick g t st))).
Proof.
  cbn [run_ticks]. destruct (tick g t st) as [st1 e]. cbn [fst].
  destruct (run_ticks g ts st1) as [st2 es]. reflexivity.
Qed.

Lemma run_ticks_app g a : forall b st,
  fst (run_ticks g (a ++ b) st) = fst (run_ticks g b (fst (run_ticks g a st))).
Proof.
  induction a as [|t a IH]; intros b st; [reflexivity|].
  cbn [app]. rewrite !run_ticks_cons. apply IH.
Qed.

Lemma run_ticks_snoc g ts t st :
  fst (run_ticks g (ts ++ [t]) st) = fst (tick g t (fst (run_ticks g ts st))).
Proof. rewrite run_ticks_app, run_ticks_cons. reflexivity. Qed.


(* ---------- general facts about step: the number of node states never changes; guard times only move to t ---------- *)
Lemma put_length i n st : length (gnodes (put i n st)) = length (gnodes st).
Proof. rewrite put_nodes. apply upd_length. Qed.

Lemma step_length fuel : forall g i t st, length (gnodes (fst (step fuel g i t st))) = length (gnodes st).
Proof.
  induction fuel as [|fuel IH]; intros g i t st; [reflexivity|].
  cbn [step].
  destruct (nth_error g i) as [nd|]; [|reflexivity].
  destruct (nth_error (gnodes st) i) as [nsi|]; [|reflexivity].
  destruct nd as [q|f p|w s p|u p].
  - destruct (src_guard t (ntime nsi)); cbn [fst]; auto. apply put_length.
  - destruct (tr_guard t (ntime nsi)); cbn [fst]; auto.
    specialize (IH g p t st). destruct (step fuel g p t st) as [st1 e]. cbn [fst] in IH.
    destruct e; cbn [fst]; auto.
    destruct (nth_error (gnodes st1) i) as [ns1|]; cbn [fst]; auto.
    destruct (trans_post f t (rdd_of st1 p) ns1) as [[n2 lg] e2]. cbn [fst].
    unfold add_log; cbn [gnodes]. now rewrite put_length.
  - destruct (win_guard t (ntime nsi)); cbn [fst]; auto.
    specialize (IH g p t (put i (set_time t nsi) st)).
    destruct (step fuel g p t (put i (set_time t nsi) st)) as [st1 e]. cbn [fst] in IH.
    rewrite put_length in IH.
    destruct e; cbn [fst]; auto.
    destruct (nth_error (gnodes st1) i) as [ns1|]; cbn [fst]; auto.
    destruct (window_post w s (rdd_of st1 p) ns1) as [n2 e2]. cbn [fst]. now rewrite put_length.
  - destruct (st_guard t (ntime nsi)); cbn [fst]; auto.
    specialize (IH g p t st). destruct (step fuel g p t st) as [st1 e]. cbn [fst] in IH.
    destruct e; cbn [fst]; auto.
    destruct (nth_error (gnodes st1) i) as [ns1|]; cbn [fst]; auto.
    destruct (stateful_post u t (rdd_of st1 p) ns1) as [n2 e2]. cbn [fst]. now rewrite put_length.
Qed.

Definition times_le (T : Z) (st : gstate) : Prop :=
  forall i ns, nth_error (gnodes st) i = Some ns -> ntime ns <= T.

Lemma times_le_put T i n st : times_le T st -> ntime n <= T -> times_le T (put i n st).
Proof.
  intros H Hn j ns Hj. destruct (Nat.eq_dec i j) as [->|Hne].
  - destruct (nth_error (gnodes st) j) as [x|] eqn:E.
    + rewrite (nth_put_eq _ _ _ _ E) in Hj. inversion Hj; subst; auto.
    + rewrite put_nodes in Hj. assert (nth_error (upd j (fun _ => n) (gnodes st)) j = None).
      { apply nth_error_None. rewrite upd_length. now apply nth_error_None. }
      congruence.
  - rewrite nth_put_neq in Hj by auto. eauto.
Qed.

Lemma window_post_time w s pr n : ntime (fst (window_post w s pr n)) = ntime n.
Proof.
  unfold window_post. destruct (win_skip _); cbn [fst]; [reflexivity|].
  destruct (union _); reflexivity.
Qed.
Lemma stateful_post_time u t pr n : ntime (fst (stateful_post u t pr n)) = t.
Proof.
  unfold stateful_post. destruct pr; cbn [fst]; try reflexivity;
  destruct (all_kv _); reflexivity.
Qed.
Lemma trans_post_time f t pr n : ntime (fst (fst (trans_post f t pr n))) = t.
Proof. unfold trans_post. destruct (apply_tfun f t pr) as [[r lg]|e]; reflexivity. Qed.
Lemma src_pop_time n : ntime (src_pop n) = ntime n.
Proof. unfold src_pop. destruct (nqueue n); reflexivity. Qed.

Lemma step_times_le fuel : forall g i t st, times_le t st -> times_le t (fst (step fuel g i t st)).
Proof.
  induction fuel as [|fuel IH]; intros g i t st H; [exact H|].
  cbn [step].
  destruct (nth_error g i) as [nd|]; [|exact H].
  destruct (nth_error (gnodes st) i) as [nsi|]; [|exact H].
  destruct nd as [q|f p|w s p|u p].
  - destruct (src_guard t (ntime nsi)); cbn [fst]; auto.
    apply times_le_put; auto. rewrite src_pop_time. cbn. lia.
  - destruct (tr_guard t (ntime nsi)); cbn [fst]; auto.
    specialize (IH g p t st H). destruct (step fuel g p t st) as [st1 e]. cbn [fst] in IH.
    destruct e; cbn [fst]; auto.
    destruct (nth_error (gnodes st1) i) as [ns1|]; cbn [fst]; auto.
    pose proof (trans_post_time f t (rdd_of st1 p) ns1) as Hp.
    destruct (trans_post f t (rdd_of st1 p) ns1) as [[n2 lg] e2]. cbn [fst] in *.
    intros j ns Hj. unfold add_log in Hj; cbn [gnodes] in Hj.
    revert j ns Hj. apply times_le_put; auto. lia.
  - destruct (win_guard t (ntime nsi)); cbn [fst]; auto.
    assert (H0 : times_le t (put i (set_time t nsi) st)) by (apply times_le_put; auto; cbn; lia).
    specialize (IH g p t _ H0).
    destruct (step fuel g p t (put i (set_time t nsi) st)) as [st1 e]. cbn [fst] in IH.
    destruct e; cbn [fst]; auto.
    destruct (nth_error (gnodes st1) i) as [ns1|] eqn:E1; cbn [fst]; auto.
    pose proof (window_post_time w s (rdd_of st1 p) ns1) as Hp.
    destruct (window_post w s (rdd_of st1 p) ns1) as [n2 e2]. cbn [fst] in *.
    apply times_le_put; auto. rewrite Hp. eauto.
  - destruct (st_guard t (ntime nsi)); cbn [fst]; auto.
    specialize (IH g p t st H). destruct (step fuel g p t st) as [st1 e]. cbn [fst] in IH.
    destruct e; cbn [fst]; auto.
    destruct (nth_error (gnodes st1) i) as [ns1|]; cbn [fst]; auto.
    pose proof (stateful_post_time u t (rdd_of st1 p) ns1) as Hp.
    destruct (stateful_post u t (rdd_of st1 p) ns1) as [n2 e2]. cbn [fst] in *.
    apply times_le_put; auto. lia.
Qed.

Lemma tick_nodes_length fuel g t : forall is st,
  length (gnodes (fst (tick_nodes fuel g is t st))) = length (gnodes st).
Proof.
  induction is as [|i is IH]; intros st; [reflexivity|]. cbn [tick_nodes].
  pose proof (step_length fuel g i t st) as H. destruct (step fuel g i t st) as [st1 e]. cbn [fst] in H.
  destruct e; cbn [fst]; auto. now rewrite IH.
Qed.

Lemma tick_nodes_times_le fuel g t : forall is st,
  times_le t st -> times_le t (fst (tick_nodes fuel g is t st)).
Proof.
  induction is as [|i is IH]; intros st H; [exact H|]. cbn [tick_nodes].
  pose proof (step_times_le fuel g i t st H) as H1. destruct (step fuel g i t st) as [st1 e]. cbn [fst] in H1.
  destruct e; cbn [fst]; auto.
Qed.

Lemma times_le_weaken T T' st : T <= T' -> times_le T st -> times_le T' st.
Proof. intros HT H i ns Hi. specialize (H i ns Hi). lia. Qed.

Lemma tick_nodes_app fuel g a : forall b t st,
  tick_nodes fuel g (a ++ b) t st =
  (let '(s1, e) := tick_nodes fuel g a t st in
   match e with Some _ => (s1, e) | None => tick_nodes fuel g b t s1 end).
Proof.
  induction a as [|i a IH]; intros b t st; [reflexivity|].
  cbn [app tick_nodes]. destruct (step fuel g i t st) as [s1 e]. destruct e; [reflexivity|]. apply IH.
Qed.

(* ---------- k capturing consumers of node p, stepped after p ---------- *)
Definition obs_of (r : rdd) : option (list val) := match r with RNone => None | _ => Some (collect r) end.

Lemma consumers_steps F g t p ndp nsp : forall k base j0 st,
  (forall j, (j < k)%nat -> nth_error g (base + j) = Some (Trans (FCapture (Z.of_nat (j0 + j))) p)) ->
  nth_error g p = Some ndp -> nth_error (gnodes st) p = Some nsp -> t <= ntime nsp ->
  (forall j, (j < k)%nat -> exists ns, nth_error (gnodes st) (base + j) = Some ns /\ ntime ns < t) ->
  exists st',
    tick_nodes (S (S F)) g (seq base k) t st = (st', None) /\
    glog st' = glog st ++ map (fun j => (t, Z.of_nat (j0 + j), obs_of (nrdd nsp))) (seq 0 k) /\
    (forall i, (i < base \/ base + k <= i)%nat -> nth_error (gnodes st') i = nth_error (gnodes st) i) /\
    length (gnodes st') = length (gnodes st).
Proof.
  induction k as [|k IH]; intros base j0 st Hg Hgp Hsp Htp Hns.
  - exists st. cbn. rewrite app_nil_r. auto.
  - destruct (Hns 0%nat ltac:(lia)) as (ns & Hb & Hbt). rewrite Nat.add_0_r in Hb.
    pose proof (Hg 0%nat ltac:(lia)) as Hg0. rewrite !Nat.add_0_r in Hg0.
    cbn [seq tick_nodes].
    rewrite (step_trans_go F g base t st _ p ns ndp nsp Hg0 Hb Hbt Hgp Hsp Htp).
    unfold trans_post. cbn [apply_tfun].
    set (n2 := set_rdd RNone (set_time t ns)).
    set (st1 := add_log _ (put base n2 st)).
    assert (Hbp : base <> p).
    { intros ->. rewrite Hb in Hsp. inversion Hsp; subst. lia. }
    destruct (IH (S base) (S j0) st1) as (st' & E & Hlog & Hoth & Hlen).
    + intros j Hj. specialize (Hg (S j) ltac:(lia)).
      now rewrite <- !Nat.add_succ_comm in Hg.
    + exact Hgp.
    + unfold st1, add_log; cbn [gnodes]. rewrite nth_put_neq; auto.
    + exact Htp.
    + intros j Hj. destruct (Hns (S j) ltac:(lia)) as (ns' & H1 & H2).
      exists ns'. split; auto. unfold st1, add_log; cbn [gnodes].
      rewrite nth_put_neq by lia. now rewrite Nat.add_succ_comm.
    + exists st'. split; [exact E|]. split; [|split].
      * rewrite Hlog. unfold st1, add_log; cbn [glog]. rewrite put_log, <- app_assoc. f_equal.
        cbn [seq map app]. rewrite Nat.add_0_r. f_equal.
        rewrite <- seq_shift, map_map. apply map_ext. intros j. now rewrite Nat.add_succ_comm.
      * intros i Hi. rewrite Hoth by lia. unfold st1, add_log; cbn [gnodes]. rewrite nth_put_neq by lia. reflexivity.
      * rewrite Hlen. unfold st1, add_log; cbn [gnodes]. apply put_length.
Qed.
