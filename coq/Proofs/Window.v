(* C11 -- lemmas about the model of windowed / stateful streams (PV.Model.Window). *)
From Coq Require Import ZArith NArith Bool String List Lia.
Require Import PV.Base.Val PV.Gen.Window PV.Model.Window.
Import ListNotations.
Open Scope Z_scope.

(* the regenerated order of effects in WindowedDStream._step is the one the model transcribes:
   guard, advance the guard time, step the parent, append, trim, counter, skip test, union *)
Lemma win_step_order_ok : win_step_order = [0; 1; 2; 3; 4; 5; 6; 7].
Proof. reflexivity. Qed.
