(* C11 -- general lemmas about the stream stepping model (PV.Model.Window):
   list update, guards, "a stream whose guard time reached t is frozen", stepping a stream whose parent was
   already stepped, preservation of the number of streams and of the time bound, runs, k capturing consumers,
   and the generic invariant of "a stream on a queue source with anything registered after it". *)
From Coq Require Import ZArith NArith Bool String List Lia.
Require Import PV.Base.Val PV.Gen.Window PV.Model.Window.
Import ListNotations.
Open Scope Z_scope.
Open Scope list_scope.

(* the regenerated order of effects in WindowedDStream._step is the one the model transcribes:
   guard, advance the guard time, step the parent, append, trim, counter, skip test, union *)
Lemma win_step_order_ok : win_step_order = [0; 1; 2; 3; 4; 5; 6; 7].
Proof. reflexivity. Qed.
(* TransformedDStream._step: guard, step the parent, set the guard time, return while the parent's RDD is None,
   apply the function;
   StatefulDStream._step: guard, step the parent, set the guard time, cogroup, mapValues(convert_fn), publish;
   convert_fn passes the last element of the state list *)
Lemma other_step_orders_ok :
  tr_step_order = [0; 1; 2; 3; 4] /\ st_step_order = [0; 1; 2; 3; 4; 5] /\ st_state_index_from_end = 1.
Proof. repeat split; reflexivity. Qed.

(* ---------- list update ---------- *)
Lemma upd_length {A} i (f : A -> A) l : length (upd i f l) = length l.
Proof. revert i; induction l as [|x l IH]; intros [|i]; simpl; auto. Qed.

Lemma nth_error_upd_eq {A} i (f : A -> A) l x :
  nth_error l i = Some x -> nth_error (upd i f l) i = Some (f x).
Proof. revert i; induction l as [|y l IH]; intros [|i] H; simpl in *; try discriminate; auto. congruence. Qed.

Lemma nth_error_upd_neq {A} i j (f : A -> A) l : i <> j -> nth_error (upd i f l) j = nth_error l j.
Proof.
  revert i j; induction l as [|y l IH]; intros [|i] [|j] H; simpl; auto; try congruence.
Qed.

Lemma upd_upd {A} i (a b : A) l : upd i (fun _ => a) (upd i (fun _ => b) l) = upd i (fun _ => a) l.
Proof. revert i; induction l as [|y l IH]; intros [|i]; simpl; auto. f_equal; auto. Qed.

Lemma put_nodes i n st : gnodes (put i n st) = upd i (fun _ => n) (gnodes st).
Proof. reflexivity. Qed.
Lemma put_log i n st : glog (put i n st) = glog st.
Proof. reflexivity. Qed.
Lemma put_put i a b st : put i a (put i b st) = put i a st.
Proof. unfold put, updn; simpl. now rewrite upd_upd. Qed.
Lemma nth_put_eq i n st x : nth_error (gnodes st) i = Some x -> nth_error (gnodes (put i n st)) i = Some n.
Proof. intros H. rewrite put_nodes. now rewrite (nth_error_upd_eq _ _ _ _ H). Qed.
Lemma nth_put_neq i j n st : i <> j -> nth_error (gnodes (put i n st)) j = nth_error (gnodes st) j.
Proof. intros H. rewrite put_nodes. now apply nth_error_upd_neq. Qed.
Lemma rdd_of_put_neq i p n st : i <> p -> rdd_of (put i n st) p = rdd_of st p.
Proof. intros H. unfold rdd_of. now rewrite nth_put_neq. Qed.
Lemma rdd_of_add_log lg st p : rdd_of (add_log lg st) p = rdd_of st p.
Proof. reflexivity. Qed.

(* ---------- guards (link lemmas for the regenerated kernels) ---------- *)
Lemma src_guard_spec t c : src_guard t c = (t <=? c). Proof. reflexivity. Qed.
Lemma tr_guard_spec t c : tr_guard t c = (t <=? c). Proof. reflexivity. Qed.
Lemma win_guard_spec t c : win_guard t c = (t <=? c). Proof. reflexivity. Qed.
Lemma st_guard_spec t c : st_guard t c = (t <=? c). Proof. reflexivity. Qed.
Lemma tw_guard_spec t c : tw_guard t c = (t <=? c). Proof. reflexivity. Qed.

(* a node whose guard time has reached t is not stepped again *)
Lemma step_blocked fuel g i t st nd ns :
  nth_error g i = Some nd -> nth_error (gnodes st) i = Some ns -> t <= ntime ns ->
  step (S fuel) g i t st = (st, None).
Proof.
  intros Hg Hs Ht. simpl. rewrite Hg, Hs.
  assert (E : (t <=? ntime ns) = true) by (apply Z.leb_le; lia).
  destruct nd; rewrite ?src_guard_spec, ?tr_guard_spec, ?win_guard_spec, ?st_guard_spec, ?tw_guard_spec, E; reflexivity.
Qed.

(* the state of a node whose guard time has reached t is frozen, whatever is stepped at time t *)
Lemma step_frozen fuel : forall g i t st j ns,
  nth_error (gnodes st) j = Some ns -> t <= ntime ns ->
  nth_error (gnodes (fst (step fuel g i t st))) j = Some ns.
Proof.
  induction fuel as [|fuel IH]; intros g i t st j ns Hj Ht; [exact Hj|].
  cbn [step].
  destruct (nth_error g i) as [nd|] eqn:Hg; [|exact Hj].
  destruct (nth_error (gnodes st) i) as [nsi|] eqn:Hi; [|exact Hj].
  assert (Hneq : (t <=? ntime nsi) = false -> i <> j).
  { intros E Heq. subst j. rewrite Hi in Hj. inversion Hj; subst. apply Z.leb_gt in E. lia. }
  destruct nd as [q|f p|w s p|u p|p1 p2].
  - rewrite src_guard_spec. destruct (t <=? ntime nsi) eqn:E; cbn [fst]; auto.
    rewrite nth_put_neq; auto.
  - rewrite tr_guard_spec. destruct (t <=? ntime nsi) eqn:E; cbn [fst]; auto.
    specialize (IH g p t st j ns Hj Ht).
    destruct (step fuel g p t st) as [st1 e]. cbn [fst] in IH.
    destruct e; cbn [fst]; auto.
    destruct (nth_error (gnodes st1) i) as [ns1|]; cbn [fst]; auto.
    destruct (trans_post f t (rdd_of st1 p) ns1) as [[n2 lg] e2]. cbn [fst].
    unfold add_log; cbn [gnodes]. rewrite nth_put_neq; auto.
  - rewrite win_guard_spec. destruct (t <=? ntime nsi) eqn:E; cbn [fst]; auto.
    assert (Hj0 : nth_error (gnodes (put i (set_time t nsi) st)) j = Some ns) by (rewrite nth_put_neq; auto).
    specialize (IH g p t _ j ns Hj0 Ht).
    destruct (step fuel g p t (put i (set_time t nsi) st)) as [st1 e]. cbn [fst] in IH.
    destruct e; cbn [fst]; auto.
    destruct (nth_error (gnodes st1) i) as [ns1|]; cbn [fst]; auto.
    destruct (window_post w s (rdd_of st1 p) ns1) as [n2 e2]. cbn [fst].
    rewrite nth_put_neq; auto.
  - rewrite st_guard_spec. destruct (t <=? ntime nsi) eqn:E; cbn [fst]; auto.
    specialize (IH g p t st j ns Hj Ht).
    destruct (step fuel g p t st) as [st1 e]. cbn [fst] in IH.
    destruct e; cbn [fst]; auto.
    destruct (nth_error (gnodes st1) i) as [ns1|]; cbn [fst]; auto.
    destruct (stateful_post u t (rdd_of st1 p) ns1) as [n2 e2]. cbn [fst].
    rewrite nth_put_neq; auto.
  - rewrite tw_guard_spec. destruct (t <=? ntime nsi) eqn:E; cbn [fst]; auto.
    pose proof (IH g p1 t st j ns Hj Ht) as IH1.
    destruct (step fuel g p1 t st) as [st1 e]. cbn [fst] in IH1.
    destruct e; cbn [fst]; auto.
    pose proof (IH g p2 t st1 j ns IH1 Ht) as IH2.
    destruct (step fuel g p2 t st1) as [st2 e']. cbn [fst] in IH2.
    destruct e'; cbn [fst]; auto.
    destruct (nth_error (gnodes st2) i) as [ns2|]; cbn [fst]; auto.
    destruct (union_post t (rdd_of st2 p1) (rdd_of st2 p2) ns2) as [n2 e2]. cbn [fst].
    rewrite nth_put_neq; auto.
Qed.

Lemma tick_nodes_frozen fuel g t : forall is st j ns,
  nth_error (gnodes st) j = Some ns -> t <= ntime ns ->
  nth_error (gnodes (fst (tick_nodes fuel g is t st))) j = Some ns.
Proof.
  induction is as [|i is IH]; intros st j ns Hj Ht; cbn [tick_nodes fst]; auto.
  pose proof (step_frozen fuel g i t st j ns Hj Ht) as H.
  destruct (step fuel g i t st) as [st1 e]. cbn [fst] in H.
  destruct e; cbn [fst]; auto.
Qed.

Lemma rdd_of_nth st p ns : nth_error (gnodes st) p = Some ns -> rdd_of st p = nrdd ns.
Proof. intros H. unfold rdd_of. now rewrite H. Qed.

Lemma guard_false t c : c < t -> (t <=? c) = false.
Proof. intros. apply Z.leb_gt. lia. Qed.

Lemma step_src_go fuel g i t st q ns :
  nth_error g i = Some (Src q) -> nth_error (gnodes st) i = Some ns -> ntime ns < t ->
  step (S fuel) g i t st = (put i (src_pop (sd q) (set_time t ns)) st, None).
Proof.
  intros Hg Hs Ht. cbn [step]. rewrite Hg, Hs, src_guard_spec, guard_false; auto.
Qed.

Lemma step_trans_unfold fuel g i t st f p ns :
  nth_error g i = Some (Trans f p) -> nth_error (gnodes st) i = Some ns -> ntime ns < t ->
  step (S fuel) g i t st =
    (let '(st1, e) := step fuel g p t st in
     match e with
     | Some _ => (st1, e)
     | None => match nth_error (gnodes st1) i with
               | Some ns1 => let '(n2, lg, e2) := trans_post f t (rdd_of st1 p) ns1 in
                             (add_log lg (put i n2 st1), e2)
               | None => (st1, Some "BadGraph"%string)
               end
     end).
Proof.
  intros Hg Hs Ht. cbn [step]. rewrite Hg, Hs, tr_guard_spec, guard_false by auto. reflexivity.
Qed.

Lemma step_window_unfold fuel g i t st w s p ns :
  nth_error g i = Some (Window w s p) -> nth_error (gnodes st) i = Some ns -> ntime ns < t ->
  step (S fuel) g i t st =
    (let st0 := put i (set_time t ns) st in
     let '(st1, e) := step fuel g p t st0 in
     match e with
     | Some _ => (st1, e)
     | None => match nth_error (gnodes st1) i with
               | Some ns1 => let '(n2, e2) := window_post w s (rdd_of st1 p) ns1 in (put i n2 st1, e2)
               | None => (st1, Some "BadGraph"%string)
               end
     end).
Proof.
  intros Hg Hs Ht. cbn [step]. rewrite Hg, Hs, win_guard_spec, guard_false by auto. reflexivity.
Qed.

Lemma step_stateful_unfold fuel g i t st u p ns :
  nth_error g i = Some (Stateful u p) -> nth_error (gnodes st) i = Some ns -> ntime ns < t ->
  step (S fuel) g i t st =
    (let '(st1, e) := step fuel g p t st in
     match e with
     | Some _ => (st1, e)
     | None => match nth_error (gnodes st1) i with
               | Some ns1 => let '(n2, e2) := stateful_post u t (rdd_of st1 p) ns1 in (put i n2 st1, e2)
               | None => (st1, Some "BadGraph"%string)
               end
     end).
Proof.
  intros Hg Hs Ht. cbn [step]. rewrite Hg, Hs, st_guard_spec, guard_false by auto. reflexivity.
Qed.

(* stepping a node whose parent was already stepped at time t: the parent is not stepped again *)
Lemma step_trans_go fuel g i t st f p ns ndp nsp :
  nth_error g i = Some (Trans f p) -> nth_error (gnodes st) i = Some ns -> ntime ns < t ->
  nth_error g p = Some ndp -> nth_error (gnodes st) p = Some nsp -> t <= ntime nsp ->
  step (S (S fuel)) g i t st =
    (let '(n2, lg, e2) := trans_post f t (nrdd nsp) ns in (add_log lg (put i n2 st), e2)).
Proof.
  intros Hg Hs Ht Hgp Hsp Htp.
  rewrite (step_trans_unfold _ _ _ _ _ _ _ _ Hg Hs Ht).
  rewrite (step_blocked fuel g p t st ndp nsp Hgp Hsp Htp).
  cbv zeta. rewrite Hs, (rdd_of_nth _ _ _ Hsp). reflexivity.
Qed.

Lemma step_stateful_go fuel g i t st u p ns ndp nsp :
  nth_error g i = Some (Stateful u p) -> nth_error (gnodes st) i = Some ns -> ntime ns < t ->
  nth_error g p = Some ndp -> nth_error (gnodes st) p = Some nsp -> t <= ntime nsp ->
  step (S (S fuel)) g i t st =
    (let '(n2, e2) := stateful_post u t (nrdd nsp) ns in (put i n2 st, e2)).
Proof.
  intros Hg Hs Ht Hgp Hsp Htp.
  rewrite (step_stateful_unfold _ _ _ _ _ _ _ _ Hg Hs Ht).
  rewrite (step_blocked fuel g p t st ndp nsp Hgp Hsp Htp).
  cbv zeta. rewrite Hs, (rdd_of_nth _ _ _ Hsp). reflexivity.
Qed.

Lemma step_window_go fuel g i t st w s p ns ndp nsp :
  nth_error g i = Some (Window w s p) -> nth_error (gnodes st) i = Some ns -> ntime ns < t ->
  nth_error g p = Some ndp -> nth_error (gnodes st) p = Some nsp -> t <= ntime nsp ->
  step (S (S fuel)) g i t st =
    (let '(n2, e2) := window_post w s (nrdd nsp) (set_time t ns) in (put i n2 st, e2)).
Proof.
  intros Hg Hs Ht Hgp Hsp Htp.
  assert (Hip : i <> p).
  { intros ->. rewrite Hs in Hsp. inversion Hsp; subst. lia. }
  rewrite (step_window_unfold _ _ _ _ _ _ _ _ _ Hg Hs Ht). cbv zeta.
  assert (Hsp0 : nth_error (gnodes (put i (set_time t ns) st)) p = Some nsp) by (rewrite nth_put_neq; auto).
  rewrite (step_blocked fuel g p t _ ndp nsp Hgp Hsp0 Htp).
  rewrite (nth_put_eq _ _ _ _ Hs), (rdd_of_nth _ _ _ Hsp0).
  destruct (window_post w s (nrdd nsp) (set_time t ns)) as [n2 e2].
  now rewrite put_put.
Qed.

Lemma step_union_go fuel g i t st p1 p2 ns nd1 ns1 nd2 ns2 :
  nth_error g i = Some (Union p1 p2) -> nth_error (gnodes st) i = Some ns -> ntime ns < t ->
  nth_error g p1 = Some nd1 -> nth_error (gnodes st) p1 = Some ns1 -> t <= ntime ns1 ->
  nth_error g p2 = Some nd2 -> nth_error (gnodes st) p2 = Some ns2 -> t <= ntime ns2 ->
  step (S (S fuel)) g i t st =
    (let '(n2, e2) := union_post t (nrdd ns1) (nrdd ns2) ns in (put i n2 st, e2)).
Proof.
  intros Hg Hs Ht Hg1 Hs1 Ht1 Hg2 Hs2 Ht2.
  assert (E : step (S (S fuel)) g i t st =
    (let '(st1, e) := step (S fuel) g p1 t st in
     match e with
     | Some _ => (st1, e)
     | None =>
         let '(st2, e') := step (S fuel) g p2 t st1 in
         match e' with
         | Some _ => (st2, e')
         | None => match nth_error (gnodes st2) i with
                   | Some ns0 => let '(n2, e2) := union_post t (rdd_of st2 p1) (rdd_of st2 p2) ns0 in (put i n2 st2, e2)
                   | None => (st2, Some "BadGraph"%string)
                   end
         end
     end)).
  { cbn [step]. rewrite Hg, Hs, tw_guard_spec, guard_false by auto. reflexivity. }
  rewrite E.
  rewrite (step_blocked fuel g p1 t st nd1 ns1 Hg1 Hs1 Ht1).
  rewrite (step_blocked fuel g p2 t st nd2 ns2 Hg2 Hs2 Ht2).
  cbv zeta. rewrite Hs, (rdd_of_nth _ _ _ Hs1), (rdd_of_nth _ _ _ Hs2). reflexivity.
Qed.

(* ---------- strictly increasing tick times ---------- *)
Fixpoint increasing (T : Z) (ts : list Z) : Prop :=
  match ts with [] => True | t :: ts' => T < t /\ increasing t ts' end.

Lemma last_cons {A} (x d : A) l : last (x :: l) d = last l x.
Proof. revert x; induction l as [|y l IH]; intros x; [reflexivity|]. cbn [last] in *. destruct l; auto. Qed.

Lemma increasing_app T a b : increasing T (a ++ b) <-> increasing T a /\ increasing (last a T) b.
Proof.
  revert T; induction a as [|x a IH]; intros T.
  - cbn. tauto.
  - rewrite last_cons. cbn [app increasing]. rewrite IH. tauto.
Qed.

(* ---------- runs ---------- *)
Lemma run_ticks_cons g t ts st :
  fst (run_ticks g (t :: ts) st) = fst (run_ticks g ts (fst (tick g t st))).
Proof.
  cbn [run_ticks]. destruct (tick g t st) as [st1 e]. cbn [fst].
  destruct (run_ticks g ts st1) as [st2 es]. reflexivity.
Qed.

Lemma run_ticks_app g a : forall b st,
  fst (run_ticks g (a ++ b) st) = fst (run_ticks g b (fst (run_ticks g a st))).
Proof.
  induction a as [|t a IH]; intros b st; [reflexivity|].
  cbn [app]. rewrite !run_ticks_cons. apply IH.
Qed.

Lemma run_ticks_snoc g ts t st :
  fst (run_ticks g (ts ++ [t]) st) = fst (tick g t (fst (run_ticks g ts st))).
Proof. rewrite run_ticks_app, run_ticks_cons. reflexivity. Qed.


(* ---------- general facts about step: the number of node states never changes; guard times only move to t ---------- *)
Lemma put_length i n st : length (gnodes (put i n st)) = length (gnodes st).
Proof. rewrite put_nodes. apply upd_length. Qed.

Lemma step_length fuel : forall g i t st, length (gnodes (fst (step fuel g i t st))) = length (gnodes st).
Proof.
  induction fuel as [|fuel IH]; intros g i t st; [reflexivity|].
  cbn [step].
  destruct (nth_error g i) as [nd|]; [|reflexivity].
  destruct (nth_error (gnodes st) i) as [nsi|]; [|reflexivity].
  destruct nd as [q|f p|w s p|u p|p1 p2].
  - destruct (src_guard t (ntime nsi)); cbn [fst]; auto. apply put_length.
  - destruct (tr_guard t (ntime nsi)); cbn [fst]; auto.
    specialize (IH g p t st). destruct (step fuel g p t st) as [st1 e]. cbn [fst] in IH.
    destruct e; cbn [fst]; auto.
    destruct (nth_error (gnodes st1) i) as [ns1|]; cbn [fst]; auto.
    destruct (trans_post f t (rdd_of st1 p) ns1) as [[n2 lg] e2]. cbn [fst].
    unfold add_log; cbn [gnodes]. now rewrite put_length.
  - destruct (win_guard t (ntime nsi)); cbn [fst]; auto.
    specialize (IH g p t (put i (set_time t nsi) st)).
    destruct (step fuel g p t (put i (set_time t nsi) st)) as [st1 e]. cbn [fst] in IH.
    rewrite put_length in IH.
    destruct e; cbn [fst]; auto.
    destruct (nth_error (gnodes st1) i) as [ns1|]; cbn [fst]; auto.
    destruct (window_post w s (rdd_of st1 p) ns1) as [n2 e2]. cbn [fst]. now rewrite put_length.
  - destruct (st_guard t (ntime nsi)); cbn [fst]; auto.
    specialize (IH g p t st). destruct (step fuel g p t st) as [st1 e]. cbn [fst] in IH.
    destruct e; cbn [fst]; auto.
    destruct (nth_error (gnodes st1) i) as [ns1|]; cbn [fst]; auto.
    destruct (stateful_post u t (rdd_of st1 p) ns1) as [n2 e2]. cbn [fst]. now rewrite put_length.
  - destruct (tw_guard t (ntime nsi)); cbn [fst]; auto.
    pose proof (IH g p1 t st) as IH1. destruct (step fuel g p1 t st) as [st1 e]. cbn [fst] in IH1.
    destruct e; cbn [fst]; auto.
    pose proof (IH g p2 t st1) as IH2. destruct (step fuel g p2 t st1) as [st2 e']. cbn [fst] in IH2.
    destruct e'; cbn [fst]; [lia|].
    destruct (nth_error (gnodes st2) i) as [ns2|]; cbn [fst]; [|lia].
    destruct (union_post t (rdd_of st2 p1) (rdd_of st2 p2) ns2) as [n2 e2]. cbn [fst]. rewrite put_length. lia.
Qed.

Definition times_le (T : Z) (st : gstate) : Prop :=
  forall i ns, nth_error (gnodes st) i = Some ns -> ntime ns <= T.

Lemma times_le_put T i n st : times_le T st -> ntime n <= T -> times_le T (put i n st).
Proof.
  intros H Hn j ns Hj. destruct (Nat.eq_dec i j) as [->|Hne].
  - destruct (nth_error (gnodes st) j) as [x|] eqn:E.
    + rewrite (nth_put_eq _ _ _ _ E) in Hj. inversion Hj; subst; auto.
    + rewrite put_nodes in Hj. assert (nth_error (upd j (fun _ => n) (gnodes st)) j = None).
      { apply nth_error_None. rewrite upd_length. now apply nth_error_None. }
      congruence.
  - rewrite nth_put_neq in Hj by auto. eauto.
Qed.

Lemma window_post_time w s pr n : ntime (fst (window_post w s pr n)) = ntime n.
Proof.
  unfold window_post. destruct (win_skip _); cbn [fst]; [reflexivity|].
  destruct (union _); reflexivity.
Qed.
Lemma stateful_post_time u t pr n : ntime (fst (stateful_post u t pr n)) = t.
Proof.
  unfold stateful_post. destruct pr; cbn [fst]; try reflexivity;
  destruct (all_kv _); reflexivity.
Qed.
Lemma trans_post_time f t pr n : ntime (fst (fst (trans_post f t pr n))) = t.
Proof. unfold trans_post. destruct (is_none_rdd pr); [reflexivity|]. destruct (apply_tfun f t pr) as [[r lg]|e]; reflexivity. Qed.
Lemma union_post_time t r1 r2 n : ntime (fst (union_post t r1 r2 n)) = t.
Proof. unfold union_post. destruct (union _); reflexivity. Qed.
Lemma src_pop_time d n : ntime (src_pop d n) = ntime n.
Proof. unfold src_pop. destruct (nqueue n); reflexivity. Qed.

Lemma step_times_le fuel : forall g i t st, times_le t st -> times_le t (fst (step fuel g i t st)).
Proof.
  induction fuel as [|fuel IH]; intros g i t st H; [exact H|].
  cbn [step].
  destruct (nth_error g i) as [nd|]; [|exact H].
  destruct (nth_error (gnodes st) i) as [nsi|]; [|exact H].
  destruct nd as [q|f p|w s p|u p|p1 p2].
  - destruct (src_guard t (ntime nsi)); cbn [fst]; auto.
    apply times_le_put; auto. rewrite src_pop_time. cbn. lia.
  - destruct (tr_guard t (ntime nsi)); cbn [fst]; auto.
    specialize (IH g p t st H). destruct (step fuel g p t st) as [st1 e]. cbn [fst] in IH.
    destruct e; cbn [fst]; auto.
    destruct (nth_error (gnodes st1) i) as [ns1|]; cbn [fst]; auto.
    pose proof (trans_post_time f t (rdd_of st1 p) ns1) as Hp.
    destruct (trans_post f t (rdd_of st1 p) ns1) as [[n2 lg] e2]. cbn [fst] in *.
    intros j ns Hj. unfold add_log in Hj; cbn [gnodes] in Hj.
    revert j ns Hj. apply times_le_put; auto. lia.
  - destruct (win_guard t (ntime nsi)); cbn [fst]; auto.
    assert (H0 : times_le t (put i (set_time t nsi) st)) by (apply times_le_put; auto; cbn; lia).
    specialize (IH g p t _ H0).
    destruct (step fuel g p t (put i (set_time t nsi) st)) as [st1 e]. cbn [fst] in IH.
    destruct e; cbn [fst]; auto.
    destruct (nth_error (gnodes st1) i) as [ns1|] eqn:E1; cbn [fst]; auto.
    pose proof (window_post_time w s (rdd_of st1 p) ns1) as Hp.
    destruct (window_post w s (rdd_of st1 p) ns1) as [n2 e2]. cbn [fst] in *.
    apply times_le_put; auto. rewrite Hp. eauto.
  - destruct (st_guard t (ntime nsi)); cbn [fst]; auto.
    specialize (IH g p t st H). destruct (step fuel g p t st) as [st1 e]. cbn [fst] in IH.
    destruct e; cbn [fst]; auto.
    destruct (nth_error (gnodes st1) i) as [ns1|]; cbn [fst]; auto.
    pose proof (stateful_post_time u t (rdd_of st1 p) ns1) as Hp.
    destruct (stateful_post u t (rdd_of st1 p) ns1) as [n2 e2]. cbn [fst] in *.
    apply times_le_put; auto. lia.
  - destruct (tw_guard t (ntime nsi)); cbn [fst]; auto.
    pose proof (IH g p1 t st H) as IH1. destruct (step fuel g p1 t st) as [st1 e]. cbn [fst] in IH1.
    destruct e; cbn [fst]; auto.
    pose proof (IH g p2 t st1 IH1) as IH2. destruct (step fuel g p2 t st1) as [st2 e']. cbn [fst] in IH2.
    destruct e'; cbn [fst]; auto.
    destruct (nth_error (gnodes st2) i) as [ns2|]; cbn [fst]; auto.
    pose proof (union_post_time t (rdd_of st2 p1) (rdd_of st2 p2) ns2) as Hp.
    destruct (union_post t (rdd_of st2 p1) (rdd_of st2 p2) ns2) as [n2 e2]. cbn [fst] in *.
    apply times_le_put; auto. lia.
Qed.

Lemma tick_nodes_length fuel g t : forall is st,
  length (gnodes (fst (tick_nodes fuel g is t st))) = length (gnodes st).
Proof.
  induction is as [|i is IH]; intros st; [reflexivity|]. cbn [tick_nodes].
  pose proof (step_length fuel g i t st) as H. destruct (step fuel g i t st) as [st1 e]. cbn [fst] in H.
  destruct e; cbn [fst]; auto. now rewrite IH.
Qed.

Lemma tick_nodes_times_le fuel g t : forall is st,
  times_le t st -> times_le t (fst (tick_nodes fuel g is t st)).
Proof.
  induction is as [|i is IH]; intros st H; [exact H|]. cbn [tick_nodes].
  pose proof (step_times_le fuel g i t st H) as H1. destruct (step fuel g i t st) as [st1 e]. cbn [fst] in H1.
  destruct e; cbn [fst]; auto.
Qed.

Lemma times_le_weaken T T' st : T <= T' -> times_le T st -> times_le T' st.
Proof. intros HT H i ns Hi. specialize (H i ns Hi). lia. Qed.

Lemma tick_nodes_app fuel g a : forall b t st,
  tick_nodes fuel g (a ++ b) t st =
  (let '(s1, e) := tick_nodes fuel g a t st in
   match e with Some _ => (s1, e) | None => tick_nodes fuel g b t s1 end).
Proof.
  induction a as [|i a IH]; intros b t st; [reflexivity|].
  cbn [app tick_nodes]. destruct (step fuel g i t st) as [s1 e]. destruct e; [reflexivity|]. apply IH.
Qed.

(* ---------- k capturing consumers of node p, stepped after p ---------- *)
Definition obs_of (r : rdd) : option (list val) := match r with RNone => None | _ => Some (collect r) end.

Lemma capture_post j t r ns :
  trans_post (FCapture j) t r ns =
  (if is_none_rdd r then set_time t ns else set_rdd RNone (set_time t ns),
   if is_none_rdd r then [] else [(t, j, obs_of r)], None).
Proof. unfold trans_post. destruct r; reflexivity. Qed.

Lemma consumers_steps F g t p ndp nsp : forall k base j0 st,
  (forall j, (j < k)%nat -> nth_error g (base + j) = Some (Trans (FCapture (Z.of_nat (j0 + j))) p)) ->
  nth_error g p = Some ndp -> nth_error (gnodes st) p = Some nsp -> t <= ntime nsp ->
  (forall j, (j < k)%nat -> exists ns, nth_error (gnodes st) (base + j) = Some ns /\ ntime ns < t) ->
  exists st',
    tick_nodes (S (S F)) g (seq base k) t st = (st', None) /\
    glog st' = glog st ++ (if is_none_rdd (nrdd nsp) then []
                           else map (fun j => (t, Z.of_nat (j0 + j), obs_of (nrdd nsp))) (seq 0 k)) /\
    (forall i, (i < base \/ base + k <= i)%nat -> nth_error (gnodes st') i = nth_error (gnodes st) i) /\
    length (gnodes st') = length (gnodes st).
Proof.
  induction k as [|k IH]; intros base j0 st Hg Hgp Hsp Htp Hns.
  - exists st. cbn. destruct (is_none_rdd (nrdd nsp)); rewrite app_nil_r; auto.
  - destruct (Hns 0%nat ltac:(lia)) as (ns & Hb & Hbt). rewrite Nat.add_0_r in Hb.
    pose proof (Hg 0%nat ltac:(lia)) as Hg0. rewrite !Nat.add_0_r in Hg0.
    cbn [seq tick_nodes].
    rewrite (step_trans_go F g base t st _ p ns ndp nsp Hg0 Hb Hbt Hgp Hsp Htp).
    rewrite capture_post. cbv beta iota.
    assert (Hbp : base <> p).
    { intros ->. rewrite Hb in Hsp. inversion Hsp; subst. lia. }
    set (n2 := if is_none_rdd (nrdd nsp) then set_time t ns else set_rdd RNone (set_time t ns)).
    set (lg := if is_none_rdd (nrdd nsp) then [] else [(t, Z.of_nat j0, obs_of (nrdd nsp))]).
    assert (Elg : lg = if is_none_rdd (nrdd nsp) then [] else [(t, Z.of_nat j0, obs_of (nrdd nsp))]) by reflexivity.
    clearbody lg.
    set (st1 := add_log lg (put base n2 st)).
    destruct (IH (S base) (S j0) st1) as (st' & E & Hlog & Hoth & Hlen).
    + intros j Hj. specialize (Hg (S j) ltac:(lia)).
      now rewrite <- !Nat.add_succ_comm in Hg.
    + exact Hgp.
    + unfold st1, add_log; cbn [gnodes]. rewrite nth_put_neq; auto.
    + exact Htp.
    + intros j Hj. destruct (Hns (S j) ltac:(lia)) as (ns' & H1 & H2).
      exists ns'. split; auto. unfold st1, add_log; cbn [gnodes].
      rewrite nth_put_neq by lia. now rewrite Nat.add_succ_comm.
    + exists st'. split; [exact E|]. split; [|split].
      * rewrite Hlog. unfold st1, add_log; cbn [glog]. rewrite put_log, <- app_assoc. f_equal.
        rewrite Elg. destruct (is_none_rdd (nrdd nsp)); [reflexivity|].
        cbn [seq map app]. rewrite Nat.add_0_r. f_equal.
        rewrite <- seq_shift, map_map. apply map_ext. intros j. now rewrite Nat.add_succ_comm.
      * intros i Hi. rewrite Hoth by lia. unfold st1, add_log; cbn [gnodes]. rewrite nth_put_neq by lia. reflexivity.
      * rewrite Hlen. unfold st1, add_log; cbn [gnodes]. apply put_length.
Qed.

(* the RDD the queue source yields in interval i+1: the (i+1)-th queue entry (an EmptyRDD for a None entry), the default
   once the queue has run dry *)
Definition src_rdd (q : source) (i : nat) : rdd := entry_rdd (nth i (sq q) (sd q)).
Definition src_state (q : source) (n : nat) (T : Z) : nstate :=
  mkN T (match n with O => RNone | S m => src_rdd q m end) (skipn n (sq q)) [] win_counter_init [].

Lemma skipn_step {A} n (q : list A) :
  match skipn n q with
  | [] => nth_error q n = None /\ skipn (S n) q = []
  | b :: r => nth_error q n = Some b /\ skipn (S n) q = r
  end.
Proof.
  revert q; induction n as [|n IH]; intros [|x q].
  - split; reflexivity.
  - split; reflexivity.
  - split; reflexivity.
  - exact (IH q).
Qed.

Lemma src_pop_state q n T t : src_pop (sd q) (set_time t (src_state q n T)) = src_state q (S n) t.
Proof.
  unfold src_state, set_time, src_pop; cbn [nqueue ntime nrdd nbuf nctr nkv].
  pose proof (skipn_step n (sq q)) as H. unfold src_rdd.
  destruct (skipn n (sq q)) as [|b r]; destruct H as [H1 H2]; rewrite H2.
  - apply nth_error_None in H1. rewrite (nth_overflow _ _ H1). reflexivity.
  - rewrite (nth_error_nth _ _ _ H1). reflexivity.
Qed.

Lemma src_rdd_not_none q i : is_none_rdd (src_rdd q i) = false.
Proof. unfold src_rdd. destruct (nth i (sq q) (sd q)); reflexivity. Qed.

Lemma consumers_from_length p j0 k : length (consumers_from p j0 k) = k.
Proof. unfold consumers_from. now rewrite map_length, seq_length. Qed.

Lemma consumers_from_nth p j0 k j : (j < k)%nat ->
  nth_error (consumers_from p j0 k) j = Some (Trans (FCapture (Z.of_nat (j0 + j))) p).
Proof.
  intros H. unfold consumers_from. rewrite nth_error_map.
  rewrite (nth_error_nth' _ 0%nat) by (now rewrite seq_length).
  rewrite seq_nth by assumption. reflexivity.
Qed.

(* what k consumers of a stream log, tick after tick, when R n is the stream's RDD after n intervals
   (n = intervals already elapsed): nothing while the stream has not produced an RDD, then one capture each *)
Fixpoint cons_log (R : nat -> rdd) (k : nat) (n : nat) (ts : list Z) : list logentry :=
  match ts with
  | [] => []
  | t :: ts' => (if is_none_rdd (R (S n)) then [] else map (fun j => (t, Z.of_nat j, obs_of (R (S n)))) (seq 0 k))
                ++ cons_log R k (S n) ts'
  end.

(* ---------- a stream nd1 on a queue source (streams 0 and 1), any streams registered after them ----------
   S1 n T: the state of stream 1 after n intervals, the last at time T.  The hypothesis S1_step is what the
   instances (Window, Stateful) establish: one step of stream 1 once the source has produced interval n+1. *)
Section TwoNode.
Variables (q : source) (nd1 : node) (S1 : nat -> Z -> nstate) (R1 : nat -> rdd).
Hypothesis S1_time : forall n T, ntime (S1 n T) = T.
Hypothesis S1_rdd : forall n T, nrdd (S1 n T) = R1 n.
Hypothesis S1_init : init_node nd1 = S1 0%nat 0.
Hypothesis S1_step : forall F tail st n T t,
  nth_error (gnodes st) 0 = Some (src_state q (S n) t) -> nth_error (gnodes st) 1 = Some (S1 n T) -> T < t ->
  step (S (S F)) (Src q :: nd1 :: tail) 1 t st = (put 1 (S1 (S n) t) st, None).

Definition TInv (n : nat) (T : Z) (st : gstate) : Prop :=
  nth_error (gnodes st) 0 = Some (src_state q n T) /\ nth_error (gnodes st) 1 = Some (S1 n T).

Section AnyTail.
Variable tail : list node.
Local Notation g := (Src q :: nd1 :: tail).

Lemma tinv_init : TInv 0 0 (init_state g).
Proof. split; cbn; [reflexivity|]. now rewrite S1_init. Qed.

Lemma tinv_two_steps n T t st F :
  TInv n T st -> T < t ->
  exists st2, tick_nodes (S (S F)) g [0%nat; 1%nat] t st = (st2, None) /\ TInv (S n) t st2
              /\ glog st2 = glog st /\ length (gnodes st2) = length (gnodes st)
              /\ (forall j, (2 <= j)%nat -> nth_error (gnodes st2) j = nth_error (gnodes st) j).
Proof.
  intros [H0 H1] Ht. cbn [tick_nodes].
  rewrite (step_src_go _ g 0 t st q _ eq_refl H0) by (cbn; lia).
  rewrite src_pop_state.
  set (st1 := put 0 (src_state q (S n) t) st).
  assert (H0' : nth_error (gnodes st1) 0 = Some (src_state q (S n) t)) by (apply (nth_put_eq _ _ _ _ H0)).
  assert (H1' : nth_error (gnodes st1) 1 = Some (S1 n T)) by (unfold st1; rewrite nth_put_neq; auto).
  rewrite (S1_step F tail st1 n T t H0' H1' Ht).
  eexists; split; [reflexivity|]. split; [split|split; [|split]].
  - rewrite nth_put_neq; auto.
  - apply (nth_put_eq _ _ _ _ H1').
  - reflexivity.
  - unfold st1. rewrite !put_nodes, !upd_length. reflexivity.
  - intros j Hj. unfold st1. rewrite !nth_put_neq by lia. reflexivity.
Qed.

Lemma tinv_tick n T t st : TInv n T st -> T < t -> TInv (S n) t (fst (tick g t st)).
Proof.
  intros HI Ht. unfold tick. cbn [length seq].
  change (0%nat :: 1%nat :: seq 2 (length tail)) with ([0%nat; 1%nat] ++ seq 2 (length tail)).
  destruct (tinv_two_steps n T t st (length tail) HI Ht) as (st2 & E & [I0 I1] & _).
  rewrite tick_nodes_app, E.
  split; apply tick_nodes_frozen; auto; cbn [src_state ntime]; rewrite ?S1_time; lia.
Qed.

Lemma tinv_run : forall ts n T st,
  TInv n T st -> increasing T ts -> TInv (n + length ts) (last ts T) (fst (run_ticks g ts st)).
Proof.
  induction ts as [|t ts IH]; intros n T st HI Hinc.
  - cbn. now rewrite Nat.add_0_r.
  - destruct Hinc as [Ht Hinc]. rewrite run_ticks_cons, last_cons.
    cbn [length]. rewrite <- Nat.add_succ_comm.
    apply IH; auto. apply (tinv_tick n T); auto.
Qed.

(* the state of stream 1 after the ticks ts, whatever is registered after it *)
Lemma node1_state ts :
  increasing 0 ts -> nth_error (gnodes (final g ts)) 1 = Some (S1 (length ts) (last ts 0)).
Proof.
  intros Hinc. unfold final, run_graph. exact (proj2 (tinv_run ts 0%nat 0 _ tinv_init Hinc)).
Qed.

Lemma node1_rdd ts : increasing 0 ts -> rdd_of (final g ts) 1 = R1 (length ts).
Proof. intros H. unfold rdd_of. rewrite (node1_state ts H). apply S1_rdd. Qed.
End AnyTail.

(* ---------- with k capturing consumers ---------- *)
Section Consumers.
Variable k : nat.
Local Notation g := (Src q :: nd1 :: consumers 1 k).

Definition CInv (n : nat) (T : Z) (st : gstate) : Prop :=
  TInv n T st /\ times_le T st /\ length (gnodes st) = S (S k).

Lemma cinv_init : CInv 0 0 (init_state g).
Proof.
  split; [apply tinv_init|]. split.
  - intros i ns Hi. unfold init_state in Hi; cbn [gnodes] in Hi.
    rewrite nth_error_map in Hi. destruct (nth_error g i) as [nd|] eqn:E; [|discriminate].
    cbn [option_map] in Hi. inversion Hi; subst.
    destruct i as [|[|i]]; cbn [nth_error] in E.
    + inversion E; subst. cbn. unfold dstream_time_init. lia.
    + inversion E; subst. rewrite S1_init, S1_time. lia.
    + unfold consumers, consumers_from in E. rewrite nth_error_map in E.
      destruct (nth_error (seq 0 k) i); [|discriminate]. inversion E; subst. cbn. unfold dstream_time_init. lia.
  - unfold init_state; cbn [gnodes]. rewrite map_length. unfold consumers. cbn [length].
    now rewrite consumers_from_length.
Qed.

Lemma cinv_tick n T t st :
  CInv n T st -> T < t ->
  exists st', tick g t st = (st', None) /\ CInv (S n) t st' /\
    glog st' = glog st ++ (if is_none_rdd (R1 (S n)) then []
                           else map (fun j => (t, Z.of_nat j, obs_of (R1 (S n)))) (seq 0 k)).
Proof.
  intros (HI & Hle & Hlen) Ht.
  pose proof (tick_nodes_times_le (length g) g t (seq 0 (length g)) st
               (times_le_weaken T t st ltac:(lia) Hle)) as Hle'.
  pose proof (tick_nodes_length (length g) g t (seq 0 (length g)) st) as Hlen'.
  unfold tick in *. unfold consumers in *. cbn [length seq] in *.
  rewrite consumers_from_length in *.
  change (0%nat :: 1%nat :: seq 2 k) with ([0%nat; 1%nat] ++ seq 2 k) in *.
  destruct (tinv_two_steps (consumers_from 1 0 k) n T t st k HI Ht)
    as (st2 & E & [I0 I1] & Hlog2 & Hlen2 & Hoth2).
  rewrite tick_nodes_app, E in *.
  destruct (consumers_steps k (Src q :: nd1 :: consumers_from 1 0 k) t 1 nd1
              (S1 (S n) t) k 2 0 st2) as (st' & E' & Hlog' & Hoth' & Hlen'').
  - intros j Hj. cbn [Nat.add nth_error]. now apply consumers_from_nth.
  - reflexivity.
  - exact I1.
  - rewrite S1_time. lia.
  - intros j Hj. assert (Hex : (2 + j < length (gnodes st))%nat) by lia.
    apply nth_error_Some in Hex. destruct (nth_error (gnodes st) (2 + j)) as [ns|] eqn:En; [|congruence].
    exists ns. rewrite Hoth2 by lia. split; auto. specialize (Hle _ _ En). lia.
  - rewrite E' in *. cbn [fst] in *. exists st'. split; [reflexivity|]. split.
    + split; [split|split]; auto.
      * rewrite Hoth' by lia. exact I0.
      * rewrite Hoth' by lia. exact I1.
      * lia.
    + rewrite Hlog', Hlog2, S1_rdd. reflexivity.
Qed.

Lemma cinv_run : forall ts n T st,
  CInv n T st -> increasing T ts ->
  exists st', run_ticks g ts st = (st', map (fun _ => None) ts) /\
              CInv (n + length ts) (last ts T) st' /\
              glog st' = glog st ++ cons_log R1 k n ts.
Proof.
  induction ts as [|t ts IH]; intros n T st HI Hinc.
  - exists st. cbn. rewrite Nat.add_0_r, app_nil_r. auto.
  - destruct Hinc as [Ht Hinc].
    destruct (cinv_tick n T t st HI Ht) as (st1 & E1 & HI1 & Hlog1).
    destruct (IH (S n) t st1 HI1 Hinc) as (st' & E' & HI' & Hlog').
    exists st'. cbn [run_ticks]. rewrite E1, E'. split; [reflexivity|]. split.
    + rewrite last_cons. cbn [length]. now rewrite <- Nat.add_succ_comm.
    + rewrite Hlog', Hlog1, <- app_assoc. reflexivity.
Qed.

(* no tick raises; once stream 1 has produced an RDD every consumer captures, at every tick, exactly once, stream 1's
   RDD of that interval; before that the consumers' functions are not called *)
Lemma consumers_log ts :
  increasing 0 ts ->
  run_graph g ts = (final g ts, map (fun _ => None) ts) /\ glog (final g ts) = cons_log R1 k 0 ts.
Proof.
  intros Hinc. destruct (cinv_run ts 0%nat 0 _ cinv_init Hinc) as (st' & E & _ & Hlog).
  unfold final, run_graph. rewrite E. cbn [fst]. split; [reflexivity|]. exact Hlog.
Qed.
End Consumers.
End TwoNode.
