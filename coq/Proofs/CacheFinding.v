(* C05 -- what is NOT true of the code as it is: TimedCacheManager.delete leaves the stamp of the
   deleted entry in _time_added; after unpersist() and re-use of the persisted dataset the stale stamp
   makes gc() delete the re-added entry before its timeout.  Witnesses (A := Z) and the partial
   statement that does hold. *)
From Coq Require Import ZArith List Bool Lia.
Require Import PV.Model.Cache PV.Model.CacheSpec PV.Proofs.CacheStream PV.Proofs.CacheTimed PV.Proofs.CacheRecompute2.
Import ListNotations.
Open Scope Z_scope.

(* ---------------------------------------------------------------- the partial statement *)
Section Partial.
Variable A : Type.

Lemma nodup_fst_unique : forall {X Y} (l : list (X * Y)) a b1 b2,
  NoDup (map fst l) -> In (a, b1) l -> In (a, b2) l -> b1 = b2.
Proof.
  induction l as [|[x y] l IH]; simpl; intros a b1 b2 Hn H1 H2; [contradiction|].
  inversion Hn; subst. destruct H1 as [E1|H1], H2 as [E2|H2].
  - congruence.
  - inversion E1; subst. exfalso. apply H3. apply (in_map fst) in H2; auto.
  - inversion E2; subst. exfalso. apply H3. apply (in_map fst) in H1; auto.
  - eapply IH; eauto.
Qed.

(* without stale stamps, "no stamp of k is expired" is the same as "the entry is younger than the timeout" *)
Lemma fresh_entry_stable : forall now0 now (m : mgr A) to k d t,
  m_timeout m = Some to -> timed_inv now0 m -> NoDup (map fst (m_times m)) ->
  In (k, (d, t)) (m_entries m) -> t > now - to -> stable now k m.
Proof.
  intros now0 now m to k d t Hto [_ [_ Hc]] Hn Hin Ht. unfold stable. rewrite Hto.
  intros t' Hs. apply Hc in Hin. rewrite (nodup_fst_unique _ _ _ _ Hn Hs Hin). exact Ht.
Qed.

Theorem no_recompute_timed_partial : forall pool now0 now (pre post : list (node A)) rid jd parts a i (m : mgr A) to d t,
  NoDup (map fst (pre ++ (rid, SPersist) :: post)) ->
  m_timeout m = Some to -> timed_inv now0 m ->
  NoDup (map fst (m_times m)) ->                                   (* no stale stamp *)
  In ((rid, i), (d, t)) (m_entries m) -> t > now - to ->           (* cached and younger than the timeout *)
  user_calls_of (map fst pre) i
    (snd (fst (run_action_on pool now (rev_prefix (length pre + 1 + jd) (pre ++ (rid, SPersist) :: post)) parts a m))) = [].
Proof.
  intros pool now0 now pre post rid jd parts a i m to d t Hnd Hto Hinv Hns Hin Ht.
  apply (no_recompute_action A pool now pre post rid jd parts a i m Hnd).
  - unfold has_key. apply (in_map fst) in Hin; auto.
  - eapply fresh_entry_stable; eauto.
Qed.
End Partial.

(* ---------------------------------------------------------------- witnesses *)
Definition wit_world : world Z :=
  World [Ctx 0 false]
        (fst (alloc_all 0 [(0%nat, [[1; 2]; [3; 4]], [SMap (fun x => x + 1); SPersist; SMap (fun x => x * 2); SPersist])])).
(* collect the persisted dataset, unpersist it, use it again 5 later, and 5 later collect its persisted descendant *)
Definition wit_history : list action :=
  [Act 0 2 ACollect; Unpersist 0 2; Advance 5; Act 0 2 ACollect; Advance 5].
Definition wit_state : state Z := final_state wit_world (init_state Z [Some 10]) wit_history.
Definition wit_mgr : mgr Z :=
  Mgr (Some 10) [((3, 0), ([2; 3], 5)); ((3, 1), ([4; 5], 5))]
      [((3, 0), 0); ((3, 1), 0); ((3, 0), 5); ((3, 1), 5)].

Lemma wit_built : built wit_world.
Proof. exists 0, [(0%nat, [[1; 2]; [3; 4]], [SMap (fun x => x + 1); SPersist; SMap (fun x => x * 2); SPersist])]. reflexivity. Qed.
Lemma wit_wf : wf_world wit_world 1.
Proof. repeat constructor. exists (Ctx 0 false). split; [reflexivity | simpl; lia]. Qed.
Lemma wit_reached : s_now wit_state = 10 /\ nth_error (s_mgrs wit_state) 0 = Some wit_mgr.
Proof. vm_compute. split; reflexivity. Qed.

(* gc() at time 10 with timeout 10 deletes the entries added at 5 *)
Lemma wit_gc_deletes : m_entries (m_gc 10 wit_mgr) = [].
Proof. vm_compute. reflexivity. Qed.

(* the action: partition 1 of dataset 3 is cached (added at 5, now 10, timeout 10), yet the function
   of dataset 2 (upstream of 3) is called again for partition 1 *)
Lemma wit_recomputes :
  user_calls_of [2] 1 (snd (fst (step wit_world wit_state (Act 0 4 ACollect)))) = [Ev 2 1 3; Ev 2 1 4].
Proof. vm_compute. reflexivity. Qed.

(* ---------------------------------------------------------------- the full statements and their refutation *)
(* "gc() removes only what reached its timeout" *)
Definition gc_only_expired_full : Prop :=
  forall (A : Type) (w : world A) tos h mi m to,
    built w -> wf_world w (length tos) -> clock_monotone h ->
    let st := final_state w (init_state A tos) h in
    nth_error (s_mgrs st) mi = Some m -> m_timeout m = Some to ->
    forall k d t, In (k, (d, t)) (m_entries m) -> t > s_now st - to -> has_key k (m_gc (s_now st) m).

(* "a cached partition younger than the timeout (any age with a plain manager) is not recomputed" *)
Definition no_recompute_full : Prop :=
  forall (A : Type) (w : world A) tos h k P cx m pre rid post jd ak i d t,
    built w -> wf_world w (length tos) -> clock_monotone h ->
    let st := final_state w (init_state A tos) h in
    nth_error (w_pipes w) k = Some P -> p_nodes P = pre ++ (rid, SPersist) :: post ->
    nth_error (w_ctxs w) (p_ctx P) = Some cx -> nth_error (s_mgrs st) (c_mgr cx) = Some m ->
    In ((rid, i), (d, t)) (m_entries m) ->
    (forall to, m_timeout m = Some to -> t > s_now st - to) ->
    user_calls_of (map fst pre) i (snd (fst (step w st (Act k (length pre + 1 + jd) ak)))) = [].

Lemma wit_monotone : clock_monotone wit_history.
Proof. simpl. lia. Qed.

Theorem gc_only_expired_refuted : ~ gc_only_expired_full.
Proof.
  intros H. destruct wit_reached as [Hn Hm].
  specialize (H Z wit_world [Some 10] wit_history 0%nat wit_mgr 10 wit_built wit_wf wit_monotone Hm eq_refl
                (3, 1) [4; 5] 5).
  fold wit_state in H. rewrite Hn in H.
  assert (Hin : In ((3, 1), ([4; 5], 5)) (m_entries wit_mgr)) by (simpl; auto).
  specialize (H Hin ltac:(lia)). unfold has_key in H. rewrite wit_gc_deletes in H. exact H.
Qed.

Theorem no_recompute_refuted : ~ no_recompute_full.
Proof.
  intros H. destruct wit_reached as [Hn Hm].
  specialize (H Z wit_world [Some 10] wit_history 0%nat
                (Pipe 0%nat 1 [[1; 2]; [3; 4]] [(2, SMap (fun x => x + 1)); (3, SPersist); (4, SMap (fun x => x * 2)); (5, SPersist)])
                (Ctx 0 false) wit_mgr [(2, SMap (fun x => x + 1))] 3 [(4, SMap (fun x => x * 2)); (5, SPersist)]
                2%nat ACollect 1 [4; 5] 5 wit_built wit_wf wit_monotone eq_refl eq_refl eq_refl Hm).
  assert (Hin : In ((3, 1), ([4; 5], 5)) (m_entries wit_mgr)) by (simpl; auto).
  specialize (H Hin). fold wit_state in H. rewrite Hn in H.
  assert (Ht : forall to, m_timeout wit_mgr = Some to -> 5 > 10 - to) by (intros to E; inversion E; lia).
  specialize (H Ht). simpl length in H. simpl map in H.
  change (2 + 1 + 2)%nat with 5%nat in H. change (1 + 1 + 2)%nat with 4%nat in H.
  rewrite wit_recomputes in H. discriminate.
Qed.
