(* C16 -- IEEE-754 facts behind randomSplit's boundaries, via Flocq (no float axioms). *)
From Coq Require Import ZArith Reals Bool List Lia Lra.
From Coq Require Import SpecFloat FloatOps.
From Flocq Require Import Core BinarySingleNaN.
From Flocq Require PrimFloat.
Require Import PV.Base.NumSF PV.Model.Sample PV.Proofs.SampleOrd.
Import ListNotations.

#[local] Existing Instance PrimFloat.Hprec.
#[local] Existing Instance PrimFloat.Hmax.
Notation B64 := (binary_float prec emax).

Definition valid (x : fl) : Prop := valid_binary prec emax x = true.

Lemma toB x : valid x -> exists X : B64, B2SF X = x.
Proof. intros H. exists (SF2B x H). apply B2SF_SF2B. Qed.

Lemma SFadd_B2SF (x y : B64) : SFadd prec emax (B2SF x) (B2SF y) = B2SF (Bplus mode_NE x y).
Proof.
  case x as [sx|sx| |sx mx ex Bx]; case y as [sy|sy| |sy my ey By];
    [now (trivial || simpl; case Bool.eqb).. | ].
  apply PrimFloat.binary_normalize_equiv.
Qed.

Lemma SFsub_B2SF (x y : B64) : SFsub prec emax (B2SF x) (B2SF y) = B2SF (Bminus mode_NE x y).
Proof.
  case x as [sx|sx| |sx mx ex Bx]; case y as [sy|sy| |sy my ey By];
    [now (trivial || simpl; case Bool.eqb).. | ].
  simpl. unfold Zminus. rewrite <- cond_Zopp_negb. apply PrimFloat.binary_normalize_equiv.
Qed.

Lemma SFdiv_B2SF (x y : B64) : SFdiv prec emax (B2SF x) (B2SF y) = B2SF (Bdiv mode_NE x y).
Proof.
  case x as [sx|sx| |sx mx ex Bx]; case y as [sy|sy| |sy my ey By];
    [now (trivial || simpl; case Bool.eqb).. | ].
  simpl. rewrite B2SF_SF2B.
  set (melz := SFdiv_core_binary _ _ _ _ _ _). case melz as [[mz ez] lz].
  apply PrimFloat.binary_round_aux_equiv.
Qed.

Lemma valid_add a b : valid a -> valid b -> valid (sf_add a b).
Proof.
  intros Ha Hb. destruct (toB a Ha) as [X <-]. destruct (toB b Hb) as [Y <-].
  unfold sf_add, valid. rewrite SFadd_B2SF. apply valid_binary_B2SF.
Qed.
Lemma valid_sub a b : valid a -> valid b -> valid (sf_sub a b).
Proof.
  intros Ha Hb. destruct (toB a Ha) as [X <-]. destruct (toB b Hb) as [Y <-].
  unfold sf_sub, valid. rewrite SFsub_B2SF. apply valid_binary_B2SF.
Qed.
Lemma valid_div a b : valid a -> valid b -> valid (sf_div a b).
Proof.
  intros Ha Hb. destruct (toB a Ha) as [X <-]. destruct (toB b Hb) as [Y <-].
  unfold sf_div, valid. rewrite SFdiv_B2SF. apply valid_binary_B2SF.
Qed.
Lemma valid_ofZ z : valid (sf_ofZ z).
Proof. unfold sf_ofZ, valid. rewrite PrimFloat.binary_normalize_equiv. apply valid_binary_B2SF. Qed.
Lemma valid_zero : valid sf_zero.
Proof. reflexivity. Qed.

Definition bzero : B64 := B754_zero false.

Lemma nonneg_B2R (X : B64) : is_finite X = true -> SFleb sf_zero (B2SF X) = true -> (0 <= B2R X)%R.
Proof.
  intros HF H. change (Bleb bzero X = true) in H. rewrite (Bleb_correct _ _ bzero X eq_refl HF) in H.
  simpl in H. destruct (Rle_bool_spec 0 (B2R X)); [assumption | discriminate].
Qed.

Lemma sign_true_nonpos (X : B64) : is_finite X = true -> Bsign X = true -> (B2R X <= 0)%R.
Proof.
  destruct X as [s|s| |s m e H]; simpl; try discriminate; intros _ Hs.
  - lra.
  - subst s. apply F2R_le_0. simpl. lia.
Qed.

Lemma leb_of_Rle (X Y : B64) : is_finite X = true -> is_finite Y = true -> (B2R X <= B2R Y)%R ->
  SFleb (B2SF X) (B2SF Y) = true.
Proof.
  intros HX HY H. change (Bleb X Y = true). rewrite (Bleb_correct _ _ X Y HX HY). now apply Rle_bool_true.
Qed.

Lemma finite_le_inf (X : B64) : is_finite X = true -> SFleb (B2SF X) (S754_infinity false) = true.
Proof. destruct X as [s|s| |s m e H]; simpl; try discriminate; reflexivity. Qed.

Lemma overflow_NE s : binary_overflow prec emax mode_NE s = S754_infinity s.
Proof. reflexivity. Qed.

(* adding a non-negative number does not decrease a non-negative number *)
Lemma add_mono b q : valid b -> valid q -> SFleb sf_zero b = true -> SFleb sf_zero q = true ->
  SFleb b (sf_add b q) = true.
Proof.
  intros Hb Hq. destruct (toB b Hb) as [X <-]. destruct (toB q Hq) as [Y <-]. intros H0b H0q.
  unfold sf_add. rewrite SFadd_B2SF.
  destruct (is_finite X) eqn:FX; [destruct (is_finite Y) eqn:FY|].
  - pose proof (nonneg_B2R X FX H0b) as HX. pose proof (nonneg_B2R Y FY H0q) as HY.
    pose proof (Bplus_correct prec emax _ _ mode_NE X Y FX FY) as HC.
    assert (Hr : (B2R X <= round radix2 (fexp prec emax) (round_mode mode_NE) (B2R X + B2R Y))%R).
    { rewrite <- (round_generic radix2 (fexp prec emax) (round_mode mode_NE) (B2R X)) at 1 by apply generic_format_B2R.
      apply round_le; [apply fexp_correct; reflexivity | apply valid_rnd_round_mode | lra]. }
    destruct (Rlt_bool _ _) eqn:EO.
    + destruct HC as [HR [HF _]]. apply leb_of_Rle; [assumption..|]. rewrite HR. exact Hr.
    + destruct HC as [HO HS]. rewrite HO, overflow_NE.
      destruct (Bsign X) eqn:SX.
      * exfalso. pose proof (sign_true_nonpos X FX SX). pose proof (sign_true_nonpos Y FY (eq_sym HS)) as HY'.
        replace (B2R X + B2R Y)%R with 0%R in EO by lra.
        rewrite round_0, Rabs_R0 in EO by apply valid_rnd_round_mode.
        rewrite Rlt_bool_true in EO; [discriminate | apply bpow_gt_0].
      * apply finite_le_inf. exact FX.
  - (* Y infinite or nan, X finite *)
    destruct Y as [s|s| |s m e H]; try discriminate; destruct X as [sx|sx| |sx mx ex Hx]; try discriminate;
      destruct s; simpl in *; try discriminate; reflexivity.
  - destruct X as [s|s| |s m e H]; try discriminate; destruct s; simpl in H0b; try discriminate.
    destruct Y as [sy|sy| |sy my ey Hy]; simpl in *; try discriminate; try reflexivity.
    destruct sy; simpl in *; try discriminate; reflexivity.
Qed.

Lemma add_nonnan_valid b q : valid b -> valid q -> valid (sf_add b q).
Proof. apply valid_add. Qed.

(* a finite non-negative number divided by a positive number is non-negative (never NaN) *)
Lemma div_nonneg w s : valid w -> valid s -> sf_finite w = true -> SFleb sf_zero w = true -> SFltb sf_zero s = true ->
  SFleb sf_zero (sf_div w s) = true.
Proof.
  intros Hw Hs. destruct (toB w Hw) as [W <-]. destruct (toB s Hs) as [S <-]. intros FW H0w H0s.
  assert (FW' : is_finite W = true) by (destruct W; simpl in *; congruence).
  unfold sf_div. rewrite SFdiv_B2SF.
  destruct S as [ss|ss| |ss ms es HS]; simpl in H0s; try discriminate.
  - (* infinity *) destruct ss; simpl in H0s; try discriminate.
    destruct W as [sw|sw| |sw mw ew HW]; simpl in *; try discriminate; reflexivity.
  - destruct ss; simpl in H0s; try discriminate.
    pose proof (nonneg_B2R W FW' H0w) as HW0.
    set (S := B754_finite false ms es HS : B64) in *.
    assert (HSpos : (0 < B2R S)%R) by (apply F2R_gt_0; simpl; lia).
    pose proof (Bdiv_correct prec emax _ _ mode_NE W S ltac:(lra)) as HC.
    assert (Hr : (0 <= round radix2 (fexp prec emax) (round_mode mode_NE) (B2R W / B2R S))%R).
    { rewrite <- (round_0 radix2 (fexp prec emax) (round_mode mode_NE)) at 1.
      apply round_le; [apply fexp_correct; reflexivity | apply valid_rnd_round_mode |].
      unfold Rdiv. apply Rmult_le_pos; [assumption | left; apply Rinv_0_lt_compat; assumption]. }
    destruct (Rlt_bool _ _) eqn:EO.
    + destruct HC as [HR [HF _]]. rewrite FW' in HF.
      change (SFleb (B2SF bzero) (B2SF (Bdiv mode_NE W S)) = true).
      apply leb_of_Rle; [reflexivity | exact HF |]. rewrite HR. exact Hr.
    + rewrite HC, overflow_NE.
      destruct (Bsign W) eqn:SW.
      * exfalso. pose proof (sign_true_nonpos W FW' SW).
        replace (B2R W) with 0%R in EO by lra. unfold Rdiv in EO. rewrite Rmult_0_l in EO.
        rewrite round_0, Rabs_R0 in EO by apply valid_rnd_round_mode.
        rewrite Rlt_bool_true in EO; [discriminate | apply bpow_gt_0].
      * reflexivity.
Qed.
