(* Lemmas for the JSON part of C19: parsing the JSON description of a type tree gives the tree back. *)
From Coq Require Import ZArith NArith List Bool String Ascii Lia PeanoNat.
From Coq Require Import DecimalN DecimalPos.
Require Import PV.Gen.TypeTables PV.Model.Types.
Import ListNotations.
Open Scope list_scope.
Open Scope Z_scope.

(* ---------- strings *)
Lemma str_eqb_refl s : str_eqb s s = true.
Proof. induction s as [|c s IH]; simpl; [reflexivity|]. now rewrite N.eqb_refl, IH. Qed.

Lemma str_eqb_eq a b : str_eqb a b = true <-> a = b.
Proof.
  revert b. induction a as [|x a IH]; intros [|y b]; simpl; split; intro H; try reflexivity; try discriminate.
  - apply andb_true_iff in H. destruct H as [H1 H2]. apply N.eqb_eq in H1. apply IH in H2. now subst.
  - injection H as -> ->. now rewrite N.eqb_refl, str_eqb_refl.
Qed.

(* ---------- decimal numerals *)
Definition dstep (acc c : N) : N := (acc * 10 + (c - 48))%N.

Lemma fold_digits_acc d : forall acc : positive,
  fold_left dstep (uint_codes d) (N.pos acc) = N.pos (Pos.of_uint_acc d acc).
Proof.
  induction d as [|d IH|d IH|d IH|d IH|d IH|d IH|d IH|d IH|d IH|d IH]; intro acc; [reflexivity|..];
    cbn [uint_codes fold_left Pos.of_uint_acc]; rewrite <- IH; f_equal; unfold dstep; lia.
Qed.

Lemma fold_digits d : fold_left dstep (uint_codes d) 0%N = N.of_uint d.
Proof.
  unfold N.of_uint.
  induction d as [|d IH|d IH|d IH|d IH|d IH|d IH|d IH|d IH|d IH|d IH]; [reflexivity| exact IH |..];
    cbn [uint_codes fold_left Pos.of_uint]; rewrite <- fold_digits_acc; f_equal.
Qed.

Lemma digits_val_N_str n : digits_val (N_str n) = n.
Proof. unfold digits_val, N_str. change (fun acc c : N => (acc * 10 + (c - 48))%N) with dstep.
  rewrite fold_digits. apply DecimalN.Unsigned.of_to. Qed.

Lemma uint_codes_digits d : Forall (fun c => is_digit c = true) (uint_codes d).
Proof. induction d; simpl; constructor; try assumption; reflexivity. Qed.

Lemma N_str_nonempty n : N_str n <> [].
Proof.
  unfold N_str. intro H.
  assert (E : N.to_uint n = Decimal.Nil) by (destruct (N.to_uint n); simpl in H; try discriminate; reflexivity).
  pose proof (DecimalN.Unsigned.of_to n) as R. rewrite E in R. simpl in R. subst n. discriminate E.
Qed.

Lemma span_digits_app ds rest :
  Forall (fun c => is_digit c = true) ds ->
  (match rest with [] => True | c :: _ => is_digit c = false end) ->
  span_digits (ds ++ rest) = (ds, rest).
Proof.
  intros Hd Hr. induction Hd as [|c ds Hc _ IH]; simpl.
  - destruct rest as [|c r]; simpl; [reflexivity|]. now rewrite Hr.
  - rewrite Hc, IH. reflexivity.
Qed.

Lemma strip_prefix_app p s : strip_prefix p (p ++ s) = Some s.
Proof. induction p as [|c p IH]; simpl; [destruct s; reflexivity|]. now rewrite N.eqb_refl. Qed.

Lemma digit_not_space c : is_digit c = true -> is_space c = false.
Proof.
  unfold is_digit, is_space. intro H. apply andb_true_iff in H. destruct H as [H1 H2].
  apply N.leb_le in H1. apply N.leb_le in H2.
  apply orb_false_iff. split; apply andb_false_iff.
  - right. apply N.leb_gt. lia.
  - right. apply N.leb_gt. lia.
Qed.

Lemma skip_ws_digit_head ds rest :
  ds <> [] -> Forall (fun c => is_digit c = true) ds -> skip_ws (ds ++ rest) = ds ++ rest.
Proof.
  intros Hne Hd. destruct ds as [|c ds]; [congruence|]. inversion Hd as [|? ? Hc _]; subst.
  simpl. now rewrite (digit_not_space c Hc).
Qed.

Lemma digit_head_is c0 ds rest : c0 <> 0%N -> is_digit c0 = false ->
  Forall (fun c => is_digit c = true) ds -> ds <> [] -> head_is c0 (ds ++ rest) = false.
Proof.
  intros _ Hc0 Hd Hne. destruct ds as [|c r]; [congruence|]. inversion Hd as [|? ? Hc _]; subst. simpl.
  destruct (N.eqb_spec c c0) as [->|]; [congruence|reflexivity].
Qed.

Lemma match_decimal_str p s : match_fixed_decimal (decimal_str p s) = Some (p, s).
Proof.
  unfold match_fixed_decimal, decimal_str. rewrite strip_prefix_app.
  pose proof (N_str_nonempty p) as Hp. pose proof (uint_codes_digits (N.to_uint p)) as Dp. fold (N_str p) in Dp.
  rewrite (skip_ws_digit_head _ _ Hp Dp).
  rewrite (span_digits_app (N_str p) _ Dp) by reflexivity.
  destruct (N_str p) as [|c0 r0] eqn:Ep; [congruence|]. rewrite <- Ep.
  change (skip_ws ([44%N] ++ Z_str s ++ [41%N])) with (44%N :: Z_str s ++ [41%N]).
  change (head_is 44 (44%N :: Z_str s ++ [41%N])) with true. cbv iota. cbn [tail].
  assert (HN : forall n, skip_ws (N_str n ++ [41%N]) = N_str n ++ [41%N] /\
                          head_is 45 (N_str n ++ [41%N]) = false /\
                          span_digits (N_str n ++ [41%N]) = (N_str n, [41%N]) /\
                          exists c1 r1, N_str n = c1 :: r1).
  { intro n. pose proof (N_str_nonempty n) as H0. pose proof (uint_codes_digits (N.to_uint n)) as D0.
    fold (N_str n) in D0. repeat split.
    - apply skip_ws_digit_head; assumption.
    - apply digit_head_is; try assumption; [discriminate|reflexivity].
    - apply span_digits_app; [assumption|reflexivity].
    - destruct (N_str n) as [|c1 r1]; [congruence|]. eauto. }
  destruct s as [|q|q].
  - change (Z_str 0) with (N_str 0). destruct (HN 0%N) as (E1 & E2 & E3 & c1 & r1 & E4).
    rewrite E1, E2, E3. rewrite E4 at 1. change (skip_ws [41%N]) with [41%N]. change (head_is 41 [41%N]) with true.
    cbv iota. now rewrite !digits_val_N_str.
  - change (Z_str (Z.pos q)) with (N_str (N.pos q)). destruct (HN (N.pos q)) as (E1 & E2 & E3 & c1 & r1 & E4).
    rewrite E1, E2, E3. rewrite E4 at 1. change (skip_ws [41%N]) with [41%N]. change (head_is 41 [41%N]) with true.
    cbv iota. now rewrite !digits_val_N_str.
  - change (Z_str (Z.neg q)) with (45%N :: N_str (N.pos q)). destruct (HN (N.pos q)) as (E1 & E2 & E3 & c1 & r1 & E4).
    change (skip_ws ((45%N :: N_str (N.pos q)) ++ [41%N])) with (45%N :: N_str (N.pos q) ++ [41%N]).
    change (head_is 45 (45%N :: N_str (N.pos q) ++ [41%N])) with true. cbv iota. cbn [tail].
    rewrite E3. rewrite E4 at 1. change (skip_ws [41%N]) with [41%N]. change (head_is 41 [41%N]) with true.
    cbv iota. now rewrite !digits_val_N_str.
Qed.

(* ---------- type names *)
Lemma parse_atom_name a : parse_type_string (atom_name a) = Ok (TAtom a).
Proof. destruct a; vm_compute; reflexivity. Qed.

Lemma parse_decimal_str p s : parse_type_string (decimal_str p s) = Ok (TDecimal p s).
Proof.
  unfold parse_type_string.
  assert (H : name_class atomic_type_names (decimal_str p s) = None).
  { unfold decimal_str. cbn. reflexivity. }
  rewrite H, match_decimal_str. reflexivity.
Qed.

(* ---------- induction principle for the nested type *)
Section dtype_ind'.
  Variable P : dtype -> Prop.
  Hypothesis Hatom : forall a, P (TAtom a).
  Hypothesis Hdec : forall p s, P (TDecimal p s).
  Hypothesis Harr : forall e b, P e -> P (TArray e b).
  Hypothesis Hmap : forall k v b, P k -> P v -> P (TMap k v b).
  Hypothesis Hstruct : forall fs, Forall (fun f => P (sf_ty f)) fs -> P (TStruct fs).

  Fixpoint dtype_ind' (t : dtype) : P t :=
    match t with
    | TAtom a => Hatom a
    | TDecimal p s => Hdec p s
    | TArray e b => Harr e b (dtype_ind' e)
    | TMap k v b => Hmap k v b (dtype_ind' k) (dtype_ind' v)
    | TStruct fs =>
        Hstruct fs ((fix go (l : list (sfield dtype)) : Forall (fun f => P (sf_ty f)) l :=
                       match l with
                       | [] => Forall_nil _
                       | f :: r => Forall_cons f (match f as f0 return P (sf_ty f0) with
                                                  | SField _ ty _ _ => dtype_ind' ty
                                                  end) (go r)
                       end) fs)
    end.
End dtype_ind'.

Fixpoint tdepth (t : dtype) : nat :=
  match t with
  | TArray e _ => S (tdepth e)
  | TMap k v _ => S (Nat.max (tdepth k) (tdepth v))
  | TStruct fs => S (fold_right (fun f m => Nat.max (tdepth (sf_ty f)) m) O fs)
  | _ => O
  end.

Lemma mapM_map_ok {A B} (g : B -> res A) (h : A -> B) (l : list A) :
  Forall (fun x => g (h x) = Ok x) l -> mapM g (map h l) = Ok l.
Proof. induction 1 as [|x l Hx _ IH]; simpl; [reflexivity|]. now rewrite Hx, IH. Qed.

Lemma fold_max_le {A} (f : A -> nat) l x : In x l -> (f x <= fold_right (fun y m => Nat.max (f y) m) O l)%nat.
Proof. induction l as [|y l IH]; simpl; [tauto|]. intros [->|H]; [lia|]. specialize (IH H). lia. Qed.

Definition field_json (f : sfield dtype) : json :=
  match f with
  | SField n ty nl m => JObj [(k_name, JStr n); (k_type, to_json ty); (k_nullable, JBool nl); (k_metadata, JObj m)]
  end.

Lemma to_json_struct fs :
  to_json (TStruct fs) = JObj [(k_type, JStr (complex_name "StructType")); (k_fields, JArr (map field_json fs))].
Proof. reflexivity. Qed.

Lemma field_roundtrip rec n ty nl m :
  rec (to_json ty) = Ok ty -> field_of_json rec (field_json (SField n ty nl m)) = Ok (SField n ty nl m).
Proof.
  intro H. unfold field_of_json, field_json.
  change (nlookup k_name _) with (Some (JStr n)).
  change (nlookup k_type _) with (Some (to_json ty)).
  change (nlookup k_nullable _) with (Some (JBool nl)).
  change (nlookup k_metadata _) with (Some (JObj m)).
  cbv iota beta. rewrite H. simpl bind. cbv iota beta.
  destruct m as [|e m]; reflexivity.
Qed.

Lemma of_json_to_json : forall t fuel, (tdepth t < fuel)%nat -> of_json fuel (to_json t) = Ok t.
Proof.
  induction t as [a|p s|e b IHe|k v b IHk IHv|fs IH] using dtype_ind'; intros fuel Hf;
    (destruct fuel as [|fuel]; [inversion Hf|]).
  - apply parse_atom_name.
  - apply parse_decimal_str.
  - simpl in Hf. cbn [to_json of_json]. unfold of_json_step.
    change (nlookup k_type _) with (Some (JStr (complex_name "ArrayType"))).
    cbv iota beta. change (name_class complex_type_names (complex_name "ArrayType")) with (Some "ArrayType"%string).
    cbv iota beta. change (String.eqb "ArrayType" "ArrayType") with true. cbv iota.
    change (nlookup k_elementType _) with (Some (to_json e)). cbv iota beta.
    rewrite IHe by lia. simpl bind.
    change (nlookup k_containsNull _) with (Some (JBool b)). reflexivity.
  - simpl in Hf. cbn [to_json of_json]. unfold of_json_step.
    change (nlookup k_type _) with (Some (JStr (complex_name "MapType"))).
    cbv iota beta. change (name_class complex_type_names (complex_name "MapType")) with (Some "MapType"%string).
    cbv iota beta. change (String.eqb "MapType" "ArrayType") with false.
    change (String.eqb "MapType" "MapType") with true. cbv iota.
    change (nlookup k_keyType _) with (Some (to_json k)). cbv iota beta.
    rewrite IHk by lia. simpl bind.
    change (nlookup k_valueType _) with (Some (to_json v)). cbv iota beta.
    rewrite IHv by lia. simpl bind.
    change (nlookup k_valueContainsNull _) with (Some (JBool b)). reflexivity.
  - rewrite to_json_struct. cbn [of_json]. unfold of_json_step.
    change (nlookup k_type _) with (Some (JStr (complex_name "StructType"))).
    cbv iota beta. change (name_class complex_type_names (complex_name "StructType")) with (Some "StructType"%string).
    cbv iota beta. change (String.eqb "StructType" "ArrayType") with false.
    change (String.eqb "StructType" "MapType") with false.
    change (String.eqb "StructType" "StructType") with true. cbv iota.
    change (nlookup k_fields _) with (Some (JArr (map field_json fs))). cbv iota beta.
    rewrite mapM_map_ok; [reflexivity|].
    rewrite Forall_forall in IH |- *. intros [n ty nl m] Hin.
    apply field_roundtrip. apply (IH _ Hin).
    change (tdepth (TStruct fs)) with (S (fold_right (fun f m => Nat.max (tdepth (sf_ty f)) m) O fs)) in Hf.
    pose proof (fold_max_le (fun f => tdepth (sf_ty f)) fs _ Hin) as Hle. cbv beta in Hle.
    change (sf_ty (SField n ty nl m)) with ty in Hle |- *. lia.
Qed.

(* ---------- fuel: more fuel never changes a result other than OutOfFuel; depth+1 is enough *)
Definition le_res {A} (r r' : res A) : Prop := r = Err EFuel \/ r = r'.

Lemma le_refl {A} (r : res A) : le_res r r. Proof. now right. Qed.

Lemma le_bind {A B} (a a' : res A) (k k' : A -> res B) :
  le_res a a' -> (forall x, le_res (k x) (k' x)) -> le_res (bind a k) (bind a' k').
Proof. intros [->| ->] H; [now left|]. destruct a' as [x|e]; simpl; [apply H|now right]. Qed.

Lemma le_mapM {A B} (g g' : A -> res B) l :
  (forall x, le_res (g x) (g' x)) -> le_res (mapM g l) (mapM g' l).
Proof.
  intro H. induction l as [|x l IH]; simpl; [apply le_refl|].
  apply le_bind; [apply H|]. intro y. apply le_bind; [exact IH|]. intro ys. apply le_refl.
Qed.

Lemma le_field rec rec' f : (forall x, le_res (rec x) (rec' x)) -> le_res (field_of_json rec f) (field_of_json rec' f).
Proof.
  intro H. unfold field_of_json. destruct f; try apply le_refl.
  destruct (nlookup k_name kv); [|apply le_refl]. destruct (nlookup k_type kv); [|apply le_refl].
  apply le_bind; [apply H|]. intro ty. apply le_refl.
Qed.

Lemma le_step rec rec' j : (forall x, le_res (rec x) (rec' x)) -> le_res (of_json_step rec j) (of_json_step rec' j).
Proof.
  intro H. unfold of_json_step. destruct j; try apply le_refl.
  destruct (nlookup k_type kv) as [[| | | |tpe| |]|]; try apply le_refl.
  destruct (name_class complex_type_names tpe) as [c|]; [|apply le_refl].
  destruct (String.eqb c "ArrayType").
  { destruct (nlookup k_elementType kv); [|apply le_refl]. apply le_bind; [apply H|]. intro. apply le_refl. }
  destruct (String.eqb c "MapType").
  { destruct (nlookup k_keyType kv); [|apply le_refl]. apply le_bind; [apply H|]. intro.
    destruct (nlookup k_valueType kv); [|apply le_refl]. apply le_bind; [apply H|]. intro. apply le_refl. }
  destruct (String.eqb c "StructType"); [|apply le_refl].
  destruct (nlookup k_fields kv) as [[| | | |[|]|l|[|]]|]; try apply le_refl.
  apply le_bind; [|intro; apply le_refl]. apply le_mapM. intro. apply le_field. exact H.
Qed.

Lemma of_json_mono : forall f f' j, (f <= f')%nat -> le_res (of_json f j) (of_json f' j).
Proof.
  induction f as [|f IH]; intros f' j Hle; [now left|].
  destruct f' as [|f']; [inversion Hle|]. cbn [of_json]. apply le_step. intro x. apply IH. lia.
Qed.

Lemma parse_type_string_nofuel s : parse_type_string s <> Err EFuel.
Proof.
  unfold parse_type_string. destruct (name_class atomic_type_names s) as [c|].
  - unfold dtype_of_class. destruct (String.eqb c "DecimalType"); [discriminate|].
    destruct (class_atomic c); discriminate.
  - destruct (match_fixed_decimal s) as [[? ?]|]; discriminate.
Qed.

Lemma nlookup_depth k kv v : nlookup k kv = Some v -> (jdepth v < jdepth (JObj kv))%nat.
Proof.
  cbn [jdepth]. induction kv as [|[k' v'] kv IH]; simpl; [discriminate|].
  destruct (str_eqb k k'); intro H.
  - injection H as ->. lia.
  - specialize (IH H). lia.
Qed.

Lemma in_depth x l : In x l -> (jdepth x < jdepth (JArr l))%nat.
Proof. intro H. cbn [jdepth]. pose proof (fold_max_le jdepth l x H). lia. Qed.

Lemma bind_nofuel {A B} (a : res A) (k : A -> res B) :
  a <> Err EFuel -> (forall x, k x <> Err EFuel) -> bind a k <> Err EFuel.
Proof. intros Ha Hk. destruct a as [x|e]; simpl; [apply Hk|]. intro E. apply Ha. congruence. Qed.

Lemma mapM_nofuel {A B} (g : A -> res B) l :
  (forall x, In x l -> g x <> Err EFuel) -> mapM g l <> Err EFuel.
Proof.
  induction l as [|x l IH]; intro H; simpl; [discriminate|].
  apply bind_nofuel; [apply H; now left|]. intro y.
  apply bind_nofuel; [apply IH; intros; apply H; now right|]. discriminate.
Qed.

Lemma field_nofuel rec f :
  (forall x, (jdepth x < jdepth f)%nat -> rec x <> Err EFuel) -> field_of_json rec f <> Err EFuel.
Proof.
  intro H. unfold field_of_json. destruct f; try discriminate.
  destruct (nlookup k_name kv) as [nm|]; [|discriminate].
  destruct (nlookup k_type kv) as [tj|] eqn:Et; [|discriminate].
  apply bind_nofuel; [apply H; eapply nlookup_depth; exact Et|]. intro ty.
  destruct (nlookup k_nullable kv) as [nl|]; [|discriminate].
  destruct (nlookup k_metadata kv) as [md|]; [|discriminate].
  destruct nm; try discriminate. destruct nl; try discriminate.
  destruct (json_falsy md); [discriminate|]. destruct md; discriminate.
Qed.

Lemma step_nofuel rec j :
  (forall x, (S (jdepth x) < jdepth j)%nat \/ (jdepth x < jdepth j)%nat -> rec x <> Err EFuel) ->
  (forall x y, (jdepth x < jdepth y)%nat -> (jdepth y < jdepth j)%nat -> rec x <> Err EFuel) ->
  of_json_step rec j <> Err EFuel.
Proof.
  intros H H2. unfold of_json_step. destruct j; try discriminate.
  - apply parse_type_string_nofuel.
  - destruct (nlookup k_type kv) as [[| | | |tpe| |]|]; try discriminate.
    destruct (name_class complex_type_names tpe) as [c|].
    2:{ destruct (str_eqb tpe n_udt); [|discriminate]. destruct (nlookup k_pyClass kv); discriminate. }
    destruct (String.eqb c "ArrayType").
    { destruct (nlookup k_elementType kv) as [ej|] eqn:E; [|discriminate].
      apply bind_nofuel; [apply H; right; eapply nlookup_depth; exact E|]. intro e.
      destruct (nlookup k_containsNull kv) as [[]|]; discriminate. }
    destruct (String.eqb c "MapType").
    { destruct (nlookup k_keyType kv) as [kj|] eqn:E; [|discriminate].
      apply bind_nofuel; [apply H; right; eapply nlookup_depth; exact E|]. intro k.
      destruct (nlookup k_valueType kv) as [vj|] eqn:E2; [|discriminate].
      apply bind_nofuel; [apply H; right; eapply nlookup_depth; exact E2|]. intro v.
      destruct (nlookup k_valueContainsNull kv) as [[]|]; discriminate. }
    destruct (String.eqb c "StructType"); [|discriminate].
    destruct (nlookup k_fields kv) as [[| | | |[|]|l|[|]]|] eqn:E; try discriminate.
    apply bind_nofuel; [|discriminate]. apply mapM_nofuel. intros f Hin.
    apply field_nofuel. intros x Hx. apply (H2 x f Hx).
    pose proof (in_depth _ _ Hin). pose proof (nlookup_depth _ _ _ E). lia.
Qed.

Lemma of_json_fuel_enough : forall f j, (jdepth j < f)%nat -> of_json f j <> Err EFuel.
Proof.
  induction f as [|f IH]; intros j Hj; [inversion Hj|]. cbn [of_json].
  apply step_nofuel.
  - intros x [Hx|Hx]; apply IH; lia.
  - intros x y Hx Hy. apply IH. lia.
Qed.

Lemma parse_json_value_nofuel j : parse_json_value j <> Err EFuel.
Proof. apply of_json_fuel_enough. lia. Qed.

Lemma parse_complete j t f : of_json f j = Ok t -> parse_json_value j = Ok t.
Proof.
  intro H. unfold parse_json_value.
  pose proof (parse_json_value_nofuel j) as Hn. unfold parse_json_value in Hn.
  set (F := Nat.max f (S (jdepth j))).
  destruct (of_json_mono f F j ltac:(lia)) as [E|E]; [congruence|].
  destruct (of_json_mono (S (jdepth j)) F j ltac:(lia)) as [E'|E']; [congruence|].
  congruence.
Qed.

Theorem json_roundtrip t : parse_json_value (to_json t) = Ok t.
Proof. apply (parse_complete _ _ (S (tdepth t))). apply of_json_to_json. lia. Qed.

(* ---------- through the JSON text: json.dumps(sort_keys=True) reorders every object *)
Lemma jsort_obj m : jsort (JObj m) = JObj (sort_meta m).
Proof. reflexivity. Qed.

Lemma mapM_map_ok2 {A B C} (g : B -> res C) (h : A -> B) (k : A -> C) (l : list A) :
  Forall (fun x => g (h x) = Ok (k x)) l -> mapM g (map h l) = Ok (map k l).
Proof. induction 1 as [|x l Hx _ IH]; simpl; [reflexivity|]. now rewrite Hx, IH. Qed.

Definition tsort_field (f : sfield dtype) : sfield dtype :=
  match f with SField n ty nl m => SField n (tsort ty) nl (sort_meta m) end.

Lemma field_roundtrip_sorted rec n ty nl m :
  rec (jsort (to_json ty)) = Ok (tsort ty) ->
  field_of_json rec (jsort (field_json (SField n ty nl m))) = Ok (tsort_field (SField n ty nl m)).
Proof.
  intro H.
  change (jsort (field_json (SField n ty nl m)))
    with (JObj [(k_metadata, jsort (JObj m)); (k_name, JStr n); (k_nullable, JBool nl); (k_type, jsort (to_json ty))]).
  rewrite jsort_obj. unfold field_of_json.
  change (nlookup k_name _) with (Some (JStr n)).
  change (nlookup k_type _) with (Some (jsort (to_json ty))).
  change (nlookup k_nullable _) with (Some (JBool nl)).
  change (nlookup k_metadata _) with (Some (JObj (sort_meta m))).
  cbv iota beta. rewrite H. simpl bind. cbv iota beta. unfold tsort_field.
  destruct (sort_meta m) as [|e m']; reflexivity.
Qed.

Lemma of_json_sorted : forall t fuel, (tdepth t < fuel)%nat -> of_json fuel (jsort (to_json t)) = Ok (tsort t).
Proof.
  induction t as [a|p s|e b IHe|k v b IHk IHv|fs IH] using dtype_ind'; intros fuel Hf;
    (destruct fuel as [|fuel]; [inversion Hf|]).
  - apply parse_atom_name.
  - apply parse_decimal_str.
  - simpl in Hf.
    change (jsort (to_json (TArray e b)))
      with (JObj [(k_containsNull, JBool b); (k_elementType, jsort (to_json e)); (k_type, JStr (complex_name "ArrayType"))]).
    cbn [of_json tsort]. unfold of_json_step.
    change (nlookup k_type _) with (Some (JStr (complex_name "ArrayType"))).
    cbv iota beta. change (name_class complex_type_names (complex_name "ArrayType")) with (Some "ArrayType"%string).
    cbv iota beta. change (String.eqb "ArrayType" "ArrayType") with true. cbv iota.
    change (nlookup k_elementType _) with (Some (jsort (to_json e))). cbv iota beta.
    rewrite IHe by lia. simpl bind.
    change (nlookup k_containsNull _) with (Some (JBool b)). reflexivity.
  - simpl in Hf.
    change (jsort (to_json (TMap k v b)))
      with (JObj [(k_keyType, jsort (to_json k)); (k_type, JStr (complex_name "MapType"));
                  (k_valueContainsNull, JBool b); (k_valueType, jsort (to_json v))]).
    cbn [of_json tsort]. unfold of_json_step.
    change (nlookup k_type _) with (Some (JStr (complex_name "MapType"))).
    cbv iota beta. change (name_class complex_type_names (complex_name "MapType")) with (Some "MapType"%string).
    cbv iota beta. change (String.eqb "MapType" "ArrayType") with false.
    change (String.eqb "MapType" "MapType") with true. cbv iota.
    change (nlookup k_keyType _) with (Some (jsort (to_json k))). cbv iota beta.
    rewrite IHk by lia. simpl bind.
    change (nlookup k_valueType _) with (Some (jsort (to_json v))). cbv iota beta.
    rewrite IHv by lia. simpl bind.
    change (nlookup k_valueContainsNull _) with (Some (JBool b)). reflexivity.
  - change (jsort (to_json (TStruct fs)))
      with (JObj [(k_fields, JArr (map jsort (map field_json fs))); (k_type, JStr (complex_name "StructType"))]).
    cbn [of_json]. unfold of_json_step.
    change (nlookup k_type _) with (Some (JStr (complex_name "StructType"))).
    cbv iota beta. change (name_class complex_type_names (complex_name "StructType")) with (Some "StructType"%string).
    cbv iota beta. change (String.eqb "StructType" "ArrayType") with false.
    change (String.eqb "StructType" "MapType") with false.
    change (String.eqb "StructType" "StructType") with true. cbv iota.
    change (nlookup k_fields _) with (Some (JArr (map jsort (map field_json fs)))). cbv iota beta.
    rewrite map_map.
    rewrite (mapM_map_ok2 _ _ tsort_field); [reflexivity|].
    rewrite Forall_forall in IH |- *. intros [n ty nl m] Hin.
    apply field_roundtrip_sorted. apply (IH _ Hin).
    change (tdepth (TStruct fs)) with (S (fold_right (fun f m => Nat.max (tdepth (sf_ty f)) m) O fs)) in Hf.
    pose proof (fold_max_le (fun f => tdepth (sf_ty f)) fs _ Hin) as Hle. cbv beta in Hle.
    change (sf_ty (SField n ty nl m)) with ty in Hle |- *. lia.
Qed.

Theorem json_string_roundtrip t : parse_json_string_of t = Ok (tsort t).
Proof. apply (parse_complete _ _ (S (tdepth t))). apply of_json_sorted. lia. Qed.

(* ---------- link between the regenerated tables and the constants the model is written with *)
Lemma tables_link :
  fixed_decimal_pattern = lit "decimal\(\s*(\d+)\s*,\s*(-?\d+)\s*\)" /\
  slookup "ArrayType" json_keys = Some ([k_type; k_elementType; k_containsNull], [k_containsNull; k_elementType]) /\
  slookup "MapType" json_keys = Some ([k_type; k_keyType; k_valueType; k_valueContainsNull],
                                      [k_keyType; k_valueContainsNull; k_valueType]) /\
  slookup "StructField" json_keys = Some ([k_name; k_type; k_nullable; k_metadata],
                                          [k_metadata; k_name; k_nullable; k_type]) /\
  slookup "StructType" json_keys = Some ([k_type; k_fields], [k_fields]).
Proof. repeat split; reflexivity. Qed.

Lemma tables_link_atoms :
  (forall a, In (atomic_class a, atom_name a) atomic_type_names) /\
  List.length atomic_type_names = 13%nat /\
  map fst complex_type_names = ["ArrayType"; "MapType"; "StructType"]%string /\
  nocheck_types = ["StringType"]%string /\ plain_checked_types = [] /\
  need_conversion_const = [("DataType", false); ("DateType", false); ("TimestampType", true);
                           ("StructType", true); ("UserDefinedType", true)]%string.
Proof.
  repeat split; try reflexivity.
  intro a. destruct a; vm_compute; tauto.
Qed.
