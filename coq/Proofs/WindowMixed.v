(* C11 -- a stateful stream registered AFTER a stream that raises in the tick callback loses batches:
   the full statement "wherever the stateful stream is registered" is false of the model (and of the
   implementation: replay corpus/C11/finding_count_then_state.json). *)
From Coq Require Import ZArith NArith Bool String List Lia.
Require Import PV.Base.Val PV.Gen.Window PV.Model.Window PV.Proofs.Window PV.Proofs.WindowState.
Import ListNotations.
Open Scope Z_scope.
Open Scope list_scope.

(* streams only refer to streams registered before them *)
Definition parent_before (j : nat) (nd : node) : Prop :=
  match nd with
  | Src _ => True
  | Trans _ p | Window _ _ p | Stateful _ p => (p < j)%nat
  end.

Definition state_spec_any_position : Prop :=
  forall (g : list node) (i : nat) (u : list val -> val -> val) (kq : list (list (Z * val))) (ts : list Z),
    nth_error g 0 = Some (Src (enc_queue kq)) -> nth_error g i = Some (Stateful u 0) ->
    (forall j nd, nth_error g j = Some nd -> parent_before j nd) ->
    increasing 0 ts -> (0 < length ts)%nat ->
    rdd_of (final g ts) i = RData (map enc_kv (state_after u kq (length ts))).

Definition witness_kq : list (list (Z * val)) := [[(0, VInt 1)]].
Definition witness_graph : list node := prog_count_state (enc_queue witness_kq) 1 2 u_sum 1.

Lemma witness_well_formed : forall j nd, nth_error witness_graph j = Some nd -> parent_before j nd.
Proof.
  intros j nd H. do 8 (destruct j as [|j]; [inversion H; subst; cbn; lia|]).
  cbn in H. destruct j; discriminate.
Qed.

(* after interval 2 the state RDD is empty although key 0 was in the batch of interval 1 *)
Lemma witness_state :
  rdd_of (final witness_graph [1; 2]) 6 = RData [] /\
  snd (run_graph witness_graph [1; 2]) = [Some "AttributeError"%string; None] /\
  RData (map enc_kv (state_after u_sum witness_kq 2)) = RData [VTup [VInt 0; VInt 1]].
Proof. vm_compute. repeat split. Qed.

Lemma state_spec_any_position_refuted : ~ state_spec_any_position.
Proof.
  intros H.
  specialize (H witness_graph 6%nat u_sum witness_kq [1; 2] eq_refl eq_refl witness_well_formed).
  assert (Hinc : increasing 0 [1; 2]) by (cbn; repeat split; reflexivity).
  specialize (H Hinc ltac:(cbn; lia)).
  destruct witness_state as (E1 & _ & E3). rewrite E1 in H. cbn [length] in H. rewrite E3 in H. discriminate.
Qed.
