(* Lemmas about the cast model (C18). *)
From Coq Require Import ZArith NArith List Bool String Lia.
Require Import PV.Base.Val PV.Gen.Casts PV.Model.Cast.
Import ListNotations.
Open Scope Z_scope.

(* ---- the regenerated modular-reduction kernel is two's-complement wrap-around *)
Lemma cast_wrap_range lo hi v :
  lo <= 0 <= hi -> lo <= cast_wrap lo hi v <= hi.
Proof.
  intros H. unfold cast_wrap.
  set (size := hi - lo + 1). assert (Hs : 0 < size) by (unfold size; lia).
  pose proof (Z.mod_pos_bound v size Hs) as Hr.
  destruct (Z.leb_spec (v mod size) hi) as [Hle|Hgt].
  - lia.
  - assert (Hnz : v mod size <> 0) by lia.
    rewrite (Z.mod_opp_r_nz v size) by lia. unfold size in *. lia.
Qed.

Lemma cast_wrap_congr lo hi v :
  lo <= 0 <= hi -> (cast_wrap lo hi v - v) mod (hi - lo + 1) = 0.
Proof.
  intros H. unfold cast_wrap.
  set (size := hi - lo + 1). assert (Hs : 0 < size) by (unfold size; lia).
  pose proof (Z.mod_pos_bound v size Hs) as Hr.
  destruct (Z.leb_spec (v mod size) hi) as [Hle|Hgt].
  - rewrite Zminus_mod, Z.mod_mod, Z.sub_diag by lia. reflexivity.
  - assert (Hnz : v mod size <> 0) by lia.
    rewrite (Z.mod_opp_r_nz v size) by lia.
    replace (v mod size - size - v) with (v mod size - v + (-1) * size) by ring.
    rewrite Z.mod_add by lia.
    rewrite Zminus_mod, Z.mod_mod, Z.sub_diag by lia. reflexivity.
Qed.

(* uniqueness: the only representative of v's residue class inside [lo, hi] *)
Lemma wrap_unique lo hi v r :
  lo <= 0 <= hi -> lo <= r <= hi -> (r - v) mod (hi - lo + 1) = 0 -> r = cast_wrap lo hi v.
Proof.
  intros H Hr Hc.
  pose proof (cast_wrap_range lo hi v H) as Hw.
  pose proof (cast_wrap_congr lo hi v H) as Hwc.
  set (size := hi - lo + 1) in *. assert (Hs : 0 < size) by (unfold size; lia).
  set (w := cast_wrap lo hi v) in *.
  assert (Hd : (r - w) mod size = 0).
  { replace (r - w) with ((r - v) - (w - v)) by ring.
    rewrite Zminus_mod, Hc, Hwc. reflexivity. }
  apply Z.mod_divide in Hd; [|lia]. destruct Hd as [k Hk].
  assert (- size < r - w < size) by (unfold size in *; lia).
  assert (k = 0) by nia. lia.
Qed.

Definition twos_complement (w : Z) (v r : Z) : Prop :=
  - 2 ^ (w - 1) <= r <= 2 ^ (w - 1) - 1 /\ (r - v) mod 2 ^ w = 0.

Lemma wrap_width lo hi w v :
  lo = - 2 ^ (w - 1) -> hi = 2 ^ (w - 1) - 1 -> 0 < w ->
  twos_complement w v (cast_wrap lo hi v).
Proof.
  intros -> -> Hw. unfold twos_complement.
  assert (Hp : 0 < 2 ^ (w - 1)) by (apply Z.pow_pos_nonneg; lia).
  assert (H2 : 2 ^ w = 2 * 2 ^ (w - 1)).
  { replace w with (1 + (w - 1)) at 1 by lia. rewrite Z.pow_add_r by lia. reflexivity. }
  split.
  - apply cast_wrap_range. lia.
  - pose proof (cast_wrap_congr (- 2 ^ (w - 1)) (2 ^ (w - 1) - 1) v) as H.
    replace (2 ^ (w - 1) - 1 - - 2 ^ (w - 1) + 1) with (2 ^ w) in H by lia.
    apply H. lia.
Qed.

Lemma byte_wrap v : twos_complement 8 v (cast_wrap byte_min byte_max v).
Proof. apply wrap_width; [reflexivity | reflexivity | lia]. Qed.
Lemma short_wrap v : twos_complement 16 v (cast_wrap short_min short_max v).
Proof. apply wrap_width; [reflexivity | reflexivity | lia]. Qed.
Lemma int_wrap v : twos_complement 32 v (cast_wrap int_min int_max v).
Proof. apply wrap_width; [reflexivity | reflexivity | lia]. Qed.
Lemma long_wrap v : twos_complement 64 v (cast_wrap long_min long_max v).
Proof. apply wrap_width; [reflexivity | reflexivity | lia]. Qed.

Definition width_of (t : ty) : option Z :=
  match t with TByte => Some 8 | TShort => Some 16 | TInt => Some 32 | TLong => Some 64 | _ => None end.

Lemma bounds_wrap t w lo hi v :
  width_of t = Some w -> bounds t = Some (lo, hi) -> twos_complement w v (cast_wrap lo hi v).
Proof.
  destruct t; simpl; intros Hw Hb; inversion Hw; inversion Hb; subst;
    [apply byte_wrap | apply short_wrap | apply int_wrap | apply long_wrap].
Qed.

(* ---- the dispatch *)
Definition integral_src (t : ty) : bool :=
  match t with TByte | TShort | TInt | TLong | TBool | TFloat | TDouble => true | _ => false end.

Lemma cast_int_to_integral from to w z :
  integral_src from = true -> width_of to = Some w -> ty_eqb from to = false ->
  exists r, cast from to (VInt z) = VInt r /\ twos_complement w z r.
Proof.
  intros Hs Hw Hne. unfold cast. rewrite Hne.
  destruct to; simpl in Hw; try discriminate;
    destruct from; simpl in Hs; try discriminate; simpl in Hne; try discriminate;
    simpl; eexists; (split; [reflexivity|]); inversion Hw; subst;
    first [apply byte_wrap | apply short_wrap | apply int_wrap | apply long_wrap].
Qed.

Lemma cast_bool_to_integral to w b :
  width_of to = Some w ->
  exists r, cast TBool to (VBool b) = VInt r /\ twos_complement w (if b then 1 else 0) r.
Proof.
  intros Hw. unfold cast.
  destruct to; simpl in Hw; try discriminate; simpl; eexists; (split; [reflexivity|]);
    inversion Hw; subst; first [apply byte_wrap | apply short_wrap | apply int_wrap | apply long_wrap].
Qed.

Lemma cast_float_to_integral from to w f z :
  (from = TFloat \/ from = TDouble) -> width_of to = Some w -> float_trunc f = Some z ->
  exists r, cast from to (VFloat f) = VInt r /\ twos_complement w z r.
Proof.
  intros Hf Hw Ht. unfold cast.
  destruct to; simpl in Hw; try discriminate;
    destruct Hf; subst; simpl; rewrite Ht; eexists; (split; [reflexivity|]);
    inversion Hw; subst; first [apply byte_wrap | apply short_wrap | apply int_wrap | apply long_wrap].
Qed.

Lemma cast_identity t v : cast t t v = v.
Proof. unfold cast. destruct t; reflexivity. Qed.

(* null in, null out -- or the caster pair does not exist at all (AnalysisException) *)
Lemma cast_null from to :
  cast from to VNone = VNone \/ cast from to VNone = VErr "AnalysisException".
Proof. destruct from, to; simpl; auto. Qed.

Lemma cast_null_supported from to :
  cast from to VNone <> VErr "AnalysisException" -> cast from to VNone = VNone.
Proof. intros Hn. destruct (cast_null from to); [assumption|contradiction]. Qed.

(* the only pairs for which a null raises are casts to date from a type that cannot be cast to date at
   all: every value of such a type (ints, booleans, floats) raises the same AnalysisException *)
Lemma cast_null_raises_only_if_no_such_cast from to :
  cast from to VNone = VErr "AnalysisException" ->
  to = TDate /\ from <> TString /\ from <> TDate /\
  forall v, (forall s, v <> VStr s) -> (forall d, v <> VTup d) -> cast from to v = VErr "AnalysisException".
Proof.
  destruct from, to; simpl; intros H; try discriminate;
    (split; [reflexivity|]); (split; [discriminate|]); (split; [discriminate|]);
    intros v Hs Hd; destruct v; try reflexivity;
    solve [exfalso; eapply Hs; reflexivity | exfalso; eapply Hd; reflexivity].
Qed.

(* ---- booleans and strings *)
Lemma cast_string_bool s :
  s <> [] ->
  cast TString TBool (VStr s) =
    if list_N_eqb (map lower_ascii s) str_true then VBool true
    else if list_N_eqb (map lower_ascii s) str_false then VBool false else VNone.
Proof. intros Hs. destruct s; [contradiction|reflexivity]. Qed.

Lemma bool_string_roundtrip b :
  cast TString TBool (cast TBool TString (VBool b)) = VBool b.
Proof. destruct b; reflexivity. Qed.

(* every letter-case variant of "true"/"false" is recognised: finite check, lifted *)
Fixpoint variants (s : list N) : list (list N) :=
  match s with
  | [] => [[]]
  | c :: s' => let r := variants s' in
               map (cons c) r ++ map (cons (c - 32)%N) r
  end.

Lemma true_variants : forall s, In s (variants str_true) -> cast TString TBool (VStr s) = VBool true.
Proof.
  assert (H : forallb (fun s => val_eqb (cast TString TBool (VStr s)) (VBool true)) (variants str_true) = true)
    by (vm_compute; reflexivity).
  rewrite forallb_forall in H. intros s Hs. specialize (H s Hs).
  destruct (cast TString TBool (VStr s)) as [| [] | | | | | |]; simpl in H; try discriminate; reflexivity.
Qed.

Lemma false_variants : forall s, In s (variants str_false) -> cast TString TBool (VStr s) = VBool false.
Proof.
  assert (H : forallb (fun s => val_eqb (cast TString TBool (VStr s)) (VBool false)) (variants str_false) = true)
    by (vm_compute; reflexivity).
  rewrite forallb_forall in H. intros s Hs. specialize (H s Hs).
  destruct (cast TString TBool (VStr s)) as [| [] | | | | | |]; simpl in H; try discriminate; reflexivity.
Qed.

(* string -> integral: in range gives the integer, out of range gives null *)
Lemma cast_string_integral to lo hi s z :
  bounds to = Some (lo, hi) -> s <> [] -> py_int_of_str s = Some z ->
  cast TString to (VStr s) = if (lo <=? z) && (z <=? hi) then VInt z else VNone.
Proof.
  intros Hb Hs Hz. unfold cast.
  destruct to; simpl in Hb; try discriminate; simpl; inversion Hb; subst;
    destruct s; try contradiction; unfold cast_bounded; rewrite Hz; reflexivity.
Qed.

(* ---- dates *)
Lemma days_in_month_range y m : 28 <= days_in_month y m <= 31.
Proof. unfold days_in_month. repeat match goal with |- context [if ?c then _ else _] => destruct c end; lia. Qed.

Lemma valid_date_spec y m d :
  valid_date y m d = true <->
  1 <= y <= 9999 /\ 1 <= m <= 12 /\ 1 <= d <= days_in_month y m.
Proof. unfold valid_date. rewrite !andb_true_iff, !Z.leb_le. tauto. Qed.
