(* C17: facts that hold in EVERY instance of the arithmetic (R and IEEE floats alike): counts are exact, a dataset whose
   partitions are all empty yields the empty counter, the three size-ratio branches as they stand in the kernel;
   and what the float instance shows for an empty dataset. *)
From Coq Require Import String ZArith List Lia Bool.
From Coq Require Import PrimFloat.
Require Import PV.Base.Val PV.Base.Num PV.Base.SqrtOps.
Require Import PV.Gen.StatCounter PV.Gen.Covariance PV.Model.Stats.
Import ListNotations.
Open Scope Z_scope.

Section Generic.
Context {N : NumOps} {S : SqrtOps N}.

Lemma sc_add_n (s : sc) v : sc_n (sc_add s v) = sc_n s + 1.
Proof. destruct s. reflexivity. Qed.

Lemma sc_comb_n (a b : sc) : sc_n (sc_comb a b) = sc_n a + sc_n b.
Proof.
  destruct a as [n1 mu1 m21 mx1 mn1], b as [n2 mu2 m22 mx2 mn2].
  unfold sc_comb, sc_of5, sc_mergeStats. cbn [sc_n sc_mu sc_m2 sc_max sc_min].
  destruct (Z.eqb_spec n1 0) as [E1|E1]; [cbn; lia|].
  destruct (Z.eqb_spec n2 0) as [E2|E2]; cbn [negb]; cbn; lia.
Qed.

Lemma fold_add_n xs : forall s : sc, sc_n (fold_left sc_add xs s) = sc_n s + Z.of_nat (length xs).
Proof.
  induction xs as [|x xs IH]; intros s; cbn [fold_left length].
  - lia.
  - rewrite IH, sc_add_n. lia.
Qed.

(* count is exact in EVERY instance of the arithmetic (in particular for IEEE floats, NaN and infinities included) *)
Lemma tree_count ninf pinf t : st_count (tree_stats ninf pinf t) = Z.of_nat (length (tdata t)).
Proof.
  unfold st_count. induction t as [xs | l IHl r IHr | t IH]; cbn [tree_stats tdata].
  - unfold sc_of_list. rewrite fold_add_n. reflexivity.
  - rewrite sc_comb_n, IHl, IHr, app_length. lia.
  - unfold sc_comb_self. rewrite sc_comb_n, IH, app_length. lia.
Qed.

(* max / min involve no arithmetic: in every instance the result is one of the data (or the sentinel) *)
Lemma fmax_cases (a b : F) : fmax a b = a \/ fmax a b = b.
Proof. unfold fmax. destruct (fltb a b); [right | left]; reflexivity. Qed.
Lemma fmin_cases (a b : F) : fmin a b = a \/ fmin a b = b.
Proof. unfold fmin. destruct (fltb b a); [right | left]; reflexivity. Qed.

Lemma sc_comb_max_cases (a b : sc) : sc_max (sc_comb a b) = sc_max a \/ sc_max (sc_comb a b) = sc_max b.
Proof.
  destruct a as [n1 mu1 m21 mx1 mn1], b as [n2 mu2 m22 mx2 mn2].
  unfold sc_comb, sc_of5, sc_mergeStats. cbn [sc_n sc_mu sc_m2 sc_max sc_min].
  destruct (Z.eqb_spec n1 0) as [E1|E1]; [right; reflexivity|].
  destruct (Z.eqb_spec n2 0) as [E2|E2]; cbn [negb]; [left; reflexivity|].
  cbn [sc_max]. apply fmax_cases.
Qed.
Lemma sc_comb_min_cases (a b : sc) : sc_min (sc_comb a b) = sc_min a \/ sc_min (sc_comb a b) = sc_min b.
Proof.
  destruct a as [n1 mu1 m21 mx1 mn1], b as [n2 mu2 m22 mx2 mn2].
  unfold sc_comb, sc_of5, sc_mergeStats. cbn [sc_n sc_mu sc_m2 sc_max sc_min].
  destruct (Z.eqb_spec n1 0) as [E1|E1]; [right; reflexivity|].
  destruct (Z.eqb_spec n2 0) as [E2|E2]; cbn [negb]; [left; reflexivity|].
  cbn [sc_min]. apply fmin_cases.
Qed.

Lemma fold_add_max_in xs : forall (s : sc) l, In (sc_max s) l -> In (sc_max (fold_left sc_add xs s)) (l ++ xs).
Proof.
  induction xs as [|x xs IH]; intros s l H; cbn [fold_left].
  - rewrite app_nil_r. exact H.
  - replace (l ++ x :: xs) with ((l ++ [x]) ++ xs) by (rewrite <- app_assoc; reflexivity).
    apply IH. destruct s as [n mu m2 mx mn]. cbn [sc_max] in *. unfold sc_add, sc_of5, sc_merge. cbn [sc_max sc_n sc_mu sc_m2 sc_min].
    apply in_or_app. destruct (fmax_cases mx x) as [->| ->]; [left; exact H | right; left; reflexivity].
Qed.
Lemma fold_add_min_in xs : forall (s : sc) l, In (sc_min s) l -> In (sc_min (fold_left sc_add xs s)) (l ++ xs).
Proof.
  induction xs as [|x xs IH]; intros s l H; cbn [fold_left].
  - rewrite app_nil_r. exact H.
  - replace (l ++ x :: xs) with ((l ++ [x]) ++ xs) by (rewrite <- app_assoc; reflexivity).
    apply IH. destruct s as [n mu m2 mx mn]. cbn [sc_min] in *. unfold sc_add, sc_of5, sc_merge. cbn [sc_max sc_n sc_mu sc_m2 sc_min].
    apply in_or_app. destruct (fmin_cases mn x) as [->| ->]; [left; exact H | right; left; reflexivity].
Qed.

Lemma tree_max_min_in_data ninf pinf t :
  In (st_max (tree_stats ninf pinf t)) (ninf :: tdata t) /\ In (st_min (tree_stats ninf pinf t)) (pinf :: tdata t).
Proof.
  unfold st_max, st_min. induction t as [xs | l [IHl1 IHl2] r [IHr1 IHr2] | t [IH1 IH2]]; cbn [tree_stats tdata].
  - unfold sc_of_list. split.
    + apply (fold_add_max_in xs _ [ninf]). left. reflexivity.
    + apply (fold_add_min_in xs _ [pinf]). left. reflexivity.
  - split.
    + destruct (sc_comb_max_cases (tree_stats ninf pinf l) (tree_stats ninf pinf r)) as [->| ->].
      * destruct IHl1 as [E|I]; [left; exact E | right; apply in_or_app; left; exact I].
      * destruct IHr1 as [E|I]; [left; exact E | right; apply in_or_app; right; exact I].
    + destruct (sc_comb_min_cases (tree_stats ninf pinf l) (tree_stats ninf pinf r)) as [->| ->].
      * destruct IHl2 as [E|I]; [left; exact E | right; apply in_or_app; left; exact I].
      * destruct IHr2 as [E|I]; [left; exact E | right; apply in_or_app; right; exact I].
  - unfold sc_comb_self. split.
    + destruct (sc_comb_max_cases (tree_stats ninf pinf t) (tree_stats ninf pinf t)) as [->| ->];
        (destruct IH1 as [E|I]; [left; exact E | right; apply in_or_app; left; exact I]).
    + destruct (sc_comb_min_cases (tree_stats ninf pinf t) (tree_stats ninf pinf t)) as [->| ->];
        (destruct IH2 as [E|I]; [left; exact E | right; apply in_or_app; left; exact I]).
Qed.

Lemma sc_comb_empty_l ninf pinf (o : sc) : sc_comb (sc_empty ninf pinf) o = o.
Proof. destruct o. reflexivity. Qed.

Lemma rdd_stats_all_empty ninf pinf parts :
  Forall (fun p => p = []) parts -> rdd_stats ninf pinf parts = sc_empty ninf pinf.
Proof.
  unfold rdd_stats, aggregate. induction 1 as [|p ps Hp _ IH]; cbn [map fold_left].
  - reflexivity.
  - subst p. cbn [fold_left]. rewrite sc_comb_empty_l. exact IH.
Qed.

Lemma empty_stats ninf pinf parts :
  Forall (fun p => p = []) parts ->
  rdd_stats ninf pinf parts = sc_empty ninf pinf /\
  st_count (rdd_stats ninf pinf parts) = 0 /\
  st_variance (rdd_stats ninf pinf parts) = None /\ st_sampleVariance (rdd_stats ninf pinf parts) = None.
Proof. intros H. rewrite (rdd_stats_all_empty _ _ _ H). repeat split. Qed.

(* the three branches of the size-ratio split, as they stand in the regenerated kernel *)
Lemma sc_comb_mu_branches (a b : sc) :
  sc_n a <> 0 -> sc_n b <> 0 ->
  let delta := fsub (sc_mu b) (sc_mu a) in
  let n := fofZ (sc_n a + sc_n b) in
  sc_mu (sc_comb a b) =
    if sc_n b * 10 <? sc_n a then fadd (sc_mu a) (fdiv (fmul delta (fofZ (sc_n b))) n)
    else if sc_n a * 10 <? sc_n b then fsub (sc_mu b) (fdiv (fmul delta (fofZ (sc_n a))) n)
    else fdiv (fadd (fmul (sc_mu a) (fofZ (sc_n a))) (fmul (sc_mu b) (fofZ (sc_n b)))) n.
Proof.
  destruct a as [n1 mu1 m21 mx1 mn1], b as [n2 mu2 m22 mx2 mn2]. cbn [sc_n sc_mu]. intros E1 E2.
  unfold sc_comb, sc_of5, sc_mergeStats. cbn [sc_n sc_mu sc_m2 sc_max sc_min].
  destruct (Z.eqb_spec n1 0); [contradiction|]. destruct (Z.eqb_spec n2 0); [contradiction|]. cbn [negb].
  destruct (n2 * 10 <? n1); [reflexivity|]. destruct (n1 * 10 <? n2); reflexivity.
Qed.

(* covariance counter: count is exact in every instance *)
Lemma cc_step_n (c : cc) p : cc_n (cc_step c p) = cc_n c + 1.
Proof. destruct c. reflexivity. Qed.

Lemma cc_comb_n (a b : cc) : 0 <= cc_n b -> cc_n (cc_comb a b) = cc_n a + cc_n b.
Proof.
  destruct a as [n1 xa1 ya1 ck1 kx1 ky1], b as [n2 xa2 ya2 ck2 kx2 ky2]. cbn [cc_n]. intros H.
  unfold cc_comb, cc_of6, cc_merge. cbn [cc_n cc_xavg cc_yavg cc_ck cc_mkx cc_mky].
  destruct (Z.ltb_spec 0 n2); cbn; lia.
Qed.

Lemma fold_step_n ps : forall c : cc, cc_n (fold_left cc_step ps c) = cc_n c + Z.of_nat (length ps).
Proof.
  induction ps as [|p ps IH]; intros c; cbn [fold_left length].
  - lia.
  - rewrite IH, cc_step_n. lia.
Qed.

Lemma cov_tree_count t : cc_n (tree_cov t) = Z.of_nat (length (tdata t)).
Proof.
  induction t as [ps | l IHl r IHr | t IH]; cbn [tree_cov tdata].
  - unfold cc_of_list. rewrite fold_step_n. reflexivity.
  - rewrite cc_comb_n, IHl, IHr, app_length; lia.
  - rewrite cc_comb_n, IH, app_length; lia.
Qed.

Lemma cc_comb_empty_r (c : cc) : cc_comb c cc_empty = c.
Proof. destruct c. reflexivity. Qed.

Lemma df_cov_all_empty parts : Forall (fun p => p = []) parts -> df_cov_helper parts = cc_empty.
Proof.
  unfold df_cov_helper, aggregate. induction 1 as [|p ps Hp _ IH]; cbn [map fold_left].
  - reflexivity.
  - subst p. cbn [fold_left]. rewrite cc_comb_empty_r. exact IH.
Qed.
End Generic.

(* the float instance: what Python shows for an empty dataset, whatever the number of (empty) partitions *)
Lemma empty_dataset_view parts :
  Forall (fun p => p = []) parts ->
  sc_view (rdd_stats neg_infinity infinity parts) =
  VTup [VInt 0; VFloat zero; VFloat zero; VFloat neg_infinity; VFloat infinity;
        VInt 0; VFloat zero; VFloat zero; VFloat infinity; VFloat neg_infinity;
        VFloat nan; VFloat nan; VFloat nan; VFloat nan].
Proof. intros H. rewrite (rdd_stats_all_empty _ _ _ H). vm_compute. reflexivity. Qed.

Lemma empty_dataframe_view parts :
  Forall (fun p => p = []) parts ->
  opt_val (cv_samp (@df_cov_helper FloatOps parts)) = VNone /\
  py_corr (@df_cov_helper FloatOps parts) = VErr "ZeroDivisionError".
Proof. intros H. rewrite (df_cov_all_empty _ H). vm_compute. split; reflexivity. Qed.
