(* C05 -- unpersist: the returned dataset has the same contents, and no entry of the dataset is left. *)
From Coq Require Import ZArith List Bool Lia.
Require Import PV.Model.Cache PV.Model.CacheSpec PV.Proofs.CacheStream PV.Proofs.CacheCorrect PV.Proofs.CacheWorld.
Import ListNotations.
Open Scope Z_scope.

Section Unpersist.
Variable A : Type.
Implicit Types (w : world A) (P : pipeline A) (m : mgr A) (st : state A).

Lemma delete_parts_keys : forall rid n i0 m k,
  has_key k (delete_parts rid n i0 m) <->
  has_key k m /\ ~ (fst k = rid /\ i0 <= snd k < i0 + Z.of_nat n).
Proof.
  induction n as [|n IH]; intros i0 m k; simpl delete_parts.
  - split; [intros H; split; auto; lia | tauto].
  - rewrite IH. unfold has_key, m_delete; simpl. rewrite dict_del_keys. destruct k as [r x]; simpl. split.
    + intros [[H1 H2] H3]. split; auto. intros [-> H4].
      destruct (Z.eq_dec x i0) as [->|Hne]; [congruence|]. apply H3; split; auto; lia.
    + intros [H1 H2]. split; [split; auto|].
      * intros E; inversion E; subst. apply H2; split; auto; lia.
      * intros [-> H4]. apply H2; split; auto; lia.
Qed.

Lemma firstn_S_nth : forall {X} (l : list X) n x, nth_error l n = Some x -> firstn (Datatypes.S n) l = firstn n l ++ [x].
Proof.
  induction l as [|a l IH]; intros [|n] x H; simpl in *; try discriminate.
  - inversion H; reflexivity.
  - f_equal. apply IH; auto.
Qed.

Lemma persist_node_contents : forall P j rid,
  nth_error (p_nodes P) j = Some (rid, SPersist) -> node_contents P (Datatypes.S j) = node_contents P j.
Proof.
  intros P j rid H. unfold node_contents, rev_prefix. rewrite (firstn_S_nth _ _ _ H), rev_app_distr. reflexivity.
Qed.

(* in every reachable state: acting on the dataset unpersist() returned gives what acting on the
   persisted dataset gives, namely the cache-free result *)
Theorem unpersist_same_contents : forall w tos h k j rid P ak,
  built w -> wf_world w (length tos) ->
  nth_error (w_pipes w) k = Some P -> nth_error (p_nodes P) j = Some (rid, SPersist) ->
  let st := final_state w (init_state A tos) h in
  fst (fst (step w st (Unpersist k (Datatypes.S j)))) = RNode j (concat (node_contents P (Datatypes.S j))) /\
  fst (fst (step w st (Act k j ak))) = fst (fst (step w st (Act k (Datatypes.S j) ak))) /\
  fst (fst (step w st (Act k j ak))) = finish ak (node_contents P (Datatypes.S j)).
Proof.
  intros w tos h k j rid P ak Hb Hwf EP EN st.
  pose proof (built_ids_fresh A w Hb) as Hnd.
  assert (Hl : length (s_mgrs (init_state A tos)) = length tos) by (unfold init_state; simpl; apply map_length).
  destruct (history_ok A w h (init_state A tos) Hnd) as [Hok Hlen]; [rewrite Hl; auto | apply init_ok |].
  fold st in Hok, Hlen. rewrite Hl in Hlen.
  assert (Hwf' : wf_world w (length (s_mgrs st))) by (rewrite Hlen; auto).
  assert (Hj : (j < length (p_nodes P))%nat) by (apply nth_error_Some; congruence).
  pose proof (step_correct A w st (Unpersist k (Datatypes.S j)) Hnd Hwf' Hok) as [U _].
  pose proof (step_correct A w st (Act k j ak) Hnd Hwf' Hok) as [S1 _].
  pose proof (step_correct A w st (Act k (Datatypes.S j) ak) Hnd Hwf' Hok) as [S2 _].
  rewrite U, S1, S2. simpl. rewrite EP, EN.
  assert (E1 : (length (p_nodes P) <? j)%nat = false) by (apply Nat.ltb_ge; lia).
  assert (E2 : (length (p_nodes P) <? Datatypes.S j)%nat = false) by (apply Nat.ltb_ge; lia).
  rewrite E1, E2. rewrite (persist_node_contents P j rid EN). auto.
Qed.

(* in every reachable state: after unpersist() of a persisted dataset, the manager of its context has
   no entry whose key carries the id of that dataset *)
Theorem unpersist_no_entry : forall w tos h k j rid P cx,
  built w -> wf_world w (length tos) ->
  nth_error (w_pipes w) k = Some P -> nth_error (p_nodes P) j = Some (rid, SPersist) ->
  nth_error (w_ctxs w) (p_ctx P) = Some cx ->
  let st := final_state w (init_state A tos) h in
  let st' := snd (step w st (Unpersist k (Datatypes.S j))) in
  exists m', nth_error (s_mgrs st') (c_mgr cx) = Some m' /\ forall i, ~ has_key (rid, i) m'.
Proof.
  intros w tos h k j rid P cx Hb Hwf EP EN Ecx st st'.
  pose proof (built_ids_fresh A w Hb) as Hnd.
  assert (Hl : length (s_mgrs (init_state A tos)) = length tos) by (unfold init_state; simpl; apply map_length).
  destruct (history_ok A w h (init_state A tos) Hnd) as [Hok Hlen]; [rewrite Hl; auto | apply init_ok |].
  fold st in Hok, Hlen. rewrite Hl in Hlen.
  assert (HP : In P (w_pipes w)) by (eapply nth_error_In; eauto).
  unfold wf_world in Hwf. rewrite Forall_forall in Hwf. destruct (Hwf P HP) as [cx' [Ecx' Hlt]].
  rewrite Ecx in Ecx'. inversion Ecx'; subst cx'. rewrite <- Hlen in Hlt.
  destruct (nth_error_lt_Some _ _ Hlt) as [m Em].
  unfold st'. simpl. rewrite EP, Ecx, Em, EN. simpl.
  exists (delete_parts rid (length (p_parts P)) 0 m). split.
  - clear - Hlt. revert Hlt. generalize (s_mgrs st) (c_mgr cx).
    induction l as [|a l IH]; intros [|n] H; simpl in *; try lia; auto. apply IH; lia.
  - intros i Hk. apply delete_parts_keys in Hk. destruct Hk as [Hk Hn]. simpl in Hn.
    unfold has_key in Hk. apply in_map_iff in Hk. destruct Hk as [[k' [d t]] [E Hin]]. simpl in E; subst k'.
    pose proof (st_ok_nth A w st _ _ Hok Em) as Hm. apply Hm in Hin.
    destruct Hin as [P' [j' [idx [src [HP' [Hj' [Hi [Hs _]]]]]]]]. simpl in *.
    assert (P' = P).
    { eapply (concat_nodup_same (@pipe_ids A)); eauto; eapply node_id_in_pipe; eauto. }
    subst P'. apply Hn. split; auto. subst i.
    assert ((idx < length (p_parts P))%nat) by (apply nth_error_Some; congruence). lia.
Qed.

End Unpersist.
