(* C11 -- the windowed stream: specification vocabulary, the window instance of the generic invariant,
   window_spec and what consumers log. *)
From Coq Require Import ZArith NArith Bool String List Lia.
Require Import PV.Base.Val PV.Gen.Window PV.Model.Window PV.Proofs.Window.
Import ListNotations.
Open Scope Z_scope.
Open Scope list_scope.

(* ---------- specification vocabulary ---------- *)
Definition src_rdds (q : source) (n : nat) : list rdd := map (src_rdd q) (seq 0 n).
(* the last k elements *)
Definition lastn {A} (k : nat) (l : list A) : list A := skipn (length l - k) l.
(* window buffer after n intervals: the RDDs of the last min w n intervals *)
Definition win_buf (q : source) (w : Z) (n : nat) : list rdd := lastn (Z.to_nat w) (src_rdds q n).
Definition union_data (l : list rdd) : rdd :=
  if forallb is_empty_rdd l then REmpty else RData (concat (map collect l)).
(* the windowed stream's RDD after n intervals: the union at the last emitting interval, None before *)
Fixpoint win_rdd_spec (q : source) (w s : Z) (n : nat) : rdd :=
  match n with
  | O => RNone
  | S m => if Z.of_nat (S m) mod s =? 0 then union_data (win_buf q w (S m)) else win_rdd_spec q w s m
  end.
Definition win_state (q : source) (w s : Z) (n : nat) (T : Z) : nstate :=
  mkN T (win_rdd_spec q w s n) [] (win_buf q w n) (Z.of_nat n mod s) [].

(* ---------- lists ---------- *)
Lemma trim_spec w l : trim w l = lastn (Z.to_nat w) l.
Proof.
  unfold lastn. induction l as [|a tl IH]; [reflexivity|].
  cbn [trim]. unfold win_trim_cond.
  destruct (w <? Z.of_nat (length (a :: tl))) eqn:E.
  - apply Z.ltb_lt in E. rewrite IH. cbn [length] in *.
    replace (S (length tl) - Z.to_nat w)%nat with (S (length tl - Z.to_nat w))%nat by lia.
    reflexivity.
  - apply Z.ltb_ge in E. cbn [length] in *.
    replace (S (length tl) - Z.to_nat w)%nat with 0%nat by lia. reflexivity.
Qed.

Lemma src_rdds_length q n : length (src_rdds q n) = n.
Proof. unfold src_rdds. now rewrite map_length, seq_length. Qed.

Lemma src_rdds_S q n : src_rdds q (S n) = src_rdds q n ++ [src_rdd q n].
Proof. unfold src_rdds. rewrite seq_S, map_app. reflexivity. Qed.

Lemma lastn_length {A} k (l : list A) : length (lastn k l) = Nat.min k (length l).
Proof. unfold lastn. rewrite skipn_length. lia. Qed.

Lemma skipn_snoc {A} m (l : list A) x : (m <= length l)%nat -> skipn m (l ++ [x]) = skipn m l ++ [x].
Proof.
  intros H. rewrite skipn_app. replace (m - length l)%nat with 0%nat by lia. reflexivity.
Qed.

Lemma skipn_skipn' {A} a b (l : list A) : skipn a (skipn b l) = skipn (a + b) l.
Proof.
  revert l; induction b as [|b IH]; intros l.
  - now rewrite Nat.add_0_r.
  - destruct l as [|x l]; [now rewrite !skipn_nil|].
    rewrite Nat.add_succ_r. cbn [skipn]. apply IH.
Qed.

Lemma lastn_snoc {A} k (l : list A) x : lastn k (lastn k l ++ [x]) = lastn k (l ++ [x]).
Proof.
  unfold lastn. rewrite !app_length, skipn_length. cbn [length].
  rewrite <- skipn_snoc by lia.
  rewrite skipn_skipn'. f_equal. lia.
Qed.

Lemma win_buf_S q w n : trim w (win_buf q w n ++ [src_rdd q n]) = win_buf q w (S n).
Proof. unfold win_buf. rewrite trim_spec, src_rdds_S. apply lastn_snoc. Qed.

Lemma existsb_skipn {A} (f : A -> bool) n l : existsb f l = false -> existsb f (skipn n l) = false.
Proof.
  revert l; induction n as [|n IH]; intros [|x l] H; cbn [skipn]; auto.
  cbn [existsb] in H. apply orb_false_iff in H. apply IH, H.
Qed.

Lemma src_rdds_no_none q n : existsb is_none_rdd (src_rdds q n) = false.
Proof.
  unfold src_rdds. induction (seq 0 n) as [|i l IH]; [reflexivity|].
  cbn [map existsb]. now rewrite src_rdd_not_none, IH.
Qed.

Lemma win_buf_no_none q w n : existsb is_none_rdd (win_buf q w n) = false.
Proof. unfold win_buf, lastn. apply existsb_skipn, src_rdds_no_none. Qed.

Lemma union_no_none l : existsb is_none_rdd l = false -> union l = Ok (union_data l).
Proof. intros H. unfold union, union_data. rewrite H. destruct (forallb is_empty_rdd l); reflexivity. Qed.

Lemma counter_next n s : 0 < s -> win_counter_next (Z.of_nat n mod s) s = Z.of_nat (S n) mod s.
Proof.
  intros Hs. unfold win_counter_next. rewrite Nat2Z.inj_succ, <- Z.add_1_r.
  rewrite Z.add_mod_idemp_l by lia. reflexivity.
Qed.

Lemma window_post_state q w s n T t : 0 < s ->
  window_post w s (src_rdd q n) (set_time t (win_state q w s n T)) = (win_state q w s (S n) t, None).
Proof.
  intros Hs. unfold window_post, win_state, set_time; cbn [nqueue ntime nrdd nbuf nctr nkv].
  rewrite win_buf_S, counter_next by assumption.
  unfold win_skip, set_win, set_rdd; cbn [nqueue ntime nrdd nbuf nctr nkv].
  cbn [win_rdd_spec].
  destruct (Z.of_nat (S n) mod s =? 0) eqn:E; cbn [negb].
  - rewrite union_no_none by apply win_buf_no_none. reflexivity.
  - reflexivity.
Qed.


Section WindowInstance.
Variables (q : source) (w s : Z).
Hypothesis Hs : 0 < s.

Lemma win_S1_step : forall F tail st n T t,
  nth_error (gnodes st) 0 = Some (src_state q (S n) t) -> nth_error (gnodes st) 1 = Some (win_state q w s n T) ->
  T < t ->
  step (S (S F)) (Src q :: Window w s 0 :: tail) 1 t st = (put 1 (win_state q w s (S n) t) st, None).
Proof.
  intros F tail st n T t H0 H1 Ht.
  rewrite (step_window_go F (Src q :: Window w s 0 :: tail) 1 t st w s 0 _ (Src q) _ eq_refl H1 ltac:(cbn; lia) eq_refl H0 ltac:(cbn; lia)).
  replace (nrdd (src_state q (S n) t)) with (src_rdd q n) by reflexivity.
  now rewrite window_post_state.
Qed.

Lemma win_S1_init : init_node (Window w s 0) = win_state q w s 0 0.
Proof. reflexivity. Qed.

Definition win_two_steps tail :=
  tinv_two_steps q (Window w s 0) (win_state q w s) win_S1_step tail.
Definition win_tinv_init tail := tinv_init q (Window w s 0) (win_state q w s) win_S1_init tail.

Definition window_node_state tail :=
  node1_state q (Window w s 0) (win_state q w s) (fun n T => eq_refl) win_S1_init win_S1_step tail.
Definition window_rdd_after tail :=
  node1_rdd q (Window w s 0) (win_state q w s) (win_rdd_spec q w s) (fun n T => eq_refl) (fun n T => eq_refl)
            win_S1_init win_S1_step tail.
Definition window_program_log k :=
  consumers_log q (Window w s 0) (win_state q w s) (win_rdd_spec q w s) (fun n T => eq_refl) (fun n T => eq_refl)
                win_S1_init win_S1_step k.
End WindowInstance.

(* the batch of interval i+1: the elements of the (i+1)-th queue entry (none for an idle None entry), those of the default
   once the queue has run dry *)
Definition entry_batch (e : option (list val)) : list val := match e with Some b => b | None => [] end.
Definition batch_at (q : source) (i : nat) : list val := entry_batch (nth i (sq q) (sd q)).
Definition batches (q : source) (n : nat) : list (list val) := map (batch_at q) (seq 0 n).

Lemma collect_src_rdd q i : collect (src_rdd q i) = batch_at q i.
Proof. unfold src_rdd, batch_at. destruct (nth i (sq q) (sd q)); reflexivity. Qed.

Lemma map_collect_src_rdds q n : map collect (src_rdds q n) = batches q n.
Proof. unfold src_rdds, batches. rewrite map_map. apply map_ext. intros; apply collect_src_rdd. Qed.

Lemma map_skipn {A B} (f : A -> B) n l : map f (skipn n l) = skipn n (map f l).
Proof. revert l; induction n as [|n IH]; intros [|x l]; cbn; auto. Qed.

Lemma map_lastn {A B} (f : A -> B) k l : map f (lastn k l) = lastn k (map f l).
Proof. unfold lastn. now rewrite map_skipn, map_length. Qed.

Lemma concat_all_empty l : forallb is_empty_rdd l = true -> concat (map collect l) = [].
Proof.
  induction l as [|r l IH]; [reflexivity|]. cbn [forallb]. intros H. apply andb_true_iff in H as [H1 H2].
  destruct r; try discriminate. cbn. auto.
Qed.

Lemma collect_union_data l : collect (union_data l) = concat (map collect l).
Proof.
  unfold union_data. destruct (forallb is_empty_rdd l) eqn:E; [|reflexivity].
  now rewrite concat_all_empty.
Qed.

Lemma union_data_not_none l : union_data l <> RNone.
Proof. unfold union_data. destruct (forallb _ _); discriminate. Qed.

Lemma obs_union_data l : obs_of (union_data l) = Some (concat (map collect l)).
Proof.
  rewrite <- collect_union_data. pose proof (union_data_not_none l) as H.
  destruct (union_data l); [congruence|reflexivity|reflexivity].
Qed.

Lemma map_collect_win_buf q w n : map collect (win_buf q w n) = lastn (Z.to_nat w) (batches q n).
Proof. unfold win_buf. now rewrite map_lastn, map_collect_src_rdds. Qed.

(* contents of the window at an emitting interval: the last w batches, in order (fewer during start-up) *)
Lemma obs_window q w n : obs_of (union_data (win_buf q w n)) = Some (concat (lastn (Z.to_nat w) (batches q n))).
Proof. now rewrite obs_union_data, map_collect_win_buf. Qed.

Lemma lastn_batches_length q w n : length (lastn (Z.to_nat w) (batches q n)) = Nat.min (Z.to_nat w) n.
Proof. rewrite lastn_length. unfold batches. now rewrite map_length, seq_length. Qed.

Lemma win_rdd_spec_emit q w s n : Z.of_nat (S n) mod s = 0 ->
  win_rdd_spec q w s (S n) = union_data (win_buf q w (S n)).
Proof. intros H. cbn [win_rdd_spec]. now rewrite H. Qed.

Lemma win_rdd_spec_keep q w s n : Z.of_nat (S n) mod s <> 0 ->
  win_rdd_spec q w s (S n) = win_rdd_spec q w s n.
Proof. intros H. cbn [win_rdd_spec]. apply Z.eqb_neq in H. now rewrite H. Qed.

Lemma win_rdd_spec_early q w s n : Z.of_nat n < s -> win_rdd_spec q w s n = RNone.
Proof.
  induction n as [|n IH]; intros H; [reflexivity|].
  rewrite win_rdd_spec_keep.
  - apply IH. lia.
  - rewrite Z.mod_small by lia. lia.
Qed.

Lemma win_rdd_spec_late q w s n : 0 < s -> s <= Z.of_nat n -> win_rdd_spec q w s n <> RNone.
Proof.
  intros Hs. induction n as [|n IH]; intros H; [lia|].
  cbn [win_rdd_spec]. destruct (Z.of_nat (S n) mod s =? 0) eqn:E; [apply union_data_not_none|].
  apply IH. apply Z.eqb_neq in E.
  destruct (Z.eq_dec (Z.of_nat (S n)) s) as [Heq|Hne]; [|lia].
  rewrite Heq, Z_mod_same_full in E. congruence.
Qed.

Definition window_log (q : source) (w s : Z) (k n : nat) (ts : list Z) : list logentry :=
  cons_log (win_rdd_spec q w s) k n ts.

Section Statements.
Variables (q : source) (w s : Z) (tail : list node).
Hypothesis Hs : 0 < s.
Local Notation g := (Src q :: Window w s 0 :: tail).

(* window_spec, emitting intervals *)
Lemma window_spec_emits ts :
  increasing 0 ts -> (0 < length ts)%nat -> Z.of_nat (length ts) mod s = 0 ->
  obs_of (rdd_of (final g ts) 1) = Some (concat (lastn (Z.to_nat w) (batches q (length ts)))).
Proof.
  intros Hinc Hn Hmod. rewrite (window_rdd_after q w s Hs tail ts Hinc).
  destruct (length ts) as [|n]; [lia|]. rewrite win_rdd_spec_emit by assumption. apply obs_window.
Qed.

(* window_spec, other intervals: the stream's RDD is what it was *)
Lemma window_spec_unchanged ts t :
  increasing 0 (ts ++ [t]) -> Z.of_nat (S (length ts)) mod s <> 0 ->
  rdd_of (final g (ts ++ [t])) 1 = rdd_of (final g ts) 1.
Proof.
  intros Hinc Hmod. pose proof (proj1 (proj1 (increasing_app 0 ts [t]) Hinc)) as Hinc'.
  rewrite !(window_rdd_after q w s Hs tail) by assumption.
  rewrite app_length, Nat.add_1_r. now apply win_rdd_spec_keep.
Qed.

Lemma window_spec_before_first ts :
  increasing 0 ts -> Z.of_nat (length ts) < s -> rdd_of (final g ts) 1 = RNone.
Proof. intros Hinc Hn. rewrite (window_rdd_after q w s Hs tail ts Hinc). now apply win_rdd_spec_early. Qed.

(* the buffer holds each of the last min w n interval RDDs once, whatever is registered after the window *)
Lemma window_buffer ts ns :
  increasing 0 ts -> nth_error (gnodes (final g ts)) 1 = Some ns ->
  nbuf ns = lastn (Z.to_nat w) (src_rdds q (length ts)) /\ nctr ns = Z.of_nat (length ts) mod s
  /\ ntime ns = last ts 0.
Proof.
  intros Hinc H. rewrite (window_node_state q w s Hs tail ts Hinc) in H. inversion H; subst. cbn. auto.
Qed.
End Statements.

Lemma window_consumers q w s k : 0 < s -> forall ts, increasing 0 ts ->
  run_graph (prog_window q w s k) ts = (final (prog_window q w s k) ts, map (fun _ => None) ts) /\
  glog (final (prog_window q w s k) ts) = window_log q w s k 0 ts.
Proof. intros Hs ts Hinc. exact (window_program_log q w s Hs k ts Hinc). Qed.


(* ---------- closed form: consumers always see the window of the last emitting interval ---------- *)
(* the last emitting interval up to n: the largest multiple of s that is <= n *)
Definition last_emission (s : Z) (n : nat) : nat := Z.to_nat (Z.of_nat n - Z.of_nat n mod s).

Lemma last_emission_S_emit s n : 0 < s -> Z.of_nat (S n) mod s = 0 -> last_emission s (S n) = S n.
Proof. intros Hs H. unfold last_emission. rewrite H. lia. Qed.

Lemma mod_succ_nonzero s m : 0 < s -> 0 <= m -> (m + 1) mod s <> 0 -> (m + 1) mod s = m mod s + 1.
Proof.
  intros Hs Hm H.
  pose proof (Z.mod_pos_bound m s Hs) as B.
  destruct (Z.eq_dec (m mod s + 1) s) as [E|E].
  - exfalso. apply H. rewrite <- Z.add_mod_idemp_l by lia. rewrite E. apply Z_mod_same_full.
  - rewrite <- Z.add_mod_idemp_l by lia. apply Z.mod_small. lia.
Qed.

Lemma last_emission_S_keep s n : 0 < s -> Z.of_nat (S n) mod s <> 0 -> last_emission s (S n) = last_emission s n.
Proof.
  intros Hs H. unfold last_emission. rewrite Nat2Z.inj_succ, <- Z.add_1_r in *.
  rewrite (mod_succ_nonzero s (Z.of_nat n)) by lia. f_equal. lia.
Qed.

Lemma last_emission_zero_iff s n : 0 < s -> (last_emission s n = 0%nat <-> Z.of_nat n < s).
Proof.
  intros Hs. unfold last_emission.
  pose proof (Z.mod_pos_bound (Z.of_nat n) s Hs) as B.
  pose proof (Z.mod_le (Z.of_nat n) s ltac:(lia) Hs) as L.
  split.
  - intros H. destruct (Z.lt_ge_cases (Z.of_nat n) s) as [|Hge]; auto. exfalso.
    assert (E : Z.of_nat n - Z.of_nat n mod s = 0) by lia.
    assert (E2 : Z.of_nat n mod s = Z.of_nat n) by lia. lia.
  - intros H. rewrite Z.mod_small by lia. lia.
Qed.

(* closed form of the windowed stream's RDD: the window of the last emitting interval *)
Lemma win_rdd_spec_closed q w s n : 0 < s ->
  win_rdd_spec q w s n =
  if Z.of_nat n <? s then RNone else union_data (win_buf q w (last_emission s n)).
Proof.
  intros Hs. induction n as [|n IH].
  - cbn [win_rdd_spec]. destruct (Z.of_nat 0 <? s) eqn:E; [reflexivity|]. apply Z.ltb_ge in E. cbn in E. lia.
  - cbn [win_rdd_spec]. destruct (Z.of_nat (S n) mod s =? 0) eqn:E.
    + apply Z.eqb_eq in E. rewrite last_emission_S_emit by assumption.
      destruct (Z.of_nat (S n) <? s) eqn:E2; [|reflexivity].
      apply Z.ltb_lt in E2. rewrite Z.mod_small in E by lia. lia.
    + apply Z.eqb_neq in E. rewrite IH, last_emission_S_keep by assumption.
      destruct (Z.of_nat n <? s) eqn:E1; destruct (Z.of_nat (S n) <? s) eqn:E2; try reflexivity.
      * apply Z.ltb_lt in E1. apply Z.ltb_ge in E2. exfalso. apply E.
        assert (Z.of_nat (S n) = s) by lia. rewrite H. apply Z_mod_same_full.
      * apply Z.ltb_ge in E1. apply Z.ltb_lt in E2. lia.
Qed.

Lemma last_emission_spec s n : 0 < s ->
  (last_emission s n <= n)%nat /\ Z.of_nat (last_emission s n) mod s = 0 /\ Z.of_nat n - Z.of_nat (last_emission s n) < s.
Proof.
  intros Hs. unfold last_emission.
  pose proof (Z.mod_pos_bound (Z.of_nat n) s Hs) as B.
  pose proof (Z.mod_le (Z.of_nat n) s ltac:(lia) Hs) as L.
  rewrite Z2Nat.id by lia. repeat split; try lia.
  rewrite Zminus_mod_idemp_r, Z.sub_diag. apply Zmod_0_l.
Qed.
