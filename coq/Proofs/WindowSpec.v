(* C11 -- the windowed stream: specification vocabulary, the invariant of a run, what consumers log. *)
From Coq Require Import ZArith NArith Bool String List Lia.
Require Import PV.Base.Val PV.Gen.Window PV.Model.Window PV.Proofs.Window.
Import ListNotations.
Open Scope Z_scope.
Open Scope list_scope.

(* ---------- specification vocabulary ---------- *)
(* the RDD the queue source yields in interval i+1: the (i+1)-th queued batch, EmptyRDD once exhausted *)
Definition src_rdd (q : list (list val)) (i : nat) : rdd :=
  match nth_error q i with Some b => RData b | None => REmpty end.
Definition src_rdds (q : list (list val)) (n : nat) : list rdd := map (src_rdd q) (seq 0 n).
(* the last k elements *)
Definition lastn {A} (k : nat) (l : list A) : list A := skipn (length l - k) l.
(* window buffer after n intervals: the RDDs of the last min w n intervals *)
Definition win_buf (q : list (list val)) (w : Z) (n : nat) : list rdd := lastn (Z.to_nat w) (src_rdds q n).
Definition union_data (l : list rdd) : rdd :=
  if forallb is_empty_rdd l then REmpty else RData (concat (map collect l)).
(* the windowed stream's RDD after n intervals: the union at the last emitting interval, None before *)
Fixpoint win_rdd_spec (q : list (list val)) (w s : Z) (n : nat) : rdd :=
  match n with
  | O => RNone
  | S m => if Z.of_nat (S m) mod s =? 0 then union_data (win_buf q w (S m)) else win_rdd_spec q w s m
  end.

Definition src_state (q : list (list val)) (n : nat) (T : Z) : nstate :=
  mkN T (match n with O => RNone | S m => src_rdd q m end) (skipn n q) [] win_counter_init [].
Definition win_state (q : list (list val)) (w s : Z) (n : nat) (T : Z) : nstate :=
  mkN T (win_rdd_spec q w s n) [] (win_buf q w n) (Z.of_nat n mod s) [].

(* ---------- lists ---------- *)
Lemma skipn_step {A} n (q : list A) :
  match skipn n q with
  | [] => nth_error q n = None /\ skipn (S n) q = []
  | b :: r => nth_error q n = Some b /\ skipn (S n) q = r
  end.
Proof.
  revert q; induction n as [|n IH]; intros [|x q].
  - split; reflexivity.
  - split; reflexivity.
  - split; reflexivity.
  - exact (IH q).
Qed.

Lemma trim_spec w l : trim w l = lastn (Z.to_nat w) l.
Proof.
  unfold lastn. induction l as [|a tl IH]; [reflexivity|].
  cbn [trim]. unfold win_trim_cond.
  destruct (w <? Z.of_nat (length (a :: tl))) eqn:E.
  - apply Z.ltb_lt in E. rewrite IH. cbn [length] in *.
    replace (S (length tl) - Z.to_nat w)%nat with (S (length tl - Z.to_nat w))%nat by lia.
    reflexivity.
  - apply Z.ltb_ge in E. cbn [length] in *.
    replace (S (length tl) - Z.to_nat w)%nat with 0%nat by lia. reflexivity.
Qed.

Lemma src_rdds_length q n : length (src_rdds q n) = n.
Proof. unfold src_rdds. now rewrite map_length, seq_length. Qed.

Lemma src_rdds_S q n : src_rdds q (S n) = src_rdds q n ++ [src_rdd q n].
Proof. unfold src_rdds. rewrite seq_S, map_app. reflexivity. Qed.

Lemma lastn_length {A} k (l : list A) : length (lastn k l) = Nat.min k (length l).
Proof. unfold lastn. rewrite skipn_length. lia. Qed.

Lemma skipn_snoc {A} m (l : list A) x : (m <= length l)%nat -> skipn m (l ++ [x]) = skipn m l ++ [x].
Proof.
  intros H. rewrite skipn_app. replace (m - length l)%nat with 0%nat by lia. reflexivity.
Qed.

Lemma skipn_skipn' {A} a b (l : list A) : skipn a (skipn b l) = skipn (a + b) l.
Proof.
  revert l; induction b as [|b IH]; intros l.
  - now rewrite Nat.add_0_r.
  - destruct l as [|x l]; [now rewrite !skipn_nil|].
    rewrite Nat.add_succ_r. cbn [skipn]. apply IH.
Qed.

Lemma lastn_snoc {A} k (l : list A) x : lastn k (lastn k l ++ [x]) = lastn k (l ++ [x]).
Proof.
  unfold lastn. rewrite !app_length, skipn_length. cbn [length].
  rewrite <- skipn_snoc by lia.
  rewrite skipn_skipn'. f_equal. lia.
Qed.

Lemma win_buf_S q w n : trim w (win_buf q w n ++ [src_rdd q n]) = win_buf q w (S n).
Proof. unfold win_buf. rewrite trim_spec, src_rdds_S. apply lastn_snoc. Qed.

Lemma src_pop_state q n T t : src_pop (set_time t (src_state q n T)) = src_state q (S n) t.
Proof.
  unfold src_state, set_time, src_pop; cbn [nqueue ntime nrdd nbuf nctr nkv].
  pose proof (skipn_step n q) as H. unfold src_rdd.
  destruct (skipn n q) as [|b r]; destruct H as [H1 H2]; rewrite H1, H2; reflexivity.
Qed.

Lemma src_rdd_not_none q i : is_none_rdd (src_rdd q i) = false.
Proof. unfold src_rdd. destruct (nth_error q i); reflexivity. Qed.

Lemma existsb_skipn {A} (f : A -> bool) n l : existsb f l = false -> existsb f (skipn n l) = false.
Proof.
  revert l; induction n as [|n IH]; intros [|x l] H; cbn [skipn]; auto.
  cbn [existsb] in H. apply orb_false_iff in H. apply IH, H.
Qed.

Lemma src_rdds_no_none q n : existsb is_none_rdd (src_rdds q n) = false.
Proof.
  unfold src_rdds. induction (seq 0 n) as [|i l IH]; [reflexivity|].
  cbn [map existsb]. now rewrite src_rdd_not_none, IH.
Qed.

Lemma win_buf_no_none q w n : existsb is_none_rdd (win_buf q w n) = false.
Proof. unfold win_buf, lastn. apply existsb_skipn, src_rdds_no_none. Qed.

Lemma union_no_none l : existsb is_none_rdd l = false -> union l = Ok (union_data l).
Proof. intros H. unfold union, union_data. rewrite H. destruct (forallb is_empty_rdd l); reflexivity. Qed.

Lemma counter_next n s : 0 < s -> win_counter_next (Z.of_nat n mod s) s = Z.of_nat (S n) mod s.
Proof.
  intros Hs. unfold win_counter_next. rewrite Nat2Z.inj_succ, <- Z.add_1_r.
  rewrite Z.add_mod_idemp_l by lia. reflexivity.
Qed.

Lemma window_post_state q w s n T t : 0 < s ->
  window_post w s (src_rdd q n) (set_time t (win_state q w s n T)) = (win_state q w s (S n) t, None).
Proof.
  intros Hs. unfold window_post, win_state, set_time; cbn [nqueue ntime nrdd nbuf nctr nkv].
  rewrite win_buf_S, counter_next by assumption.
  unfold win_skip, set_win, set_rdd; cbn [nqueue ntime nrdd nbuf nctr nkv].
  cbn [win_rdd_spec].
  destruct (Z.of_nat (S n) mod s =? 0) eqn:E; cbn [negb].
  - rewrite union_no_none by apply win_buf_no_none. reflexivity.
  - reflexivity.
Qed.

(* ---------- a windowed stream on a queue source, any streams registered after them ---------- *)
Section WindowAnyTail.
Variables (q : list (list val)) (w s : Z) (tail : list node).
Hypothesis Hs : 0 < s.
Local Notation g := (Src q :: Window w s 0 :: tail).

Definition WInv (n : nat) (T : Z) (st : gstate) : Prop :=
  nth_error (gnodes st) 0 = Some (src_state q n T) /\ nth_error (gnodes st) 1 = Some (win_state q w s n T).

Lemma winv_init : WInv 0 0 (init_state g).
Proof.
  split; cbn; unfold src_state, win_state, n_init, set_queue; cbn.
  - reflexivity.
  - unfold win_buf, lastn. cbn. reflexivity.
Qed.

(* the first two steps of a tick *)
Lemma winv_two_steps n T t st F :
  WInv n T st -> T < t ->
  exists st2, tick_nodes (S (S F)) g [0%nat; 1%nat] t st = (st2, None) /\ WInv (S n) t st2
              /\ glog st2 = glog st /\ length (gnodes st2) = length (gnodes st)
              /\ (forall j, (2 <= j)%nat -> nth_error (gnodes st2) j = nth_error (gnodes st) j).
Proof.
  intros [H0 H1] Ht. cbn [tick_nodes].
  rewrite (step_src_go _ g 0 t st q _ eq_refl H0) by (cbn; lia).
  rewrite src_pop_state.
  set (st1 := put 0 (src_state q (S n) t) st).
  assert (H0' : nth_error (gnodes st1) 0 = Some (src_state q (S n) t)) by (apply (nth_put_eq _ _ _ _ H0)).
  assert (H1' : nth_error (gnodes st1) 1 = Some (win_state q w s n T)) by (unfold st1; rewrite nth_put_neq; auto).
  rewrite (step_window_go F g 1 t st1 w s 0 _ (Src q) _ eq_refl H1' ltac:(cbn; lia) eq_refl H0' ltac:(cbn; lia)).
  replace (nrdd (src_state q (S n) t)) with (src_rdd q n) by reflexivity.
  rewrite window_post_state by assumption.
  eexists; split; [reflexivity|]. split; [split|split; [|split]].
  - rewrite nth_put_neq; auto.
  - apply (nth_put_eq _ _ _ _ H1').
  - reflexivity.
  - unfold st1. rewrite !put_nodes, !upd_length. reflexivity.
  - intros j Hj. unfold st1. rewrite !nth_put_neq by lia. reflexivity.
Qed.

Lemma winv_tick n T t st : WInv n T st -> T < t -> WInv (S n) t (fst (tick g t st)).
Proof.
  intros HI Ht. unfold tick. cbn [length seq].
  change (0%nat :: 1%nat :: seq 2 (length tail)) with ([0%nat; 1%nat] ++ seq 2 (length tail)).
  set (F := length tail).
  destruct (winv_two_steps n T t st F HI Ht) as (st2 & E & [I0 I1] & _).
  assert (Happ : forall fuel gg a b tt s0,
    tick_nodes fuel gg (a ++ b) tt s0 =
    (let '(s1, e) := tick_nodes fuel gg a tt s0 in match e with Some _ => (s1, e) | None => tick_nodes fuel gg b tt s1 end)).
  { intros fuel gg a. induction a as [|i a IH]; intros b tt s0; [reflexivity|].
    cbn [app tick_nodes]. destruct (step fuel gg i tt s0) as [s1 e]. destruct e; [reflexivity|]. apply IH. }
  rewrite Happ, E.
  split; apply tick_nodes_frozen; auto; cbn; lia.
Qed.

Lemma winv_run : forall ts n T st,
  WInv n T st -> increasing T ts -> WInv (n + length ts) (last ts T) (fst (run_ticks g ts st)).
Proof.
  induction ts as [|t ts IH]; intros n T st HI Hinc.
  - cbn. now rewrite Nat.add_0_r.
  - destruct Hinc as [Ht Hinc]. rewrite run_ticks_cons, last_cons.
    cbn [length]. rewrite <- Nat.add_succ_comm.
    apply IH; auto. apply (winv_tick n T); auto.
Qed.

Lemma window_node_state ts :
  increasing 0 ts ->
  nth_error (gnodes (final g ts)) 1 = Some (win_state q w s (length ts) (last ts 0)).
Proof.
  intros Hinc. unfold final, run_graph.
  exact (proj2 (winv_run ts 0%nat 0 _ winv_init Hinc)).
Qed.
End WindowAnyTail.

Lemma consumers_from_length p j0 k : length (consumers_from p j0 k) = k.
Proof. unfold consumers_from. now rewrite map_length, seq_length. Qed.

Lemma consumers_from_nth p j0 k j : (j < k)%nat ->
  nth_error (consumers_from p j0 k) j = Some (Trans (FCapture (Z.of_nat (j0 + j))) p).
Proof.
  intros H. unfold consumers_from. rewrite nth_error_map.
  rewrite (nth_error_nth' _ 0%nat) by (now rewrite seq_length).
  rewrite seq_nth by assumption. reflexivity.
Qed.

(* what the k consumers of a windowed stream log, tick after tick (n = intervals already elapsed) *)
Fixpoint window_log (q : list (list val)) (w s : Z) (k : nat) (n : nat) (ts : list Z) : list logentry :=
  match ts with
  | [] => []
  | t :: ts' => map (fun j => (t, Z.of_nat j, obs_of (win_rdd_spec q w s (S n)))) (seq 0 k)
                ++ window_log q w s k (S n) ts'
  end.

Section WindowProgram.
Variables (q : list (list val)) (w s : Z) (k : nat).
Hypothesis Hs : 0 < s.
Local Notation g := (prog_window q w s k).

Definition PInv (n : nat) (T : Z) (st : gstate) : Prop :=
  WInv q w s n T st /\ times_le T st /\ length (gnodes st) = S (S k).

Lemma pinv_init : PInv 0 0 (init_state g).
Proof.
  split; [apply winv_init|]. split.
  - intros i ns Hi. unfold init_state in Hi; cbn [gnodes] in Hi.
    rewrite nth_error_map in Hi. destruct (nth_error g i) as [nd|]; [|discriminate].
    cbn in Hi. inversion Hi; subst. destruct nd; cbn; unfold dstream_time_init; lia.
  - unfold init_state; cbn [gnodes]. rewrite map_length. unfold prog_window, consumers. cbn [length].
    now rewrite consumers_from_length.
Qed.

Lemma pinv_tick n T t st :
  PInv n T st -> T < t ->
  exists st', tick g t st = (st', None) /\ PInv (S n) t st' /\
    glog st' = glog st ++ map (fun j => (t, Z.of_nat j, obs_of (win_rdd_spec q w s (S n)))) (seq 0 k).
Proof.
  intros (HI & Hle & Hlen) Ht.
  pose proof (tick_nodes_times_le (length g) g t (seq 0 (length g)) st
               (times_le_weaken T t st ltac:(lia) Hle)) as Hle'.
  pose proof (tick_nodes_length (length g) g t (seq 0 (length g)) st) as Hlen'.
  unfold tick in *. unfold prog_window, consumers in *. cbn [length seq] in *.
  rewrite consumers_from_length in *.
  change (0%nat :: 1%nat :: seq 2 k) with ([0%nat; 1%nat] ++ seq 2 k) in *.
  destruct (winv_two_steps q w s (consumers_from 1 0 k) Hs n T t st k HI Ht)
    as (st2 & E & [I0 I1] & Hlog2 & Hlen2 & Hoth2).
  rewrite tick_nodes_app, E in *.
  destruct (consumers_steps k (Src q :: Window w s 0 :: consumers_from 1 0 k) t 1 (Window w s 0)
              (win_state q w s (S n) t) k 2 0 st2) as (st' & E' & Hlog' & Hoth' & Hlen'').
  - intros j Hj. cbn [Nat.add nth_error]. now apply consumers_from_nth.
  - reflexivity.
  - exact I1.
  - cbn. lia.
  - intros j Hj. assert (Hex : (2 + j < length (gnodes st))%nat) by lia.
    apply nth_error_Some in Hex. destruct (nth_error (gnodes st) (2 + j)) as [ns|] eqn:En; [|congruence].
    exists ns. rewrite Hoth2 by lia. split; auto. specialize (Hle _ _ En). lia.
  - rewrite E' in *. cbn [fst] in *. exists st'. split; [reflexivity|]. split.
    + split; [split|split]; auto.
      * rewrite Hoth' by lia. exact I0.
      * rewrite Hoth' by lia. exact I1.
      * lia.
    + rewrite Hlog', Hlog2. reflexivity.
Qed.

Lemma pinv_run : forall ts n T st,
  PInv n T st -> increasing T ts ->
  exists st', run_ticks g ts st = (st', map (fun _ => None) ts) /\
              PInv (n + length ts) (last ts T) st' /\
              glog st' = glog st ++ window_log q w s k n ts.
Proof.
  induction ts as [|t ts IH]; intros n T st HI Hinc.
  - exists st. cbn. rewrite Nat.add_0_r, app_nil_r. auto.
  - destruct Hinc as [Ht Hinc].
    destruct (pinv_tick n T t st HI Ht) as (st1 & E1 & HI1 & Hlog1).
    destruct (IH (S n) t st1 HI1 Hinc) as (st' & E' & HI' & Hlog').
    exists st'. cbn [run_ticks]. rewrite E1, E'. split; [reflexivity|]. split.
    + rewrite last_cons. cbn [length]. now rewrite <- Nat.add_succ_comm.
    + rewrite Hlog', Hlog1, <- app_assoc. reflexivity.
Qed.

(* every consumer captures, at every tick, exactly once, the same thing: the windowed stream's RDD *)
Lemma window_program_log ts :
  increasing 0 ts ->
  run_graph g ts = (final g ts, map (fun _ => None) ts) /\
  glog (final g ts) = window_log q w s k 0 ts.
Proof.
  intros Hinc. destruct (pinv_run ts 0%nat 0 _ pinv_init Hinc) as (st' & E & _ & Hlog).
  unfold final, run_graph. rewrite E. cbn [fst]. split; [reflexivity|]. exact Hlog.
Qed.
End WindowProgram.

(* the batch of interval i+1; nothing once the queue is exhausted *)
Definition batch_at (q : list (list val)) (i : nat) : list val := nth i q [].
Definition batches (q : list (list val)) (n : nat) : list (list val) := map (batch_at q) (seq 0 n).

Lemma collect_src_rdd q i : collect (src_rdd q i) = batch_at q i.
Proof.
  unfold src_rdd, batch_at. destruct (nth_error q i) as [b|] eqn:E.
  - symmetry. now apply nth_error_nth.
  - apply nth_error_None in E. now rewrite nth_overflow.
Qed.

Lemma map_collect_src_rdds q n : map collect (src_rdds q n) = batches q n.
Proof. unfold src_rdds, batches. rewrite map_map. apply map_ext. intros; apply collect_src_rdd. Qed.

Lemma map_skipn {A B} (f : A -> B) n l : map f (skipn n l) = skipn n (map f l).
Proof. revert l; induction n as [|n IH]; intros [|x l]; cbn; auto. Qed.

Lemma map_lastn {A B} (f : A -> B) k l : map f (lastn k l) = lastn k (map f l).
Proof. unfold lastn. now rewrite map_skipn, map_length. Qed.

Lemma concat_all_empty l : forallb is_empty_rdd l = true -> concat (map collect l) = [].
Proof.
  induction l as [|r l IH]; [reflexivity|]. cbn [forallb]. intros H. apply andb_true_iff in H as [H1 H2].
  destruct r; try discriminate. cbn. auto.
Qed.

Lemma collect_union_data l : collect (union_data l) = concat (map collect l).
Proof.
  unfold union_data. destruct (forallb is_empty_rdd l) eqn:E; [|reflexivity].
  now rewrite concat_all_empty.
Qed.

Lemma union_data_not_none l : union_data l <> RNone.
Proof. unfold union_data. destruct (forallb _ _); discriminate. Qed.

Lemma obs_union_data l : obs_of (union_data l) = Some (concat (map collect l)).
Proof.
  rewrite <- collect_union_data. pose proof (union_data_not_none l) as H.
  destruct (union_data l); [congruence|reflexivity|reflexivity].
Qed.

(* contents of the window at an emitting interval: the last w batches, in order (fewer during start-up) *)
Lemma obs_window q w n : obs_of (union_data (win_buf q w n)) = Some (concat (lastn (Z.to_nat w) (batches q n))).
Proof. rewrite obs_union_data. unfold win_buf. now rewrite map_lastn, map_collect_src_rdds. Qed.

Lemma lastn_batches_length q w n : length (lastn (Z.to_nat w) (batches q n)) = Nat.min (Z.to_nat w) n.
Proof. rewrite lastn_length. unfold batches. now rewrite map_length, seq_length. Qed.

Lemma win_rdd_spec_emit q w s n : Z.of_nat (S n) mod s = 0 ->
  win_rdd_spec q w s (S n) = union_data (win_buf q w (S n)).
Proof. intros H. cbn [win_rdd_spec]. now rewrite H. Qed.

Lemma win_rdd_spec_keep q w s n : Z.of_nat (S n) mod s <> 0 ->
  win_rdd_spec q w s (S n) = win_rdd_spec q w s n.
Proof. intros H. cbn [win_rdd_spec]. apply Z.eqb_neq in H. now rewrite H. Qed.

Lemma win_rdd_spec_early q w s n : Z.of_nat n < s -> win_rdd_spec q w s n = RNone.
Proof.
  induction n as [|n IH]; intros H; [reflexivity|].
  rewrite win_rdd_spec_keep.
  - apply IH. lia.
  - rewrite Z.mod_small by lia. lia.
Qed.

Section Statements.
Variables (q : list (list val)) (w s : Z) (tail : list node).
Hypothesis Hs : 0 < s.
Local Notation g := (Src q :: Window w s 0 :: tail).

Lemma window_rdd_after ts : increasing 0 ts -> rdd_of (final g ts) 1 = win_rdd_spec q w s (length ts).
Proof. intros H. unfold rdd_of. now rewrite (window_node_state q w s tail Hs ts H). Qed.

(* window_spec, emitting intervals *)
Lemma window_spec_emits ts :
  increasing 0 ts -> (0 < length ts)%nat -> Z.of_nat (length ts) mod s = 0 ->
  obs_of (rdd_of (final g ts) 1) = Some (concat (lastn (Z.to_nat w) (batches q (length ts)))).
Proof.
  intros Hinc Hn Hmod. rewrite window_rdd_after by assumption.
  destruct (length ts) as [|n]; [lia|]. rewrite win_rdd_spec_emit by assumption. apply obs_window.
Qed.

(* window_spec, other intervals: the stream's RDD is what it was *)
Lemma window_spec_unchanged ts t :
  increasing 0 (ts ++ [t]) -> Z.of_nat (S (length ts)) mod s <> 0 ->
  rdd_of (final g (ts ++ [t])) 1 = rdd_of (final g ts) 1.
Proof.
  intros Hinc Hmod. pose proof (proj1 (proj1 (increasing_app 0 ts [t]) Hinc)) as Hinc'.
  rewrite !window_rdd_after by assumption.
  rewrite app_length, Nat.add_1_r. now apply win_rdd_spec_keep.
Qed.

Lemma window_spec_before_first ts :
  increasing 0 ts -> Z.of_nat (length ts) < s -> rdd_of (final g ts) 1 = RNone.
Proof. intros Hinc Hn. rewrite window_rdd_after by assumption. now apply win_rdd_spec_early. Qed.

(* the buffer holds each of the last min w n interval RDDs once, whatever is registered after the window *)
Lemma window_buffer ts ns :
  increasing 0 ts -> nth_error (gnodes (final g ts)) 1 = Some ns ->
  nbuf ns = lastn (Z.to_nat w) (src_rdds q (length ts)) /\ nctr ns = Z.of_nat (length ts) mod s
  /\ ntime ns = last ts 0.
Proof.
  intros Hinc H. rewrite (window_node_state q w s tail Hs ts Hinc) in H. inversion H; subst. cbn. auto.
Qed.
End Statements.
