(* The abstract order on names used by Model/Save.v ([name_leb]: parts by index) is the byte order of the
   real file names produced by the regenerated format `part-{i:05d}` (C09). *)
From Coq Require Import List Bool Arith NArith Lia.
Require Import PV.Gen.SaveOrder PV.Model.Save.
Import ListNotations.
Local Open Scope N_scope.

Lemma part_prefix_link : part_prefix = [112; 97; 114; 116; 45].
Proof. reflexivity. Qed.
Lemma part_width_link : part_width = 5%nat.
Proof. reflexivity. Qed.

Lemma lex_leb_app_same : forall p a b, lex_leb (p ++ a) (p ++ b) = lex_leb a b.
Proof.
  induction p as [|x p IH]; intros a b; simpl; auto.
  rewrite N.ltb_irrefl, N.eqb_refl. apply IH.
Qed.

Lemma fixed_digits_order : forall w i j, i < 10 ^ N.of_nat w -> j < 10 ^ N.of_nat w ->
  lex_leb (map digit_char (fixed_digits w i)) (map digit_char (fixed_digits w j)) = (i <=? j).
Proof.
  induction w as [|w IH]; intros i j Hi Hj.
  - simpl in *. assert (i = 0) by lia. assert (j = 0) by lia. subst. reflexivity.
  - rewrite Nat2N.inj_succ, N.pow_succ_r' in Hi, Hj.
    cbn [fixed_digits map lex_leb]. unfold digit_char at 1 2 3 4.
    set (b := 10 ^ N.of_nat w) in *.
    assert (Hb : b <> 0) by (unfold b; apply N.pow_nonzero; lia).
    assert (Ei := N.div_mod i b ltac:(lia)). assert (Ej := N.div_mod j b ltac:(lia)).
    assert (Ri := N.mod_lt i b ltac:(lia)). assert (Rj := N.mod_lt j b ltac:(lia)).
    set (qi := i / b) in *. set (qj := j / b) in *. set (ri := i mod b) in *. set (rj := j mod b) in *.
    destruct (N.ltb_spec (48 + qi) (48 + qj)) as [L|L].
    + symmetry. apply N.leb_le.
      assert (M : b * (qi + 1) <= b * qj) by (apply N.mul_le_mono_l; lia).
      rewrite N.mul_add_distr_l, N.mul_1_r in M. lia.
    + destruct (N.eqb_spec (48 + qi) (48 + qj)) as [E|E].
      * rewrite IH by auto. assert (Q : qi = qj) by lia. rewrite Q in Ei.
        destruct (N.leb_spec ri rj); symmetry; [apply N.leb_le|apply N.leb_gt]; lia.
      * symmetry. apply N.leb_gt.
        assert (M : b * (qj + 1) <= b * qi) by (apply N.mul_le_mono_l; lia).
        rewrite N.mul_add_distr_l, N.mul_1_r in M. lia.
Qed.

Lemma leb_nat_N : forall a b : nat, Nat.leb a b = (N.of_nat a <=? N.of_nat b).
Proof.
  intros a b. destruct (Nat.leb_spec a b); symmetry; [apply N.leb_le|apply N.leb_gt]; lia.
Qed.

Lemma lex_other : forall x y, lex_leb [111; 108; 100; 45; x] [111; 108; 100; 45; y] = (x <=? y).
Proof.
  intros x y. cbn.
  destruct (N.ltb_spec x y) as [L|L].
  - symmetry. apply N.leb_le. lia.
  - destruct (N.eqb_spec x y) as [E|E]; symmetry; [apply N.leb_le|apply N.leb_gt]; lia.
Qed.

Lemma marker_base_link : marker_base = [95; 83; 85; 67; 67; 69; 83; 83].
Proof. reflexivity. Qed.
Lemma marker_suffixed_link : marker_suffixed = false.
Proof. reflexivity. Qed.

Lemma lex_leb_refl : forall a, lex_leb a a = true.
Proof. induction a as [|x a IH]; simpl; auto. rewrite N.ltb_irrefl, N.eqb_refl. exact IH. Qed.

Lemma lex_leb_same_suffix : forall a b s, length a = length b -> lex_leb (a ++ s) (b ++ s) = lex_leb a b.
Proof.
  induction a as [|x a IH]; intros [|y b] s L; try discriminate; simpl.
  - apply lex_leb_refl.
  - destruct (x <? y); auto. destruct (x =? y); auto.
Qed.

Lemma fixed_digits_length : forall w i, length (fixed_digits w i) = w.
Proof. induction w; intros i; simpl; auto. Qed.

(* the marker is exactly '_SUCCESS', whatever the codec suffix of the target *)
Theorem marker_name_plain : forall sfx, name_string sfx NMarker = [95; 83; 85; 67; 67; 69; 83; 83].
Proof. intros sfx. unfold name_string. rewrite marker_suffixed_link, marker_base_link. reflexivity. Qed.

Theorem name_order : forall sfx a b, valid_name a -> valid_name b ->
  name_leb a b = lex_leb (name_string sfx a) (name_string sfx b).
Proof.
  intros sfx a b Ha Hb. destruct a as [i| |k], b as [j| |k']; try reflexivity.
  - simpl name_leb. unfold name_string. rewrite lex_leb_app_same, lex_leb_same_suffix, fixed_digits_order by
      (try assumption; rewrite !map_length, !fixed_digits_length; reflexivity).
    apply leb_nat_N.
  - simpl name_leb. unfold name_string. rewrite lex_other. unfold digit_char. rewrite leb_nat_N.
    destruct (N.leb_spec (N.of_nat k) (N.of_nat k')); symmetry; [apply N.leb_le|apply N.leb_gt]; lia.
Qed.

(* a part file's name never collides with the marker's, and distinct partitions get distinct names *)
Theorem part_name_not_marker : forall sfx i, name_string sfx (NPart i) <> name_string sfx NMarker.
Proof. intros sfx i. rewrite marker_name_plain. unfold name_string. rewrite part_prefix_link. discriminate. Qed.
