(* C01 -- the observation compared by the correspondence run is the pipeline the theorems speak about. *)
From Coq Require Import String ZArith NArith List Bool Lia.
Require Import PV.Base.Val PV.Model.Rdd PV.Proofs.Rdd.
Import ListNotations.
Open Scope Z_scope.

(* what the correspondence run compares ([observe], used by Run/C01_run.v) ends with the value the
   pipeline theorems speak about, and starts with the partitions of parallelize *)
Lemma observe_last ts a : forall ps,
  last (observe ts a ps) VNone = res_val (qs <- apply_trs ts ps ;; run_act a qs).
Proof.
  unfold apply_trs. induction ts as [|t ts IH]; intros ps.
  - reflexivity.
  - simpl foldM. simpl observe.
    destruct (apply_tr t ps) as [qs|e]; simpl bind.
    + rewrite <- IH. destruct ts; reflexivity.
    + reflexivity.
Qed.

Lemma observe_pipeline ts a xs n :
  last (observe ts a (parallelize xs n)) VNone = res_val (pipeline_rdd ts a xs n) /\
  hd VNone (observe ts a (parallelize xs n)) = vparts (parallelize xs n).
Proof. split; [apply observe_last|]. destruct ts; reflexivity. Qed.
