(* C11 -- countByWindow = window().count(): three transformed streams after the window; while the window has not
   emitted (its RDD is None) they only advance their guard time (TransformedDStream._step returns early). *)
From Coq Require Import ZArith NArith Bool String List Lia.
Require Import PV.Base.Val PV.Gen.Window PV.Model.Window PV.Proofs.Window PV.Proofs.WindowSpec.
Import ListNotations.
Open Scope Z_scope.
Open Scope list_scope.

(* what the three streams of count() compute from the window's RDD *)
Definition count_parts (r : rdd) : rdd :=
  match r with RNone => RNone | REmpty => REmpty | RData xs => RData [VInt (Z.of_nat (length xs))] end.
Definition count_rdd (r : rdd) : rdd :=
  match r with RNone => RNone | REmpty => RData [] | RData xs => RData [VInt (Z.of_nat (length xs))] end.

Lemma win_rdd_spec_none_prev q w s n : win_rdd_spec q w s (S n) = RNone -> win_rdd_spec q w s n = RNone.
Proof.
  cbn [win_rdd_spec]. destruct (Z.of_nat (S n) mod s =? 0); auto.
  unfold union_data. destruct (forallb _ _); discriminate.
Qed.

Section CountAnyTail.
Variables (q : source) (w s : Z) (tail : list node).
Hypothesis Hs : 0 < s.
Local Notation chain := (Trans FCountParts 1 :: Trans FSetName 2 :: Trans FReduceAdd 3 :: tail).
Local Notation g := (Src q :: Window w s 0 :: chain).
Local Notation R := (win_rdd_spec q w s).

Definition node_is (st : gstate) (i : nat) (T : Z) (r : rdd) : Prop :=
  exists ns, nth_error (gnodes st) i = Some ns /\ ntime ns <= T /\ nrdd ns = r.

Definition KInv (n : nat) (T : Z) (st : gstate) : Prop :=
  TInv q (win_state q w s) n T st /\
  node_is st 2 T (count_parts (R n)) /\ node_is st 3 T (count_parts (R n)) /\ node_is st 4 T (count_rdd (R n)).

Lemma kinv_init : KInv 0 0 (init_state g).
Proof.
  split; [apply (win_tinv_init q w s)|].
  repeat split; eexists; (split; [reflexivity|]); cbn; unfold dstream_time_init; split; (lia || reflexivity).
Qed.

Lemma node_is_put_neq st i j T r n : i <> j -> node_is st j T r -> node_is (put i n st) j T r.
Proof. intros H (ns & H1 & H2). exists ns. rewrite nth_put_neq; auto. Qed.

Lemma node_is_weaken st i T T' r : T <= T' -> node_is st i T r -> node_is st i T' r.
Proof. intros H (ns & H1 & H2 & H3). exists ns. repeat split; auto. lia. Qed.

(* a transformed stream's state after its step: only the guard time moves while the window has not emitted *)
Definition chn (R' r : rdd) (t : Z) (n : nstate) : nstate :=
  if is_none_rdd R' then set_time t n else set_rdd r (set_time t n).

Lemma chn_time R' r t n : ntime (chn R' r t n) = t.
Proof. unfold chn. destruct (is_none_rdd R'); reflexivity. Qed.

(* the three streams of count(), stepped after the window was stepped at time t: none of them raises *)
Lemma chain_steps F t st2 R' n2 n3 n4 ns1 :
  nth_error (gnodes st2) 1 = Some ns1 -> ntime ns1 = t -> nrdd ns1 = R' ->
  nth_error (gnodes st2) 2 = Some n2 -> ntime n2 < t ->
  nth_error (gnodes st2) 3 = Some n3 -> ntime n3 < t ->
  nth_error (gnodes st2) 4 = Some n4 -> ntime n4 < t ->
  (R' = RNone -> nrdd n2 = RNone /\ nrdd n3 = RNone) ->
  tick_nodes (S (S F)) g [2; 3; 4]%nat t st2 =
  (put 4 (chn R' (count_rdd R') t n4)
     (put 3 (chn R' (count_parts R') t n3)
        (put 2 (chn R' (count_parts R') t n2) st2)), None).
Proof.
  intros I1 I1t I1r H2 H2t H3 H3t H4 H4t Hnone.
  cbn [tick_nodes].
  assert (Hadd : forall st0, add_log [] st0 = st0).
  { intros [nodes lg]. unfold add_log. cbn. now rewrite app_nil_r. }
  rewrite (step_trans_go F g 2 t st2 FCountParts 1 n2 (Window w s 0) ns1 eq_refl H2 H2t eq_refl I1 ltac:(lia)).
  rewrite I1r. unfold trans_post, chn.
  destruct R' as [| |xs]; cbn [is_none_rdd apply_tfun]; rewrite Hadd.
  - destruct (Hnone eq_refl) as [N2 N3].
    set (m2 := set_time t n2). set (st3 := put 2 m2 st2).
    assert (J2 : nth_error (gnodes st3) 2 = Some m2) by (apply (nth_put_eq _ _ _ _ H2)).
    assert (J3 : nth_error (gnodes st3) 3 = Some n3) by (unfold st3; rewrite nth_put_neq; auto).
    rewrite (step_trans_go F g 3 t st3 FSetName 2 n3 (Trans FCountParts 1) m2 eq_refl J3 H3t eq_refl J2 ltac:(cbn; lia)).
    unfold trans_post. replace (nrdd m2) with RNone by (symmetry; exact N2). cbn [is_none_rdd]. rewrite Hadd.
    set (m3 := set_time t n3). set (st4 := put 3 m3 st3).
    assert (K3 : nth_error (gnodes st4) 3 = Some m3) by (apply (nth_put_eq _ _ _ _ J3)).
    assert (K4 : nth_error (gnodes st4) 4 = Some n4) by (unfold st4, st3; rewrite !nth_put_neq by lia; exact H4).
    rewrite (step_trans_go F g 4 t st4 FReduceAdd 3 n4 (Trans FSetName 2) m3 eq_refl K4 H4t eq_refl K3 ltac:(cbn; lia)).
    unfold trans_post. replace (nrdd m3) with RNone by (symmetry; exact N3). cbn [is_none_rdd]. rewrite Hadd.
    reflexivity.
  - set (m2 := set_rdd REmpty (set_time t n2)). set (st3 := put 2 m2 st2).
    assert (J2 : nth_error (gnodes st3) 2 = Some m2) by (apply (nth_put_eq _ _ _ _ H2)).
    assert (J3 : nth_error (gnodes st3) 3 = Some n3) by (unfold st3; rewrite nth_put_neq; auto).
    rewrite (step_trans_go F g 3 t st3 FSetName 2 n3 (Trans FCountParts 1) m2 eq_refl J3 H3t eq_refl J2 ltac:(cbn; lia)).
    unfold trans_post. cbn [apply_tfun nrdd m2 set_rdd is_none_rdd]. rewrite Hadd.
    set (m3 := set_rdd REmpty (set_time t n3)). set (st4 := put 3 m3 st3).
    assert (K3 : nth_error (gnodes st4) 3 = Some m3) by (apply (nth_put_eq _ _ _ _ J3)).
    assert (K4 : nth_error (gnodes st4) 4 = Some n4) by (unfold st4, st3; rewrite !nth_put_neq by lia; exact H4).
    rewrite (step_trans_go F g 4 t st4 FReduceAdd 3 n4 (Trans FSetName 2) m3 eq_refl K4 H4t eq_refl K3 ltac:(cbn; lia)).
    unfold trans_post. cbn [apply_tfun nrdd m3 set_rdd is_none_rdd]. rewrite Hadd. reflexivity.
  - set (cnt := RData [VInt (Z.of_nat (length xs))]).
    set (m2 := set_rdd cnt (set_time t n2)). set (st3 := put 2 m2 st2).
    assert (J2 : nth_error (gnodes st3) 2 = Some m2) by (apply (nth_put_eq _ _ _ _ H2)).
    assert (J3 : nth_error (gnodes st3) 3 = Some n3) by (unfold st3; rewrite nth_put_neq; auto).
    rewrite (step_trans_go F g 3 t st3 FSetName 2 n3 (Trans FCountParts 1) m2 eq_refl J3 H3t eq_refl J2 ltac:(cbn; lia)).
    unfold trans_post. cbn [apply_tfun nrdd m2 set_rdd cnt is_none_rdd]. rewrite Hadd.
    fold cnt. set (m3 := set_rdd cnt (set_time t n3)). set (st4 := put 3 m3 st3).
    assert (K3 : nth_error (gnodes st4) 3 = Some m3) by (apply (nth_put_eq _ _ _ _ J3)).
    assert (K4 : nth_error (gnodes st4) 4 = Some n4) by (unfold st4, st3; rewrite !nth_put_neq by lia; exact H4).
    rewrite (step_trans_go F g 4 t st4 FReduceAdd 3 n4 (Trans FSetName 2) m3 eq_refl K4 H4t eq_refl K3 ltac:(cbn; lia)).
    unfold trans_post. cbn [apply_tfun nrdd m3 set_rdd cnt all_Z is_none_rdd].
    replace (sumZ [Z.of_nat (length xs)]) with (Z.of_nat (length xs)) by (unfold sumZ; cbn; lia).
    rewrite Hadd. reflexivity.
Qed.

Lemma count_none_rdds n : win_rdd_spec q w s (S n) = RNone ->
  count_parts (R n) = RNone /\ count_rdd (R n) = RNone.
Proof. intros H. rewrite (win_rdd_spec_none_prev q w s n H). split; reflexivity. Qed.

Lemma kinv_tick n T t st :
  KInv n T st -> T < t -> KInv (S n) t (fst (tick g t st)).
Proof.
  intros (HI & (n2 & H2 & H2t & H2r) & (n3 & H3 & H3t & H3r) & (n4 & H4 & H4t & H4r)) Ht.
  unfold tick. cbn [length seq].
  change (0 :: 1 :: 2 :: 3 :: 4 :: seq 5 (length tail))%nat with ([0; 1]%nat ++ [2; 3; 4]%nat ++ seq 5 (length tail)).
  set (F := S (S (S (length tail)))).
  destruct (win_two_steps q w s Hs chain n T t st F HI Ht) as (st2 & E & [I0 I1] & Hlog2 & Hlen2 & Hoth2).
  rewrite tick_nodes_app, E. cbv beta iota.
  rewrite <- Hoth2 in H2, H3, H4 by lia.
  rewrite tick_nodes_app.
  assert (Hnone : R (S n) = RNone -> nrdd n2 = RNone /\ nrdd n3 = RNone).
  { intros HR. destruct (count_none_rdds n HR) as [P _]. rewrite H2r, H3r, P. auto. }
  rewrite (chain_steps F t st2 (R (S n)) n2 n3 n4 _ I1 eq_refl eq_refl H2 ltac:(lia) H3 ltac:(lia) H4 ltac:(lia) Hnone).
  set (m2 := chn _ _ t n2). set (m3 := chn _ _ t n3). set (m4 := chn _ _ t n4).
  set (st5 := put 4 m4 (put 3 m3 (put 2 m2 st2))).
  assert (L0 : nth_error (gnodes st5) 0 = Some (src_state q (S n) t)) by (unfold st5; rewrite !nth_put_neq by lia; exact I0).
  assert (L1 : nth_error (gnodes st5) 1 = Some (win_state q w s (S n) t)) by (unfold st5; rewrite !nth_put_neq by lia; exact I1).
  assert (L2 : nth_error (gnodes st5) 2 = Some m2).
  { unfold st5. rewrite !nth_put_neq by lia. apply (nth_put_eq _ _ _ _ H2). }
  assert (L3 : nth_error (gnodes st5) 3 = Some m3).
  { unfold st5. rewrite nth_put_neq by lia. eapply nth_put_eq. rewrite nth_put_neq by lia. exact H3. }
  assert (L4 : nth_error (gnodes st5) 4 = Some m4).
  { unfold st5. eapply nth_put_eq. rewrite !nth_put_neq by lia. exact H4. }
  assert (R2 : nrdd m2 = count_parts (R (S n))).
  { unfold m2, chn. destruct (R (S n)) eqn:ER; cbn [is_none_rdd]; try reflexivity.
    cbn [set_time nrdd]. destruct (count_none_rdds n ER) as [P _]. now rewrite H2r, P. }
  assert (R3 : nrdd m3 = count_parts (R (S n))).
  { unfold m3, chn. destruct (R (S n)) eqn:ER; cbn [is_none_rdd]; try reflexivity.
    cbn [set_time nrdd]. destruct (count_none_rdds n ER) as [P _]. now rewrite H3r, P. }
  assert (R4 : nrdd m4 = count_rdd (R (S n))).
  { unfold m4, chn. destruct (R (S n)) eqn:ER; cbn [is_none_rdd]; try reflexivity.
    cbn [set_time nrdd]. destruct (count_none_rdds n ER) as [_ P]. now rewrite H4r, P. }
  cbv beta iota.
  split; [split|repeat split].
  + apply tick_nodes_frozen; auto. cbn. lia.
  + apply tick_nodes_frozen; auto. cbn. lia.
  + exists m2. split; [apply tick_nodes_frozen; auto; unfold m2; rewrite chn_time; lia|]. unfold m2 at 1. rewrite chn_time. split; [lia|exact R2].
  + exists m3. split; [apply tick_nodes_frozen; auto; unfold m3; rewrite chn_time; lia|]. unfold m3 at 1. rewrite chn_time. split; [lia|exact R3].
  + exists m4. split; [apply tick_nodes_frozen; auto; unfold m4; rewrite chn_time; lia|]. unfold m4 at 1. rewrite chn_time. split; [lia|exact R4].
Qed.

Lemma kinv_run : forall ts n T st,
  KInv n T st -> increasing T ts -> KInv (n + length ts) (last ts T) (fst (run_ticks g ts st)).
Proof.
  induction ts as [|t ts IH]; intros n T st HI Hinc.
  - cbn. now rewrite Nat.add_0_r.
  - destruct Hinc as [Ht Hinc]. rewrite run_ticks_cons, last_cons.
    cbn [length]. rewrite <- Nat.add_succ_comm.
    apply IH; auto. apply (kinv_tick n T); auto.
Qed.

(* the stream returned by countByWindow (stream 4) after the ticks ts, whatever is registered after it *)
Lemma count_rdd_after ts :
  increasing 0 ts -> rdd_of (final g ts) 4 = count_rdd (R (length ts)).
Proof.
  intros Hinc. destruct (kinv_run ts 0%nat 0 _ kinv_init Hinc) as (_ & _ & _ & (ns & H1 & _ & H2)).
  unfold final, run_graph, rdd_of. cbn [Nat.add] in H1. now rewrite H1.
Qed.
End CountAnyTail.

(* what k consumers of countByWindow log: nothing while the window has not emitted (their functions are not called),
   afterwards one capture each of the count stream's RDD; no tick raises *)
Definition count_log (R : nat -> rdd) (k : nat) (n : nat) (ts : list Z) : list logentry :=
  cons_log (fun m => count_rdd (R m)) k n ts.

Section CountProgram.
Variables (q : source) (w s : Z) (k : nat).
Hypothesis Hs : 0 < s.
Local Notation g := (prog_count q w s k).
Local Notation R := (win_rdd_spec q w s).

Definition CKInv (n : nat) (T : Z) (st : gstate) : Prop :=
  KInv q w s n T st /\ times_le T st /\ length (gnodes st) = (5 + k)%nat.

Lemma ckinv_init : CKInv 0 0 (init_state g).
Proof.
  split; [apply (kinv_init q w s (consumers 4 k))|]. split.
  - intros i ns Hi. unfold init_state in Hi; cbn [gnodes] in Hi.
    rewrite nth_error_map in Hi. destruct (nth_error g i) as [nd|] eqn:E; [|discriminate].
    cbn [option_map] in Hi. inversion Hi; subst. destruct nd; cbn; unfold dstream_time_init; lia.
  - unfold init_state; cbn [gnodes]. rewrite map_length. unfold prog_count, consumers. cbn [length].
    now rewrite consumers_from_length.
Qed.

Lemma ckinv_tick n T t st :
  CKInv n T st -> T < t ->
  exists st', tick g t st = (st', None) /\ CKInv (S n) t st' /\
              glog st' = glog st ++ (if is_none_rdd (count_rdd (R (S n))) then []
                                     else map (fun j => (t, Z.of_nat j, obs_of (count_rdd (R (S n))))) (seq 0 k)).
Proof.
  intros (HK & Hle & Hlen) Ht.
  pose proof (kinv_tick q w s (consumers 4 k) Hs n T t st HK Ht) as HK'.
  pose proof (tick_nodes_times_le (length g) g t (seq 0 (length g)) st
               (times_le_weaken T t st ltac:(lia) Hle)) as Hle'.
  destruct HK as (HI & (n2 & H2 & H2t & H2r) & (n3 & H3 & H3t & H3r) & (n4 & H4 & H4t & H4r)).
  unfold tick in *. unfold prog_count, consumers in *. cbn [length seq] in *. rewrite consumers_from_length in *.
  change (0 :: 1 :: 2 :: 3 :: 4 :: seq 5 k)%nat with ([0; 1]%nat ++ [2; 3; 4]%nat ++ seq 5 k) in *.
  set (F := S (S (S k))) in *.
  destruct (win_two_steps q w s Hs (Trans FCountParts 1 :: Trans FSetName 2 :: Trans FReduceAdd 3 :: consumers_from 4 0 k) n T t st F HI Ht) as (st2 & E & [I0 I1] & Hlog2 & Hlen2 & Hoth2).
  rewrite tick_nodes_app, E in *. cbv beta iota in *.
  rewrite <- Hoth2 in H2, H3, H4 by lia.
  rewrite tick_nodes_app in *.
  assert (Hnone : R (S n) = RNone -> nrdd n2 = RNone /\ nrdd n3 = RNone).
  { intros HR. destruct (count_none_rdds q w s n HR) as [P _]. rewrite H2r, H3r, P. auto. }
  rewrite (chain_steps q w s (consumers_from 4 0 k) F t st2 (R (S n)) n2 n3 n4 _ I1 eq_refl eq_refl
             H2 ltac:(lia) H3 ltac:(lia) H4 ltac:(lia) Hnone) in *.
  cbv beta iota in *.
  set (m2 := chn _ _ t n2) in *. set (m3 := chn _ _ t n3) in *. set (m4 := chn _ _ t n4) in *.
  set (st5 := put 4 m4 (put 3 m3 (put 2 m2 st2))) in *.
  assert (L4 : nth_error (gnodes st5) 4 = Some m4).
  { unfold st5. eapply nth_put_eq. rewrite !nth_put_neq by lia. exact H4. }
  assert (R4 : nrdd m4 = count_rdd (R (S n))).
  { unfold m4, chn. destruct (R (S n)) eqn:ER; cbn [is_none_rdd]; try reflexivity.
    cbn [set_time nrdd]. destruct (count_none_rdds q w s n ER) as [_ P]. now rewrite H4r, P. }
  destruct (consumers_steps F (Src q :: Window w s 0 :: Trans FCountParts 1 :: Trans FSetName 2
                                :: Trans FReduceAdd 3 :: consumers_from 4 0 k) t 4 (Trans FReduceAdd 3)
              m4 k 5 0 st5) as (st' & E' & Hlog' & Hoth' & Hlen'').
  + intros j Hj. cbn [Nat.add nth_error]. now apply consumers_from_nth.
  + reflexivity.
  + exact L4.
  + unfold m4. rewrite chn_time. lia.
  + intros j Hj. assert (Hex : (5 + j < length (gnodes st))%nat) by lia.
    apply nth_error_Some in Hex. destruct (nth_error (gnodes st) (5 + j)) as [ns|] eqn:En; [|congruence].
    exists ns. unfold st5. rewrite !nth_put_neq by lia. rewrite Hoth2 by lia. split; auto.
    specialize (Hle _ _ En). lia.
  + rewrite E' in *. cbn [fst] in *. exists st'. split; [reflexivity|].
    split; [split; [exact HK'|split; [exact Hle'|rewrite Hlen''; unfold st5; rewrite !put_length; lia]]|].
    rewrite Hlog', R4. unfold st5. rewrite !put_log, Hlog2. reflexivity.
Qed.

Lemma ckinv_run : forall ts n T st,
  CKInv n T st -> increasing T ts ->
  exists st', run_ticks g ts st = (st', map (fun _ => None) ts) /\
              CKInv (n + length ts) (last ts T) st' /\
              glog st' = glog st ++ count_log R k n ts.
Proof.
  induction ts as [|t ts IH]; intros n T st HI Hinc.
  - exists st. cbn. rewrite Nat.add_0_r, app_nil_r. auto.
  - destruct Hinc as [Ht Hinc].
    destruct (ckinv_tick n T t st HI Ht) as (st1 & E1 & HI1 & Hlog1).
    destruct (IH (S n) t st1 HI1 Hinc) as (st' & E' & HI' & Hlog').
    exists st'. cbn [run_ticks]. rewrite E1, E'. split; [reflexivity|]. split.
    + rewrite last_cons. cbn [length]. now rewrite <- Nat.add_succ_comm.
    + rewrite Hlog', Hlog1, <- app_assoc. reflexivity.
Qed.

Lemma count_program_log ts :
  increasing 0 ts ->
  run_graph g ts = (final g ts, map (fun _ => None) ts) /\ glog (final g ts) = count_log R k 0 ts.
Proof.
  intros Hinc. destruct (ckinv_run ts 0%nat 0 _ ckinv_init Hinc) as (st' & E & _ & Hlog).
  unfold final, run_graph. rewrite E. cbn [fst]. split; [reflexivity|]. exact Hlog.
Qed.
End CountProgram.

(* ---------- countByWindow ---------- *)
(* every interval of the window yielded an EmptyRDD (idle entries, or behind the end of a queue without default) *)
Definition window_exhausted (q : source) (w : Z) (n : nat) : bool := forallb is_empty_rdd (win_buf q w n).
Definition count_obs (q : source) (w : Z) (n : nat) : list val :=
  if window_exhausted q w n then []
  else [VInt (Z.of_nat (length (concat (lastn (Z.to_nat w) (batches q n)))))].

Lemma obs_count_window q w n : obs_of (count_rdd (union_data (win_buf q w n))) = Some (count_obs q w n).
Proof.
  unfold count_obs, window_exhausted, union_data.
  destruct (forallb is_empty_rdd (win_buf q w n)); cbn [count_rdd obs_of collect]; [reflexivity|].
  now rewrite map_collect_win_buf.
Qed.

(* an interval yields an EmptyRDD iff its entry is None: an explicit idle entry, or the queue has run dry and there is
   no default *)
Lemma is_empty_src_rdd q i : is_empty_rdd (src_rdd q i) = true <-> nth i (sq q) (sd q) = None.
Proof. unfold src_rdd. destruct (nth i (sq q) (sd q)); cbn; split; congruence. Qed.

Lemma skipn_seq' k : forall a n, skipn k (seq a n) = seq (a + k) (n - k).
Proof.
  induction k as [|k IH]; intros a n.
  - now rewrite Nat.add_0_r, Nat.sub_0_r.
  - destruct n as [|n]; [reflexivity|]. cbn [seq skipn]. rewrite IH. f_equal; lia.
Qed.

Lemma window_exhausted_spec q w n :
  window_exhausted q w n = true <-> forall i, (n - Z.to_nat w <= i < n)%nat -> nth i (sq q) (sd q) = None.
Proof.
  unfold window_exhausted, win_buf, lastn, src_rdds. rewrite map_length, seq_length, <- map_skipn, skipn_seq'.
  rewrite forallb_forall. cbn [Nat.add]. split.
  - intros H i Hi. apply is_empty_src_rdd, H. apply in_map, in_seq. lia.
  - intros H r Hr. apply in_map_iff in Hr as (i & <- & Hi). apply in_seq in Hi. apply is_empty_src_rdd, H. lia.
Qed.

Section CountStatements.
Variables (q : source) (w s : Z) (tail : list node).
Hypothesis Hs : 0 < s.
Local Notation g := (Src q :: Window w s 0 :: Trans FCountParts 1 :: Trans FSetName 2 :: Trans FReduceAdd 3 :: tail).

Lemma count_spec_emits ts :
  increasing 0 ts -> (0 < length ts)%nat -> Z.of_nat (length ts) mod s = 0 ->
  obs_of (rdd_of (final g ts) 4) = Some (count_obs q w (length ts)).
Proof.
  intros Hinc Hn Hmod. rewrite (count_rdd_after q w s tail Hs ts Hinc).
  destruct (length ts) as [|n]; [lia|]. rewrite win_rdd_spec_emit by assumption. apply obs_count_window.
Qed.

Lemma count_spec_unchanged ts t :
  increasing 0 (ts ++ [t]) -> Z.of_nat (S (length ts)) mod s <> 0 ->
  rdd_of (final g (ts ++ [t])) 4 = rdd_of (final g ts) 4.
Proof.
  intros Hinc Hmod. pose proof (proj1 (proj1 (increasing_app 0 ts [t]) Hinc)) as Hinc'.
  rewrite !(count_rdd_after q w s tail Hs) by assumption.
  rewrite app_length, Nat.add_1_r. now rewrite win_rdd_spec_keep.
Qed.

Lemma count_spec_before_first ts :
  increasing 0 ts -> Z.of_nat (length ts) < s -> rdd_of (final g ts) 4 = RNone.
Proof.
  intros Hinc Hn. rewrite (count_rdd_after q w s tail Hs ts Hinc). now rewrite win_rdd_spec_early.
Qed.
End CountStatements.

Lemma count_consumers q w s k : 0 < s -> forall ts, increasing 0 ts ->
  run_graph (prog_count q w s k) ts = (final (prog_count q w s k) ts, map (fun _ => None) ts) /\
  glog (final (prog_count q w s k) ts) = count_log (win_rdd_spec q w s) k 0 ts.
Proof. intros Hs ts Hinc. exact (count_program_log q w s k Hs ts Hinc). Qed.

Lemma is_none_count_rdd r : is_none_rdd (count_rdd r) = is_none_rdd r.
Proof. destruct r; reflexivity. Qed.

(* in which intervals the consumers' functions are not called: exactly those before the first emission *)
Lemma is_none_win_rdd_spec q w s n : 0 < s -> is_none_rdd (win_rdd_spec q w s n) = (Z.of_nat n <? s).
Proof.
  intros Hs. destruct (Z.of_nat n <? s) eqn:E.
  - apply Z.ltb_lt in E. now rewrite win_rdd_spec_early.
  - apply Z.ltb_ge in E. pose proof (win_rdd_spec_late q w s n Hs E) as H.
    destruct (win_rdd_spec q w s n); [congruence|reflexivity|reflexivity].
Qed.
