(* C14, generic part: the partition driver of GroupedStats is a homomorphism.
   For an aggregator whose mergeStats agrees with folding the concatenated rows (on non-empty row lists, which is
   all that ever reaches it without pivot), the grouped result over ANY list of partitions equals, group by group
   and in the same (first-seen) order, the fold over the group's own rows of the concatenated partitions. *)
From Coq Require Import ZArith List Bool Permutation Morphisms RelationClasses Lia.
Require Import PV.Model.Agg.
Import ListNotations.

Set Implicit Arguments.

(** * Laws an aggregator has to satisfy *)
Section Laws.
  Variables (Row S O : Type).
  Variable A : aggregator Row S O.
  Variable eqS : S -> S -> Prop.
  Variable eqO : O -> O -> Prop.

  (* merging the folds of two NON-EMPTY row lists is the fold of their concatenation *)
  Record agg_laws_ne : Prop := {
    l_equiv : Equivalence eqS;
    l_merge_proper : forall a a' b b', eqS a a' -> eqS b b' -> eqS (a_merge A a b) (a_merge A a' b');
    l_out_proper : forall s s', eqS s s' -> eqO (a_out A s) (a_out A s');
    l_hom_ne : forall xs ys, xs <> [] -> ys <> [] ->
        eqS (a_merge A (a_fold A xs) (a_fold A ys)) (a_fold A (xs ++ ys));
  }.

  (* ... and a fresh copy is a unit of mergeStats on both sides (needed for pivot slots only) *)
  Record agg_laws : Prop := {
    l_ne : agg_laws_ne;
    l_init_l : forall ys, eqS (a_merge A (a_init A) (a_fold A ys)) (a_fold A ys);
    l_init_r : forall xs, eqS (a_merge A (a_fold A xs) (a_init A)) (a_fold A xs);
  }.

  Lemma laws_hom : agg_laws -> forall xs ys, eqS (a_merge A (a_fold A xs) (a_fold A ys)) (a_fold A (xs ++ ys)).
  Proof.
    intros L xs ys. destruct xs as [|x xs].
    - apply (l_init_l L).
    - destruct ys as [|y ys].
      + rewrite app_nil_r. apply (l_init_r L).
      + apply (l_hom_ne (l_ne L)); discriminate.
  Qed.
End Laws.

Lemma Forall2_join {X Y Z} (R1 : X -> Z -> Prop) (R2 : Y -> Z -> Prop) a b c :
  Forall2 R1 a c -> Forall2 R2 b c -> Forall2 (fun x y => exists z, R1 x z /\ R2 y z) a b.
Proof.
  intros H. revert b. induction H as [|x z a c Hxz H IH]; intros b Hb;
    inversion Hb as [|y z' b' c' Hyz Hb']; subst; constructor; eauto.
Qed.

Lemma Forall2_weaken {X Y} (R1 R2 : X -> Y -> Prop) a b :
  (forall x y, R1 x y -> R2 x y) -> Forall2 R1 a b -> Forall2 R2 a b.
Proof. intros HR H. induction H; constructor; auto. Qed.

(** * Association lists with first-seen order *)
Section Grouped.
  Variables (Row K S O : Type).
  Variable keqb : K -> K -> bool.
  Variable key : Row -> K.
  Variable A : aggregator Row S O.
  Hypothesis keqb_spec : forall a b, keqb a b = true <-> a = b.

  Notation groups := (list (K * S)).

  Lemma keqb_refl k : keqb k k = true.
  Proof. apply keqb_spec. reflexivity. Qed.

  Lemma keqb_sym a b : keqb a b = keqb b a.
  Proof.
    destruct (keqb a b) eqn:E1, (keqb b a) eqn:E2; auto.
    - apply keqb_spec in E1. subst. rewrite keqb_refl in E2. discriminate.
    - apply keqb_spec in E2. subst. rewrite keqb_refl in E1. discriminate.
  Qed.

  Lemma keqb_false a b : keqb a b = false <-> a <> b.
  Proof.
    split.
    - intros E H. subst. rewrite keqb_refl in E. discriminate.
    - intros H. destruct (keqb a b) eqn:E; auto. apply keqb_spec in E. contradiction.
  Qed.

  Lemma key_mem_In k ks : key_mem keqb k ks = true <-> In k ks.
  Proof.
    unfold key_mem. rewrite existsb_exists. split.
    - intros [x [Hx E]]. apply keqb_spec in E. subst. exact Hx.
    - intros H. exists k. split; auto. apply keqb_refl.
  Qed.

  Lemma key_mem_app k a b : key_mem keqb k (a ++ b) = key_mem keqb k a || key_mem keqb k b.
  Proof. apply existsb_app. Qed.

  Lemma key_mem_add k acc y : key_mem keqb k (add_key keqb acc y) = key_mem keqb k acc || keqb k y.
  Proof.
    unfold add_key. destruct (key_mem keqb y acc) eqn:E.
    - destruct (keqb k y) eqn:E2.
      + apply keqb_spec in E2. subst. rewrite E. reflexivity.
      + rewrite orb_false_r. reflexivity.
    - rewrite key_mem_app. simpl. rewrite orb_false_r. reflexivity.
  Qed.

  Lemma key_mem_fold k l acc :
    key_mem keqb k (fold_left (add_key keqb) l acc) = key_mem keqb k acc || key_mem keqb k l.
  Proof.
    revert acc. induction l as [|x l IH]; intros acc; simpl.
    - rewrite orb_false_r. reflexivity.
    - rewrite IH, key_mem_add. rewrite orb_assoc. reflexivity.
  Qed.

  Lemma first_keys_snoc l x : first_keys keqb (l ++ [x]) = add_key keqb (first_keys keqb l) x.
  Proof. unfold first_keys. rewrite fold_left_app. reflexivity. Qed.

  Lemma key_mem_first_keys k l : key_mem keqb k (first_keys keqb l) = key_mem keqb k l.
  Proof. unfold first_keys. rewrite key_mem_fold. reflexivity. Qed.

  Lemma In_first_keys k l : In k (first_keys keqb l) <-> In k l.
  Proof. rewrite <- !key_mem_In. rewrite key_mem_first_keys. reflexivity. Qed.

  Lemma NoDup_add acc y : NoDup acc -> NoDup (add_key keqb acc y).
  Proof.
    intros H. unfold add_key. destruct (key_mem keqb y acc) eqn:E; auto.
    apply (Permutation_NoDup (Permutation_cons_append acc y)). constructor; auto.
    intros Hin. apply key_mem_In in Hin. congruence.
  Qed.

  Lemma NoDup_fold_add l acc : NoDup acc -> NoDup (fold_left (add_key keqb) l acc).
  Proof. revert acc. induction l; intros acc H; simpl; auto. apply IHl. apply NoDup_add. exact H. Qed.

  Lemma NoDup_first_keys l : NoDup (first_keys keqb l).
  Proof. apply NoDup_fold_add. constructor. Qed.

  Lemma add_key_in acc y : key_mem keqb y acc = true -> add_key keqb acc y = acc.
  Proof. intros E. unfold add_key. rewrite E. reflexivity. Qed.
  Lemma add_key_notin acc y : key_mem keqb y acc = false -> add_key keqb acc y = acc ++ [y].
  Proof. intros E. unfold add_key. rewrite E. reflexivity. Qed.

  (* adding the distinct keys of l (in first-seen order) is the same as adding all of l *)
  Lemma fold_add_first_keys l acc :
    fold_left (add_key keqb) (first_keys keqb l) acc = fold_left (add_key keqb) l acc.
  Proof.
    induction l as [|x l IH] using rev_ind.
    - reflexivity.
    - rewrite first_keys_snoc. rewrite (fold_left_app _ l [x]). simpl.
      destruct (key_mem keqb x (first_keys keqb l)) eqn:E.
      + rewrite (add_key_in _ _ E). rewrite IH. symmetry. apply add_key_in.
        rewrite key_mem_fold. rewrite key_mem_first_keys in E. rewrite E, orb_true_r. reflexivity.
      + rewrite (add_key_notin _ _ E). rewrite fold_left_app. simpl. rewrite IH. reflexivity.
  Qed.

  Lemma first_keys_app a b :
    first_keys keqb (a ++ b) = fold_left (add_key keqb) (first_keys keqb b) (first_keys keqb a).
  Proof. rewrite fold_add_first_keys. unfold first_keys. apply fold_left_app. Qed.

  (** ** g_find / g_set / g_absorb *)
  Lemma g_find_app k (gs : groups) k' s :
    g_find keqb k (gs ++ [(k', s)]) =
    match g_find keqb k gs with Some x => Some x | None => if keqb k k' then Some s else None end.
  Proof.
    induction gs as [|[k0 s0] gs IH]; simpl.
    - reflexivity.
    - destruct (keqb k k0); auto.
  Qed.

  Lemma g_find_set k k' s (gs : groups) :
    g_find keqb k (g_set keqb k' s gs) =
    if keqb k k' then match g_find keqb k gs with Some _ => Some s | None => None end else g_find keqb k gs.
  Proof.
    induction gs as [|[k0 s0] gs IH]; simpl.
    - destruct (keqb k k'); reflexivity.
    - destruct (keqb k' k0) eqn:E0; simpl.
      + apply keqb_spec in E0. subst k0. destruct (keqb k k'); reflexivity.
      + destruct (keqb k k0) eqn:E1.
        * apply keqb_spec in E1. subst k0. rewrite keqb_sym, E0. reflexivity.
        * exact IH.
  Qed.

  Lemma keys_set k s (gs : groups) : map fst (g_set keqb k s gs) = map fst gs.
  Proof.
    induction gs as [|[k0 s0] gs IH]; simpl; auto.
    destruct (keqb k k0); simpl; congruence.
  Qed.

  Lemma g_find_None k (gs : groups) : g_find keqb k gs = None <-> key_mem keqb k (map fst gs) = false.
  Proof.
    induction gs as [|[k0 s0] gs IH]; simpl.
    - split; auto.
    - destruct (keqb k k0); simpl.
      + split; discriminate.
      + exact IH.
  Qed.

  Section Absorb.
    Variables (X Y : Type).
    Variable adopt : X -> S.
    Variable comb : S -> X -> S.
    Variable kf : Y -> K.
    Variable vf : Y -> X.

    Definition ostep (k : K) (o : option S) (y : Y) : option S :=
      if keqb k (kf y) then Some (match o with None => adopt (vf y) | Some s => comb s (vf y) end) else o.

    Lemma find_absorb k acc k' x :
      g_find keqb k (g_absorb keqb adopt comb acc k' x) =
      if keqb k k' then Some (match g_find keqb k acc with None => adopt x | Some s => comb s x end)
      else g_find keqb k acc.
    Proof.
      unfold g_absorb. destruct (g_find keqb k' acc) eqn:E.
      - rewrite g_find_set. destruct (keqb k k') eqn:E1; auto.
        apply keqb_spec in E1. subst k'. rewrite E. reflexivity.
      - rewrite g_find_app. destruct (keqb k k') eqn:E1.
        + apply keqb_spec in E1. subst k'. rewrite E. reflexivity.
        + destruct (g_find keqb k acc); reflexivity.
    Qed.

    Lemma keys_absorb acc k' x :
      map fst (g_absorb keqb adopt comb acc k' x) = add_key keqb (map fst acc) k'.
    Proof.
      unfold g_absorb, add_key. destruct (g_find keqb k' acc) eqn:E.
      - rewrite keys_set. destruct (key_mem keqb k' (map fst acc)) eqn:E2; auto.
        apply g_find_None in E2. congruence.
      - apply g_find_None in E. rewrite E. rewrite map_app. reflexivity.
    Qed.

    Definition absorb_all (ys : list Y) (acc : groups) : groups :=
      fold_left (fun acc y => g_absorb keqb adopt comb acc (kf y) (vf y)) ys acc.

    Lemma find_absorb_all k ys acc :
      g_find keqb k (absorb_all ys acc) = fold_left (ostep k) ys (g_find keqb k acc).
    Proof.
      revert acc. induction ys as [|y ys IH]; intros acc; simpl; auto.
      unfold absorb_all in *. simpl. rewrite IH. rewrite find_absorb. reflexivity.
    Qed.

    Lemma keys_absorb_all ys acc :
      map fst (absorb_all ys acc) = fold_left (add_key keqb) (map kf ys) (map fst acc).
    Proof.
      revert acc. induction ys as [|y ys IH]; intros acc; simpl; auto.
      unfold absorb_all in *. simpl. rewrite IH. rewrite keys_absorb. reflexivity.
    Qed.

    (* only the items of key k matter, and they are chained in order *)
    Definition chain (ys : list Y) : option S :=
      match ys with
      | [] => None
      | y :: ys' => Some (fold_left comb (map vf ys') (adopt (vf y)))
      end.

    Lemma ostep_fold_some k ys s :
      fold_left (ostep k) ys (Some s) =
      Some (fold_left comb (map vf (filter (fun y => keqb k (kf y)) ys)) s).
    Proof.
      revert s. induction ys as [|y ys IH]; intros s; simpl; auto.
      unfold ostep at 2. destruct (keqb k (kf y)); simpl; apply IH.
    Qed.

    Lemma ostep_fold_none k ys :
      fold_left (ostep k) ys None = chain (filter (fun y => keqb k (kf y)) ys).
    Proof.
      induction ys as [|y ys IH]; simpl; auto.
      unfold ostep at 2. destruct (keqb k (kf y)); simpl.
      - apply ostep_fold_some.
      - exact IH.
    Qed.
  End Absorb.

  (** ** one partition *)
  Lemma g_partial_absorb p :
    g_partial keqb key A p =
    absorb_all (fun r => a_step A (a_init A) r) (a_step A) key (fun r => r) p [].
  Proof. reflexivity. Qed.

  Definition spec_state (k : K) (rows : list Row) : option S :=
    match rows_of keqb key k rows with [] => None | _ => Some (a_fold A (rows_of keqb key k rows)) end.

  Lemma find_partial k p : g_find keqb k (g_partial keqb key A p) = spec_state k p.
  Proof.
    rewrite g_partial_absorb, find_absorb_all. simpl. rewrite ostep_fold_none.
    unfold spec_state, rows_of, chain.
    destruct (filter (fun r => keqb k (key r)) p) as [|r rs]; auto.
    rewrite map_id. reflexivity.
  Qed.

  Lemma keys_partial p : map fst (g_partial keqb key A p) = first_keys keqb (map key p).
  Proof. rewrite g_partial_absorb, keys_absorb_all. reflexivity. Qed.

  (** ** merging a partial into the accumulated groups *)
  Lemma g_merge_stats_absorb (G other : groups) :
    g_merge_stats keqb A G other = absorb_all (fun s => s) (a_merge A) fst snd other G.
  Proof. reflexivity. Qed.

  Lemma filter_key_nodup k (gs : groups) :
    NoDup (map fst gs) ->
    filter (fun ks => keqb k (fst ks)) gs =
    match g_find keqb k gs with None => [] | Some s => [(k, s)] end.
  Proof.
    induction gs as [|[k0 s0] gs IH]; simpl; intros ND; auto.
    inversion ND as [|? ? Hnin ND']; subst.
    destruct (keqb k k0) eqn:E.
    - apply keqb_spec in E. subst k0. f_equal.
      rewrite IH by exact ND'.
      destruct (g_find keqb k gs) eqn:E2; auto.
      exfalso. apply Hnin. apply key_mem_In.
      destruct (key_mem keqb k (map fst gs)) eqn:E3; auto.
      apply g_find_None in E3. congruence.
    - apply IH. exact ND'.
  Qed.

  Definition omerge (a b : option S) : option S :=
    match a, b with
    | o, None => o
    | None, Some t => Some t
    | Some s, Some t => Some (a_merge A s t)
    end.

  Lemma find_merge_stats k (G other : groups) :
    NoDup (map fst other) ->
    g_find keqb k (g_merge_stats keqb A G other) = omerge (g_find keqb k G) (g_find keqb k other).
  Proof.
    intros ND. rewrite g_merge_stats_absorb, find_absorb_all.
    destruct (g_find keqb k G) as [s|] eqn:EG.
    - rewrite ostep_fold_some. rewrite (filter_key_nodup k other ND).
      destruct (g_find keqb k other); reflexivity.
    - rewrite ostep_fold_none. rewrite (filter_key_nodup k other ND).
      destruct (g_find keqb k other); reflexivity.
  Qed.

  Lemma keys_merge_stats (G other : groups) :
    map fst (g_merge_stats keqb A G other) = fold_left (add_key keqb) (map fst other) (map fst G).
  Proof. rewrite g_merge_stats_absorb. apply keys_absorb_all. Qed.

  Lemma g_aggregate_snoc ps p :
    g_aggregate keqb key A (ps ++ [p]) =
    g_merge_stats keqb A (g_aggregate keqb key A ps) (g_partial keqb key A p).
  Proof. unfold g_aggregate. rewrite map_app, fold_left_app. reflexivity. Qed.

  (** ** the keys of the result: distinct keys of all rows, in first-seen order over the concatenation *)
  Theorem keys_aggregate ps :
    map fst (g_aggregate keqb key A ps) = first_keys keqb (map key (concat ps)).
  Proof.
    induction ps as [|p ps IH] using rev_ind.
    - reflexivity.
    - rewrite g_aggregate_snoc, keys_merge_stats, IH, keys_partial.
      rewrite concat_app. simpl. rewrite app_nil_r, map_app. symmetry. apply first_keys_app.
  Qed.

  Theorem keys_aggregate_full ps :
    map fst (g_aggregate keqb key A ps) = first_keys keqb (map key (concat ps))
    /\ NoDup (first_keys keqb (map key (concat ps)))
    /\ (forall k, In k (first_keys keqb (map key (concat ps))) <-> In k (map key (concat ps))).
  Proof.
    split; [apply keys_aggregate|split; [apply NoDup_first_keys|intros k; apply In_first_keys]].
  Qed.

  Lemma rows_of_app k a b : rows_of keqb key k (a ++ b) = rows_of keqb key k a ++ rows_of keqb key k b.
  Proof. apply filter_app. Qed.

  Section WithLaws.
    Variable eqS : S -> S -> Prop.
    Variable eqO : O -> O -> Prop.
    Hypothesis L : agg_laws_ne A eqS eqO.

    Definition oeq (a b : option S) : Prop :=
      match a, b with
      | None, None => True
      | Some s, Some t => eqS s t
      | _, _ => False
      end.

    Let Eq := l_equiv L.

    (** ** the state of every key: the fold over its own rows, in the order of the concatenated partitions *)
    Theorem find_aggregate k ps :
      oeq (g_find keqb k (g_aggregate keqb key A ps)) (spec_state k (concat ps)).
    Proof.
      induction ps as [|p ps IH] using rev_ind.
      - simpl. exact I.
      - rewrite g_aggregate_snoc, find_merge_stats.
        2:{ rewrite keys_partial. apply NoDup_first_keys. }
        rewrite find_partial. rewrite concat_app. simpl. rewrite app_nil_r.
        unfold spec_state in *. rewrite rows_of_app.
        destruct (g_find keqb k (g_aggregate keqb key A ps)) as [s|];
          destruct (rows_of keqb key k (concat ps)) as [|x xs] eqn:EX;
          destruct (rows_of keqb key k p) as [|y ys] eqn:EY; simpl in *; try contradiction; auto.
        + rewrite app_nil_r. exact IH.
        + eapply (@Equivalence_Transitive _ _ Eq).
          * apply (l_merge_proper L). exact IH. apply (@Equivalence_Reflexive _ _ Eq).
          * apply (l_hom_ne L (xs:=x :: xs) (ys:=y :: ys)); discriminate.
        + apply (@Equivalence_Reflexive _ _ Eq).
    Qed.

    Lemma g_find_map k ks (f : K -> S) :
      In k ks -> g_find keqb k (map (fun k => (k, f k)) ks) = Some (f k).
    Proof.
      induction ks as [|k0 ks IH]; simpl; intros H; [contradiction|].
      destruct (keqb k k0) eqn:E.
      - apply keqb_spec in E. subst. reflexivity.
      - destruct H as [H|H]; [subst; rewrite keqb_refl in E; discriminate|auto].
    Qed.

    Lemma Forall2_by_find (R : S -> S -> Prop) (G H : groups) :
      map fst G = map fst H -> NoDup (map fst G) ->
      (forall k, In k (map fst G) -> exists s t, g_find keqb k G = Some s /\ g_find keqb k H = Some t /\ R s t) ->
      Forall2 (fun g h => fst g = fst h /\ R (snd g) (snd h)) G H.
    Proof.
      revert H. induction G as [|[k s] G IH]; intros [|[k' t] H] EK ND HF; simpl in *; try discriminate.
      - constructor.
      - injection EK as E1 E2. subst k'. inversion ND as [|? ? Hnin ND']; subst.
        constructor.
        + simpl. split; auto.
          destruct (HF k (or_introl eq_refl)) as [s1 [t1 [F1 [F2 HR]]]].
          rewrite keqb_refl in F1, F2. congruence.
        + apply IH; auto.
          intros k2 Hin. destruct (HF k2 (or_intror Hin)) as [s1 [t1 [F1 [F2 HR]]]].
          assert (keqb k2 k = false) as E by (apply keqb_false; intros ->; contradiction).
          rewrite E in F1, F2. eauto.
    Qed.

    Definition group_rel (g h : K * S) : Prop := fst g = fst h /\ eqS (snd g) (snd h).

    (** ** aggregate_hom: any number of partitions, empty ones included *)
    Theorem aggregate_hom ps :
      Forall2 group_rel (g_aggregate keqb key A ps) (g_spec keqb key A (concat ps)).
    Proof.
      apply Forall2_by_find.
      - rewrite keys_aggregate. unfold g_spec. rewrite map_map. simpl. rewrite map_id. reflexivity.
      - rewrite keys_aggregate. apply NoDup_first_keys.
      - intros k Hin. rewrite keys_aggregate in Hin.
        pose proof (find_aggregate k ps) as HF.
        unfold g_spec. rewrite (g_find_map _ _ _ Hin).
        unfold spec_state in HF.
        apply (proj1 (In_first_keys _ _)) in Hin. apply in_map_iff in Hin. destruct Hin as [r [Hk Hr]].
        assert (In r (rows_of keqb key k (concat ps))) as Hr'.
        { unfold rows_of. apply filter_In. split; auto. subst k. apply keqb_refl. }
        destruct (rows_of keqb key k (concat ps)) as [|x xs] eqn:EX; [contradiction|].
        destruct (g_find keqb k (g_aggregate keqb key A ps)) as [s|]; [|contradiction].
        exists s, (a_fold A (x :: xs)). auto.
    Qed.

    Definition out_rel (g h : K * O) : Prop := fst g = fst h /\ eqO (snd g) (snd h).

    Theorem result_hom ps :
      Forall2 out_rel (g_result A (g_aggregate keqb key A ps)) (g_result A (g_spec keqb key A (concat ps))).
    Proof.
      unfold g_result. pose proof (aggregate_hom ps) as H.
      induction H as [|g h G H' [H1 H2] HF IH]; simpl; constructor; auto.
      split; simpl; auto. apply (l_out_proper L). exact H2.
    Qed.

    (* the single-partition result is a special case, hence: every partitioning agrees with the single partition *)
    Corollary result_partition_independent ps qs :
      concat ps = concat qs ->
      Forall2 (fun g h => fst g = fst h /\ exists o, eqO (snd g) o /\ eqO (snd h) o)
              (g_result A (g_aggregate keqb key A ps)) (g_result A (g_aggregate keqb key A qs)).
    Proof.
      intros E. pose proof (result_hom ps) as Hp. pose proof (result_hom qs) as Hq. rewrite <- E in Hq.
      eapply Forall2_weaken; [|exact (Forall2_join Hp Hq)].
      intros g h [z [[E1 O1] [E2 O2]]]. split; [congruence|]. eauto.
    Qed.
  End WithLaws.

  (** ** exact aggregators (eqS, eqO = Leibniz equality): list equality *)
  Theorem aggregate_hom_exact :
    agg_laws_ne A eq eq ->
    forall ps, g_result A (g_aggregate keqb key A ps) = g_result A (g_spec keqb key A (concat ps)).
  Proof.
    intros L ps. pose proof (result_hom L ps) as H.
    induction H as [|x y G H' HR HF IH].
    - reflexivity.
    - destruct x, y, HR as [H1 H2]. simpl in *. subst. reflexivity.
  Qed.

  Theorem partition_independent_exact :
    agg_laws_ne A eq eq ->
    forall ps, g_result A (g_aggregate keqb key A ps) = g_result A (g_aggregate keqb key A [concat ps]).
  Proof.
    intros L ps. rewrite (aggregate_hom_exact L ps), (aggregate_hom_exact L [concat ps]).
    simpl. rewrite app_nil_r. reflexivity.
  Qed.
End Grouped.
