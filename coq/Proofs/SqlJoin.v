(* Lemmas for property C13: the model of DataFrame joins on column names (PV.Model.SqlJoin) produces,
   as a multiset of rows, the nested-loop reference (PV.Model.SqlJoinRef), with the declared columns. *)
From Coq Require Import ZArith NArith List Bool Permutation.
Require Import PV.Gen.Joins PV.Model.SqlJoin PV.Model.SqlJoinRef PV.Proofs.SqlJoinKeyed.
Import ListNotations.

(* ------------------------------------------------------------------------------------------ *)
(** * Boolean equalities are Leibniz equality *)
Lemma name_eqb_spec a b : name_eqb a b = true <-> a = b.
Proof.
  revert b. induction a as [|x a IH]; intros [|y b]; simpl; try (split; [discriminate|discriminate]).
  - split; reflexivity.
  - rewrite andb_true_iff, N.eqb_eq, IH. split; [intros [-> ->]; reflexivity | intros [= -> ->]; split; reflexivity].
Qed.

Lemma cell_eqb_spec a b : cell_eqb a b = true <-> a = b.
Proof.
  destruct a, b; simpl; try (split; [discriminate|discriminate]).
  - split; reflexivity.
  - rewrite Z.eqb_eq. split; [intros ->; reflexivity | intros [= ->]; reflexivity].
  - rewrite name_eqb_spec. split; [intros ->; reflexivity | intros [= ->]; reflexivity].
Qed.

Lemma cell_eqb_sym a b : cell_eqb a b = cell_eqb b a.
Proof.
  destruct (cell_eqb a b) eqn:E.
  - apply cell_eqb_spec in E. subst. symmetry. now apply cell_eqb_spec.
  - destruct (cell_eqb b a) eqn:E'; [|reflexivity]. apply cell_eqb_spec in E'. subst.
    assert (H : cell_eqb a a = true) by now apply cell_eqb_spec. congruence.
Qed.

Lemma cells_eqb_spec a b : cells_eqb a b = true <-> a = b.
Proof.
  revert b. induction a as [|x a IH]; intros [|y b]; simpl; try (split; [discriminate|discriminate]).
  - split; reflexivity.
  - rewrite andb_true_iff, cell_eqb_spec, IH. split; [intros [-> ->]; reflexivity | intros [= -> ->]; split; reflexivity].
Qed.

Lemma key_eqb_spec a b : key_eqb a b = true <-> a = b.
Proof.
  destruct a, b; simpl; try (split; [discriminate|discriminate]).
  - split; reflexivity.
  - rewrite cells_eqb_spec. split; [intros ->; reflexivity | intros [= ->]; reflexivity].
Qed.

Lemma field_eqb_spec f g : field_eqb f g = true <-> f = g.
Proof.
  destruct f as [i n t b], g as [i' n' t' b']. unfold field_eqb. simpl.
  rewrite !andb_true_iff, N.eqb_eq, name_eqb_spec, Z.eqb_eq, eqb_true_iff.
  split; [intros [[[-> ->] ->] ->]; reflexivity | intros [= -> -> -> ->]; repeat split].
Qed.

Lemma name_mem_in c l : name_mem c l = true <-> In c l.
Proof.
  unfold name_mem. rewrite existsb_exists. split.
  - intros [x [Hin E]]. apply name_eqb_spec in E. now subst.
  - intros H. exists c. split; [exact H | now apply name_eqb_spec].
Qed.

Lemma field_mem_in f l : field_mem f l = true <-> In f l.
Proof.
  unfold field_mem. rewrite existsb_exists. split.
  - intros [x [Hin E]]. apply field_eqb_spec in E. now subst.
  - intros H. exists f. split; [exact H | now apply field_eqb_spec].
Qed.

Lemma bool_eq_iff (a b : bool) : (a = true <-> b = true) -> a = b.
Proof. destruct a, b; intros [H1 H2]; try reflexivity; [symmetry; now apply H1 | now apply H2]. Qed.

(* ------------------------------------------------------------------------------------------ *)
(** * get_on_fields *)
Lemma get_on_field_some s c f : get_on_field s c = Some f -> In f s /\ fname f = c.
Proof. unfold get_on_field. intros H. apply find_some in H. destruct H as [H1 H2]. now apply name_eqb_spec in H2. Qed.

Lemma get_on_field_exists s c : In c (names_of s) -> exists f, get_on_field s c = Some f.
Proof.
  unfold get_on_field, names_of. induction s as [|g s IH]; simpl; [intros []|].
  intros [H|H].
  - exists g. assert (E : name_eqb (fname g) c = true) by now apply name_eqb_spec. now rewrite E.
  - destruct (name_eqb (fname g) c); [now exists g | now apply IH].
Qed.

Lemma get_on_fields_exists s on :
  Forall (fun c => In c (names_of s)) on -> exists fs, get_on_fields s on = Some fs.
Proof.
  induction on as [|c on IH]; simpl; intros H; [now exists []|].
  inversion H as [|? ? Hc Hon]; subst.
  destruct (get_on_field_exists s c Hc) as [f ->]. destruct (IH Hon) as [fs ->]. now exists (f :: fs).
Qed.

Lemma get_on_fields_names s on fs : get_on_fields s on = Some fs -> map fname fs = on.
Proof.
  revert fs. induction on as [|c on IH]; simpl; intros fs.
  - now intros [= <-].
  - destruct (get_on_field s c) as [f|] eqn:E; [|discriminate].
    destruct (get_on_fields s on) as [fs'|]; [|discriminate]. intros [= <-]. simpl.
    apply get_on_field_some in E. destruct E as [_ ->]. now rewrite (IH fs').
Qed.

Lemma get_on_fields_in s on fs f : get_on_fields s on = Some fs -> In f fs -> In f s.
Proof.
  revert fs. induction on as [|c on IH]; simpl; intros fs.
  - intros [= <-] [].
  - destruct (get_on_field s c) as [g|] eqn:E; [|discriminate].
    destruct (get_on_fields s on) as [fs'|]; [|discriminate]. intros [= <-] [H|H].
    + subst. now apply get_on_field_some in E.
    + now apply (IH fs').
Qed.

Lemma nodup_names_inj s f g : NoDup (names_of s) -> In f s -> In g s -> fname f = fname g -> f = g.
Proof.
  unfold names_of. induction s as [|x s IH]; simpl; [intros _ []|].
  intros ND Hf Hg E. inversion ND as [|? ? Hn ND']; subst.
  destruct Hf as [Hf|Hf], Hg as [Hg|Hg]; subst.
  - reflexivity.
  - exfalso. apply Hn. rewrite E. now apply in_map.
  - exfalso. apply Hn. rewrite <- E. now apply in_map.
  - now apply IH.
Qed.

(* with distinct column names, `field not in on_fields` is `name not in on` *)
Lemma on_fields_mem s on fs f :
  NoDup (names_of s) -> get_on_fields s on = Some fs -> In f s -> field_mem f fs = name_mem (fname f) on.
Proof.
  intros ND Hfs Hf. apply bool_eq_iff. rewrite field_mem_in, name_mem_in. split.
  - intros H. rewrite <- (get_on_fields_names s on fs Hfs). now apply in_map.
  - intros H. rewrite <- (get_on_fields_names s on fs Hfs) in H. apply in_map_iff in H.
    destruct H as [g [E Hg]].
    assert (g = f) by (apply (nodup_names_inj s); auto; eapply get_on_fields_in; eauto).
    now subst.
Qed.

(* ------------------------------------------------------------------------------------------ *)
(** * other_fields / other_parts by name *)
Lemma other_fields_names s on fs :
  NoDup (names_of s) -> get_on_fields s on = Some fs -> names_of (other_fields s fs) = rest_names on s.
Proof.
  intros ND Hfs. unfold other_fields, rest_names, names_of.
  rewrite filter_map_comm. f_equal. apply filter_ext_in. intros f Hf.
  now rewrite (on_fields_mem s on fs f ND Hfs Hf).
Qed.

Lemma parts_by_name (p : name -> bool) (s : schema) (vals : list cell) :
  map (fun fv => (fname (fst fv), snd fv)) (filter (fun fv : field * cell => p (fname (fst fv))) (combine s vals))
  = filter (fun nv => p (fst nv)) (combine (names_of s) vals).
Proof.
  revert vals. induction s as [|f s IH]; intros [|v vals]; simpl; try reflexivity.
  destruct (p (fname f)); simpl; now rewrite IH.
Qed.

Lemma other_parts_by_name s on fs r :
  NoDup (names_of s) -> get_on_fields s on = Some fs ->
  other_parts s fs r = filter (fun nv => negb (name_mem (fst nv) on)) (combine (names_of s) (row_values r)).
Proof.
  intros ND Hfs. unfold other_parts.
  rewrite <- (parts_by_name (fun n => negb (name_mem n on))). f_equal.
  apply filter_ext_in. intros [f v] Hin. simpl. apply in_combine_l in Hin.
  now rewrite (on_fields_mem s on fs f ND Hfs Hin).
Qed.

Lemma filter_combine_fst {A} (p : name -> bool) (ns : list name) (vals : list A) :
  length vals = length ns ->
  map fst (filter (fun nv => p (fst nv)) (combine ns vals)) = filter p ns.
Proof.
  revert vals. induction ns as [|n ns IH]; intros [|v vals]; simpl; try reflexivity; try discriminate.
  intros [= H]. destruct (p n); simpl; now rewrite IH.
Qed.

Lemma other_parts_names s on fs r :
  NoDup (names_of s) -> get_on_fields s on = Some fs -> length (row_values r) = length s ->
  map fst (other_parts s fs r) = rest_names on s.
Proof.
  intros ND Hfs Hlen. rewrite (other_parts_by_name s on fs r ND Hfs). unfold rest_names.
  apply (filter_combine_fst (fun n => negb (name_mem n on))). unfold names_of. now rewrite map_length.
Qed.

Lemma other_parts_values s on fs r :
  NoDup (names_of s) -> get_on_fields s on = Some fs -> map snd (other_parts s fs r) = rest_values on s r.
Proof. intros ND Hfs. now rewrite (other_parts_by_name s on fs r ND Hfs). Qed.

Lemma null_row_values on s : rest_values on s (null_row s) = nulls (rest_names on s).
Proof.
  unfold rest_values, null_row, nulls, rest_names, names_of. simpl.
  induction s as [|f s IH]; simpl; [reflexivity|].
  destruct (negb (name_mem (fname f) on)); simpl; now rewrite IH.
Qed.

Lemma null_row_length s : length (row_values (null_row s)) = length s.
Proof. unfold null_row. simpl. now rewrite map_length. Qed.

(* ------------------------------------------------------------------------------------------ *)
(** * merge_schemas: the declared columns *)
Lemma drops_right_semi_anti h : schema_drops_right h = is_semi_anti h.
Proof. destruct h; reflexivity. Qed.

Lemma right_parts_semi_anti h : row_right_parts h = Some (negb (is_semi_anti h)).
Proof. destruct h; reflexivity. Qed.

Lemma merge_schemas_columns ls rs h on :
  NoDup (names_of ls) -> NoDup (names_of rs) -> shared on ls rs ->
  exists s, merge_schemas ls rs h on = Ok s /\ names_of s = out_columns h on ls rs.
Proof.
  intros NDl NDr Hsh.
  assert (Hl : Forall (fun c => In c (names_of ls)) on) by (eapply Forall_impl; [|exact Hsh]; now intros c [H _]).
  assert (Hr : Forall (fun c => In c (names_of rs)) on) by (eapply Forall_impl; [|exact Hsh]; now intros c [_ H]).
  destruct (get_on_fields_exists ls on Hl) as [lof El]. destruct (get_on_fields_exists rs on Hr) as [rof Er].
  unfold merge_schemas. rewrite El, Er.
  assert (Hon : forall choice,
             names_of (match choice with
                       | OnLeft => lof
                       | OnRight => rof
                       | OnLeftNullable => map (fun f => mkField 0 (fname f) (ftype f) true) lof
                       end) = on).
  { intros []; unfold names_of.
    - now apply (get_on_fields_names ls).
    - now apply (get_on_fields_names rs).
    - rewrite map_map. simpl. now apply (get_on_fields_names ls). }
  destruct (schema_on_fields h) as [choice|] eqn:Ech; [|destruct h; discriminate].
  eexists. split; [reflexivity|].
  unfold out_columns. unfold names_of at 1. rewrite !map_app. fold (names_of (other_fields ls lof)).
  change (map fname ?x) with (names_of x). rewrite Hon.
  rewrite (other_fields_names ls on lof NDl El). rewrite drops_right_semi_anti.
  destruct (is_semi_anti h); [reflexivity|].
  now rewrite (other_fields_names rs on rof NDr Er).
Qed.

(* ------------------------------------------------------------------------------------------ *)
(** * merge_rows_joined_on_values: the output row *)
Definition row_ok (s : schema) (r : row) : Prop := length (row_values r) = length s.

(* the shapes of joined pairs that the join family hands to format_output *)
Definition shape_ok (h : how) (ls rs : schema) (L R : list row) (e : option row * option row) : Prop :=
  match e with
  | (Some l, Some r) => In l L /\ In r R
  | (Some l, None) => In l L /\ (row_pads_right h = true \/ is_semi_anti h = true)
  | (None, Some r) => In r R /\ row_pads_left h = true
  | (None, None) => False
  end.

Lemma merge_joined_ok ls rs h on L R e :
  NoDup (names_of ls) -> NoDup (names_of rs) -> shared on ls rs ->
  Forall (row_ok ls) L -> Forall (row_ok rs) R ->
  shape_ok h ls rs L R e ->
  merge_joined ls rs h on (fst e) (snd e) = Ok (out_row h on ls rs (fst e) (snd e)).
Proof.
  intros NDl NDr Hsh HL HR Hshape.
  assert (Hl : Forall (fun c => In c (names_of ls)) on) by (eapply Forall_impl; [|exact Hsh]; now intros c [H _]).
  assert (Hr : Forall (fun c => In c (names_of rs)) on) by (eapply Forall_impl; [|exact Hsh]; now intros c [_ H]).
  destruct (get_on_fields_exists ls on Hl) as [lof El]. destruct (get_on_fields_exists rs on Hr) as [rof Er].
  unfold merge_joined. rewrite El, Er, right_parts_semi_anti.
  rewrite Forall_forall in HL, HR.
  assert (Pn : forall s fs x, NoDup (names_of s) -> get_on_fields s on = Some fs -> row_ok s x ->
                 map fst (other_parts s fs x) = rest_names on s)
    by (intros; now apply other_parts_names).
  assert (Pv : forall s fs x, NoDup (names_of s) -> get_on_fields s on = Some fs ->
                 map snd (other_parts s fs x) = rest_values on s x)
    by (intros; now apply other_parts_values).
  assert (Hkeys : forall src : row, map fst (map (fun c => (c, row_get src c)) on) = on
                             /\ map snd (map (fun c => (c, row_get src c)) on) = map (row_get src) on).
  { intros src. rewrite !map_map. simpl. split; [apply map_id | reflexivity]. }
  unfold out_row, out_columns, row_from_keyed_values.
  destruct e as [[l|] [r|]]; simpl in Hshape |- *.
  - destruct Hshape as [Hl' Hr']. specialize (HL _ Hl'). specialize (HR _ Hr').
    destruct (Hkeys l) as [K1 K2].
    destruct (is_semi_anti h); simpl; rewrite !map_app, K1, K2, ?Pn, ?Pv, ?app_nil_r by assumption; reflexivity.
  - destruct Hshape as [Hl' Hpad]. specialize (HL _ Hl').
    destruct (Hkeys l) as [K1 K2].
    destruct (is_semi_anti h) eqn:Esa; simpl.
    + rewrite !map_app, K1, K2, ?Pn, ?Pv, ?app_nil_r by assumption. reflexivity.
    + destruct Hpad as [Hpad|Hpad]; [|discriminate]. rewrite Hpad.
      rewrite !map_app, K1, K2, ?Pn, ?Pv by (try assumption; apply null_row_length).
      now rewrite null_row_values.
  - destruct Hshape as [Hr' Hpad]. specialize (HR _ Hr'). rewrite Hpad.
    destruct (Hkeys r) as [K1 K2].
    assert (Esa : is_semi_anti h = false) by (destruct h; try reflexivity; vm_compute in Hpad; discriminate).
    rewrite Esa. simpl.
    rewrite !map_app, K1, K2, ?Pn, ?Pv by (try assumption; apply null_row_length).
    now rewrite null_row_values.
  - contradiction.
Qed.

Lemma sequence_ok {A B} (f : A -> result B) (g : A -> B) l :
  Forall (fun a => f a = Ok (g a)) l -> sequence (map f l) = Ok (map g l).
Proof.
  induction l as [|a l IH]; simpl; intros H; [reflexivity|].
  inversion H as [|? ? Ha Hl]; subst. rewrite Ha, (IH Hl). reflexivity.
Qed.

(* ------------------------------------------------------------------------------------------ *)
(** * join_on_values *)
Definition keyf (on : list name) (r : row) : key := KTuple (map (row_get r) on).
Definition akey (on : list name) (r : row) : key * row := (keyf on r, r).

Lemma key_is_tuple_not_cross h : h <> CROSS_JOIN -> key_is_tuple h = true.
Proof. destruct h; intros H; try reflexivity. now contradiction H. Qed.

Lemma add_key_akey h on rows : h <> CROSS_JOIN -> map (add_key h on) rows = map (akey on) rows.
Proof. intros H. apply map_ext. intros r. unfold add_key, akey, keyf. now rewrite key_is_tuple_not_cross. Qed.

Lemma vals_of_keyed on k R :
  vals_of key_eqb k (map (akey on) R) = filter (fun r => key_eqb (keyf on r) k) R.
Proof. unfold vals_of. rewrite filter_map_comm, map_map. simpl. apply map_id. Qed.

Lemma vals_of_keyed_in on k R w : In w (vals_of key_eqb k (map (akey on) R)) -> In w R.
Proof. rewrite vals_of_keyed. intros H. now apply filter_In in H. Qed.

Lemma in_some_or_none {A} (l : list A) o :
  In o (some_or_none l) -> match o with Some x => In x l | None => True end.
Proof.
  destruct l as [|y l]; simpl.
  - intros [<-|[]]. exact I.
  - intros [<-|H]; [now left|]. apply in_map_iff in H. destruct H as [x [<- Hx]]. now right.
Qed.

Lemma map_some_or_none {A B} (f : option A -> B) (ms : list A) :
  map f (some_or_none ms) = match ms with [] => [f None] | y :: l => map (fun x => f (Some x)) (y :: l) end.
Proof. destruct ms; simpl; [reflexivity|]. now rewrite map_map. Qed.

Lemma existsb_filter {A} (p : A -> bool) l :
  existsb p l = match filter p l with [] => false | _ => true end.
Proof. induction l as [|a l IH]; simpl; [reflexivity|]. destruct (p a); simpl; [reflexivity|exact IH]. Qed.

Lemma nl_shapes h m on ls rs L R :
  rdd_method h = Some m -> h <> CROSS_JOIN ->
  Forall (fun e => shape_ok h ls rs L R (snd e)) (nl_by key_eqb m (map (akey on) L) (map (akey on) R)).
Proof.
  intros Hm Hc. apply Forall_forall. intros e Hin.
  destruct h; try (now contradiction Hc); vm_compute in Hm; injection Hm as <-; cbn [nl_by] in Hin.
  - (* inner *)
    apply in_flat_map in Hin. destruct Hin as [[k l] [HL Hin]]. apply in_map_iff in HL.
    destruct HL as [l' [[= <- <-] HL]]. apply in_map_iff in Hin. destruct Hin as [w [<- Hw]].
    simpl. split; [exact HL | now apply vals_of_keyed_in in Hw].
  - (* full *)
    apply in_app_or in Hin. destruct Hin as [Hin|Hin].
    + apply in_flat_map in Hin. destruct Hin as [[k l] [HL Hin]]. apply in_map_iff in HL.
      destruct HL as [l' [[= <- <-] HL]]. apply in_map_iff in Hin. destruct Hin as [w [<- Hw]].
      apply in_some_or_none in Hw. simpl. destruct w as [w|].
      * split; [exact HL | now apply vals_of_keyed_in in Hw].
      * split; [exact HL | now left].
    + apply in_flat_map in Hin. destruct Hin as [[k r] [HR Hin]]. apply in_map_iff in HR.
      destruct HR as [r' [[= <- <-] HR]]. cbn [fst snd] in Hin.
      destruct (vals_of key_eqb (keyf on r') (map (akey on) L)); [|destruct Hin].
      destruct Hin as [<-|[]]. simpl. now split.
  - (* left *)
    apply in_flat_map in Hin. destruct Hin as [[k l] [HL Hin]]. apply in_map_iff in HL.
    destruct HL as [l' [[= <- <-] HL]]. apply in_map_iff in Hin. destruct Hin as [w [<- Hw]].
    apply in_some_or_none in Hw. simpl. destruct w as [w|].
    + split; [exact HL | now apply vals_of_keyed_in in Hw].
    + split; [exact HL | now left].
  - (* right *)
    apply in_flat_map in Hin. destruct Hin as [[k r] [HR Hin]]. apply in_map_iff in HR.
    destruct HR as [r' [[= <- <-] HR]]. apply in_map_iff in Hin. destruct Hin as [w [<- Hw]].
    apply in_some_or_none in Hw. simpl. destruct w as [w|].
    + split; [now apply vals_of_keyed_in in Hw | exact HR].
    + now split.
  - (* semi *)
    apply in_flat_map in Hin. destruct Hin as [[k l] [HL Hin]]. apply in_map_iff in HL.
    destruct HL as [l' [[= <- <-] HL]]. cbn [fst snd] in Hin.
    destruct (vals_of key_eqb (keyf on l') (map (akey on) R)); [destruct Hin|].
    destruct Hin as [<-|[]]. simpl. split; [exact HL | now right].
  - (* anti *)
    apply in_flat_map in Hin. destruct Hin as [[k l] [HL Hin]]. apply in_map_iff in HL.
    destruct HL as [l' [[= <- <-] HL]]. cbn [fst snd] in Hin.
    destruct (vals_of key_eqb (keyf on l') (map (akey on) R)); [|destruct Hin].
    destruct Hin as [<-|[]]. simpl. split; [exact HL | now right].
Qed.

Definition fmt (h : how) (on : list name) (ls rs : schema) (e : joined (K := key) row row) : row :=
  out_row h on ls rs (fst (snd e)) (snd (snd e)).

Lemma join_on_values_eq l r on h m :
  rdd_method h = Some m -> h <> CROSS_JOIN ->
  NoDup (names_of (t_schema l)) -> NoDup (names_of (t_schema r)) -> shared on (t_schema l) (t_schema r) ->
  Forall (row_ok (t_schema l)) (t_rows l) -> Forall (row_ok (t_schema r)) (t_rows r) ->
  exists J, join_on_values l r on h = Ok (map (fmt h on (t_schema l) (t_schema r)) J) /\
    Permutation J (nl_by key_eqb m (map (akey on) (t_rows l)) (map (akey on) (t_rows r))) /\
    Forall (fun e => shape_ok h (t_schema l) (t_schema r) (t_rows l) (t_rows r) (snd e)) J.
Proof.
  intros Hm Hc NDl NDr Hsh HL HR. unfold join_on_values. rewrite Hm, !add_key_akey by exact Hc.
  set (J := rdd_join_by key_eqb m _ _).
  assert (HP : Permutation J (nl_by key_eqb m (map (akey on) (t_rows l)) (map (akey on) (t_rows r))))
    by apply (rdd_join_by_perm key_eqb key_eqb_spec).
  assert (HS : Forall (fun e => shape_ok h (t_schema l) (t_schema r) (t_rows l) (t_rows r) (snd e)) J).
  { eapply Permutation_Forall; [symmetry; exact HP|]. now apply nl_shapes. }
  exists J. split; [|split; assumption].
  apply sequence_ok. eapply Forall_impl; [|exact HS]. intros e He.
  apply (merge_joined_ok (t_schema l) (t_schema r) h on (t_rows l) (t_rows r) (snd e)); assumption.
Qed.

(* ------------------------------------------------------------------------------------------ *)
(** * key equality of the RDD join = the SQL join condition, for non-null keys *)
Definition keys_non_null (on : list name) (r : row) : Prop :=
  Forall (fun c => exists v, row_get_opt r c = Some v /\ v <> CNull) on.

Lemma row_get_non_null on r c : keys_non_null on r -> In c on -> row_get r c <> CNull.
Proof.
  intros H Hc. unfold keys_non_null in H. rewrite Forall_forall in H.
  destruct (H c Hc) as [v [E Hv]]. unfold row_get. now rewrite E.
Qed.

Lemma sql_eq_cell_l a b : a <> CNull -> sql_eq a b = cell_eqb b a.
Proof. intros Ha. rewrite cell_eqb_sym. destruct a, b; try reflexivity; congruence. Qed.
Lemma sql_eq_cell_r a b : b <> CNull -> sql_eq a b = cell_eqb a b.
Proof. intros Hb. destruct a, b; try reflexivity; congruence. Qed.

Lemma key_match_l on l r : keys_non_null on l -> key_eqb (keyf on r) (keyf on l) = keys_match on l r.
Proof.
  intros H. unfold keyf, keys_match. simpl.
  assert (Hc : forall c, In c on -> row_get l c <> CNull) by (intros; now apply (row_get_non_null on)).
  clear H. induction on as [|c on IH]; simpl; [reflexivity|].
  rewrite IH by (intros; apply Hc; now right). rewrite sql_eq_cell_l by (apply Hc; now left). reflexivity.
Qed.

Lemma key_match_r on l r : keys_non_null on r -> key_eqb (keyf on l) (keyf on r) = keys_match on l r.
Proof.
  intros H. unfold keyf, keys_match. simpl.
  assert (Hc : forall c, In c on -> row_get r c <> CNull) by (intros; now apply (row_get_non_null on)).
  clear H. induction on as [|c on IH]; simpl; [reflexivity|].
  rewrite IH by (intros; apply Hc; now right). rewrite sql_eq_cell_r by (apply Hc; now left). reflexivity.
Qed.

(* ------------------------------------------------------------------------------------------ *)
(** * the nested loop over keyed pairs is the nested loop over rows *)
Section NestedLoop.
  Variables (h : how) (on : list name) (ls rs : schema) (L R : list row).
  Hypothesis HL : Forall (keys_non_null on) L.
  Hypothesis HR : Forall (keys_non_null on) R.
  Notation out := (out_row h on ls rs).
  Notation g := (fmt h on ls rs).

  Lemma matches_l l : In l L -> filter (fun r => key_eqb (keyf on r) (keyf on l)) R = filter (keys_match on l) R.
  Proof.
    intros Hl. apply filter_ext_in. intros r _. apply key_match_l.
    rewrite Forall_forall in HL. now apply HL.
  Qed.
  Lemma matches_r r : In r R -> filter (fun l => key_eqb (keyf on l) (keyf on r)) L = filter (fun l => keys_match on l r) L.
  Proof.
    intros Hr. apply filter_ext_in. intros l _. apply key_match_r.
    rewrite Forall_forall in HR. now apply HR.
  Qed.

  Lemma left_part_eq :
    map g (nl_left key_eqb (map (akey on) L) (map (akey on) R))
    = flat_map (fun l => match filter (keys_match on l) R with
                         | [] => [out (Some l) None]
                         | y :: ms => map (fun r => out (Some l) (Some r)) (y :: ms)
                         end) L.
  Proof.
    unfold nl_left. rewrite flat_map_map, map_flat_map. apply flat_map_ext_in. intros l Hl.
    cbn [akey fst snd]. rewrite map_map, vals_of_keyed, (matches_l l Hl).
    rewrite (map_some_or_none (fun w => g (keyf on l, (Some l, w)))). reflexivity.
  Qed.

  Lemma inner_eq :
    map g (nl_inner key_eqb (map (akey on) L) (map (akey on) R))
    = flat_map (fun l => flat_map (fun r => if keys_match on l r then [out (Some l) (Some r)] else []) R) L.
  Proof.
    unfold nl_inner. rewrite flat_map_map, map_flat_map. apply flat_map_ext_in. intros l Hl.
    cbn [akey fst snd]. rewrite map_map, vals_of_keyed, (matches_l l Hl).
    now rewrite flat_map_singleton_if.
  Qed.

  Lemma right_eq :
    map g (nl_right key_eqb (map (akey on) L) (map (akey on) R))
    = flat_map (fun r => match filter (fun l => keys_match on l r) L with
                         | [] => [out None (Some r)]
                         | y :: ms => map (fun l => out (Some l) (Some r)) (y :: ms)
                         end) R.
  Proof.
    unfold nl_right. rewrite flat_map_map, map_flat_map. apply flat_map_ext_in. intros r Hr.
    cbn [akey fst snd]. rewrite map_map, vals_of_keyed, (matches_r r Hr).
    rewrite (map_some_or_none (fun v => g (keyf on r, (v, Some r)))). reflexivity.
  Qed.

  Lemma right_only_eq :
    map g (nl_right_only key_eqb (map (akey on) L) (map (akey on) R))
    = flat_map (fun r => if existsb (fun l => keys_match on l r) L then [] else [out None (Some r)]) R.
  Proof.
    unfold nl_right_only. rewrite flat_map_map, map_flat_map. apply flat_map_ext_in. intros r Hr.
    cbn [akey fst snd]. rewrite vals_of_keyed, (matches_r r Hr), existsb_filter.
    now destruct (filter (fun l => keys_match on l r) L).
  Qed.

  Lemma semi_eq :
    map g (nl_semi key_eqb (map (akey on) L) (map (akey on) R))
    = map (fun l => out (Some l) None) (filter (fun l => existsb (keys_match on l) R) L).
  Proof.
    unfold nl_semi. rewrite <- flat_map_singleton_if, flat_map_map, map_flat_map.
    apply flat_map_ext_in. intros l Hl.
    cbn [akey fst snd]. rewrite vals_of_keyed, (matches_l l Hl), existsb_filter.
    now destruct (filter (keys_match on l) R).
  Qed.

  Lemma anti_eq :
    map g (nl_anti key_eqb (map (akey on) L) (map (akey on) R))
    = map (fun l => out (Some l) None) (filter (fun l => negb (existsb (keys_match on l) R)) L).
  Proof.
    unfold nl_anti. rewrite <- flat_map_singleton_if, flat_map_map, map_flat_map.
    apply flat_map_ext_in. intros l Hl.
    cbn [akey fst snd]. rewrite vals_of_keyed, (matches_l l Hl), existsb_filter.
    now destruct (filter (keys_match on l) R).
  Qed.

End NestedLoop.

Lemma nl_by_nested_loop h on ls rs L R m :
  Forall (keys_non_null on) L -> Forall (keys_non_null on) R ->
  rdd_method h = Some m -> h <> CROSS_JOIN ->
  map (fmt h on ls rs) (nl_by key_eqb m (map (akey on) L) (map (akey on) R)) = nested_loop h on ls rs L R.
Proof.
  intros HL HR Hm Hc.
  destruct h; try (now contradiction Hc); vm_compute in Hm; injection Hm as <-; cbn [nl_by nested_loop].
  - now apply inner_eq.
  - unfold nl_full. rewrite map_app. f_equal; [now apply left_part_eq | now apply right_only_eq].
  - now apply left_part_eq.
  - now apply right_eq.
  - now apply semi_eq.
  - now apply anti_eq.
Qed.

(* ------------------------------------------------------------------------------------------ *)
(** * DataFrameInternal.join *)
Lemma rdd_method_exists h : exists m, rdd_method h = Some m.
Proof. destruct h; eexists; reflexivity. Qed.

Lemma wf_row_ok t : wf_table t -> Forall (row_ok (t_schema t)) (t_rows t).
Proof. intros [_ H]. eapply Forall_impl; [|exact H]. now intros r [_ Hr]. Qed.

Lemma rest_values_length on s x :
  row_ok s x -> length (rest_values on s x) = length (rest_names on s).
Proof.
  intros Hx. unfold rest_values, rest_names.
  rewrite <- (filter_combine_fst (fun n => negb (name_mem n on)) (names_of s) (row_values x)).
  - now rewrite !map_length.
  - unfold names_of. rewrite map_length. exact Hx.
Qed.

Lemma out_row_length h on ls rs L R e :
  Forall (row_ok ls) L -> Forall (row_ok rs) R -> shape_ok h ls rs L R e ->
  length (row_values (out_row h on ls rs (fst e) (snd e))) = length (out_columns h on ls rs).
Proof.
  intros HL HR Hs. rewrite Forall_forall in HL, HR.
  unfold out_row, out_columns, row_values. cbn [snd]. rewrite !app_length, map_length.
  destruct e as [[l|] [r|]]; cbn [fst snd] in *.
  - destruct Hs as [Hl Hr]. rewrite (rest_values_length on ls l (HL _ Hl)).
    destruct (is_semi_anti h); [reflexivity|]. now rewrite (rest_values_length on rs r (HR _ Hr)).
  - destruct Hs as [Hl _]. rewrite (rest_values_length on ls l (HL _ Hl)).
    destruct (is_semi_anti h); [reflexivity|]. unfold nulls. now rewrite map_length.
  - destruct Hs as [Hr _]. unfold nulls at 1. rewrite map_length.
    destruct (is_semi_anti h); [reflexivity|]. now rewrite (rest_values_length on rs r (HR _ Hr)).
  - contradiction.
Qed.

(* rows: a permutation of the nested-loop reference *)
Lemma internal_join_rows h on l r :
  h <> CROSS_JOIN -> wf_table l -> wf_table r -> shared on (t_schema l) (t_schema r) ->
  non_null_keys on (t_rows l) -> non_null_keys on (t_rows r) ->
  exists s rows, internal_join l r (Some on) h = Ok (s, rows) /\
    Permutation rows (nested_loop h on (t_schema l) (t_schema r) (t_rows l) (t_rows r)).
Proof.
  intros Hc Wl Wr Hsh Nl Nr. destruct (rdd_method_exists h) as [m Hm].
  destruct (merge_schemas_columns (t_schema l) (t_schema r) h on (proj1 Wl) (proj1 Wr) Hsh) as [s [Es _]].
  destruct (join_on_values_eq l r on h m Hm Hc (proj1 Wl) (proj1 Wr) Hsh (wf_row_ok l Wl) (wf_row_ok r Wr))
    as [J [EJ [HP _]]].
  exists s, (map (fmt h on (t_schema l) (t_schema r)) J). split.
  - unfold internal_join. now rewrite Es, EJ.
  - rewrite <- (nl_by_nested_loop h on (t_schema l) (t_schema r) (t_rows l) (t_rows r) m Nl Nr Hm Hc).
    now apply Permutation_map.
Qed.

(* columns: keys once, remaining left, (except semi/anti) remaining right -- and every row carries them *)
Lemma internal_join_columns h on l r :
  h <> CROSS_JOIN -> wf_table l -> wf_table r -> shared on (t_schema l) (t_schema r) ->
  exists s rows, internal_join l r (Some on) h = Ok (s, rows) /\
    names_of s = out_columns h on (t_schema l) (t_schema r) /\
    Forall (fun x => row_fields x = names_of s /\ length (row_values x) = length (names_of s)) rows.
Proof.
  intros Hc Wl Wr Hsh. destruct (rdd_method_exists h) as [m Hm].
  destruct (merge_schemas_columns (t_schema l) (t_schema r) h on (proj1 Wl) (proj1 Wr) Hsh) as [s [Es En]].
  destruct (join_on_values_eq l r on h m Hm Hc (proj1 Wl) (proj1 Wr) Hsh (wf_row_ok l Wl) (wf_row_ok r Wr))
    as [J [EJ [_ HS]]].
  exists s, (map (fmt h on (t_schema l) (t_schema r)) J). split; [|split].
  - unfold internal_join. now rewrite Es, EJ.
  - exact En.
  - rewrite Forall_map. eapply Forall_impl; [|exact HS]. intros e He. rewrite En. split.
    + reflexivity.
    + unfold fmt. apply (out_row_length h on _ _ (t_rows l) (t_rows r) (snd e));
        [apply wf_row_ok, Wl | apply wf_row_ok, Wr | exact He].
Qed.

(* crossJoin: every pair, all columns of both sides, in nested-loop order *)
Lemma other_fields_nil s : other_fields s [] = s.
Proof. unfold other_fields. simpl. induction s as [|f s IH]; simpl; [reflexivity | now rewrite IH]. Qed.

Lemma cross_join_eq l r :
  internal_join l r None CROSS_JOIN
  = Ok (t_schema l ++ t_schema r, nested_loop CROSS_JOIN [] (t_schema l) (t_schema r) (t_rows l) (t_rows r)).
Proof.
  unfold internal_join, merge_schemas. simpl. rewrite !other_fields_nil.
  unfold cross_join_rows, rdd_cartesian. rewrite map_flat_map. do 2 f_equal.
  apply flat_map_ext. intros a. now rewrite map_map.
Qed.

Lemma cross_join_columns l r :
  wf_table l -> wf_table r ->
  exists s rows, df_cross_join l r = Ok (s, rows) /\
    names_of s = names_of (t_schema l) ++ names_of (t_schema r) /\
    Forall (fun x => row_fields x = names_of s /\ length (row_values x) = length (names_of s)) rows.
Proof.
  intros [_ Wl] [_ Wr]. unfold df_cross_join. rewrite cross_join_eq. eexists. eexists. split; [reflexivity|].
  unfold names_of at 1. rewrite map_app. split; [reflexivity|].
  rewrite Forall_forall in Wl, Wr |- *. intros x Hx. simpl in Hx.
  apply in_flat_map in Hx. destruct Hx as [a [Ha Hx]]. apply in_map_iff in Hx. destruct Hx as [b [<- Hb]].
  destruct (Wl a Ha) as [Fa La]. destruct (Wr b Hb) as [Fb Lb]. unfold row_fields, row_values in *. simpl.
  rewrite Fa, Fb. unfold names_of. rewrite map_app, !app_length, !map_length, La, Lb. now split.
Qed.

(* ------------------------------------------------------------------------------------------ *)
(** * DataFrame.join: spellings of `how`, `on` as a string *)
Lemma df_join_on_list l r on s h :
  lookup_how (normalise_how s) join_types = Some h -> h <> CROSS_JOIN ->
  df_join l r (OnList on) s = internal_join l r (Some on) h.
Proof. intros E Hc. unfold df_join. rewrite E. destruct h; try reflexivity. now contradiction Hc. Qed.

Lemma df_join_on_str l r c s : df_join l r (OnStr c) s = df_join l r (OnList [c]) s.
Proof. reflexivity. Qed.

Lemma df_join_cross l r s :
  lookup_how (normalise_how s) join_types = Some CROSS_JOIN -> df_join l r OnNone s = df_cross_join l r.
Proof. intros E. unfold df_join. now rewrite E. Qed.

Lemma canonical_spelling h : lookup_how (normalise_how (how_name h)) join_types = Some h.
Proof. destruct h; reflexivity. Qed.

(* every entry of JOIN_TYPES resolves to itself, under any letter case / underscores *)
Lemma join_types_resolve : forall k h, In (k, h) join_types -> lookup_how (normalise_how k) join_types = Some h.
Proof.
  intros k h H. unfold join_types in H. simpl in H.
  repeat (destruct H as [[= <- <-]|H]; [reflexivity|]). destruct H.
Qed.

(* ------------------------------------------------------------------------------------------ *)
(** * partitioning *)
Lemma internal_join_partition_indep ls rs Lp Lp' Rp Rp' on h :
  concat Lp = concat Lp' -> concat Rp = concat Rp' ->
  internal_join (ls, Lp) (rs, Rp) on h = internal_join (ls, Lp') (rs, Rp') on h.
Proof.
  intros E1 E2. unfold internal_join, join_on_values, cross_join_rows, t_rows, t_schema. simpl.
  now rewrite E1, E2.
Qed.

Lemma df_join_partition_indep ls rs Lp Lp' Rp Rp' on s :
  concat Lp = concat Lp' -> concat Rp = concat Rp' ->
  df_join (ls, Lp) (rs, Rp) on s = df_join (ls, Lp') (rs, Rp') on s.
Proof.
  intros E1 E2. unfold df_join.
  destruct (lookup_how (normalise_how s) join_types) as [h|]; [|reflexivity].
  destruct on; cbv beta iota; destruct (how_eqb h CROSS_JOIN); try reflexivity;
    now apply internal_join_partition_indep.
Qed.

Lemma df_cross_join_partition_indep ls rs Lp Lp' Rp Rp' :
  concat Lp = concat Lp' -> concat Rp = concat Rp' ->
  df_cross_join (ls, Lp) (rs, Rp) = df_cross_join (ls, Lp') (rs, Rp').
Proof. intros. now apply internal_join_partition_indep. Qed.

(* ------------------------------------------------------------------------------------------ *)
(** * the statements of Properties/C13.v at the level of DataFrame.join *)
Lemma df_join_rows how_str h on l r :
  lookup_how (normalise_how how_str) join_types = Some h -> h <> CROSS_JOIN ->
  wf_table l -> wf_table r -> shared on (t_schema l) (t_schema r) ->
  non_null_keys on (t_rows l) -> non_null_keys on (t_rows r) ->
  exists s rows, df_join l r (OnList on) how_str = Ok (s, rows) /\
    Permutation rows (nested_loop h on (t_schema l) (t_schema r) (t_rows l) (t_rows r)).
Proof.
  intros E Hc Wl Wr Hsh Nl Nr. rewrite (df_join_on_list l r on how_str h E Hc).
  exact (internal_join_rows h on l r Hc Wl Wr Hsh Nl Nr).
Qed.

Lemma df_join_columns how_str h on l r :
  lookup_how (normalise_how how_str) join_types = Some h -> h <> CROSS_JOIN ->
  wf_table l -> wf_table r -> shared on (t_schema l) (t_schema r) ->
  exists s rows, df_join l r (OnList on) how_str = Ok (s, rows) /\
    names_of s = on ++ rest_names on (t_schema l)
                    ++ (if is_semi_anti h then [] else rest_names on (t_schema r)) /\
    Forall (fun x => row_fields x = names_of s /\ length (row_values x) = length (names_of s)) rows.
Proof.
  intros E Hc Wl Wr Hsh. rewrite (df_join_on_list l r on how_str h E Hc).
  exact (internal_join_columns h on l r Hc Wl Wr Hsh).
Qed.

Lemma rdd_join_family (K V W : Type) (keqb : K -> K -> bool) :
  (forall a b, keqb a b = true <-> a = b) ->
  forall m (xs : list (K * V)) (ys : list (K * W)),
  Permutation (rdd_join_by keqb m xs ys) (nl_by keqb m xs ys).
Proof. intros H m xs ys. apply (rdd_join_by_perm keqb H). Qed.

(* ------------------------------------------------------------------------------------------ *)
(** * error behaviour (errors are values of the model) *)
Lemma get_on_field_none s c : name_mem c (names_of s) = false -> get_on_field s c = None.
Proof.
  unfold get_on_field, names_of, name_mem. induction s as [|f s IH]; simpl; [reflexivity|].
  intros H. apply orb_false_iff in H. destruct H as [H1 H2].
  destruct (name_eqb (fname f) c) eqn:E.
  - apply name_eqb_spec in E. subst. assert (E : name_eqb (fname f) (fname f) = true) by now apply name_eqb_spec.
    congruence.
  - now apply IH.
Qed.

Lemma get_on_fields_none s on :
  forallb (fun c => name_mem c (names_of s)) on = false -> get_on_fields s on = None.
Proof.
  induction on as [|c on IH]; simpl; [discriminate|]. intros H. apply andb_false_iff in H.
  destruct H as [H|H].
  - now rewrite get_on_field_none.
  - rewrite (IH H). now destruct (get_on_field s c).
Qed.

(* an `on` name that one side lacks: merge_schemas' next() raises StopIteration before any row is touched *)
Lemma df_join_unshared how_str h on l r :
  lookup_how (normalise_how how_str) join_types = Some h -> h <> CROSS_JOIN ->
  forallb (fun c => name_mem c (names_of (t_schema l))) on && forallb (fun c => name_mem c (names_of (t_schema r))) on = false ->
  df_join l r (OnList on) how_str = Err StopIteration.
Proof.
  intros E Hc H. rewrite (df_join_on_list l r on how_str h E Hc).
  unfold internal_join, merge_schemas. apply andb_false_iff in H. destruct H as [H|H].
  - now rewrite (get_on_fields_none _ _ H).
  - rewrite (get_on_fields_none _ _ H). now destruct (get_on_fields (t_schema l) on).
Qed.

Lemma df_join_invalid_how how_str on l r :
  lookup_how (normalise_how how_str) join_types = None -> df_join l r on how_str = Err IllegalArgumentException.
Proof. intros E. unfold df_join. now rewrite E. Qed.

Lemma df_join_cross_with_on how_str cs l r :
  lookup_how (normalise_how how_str) join_types = Some CROSS_JOIN ->
  df_join l r (OnList cs) how_str = Err IllegalArgumentException.
Proof. intros E. unfold df_join. now rewrite E. Qed.

Lemma df_join_missing_on how_str h l r :
  lookup_how (normalise_how how_str) join_types = Some h -> h <> CROSS_JOIN ->
  df_join l r OnNone how_str = Err IllegalArgumentException.
Proof. intros E Hc. unfold df_join. rewrite E. destruct h; try reflexivity. now contradiction Hc. Qed.

(* ------------------------------------------------------------------------------------------ *)
(** * rows agree with the declared schema -- also for tables with duplicate column names
      (columns then selected by bound-field identity, as the code does) *)
Lemma other_parts_fields s fs x :
  length (row_values x) = length s -> map fst (other_parts s fs x) = names_of (other_fields s fs).
Proof.
  unfold other_parts, other_fields, names_of. generalize (row_values x). intros vals. revert vals.
  induction s as [|f s IH]; intros [|v vals]; simpl; try reflexivity; try discriminate.
  intros [= H]. destruct (negb (field_mem f fs)); simpl; now rewrite IH.
Qed.

Definition declared_names (h : how) (on : list name) (ls rs : schema) (lof rof : list field) : list name :=
  on ++ names_of (other_fields ls lof) ++ (if is_semi_anti h then [] else names_of (other_fields rs rof)).

Lemma merge_schemas_declared ls rs h on lof rof :
  get_on_fields ls on = Some lof -> get_on_fields rs on = Some rof ->
  exists s, merge_schemas ls rs h on = Ok s /\ names_of s = declared_names h on ls rs lof rof.
Proof.
  intros El Er. unfold merge_schemas. rewrite El, Er.
  destruct (schema_on_fields h) as [choice|] eqn:Ech; [|destruct h; discriminate].
  eexists. split; [reflexivity|]. unfold declared_names, names_of. rewrite !map_app.
  rewrite drops_right_semi_anti. f_equal.
  - destruct choice.
    + now apply (get_on_fields_names ls).
    + now apply (get_on_fields_names rs).
    + rewrite map_map. simpl. now apply (get_on_fields_names ls).
  - now destruct (is_semi_anti h).
Qed.

Lemma merge_joined_declared ls rs h on lof rof L R e :
  get_on_fields ls on = Some lof -> get_on_fields rs on = Some rof ->
  Forall (row_ok ls) L -> Forall (row_ok rs) R -> shape_ok h ls rs L R e ->
  exists x, merge_joined ls rs h on (fst e) (snd e) = Ok x /\
    row_fields x = declared_names h on ls rs lof rof /\ length (row_values x) = length (row_fields x).
Proof.
  intros El Er HL HR Hs. unfold merge_joined. rewrite El, Er, right_parts_semi_anti.
  rewrite Forall_forall in HL, HR.
  assert (Hk : forall src : row, map fst (map (fun c => (c, row_get src c)) on) = on)
    by (intros; rewrite map_map; apply map_id).
  assert (Pn : forall s fs x, row_ok s x -> map fst (other_parts s fs x) = names_of (other_fields s fs))
    by (intros; now apply other_parts_fields).
  unfold declared_names, row_from_keyed_values, row_fields, row_values.
  destruct e as [[l|] [r|]]; cbn [fst snd] in Hs |- *.
  - destruct Hs as [Hl Hr].
    destruct (is_semi_anti h); cbn [negb]; eexists; (split; [reflexivity|]); cbn [fst snd];
      (split; [rewrite !map_app, Hk, ?Pn, ?app_nil_r by auto; reflexivity | now rewrite !map_length]).
  - destruct Hs as [Hl Hpad]. destruct (is_semi_anti h) eqn:Esa; cbn [negb].
    + eexists; (split; [reflexivity|]); cbn [fst snd].
      split; [rewrite !map_app, Hk, ?Pn, ?app_nil_r by auto; reflexivity | now rewrite !map_length].
    + destruct Hpad as [Hpad|Hpad]; [|discriminate]. rewrite Hpad.
      eexists; (split; [reflexivity|]); cbn [fst snd].
      split; [rewrite !map_app, Hk, ?Pn by (auto; apply null_row_length); reflexivity | now rewrite !map_length].
  - destruct Hs as [Hr Hpad]. rewrite Hpad.
    assert (Esa : is_semi_anti h = false) by (destruct h; try reflexivity; vm_compute in Hpad; discriminate).
    rewrite Esa. cbn [negb]. eexists; (split; [reflexivity|]); cbn [fst snd].
    split; [rewrite !map_app, Hk, ?Pn by (auto; apply null_row_length); reflexivity | now rewrite !map_length].
  - contradiction.
Qed.

Lemma sequence_forall {A B} (f : A -> result B) (P : B -> Prop) l :
  Forall (fun a => exists b, f a = Ok b /\ P b) l -> exists bs, sequence (map f l) = Ok bs /\ Forall P bs.
Proof.
  induction l as [|a l IH]; simpl; intros H; [exists []; split; [reflexivity|constructor]|].
  inversion H as [|? ? [b [Hb Pb]] Hl]; subst. destruct (IH Hl) as [bs [Ebs Pbs]].
  exists (b :: bs). rewrite Hb, Ebs. split; [reflexivity | now constructor].
Qed.

Lemma internal_join_rows_match_schema h on l r :
  h <> CROSS_JOIN ->
  forallb (fun c => name_mem c (names_of (t_schema l))) on && forallb (fun c => name_mem c (names_of (t_schema r))) on = true ->
  Forall (row_ok (t_schema l)) (t_rows l) -> Forall (row_ok (t_schema r)) (t_rows r) ->
  exists s rows, internal_join l r (Some on) h = Ok (s, rows) /\
    Forall (fun x => row_fields x = names_of s /\ length (row_values x) = length (names_of s)) rows.
Proof.
  intros Hc Hsh HL HR. apply andb_true_iff in Hsh. destruct Hsh as [Hl Hr].
  assert (Fl : Forall (fun c => In c (names_of (t_schema l))) on).
  { apply Forall_forall. intros c Hin. rewrite forallb_forall in Hl. now apply name_mem_in, Hl. }
  assert (Fr : Forall (fun c => In c (names_of (t_schema r))) on).
  { apply Forall_forall. intros c Hin. rewrite forallb_forall in Hr. now apply name_mem_in, Hr. }
  destruct (get_on_fields_exists _ _ Fl) as [lof El]. destruct (get_on_fields_exists _ _ Fr) as [rof Er].
  destruct (merge_schemas_declared _ _ h on lof rof El Er) as [s [Es En]].
  destruct (rdd_method_exists h) as [m Hm].
  unfold internal_join. rewrite Es. unfold join_on_values. rewrite Hm, !add_key_akey by exact Hc.
  set (J := rdd_join_by key_eqb m _ _).
  assert (HP : Permutation J (nl_by key_eqb m (map (akey on) (t_rows l)) (map (akey on) (t_rows r))))
    by apply (rdd_join_by_perm key_eqb key_eqb_spec).
  assert (HS : Forall (fun e => shape_ok h (t_schema l) (t_schema r) (t_rows l) (t_rows r) (snd e)) J).
  { eapply Permutation_Forall; [symmetry; exact HP|]. now apply nl_shapes. }
  destruct (sequence_forall
              (fun e => merge_joined (t_schema l) (t_schema r) h on (fst (snd e)) (snd (snd e)))
              (fun x => row_fields x = names_of s /\ length (row_values x) = length (names_of s)) J)
    as [rows [Erows Prows]].
  { eapply Forall_impl; [|exact HS]. intros e He.
    destruct (merge_joined_declared _ _ h on lof rof _ _ (snd e) El Er HL HR He) as [x [Ex [Fx Lx]]].
    exists x. split; [exact Ex|]. rewrite En, <- Fx. now split. }
  exists s, rows. rewrite Erows. now split.
Qed.

Lemma df_join_rows_match_schema how_str h on l r :
  lookup_how (normalise_how how_str) join_types = Some h -> h <> CROSS_JOIN ->
  forallb (fun c => name_mem c (names_of (t_schema l))) on && forallb (fun c => name_mem c (names_of (t_schema r))) on = true ->
  Forall (fun x => length (row_values x) = length (t_schema l)) (t_rows l) ->
  Forall (fun x => length (row_values x) = length (t_schema r)) (t_rows r) ->
  exists s rows, df_join l r (OnList on) how_str = Ok (s, rows) /\
    Forall (fun x => row_fields x = names_of s /\ length (row_values x) = length (names_of s)) rows.
Proof.
  intros E Hc Hsh HL HR. rewrite (df_join_on_list l r on how_str h E Hc).
  now apply internal_join_rows_match_schema.
Qed.

(* ------------------------------------------------------------------------------------------ *)
(** * re-evaluation (definitional in the model: actions are pure and hand the object on unchanged) *)
Lemma run_action_object j a : fst (run_action j a) = j.
Proof. reflexivity. Qed.

Lemma run_session_map j acts : run_session j acts = map (fun a => snd (run_action j a)) acts.
Proof. induction acts as [|a acts IH]; simpl; [reflexivity | now rewrite IH]. Qed.

Lemma run_session_history_free j pre a :
  run_session j (pre ++ [a]) = run_session j pre ++ [snd (run_action j a)].
Proof. now rewrite !run_session_map, map_app. Qed.

Lemma run_session_outcomes j acts o :
  In o (run_session j acts) ->
  o = ORows j \/ o = OCount (match j with Ok (_, rows) => Ok (length rows) | Err e => Err e end).
Proof.
  rewrite run_session_map. intros H. apply in_map_iff in H. destruct H as [a [<- _]].
  destruct a; simpl; auto.
Qed.
