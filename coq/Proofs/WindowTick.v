(* C11 -- a tick of a well-formed program steps every stream exactly once, in registration order: the recursion
   into parents (several consumers stepping the same stream) is unobservable. *)
From Coq Require Import ZArith NArith Bool String List Lia.
Require Import PV.Base.Val PV.Gen.Window PV.Model.Window PV.Proofs.Window.
Import ListNotations.
Open Scope Z_scope.
Open Scope list_scope.

(* streams only refer to streams registered before them *)
Definition parent_before (j : nat) (nd : node) : Prop :=
  match nd with
  | Src _ => True
  | Trans _ p | Window _ _ p | Stateful _ p => (p < j)%nat
  | Union p1 p2 => (p1 < j)%nat /\ (p2 < j)%nat
  end.

(* what stream i does in a tick when its parent has already been stepped: no recursion *)
Definition direct (g : list node) (i : nat) (t : Z) (st : gstate) : gstate * option string :=
  match nth_error g i, nth_error (gnodes st) i with
  | Some nd, Some ns =>
      match nd with
      | Src q => (put i (src_pop (sd q) (set_time t ns)) st, None)
      | Trans f p => let '(n2, lg, e2) := trans_post f t (rdd_of st p) ns in (add_log lg (put i n2 st), e2)
      | Window w s p => let '(n2, e2) := window_post w s (rdd_of st p) (set_time t ns) in (put i n2 st, e2)
      | Stateful u p => let '(n2, e2) := stateful_post u t (rdd_of st p) ns in (put i n2 st, e2)
      | Union p1 p2 => let '(n2, e2) := union_post t (rdd_of st p1) (rdd_of st p2) ns in (put i n2 st, e2)
      end
  | _, _ => (st, Some "BadGraph"%string)
  end.

Fixpoint direct_nodes (g : list node) (is : list nat) (t : Z) (st : gstate) : gstate * option string :=
  match is with
  | [] => (st, None)
  | i :: is' =>
      let '(st1, e) := direct g i t st in
      match e with Some _ => (st1, e) | None => direct_nodes g is' t st1 end
  end.

Definition well_formed (g : list node) : Prop := forall j nd, nth_error g j = Some nd -> parent_before j nd.

(* a parent that has already been stepped at time t *)
Definition ready (g : list node) (t : Z) (st : gstate) (p : nat) : Prop :=
  exists ndp nsp, nth_error g p = Some ndp /\ nth_error (gnodes st) p = Some nsp /\ t <= ntime nsp.
Definition parents_ready (g : list node) (t : Z) (st : gstate) (nd : node) : Prop :=
  match nd with
  | Src _ => True
  | Trans _ p | Window _ _ p | Stateful _ p => ready g t st p
  | Union p1 p2 => ready g t st p1 /\ ready g t st p2
  end.

Lemma step_eq_direct F g i t st nd ns :
  nth_error g i = Some nd -> nth_error (gnodes st) i = Some ns -> ntime ns < t ->
  parents_ready g t st nd ->
  step (S (S F)) g i t st = direct g i t st.
Proof.
  intros Hg Hs Ht Hp. unfold direct. rewrite Hg, Hs. unfold parents_ready, ready in Hp.
  destruct nd as [q|f p|w s p|u p|p1 p2].
  - apply (step_src_go _ g i t st q ns Hg Hs Ht).
  - destruct Hp as (ndp & nsp & H1 & H2 & H3).
    rewrite (step_trans_go F g i t st f p ns ndp nsp Hg Hs Ht H1 H2 H3), (rdd_of_nth _ _ _ H2). reflexivity.
  - destruct Hp as (ndp & nsp & H1 & H2 & H3).
    rewrite (step_window_go F g i t st w s p ns ndp nsp Hg Hs Ht H1 H2 H3), (rdd_of_nth _ _ _ H2). reflexivity.
  - destruct Hp as (ndp & nsp & H1 & H2 & H3).
    rewrite (step_stateful_go F g i t st u p ns ndp nsp Hg Hs Ht H1 H2 H3), (rdd_of_nth _ _ _ H2). reflexivity.
  - destruct Hp as [(nd1 & ns1 & A1 & A2 & A3) (nd2 & ns2 & B1 & B2 & B3)].
    rewrite (step_union_go F g i t st p1 p2 ns nd1 ns1 nd2 ns2 Hg Hs Ht A1 A2 A3 B1 B2 B3),
            (rdd_of_nth _ _ _ A2), (rdd_of_nth _ _ _ B2). reflexivity.
Qed.

(* direct touches stream i only, and leaves it with guard time t (also when it raises) *)
Lemma direct_effect g i t st nd ns :
  nth_error g i = Some nd -> nth_error (gnodes st) i = Some ns ->
  length (gnodes (fst (direct g i t st))) = length (gnodes st) /\
  (forall j, j <> i -> nth_error (gnodes (fst (direct g i t st))) j = nth_error (gnodes st) j) /\
  exists ns', nth_error (gnodes (fst (direct g i t st))) i = Some ns' /\ ntime ns' = t.
Proof.
  intros Hg Hs. unfold direct. rewrite Hg, Hs.
  destruct nd as [q|f p|w s p|u p|p1 p2].
  - cbn [fst]. split; [apply put_length|]. split; [intros j Hj; apply nth_put_neq; congruence|].
    eexists. split; [apply (nth_put_eq _ _ _ _ Hs)|]. now rewrite src_pop_time.
  - pose proof (trans_post_time f t (rdd_of st p) ns) as Hp.
    destruct (trans_post f t (rdd_of st p) ns) as [[n2 lg] e2]. cbn [fst] in *. unfold add_log; cbn [gnodes].
    split; [apply put_length|]. split; [intros j Hj; apply nth_put_neq; congruence|].
    eexists. split; [apply (nth_put_eq _ _ _ _ Hs)|]. exact Hp.
  - pose proof (window_post_time w s (rdd_of st p) (set_time t ns)) as Hp.
    destruct (window_post w s (rdd_of st p) (set_time t ns)) as [n2 e2]. cbn [fst] in *.
    split; [apply put_length|]. split; [intros j Hj; apply nth_put_neq; congruence|].
    eexists. split; [apply (nth_put_eq _ _ _ _ Hs)|]. exact Hp.
  - pose proof (stateful_post_time u t (rdd_of st p) ns) as Hp.
    destruct (stateful_post u t (rdd_of st p) ns) as [n2 e2]. cbn [fst] in *.
    split; [apply put_length|]. split; [intros j Hj; apply nth_put_neq; congruence|].
    eexists. split; [apply (nth_put_eq _ _ _ _ Hs)|]. exact Hp.
  - pose proof (union_post_time t (rdd_of st p1) (rdd_of st p2) ns) as Hp.
    destruct (union_post t (rdd_of st p1) (rdd_of st p2) ns) as [n2 e2]. cbn [fst] in *.
    split; [apply put_length|]. split; [intros j Hj; apply nth_put_neq; congruence|].
    eexists. split; [apply (nth_put_eq _ _ _ _ Hs)|]. exact Hp.
Qed.

Section Refinement.
Variables (g : list node) (t : Z) (F : nat).
Hypothesis Hwf : well_formed g.

(* in the middle of a tick: streams before a were stepped at t, the others not yet *)
Definition Mid (a : nat) (st : gstate) : Prop :=
  length (gnodes st) = length g /\
  forall j ns, nth_error (gnodes st) j = Some ns -> ((j < a)%nat -> t <= ntime ns) /\ ((a <= j)%nat -> ntime ns < t).

Lemma tick_nodes_eq_direct : forall k a st,
  (a + k = length g)%nat -> Mid a st ->
  tick_nodes (S (S F)) g (seq a k) t st = direct_nodes g (seq a k) t st.
Proof.
  induction k as [|k IH]; intros a st Hlen [HL HM]; [reflexivity|].
  cbn [seq tick_nodes direct_nodes].
  assert (Ha : (a < length g)%nat) by lia.
  destruct (nth_error g a) as [nd|] eqn:Hg; [|apply nth_error_None in Hg; lia].
  destruct (nth_error (gnodes st) a) as [ns|] eqn:Hs; [|apply nth_error_None in Hs; lia].
  assert (Hready : forall p, (p < a)%nat -> ready g t st p).
  { intros p Hpa. unfold ready.
    destruct (nth_error g p) as [ndp|] eqn:E1; [|apply nth_error_None in E1; lia].
    destruct (nth_error (gnodes st) p) as [nsp|] eqn:E2; [|apply nth_error_None in E2; lia].
    exists ndp, nsp. repeat split; auto. apply (proj1 (HM p nsp E2)); lia. }
  assert (Hp : parents_ready g t st nd).
  { pose proof (Hwf a nd Hg) as Hb.
    destruct nd as [q|f p|w s p|u p|p1 p2]; cbn in Hb |- *; auto. destruct Hb. split; auto. }
  rewrite (step_eq_direct F g a t st nd ns Hg Hs (proj2 (HM a ns Hs) (le_n a)) Hp).
  destruct (direct_effect g a t st nd ns Hg Hs) as (E1 & E2 & ns' & E3 & E4).
  destruct (direct g a t st) as [st1 e]. cbn [fst] in *.
  destruct e; [reflexivity|].
  apply IH; [lia|]. split; [lia|].
  intros j nsj Hj. destruct (Nat.eq_dec j a) as [->|Hne].
  - rewrite E3 in Hj. inversion Hj; subst. split; intros; lia.
  - rewrite E2 in Hj by assumption. destruct (HM j nsj Hj) as [M1 M2]. split; intros.
    + apply M1. lia.
    + apply M2. lia.
Qed.

Lemma direct_nodes_all_stepped : forall k a st,
  (a + k = length g)%nat -> Mid a st -> snd (direct_nodes g (seq a k) t st) = None ->
  Mid (length g) (fst (direct_nodes g (seq a k) t st)).
Proof.
  induction k as [|k IH]; intros a st Hlen [HL HM] Hnone.
  - cbn [seq direct_nodes fst]. replace (length g) with a by lia. split; assumption.
  - cbn [seq direct_nodes] in *.
    assert (Ha : (a < length g)%nat) by lia.
    destruct (nth_error g a) as [nd|] eqn:Hg; [|apply nth_error_None in Hg; lia].
    destruct (nth_error (gnodes st) a) as [ns|] eqn:Hs; [|apply nth_error_None in Hs; lia].
    destruct (direct_effect g a t st nd ns Hg Hs) as (E1 & E2 & ns' & E3 & E4).
    destruct (direct g a t st) as [st1 e]. cbn [fst] in *.
    destruct e; [discriminate|].
    apply IH; [lia| |exact Hnone]. split; [lia|].
    intros j nsj Hj. destruct (Nat.eq_dec j a) as [->|Hne].
    + rewrite E3 in Hj. inversion Hj; subst. split; intros; lia.
    + rewrite E2 in Hj by assumption. destruct (HM j nsj Hj) as [M1 M2]. split; intros.
      * apply M1. lia.
      * apply M2. lia.
Qed.
End Refinement.

(* A tick of a well-formed program from a state in which no stream has reached time t steps every stream exactly
   once, in registration order, each seeing the RDD its parent produced in this tick; the recursion into parents
   (several consumers stepping the same stream) has no effect. *)
Lemma tick_refines g t st :
  well_formed g -> (2 <= length g)%nat -> length (gnodes st) = length g ->
  (forall j ns, nth_error (gnodes st) j = Some ns -> ntime ns < t) ->
  tick g t st = direct_nodes g (seq 0 (length g)) t st.
Proof.
  intros Hwf Hlen HL Hlt. unfold tick.
  destruct (length g) as [|[|F]] eqn:E; try lia.
  rewrite <- E.
  replace (length g) with (S (S F)) at 1 by lia.
  apply (tick_nodes_eq_direct g t F Hwf (length g) 0 st); [lia|].
  split; [lia|]. intros j ns Hj. split; [lia|]. intros _. eauto.
Qed.

(* ... and when no stream raises, every stream ends the tick with guard time t *)
Lemma tick_all_stepped g t st :
  well_formed g -> (2 <= length g)%nat -> length (gnodes st) = length g ->
  (forall j ns, nth_error (gnodes st) j = Some ns -> ntime ns < t) ->
  snd (tick g t st) = None ->
  forall j ns, nth_error (gnodes (fst (tick g t st))) j = Some ns -> ntime ns = t.
Proof.
  intros Hwf Hlen HL Hlt Hnone j ns Hj.
  assert (Hle : times_le t st) by (intros i n Hi; specialize (Hlt i n Hi); lia).
  pose proof (tick_nodes_times_le (length g) g t (seq 0 (length g)) st Hle j ns Hj) as Hup.
  rewrite (tick_refines g t st Hwf Hlen HL Hlt) in Hnone, Hj.
  assert (HM : Mid g t 0 st).
  { split; [exact HL|]. intros i n Hi. split; [lia|]. intros _. eauto. }
  destruct (direct_nodes_all_stepped g t (length g) 0 st eq_refl HM Hnone) as [HL' HM'].
  assert (Hjl : (j < length g)%nat).
  { rewrite <- HL'. apply nth_error_Some. congruence. }
  pose proof (proj1 (HM' j ns Hj) Hjl). unfold tick in Hup. lia.
Qed.
