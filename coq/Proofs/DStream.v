(* C10 -- lemmas: the stepping machine of Model/DStream.v (guards, recursion into parents, one
   callback stepping every registered node) refines the one-pass specification [tick_spec];
   stepping in ANY order that mentions every node yields the same node states and exactly one
   event per node. *)
From Coq Require Import String ZArith NArith List Bool Lia Permutation.
Require Import PV.Base.Val PV.Gen.DStreamStep PV.Model.DStreamRdd PV.Model.DStream.
Import ListNotations.
Open Scope Z_scope.

(* ---------- lists ---------- *)
Lemma set_nth_length {A} (i : nat) (x : A) l : length (set_nth i x l) = length l.
Proof. revert i; induction l as [|a l IH]; intros [|i]; simpl; auto. Qed.

Lemma nth_error_set_nth_eq {A} (i : nat) (x : A) l :
  (i < length l)%nat -> nth_error (set_nth i x l) i = Some x.
Proof. revert i; induction l as [|a l IH]; intros [|i] H; simpl in *; try lia; auto. apply IH; lia. Qed.

Lemma nth_error_set_nth_neq {A} (i j : nat) (x : A) l :
  i <> j -> nth_error (set_nth i x l) j = nth_error l j.
Proof.
  revert i j; induction l as [|a l IH]; intros [|i] [|j] H; simpl; auto; try congruence.
Qed.

Lemma nth_error_ext_eq {A} (l1 l2 : list A) :
  (forall i, nth_error l1 i = nth_error l2 i) -> l1 = l2.
Proof.
  revert l2; induction l1 as [|a l1 IH]; intros [|b l2] H; auto.
  - specialize (H 0%nat); discriminate.
  - specialize (H 0%nat); discriminate.
  - f_equal. + specialize (H 0%nat); simpl in H; congruence.
    + apply IH; intro i; exact (H (S i)).
Qed.

(* ---------- denot ---------- *)
Lemma denot_from_length g t srcv acc :
  length (denot_from g t srcv acc) = (length acc + length g)%nat.
Proof.
  revert acc; induction g as [|nd g IH]; intros acc; simpl; [lia|].
  rewrite IH, app_length; simpl; lia.
Qed.

Lemma denot_from_prefix g t srcv acc i :
  (i < length acc)%nat -> nth i (denot_from g t srcv acc) RNone = nth i acc RNone.
Proof.
  revert acc; induction g as [|nd g IH]; intros acc H; simpl; auto.
  rewrite IH by (rewrite app_length; simpl; lia). apply app_nth1; auto.
Qed.

Definition uses_lt (nd : node) (k : nat) : Prop := forall p, In p (parents nd) -> (p < k)%nat.

Lemma node_val_agree nd t x l1 l2 :
  (forall p, In p (parents nd) -> nth p l1 RNone = nth p l2 RNone) ->
  node_val nd t x l1 = node_val nd t x l2.
Proof.
  destruct nd; simpl; intros H; auto.
  - rewrite H; auto.
  - rewrite (H p1), (H p2); auto.
  - rewrite (H p1), (H p2); auto.
Qed.

Lemma denot_from_eqn g t srcv acc j nd :
  nth_error g j = Some nd -> uses_lt nd (length acc + j) ->
  let D := denot_from g t srcv acc in
  nth (length acc + j) D RNone = node_val nd t (srcv (length acc + j)%nat) D.
Proof.
  revert acc j; induction g as [|nd0 g IH]; intros acc j Hj Hu; [destruct j; discriminate|].
  destruct j as [|j]; simpl in Hj.
  - inversion Hj; subst nd0; clear Hj. simpl.
    rewrite Nat.add_0_r in *.
    rewrite denot_from_prefix by (rewrite app_length; simpl; lia).
    rewrite app_nth2 by lia. rewrite Nat.sub_diag. simpl.
    apply node_val_agree. intros p Hp. specialize (Hu p Hp).
    rewrite denot_from_prefix by (rewrite app_length; simpl; lia).
    symmetry; apply app_nth1; auto.
  - simpl.
    specialize (IH (acc ++ [node_val nd0 t (srcv (length acc)) acc]) j Hj).
    rewrite app_length in IH; simpl in IH.
    replace (length acc + 1 + j)%nat with (length acc + S j)%nat in IH by lia.
    apply IH. exact Hu.
Qed.

Lemma denot_length g t srcv : length (denot g t srcv) = length g.
Proof. unfold denot; rewrite denot_from_length; reflexivity. Qed.

Lemma denot_eqn g t srcv i nd :
  wf g -> nth_error g i = Some nd ->
  nth i (denot g t srcv) RNone = node_val nd t (srcv i) (denot g t srcv).
Proof.
  intros Hwf Hi. unfold denot.
  apply (denot_from_eqn g t srcv [] i nd Hi). simpl. intros p Hp. eapply Hwf; eauto.
Qed.

Lemma NoDup_snoc {A} (l : list A) x : NoDup l -> ~ In x l -> NoDup (l ++ [x]).
Proof.
  intros H Hn. induction H as [|a l Ha H IH]; simpl.
  - constructor; auto. constructor.
  - constructor.
    + intro Hin. apply in_app_or in Hin as [Hin|[->|[]]]; auto. apply Hn; left; auto.
    + apply IH. intro; apply Hn; right; auto.
Qed.


Definition dflt_ns : nstate := mkNs 0 RNone [] [].

Section Tick.
Variable g : graph.
Variable env : nat -> listing.
Variable t : Z.
Variable st0 : state.
Hypothesis Hwf : wf g.
Hypothesis Hlen : length (ns st0) = length g.
Hypothesis Hlt : forall i s, nth_error (ns st0) i = Some s -> ctime s < t.

Hypothesis Hlive : live g t (delivered g env st0).

Let D := denot g t (delivered g env st0).
Let post := post_node g env t st0.
Let ev := event_of g env t st0.

Definition inb (i : nat) (dl : list nat) : bool := existsb (Nat.eqb i) dl.

Lemma inb_In i dl : inb i dl = true <-> In i dl.
Proof.
  unfold inb. rewrite existsb_exists. split.
  - intros [x [H1 H2]]. apply Nat.eqb_eq in H2; subst; auto.
  - intros H; exists i; split; auto. apply Nat.eqb_refl.
Qed.
Lemma inb_app i a b : inb i (a ++ b) = inb i a || inb i b.
Proof. unfold inb; apply existsb_app. Qed.

Record Inv (st : state) (dl : list nat) : Prop := {
  inv_len : length (ns st) = length g;
  inv_ns : forall i s0, nth_error (ns st0) i = Some s0 ->
             nth_error (ns st) i = Some (if inb i dl then post i else s0);
  inv_log : log st = log st0 ++ map ev dl;
  inv_nodup : NoDup dl;
  inv_range : forall i, In i dl -> (i < length g)%nat
}.

Lemma Inv_init : Inv st0 [].
Proof.
  constructor; simpl; auto.
  - rewrite app_nil_r; auto.
  - constructor.
  - intros i [].
Qed.

Lemma pre_exists i : (i < length g)%nat -> exists s0, nth_error (ns st0) i = Some s0.
Proof.
  intros H. destruct (nth_error (ns st0) i) eqn:E; eauto.
  apply nth_error_None in E. lia.
Qed.

Lemma post_time i : ctime (post i) = t.
Proof. reflexivity. Qed.

Lemma crdd_at_done st dl p :
  Inv st dl -> In p dl -> crdd_at st p = nth p D RNone.
Proof.
  intros HI Hp. pose proof (inv_range _ _ HI _ Hp) as Hr.
  destruct (pre_exists p Hr) as [s0 Hs0].
  unfold crdd_at. rewrite (inv_ns _ _ HI p s0 Hs0).
  apply inb_In in Hp. rewrite Hp. reflexivity.
Qed.

(* completing node i (not yet done) with the state/event the specification prescribes *)
Lemma set_inv st dl i snew e :
  Inv st dl -> (i < length g)%nat -> ~ In i dl -> snew = post i -> e = ev i ->
  Inv (mkSt (set_nth i snew (ns st)) (log st ++ [e])) (dl ++ [i]).
Proof.
  intros HI Hi Hnin Hpost He.
  constructor; simpl.
  - rewrite set_nth_length. apply (inv_len _ _ HI).
  - intros j sj Hj. rewrite inb_app. destruct (Nat.eq_dec i j) as [->|Hne].
    + rewrite nth_error_set_nth_eq by (rewrite (inv_len _ _ HI); auto).
      replace (inb j [j]) with true by (simpl; rewrite Nat.eqb_refl; auto).
      rewrite orb_true_r. f_equal; auto.
    + rewrite nth_error_set_nth_neq by auto.
      rewrite (inv_ns _ _ HI j sj Hj).
      replace (inb j [i]) with false.
      2:{ simpl. destruct (Nat.eqb j i) eqn:E; auto. apply Nat.eqb_eq in E; congruence. }
      rewrite orb_false_r; auto.
  - rewrite (inv_log _ _ HI), map_app, app_assoc. simpl. subst e; auto.
  - apply NoDup_snoc; auto. exact (inv_nodup _ _ HI).
  - intros j Hj. apply in_app_or in Hj as [Hj|[<-|[]]]; auto. apply (inv_range _ _ HI); auto.
Qed.

Lemma pending_state st dl i s0 :
  Inv st dl -> ~ In i dl -> nth_error (ns st0) i = Some s0 -> nth_error (ns st) i = Some s0.
Proof.
  intros HI Hnin Hs0. rewrite (inv_ns _ _ HI i s0 Hs0).
  destruct (inb i dl) eqn:E; auto. apply inb_In in E; contradiction.
Qed.

Lemma finish_inv st dl i s0 v e :
  Inv st dl -> (i < length g)%nat -> ~ In i dl ->
  nth_error (ns st0) i = Some s0 ->
  mkNs t v (queue s0) (fdone s0) = post i -> e = ev i ->
  exists st', finish st i t v e = Some st' /\ Inv st' (dl ++ [i]).
Proof.
  intros HI Hi Hnin Hs0 Hpost He.
  unfold finish. rewrite (pending_state st dl i s0 HI Hnin Hs0).
  eexists; split; [reflexivity|]. apply set_inv; auto.
Qed.

Lemma post_src i k s0 :
  nth_error g i = Some (Src k) -> nth_error (ns st0) i = Some s0 ->
  mkNs t (RRdd (deserialize (fst (src_get k (env i) s0))))
       (queue (snd (src_get k (env i) s0))) (fdone (snd (src_get k (env i) s0))) = post i.
Proof.
  intros Hg Hs. unfold post, post_node, popped. rewrite Hg, Hs.
  f_equal. unfold D. rewrite (denot_eqn g t _ i (Src k) Hwf Hg). simpl.
  unfold delivered. rewrite Hg, Hs. reflexivity.
Qed.

Lemma post_nonsrc i nd s0 :
  nth_error g i = Some nd -> (forall k, nd <> Src k) -> nth_error (ns st0) i = Some s0 ->
  post i = mkNs t (node_val nd t RNone D) (queue s0) (fdone s0).
Proof.
  intros Hg Hn Hs. unfold post, post_node, popped. rewrite Hg, Hs.
  rewrite (denot_eqn g t _ i nd Hwf Hg).
  destruct nd; try reflexivity. exfalso; eapply Hn; eauto.
Qed.

Lemma ev_src i k : nth_error g i = Some (Src k) -> ev i = EvPop i.
Proof. intros Hg. unfold ev, event_of. rewrite Hg. reflexivity. Qed.

Lemma ev_nonsrc i nd :
  nth_error g i = Some nd -> (forall k, nd <> Src k) ->
  ev i = EvFire i t (map (fun p => nth p D RNone) (parents nd)).
Proof.
  intros Hg Hn. unfold ev, event_of. rewrite Hg.
  destruct nd; try reflexivity. exfalso; eapply Hn; eauto.
Qed.

(* the regenerated guards: "already stepped at this time" returns, an older node proceeds *)
Lemma guard_done nd : guard nd t t = true.
Proof.
  destruct nd; unfold guard, step_guard_DStream, step_guard_TransformedDStream,
    step_guard_TransformedWithDStream, step_guard_CogroupedDStream; apply Z.leb_refl.
Qed.
Lemma guard_pending nd c : c < t -> guard nd t c = false.
Proof.
  intros H. destruct nd; unfold guard, step_guard_DStream, step_guard_TransformedDStream,
    step_guard_TransformedWithDStream, step_guard_CogroupedDStream; apply Z.leb_gt; auto.
Qed.

Definition step_post (i : nat) (st : state) (dl : list nat) (r : option state) : Prop :=
  exists st' dl', r = Some st' /\ Inv st' (dl ++ dl') /\ In i (dl ++ dl') /\
                  (forall j, In j dl' -> (j <= i)%nat).

Lemma step_post_done i st dl : Inv st dl -> In i dl -> step_post i st dl (Some st).
Proof.
  intros HI Hin. exists st, []. rewrite app_nil_r. split; [reflexivity|].
  split; [exact HI|]. split; [exact Hin|]. intros j [].
Qed.

(* two parents stepped one after the other, then the node itself *)
Lemma two_parent_case fuel i st dl nd p1 p2 s0 (F : rv -> rv -> rv) :
  (forall i st dl, Inv st dl -> (i < length g)%nat -> (i < fuel)%nat ->
                   step_post i st dl (step fuel g env t i st)) ->
  Inv st dl -> (i < length g)%nat -> (i <= fuel)%nat -> ~ In i dl ->
  nth_error g i = Some nd -> (forall k, nd <> Src k) -> parents nd = [p1; p2] ->
  node_val nd t RNone D = F (nth p1 D RNone) (nth p2 D RNone) ->
  nth_error (ns st0) i = Some s0 ->
  step_post i st dl
    (match step fuel g env t p1 st with
     | Some st1 =>
         match step fuel g env t p2 st1 with
         | Some st2 =>
             finish st2 i t (F (crdd_at st2 p1) (crdd_at st2 p2))
                    (EvFire i t [crdd_at st2 p1; crdd_at st2 p2])
         | None => None
         end
     | None => None
     end).
Proof.
  intros IH HI Hi Hf Hnin Hg Hns Hpar Hval Hs0.
  assert (Hp1 : (p1 < i)%nat) by (eapply Hwf; eauto; rewrite Hpar; simpl; auto).
  assert (Hp2 : (p2 < i)%nat) by (eapply Hwf; eauto; rewrite Hpar; simpl; auto).
  destruct (IH p1 st dl HI ltac:(lia) ltac:(lia)) as [st1 [dl1 [E1 [HI1 [Hin1 Hle1]]]]].
  rewrite E1.
  destruct (IH p2 st1 (dl ++ dl1) HI1 ltac:(lia) ltac:(lia)) as [st2 [dl2 [E2 [HI2 [Hin2 Hle2]]]]].
  rewrite E2.
  assert (Hin1' : In p1 ((dl ++ dl1) ++ dl2)) by (apply in_or_app; left; auto).
  rewrite (crdd_at_done st2 _ p1 HI2 Hin1'), (crdd_at_done st2 _ p2 HI2 Hin2).
  assert (Hnin2 : ~ In i ((dl ++ dl1) ++ dl2)).
  { intro H. apply in_app_or in H as [H|H]; [apply in_app_or in H as [H|H]|]; auto.
    - apply Hle1 in H; lia.
    - apply Hle2 in H; lia. }
  destruct (finish_inv st2 _ i s0 (F (nth p1 D RNone) (nth p2 D RNone))
              (EvFire i t [nth p1 D RNone; nth p2 D RNone]) HI2 Hi Hnin2 Hs0) as [st' [Hfin HI']].
  - rewrite (post_nonsrc i nd s0 Hg Hns Hs0), Hval. reflexivity.
  - rewrite (ev_nonsrc i nd Hg Hns), Hpar. reflexivity.
  - exists st', (dl1 ++ dl2 ++ [i]). split; [exact Hfin|].
    replace (dl ++ dl1 ++ dl2 ++ [i]) with (((dl ++ dl1) ++ dl2) ++ [i]) by (repeat rewrite <- app_assoc; reflexivity).
    split; [exact HI'|]. split; [apply in_or_app; right; simpl; auto|].
    intros j Hj. apply in_app_or in Hj as [Hj|Hj]; [apply Hle1 in Hj; lia|].
    apply in_app_or in Hj as [Hj|[<-|[]]]; [apply Hle2 in Hj; lia|lia].
Qed.

Lemma step_inv : forall fuel i st dl,
  Inv st dl -> (i < length g)%nat -> (i < fuel)%nat ->
  step_post i st dl (step fuel g env t i st).
Proof.
  induction fuel as [|fuel IH]; intros i st dl HI Hi Hf; [lia|].
  simpl.
  destruct (nth_error g i) as [nd|] eqn:Hg.
  2:{ apply nth_error_None in Hg; lia. }
  destruct (pre_exists i Hi) as [s0 Hs0].
  rewrite (inv_ns _ _ HI i s0 Hs0).
  destruct (inb i dl) eqn:Ein.
  - (* already stepped at this time: the guard returns *)
    rewrite post_time, guard_done. apply step_post_done; auto. apply inb_In; auto.
  - assert (Hnin : ~ In i dl) by (intro H; apply inb_In in H; congruence).
    rewrite (guard_pending nd _ (Hlt i s0 Hs0)).
    destruct nd as [k|f p|f p1 p2|op np p1 p2].
    + (* source *)
      pose proof (post_src i k s0 Hg Hs0) as Hp.
      destruct (src_get k (env i) s0) as [it s'] eqn:Eg. simpl in Hp.
      eexists _, [i]. split; [reflexivity|].
      split; [apply set_inv; auto; symmetry; eapply ev_src; eauto|].
      split; [apply in_or_app; right; simpl; auto|].
      intros j [<-|[]]; lia.
    + (* transformed *)
      assert (Hp : (p < i)%nat) by (eapply Hwf; eauto; simpl; auto).
      destruct (IH p st dl HI ltac:(lia) ltac:(lia)) as [st1 [dl1 [E1 [HI1 [Hin1 Hle1]]]]].
      rewrite E1. rewrite (crdd_at_done st1 _ p HI1 Hin1).
      (* the early return (parent holds no RDD) is excluded by [live] *)
      pose proof (Hlive i f p Hg) as Hdef. fold D in Hdef.
      destruct (nth p D RNone) as [|r] eqn:Ed; [exfalso; apply Hdef; reflexivity|].
      assert (Hnin1 : ~ In i (dl ++ dl1)).
      { intro H. apply in_app_or in H as [H|H]; auto. apply Hle1 in H; lia. }
      destruct (finish_inv st1 _ i s0 (f t (RRdd r)) (EvFire i t [RRdd r])
                  HI1 Hi Hnin1 Hs0) as [st' [Hfin HI']].
      * rewrite (post_nonsrc i (Trans f p) s0 Hg ltac:(intros k; discriminate) Hs0). simpl. rewrite Ed. reflexivity.
      * rewrite (ev_nonsrc i (Trans f p) Hg ltac:(intros k; discriminate)). simpl. rewrite Ed. reflexivity.
      * exists st', (dl1 ++ [i]). split; [exact Hfin|].
        rewrite app_assoc. split; [exact HI'|]. split; [apply in_or_app; right; simpl; auto|].
        intros j Hj. apply in_app_or in Hj as [Hj|[<-|[]]]; [apply Hle1 in Hj; lia|lia].
    + apply (two_parent_case fuel i st dl (TransWith f p1 p2) p1 p2 s0 (f t)); auto; try lia.
      intros k; discriminate.
    + apply (two_parent_case fuel i st dl (Cogrouped op np p1 p2) p1 p2 s0 (cg_apply op np)); auto; try lia.
      intros k; discriminate.
Qed.

Lemma step_all_inv : forall order st dl,
  Inv st dl -> (forall i, In i order -> (i < length g)%nat) ->
  exists st' dl', step_all g env t order st = Some st' /\ Inv st' (dl ++ dl') /\
                  (forall i, In i order -> In i (dl ++ dl')).
Proof.
  induction order as [|i order IH]; intros st dl HI Hr; cbn [step_all].
  - exists st, []. rewrite app_nil_r. split; [reflexivity|]. split; [exact HI|]. intros i [].
  - destruct (step_inv (S (length g)) i st dl HI (Hr i (or_introl eq_refl)) ltac:(pose proof (Hr i (or_introl eq_refl)); lia))
      as [st1 [dl1 [E1 [HI1 [Hin1 _]]]]].
    rewrite E1.
    destruct (IH st1 (dl ++ dl1) HI1 (fun j Hj => Hr j (or_intror Hj))) as [st2 [dl2 [E2 [HI2 Hin2]]]].
    exists st2, (dl1 ++ dl2). rewrite app_assoc. split; [exact E2|]. split; [exact HI2|].
    intros j [<-|Hj]; [apply in_or_app; left; exact Hin1|apply Hin2; exact Hj].
Qed.

Lemma only_one (l : list nat) k : NoDup l -> (forall j, In j l -> j = k) -> In k l -> l = [k].
Proof.
  intros Hnd Hall Hin. destruct l as [|a l]; [destruct Hin|].
  assert (a = k) by (apply Hall; left; auto). subst a.
  destruct l as [|b l]; auto.
  assert (b = k) by (apply Hall; right; left; auto). subst b.
  inversion Hnd as [|? ? Hn _]; subst. exfalso; apply Hn; left; auto.
Qed.

Lemma NoDup_app_disjoint {A} (a b : list A) x : NoDup (a ++ b) -> In x a -> In x b -> False.
Proof.
  induction a as [|y a IH]; simpl; intros Hnd Ha Hb; [destruct Ha|].
  inversion Hnd as [|? ? Hn Hnd']; subst. destruct Ha as [->|Ha].
  - apply Hn. apply in_or_app; right; auto.
  - eapply IH; eauto.
Qed.
Lemma NoDup_app_r {A} (a b : list A) : NoDup (a ++ b) -> NoDup b.
Proof. induction a; simpl; auto. intros H; inversion H; auto. Qed.

(* registration order: every node is completed by its own step, parents are already done *)
Lemma step_all_seq : forall m k st,
  Inv st (seq 0 k) -> (k + m = length g)%nat ->
  exists st', step_all g env t (seq k m) st = Some st' /\ Inv st' (seq 0 (k + m)).
Proof.
  induction m as [|m IH]; intros k st HI Hkm; cbn [step_all seq].
  - exists st. rewrite Nat.add_0_r. auto.
  - destruct (step_inv (S (length g)) k st (seq 0 k) HI ltac:(lia) ltac:(lia))
      as [st1 [dl1 [E1 [HI1 [Hin1 Hle1]]]]].
    rewrite E1.
    assert (dl1 = [k]).
    { pose proof (inv_nodup _ _ HI1) as Hnd.
      apply only_one.
      - eapply NoDup_app_r; eauto.
      - intros j Hj. pose proof (Hle1 j Hj).
        destruct (Nat.eq_dec j k); auto. exfalso.
        eapply (NoDup_app_disjoint (seq 0 k) dl1 j); eauto. apply in_seq; lia.
      - apply in_app_or in Hin1 as [H|H]; auto. apply in_seq in H; lia. }
    subst dl1.
    assert (Hs : seq 0 k ++ [k] = seq 0 (S k)) by (rewrite seq_S; reflexivity).
    rewrite Hs in HI1.
    destruct (IH (S k) st1 HI1 ltac:(lia)) as [st' [E' HI']].
    exists st'. split; auto. replace (k + S m)%nat with (S k + m)%nat by lia. exact HI'.
Qed.

Lemma Inv_all_ns st dl :
  Inv st dl -> (forall i, (i < length g)%nat -> In i dl) ->
  ns st = map post (seq 0 (length g)).
Proof.
  intros HI Hall. apply nth_error_ext_eq. intros i.
  destruct (Nat.lt_ge_cases i (length g)) as [Hi|Hi].
  - destruct (pre_exists i Hi) as [s0 Hs0].
    rewrite (inv_ns _ _ HI i s0 Hs0).
    replace (inb i dl) with true by (symmetry; apply inb_In; auto).
    rewrite nth_error_map, nth_error_nth' with (d := O) by (rewrite seq_length; auto).
    rewrite seq_nth by auto. reflexivity.
  - replace (nth_error (ns st) i) with (@None nstate)
      by (symmetry; apply nth_error_None; rewrite (inv_len _ _ HI); auto).
    symmetry; apply nth_error_None. rewrite map_length, seq_length; auto.
Qed.

Theorem tick_refines : tick g env t st0 = Some (tick_spec g env t st0).
Proof.
  unfold tick.
  destruct (step_all_seq (length g) 0 st0 Inv_init eq_refl) as [st' [E HI]].
  rewrite E. f_equal. simpl in HI.
  destruct st' as [ns' log']. unfold tick_spec. f_equal.
  - apply (Inv_all_ns _ _ HI). intros i Hi. apply in_seq; lia.
  - apply (inv_log _ _ HI).
Qed.

(* any stepping order that mentions every registered node (repetitions allowed) *)
Theorem any_order_refines order :
  (forall i, In i order -> (i < length g)%nat) ->
  (forall i, (i < length g)%nat -> In i order) ->
  exists st' dl, step_all g env t order st0 = Some st' /\
                 ns st' = ns (tick_spec g env t st0) /\
                 log st' = log st0 ++ map ev dl /\
                 Permutation dl (seq 0 (length g)).
Proof.
  intros Hr Hc.
  destruct (step_all_inv order st0 [] Inv_init Hr) as [st' [dl [E [HI Hin]]]].
  simpl in HI, Hin. exists st', dl. split; [exact E|].
  split; [apply (Inv_all_ns _ _ HI); intros i Hi; apply Hin, Hc; auto|].
  split; [apply (inv_log _ _ HI)|].
  apply NoDup_Permutation.
  - apply (inv_nodup _ _ HI).
  - apply seq_NoDup.
  - intros x; split; intros H.
    + apply in_seq. pose proof (inv_range _ _ HI x H). lia.
    + apply in_seq in H. apply Hin, Hc. lia.
Qed.
End Tick.
