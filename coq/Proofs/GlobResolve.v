(* C20 -- lemmas about Local.resolve_filenames / File.resolve_filenames: literal prefix, dirname, the walk root
   loses no match, resolution is sound and complete, dataset directories, comma split. *)
From Coq Require Import NArith List Bool Lia String.
Require Import PV.Gen.FsDispatch PV.Model.Glob PV.Model.GlobSpec.
Require Import PV.Proofs.GlobMatch PV.Proofs.GlobPath.
Import ListNotations.
Open Scope N_scope.

(* ---------- literal prefix *)
Lemma lit_prefix_literal e : literal (lit_prefix e).
Proof.
  induction e as [|c e IH]; simpl. intros x []. destruct (is_wild c) eqn:W. intros x [].
  intros x [<-|Hx]; auto.
Qed.
Lemma lit_prefix_split e : exists rest, e = lit_prefix e ++ rest.
Proof.
  induction e as [|c e (rest & IH)]; simpl. exists []. auto.
  destruct (is_wild c). exists (c :: e). auto. exists rest. simpl. congruence.
Qed.
Lemma lit_prefix_app l e : literal l -> lit_prefix (l ++ e) = l ++ lit_prefix e.
Proof.
  induction l as [|c l IH]; intro L; simpl; auto. rewrite (L c) by (left; auto). rewrite IH; auto.
  intros x Hx. apply L. right. auto.
Qed.
Lemma lit_prefix_of_literal l : literal l -> lit_prefix l = l.
Proof. intro L. rewrite <- (app_nil_r l) at 1. rewrite lit_prefix_app by auto. simpl. apply app_nil_r. Qed.
Lemma literal_app a b : literal a -> literal b -> literal (a ++ b).
Proof. intros A B c Hc. apply in_app_or in Hc. destruct Hc; auto. Qed.
Lemma literal_dotslash : literal dotslash.
Proof. intros c [<-|[<-|[]]]; reflexivity. Qed.

Lemma accepts_prefix e2 s : accepts e2 s = true -> exists r, s = lit_prefix e2 ++ r.
Proof.
  unfold accepts. intro H. destruct (lit_prefix_split e2) as (rest & E). apply orb_true_iff in H.
  destruct H as [H|H]; rewrite E in H.
  - apply gmatch_lit_prefix in H. destruct H as (r & -> & _). eauto. apply lit_prefix_literal.
  - rewrite <- app_assoc in H. apply gmatch_lit_prefix in H. destruct H as (r & -> & _). eauto. apply lit_prefix_literal.
Qed.

(* ---------- dirname *)
Lemma dir_head_split p : has_slash p = true -> exists t, p = dir_head p ++ t /\ ends_slash (dir_head p) = true.
Proof.
  induction p as [|c p IH]. discriminate. intro H. simpl. destruct (has_slash p) eqn:Hp.
  - destruct (IH eq_refl) as (t & E & S). exists t. split. simpl. congruence.
    destruct (dir_head p) eqn:D. discriminate. exact S.
  - assert (Hc : has_slash (c :: p) = (c_slash =? c) || has_slash p) by reflexivity.
    rewrite Hc, Hp, orb_false_r in H. apply N.eqb_eq in H. subst c.
    rewrite N.eqb_refl. exists p. auto.
Qed.

Lemma all_slash_ends z : z <> [] -> all_slash z = true -> ends_slash z = true.
Proof.
  induction z as [|c z IH]. congruence. intros _ H. simpl in H. apply andb_true_iff in H. destruct H as [H1 H2].
  destruct z as [|d z]. simpl. rewrite N.eqb_sym. auto. apply IH in H2. exact H2. discriminate.
Qed.

Lemma rstrip_slash_split h : exists z, h = rstrip_slash h ++ z /\ all_slash z = true /\ ends_slash (rstrip_slash h) = false.
Proof.
  induction h as [|c h (z & E & A & S)]. exists []. auto.
  simpl. destruct (rstrip_slash h) as [|x r] eqn:R.
  - destruct (N.eqb_spec c c_slash) as [->|NE].
    + exists (c_slash :: h). simpl in E. subst z. split; [reflexivity|]. split; [exact A|reflexivity].
    + exists h. simpl in E. subst z. split; [reflexivity|]. split; [exact A|]. simpl. apply N.eqb_neq. auto.
  - exists z. split. simpl. simpl in E. congruence. split; auto.
Qed.

Lemma disp_app R a b : disp R a ++ b = disp R (a ++ b).
Proof. unfold disp. rewrite <- !app_assoc. reflexivity. Qed.

Lemma dirname_decomp p : has_slash p = true -> exists t, p = disp (dirname p) t.
Proof.
  intro H. destruct (dir_head_split p H) as (t & E & S). unfold dirname.
  destruct (all_slash (dir_head p)) eqn:A.
  - exists t. unfold disp. rewrite S. simpl. exact E.
  - destruct (rstrip_slash_split (dir_head p)) as (z & Ez & Az & Sz).
    destruct z as [|c z].
    + rewrite app_nil_r in Ez. rewrite <- Ez in Sz. congruence.
    + change (all_slash (c :: z)) with ((c_slash =? c) && all_slash z) in Az.
      apply andb_true_iff in Az. destruct Az as [Ac _]. apply N.eqb_eq in Ac. subst c.
      exists (z ++ t). unfold disp. rewrite Sz. rewrite E at 1. rewrite Ez at 1. rewrite <- !app_assoc. reflexivity.
Qed.

(* ---------- the plan: effective expression and walk root *)
Lemma plan_cases e0 :
  plan e0 = let p := lit_prefix (with_sep e0) in
            if has_slash p
            then (with_sep e0, if negb (ends_slash p) && has_slash p then dirname p else p)
            else (dotslash ++ with_sep e0, dotslash).
Proof. unfold plan. cbv zeta. destruct (has_slash (lit_prefix (with_sep e0))) eqn:E; rewrite ?E; reflexivity. Qed.

Lemma with_sep_has_slash e0 : has_slash (with_sep e0) = true.
Proof. unfold with_sep. destruct (has_slash e0) eqn:H; auto. Qed.

Lemma dirname_nonempty p : has_slash p = true -> dirname p <> [].
Proof.
  intro H. destruct (dir_head_split p H) as (t & E & S). unfold dirname.
  destruct (all_slash (dir_head p)) eqn:A.
  - intro N. rewrite N in S. discriminate.
  - destruct (rstrip_slash_split (dir_head p)) as (z & Ez & Az & Sz). intro N. rewrite N in Ez. simpl in Ez.
    rewrite Ez in A. congruence.
Qed.

Lemma plan_root_nonempty e0 : snd (plan e0) <> [].
Proof.
  rewrite plan_cases. cbv zeta. destruct (has_slash (lit_prefix (with_sep e0))) eqn:P; [|discriminate].
  simpl. rewrite andb_true_r. destruct (ends_slash (lit_prefix (with_sep e0))) eqn:C; simpl.
  - intro N. rewrite N in P. discriminate.
  - apply dirname_nonempty. auto.
Qed.

(* the walk-root optimisation at the level of strings: whatever the effective expression (or its dataset
   variant) matches lies textually below the directory handed to os.walk *)
Theorem prefix_sound e0 s :
  accepts (fst (plan e0)) s = true -> exists rest, s = disp (snd (plan e0)) rest.
Proof.
  rewrite plan_cases. cbv zeta. destruct (has_slash (lit_prefix (with_sep e0))) eqn:P; intro H; cbn [fst snd] in *.
  - apply accepts_prefix in H. destruct H as (r & ->). rewrite andb_true_r.
    destruct (ends_slash (lit_prefix (with_sep e0))) eqn:S; cbn [negb].
    + exists r. unfold disp. rewrite S. reflexivity.
    + destruct (dirname_decomp _ P) as (t & E). exists (t ++ r). rewrite <- disp_app, <- E. reflexivity.
  - apply accepts_prefix in H. destruct H as (r & ->). rewrite lit_prefix_app by apply literal_dotslash.
    exists (lit_prefix (with_sep e0) ++ r). unfold disp. simpl. reflexivity.
Qed.

(* ---------- Local.resolve_filenames *)
Theorem resolve_sound fs e s : wf_fs fs = true -> In s (resolve_local fs e) ->
  isfile fs s = true /\
  (if isfile fs (strip_scheme e) then s = strip_scheme e else accepts (eff_expr e) s = true).
Proof.
  intros WF H. unfold resolve_local, eff_expr in *. destruct (isfile fs (strip_scheme e)) eqn:I.
  - destruct H as [<-|[]]. auto.
  - destruct (plan (strip_scheme e)) as [e2 R] eqn:P. apply filter_In in H. destruct H as [H A]. split; auto.
    eapply walk_isfile; eauto.
Qed.

Theorem resolve_file_shortcut fs e : isfile fs (strip_scheme e) = true -> resolve_local fs e = [strip_scheme e].
Proof. intro H. unfold resolve_local. rewrite H. reflexivity. Qed.

Theorem resolve_complete fs e s f :
  wf_fs fs = true -> isfile fs (strip_scheme e) = false ->
  In f (files fs) -> cname fs s f -> accepts (eff_expr e) s = true -> In s (resolve_local fs e).
Proof.
  intros WF I If C A. unfold resolve_local, eff_expr in *. rewrite I.
  destruct (prefix_sound _ _ A) as (rest & E). pose proof (plan_root_nonempty (strip_scheme e)) as NR.
  destruct (plan (strip_scheme e)) as [e2 R] eqn:P. simpl in *. apply filter_In. split; auto.
  eapply walk_complete; eauto.
Qed.

Theorem nomatch_empty fs e : wf_fs fs = true -> isfile fs (strip_scheme e) = false ->
  (forall s, isfile fs s = true -> accepts (eff_expr e) s = false) -> resolve_local fs e = [].
Proof.
  intros WF I H. destruct (resolve_local fs e) as [|s l] eqn:E; auto. exfalso.
  assert (In s (resolve_local fs e)) as Hin by (rewrite E; left; auto).
  apply resolve_sound in Hin; auto. rewrite I in Hin. destruct Hin as [F A]. rewrite (H s F) in A. discriminate.
Qed.

(* ---------- dataset directories *)
Definition part_lit : str := [c_slash; 112; 97; 114; 116].          (* /part *)
Definition success_lit : str := [c_slash; 95; 83; 85; 67; 67; 69; 83; 83].   (* /_SUCCESS *)

Lemma literal_part : literal part_lit.
Proof. intros c H. repeat (destruct H as [<-|H]; [reflexivity|]). destruct H. Qed.

Theorem part_rule_spec d s : literal d ->
  (gmatch (d ++ local_part_suffix) s = true <-> exists r, s = d ++ part_lit ++ r).
Proof.
  intro L. rewrite part_suffix_link. change [c_slash; 112; 97; 114; 116; c_star] with (part_lit ++ [c_star]).
  rewrite app_assoc. rewrite gmatch_lit_star by (apply literal_app; auto; apply literal_part).
  split; intros (r & ->); exists r; rewrite <- ?app_assoc; auto.
Qed.

Theorem marker_excluded d : literal d -> gmatch (d ++ local_part_suffix) (d ++ success_lit) = false.
Proof.
  intro L. destruct (gmatch (d ++ local_part_suffix) (d ++ success_lit)) eqn:E; auto.
  apply part_rule_spec in E; auto. destruct E as (r & E). apply app_inv_head in E. discriminate.
Qed.

Lemma split_dotslash e0 : split_on c_slash (dotslash ++ e0) = [c_dot] :: split_on c_slash e0.
Proof. reflexivity. Qed.

Lemma isfile_with_sep fs e0 : isfile fs (with_sep e0) = isfile fs e0.
Proof.
  unfold with_sep. destruct (has_slash e0) eqn:H; auto.
  assert (A : is_abs e0 = false).
  { destruct e0 as [|c e0]; auto. simpl. apply N.eqb_neq. eapply has_slash_false; eauto. left. auto. }
  unfold isfile, last_proper, denote. rewrite A, split_dotslash. simpl is_abs. simpl norm_comps.
  f_equal. destruct (split_on c_slash e0) eqn:E. exfalso. eapply split_nonnil; eauto. reflexivity.
Qed.

Lemma eff_expr_literal e : literal (strip_scheme e) -> eff_expr e = with_sep (strip_scheme e).
Proof.
  intro L. unfold eff_expr. rewrite plan_cases. cbv zeta.
  assert (L1 : literal (with_sep (strip_scheme e))).
  { unfold with_sep. destruct (has_slash (strip_scheme e)); auto. apply literal_app; auto. apply literal_dotslash. }
  rewrite lit_prefix_of_literal by auto. rewrite with_sep_has_slash. reflexivity.
Qed.

(* an item without wildcards that is not itself a file resolves to nothing but existing files named
   <item>/part...; in particular never to <item>/_SUCCESS *)
Theorem dataset_dir_parts_only fs e s :
  wf_fs fs = true -> literal (strip_scheme e) -> isfile fs (strip_scheme e) = false ->
  In s (resolve_local fs e) ->
  isfile fs s = true /\ (exists r, s = with_sep (strip_scheme e) ++ part_lit ++ r) /\
  s <> with_sep (strip_scheme e) ++ success_lit.
Proof.
  intros WF L I H. apply resolve_sound in H; auto. rewrite I in H. destruct H as [F A].
  rewrite eff_expr_literal in A by auto. set (e1 := with_sep (strip_scheme e)) in *.
  assert (L1 : literal e1).
  { unfold e1, with_sep. destruct (has_slash (strip_scheme e)); auto. apply literal_app; auto. apply literal_dotslash. }
  unfold accepts in A. apply orb_true_iff in A. destruct A as [A|A].
  - apply gmatch_literal in A; auto. subst s. unfold e1 in F. rewrite isfile_with_sep in F. congruence.
  - split; auto. split. apply part_rule_spec; auto.
    intro E. subst s. rewrite marker_excluded in A by auto. discriminate.
Qed.

Theorem dataset_dir_parts_resolved fs e s f r :
  wf_fs fs = true -> literal (strip_scheme e) -> isfile fs (strip_scheme e) = false ->
  In f (files fs) -> cname fs s f -> s = with_sep (strip_scheme e) ++ part_lit ++ r ->
  In s (resolve_local fs e).
Proof.
  intros WF L I If C E. eapply resolve_complete; eauto.
  rewrite eff_expr_literal by auto. unfold accepts. apply orb_true_iff. right.
  assert (L1 : literal (with_sep (strip_scheme e))).
  { unfold with_sep. destruct (has_slash (strip_scheme e)); auto. apply literal_app; auto. apply literal_dotslash. }
  apply part_rule_spec; eauto.
Qed.

(* ---------- File.resolve_filenames: the comma split *)
Lemma resolve_items_local fs items :
  Forall (fun it => get_fs (strip it) = cls_local) items ->
  resolve_items fs items = Names (flat_map (fun it => resolve_local fs (strip it)) items).
Proof.
  induction 1 as [|it items H _ IH]; simpl; auto. unfold resolve_item. rewrite H. simpl. rewrite IH. reflexivity.
Qed.

Theorem comma_union fs items :
  items <> [] -> Forall (fun it => forall c, In c it -> c <> c_comma) items ->
  Forall (fun it => get_fs (strip it) = cls_local) items ->
  resolve_all fs (join c_comma items) = Names (flat_map (fun it => resolve_local fs (strip it)) items).
Proof.
  intros NE NC LOC. unfold resolve_all. rewrite split_join; auto. apply resolve_items_local; auto.
  rewrite Forall_forall in NC. auto.
Qed.

Theorem comma_union_in fs items s :
  items <> [] -> Forall (fun it => forall c, In c it -> c <> c_comma) items ->
  Forall (fun it => get_fs (strip it) = cls_local) items ->
  (exists l, resolve_all fs (join c_comma items) = Names l /\
             (In s l <-> exists it, In it items /\ In s (resolve_local fs (strip it)))).
Proof.
  intros NE NC LOC. eexists. split. apply comma_union; auto. apply in_flat_map.
Qed.

(* an item without '://' goes to the local file system, and so does file://... *)
Lemma get_fs_no_scheme it : before_first scheme_sep it = None -> get_fs it = cls_local.
Proof. intro H. unfold get_fs, scheme_of. rewrite H. reflexivity. Qed.
Lemma get_fs_file_scheme x : get_fs (local_scheme_prefix ++ x) = cls_local.
Proof. reflexivity. Qed.

(* for canonical names of existing files: resolved exactly when the item (or its dataset variant) matches *)
Theorem resolve_exact fs e s f :
  wf_fs fs = true -> isfile fs (strip_scheme e) = false -> In f (files fs) -> cname fs s f ->
  (In s (resolve_local fs e) <-> accepts (eff_expr e) s = true).
Proof.
  intros WF I If C. split.
  - intro H. apply resolve_sound in H; auto. rewrite I in H. tauto.
  - intro A. eapply resolve_complete; eauto.
Qed.
Lemma strip_scheme_prefix x : strip_scheme (local_scheme_prefix ++ x) = x.
Proof. reflexivity. Qed.

(* ---------- each file at most once per item *)
Lemma nodup_app {A} (a b : list A) : NoDup a -> NoDup b -> (forall x, In x a -> ~ In x b) -> NoDup (a ++ b).
Proof.
  induction 1 as [|x a Nx Na IH]; intros Nb D; simpl; auto. constructor.
  - intro H. apply in_app_or in H. destruct H as [H|H]; auto. apply (D x); simpl; auto.
  - apply IH; auto. intros y Hy. apply D. right. auto.
Qed.

Lemma nodup_flat_map {A B} (g : A -> list B) l :
  NoDup l -> (forall a, In a l -> NoDup (g a)) ->
  (forall a a' s, In a l -> In a' l -> In s (g a) -> In s (g a') -> a = a') -> NoDup (flat_map g l).
Proof.
  induction 1 as [|x l Nx Nl IH]; intros G INJ; simpl. constructor.
  apply nodup_app.
  - apply G. left. auto.
  - apply IH. intros a Ha. apply G. right. auto. intros a a' s Ha Ha'. apply INJ; right; auto.
  - intros s Hs Hs'. apply in_flat_map in Hs'. destruct Hs' as (a' & Ha' & Hs').
    assert (x = a') by (eapply INJ; eauto; [left|right]; auto). subst a'. contradiction.
Qed.

Lemma disp_inj R a b : disp R a = disp R b -> a = b.
Proof. unfold disp. intro H. apply app_inv_head in H. apply app_inv_head in H. auto. Qed.

Definition walk_item (fs : fsys) (root : str) (f : list str) : list str :=
  match strip_pre (denote fs root) f with
  | Some (c :: r) => [disp root (join c_slash (c :: r))]
  | _ => []
  end.

Lemma walk_flat fs R : R <> [] -> walk fs R = flat_map (walk_item fs R) (files fs).
Proof. destruct R; [congruence|]. reflexivity. Qed.

Lemma walk_item_spec fs R f s : In s (walk_item fs R f) ->
  exists x, x <> [] /\ f = denote fs R ++ x /\ s = disp R (join c_slash x).
Proof.
  unfold walk_item. destruct (strip_pre (denote fs R) f) as [[|c x]|] eqn:E.
  - intros [].
  - intros [<-|[]]. apply strip_pre_spec in E. exists (c :: x). repeat split; auto. discriminate.
  - intros [].
Qed.

Lemma walk_nodup fs R : wf_fs fs = true -> NoDup (files fs) -> NoDup (walk fs R).
Proof.
  intros WF ND. destruct R as [|r0 R]. constructor. rewrite walk_flat by discriminate.
  apply nodup_flat_map; auto.
  - intros f _. unfold walk_item. destruct (strip_pre _ f) as [[|c x]|]; repeat constructor. intros [].
  - intros f f' s If If' Hs Hs'. apply walk_item_spec in Hs, Hs'.
    destruct Hs as (x & Nx & Ef & Es). destruct Hs' as (x' & Nx' & Ef' & Es').
    destruct (wf_file fs f WF If) as [Ok _]. destruct (wf_file fs f' WF If') as [Ok' _].
    rewrite Ef in Ok. rewrite Ef' in Ok'. apply forallb_app_inv in Ok, Ok'.
    rewrite Es in Es'. apply disp_inj in Es'.
    assert (x = x').
    { rewrite <- (split_join_ok x), <- (split_join_ok x'); try tauto. rewrite Es'. reflexivity. }
    congruence.
Qed.

Lemma nodup_filter {A} (p : A -> bool) l : NoDup l -> NoDup (filter p l).
Proof.
  induction 1 as [|x l Nx Nl IH]; simpl. constructor. destruct (p x); auto. constructor; auto.
  intro H. apply filter_In in H. tauto.
Qed.

Theorem resolve_nodup fs e : wf_fs fs = true -> NoDup (files fs) -> NoDup (resolve_local fs e).
Proof.
  intros WF ND. unfold resolve_local. destruct (isfile fs (strip_scheme e)). repeat constructor. intros [].
  destruct (plan (strip_scheme e)) as [e2 R]. apply nodup_filter. apply walk_nodup; auto.
Qed.

(* ---------- end to end: File.resolve_filenames on a comma-separated expression *)
Theorem resolve_all_exact fs items s f :
  wf_fs fs = true -> items <> [] -> Forall (fun it => forall c, In c it -> c <> c_comma) items ->
  Forall (fun it => get_fs (strip it) = cls_local) items ->
  In f (files fs) -> cname fs s f ->
  exists l, resolve_all fs (join c_comma items) = Names l /\
    (In s l <-> exists it, In it items /\
                  if isfile fs (strip_scheme (strip it)) then s = strip_scheme (strip it)
                  else accepts (eff_expr (strip it)) s = true).
Proof.
  intros WF NE NC LOC If C. destruct (comma_union_in fs items s NE NC LOC) as (l & E & IFF).
  exists l. split; auto. rewrite IFF. split; intros (it & Hit & H); exists it; split; auto.
  - apply resolve_sound in H; tauto.
  - destruct (isfile fs (strip_scheme (strip it))) eqn:I.
    + rewrite resolve_file_shortcut by auto. left. auto.
    + eapply resolve_complete; eauto.
Qed.
(* ---------- how the effective expression relates to the item *)
Lemma is_abs_has_slash_prefix e0 : is_abs e0 = true -> has_slash (lit_prefix e0) = true.
Proof.
  destruct e0 as [|c e0]; [discriminate|]. simpl. intro H. apply N.eqb_eq in H. subst c. reflexivity.
Qed.

Theorem eff_expr_shape e :
  eff_expr e = strip_scheme e \/
  (is_abs (strip_scheme e) = false /\ eff_expr e = dotslash ++ strip_scheme e).
Proof.
  unfold eff_expr. rewrite plan_cases. cbv zeta. unfold with_sep. set (e0 := strip_scheme e).
  destruct (has_slash e0) eqn:H.
  - destruct (has_slash (lit_prefix e0)) eqn:P; [left; reflexivity|]. right. split; [|reflexivity].
    destruct (is_abs e0) eqn:A; auto. apply is_abs_has_slash_prefix in A. congruence.
  - right. split.
    + destruct e0 as [|c e0]; auto. simpl. apply N.eqb_neq. eapply has_slash_false; eauto. left. auto.
    + rewrite lit_prefix_app by apply literal_dotslash. reflexivity.
Qed.

Theorem accepts_dotslash p s : accepts (dotslash ++ p) (dotslash ++ s) = accepts p s.
Proof. reflexivity. Qed.
