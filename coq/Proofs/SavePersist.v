(* C09: saving a persisted data set is saving under a transformed plan; each part file of a marked directory
   decodes to its own partition. *)
From Coq Require Import List Bool Arith NArith Lia.
Require Import PV.Gen.SaveOrder PV.Model.Save PV.Proofs.Save.
Import ListNotations.

Lemma persist_plan_all_fail : forall cached p i m,
  cached <= i -> (forall a, 1 <= a <= m -> cf p i a = true) ->
  forall a, 1 <= a <= m -> cf (persist_plan cached p) i a = true.
Proof.
  intros cached p i m Hc Hall a Ha. unfold persist_plan; simpl.
  replace (i <? cached) with false by (symmetry; apply Nat.ltb_ge; lia).
  rewrite Hall by lia. simpl. apply forallb_forall. intros a' Hin. apply in_seq in Hin. apply Hall. lia.
Qed.

(* a fault-free partition stays fault-free, write faults are untouched *)
Lemma persist_plan_wf : forall cached p k, wf (persist_plan cached p) k = wf p k.
Proof. reflexivity. Qed.
Lemma persist_plan_cf_le : forall cached p i a, cf (persist_plan cached p) i a = true -> cf p i a = true.
Proof.
  intros cached p i a H. unfold persist_plan in H; simpl in H.
  apply andb_true_iff in H. destruct H as [H _]. apply andb_true_iff in H. apply H.
Qed.

(* the persisted data set (cached / cache(), [cached] partitions materialised beforehand): partition i, not yet
   materialised, fails while being computed on every attempt => the save fails, no marker *)
Theorem persisted_compute_failure_surfaces : forall A render sv p m xs c0 cached i r s',
  1 <= m -> i < length xs -> cached <= i -> (forall a, 1 <= a <= m -> cf p i a = true) ->
  save A render sv (persist_plan cached p) m xs (init_st FAbsent c0 false) = (r, s') ->
  exists e, r = Err e /\ (from_compute e \/ from_write e) /\ child (s_fs s') NMarker = None.
Proof.
  intros A render sv p m xs c0 cached i r s' Hm Hi Hc Hall H.
  eapply (compute_failure_surfaces A render sv (persist_plan cached p) m xs c0 i); eauto.
  apply persist_plan_all_fail; auto.
Qed.

(* every part file of a marked state decodes, on its own, to the data of its partition *)
Theorem read_each_part_file : forall A render B (items : A -> list B) decode,
  (forall x : A, decode (render x) = Ok (items x)) ->
  forall sv p m xs c0 r s',
  save A render sv p m xs (init_st FAbsent c0 false) = (r, s') ->
  forall f, In f (s_hist s' ++ [s_fs s']) -> child f NMarker <> None ->
  forall i x, nth_error xs i = Some x ->
  exists c, child f (NPart i) = Some c /\ decode c = Ok (items x).
Proof.
  intros A render B items decode Hd sv p m xs c0 r s' H f Hin Hm i x Hx.
  destruct (marker_implies_complete _ _ _ _ _ _ _ _ _ H f Hin Hm) as [-> _].
  exists (render x). split; [|apply Hd]. rewrite complete_dir_parts, Hx. reflexivity.
Qed.

(* after a successful save to an absent target, a second save to the same path -- any data, any plan, any
   saver -- is refused and changes nothing (the name of the target plays no role: paths are opaque) *)
Theorem second_save_refused : forall A render sv p m xs c0 s1,
  save A render sv p m xs (init_st FAbsent c0 false) = (Ok tt, s1) ->
  forall (B : Type) (render2 : B -> bytes) sv2 p2 m2 (ys : list B) c1 lk,
  save B render2 sv2 p2 m2 ys (init_st (s_fs s1) c1 lk) = (Err EExists, init_st (s_fs s1) c1 lk).
Proof.
  intros A render sv p m xs c0 s1 H B render2 sv2 p2 m2 ys c1 lk.
  apply no_overwrite. rewrite (ok_implies_complete _ _ _ _ _ _ _ _ H).
  destruct xs as [|x [|y xs]]; reflexivity.
Qed.
