(* Order independence of inference: a row that determines every type fixes the result wherever it stands. *)
From Coq Require Import ZArith NArith List Bool String Ascii Lia PeanoNat.
Require Import PV.Gen.TypeTables PV.Model.Types PV.Proofs.TypesJson PV.Proofs.TypesRows PV.Proofs.TypesInfer.
Import ListNotations.
Open Scope list_scope.
Open Scope Z_scope.

Lemma merge_fields_full nfs : forall fs fa fb,
  Forall (fun f => inferable (sf_ty f) -> forall b, below b (sf_ty f) ->
                   merge_type (sf_ty f) b = Ok (sf_ty f) /\ merge_type b (sf_ty f) = Ok (sf_ty f)) fs ->
  fields_inferable fs -> fields_below fa fs -> fields_below fb fs ->
  (forall f, In f fb -> nlookup (sf_name f) nfs = Some (sf_ty f)) ->
  (* one of the two sides is the full list *)
  (fa = fs \/ fb = fs) ->
  merge_fields nfs fa = Ok fs.
Proof.
  induction fs as [|[n ty nl m] fs IHfs]; intros [|[na ta nla ma] fa] [|[nb tb nlb mb] fb] IH Hfi Ha Hb Hl Hfull;
    simpl in Ha, Hb; try contradiction; [reflexivity|].
  destruct Ha as (-> & -> & -> & Hta & Ha). destruct Hb as (-> & -> & -> & Htb & Hb).
  destruct Hfi as (-> & -> & Hity & Hfi). inversion IH as [|? ? IH0 IH']; subst. simpl in IH0.
  pose proof (Hl (SField n tb true []) (or_introl eq_refl)) as H0. simpl in H0. simpl. rewrite H0.
  assert (Ec : merge_type ta tb = Ok ty).
  { destruct Hfull as [E|E]; injection E as -> _.
    - apply (IH0 Hity tb Htb).
    - apply (IH0 Hity ta Hta). }
  rewrite Ec. simpl.
  rewrite (IHfs fa fb IH' Hfi Ha Hb); [reflexivity| |].
  - intros f Hf. apply Hl. now right.
  - destruct Hfull as [E|E]; injection E as _ ->; auto.
Qed.

Lemma below_refl : forall t, below t t.
Proof.
  induction t as [x|p q|e cn IHe|k y cn IHk IHy|fs IH] using dtype_ind'; try (now right).
  - right. eauto.
  - right. eauto 6.
  - right. exists fs. split; [reflexivity|]. fold fields_below.
    induction fs as [|[n ty nl m] fs IHfs]; [exact I|]. inversion IH as [|? ? IH0 IH']; subst. simpl. auto 6.
Qed.

Lemma merge_full : forall t, inferable t -> forall b, below b t ->
  merge_type t b = Ok t /\ merge_type b t = Ok t.
Proof.
  induction t as [x|p q|e cn IHe|k y cn IHk IHy|fs IH] using dtype_ind'; intros Hinf b Hb.
  - destruct Hb as [-> | ->]; [split; [apply merge_null_r|apply merge_null_l]|].
    split; destruct x; reflexivity.
  - destruct Hb as [-> | ->]; [split; [apply merge_null_r|apply merge_null_l]|]. split; reflexivity.
  - destruct Hinf as [-> Hie].
    destruct Hb as [->|(b' & -> & Hb)]; [split; [apply merge_null_r|apply merge_null_l]|].
    destruct (IHe Hie b' Hb) as [E1 E2].
    split; cbn [merge_type is_null]; cbn; [rewrite E1|rewrite E2]; reflexivity.
  - destruct Hinf as (-> & Hik & Hiy).
    destruct Hb as [->|(kb & yb & -> & Hkb & Hyb)]; [split; [apply merge_null_r|apply merge_null_l]|].
    destruct (IHk Hik kb Hkb) as [K1 K2]. destruct (IHy Hiy yb Hyb) as [Y1 Y2].
    split; cbn [merge_type is_null]; cbn; [rewrite K1; simpl; rewrite Y1|rewrite K2; simpl; rewrite Y2]; reflexivity.
  - pose proof Hinf as Hinf0. destruct Hinf as (Hnd & Hfi). fold fields_inferable in Hfi.
    destruct Hb as [->|(fb & -> & Hb)]; [split; [apply merge_null_r|apply merge_null_l]|].
    fold fields_below in Hb.
    pose proof (fields_below_names _ _ Hb) as Hnb.
    assert (Hself : fields_below fs fs).
    { pose proof (below_refl (TStruct fs)) as [E|(fs' & E & H)]; [discriminate E|]. injection E as <-. exact H. }
    assert (Hnd_of : forall l : list (sfield dtype), map sf_name l = map sf_name fs ->
              NoDup (map fst (map (fun f => (sf_name f, sf_ty f)) l))).
    { intros l El. rewrite map_map. simpl. change (fun x : sfield dtype => sf_name x) with (@sf_name dtype). now rewrite El. }
    assert (Hextra : forall l : list (sfield dtype), map sf_name l = map sf_name fs ->
              filter (fun p : str * dtype => negb (str_mem (fst p) (map sf_name fs)))
                     (map (fun f => (sf_name f, sf_ty f)) l) = []).
    { intros l El. apply filter_none. intros [kk tt] Hin. simpl. rewrite str_mem_in; [reflexivity|].
      rewrite <- El. apply (in_map fst) in Hin. rewrite map_map in Hin. simpl in Hin. exact Hin. }
    split; rewrite merge_struct; cbv zeta.
    + rewrite (dict_of_nodup _ (Hnd_of fb Hnb)).
      rewrite (merge_fields_full _ fs fs fb IH Hfi Hself Hb); [| |now left].
      * simpl bind. rewrite (Hextra fb Hnb). simpl. now rewrite app_nil_r.
      * intros f Hf. apply nlookup_in_nodup; [exact (Hnd_of fb Hnb)|].
        apply (in_map (fun f => (sf_name f, sf_ty f))) in Hf. exact Hf.
    + rewrite (dict_of_nodup _ (Hnd_of fs eq_refl)).
      rewrite (merge_fields_full _ fs fb fs IH Hfi Hb Hself); [| |now right].
      * simpl bind. rewrite (Hextra fs eq_refl). simpl. now rewrite app_nil_r.
      * intros f Hf. apply nlookup_in_nodup; [exact (Hnd_of fs eq_refl)|].
        apply (in_map (fun f => (sf_name f, sf_ty f))) in Hf. exact Hf.
Qed.

(* once the accumulated schema is the tree, it stays the tree *)
Lemma reduce_merge_full fs : inferable (TStruct fs) -> forall rows,
  Forall (is_row_of (TStruct fs)) rows -> reduce_merge (TStruct fs) rows = Ok (TStruct fs).
Proof.
  intros Hinf. induction rows as [|r rows IH]; intro Hrows; [reflexivity|].
  inversion Hrows as [|? ? Hr Hrows']; subst. cbn [reduce_merge].
  destruct (infer_schema_row fs r Hinf Hr) as (s & Es & Hs). rewrite Es. cbn [bind].
  destruct (merge_full (TStruct fs) Hinf s Hs) as [E _]. rewrite E. cbn [bind]. now apply IH.
Qed.

Lemma reduce_merge_reaches fs : inferable (TStruct fs) -> forall rows1 r rows2 acc,
  below acc (TStruct fs) -> Forall (is_row_of (TStruct fs)) (rows1 ++ r :: rows2) ->
  infer_schema r = Ok (TStruct fs) ->
  reduce_merge acc (rows1 ++ r :: rows2) = Ok (TStruct fs).
Proof.
  intros Hinf. induction rows1 as [|x rows1 IH]; intros r rows2 acc Hacc Hrows Hr; cbn [app] in *; cbn [reduce_merge].
  - inversion Hrows as [|? ? _ Hrows']; subst. rewrite Hr. cbn [bind].
    destruct (merge_full (TStruct fs) Hinf acc Hacc) as [_ E]. rewrite E. cbn [bind].
    now apply reduce_merge_full.
  - inversion Hrows as [|? ? Hx Hrows']; subst.
    destruct (infer_schema_row fs x Hinf Hx) as (s & Es & Hs). rewrite Es. cbn [bind].
    destruct (merge_below (TStruct fs) Hinf acc s Hacc Hs) as (c & Ec & Hc). rewrite Ec. cbn [bind].
    now apply IH.
Qed.

(* a row that by itself determines every type makes inference succeed with the tree, wherever it stands *)
Theorem infer_with_full_row fs rows1 r rows2 :
  inferable (TStruct fs) -> has_nulltype (TStruct fs) = false ->
  Forall (is_row_of (TStruct fs)) (rows1 ++ r :: rows2) ->
  infer_schema r = Ok (TStruct fs) ->
  infer_schema_from_list (rows1 ++ r :: rows2) = Ok (TStruct fs).
Proof.
  intros Hinf Hnn Hrows Hr.
  destruct rows1 as [|x rows1]; cbn [app] in *.
  - inversion Hrows as [|? ? Hr0 Hrows']; subst.
    destruct (row_shape fs r Hr0) as (vals & ->). unfold infer_schema_from_list. rewrite Hr. cbn [bind].
    rewrite (reduce_merge_full fs Hinf rows2 Hrows'). cbn [bind]. now rewrite Hnn.
  - inversion Hrows as [|? ? Hx Hrows']; subst.
    destruct (row_shape fs x Hx) as (vals & ->). unfold infer_schema_from_list.
    destruct (infer_schema_row fs _ Hinf Hx) as (s & Es & Hs). rewrite Es. cbn [bind].
    rewrite (reduce_merge_reaches fs Hinf rows1 r rows2 s Hs Hrows' Hr). cbn [bind]. now rewrite Hnn.
Qed.

(* ================================================================ Rows are matched to the schema BY NAME *)
Lemma verify_named_ext ns vs ns' vs' : forall fs,
  (forall f, In f fs -> row_get ns vs (sf_name f) = row_get ns' vs' (sf_name f)) ->
  verify_named ns vs fs = verify_named ns' vs' fs.
Proof.
  induction fs as [|[n ty nl m] fs IH]; intro H; [reflexivity|]. simpl.
  pose proof (H (SField n ty nl m) (or_introl eq_refl)) as H0. simpl in H0. rewrite H0.
  destruct (row_get ns' vs' n) as [x|e]; simpl; [|reflexivity].
  destruct (verify ty nl x) as [[]|e]; simpl; [|reflexivity]. apply IH. intros f Hf. apply H. now right.
Qed.

Lemma mapM_nth {A B} (f : A -> res B) : forall l r i x, mapM f l = Ok r -> nth_error l i = Some x ->
  exists y, nth_error r i = Some y /\ f x = Ok y.
Proof.
  induction l as [|a l IH]; intros r i x H Hi; [destruct i; discriminate|]. simpl in H.
  destruct (f a) as [b|e] eqn:Ea; simpl in H; [|discriminate].
  destruct (mapM f l) as [bs|e] eqn:El; simpl in H; [|discriminate]. injection H as <-.
  destruct i as [|i]; simpl in *.
  - injection Hi as <-. eauto.
  - eapply IH; eauto.
Qed.

Section ByName.
  Variable local : Z.

  (* a Row that lists the fields of the schema in another order (duplicate-free) and holds, under every field
     name, the value of a valid row: verification passes (values are looked up by name) and createDataFrame /
     collect gives the values back under the right names *)
  Theorem create_with_schema_by_name fs vals names' vals' :
    inferable (TStruct fs) -> is_row_of (TStruct fs) (PRow (map sf_name fs) vals) ->
    strs_eqb names' (map sf_name fs) = false -> nodupb names' = true ->
    forallb (fun n => str_mem n names') (map sf_name fs) = true ->
    mapM (row_get names' vals') (map sf_name fs) = Ok vals ->
    verify (TStruct fs) true (PRow names' vals') = Ok tt /\
    create_with_schema local (TStruct fs) [PRow names' vals']
      = Ok [tz_local local (PRow (map sf_name fs) vals)].
  Proof.
    intros Hinf Hrow Hne Hnd Hperm Hvals.
    assert (Hv : verify (TStruct fs) true (PRow names' vals') = Ok tt).
    { rewrite verify_struct_row.
      rewrite <- (verify_named_ext (map sf_name fs) vals names' vals').
      - rewrite <- verify_struct_row with (n := true). destruct Hrow as [_ Hr]. apply verify_ivalue; auto.
      - intros f Hf. destruct (In_nth_error _ _ Hf) as (i & Hi).
        assert (Hn : nth_error (map sf_name fs) i = Some (sf_name f)) by (now rewrite nth_error_map, Hi).
        destruct (mapM_nth _ _ _ i _ Hvals Hn) as (y & Hy & Ey). rewrite Ey.
        destruct Hinf as (Hnodup & _). now apply (row_get_nodup _ _ i). }
    split; [exact Hv|].
    assert (Ht : to_internal local (TStruct fs) (PRow names' vals')
                 = Ok (tz_local local (PRow (map sf_name fs) vals))).
    { destruct Hrow as [_ Hr]. rewrite <- (to_internal_ivalue local (TStruct fs) _ Hr).
      rewrite !to_internal_struct_row_gen. rewrite match_fields_same.
      unfold match_fields_by_name. rewrite Hne, Hnd, Hperm. cbn [negb andb]. rewrite Hvals. reflexivity. }
    unfold create_with_schema. cbn [each]. rewrite Hv. cbn [bind mapM]. rewrite Ht. cbn [bind tz_local make_row schema_names].
    reflexivity.
  Qed.
End ByName.

(* regression: the replay of the repaired finding create_s:row-field-order:positional-conversion *)
Example by_name_regression :
  create_with_schema 0
    (TStruct [SField (lit "b") (TAtom AString) true []; SField (lit "a") (TAtom ALong) true []])
    [PRow [lit "a"; lit "b"] [PInt 1; PStr (lit "x")]]
  = Ok [PRow [lit "b"; lit "a"] [PStr (lit "x"); PInt 1]] /\
  create_with_schema 0
    (TStruct [SField (lit "b") (TAtom ATimestamp) true []; SField (lit "a") (TAtom ALong) true []])
    [PRow [lit "a"; lit "b"] [PInt 1; PDatetime 5 None]]
  = Ok [PRow [lit "b"; lit "a"] [PDatetime 5 None; PInt 1]].
Proof. vm_compute. split; reflexivity. Qed.

Lemma verify_row_by_name ns vs ns' vs' fs n :
  (forall f, In f fs -> row_get ns vs (sf_name f) = row_get ns' vs' (sf_name f)) ->
  verify (TStruct fs) n (PRow ns vs) = verify (TStruct fs) n (PRow ns' vs').
Proof. intro H. rewrite !verify_struct_row. now apply verify_named_ext. Qed.
