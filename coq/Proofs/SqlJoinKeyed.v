(* Lemmas about the list-level model of the RDD join family (PV.Model.SqlJoin, section KeyedRDD):
   each of join / leftOuterJoin / rightOuterJoin / fullOuterJoin / _leftSemiJoin / _leftAntiJoin is,
   as a multiset, the nested loop over the two pair lists. *)
From Coq Require Import List Bool Permutation Morphisms.
Require Import PV.Gen.Joins PV.Model.SqlJoin.
Import ListNotations.

(* ---------- list helpers *)
Lemma flat_map_map {A B C} (f : A -> B) (g : B -> list C) l :
  flat_map g (map f l) = flat_map (fun x => g (f x)) l.
Proof. induction l as [|a l IH]; simpl; [reflexivity | now rewrite IH]. Qed.

Lemma map_flat_map {A B C} (f : B -> C) (g : A -> list B) l :
  map f (flat_map g l) = flat_map (fun x => map f (g x)) l.
Proof. induction l as [|a l IH]; simpl; [reflexivity | now rewrite map_app, IH]. Qed.

Lemma flat_map_ext_in {A B} (f g : A -> list B) l :
  (forall a, In a l -> f a = g a) -> flat_map f l = flat_map g l.
Proof.
  induction l as [|a l IH]; simpl; intros H; [reflexivity|].
  rewrite H by now left. rewrite IH; [reflexivity|]. intros; apply H; now right.
Qed.

Lemma filter_as_flat_map {A} (p : A -> bool) l :
  filter p l = flat_map (fun x => if p x then [x] else []) l.
Proof. induction l as [|a l IH]; simpl; [reflexivity|]. destruct (p a); simpl; now rewrite IH. Qed.

Lemma Permutation_filter' {A} (p : A -> bool) l l' :
  Permutation l l' -> Permutation (filter p l) (filter p l').
Proof. intros H. rewrite !filter_as_flat_map. now apply Permutation_flat_map. Qed.

Lemma filter_map_comm {A B} (f : A -> B) (p : B -> bool) l :
  filter p (map f l) = map f (filter (fun x => p (f x)) l).
Proof. induction l as [|a l IH]; simpl; [reflexivity|]. destruct (p (f a)); simpl; now rewrite IH. Qed.

Lemma flat_map_filter {A B} (p : A -> bool) (g : A -> list B) l :
  flat_map g (filter p l) = flat_map (fun x => if p x then g x else []) l.
Proof. induction l as [|a l IH]; simpl; [reflexivity|]. destruct (p a); simpl; now rewrite IH. Qed.

Lemma flat_map_singleton_if {A B} (p : A -> bool) (g : A -> B) l :
  flat_map (fun x => if p x then [g x] else []) l = map g (filter p l).
Proof. induction l as [|a l IH]; simpl; [reflexivity|]. destruct (p a); simpl; now rewrite IH. Qed.

Lemma NoDup_snoc {A} (l : list A) x : NoDup l -> ~ In x l -> NoDup (l ++ [x]).
Proof.
  intros ND Hn. apply (Permutation_NoDup (l := x :: l)); [apply Permutation_cons_append|].
  now constructor.
Qed.

Lemma flat_map_some_nonempty {A B} (g : option A -> list B) (vs : list A) :
  vs <> [] -> flat_map g (match vs with [] => [None] | y :: l => map Some (y :: l) end) = flat_map (fun v => g (Some v)) vs.
Proof. destruct vs as [|v vs]; [congruence|]. intros _. now rewrite flat_map_map. Qed.

Section Keyed.
  Context {K : Type} (keqb : K -> K -> bool).
  Hypothesis keqb_spec : forall a b, keqb a b = true <-> a = b.

  Lemma keqb_refl k : keqb k k = true.
  Proof. now apply keqb_spec. Qed.
  Lemma keqb_false a b : keqb a b = false <-> a <> b.
  Proof.
    split.
    - intros H E. apply keqb_spec in E. congruence.
    - intros H. destruct (keqb a b) eqn:E; [|reflexivity]. apply keqb_spec in E. contradiction.
  Qed.
  Lemma keqb_sym a b : keqb a b = keqb b a.
  Proof.
    destruct (keqb a b) eqn:E.
    - apply keqb_spec in E. subst. now rewrite keqb_refl.
    - symmetry. apply keqb_false. apply keqb_false in E. congruence.
  Qed.

  (* the values stored under key k, in order *)
  Definition vals_of {A} (k : K) (xs : list (K * A)) : list A :=
    map snd (filter (fun kv => keqb (fst kv) k) xs).
  (* items of a grouped list *)
  Definition flatten {A} (g : list (K * list A)) : list (K * A) :=
    flat_map (fun kv => map (pair (fst kv)) (snd kv)) g.

  Lemma vals_of_app {A} k (xs ys : list (K * A)) : vals_of k (xs ++ ys) = vals_of k xs ++ vals_of k ys.
  Proof. unfold vals_of. now rewrite filter_app, map_app. Qed.

  (* ---------- dictionaries *)
  Lemma dict_get_in {A} k (d : list (K * A)) a : dict_get keqb k d = Some a -> In (k, a) d.
  Proof.
    induction d as [|[k' a'] d IH]; simpl; [discriminate|].
    destruct (keqb k' k) eqn:E.
    - intros [= <-]. apply keqb_spec in E. subst. now left.
    - intros H. right. now apply IH.
  Qed.

  Lemma dict_get_none {A} k (d : list (K * A)) : dict_get keqb k d = None <-> ~ In k (map fst d).
  Proof.
    induction d as [|[k' a'] d IH]; simpl.
    - split; [intros _ []| reflexivity].
    - destruct (keqb k' k) eqn:E.
      + apply keqb_spec in E. subst. split; [discriminate| intros H; exfalso; apply H; now left].
      + apply keqb_false in E. rewrite IH. split.
        * intros H [H1|H1]; [contradiction|now apply H].
        * intros H H1. apply H. now right.
  Qed.

  Lemma dict_get_nodup {A} (d : list (K * A)) k a :
    NoDup (map fst d) -> In (k, a) d -> dict_get keqb k d = Some a.
  Proof.
    induction d as [|[k' a'] d IH]; simpl; [intros _ []|].
    intros ND [H|H].
    - injection H as -> ->. now rewrite keqb_refl.
    - inversion ND as [|? ? Hn ND']; subst.
      destruct (keqb k' k) eqn:E.
      + apply keqb_spec in E. subst. exfalso. apply Hn. apply in_map_iff. now exists (k, a).
      + now apply IH.
  Qed.

  Lemma dict_has_in {A} k (d : list (K * A)) : dict_has keqb k d = true <-> In k (map fst d).
  Proof.
    unfold dict_has. destruct (dict_get keqb k d) eqn:E.
    - split; [intros _|reflexivity]. apply dict_get_in in E. apply in_map_iff. now exists (k, a).
    - split; [discriminate|]. intros H. apply dict_get_none in E. contradiction.
  Qed.

  Lemma dict_set_fresh {A} k (a : A) d : dict_get keqb k d = None -> dict_set keqb k a d = d ++ [(k, a)].
  Proof.
    induction d as [|[k' a'] d IH]; simpl; [reflexivity|].
    destruct (keqb k' k); [discriminate|]. intros H. now rewrite IH.
  Qed.

  Lemma dict_of_list_nodup_gen {A} (l acc : list (K * A)) :
    NoDup (map fst (acc ++ l)) ->
    fold_left (fun d kv => dict_set keqb (fst kv) (snd kv) d) l acc = acc ++ l.
  Proof.
    revert acc. induction l as [|[k a] l IH]; intros acc ND; simpl.
    - now rewrite app_nil_r.
    - rewrite dict_set_fresh.
      + rewrite IH; rewrite <- app_assoc; [reflexivity | exact ND].
      + apply dict_get_none. rewrite map_app in ND. simpl in ND.
        apply NoDup_remove_2 in ND. intros H. apply ND. apply in_or_app. now left.
  Qed.

  (* collectAsMap / defaultdict(list, pairs) of a list with distinct keys is that list *)
  Lemma dict_of_list_nodup {A} (l : list (K * A)) : NoDup (map fst l) -> dict_of_list keqb l = l.
  Proof. intros ND. unfold dict_of_list. now rewrite dict_of_list_nodup_gen. Qed.

  (* ---------- groupByKey *)
  Lemma group_add_get {A} k k' (v : A) g :
    dict_get keqb k (group_add keqb k' v g) =
      if keqb k' k then Some (match dict_get keqb k g with Some us => us | None => [] end ++ [v])
      else dict_get keqb k g.
  Proof.
    induction g as [|[k0 vs] g IH]; simpl.
    - destruct (keqb k' k); reflexivity.
    - destruct (keqb k0 k') eqn:E0; simpl.
      + apply keqb_spec in E0. subst k0. destruct (keqb k' k); reflexivity.
      + destruct (keqb k0 k) eqn:E1.
        * destruct (keqb k' k) eqn:E2; [|reflexivity].
          apply keqb_spec in E1. apply keqb_spec in E2. subst. rewrite keqb_refl in E0. discriminate.
        * exact IH.
  Qed.

  Lemma group_add_keys {A} k (v : A) g :
    map fst (group_add keqb k v g) = if dict_has keqb k g then map fst g else map fst g ++ [k].
  Proof.
    unfold dict_has. induction g as [|[k0 vs] g IH]; simpl; [reflexivity|].
    destruct (keqb k0 k) eqn:E; simpl; [reflexivity|].
    rewrite IH. destruct (dict_get keqb k g); reflexivity.
  Qed.

  Lemma group_add_flatten {A} k (v : A) g :
    Permutation (flatten (group_add keqb k v g)) (flatten g ++ [(k, v)]).
  Proof.
    unfold flatten. induction g as [|[k0 vs] g IH]; simpl; [reflexivity|].
    destruct (keqb k0 k) eqn:E; simpl.
    - apply keqb_spec in E. subst k0. rewrite map_app. simpl.
      rewrite <- !app_assoc. apply Permutation_app_head. apply Permutation_app_comm.
    - rewrite <- app_assoc. now apply Permutation_app_head.
  Qed.

  Definition gstep {A} := fun (g : list (K * list A)) (kv : K * A) => group_add keqb (fst kv) (snd kv) g.

  Lemma group_fold_get {A} k (xs : list (K * A)) acc :
    dict_get keqb k (fold_left gstep xs acc) =
      match dict_get keqb k acc, vals_of k xs with
      | None, [] => None
      | None, vs => Some vs
      | Some us, vs => Some (us ++ vs)
      end.
  Proof.
    revert acc. induction xs as [|[k' v] xs IH]; intros acc; simpl.
    - destruct (dict_get keqb k acc); [now rewrite app_nil_r | reflexivity].
    - rewrite IH. unfold gstep at 1. simpl. rewrite group_add_get. unfold vals_of. simpl.
      destruct (keqb k' k); simpl.
      + fold (vals_of k xs). destruct (dict_get keqb k acc); simpl.
        * now rewrite <- app_assoc.
        * reflexivity.
      + reflexivity.
  Qed.

  Lemma group_fold_nodup {A} (xs : list (K * A)) acc :
    NoDup (map fst acc) -> NoDup (map fst (fold_left gstep xs acc)).
  Proof.
    revert acc. induction xs as [|[k v] xs IH]; intros acc ND; simpl; [exact ND|].
    apply IH. unfold gstep. simpl. rewrite group_add_keys.
    destruct (dict_has keqb k acc) eqn:E; [exact ND|].
    apply NoDup_snoc; [exact ND|].
    intros H. apply dict_has_in in H. congruence.
  Qed.

  Lemma group_fold_flatten {A} (xs : list (K * A)) acc :
    Permutation (flatten (fold_left gstep xs acc)) (flatten acc ++ xs).
  Proof.
    revert acc. induction xs as [|[k v] xs IH]; intros acc; simpl.
    - now rewrite app_nil_r.
    - rewrite IH. unfold gstep. simpl. rewrite group_add_flatten. now rewrite <- app_assoc.
  Qed.

  Lemma group_get {A} k (xs : list (K * A)) :
    dict_get keqb k (group_by_key keqb xs) = match vals_of k xs with [] => None | vs => Some vs end.
  Proof. unfold group_by_key. change (fun g kv => group_add keqb (fst kv) (snd kv) g) with (@gstep A).
         rewrite group_fold_get. simpl. reflexivity. Qed.

  Lemma group_nodup {A} (xs : list (K * A)) : NoDup (map fst (group_by_key keqb xs)).
  Proof. apply (group_fold_nodup xs []). constructor. Qed.

  Lemma group_flatten {A} (xs : list (K * A)) : Permutation (flatten (group_by_key keqb xs)) xs.
  Proof. apply (group_fold_flatten xs []). Qed.

  Lemma group_map {A} (xs : list (K * A)) : dict_of_list keqb (group_by_key keqb xs) = group_by_key keqb xs.
  Proof. apply dict_of_list_nodup, group_nodup. Qed.

  Lemma group_entry {A} (xs : list (K * A)) k vs :
    In (k, vs) (group_by_key keqb xs) -> vs = vals_of k xs /\ vs <> [].
  Proof.
    intros H. apply dict_get_nodup in H; [|apply group_nodup].
    rewrite group_get in H. destruct (vals_of k xs) eqn:E; [discriminate|].
    injection H as <-. split; [reflexivity|discriminate].
  Qed.

  Lemma group_has {A} k (xs : list (K * A)) :
    dict_has keqb k (group_by_key keqb xs) = match vals_of k xs with [] => false | _ => true end.
  Proof. unfold dict_has. rewrite group_get. now destruct (vals_of k xs). Qed.

  (* the central step: a per-group loop is, up to order, a loop over the items *)
  Lemma grouped_flat_map {A B} (f : K -> A -> list B) (xs : list (K * A)) :
    Permutation (flat_map (fun kv => flat_map (f (fst kv)) (snd kv)) (group_by_key keqb xs))
                (flat_map (fun kv => f (fst kv) (snd kv)) xs).
  Proof.
    transitivity (flat_map (fun kv => f (fst kv) (snd kv)) (flatten (group_by_key keqb xs)));
      [|apply Permutation_flat_map, group_flatten].
    unfold flatten. generalize (group_by_key keqb xs). intros g.
    induction g as [|[k vs] g IH]; simpl; [reflexivity|].
    rewrite flat_map_app. apply Permutation_app; [|exact IH].
    rewrite flat_map_map. simpl. reflexivity.
  Qed.

  (* ---------- the nested-loop forms of the six joins on pair lists *)
  Section Specs.
    Context {V W : Type}.
    Implicit Types (xs : list (K * V)) (ys : list (K * W)).

    Definition some_or_none {A} (l : list A) : list (option A) :=
      match l with [] => [None] | y :: l' => map Some (y :: l') end.

    Definition nl_inner xs ys : list (joined V W) :=
      flat_map (fun kv => map (fun w => (fst kv, (Some (snd kv), Some w))) (vals_of (fst kv) ys)) xs.
    Definition nl_left xs ys : list (joined V W) :=
      flat_map (fun kv => map (fun w => (fst kv, (Some (snd kv), w))) (some_or_none (vals_of (fst kv) ys))) xs.
    Definition nl_right xs ys : list (joined V W) :=
      flat_map (fun kw => map (fun v => (fst kw, (v, Some (snd kw)))) (some_or_none (vals_of (fst kw) xs))) ys.
    Definition nl_right_only xs ys : list (joined V W) :=
      flat_map (fun kw => match vals_of (fst kw) xs with [] => [(fst kw, (None, Some (snd kw)))] | _ => [] end) ys.
    Definition nl_full xs ys : list (joined V W) := nl_left xs ys ++ nl_right_only xs ys.
    Definition nl_semi xs ys : list (joined V W) :=
      flat_map (fun kv => match vals_of (fst kv) ys with [] => [] | _ => [(fst kv, (Some (snd kv), None))] end) xs.
    Definition nl_anti xs ys : list (joined V W) :=
      flat_map (fun kv => match vals_of (fst kv) ys with [] => [(fst kv, (Some (snd kv), None))] | _ => [] end) xs.

    Lemma lookup_vals {A} k (zs : list (K * A)) :
      match dict_get keqb k (group_by_key keqb zs) with Some ws => ws | None => [] end = vals_of k zs.
    Proof. rewrite group_get. now destruct (vals_of k zs). Qed.

    Lemma lookup_some_or_none {A} k (zs : list (K * A)) :
      match dict_get keqb k (group_by_key keqb zs) with Some ws => map Some ws | None => [None] end
      = some_or_none (vals_of k zs).
    Proof. rewrite group_get. now destruct (vals_of k zs). Qed.

    Lemma inner_join_perm xs ys : Permutation (rdd_inner_join keqb xs ys) (nl_inner xs ys).
    Proof.
      unfold rdd_inner_join, nl_inner. rewrite group_map.
      rewrite (grouped_flat_map (fun k v => map (fun w => (k, (Some v, Some w)))
                 (match dict_get keqb k (group_by_key keqb ys) with Some ws => ws | None => [] end)) xs).
      erewrite flat_map_ext; [reflexivity|]. intros [k v]. simpl. now rewrite lookup_vals.
    Qed.

    Lemma left_outer_join_perm xs ys : Permutation (rdd_left_outer_join keqb xs ys) (nl_left xs ys).
    Proof.
      unfold rdd_left_outer_join, nl_left. rewrite group_map.
      rewrite (grouped_flat_map (fun k v => map (fun w => (k, (Some v, w)))
                 (match dict_get keqb k (group_by_key keqb ys) with Some ws => map Some ws | None => [None] end)) xs).
      erewrite flat_map_ext; [reflexivity|]. intros [k v]. simpl. now rewrite lookup_some_or_none.
    Qed.

    Lemma right_outer_join_perm xs ys : Permutation (rdd_right_outer_join keqb xs ys) (nl_right xs ys).
    Proof.
      unfold rdd_right_outer_join, nl_right. rewrite group_map.
      rewrite (grouped_flat_map (fun k w => map (fun v => (k, (v, Some w)))
                 (match dict_get keqb k (group_by_key keqb xs) with Some vs => map Some vs | None => [None] end)) ys).
      erewrite flat_map_ext; [reflexivity|]. intros [k w]. simpl. now rewrite lookup_some_or_none.
    Qed.

    Lemma semi_join_perm xs ys : Permutation (rdd_left_semi_join keqb xs ys) (nl_semi xs ys).
    Proof.
      unfold rdd_left_semi_join, nl_semi. rewrite group_map.
      rewrite (grouped_flat_map (fun k v => if dict_has keqb k (group_by_key keqb ys)
                                            then [(k, (Some v, None))] else []) xs).
      erewrite flat_map_ext; [reflexivity|]. intros [k v]. simpl. rewrite group_has.
      now destruct (vals_of k ys).
    Qed.

    Lemma anti_join_perm xs ys : Permutation (rdd_left_anti_join keqb xs ys) (nl_anti xs ys).
    Proof.
      unfold rdd_left_anti_join, nl_anti. rewrite group_map.
      rewrite (grouped_flat_map (fun k v => if dict_has keqb k (group_by_key keqb ys)
                                            then [] else [(k, (Some v, None))]) xs).
      erewrite flat_map_ext; [reflexivity|]. intros [k v]. simpl. rewrite group_has.
      now destruct (vals_of k ys).
    Qed.

    (* cogroup: the entries of a grouped list re-read through its own keys *)
    Lemma reread_keys {A B} (g : list (K * list A)) (h : K -> list A -> B) :
      NoDup (map fst g) ->
      map (fun k => h k (match dict_get keqb k g with Some vs => vs | None => [] end)) (map fst g)
      = map (fun kv => h (fst kv) (snd kv)) g.
    Proof.
      intros ND. rewrite map_map. apply map_ext_in. intros [k vs] Hin. simpl.
      now rewrite (dict_get_nodup g k vs ND Hin).
    Qed.

    Lemma full_outer_join_perm xs ys : Permutation (rdd_full_outer_join keqb xs ys) (nl_full xs ys).
    Proof.
      unfold rdd_full_outer_join, rdd_cogroup, nl_full. rewrite !group_map.
      set (gx := group_by_key keqb xs). set (gy := group_by_key keqb ys).
      rewrite map_app, flat_map_app. apply Permutation_app.
      - (* keys of self: the left outer join *)
        match goal with |- Permutation (flat_map ?F (map ?G (map fst gx))) _ =>
          assert (E1 : map G (map fst gx) = map (fun kv => (fst kv, (snd kv, vals_of (fst kv) ys))) gx) end.
        { rewrite map_map. apply map_ext_in. intros [k vs] Hin. cbn [fst snd].
          rewrite (dict_get_nodup gx k vs (group_nodup xs) Hin). unfold gy. now rewrite lookup_vals. }
        rewrite E1, flat_map_map. cbn [fst snd].
        transitivity (flat_map (fun kv => flat_map
                        (fun v => map (fun w => (fst kv, (Some v, w))) (some_or_none (vals_of (fst kv) ys)))
                        (snd kv)) gx).
        + apply Permutation_refl'. apply flat_map_ext_in. intros [k vs] Hin. cbn [fst snd].
          destruct (group_entry xs k vs Hin) as [_ Hne].
          now rewrite (flat_map_some_nonempty _ vs Hne).
        + unfold gx.
          apply (grouped_flat_map (fun k v => map (fun w => (k, (Some v, w))) (some_or_none (vals_of k ys))) xs).
      - (* the new keys of other *)
        rewrite flat_map_map, flat_map_filter.
        match goal with |- Permutation (flat_map ?F (map fst gy)) _ =>
          assert (E2 : flat_map F (map fst gy) =
                       flat_map (fun kw => flat_map
                         (fun w => match vals_of (fst kw) xs with [] => [(fst kw, (None, Some w))] | _ => [] end)
                         (snd kw)) gy) end.
        { rewrite flat_map_map. apply flat_map_ext_in. intros [k ws] Hin. cbn [fst snd].
          destruct (group_entry ys k ws Hin) as [_ Hne].
          rewrite (dict_get_nodup gy k ws (group_nodup ys) Hin).
          unfold gx. rewrite group_has, lookup_vals. cbn [fst snd].
          destruct (vals_of k xs) as [|v vs]; simpl.
          - destruct ws as [|w ws]; [congruence|]. rewrite app_nil_r.
            simpl. f_equal. clear.
            induction ws as [|a l IH]; simpl; [reflexivity | now rewrite IH].
          - clear. induction ws as [|a l IH]; simpl; [reflexivity | exact IH]. }
        rewrite E2. unfold gy.
        apply (grouped_flat_map (fun k w => match vals_of k xs with [] => [(k, (None, Some w))] | _ => [] end) ys).
    Qed.

    Definition nl_by (m : rdd_join) : list (K * V) -> list (K * W) -> list (joined V W) :=
      match m with
      | M_join => nl_inner
      | M_leftOuterJoin => nl_left
      | M_rightOuterJoin => nl_right
      | M_fullOuterJoin => nl_full
      | M__leftSemiJoin => nl_semi
      | M__leftAntiJoin => nl_anti
      end.

    Theorem rdd_join_by_perm m xs ys : Permutation (rdd_join_by keqb m xs ys) (nl_by m xs ys).
    Proof.
      destruct m; simpl.
      - apply inner_join_perm.
      - apply left_outer_join_perm.
      - apply right_outer_join_perm.
      - apply full_outer_join_perm.
      - apply semi_join_perm.
      - apply anti_join_perm.
    Qed.
  End Specs.
End Keyed.
