(* C05 -- the timed manager: _time_added stays sorted and covers every entry (under add, the repaired
   join, gc, delete, along every history whose clock does not go backwards); hence gc() leaves no entry
   older than the timeout. *)
From Coq Require Import ZArith List Bool Lia.
Require Import PV.Model.Cache PV.Model.CacheSpec PV.Proofs.CacheStream.
Import ListNotations.
Open Scope Z_scope.

Section Timed.
Variable A : Type.
Implicit Types (m : mgr A) (rn : list (node A)) (es : list (key * (list A * Z))) (ta : list (key * Z)).

Definition covers es ta : Prop := forall k d t, In (k, (d, t)) es -> In (k, t) ta.

Lemma sorted_app_last : forall ta l now,
  sorted_times ta -> (forall kt, In kt ta -> snd kt <= now) -> (forall kt, In kt l -> snd kt = now) ->
  sorted_times (ta ++ l).
Proof.
  induction ta as [|[k t] ta IH]; simpl; intros l now Hs Hb Hl.
  - induction l as [|[k t] l IHl]; simpl; auto. split.
    + intros kt Hin. rewrite (Hl kt (or_intror Hin)). specialize (Hl (k, t) (or_introl eq_refl)). simpl in Hl. lia.
    + apply IHl. intros kt Hin; apply Hl; right; auto.
  - destruct Hs as [H1 H2]. split.
    + intros kt Hin. apply in_app_or in Hin. destruct Hin as [Hin|Hin]; auto.
      rewrite (Hl kt Hin). specialize (Hb (k, t) (or_introl eq_refl)). simpl in Hb. lia.
    + eapply IH; eauto.
Qed.

(* the gc loop *)
Lemma gc_go_inv : forall thr ta es,
  sorted_times ta -> covers es ta ->
  sorted_times (fst (gc_go thr ta es)) /\ covers (snd (gc_go thr ta es)) (fst (gc_go thr ta es)) /\
  (forall kt, In kt (fst (gc_go thr ta es)) -> snd kt > thr) /\ (forall kt, In kt (fst (gc_go thr ta es)) -> In kt ta).
Proof.
  induction ta as [|[k t] ta IH]; intros es Hs Hc; simpl.
  - split; [exact I | split; [exact Hc | split; intros kt Hin; contradiction]].
  - destruct (t >? thr) eqn:E; simpl.
    + split; [exact Hs | split; [exact Hc | split; [|auto]]].
      intros kt [<-|Hin]; simpl; [lia|].
      destruct Hs as [H1 _]. specialize (H1 kt Hin). lia.
    + destruct Hs as [H1 H2].
      assert (Hc' : covers (dict_del k es) ta).
      { intros k' d' t' Hin. apply dict_del_In in Hin. destruct Hin as [Hin Hne]. simpl in Hne.
        apply Hc in Hin. destruct Hin as [Hin|Hin]; auto. inversion Hin; congruence. }
      destruct (IH (dict_del k es) H2 Hc') as [I1 [I2 [I3 I4]]].
      split; [exact I1 | split; [exact I2 | split; [exact I3 | intros kt Hin; right; auto]]].
Qed.

(* gc_complete at the level of one manager *)
Theorem gc_complete_mgr : forall now0 now m to,
  m_timeout m = Some to -> timed_inv now0 m ->
  forall k d t, In (k, (d, t)) (m_entries (m_gc now m)) -> t > now - to.
Proof.
  intros now0 now m to Hto [Hs [Hb Hc]] k d t Hin. unfold m_gc in Hin. rewrite Hto in Hin.
  pose proof (gc_go_inv (now - to) (m_times m) (m_entries m) Hs Hc) as [I1 [I2 [I3 I4]]].
  destruct (gc_go (now - to) (m_times m) (m_entries m)) as [ta es]; simpl in *.
  apply I2 in Hin. apply I3 in Hin. exact Hin.
Qed.

Lemma timed_inv_gc : forall now0 now m, timed_inv now0 m -> timed_inv now0 (m_gc now m).
Proof.
  intros now0 now m [Hs [Hb Hc]]. unfold m_gc. destruct (m_timeout m) as [to|]; [|repeat split; auto].
  pose proof (gc_go_inv (now - to) (m_times m) (m_entries m) Hs Hc) as [I1 [I2 [I3 I4]]].
  destruct (gc_go (now - to) (m_times m) (m_entries m)) as [ta es]; simpl in *.
  repeat split; simpl; auto.
Qed.

Lemma timed_inv_add : forall now k d m, timed_inv now m -> m_timeout m <> None -> timed_inv now (m_add now k d m).
Proof.
  intros now k d m [Hs [Hb Hc]] Hto. unfold m_add. destruct (m_timeout m) as [to|]; [|congruence].
  apply timed_inv_gc. repeat split; simpl.
  - eapply sorted_app_last; eauto. intros kt [<-|[]]; reflexivity.
  - intros kt Hin. apply in_app_or in Hin. destruct Hin as [Hin|[<-|[]]]; simpl; auto; lia.
  - intros k' d' t' Hin. apply dict_set_In in Hin. apply in_or_app. destruct Hin as [E|Hin].
    + inversion E; subst. right; left; reflexivity.
    + left; eauto.
Qed.

Lemma timed_inv_join : forall now new m, timed_inv now m -> m_timeout m <> None -> timed_inv now (m_join now new m).
Proof.
  intros now new m [Hs [Hb Hc]] Hto. unfold m_join. destruct (m_timeout m) as [to|]; [|congruence].
  apply timed_inv_gc. repeat split; simpl.
  - eapply sorted_app_last; eauto. intros kt Hin. apply in_map_iff in Hin. destruct Hin as [kv [<- _]]; reflexivity.
  - intros kt Hin. apply in_app_or in Hin. destruct Hin as [Hin|Hin]; auto.
    apply in_map_iff in Hin. destruct Hin as [kv [<- _]]; simpl; lia.
  - intros k' d' t' Hin. apply join_fold_In in Hin. apply in_or_app. destruct Hin as [Hin|[kv [Hin E]]].
    + left; eauto.
    + inversion E; subst. right. apply in_map_iff. exists kv; auto.
Qed.

Lemma timed_inv_delete : forall now k m, timed_inv now m -> timed_inv now (m_delete k m).
Proof.
  intros now k m [Hs [Hb Hc]]. repeat split; simpl; auto.
  intros k' d' t' Hin. apply dict_del_In in Hin. destruct Hin; eauto.
Qed.

Lemma timed_inv_later : forall now now' m, now <= now' -> timed_inv now m -> timed_inv now' m.
Proof.
  intros now now' m Hle [Hs [Hb Hc]]. repeat split; auto. intros kt Hin. specialize (Hb kt Hin). lia.
Qed.

(* managers of either class *)
Definition mgr_inv (now : Z) m : Prop :=
  match m_timeout m with None => True | Some _ => timed_inv now m end.

Lemma mgr_inv_add : forall now k d m, mgr_inv now m -> mgr_inv now (m_add now k d m).
Proof.
  intros now k d m H. unfold mgr_inv in *. rewrite m_add_timeout.
  destruct (m_timeout m) eqn:E; auto. apply timed_inv_add; auto. congruence.
Qed.
Lemma mgr_inv_join : forall now new m, mgr_inv now m -> mgr_inv now (m_join now new m).
Proof.
  intros now new m H. unfold mgr_inv in *. rewrite m_join_timeout.
  destruct (m_timeout m) eqn:E; auto. apply timed_inv_join; auto. congruence.
Qed.
Lemma mgr_inv_gc : forall now m, mgr_inv now m -> mgr_inv now (m_gc now m).
Proof.
  intros now m H. unfold mgr_inv in *. rewrite m_gc_timeout.
  destruct (m_timeout m) eqn:E; auto. apply timed_inv_gc; auto.
Qed.
Lemma mgr_inv_delete : forall now k m, mgr_inv now m -> mgr_inv now (m_delete k m).
Proof.
  intros now k m H. unfold mgr_inv in *. simpl. destruct (m_timeout m); auto. apply timed_inv_delete; auto.
Qed.

Lemma compute_inv : forall now rn i src m, mgr_inv now m -> mgr_inv now (snd (fst (compute now rn i src m))).
Proof.
  induction rn as [|[rid st] up IH]; intros i src m H; simpl; auto.
  specialize (IH i src m H).
  destruct st as [f|p|g|].
  - destruct (compute now up i src m) as [[s m1] ev]; simpl in *; auto.
  - destruct (compute now up i src m) as [[s m1] ev]; simpl in *; auto.
  - destruct (compute now up i src m) as [[s m1] ev]; simpl in *; auto.
  - destruct (m_get (rid, i) m); simpl; auto.
    destruct (compute now up i src m) as [[s m1] ev]; simpl in *. apply mgr_inv_add; auto.
Qed.

Lemma run_all_inv : forall now rn parts i m, mgr_inv now m -> mgr_inv now (snd (run_all now rn parts i m)).
Proof.
  induction parts as [|src ps IH]; intros i m H; simpl; auto.
  pose proof (compute_inv now rn i src m H) as C.
  destruct (compute now rn i src m) as [[s m1] ev0]; simpl in *.
  specialize (IH (i + 1) m1 C). destruct (run_all now rn ps (i + 1) m1) as [[rest ev2] m2]; simpl in *; auto.
Qed.

Lemma run_take_inv : forall now rn parts i n m, mgr_inv now m -> mgr_inv now (snd (run_take now rn parts i n m)).
Proof.
  induction parts as [|src ps IH]; intros i n m H.
  - destruct n; simpl; auto.
  - destruct n as [|n']; [simpl; auto|].
    change (run_take now rn (src :: ps) i (Datatypes.S n') m) with
      (let '(s, m1, ev0) := compute now rn i src m in
       let '(xs, ev1, r) := ltake (Datatypes.S n') (cells s) (trail s) in
       let '(ys, ev2, m2) := run_take now rn ps (i + 1) r m1 in
       (xs ++ ys, ev0 ++ ev1 ++ ev2, m2)).
    pose proof (compute_inv now rn i src m H) as C.
    destruct (compute now rn i src m) as [[s m1] ev0].
    remember (ltake (Datatypes.S n') (cells s) (trail s)) as lt eqn:Elt. clear Elt.
    destruct lt as [[xs ev1] r]. cbn [fst snd] in *.
    specialize (IH (i + 1) r m1 C). destruct (run_take now rn ps (i + 1) r m1) as [[ys ev2] m2]; auto.
Qed.

Lemma run_pool_inv : forall now rn parts m, mgr_inv now m -> mgr_inv now (snd (run_pool now rn parts m)).
Proof.
  intros now rn parts m H. unfold run_pool; simpl.
  generalize (pool_tasks now rn parts 0 m). intros ts. revert m H.
  induction ts as [|t ts IH]; intros m H; simpl; auto. apply IH. apply mgr_inv_join; auto.
Qed.

Lemma run_action_inv : forall pool now rn parts a m,
  mgr_inv now m -> mgr_inv now (snd (run_action_on pool now rn parts a m)).
Proof.
  intros pool now rn parts a m H.
  assert (Hall : forall ak,
     mgr_inv now (snd (let '(ps, ev, m') := if pool then run_pool now rn parts m else run_all now rn parts 0 m in
               (finish ak ps, ev, m')))).
  { intros ak. destruct pool.
    - pose proof (run_pool_inv now rn parts m H) as R.
      destruct (run_pool now rn parts m) as [[ps ev] m']; simpl in *; auto.
    - pose proof (run_all_inv now rn parts 0 m H) as R.
      destruct (run_all now rn parts 0 m) as [[ps ev] m']; simpl in *; auto. }
  destruct a as [| |n|]; unfold run_action_on; cbv iota.
  - apply Hall.
  - apply Hall.
  - pose proof (run_take_inv now rn parts 0 n m H) as R.
    destruct (run_take now rn parts 0 n m) as [[xs ev] m']; simpl in *; auto.
  - pose proof (run_take_inv now rn parts 0 1%nat m H) as R.
    destruct (run_take now rn parts 0 1%nat m) as [[xs ev] m']; simpl in *; auto.
Qed.

Lemma delete_parts_inv : forall now rid n i m, mgr_inv now m -> mgr_inv now (delete_parts rid n i m).
Proof.
  induction n as [|n IH]; intros i m H; simpl; auto. apply IH, mgr_inv_delete, H.
Qed.

(* ---------------------------------------------------------------- along histories *)
Definition st_inv (st : state A) : Prop := Forall (mgr_inv (s_now st)) (s_mgrs st).

Fixpoint clock_monotone (h : list action) : Prop :=
  match h with
  | [] => True
  | Advance dt :: h' => 0 <= dt /\ clock_monotone h'
  | _ :: h' => clock_monotone h'
  end.

Lemma set_nth_Forall' : forall {X} (Q : X -> Prop) n x l, Forall Q l -> Q x -> Forall Q (set_nth n x l).
Proof.
  induction n; destruct l; simpl; intros Hl Hx; auto; inversion Hl; subst; constructor; auto.
Qed.
Lemma Forall_nth : forall {X} (Q : X -> Prop) l n x, Forall Q l -> nth_error l n = Some x -> Q x.
Proof. intros X Q l n x H E. rewrite Forall_forall in H. apply H. eapply nth_error_In; eauto. Qed.

Lemma step_inv : forall w st a,
  st_inv st -> match a with Advance dt => 0 <= dt | _ => True end -> st_inv (snd (step w st a)).
Proof.
  intros w st a H Ha. unfold st_inv in *. destruct a as [k j ak|k j|dt|mi]; simpl.
  - destruct (nth_error (w_pipes w) k) as [P|]; auto.
    destruct (nth_error (w_ctxs w) (p_ctx P)) as [cx|]; auto.
    destruct (nth_error (s_mgrs st) (c_mgr cx)) as [m|] eqn:Em; auto.
    destruct (length (p_nodes P) <? j)%nat; auto.
    pose proof (run_action_inv (c_pool cx) (s_now st) (rev_prefix j (p_nodes P)) (p_parts P) ak m
                  (Forall_nth _ _ _ _ H Em)) as R.
    destruct (run_action_on (c_pool cx) (s_now st) (rev_prefix j (p_nodes P)) (p_parts P) ak m) as [[r ev] m'].
    simpl in *. apply set_nth_Forall'; auto.
  - destruct (nth_error (w_pipes w) k) as [P|]; auto.
    destruct (nth_error (w_ctxs w) (p_ctx P)) as [cx|]; auto.
    destruct (nth_error (s_mgrs st) (c_mgr cx)) as [m|] eqn:Em; auto.
    destruct j as [|j']; auto.
    destruct (nth_error (p_nodes P) j') as [[rid [f|p|g|]]|]; simpl; auto.
    apply set_nth_Forall'; auto. apply delete_parts_inv. eapply Forall_nth; eauto.
  - eapply Forall_impl; [|exact H]. intros m Hm. unfold mgr_inv in *.
    destruct (m_timeout m); auto. eapply timed_inv_later; [|exact Hm]. lia.
  - destruct (nth_error (s_mgrs st) mi) as [m|] eqn:Em; simpl; auto.
    apply set_nth_Forall'; auto. apply mgr_inv_gc. eapply Forall_nth; eauto.
Qed.

Lemma history_inv : forall w h st, st_inv st -> clock_monotone h -> st_inv (final_state w st h).
Proof.
  intros w h. unfold final_state. induction h as [|a h IH]; intros st H Hm; simpl; auto.
  apply IH.
  - apply step_inv; auto. destruct a; simpl in Hm; tauto.
  - destruct a; simpl in Hm; tauto.
Qed.

Lemma init_inv : forall tos, st_inv (init_state A tos).
Proof.
  intros tos. unfold st_inv, init_state; simpl. apply Forall_forall. intros m Hm.
  apply in_map_iff in Hm. destruct Hm as [t [<- _]]. unfold mgr_inv, empty_mgr; simpl.
  destruct t; auto. repeat split; simpl; auto; intros; contradiction.
Qed.

(* gc_complete along histories: whatever happened before (adds, joins from pool workers, unpersists,
   earlier gcs), a gc() at the current time leaves nothing that was added at or before now - timeout *)
Theorem gc_complete : forall w tos h mi m to,
  clock_monotone h ->
  let st := final_state w (init_state A tos) h in
  nth_error (s_mgrs st) mi = Some m -> m_timeout m = Some to ->
  forall k d t, In (k, (d, t)) (m_entries (m_gc (s_now st) m)) -> t > s_now st - to.
Proof.
  intros w tos h mi m to Hm st Em Hto k d t Hin.
  pose proof (history_inv w h (init_state A tos) (init_inv tos) Hm) as Hi.
  fold st in Hi. pose proof (Forall_nth _ _ _ _ Hi Em) as Hmi. unfold mgr_inv in Hmi. rewrite Hto in Hmi.
  eapply gc_complete_mgr; eauto.
Qed.

(* add and join run gc themselves: in every reachable state NO entry of a timed manager that was
   stamped by the last add/join... is weaker than the above; what always holds is the invariant: *)
Theorem timed_invariant_reachable : forall w tos h mi m to,
  clock_monotone h ->
  let st := final_state w (init_state A tos) h in
  nth_error (s_mgrs st) mi = Some m -> m_timeout m = Some to -> timed_inv (s_now st) m.
Proof.
  intros w tos h mi m to Hm st Em Hto.
  pose proof (history_inv w h (init_state A tos) (init_inv tos) Hm) as Hi.
  fold st in Hi. pose proof (Forall_nth _ _ _ _ Hi Em) as Hmi. unfold mgr_inv in Hmi. rewrite Hto in Hmi. exact Hmi.
Qed.

End Timed.
