(* C05 -- the timed manager (code after a58d69d): _time_added stays sorted, bounded by the clock, with a
   stamp for every entry and an entry for every stamp, cache_obj keeps one entry per key -- under add,
   the repaired join, gc, the repaired delete, along every history whose clock does not go backwards.
   Hence gc() leaves no entry older than the timeout and removes nothing younger. *)
From Coq Require Import ZArith List Bool Lia.
Require Import PV.Model.Cache PV.Model.CacheSpec PV.Proofs.CacheStream PV.Proofs.CacheRecompute.
Import ListNotations.
Open Scope Z_scope.

Section Timed.
Variable A : Type.
Implicit Types (m : mgr A) (rn : list (node A)) (es : list (key * (list A * Z))) (ta : list (key * Z)).

(* ---------------------------------------------------------------- dictionaries keep one entry per key *)
Lemma NoDup_map_filter : forall {X Y} (f : X -> Y) (p : X -> bool) (l : list X),
  NoDup (map f l) -> NoDup (map f (filter p l)).
Proof.
  induction l as [|a l IH]; simpl; intros H; auto. inversion H; subst.
  destruct (p a); simpl; auto. constructor; auto.
  intros Hin. apply H2. apply in_map_iff in Hin. destruct Hin as [x [E Hx]]. apply filter_In in Hx.
  apply in_map_iff. exists x; tauto.
Qed.
Lemma dict_del_nodup : forall {V} k (d : list (key * V)), NoDup (map fst d) -> NoDup (map fst (dict_del k d)).
Proof. intros; unfold dict_del. apply NoDup_map_filter; auto. Qed.
Lemma dict_set_nodup : forall {V} k (v : V) d, NoDup (map fst d) -> NoDup (map fst (dict_set k v d)).
Proof.
  induction d as [|[k' v'] d IH]; simpl; intros H.
  - constructor; [intros [] | constructor].
  - inversion H; subst. destruct (key_eqb k k') eqn:E; simpl.
    + constructor; auto.
    + constructor; auto. rewrite dict_set_keys. intros [->|Hin]; auto.
      rewrite key_eqb_refl in E; discriminate.
Qed.
Lemma nodup_keys_unique : forall {V} (d : list (key * V)) k v1 v2,
  NoDup (map fst d) -> In (k, v1) d -> In (k, v2) d -> v1 = v2.
Proof.
  induction d as [|[k' v'] d IH]; simpl; intros k v1 v2 Hn H1 H2; [contradiction|].
  inversion Hn; subst. destruct H1 as [E1|H1], H2 as [E2|H2].
  - congruence.
  - inversion E1; subst. exfalso. apply H3. apply (in_map fst) in H2; auto.
  - inversion E2; subst. exfalso. apply H3. apply (in_map fst) in H1; auto.
  - eapply IH; eauto.
Qed.

Definition upd now (acc : list (key * (list A * Z))) (kv : key * (list A * Z)) := dict_set (fst kv) (fst (snd kv), now) acc.

Lemma fold_set_other : forall now (new es : list (key * (list A * Z))) x,
  In x es -> ~ In (fst x) (map fst new) -> In x (fold_left (upd now) new es).
Proof.
  induction new as [|kv new IH]; simpl; intros es x H Hn; auto.
  apply IH; [|intros Hin; apply Hn; auto]. apply dict_set_other; auto.
Qed.
Lemma fold_set_has : forall now (new es : list (key * (list A * Z))) kv,
  NoDup (map fst new) -> In kv new -> In (fst kv, (fst (snd kv), now)) (fold_left (upd now) new es).
Proof.
  induction new as [|kv0 new IH]; simpl; intros es kv Hn Hin; [contradiction|].
  inversion Hn; subst. destruct Hin as [->|Hin].
  - apply fold_set_other; simpl; auto. apply dict_set_has.
  - apply IH; auto.
Qed.
Lemma fold_set_nodup : forall now (new es : list (key * (list A * Z))),
  NoDup (map fst es) -> NoDup (map fst (fold_left (upd now) new es)).
Proof.
  induction new as [|kv new IH]; simpl; intros es H; auto. apply IH. apply dict_set_nodup; auto.
Qed.

(* ---------------------------------------------------------------- the invariant on raw components *)
Definition tinv (now : Z) es ta : Prop :=
  sorted_times ta /\
  (forall kt, In kt ta -> snd kt <= now) /\
  (forall k d t, In (k, (d, t)) es -> In (k, t) ta) /\
  (forall k t, In (k, t) ta -> exists d, In (k, (d, t)) es) /\
  NoDup (map fst es).

Lemma sorted_drop : forall k ta, sorted_times ta -> sorted_times (drop_stamps k ta).
Proof.
  intros k. unfold drop_stamps. induction ta as [|[k' t'] ta IH]; simpl; intros H; auto.
  destruct H as [H1 H2]. destruct (negb (key_eqb k k')); simpl; auto. split; auto.
  intros kt Hin. apply filter_In in Hin. apply H1; tauto.
Qed.

Lemma sorted_app_last : forall ta l now,
  sorted_times ta -> (forall kt, In kt ta -> snd kt <= now) -> (forall kt, In kt l -> snd kt = now) ->
  sorted_times (ta ++ l).
Proof.
  induction ta as [|[k t] ta IH]; simpl; intros l now Hs Hb Hl.
  - induction l as [|[k t] l IHl]; simpl; auto. split.
    + intros kt Hin. rewrite (Hl kt (or_intror Hin)). specialize (Hl (k, t) (or_introl eq_refl)). simpl in Hl. lia.
    + apply IHl. intros kt Hin; apply Hl; right; auto.
  - destruct Hs as [H1 H2]. split.
    + intros kt Hin. apply in_app_or in Hin. destruct Hin as [Hin|Hin]; auto.
      rewrite (Hl kt Hin). specialize (Hb (k, t) (or_introl eq_refl)). simpl in Hb. lia.
    + eapply IH; eauto.
Qed.

Lemma tinv_delete : forall now k es ta, tinv now es ta -> tinv now (dict_del k es) (drop_stamps k ta).
Proof.
  intros now k es ta [T1 [T2 [T3 [T4 T5]]]]. split; [apply sorted_drop; auto|]. split; [|split; [|split]].
  - intros kt Hin. apply drop_stamps_In in Hin. apply T2; tauto.
  - intros k' d t Hin. apply dict_del_In in Hin. destruct Hin as [Hin Hne]. apply drop_stamps_In. split; eauto.
  - intros k' t Hin. apply drop_stamps_In in Hin. destruct Hin as [Hin Hne]. destruct (T4 _ _ Hin) as [d Hd].
    exists d. apply dict_del_In; auto.
  - apply dict_del_nodup; auto.
Qed.

(* the gc loop: the fuel is enough, the invariant is kept, every stamp left is above the threshold *)
Lemma gc_go_inv : forall fuel now thr ta es,
  (length ta <= fuel)%nat -> tinv now es ta ->
  tinv now (snd (gc_go fuel thr ta es)) (fst (gc_go fuel thr ta es)) /\
  (forall kt, In kt (fst (gc_go fuel thr ta es)) -> snd kt > thr).
Proof.
  induction fuel as [|fuel IH]; intros now thr ta es Hl Hi; simpl.
  - destruct ta; [|simpl in Hl; lia]. split; auto. intros kt [].
  - destruct ta as [|[k t] ta]; [split; auto; intros kt []|].
    destruct (t >? thr) eqn:E; simpl.
    + split; auto. destruct Hi as [[H1 _] _]. intros kt [<-|Hin]; simpl; [lia|]. specialize (H1 kt Hin). lia.
    + apply IH.
      * pose proof (drop_stamps_length k ta). simpl in Hl. lia.
      * destruct Hi as [T1 [T2 [T3 [T4 T5]]]]. destruct T1 as [S1 S2].
        split; [apply sorted_drop; auto|]. split; [|split; [|split]].
        -- intros kt Hin. apply drop_stamps_In in Hin. apply T2; right; tauto.
        -- intros k' d t' Hin. apply dict_del_In in Hin. destruct Hin as [Hin Hne]. simpl in Hne.
           apply drop_stamps_In. split; auto. apply T3 in Hin. destruct Hin as [Hin|Hin]; auto.
           inversion Hin; congruence.
        -- intros k' t' Hin. apply drop_stamps_In in Hin. destruct Hin as [Hin Hne]. simpl in Hne.
           destruct (T4 k' t' (or_intror Hin)) as [d Hd]. exists d. apply dict_del_In; auto.
        -- apply dict_del_nodup; auto.
Qed.

Lemma timed_inv_tinv : forall now m, timed_inv now m <-> tinv now (m_entries m) (m_times m).
Proof. intros; unfold timed_inv, tinv; tauto. Qed.

Theorem gc_complete_mgr : forall now0 now m to,
  m_timeout m = Some to -> timed_inv now0 m ->
  forall k d t, In (k, (d, t)) (m_entries (m_gc now m)) -> t > now - to.
Proof.
  intros now0 now m to Hto Hi k d t Hin. unfold m_gc in Hin. rewrite Hto in Hin.
  apply timed_inv_tinv in Hi.
  pose proof (gc_go_inv (length (m_times m)) now0 (now - to) (m_times m) (m_entries m) (le_n _) Hi) as [[_ [_ [T3 _]]] G].
  destruct (gc_go (length (m_times m)) (now - to) (m_times m) (m_entries m)) as [ta es]; simpl in *.
  apply T3 in Hin. apply G in Hin. exact Hin.
Qed.

Lemma timed_inv_gc : forall now0 now m, timed_inv now0 m -> timed_inv now0 (m_gc now m).
Proof.
  intros now0 now m Hi. unfold m_gc. destruct (m_timeout m) as [to|]; auto.
  apply timed_inv_tinv in Hi.
  pose proof (gc_go_inv (length (m_times m)) now0 (now - to) (m_times m) (m_entries m) (le_n _) Hi) as [G _].
  destruct (gc_go (length (m_times m)) (now - to) (m_times m) (m_entries m)) as [ta es]; simpl in *.
  apply timed_inv_tinv; simpl; auto.
Qed.

Lemma timed_inv_add : forall now k d m,
  timed_inv now m -> m_timeout m <> None -> ~ has_key k m -> timed_inv now (m_add now k d m).
Proof.
  intros now k d m [T1 [T2 [T3 [T4 T5]]]] Hto Hk. unfold m_add. destruct (m_timeout m) as [to|]; [|congruence].
  apply timed_inv_gc. split; [|split; [|split; [|split]]]; simpl.
  - eapply sorted_app_last; eauto. intros kt [<-|[]]; reflexivity.
  - intros kt Hin. apply in_app_or in Hin. destruct Hin as [Hin|[<-|[]]]; simpl; auto; lia.
  - intros k' d' t' Hin. apply dict_set_In in Hin. apply in_or_app. destruct Hin as [E|Hin].
    + inversion E; subst. right; left; reflexivity.
    + left; eauto.
  - intros k' t' Hin. apply in_app_or in Hin. destruct Hin as [Hin|[E|[]]].
    + destruct (T4 _ _ Hin) as [d' Hd]. exists d'. apply dict_set_other; auto. simpl. intros ->.
      apply Hk. unfold has_key. apply (in_map fst) in Hd; auto.
    + inversion E; subst. exists d. apply dict_set_has.
  - apply dict_set_nodup; auto.
Qed.

Lemma timed_inv_join : forall now new m,
  timed_inv now m -> m_timeout m <> None ->
  NoDup (map fst new) -> (forall kv, In kv new -> ~ has_key (fst kv) m) ->
  timed_inv now (m_join now new m).
Proof.
  intros now new m [T1 [T2 [T3 [T4 T5]]]] Hto Hn Hk. unfold m_join. destruct (m_timeout m) as [to|]; [|congruence].
  apply timed_inv_gc. split; [|split; [|split; [|split]]]; simpl.
  - eapply sorted_app_last; eauto. intros kt Hin. apply in_map_iff in Hin. destruct Hin as [kv [<- _]]; reflexivity.
  - intros kt Hin. apply in_app_or in Hin. destruct Hin as [Hin|Hin]; auto.
    apply in_map_iff in Hin. destruct Hin as [kv [<- _]]; simpl; lia.
  - intros k' d' t' Hin. apply join_fold_In in Hin. apply in_or_app. destruct Hin as [Hin|[kv [Hin E]]].
    + left; eauto.
    + inversion E; subst. right. apply in_map_iff. exists kv; auto.
  - intros k' t' Hin. apply in_app_or in Hin. destruct Hin as [Hin|Hin].
    + destruct (T4 _ _ Hin) as [d' Hd]. exists d'. apply (fold_set_other now new (m_entries m) (k', (d', t'))); auto.
      simpl. intros Hin'. apply in_map_iff in Hin'. destruct Hin' as [kv [E Hkv]].
      apply (Hk kv Hkv). rewrite E. unfold has_key. apply (in_map fst) in Hd; auto.
    + apply in_map_iff in Hin. destruct Hin as [kv [E Hkv]]. inversion E; subst.
      exists (fst (snd kv)). apply (fold_set_has _ new (m_entries m) kv); auto.
  - apply (fold_set_nodup now new (m_entries m)); auto.
Qed.

Lemma timed_inv_delete : forall now k m, timed_inv now m -> timed_inv now (m_delete k m).
Proof.
  intros now k m Hi. apply timed_inv_tinv. unfold m_delete; simpl. apply tinv_delete. apply timed_inv_tinv; auto.
Qed.

Lemma timed_inv_later : forall now now' m, now <= now' -> timed_inv now m -> timed_inv now' m.
Proof.
  intros now now' m Hle [T1 [T2 T3]]. split; auto. split; auto. intros kt Hin. specialize (T2 kt Hin). lia.
Qed.

(* with the invariant, "no stamp of k is expired" is "the entry of k is younger than the timeout" *)
Lemma fresh_entry_stable : forall now0 now m to k d t,
  m_timeout m = Some to -> timed_inv now0 m ->
  In (k, (d, t)) (m_entries m) -> t > now - to -> stable now k m.
Proof.
  intros now0 now m to k d t Hto [_ [_ [_ [T4 T5]]]] Hin Ht. unfold stable. rewrite Hto.
  intros t' Hs. destruct (T4 _ _ Hs) as [d' Hd].
  pose proof (nodup_keys_unique _ _ _ _ T5 Hin Hd) as E. inversion E; subst. exact Ht.
Qed.

(* gc removes nothing younger than the timeout *)
Theorem gc_only_expired_mgr : forall now0 now m to k d t,
  m_timeout m = Some to -> timed_inv now0 m ->
  In (k, (d, t)) (m_entries m) -> t > now - to -> has_key k (m_gc now m).
Proof.
  intros now0 now m to k d t Hto Hi Hin Ht.
  assert (Hk : kept A now k m).
  { split; [unfold has_key; apply (in_map fst) in Hin; auto | eapply fresh_entry_stable; eauto]. }
  apply (kept_gc A now k m Hk).
Qed.

(* ---------------------------------------------------------------- managers of either class *)
Definition mgr_inv (now : Z) m : Prop :=
  match m_timeout m with None => True | Some _ => timed_inv now m end.

Lemma mgr_inv_add : forall now k d m, mgr_inv now m -> ~ has_key k m -> mgr_inv now (m_add now k d m).
Proof.
  intros now k d m H Hk. unfold mgr_inv in *. rewrite m_add_timeout.
  destruct (m_timeout m) eqn:E; auto. apply timed_inv_add; auto. congruence.
Qed.
Lemma mgr_inv_join : forall now new m,
  mgr_inv now m -> NoDup (map fst new) -> (forall kv, In kv new -> ~ has_key (fst kv) m) ->
  mgr_inv now (m_join now new m).
Proof.
  intros now new m H Hn Hk. unfold mgr_inv in *. rewrite m_join_timeout.
  destruct (m_timeout m) eqn:E; auto. apply timed_inv_join; auto. congruence.
Qed.
Lemma mgr_inv_gc : forall now m, mgr_inv now m -> mgr_inv now (m_gc now m).
Proof.
  intros now m H. unfold mgr_inv in *. rewrite m_gc_timeout.
  destruct (m_timeout m) eqn:E; auto. apply timed_inv_gc; auto.
Qed.
Lemma mgr_inv_delete : forall now k m, mgr_inv now m -> mgr_inv now (m_delete k m).
Proof.
  intros now k m H. unfold mgr_inv in *. simpl. destruct (m_timeout m); auto. apply timed_inv_delete; auto.
Qed.

(* keys that a computation can add: the persist marks of the descent, for this partition *)
Lemma compute_keys_rid : forall now rn i src m k,
  has_key k (snd (fst (compute now rn i src m))) -> has_key k m \/ (snd k = i /\ In (fst k) (map fst rn)).
Proof.
  induction rn as [|[rid st] up IH]; intros i src m k H; simpl in *; auto.
  specialize (IH i src m k).
  destruct st as [f|p|g|fi|h|].
  4: { destruct (compute now up i src m) as [[s m1] ev]; simpl in *. destruct (IH H) as [|[? ?]]; auto. }
  4: { destruct (compute now up i src m) as [[s m1] ev]; simpl in *. destruct (IH H) as [|[? ?]]; auto. }
  - destruct (compute now up i src m) as [[s m1] ev]; simpl in *. destruct (IH H) as [|[? ?]]; auto.
  - destruct (compute now up i src m) as [[s m1] ev]; simpl in *. destruct (IH H) as [|[? ?]]; auto.
  - destruct (compute now up i src m) as [[s m1] ev]; simpl in *. destruct (IH H) as [|[? ?]]; auto.
  - destruct (m_get (rid, i) m) as [data|]; simpl in *; auto.
    destruct (compute now up i src m) as [[s m1] ev]; simpl in *.
    unfold has_key in H. apply in_map_iff in H. destruct H as [e [E Hin]].
    apply m_add_In in Hin. destruct Hin as [->|Hin].
    + simpl in E; subst k. right; simpl; auto.
    + destruct IH as [|[? ?]]; auto. unfold has_key. rewrite <- E. apply in_map; auto.
Qed.

Lemma compute_inv : forall now rn i src m,
  NoDup (map fst rn) -> mgr_inv now m -> mgr_inv now (snd (fst (compute now rn i src m))).
Proof.
  induction rn as [|[rid st] up IH]; intros i src m Hn H; simpl; auto.
  simpl in Hn. inversion Hn as [|x l Hx Hn']; subst.
  specialize (IH i src m Hn' H).
  pose proof (compute_keys_rid now up i src m (rid, i)) as K.
  destruct st as [f|p|g|fi|h|].
  4: { destruct (compute now up i src m) as [[s m1] ev]; simpl in *; auto. }
  4: { destruct (compute now up i src m) as [[s m1] ev]; simpl in *; auto. }
  - destruct (compute now up i src m) as [[s m1] ev]; simpl in *; auto.
  - destruct (compute now up i src m) as [[s m1] ev]; simpl in *; auto.
  - destruct (compute now up i src m) as [[s m1] ev]; simpl in *; auto.
  - destruct (m_get (rid, i) m) eqn:G; simpl; auto.
    destruct (compute now up i src m) as [[s m1] ev]; simpl in *. apply mgr_inv_add; auto.
    intros Hk. destruct (K Hk) as [Hk'|[_ Hin]]; [|simpl in Hin; contradiction].
    apply m_get_None in G. contradiction.
Qed.

Lemma run_all_inv : forall now rn parts i m,
  NoDup (map fst rn) -> mgr_inv now m -> mgr_inv now (snd (run_all now rn parts i m)).
Proof.
  induction parts as [|src ps IH]; intros i m Hn H; simpl; auto.
  pose proof (compute_inv now rn i src m Hn H) as C.
  destruct (compute now rn i src m) as [[s m1] ev0]; simpl in *.
  specialize (IH (i + 1) m1 Hn C). destruct (run_all now rn ps (i + 1) m1) as [[rest ev2] m2]; simpl in *; auto.
Qed.

Lemma run_take_inv : forall now rn parts i n m,
  NoDup (map fst rn) -> mgr_inv now m -> mgr_inv now (snd (run_take now rn parts i n m)).
Proof.
  induction parts as [|src ps IH]; intros i n m Hn H.
  - destruct n; simpl; auto.
  - destruct n as [|n']; [simpl; auto|].
    change (run_take now rn (src :: ps) i (Datatypes.S n') m) with
      (let '(s, m1, ev0) := compute now rn i src m in
       let '(xs, ev1, r) := ltake (Datatypes.S n') (cells s) (trail s) in
       let '(ys, ev2, m2) := run_take now rn ps (i + 1) r m1 in
       (xs ++ ys, ev0 ++ ev1 ++ ev2, m2)).
    pose proof (compute_inv now rn i src m Hn H) as C.
    destruct (compute now rn i src m) as [[s m1] ev0].
    remember (ltake (Datatypes.S n') (cells s) (trail s)) as lt eqn:Elt. clear Elt.
    destruct lt as [[xs ev1] r]. cbn [fst snd] in *.
    specialize (IH (i + 1) r m1 Hn C). destruct (run_take now rn ps (i + 1) r m1) as [[ys ev2] m2]; auto.
Qed.

(* ---- pool jobs: what the workers send back is new to the driver ---- *)
Lemma gc_go_nodup : forall fuel thr ta es,
  NoDup (map fst es) -> NoDup (map fst (snd (gc_go fuel thr ta es))).
Proof.
  induction fuel as [|fuel IH]; intros thr ta es H; simpl; auto.
  destruct ta as [|[k t] ta]; simpl; auto. destruct (t >? thr); simpl; auto.
  apply IH. apply dict_del_nodup; auto.
Qed.
Lemma m_gc_nodup : forall now m, NoDup (map fst (m_entries m)) -> NoDup (map fst (m_entries (m_gc now m))).
Proof.
  intros now m H. unfold m_gc. destruct (m_timeout m) as [to|]; auto.
  pose proof (gc_go_nodup (length (m_times m)) (now - to) (m_times m) (m_entries m) H) as G.
  destruct (gc_go (length (m_times m)) (now - to) (m_times m) (m_entries m)) as [ta es]; simpl in *; auto.
Qed.
Lemma m_add_nodup : forall now k d m, NoDup (map fst (m_entries m)) -> NoDup (map fst (m_entries (m_add now k d m))).
Proof.
  intros now k d m H. unfold m_add. destruct (m_timeout m) as [to|]; simpl.
  - apply m_gc_nodup; simpl. apply dict_set_nodup; auto.
  - apply dict_set_nodup; auto.
Qed.

Lemma compute_nodup : forall now rn i src m,
  NoDup (map fst (m_entries m)) -> NoDup (map fst (m_entries (snd (fst (compute now rn i src m))))).
Proof.
  induction rn as [|[rid st] up IH]; intros i src m H; simpl; auto.
  specialize (IH i src m H).
  destruct st as [f|p|g|fi|h|].
  4: { destruct (compute now up i src m) as [[s m1] ev]; simpl in *; auto. }
  4: { destruct (compute now up i src m) as [[s m1] ev]; simpl in *; auto. }
  - destruct (compute now up i src m) as [[s m1] ev]; simpl in *; auto.
  - destruct (compute now up i src m) as [[s m1] ev]; simpl in *; auto.
  - destruct (compute now up i src m) as [[s m1] ev]; simpl in *; auto.
  - destruct (m_get (rid, i) m); simpl; auto.
    destruct (compute now up i src m) as [[s m1] ev]; simpl in *. apply m_add_nodup; auto.
Qed.

Fixpoint tasks_new (m0 : mgr A) (i : Z) (ts : list (list A * list (event A) * list (key * (list A * Z)))) : Prop :=
  match ts with
  | [] => True
  | t :: ts' =>
      (NoDup (map fst (snd t)) /\
       forall kv, In kv (snd t) -> snd (fst kv) = i /\ ~ has_key (fst kv) m0) /\ tasks_new m0 (i + 1) ts'
  end.

Lemma pool_tasks_new : forall now rn parts i m0,
  NoDup (map fst (m_entries m0)) -> tasks_new m0 i (pool_tasks now rn parts i m0).
Proof.
  induction parts as [|src ps IH]; intros i m0 Hn; simpl; auto.
  assert (Hc : NoDup (map fst (m_entries (m_clone i m0)))).
  { unfold m_clone; simpl. apply NoDup_map_filter; auto. }
  pose proof (compute_nodup now rn i src (m_clone i m0) Hc) as C.
  pose proof (compute_new_keys A now rn i src (m_clone i m0)) as NK.
  destruct (compute now rn i src (m_clone i m0)) as [[s cl1] ev0]; simpl in *.
  split; [|apply IH; auto]. split.
  - unfold m_not_in. apply NoDup_map_filter; auto.
  - intros kv Hin. unfold m_not_in in Hin. apply filter_In in Hin. destruct Hin as [Hin Hf].
    apply negb_true_iff in Hf.
    assert (Hnb : ~ In (fst kv) (m_idents (m_clone i m0))).
    { intros Hb. unfold key_in in Hf.
      assert (existsb (key_eqb (fst kv)) (m_idents (m_clone i m0)) = true).
      { apply existsb_exists. exists (fst kv); split; auto. apply key_eqb_refl. }
      congruence. }
    assert (Hi : snd (fst kv) = i).
    { destruct (NK kv Hin) as [Hc'|Hi]; auto. exfalso. apply Hnb. unfold m_idents. apply in_map; auto. }
    split; auto. intros Hk. apply Hnb. unfold has_key in Hk. apply in_map_iff in Hk. destruct Hk as [e [E He]].
    unfold m_idents. apply in_map_iff. exists e; split; auto. apply m_clone_In; split; auto. rewrite E; auto.
Qed.

Lemma join_all_inv : forall now (ts : list (list A * list (event A) * list (key * (list A * Z)))) m0 i m,
  tasks_new m0 i ts -> mgr_inv now m ->
  (forall k, has_key k m -> has_key k m0 \/ snd k < i) ->
  mgr_inv now (fold_left (fun acc t => m_join now (snd t) acc) ts m).
Proof.
  induction ts as [|t ts IH]; intros m0 i m Ht Hi Hk; simpl; auto.
  destruct Ht as [[Hn Hnew] Hts]. apply (IH m0 (i + 1)); auto.
  - apply mgr_inv_join; auto. intros kv Hin Hkm. destruct (Hnew kv Hin) as [Hs Hn0].
    destruct (Hk _ Hkm) as [H0|Hlt]; [contradiction | lia].
  - intros k Hkm. unfold has_key in Hkm. apply in_map_iff in Hkm. destruct Hkm as [e [E He]].
    apply m_join_In in He. destruct He as [He|[kv [Hkv Ee]]].
    + destruct (Hk k) as [H0|Hlt]; [unfold has_key; rewrite <- E; apply in_map; auto | auto | right; lia].
    + subst e. simpl in E. subst k. destruct (Hnew kv Hkv) as [Hs _]. right; lia.
Qed.

Lemma run_pool_inv : forall now rn parts m, mgr_inv now m -> mgr_inv now (snd (run_pool now rn parts m)).
Proof.
  intros now rn parts m H. unfold run_pool; simpl.
  destruct (m_timeout m) eqn:E.
  - assert (Hn : NoDup (map fst (m_entries m))).
    { unfold mgr_inv in H. rewrite E in H. destruct H as [_ [_ [_ [_ T5]]]]; auto. }
    apply (join_all_inv now _ m 0); auto. apply pool_tasks_new; auto.
  - (* a CacheManager stays a CacheManager *)
    generalize (pool_tasks now rn parts 0 m). intros ts. revert m H E.
    induction ts as [|t ts IH]; intros m H E; simpl; auto. apply IH.
    + unfold mgr_inv. rewrite m_join_timeout, E. exact I.
    + rewrite m_join_timeout; auto.
Qed.

Lemma run_action_inv : forall pool now rn parts a m,
  NoDup (map fst rn) -> mgr_inv now m -> mgr_inv now (snd (run_action_on pool now rn parts a m)).
Proof.
  intros pool now rn parts a m Hn H.
  assert (Hall : forall ak,
     mgr_inv now (snd (let '(ps, ev, m') := if pool then run_pool now rn parts m else run_all now rn parts 0 m in
               (finish ak ps, ev, m')))).
  { intros ak. destruct pool.
    - pose proof (run_pool_inv now rn parts m H) as R.
      destruct (run_pool now rn parts m) as [[ps ev] m']; simpl in *; auto.
    - pose proof (run_all_inv now rn parts 0 m Hn H) as R.
      destruct (run_all now rn parts 0 m) as [[ps ev] m']; simpl in *; auto. }
  destruct a as [| |n|]; unfold run_action_on; cbv iota.
  - apply Hall.
  - apply Hall.
  - pose proof (run_take_inv now rn parts 0 n m Hn H) as R.
    destruct (run_take now rn parts 0 n m) as [[xs ev] m']; simpl in *; auto.
  - pose proof (run_take_inv now rn parts 0 1%nat m Hn H) as R.
    destruct (run_take now rn parts 0 1%nat m) as [[xs ev] m']; simpl in *; auto.
Qed.

Lemma delete_parts_inv : forall now rid n i m, mgr_inv now m -> mgr_inv now (delete_parts rid n i m).
Proof.
  induction n as [|n IH]; intros i m H; simpl; auto. apply IH, mgr_inv_delete, H.
Qed.

(* ---------------------------------------------------------------- along histories *)
Definition st_inv (st : state A) : Prop := Forall (mgr_inv (s_now st)) (s_mgrs st).

Fixpoint clock_monotone (h : list action) : Prop :=
  match h with
  | [] => True
  | Advance dt :: h' => 0 <= dt /\ clock_monotone h'
  | _ :: h' => clock_monotone h'
  end.

(* every pipeline of the world has pairwise distinct dataset ids (true of built worlds) *)
Definition pipes_nodup (w : world A) : Prop := Forall (fun P => NoDup (map fst (p_nodes P))) (w_pipes w).

Lemma set_nth_Forall' : forall {X} (Q : X -> Prop) n x l, Forall Q l -> Q x -> Forall Q (set_nth n x l).
Proof.
  induction n; destruct l; simpl; intros Hl Hx; auto; inversion Hl; subst; constructor; auto.
Qed.
Lemma Forall_nth : forall {X} (Q : X -> Prop) l n x, Forall Q l -> nth_error l n = Some x -> Q x.
Proof. intros X Q l n x H E. rewrite Forall_forall in H. apply H. eapply nth_error_In; eauto. Qed.

Lemma NoDup_app_left : forall {X} (l1 l2 : list X), NoDup (l1 ++ l2) -> NoDup l1.
Proof.
  induction l1 as [|a l1 IH]; simpl; intros l2 H; [constructor|].
  inversion H; subst. constructor; [intros Hin; apply H2, in_or_app; auto | eapply IH; eauto].
Qed.
Lemma rev_prefix_nodup : forall (ns : list (node A)) j, NoDup (map fst ns) -> NoDup (map fst (rev_prefix j ns)).
Proof.
  intros ns j H. unfold rev_prefix. rewrite map_rev. apply NoDup_rev.
  rewrite <- (firstn_skipn j ns), map_app in H. eapply NoDup_app_left; eauto.
Qed.

Lemma step_inv : forall w st a,
  pipes_nodup w -> st_inv st -> match a with Advance dt => 0 <= dt | _ => True end -> st_inv (snd (step w st a)).
Proof.
  intros w st a Hw H Ha. unfold st_inv in *. destruct a as [k j ak|k j|dt|mi]; simpl.
  - destruct (nth_error (w_pipes w) k) as [P|] eqn:EP; auto.
    destruct (nth_error (w_ctxs w) (p_ctx P)) as [cx|]; auto.
    destruct (nth_error (s_mgrs st) (c_mgr cx)) as [m|] eqn:Em; auto.
    destruct (length (p_nodes P) <? j)%nat; auto.
    assert (Hn : NoDup (map fst (rev_prefix j (p_nodes P)))).
    { apply rev_prefix_nodup. eapply (Forall_nth _ _ _ _ Hw); eauto. }
    pose proof (run_action_inv (c_pool cx) (s_now st) (rev_prefix j (p_nodes P)) (p_parts P) ak m Hn
                  (Forall_nth _ _ _ _ H Em)) as R.
    destruct (run_action_on (c_pool cx) (s_now st) (rev_prefix j (p_nodes P)) (p_parts P) ak m) as [[r ev] m'].
    simpl in *. apply set_nth_Forall'; auto.
  - destruct (nth_error (w_pipes w) k) as [P|]; auto.
    destruct (nth_error (w_ctxs w) (p_ctx P)) as [cx|]; auto.
    destruct (nth_error (s_mgrs st) (c_mgr cx)) as [m|] eqn:Em; auto.
    destruct j as [|j']; auto.
    destruct (nth_error (p_nodes P) j') as [[rid [f|p|g|fi0|h0|]]|]; simpl; auto.
    apply set_nth_Forall'; auto. apply delete_parts_inv. eapply Forall_nth; eauto.
  - eapply Forall_impl; [|exact H]. intros m Hm. unfold mgr_inv in *.
    destruct (m_timeout m); auto. eapply timed_inv_later; [|exact Hm]. lia.
  - destruct (nth_error (s_mgrs st) mi) as [m|] eqn:Em; simpl; auto.
    apply set_nth_Forall'; auto. apply mgr_inv_gc. eapply Forall_nth; eauto.
Qed.

Lemma history_inv : forall w h st, pipes_nodup w -> st_inv st -> clock_monotone h -> st_inv (final_state w st h).
Proof.
  intros w h. unfold final_state. induction h as [|a h IH]; intros st Hw H Hm; simpl; auto.
  apply IH; auto.
  - apply step_inv; auto. destruct a; simpl in Hm; tauto.
  - destruct a; simpl in Hm; tauto.
Qed.

Lemma init_inv : forall tos, st_inv (init_state A tos).
Proof.
  intros tos. unfold st_inv, init_state; simpl. apply Forall_forall. intros m Hm.
  apply in_map_iff in Hm. destruct Hm as [t [<- _]]. unfold mgr_inv, empty_mgr; simpl.
  destruct t; auto. split; [exact I|]. split; [intros kt []|]. split; [intros k d t []|].
  split; [intros k t []|constructor].
Qed.

End Timed.
