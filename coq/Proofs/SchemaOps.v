(* C15 -- every single-source operation (and union / crossJoin) returns rows that agree with the schema it declares. *)
From Coq Require Import String ZArith NArith List Bool Lia.
Require Import PV.Base.Val PV.Model.Schema PV.Proofs.Schema.
Import ListNotations.
Open Scope Z_scope.
Close Scope string_scope.


(* ---------- select ---------- *)
Lemma sel_col_agree : forall f r c pf kv,
  wf f -> row_ok (columns f) r ->
  sel_fields f c = Ok pf -> sel_row f r c = Ok kv -> map fst kv = map pname pf.
Proof.
  intros f r c pf kv [_ _] [Hr1 Hr2] Hs Hv.
  destruct c as [|e]; simpl in *.
  - inversion Hs; subst. inv_bind Hv as vs Hvs. inversion Hv; subst.
    apply mapM_length in Hvs. rewrite map_map. simpl.
    rewrite map_fst_combine; auto. rewrite map_length, Hvs, Hr1. unfold columns. now rewrite map_length.
  - inv_bind Hv as v Hev. inversion Hv; subst. simpl.
    destruct e; try (inversion Hs; subst; reflexivity).
    inv_bind Hs as p Hp. destruct (nth_error (fields f) p) eqn:E; [|discriminate].
    inversion Hs; subst. simpl. f_equal. symmetry. eapply find_pos_name; eauto.
Qed.

Lemma sel_cols_agree : forall f r cols pfs kvs,
  wf f -> row_ok (columns f) r ->
  mapM (sel_fields f) cols = Ok pfs -> mapM (sel_row f r) cols = Ok kvs ->
  map fst (concat kvs) = map pname (concat pfs).
Proof.
  intros f r cols. induction cols as [|c cols IH]; simpl; intros pfs kvs Hwf Hr Hs Hv.
  - inversion Hs; inversion Hv; reflexivity.
  - inv_bind Hs as pf Hpf. inv_bind Hs as pfs' Hpfs. inversion Hs; subst.
    inv_bind Hv as kv Hkv. inv_bind Hv as kvs' Hkvs. inversion Hv; subst.
    simpl. rewrite !map_app. f_equal; eauto using sel_col_agree.
Qed.

Lemma wf_select : forall f cols p, wf f -> select f cols = Ok p -> wf_pre p.
Proof.
  intros f cols p Hwf H. unfold select in H.
  inv_bind H as pfs Hpfs. inv_bind H as rs Hrs. inversion H; subst.
  apply struct_of_wf. rewrite Forall_forall. intros r' Hin.
  destruct (mapM_In _ _ _ _ Hrs Hin) as [r [Hr Hk]].
  inv_bind Hk as kvs Hkvs. inversion Hk; subst.
  apply row_of_pairs_ok. eapply sel_cols_agree; eauto.
  destruct Hwf as [_ Hrows]. rewrite Forall_forall in Hrows. auto.
Qed.

Lemma wf_with_column : forall f n e p, wf f -> with_column f n e = Ok p -> wf_pre p.
Proof. intros f n e p Hwf H. unfold with_column in H. destruct (mem_name n (snames f)); eapply wf_select; eauto. Qed.

(* ---------- drop ---------- *)
Lemma filter_idx_map {A B} (g : A -> B) ps : forall l i, filter_idx ps i (map g l) = map g (filter_idx ps i l).
Proof. induction l as [|x l IH]; simpl; intros i; auto. destruct (existsb _ ps); simpl; rewrite IH; auto. Qed.

Lemma drop_row_fst : forall ps flds vals i kv,
  drop_row_aux ps i flds vals = Ok kv -> map fst kv = filter_idx ps i flds.
Proof.
  induction flds as [|fl flds IH]; simpl; intros vals i kv H.
  - inversion H; reflexivity.
  - destruct (existsb (Nat.eqb i) ps); eauto.
    destruct (nth_error vals i); [|discriminate].
    inv_bind H as rest Hrest. inversion H; subst. simpl. f_equal. eauto.
Qed.

Lemma wf_drop : forall f cols p, wf f -> drop f cols = Ok p -> wf_pre p.
Proof.
  intros f cols p [_ Hrows] H. unfold drop in H.
  inv_bind H as ps Hps. inv_bind H as rs Hrs. inversion H; subst.
  apply struct_of_wf. rewrite Forall_forall. intros r' Hin.
  destruct (mapM_In _ _ _ _ Hrs Hin) as [r [Hr Hk]].
  inv_bind Hk as kv Hkv. inversion Hk; subst.
  apply row_of_pairs_ok. apply drop_row_fst in Hkv. rewrite Hkv.
  rewrite Forall_forall in Hrows. destruct (Hrows _ Hr) as [-> _].
  unfold columns. rewrite map_map. simpl. now rewrite filter_idx_map.
Qed.

(* ---------- rename / toDF ---------- *)
Lemma wf_rename : forall f old new p, wf f -> rename f old new = Ok p -> wf_pre p.
Proof.
  intros f old new p [_ Hrows] H. unfold rename in H.
  inv_bind H as rs Hrs. inversion H; subst.
  apply struct_of_wf. rewrite Forall_forall. intros r' Hin.
  destruct (mapM_In _ _ _ _ Hrs Hin) as [r [Hr Hk]].
  inv_bind Hk as kv Hkv. inversion Hk; subst.
  apply row_of_pairs_ok.
  apply (mapM_tag_fst (fun c => if name_eqb c old then new else c)) in Hkv. rewrite Hkv.
  rewrite Forall_forall in Hrows. destruct (Hrows _ Hr) as [-> _].
  unfold columns. rewrite !map_map. apply map_ext. intros fld. destruct (name_eqb (fname fld) old); reflexivity.
Qed.

Lemma wf_to_df : forall f names p, wf f -> to_df f names = Ok p -> wf_pre p.
Proof.
  intros f names p [_ Hrows] H. unfold to_df in H.
  inv_bind H as rs Hrs. inversion H; subst.
  apply struct_of_wf. rewrite Forall_forall. intros r' Hin.
  destruct (mapM_In _ _ _ _ Hrs Hin) as [r [Hr Hk]].
  inv_bind Hk as kv Hkv. inversion Hk; subst.
  apply row_of_pairs_ok.
  apply (mapM_tag_fst (fun no : name * name => fst no) (fun no => row_get r (snd no))) in Hkv. rewrite Hkv.
  rewrite Forall_forall in Hrows. destruct (Hrows _ Hr) as [Hf _].
  rewrite map_map. simpl. rewrite !map_fst_combine_firstn. rewrite Hf. unfold columns. now rewrite map_length.
Qed.

(* ---------- union / unionByName / crossJoin ---------- *)
Lemma wf_union : forall f g p, wf f -> wf g -> union f g = Ok p -> wf_pre p.
Proof.
  intros f g p Hf Hg H. unfold union in H.
  destruct (Nat.eqb (length (fields f)) (length (fields g))) eqn:E; simpl in H; [|discriminate].
  apply Nat.eqb_eq in E. inversion H; subst.
  apply same_schema_wf; auto. apply Forall_app. split; [exact (proj2 Hf)|].
  destruct Hg as [_ Hg]. rewrite Forall_forall in *. intros r' Hin.
  apply in_map_iff in Hin. destruct Hin as [r [<- Hr]].
  apply row_of_pairs_ok. apply map_fst_combine.
  destruct (Hg _ Hr) as [_ Hl]. rewrite Hl. unfold columns. rewrite !map_length. auto.
Qed.

Lemma wf_union_by_name : forall f g p, wf f -> union_by_name f g = Ok p -> wf_pre p.
Proof.
  intros f g p Hf H. unfold union_by_name in H.
  destruct (negb (nodup_names (map fname (fields f)))); [discriminate|].
  destruct (negb (nodup_names (map fname (fields g)))); [discriminate|].
  destruct (negb (Nat.eqb _ _)); [discriminate|].
  inv_bind H as rs Hrs. inversion H; subst.
  apply same_schema_wf; auto. apply Forall_app. split; [exact (proj2 Hf)|].
  rewrite Forall_forall. intros r' Hin.
  destruct (mapM_In _ _ _ _ Hrs Hin) as [r [Hr Hk]].
  inv_bind Hk as kv Hkv. inversion Hk; subst.
  apply row_of_pairs_ok.
  apply (mapM_tag_fst (fun n : name => n) (fun n => row_get r n)) in Hkv. rewrite Hkv. now rewrite map_id.
Qed.

Lemma wf_cross_join : forall f g p, wf f -> wf g -> cross_join f g = Ok p -> wf_pre p.
Proof.
  intros f g p [_ Hf] [_ Hg] H. unfold cross_join in H. inversion H; subst.
  apply struct_of_wf. rewrite Forall_forall in *. intros r' Hin.
  apply in_flat_map in Hin. destruct Hin as [l [Hl Hin]].
  apply in_map_iff in Hin. destruct Hin as [r [<- Hr]].
  destruct (Hf _ Hl) as [Hl1 Hl2]. destruct (Hg _ Hr) as [Hr1 Hr2].
  unfold row_ok, columns in *; simpl. rewrite map_app, !map_map. simpl.
  rewrite Hl1, Hr1. split; auto. rewrite !app_length. rewrite Hl2, Hr2. reflexivity.
Qed.

(* ---------- operations that keep the schema object and rearrange / select rows ---------- *)
Lemma In_firstn {A} : forall n (l : list A) x, In x (firstn n l) -> In x l.
Proof. induction n; destruct l; simpl; intros x H; auto; try contradiction. destruct H; eauto. Qed.

Lemma wf_limit : forall f n p, wf f -> limit f n = Ok p -> wf_pre p.
Proof.
  intros f n p Hf H. inversion H; subst. apply same_schema_wf; auto.
  destruct Hf as [_ Hf]. rewrite Forall_forall in *. intros r Hin. apply Hf. eapply In_firstn; eauto.
Qed.

Lemma distinct_rows_In : forall l seen r, In r (distinct_rows seen l) -> In r seen \/ In r l.
Proof.
  induction l as [|x l IH]; simpl; intros seen r H.
  - left. now apply in_rev.
  - match type of H with context [if ?b then _ else _] => destruct b end.
    + destruct (IH _ _ H); auto.
    + destruct (IH _ _ H) as [[<-|?]|?]; auto.
Qed.

Lemma wf_distinct : forall f p, wf f -> distinct f = Ok p -> wf_pre p.
Proof.
  intros f p Hf H. inversion H; subst. apply same_schema_wf; auto.
  destruct Hf as [_ Hf]. rewrite Forall_forall in *. intros r Hin.
  apply distinct_rows_In in Hin. destruct Hin as [[]|Hin]. auto.
Qed.

Lemma dedup_keyed_In : forall l seen r, In r (dedup_keyed seen l) -> In r (map snd l).
Proof.
  induction l as [|[k x] l IH]; simpl; intros seen r H; [contradiction|].
  match type of H with context [if ?b then _ else _] => destruct b end.
  - right. eauto.
  - destruct H as [<-|H]; auto. right. eauto.
Qed.

Lemma wf_drop_duplicates : forall f cols p, wf f -> drop_duplicates f cols = Ok p -> wf_pre p.
Proof.
  intros f cols p Hf H. unfold drop_duplicates in H. inv_bind H as kvs Hkvs. inversion H; subst.
  apply same_schema_wf; auto. destruct Hf as [_ Hf]. rewrite Forall_forall in *. intros r Hin.
  apply dedup_keyed_In in Hin. apply in_map_iff in Hin. destruct Hin as [[k r'] [E Hin]]. simpl in E. subst r'.
  destruct (mapM_In _ _ _ _ Hkvs Hin) as [r0 [Hr0 Hq]].
  inv_bind Hq as k' Hk'. inv_bind Hq as vs Hvs. inversion Hq; subst.
  split; simpl; auto. apply mapM_length in Hvs. rewrite Hvs. destruct (Hf _ Hr0) as [-> _]. reflexivity.
Qed.

(* for EVERY sampler decision function *)
Lemma wf_sample : forall mult f p, wf f -> sample_with mult f = Ok p -> wf_pre p.
Proof.
  intros mult f p Hf H. inversion H; subst. apply same_schema_wf; auto.
  destruct Hf as [_ Hf]. rewrite Forall_forall in *. intros r Hin.
  apply in_flat_map in Hin. destruct Hin as [x [Hx Hin]]. apply repeat_spec in Hin. subst. auto.
Qed.

Lemma wf_repartition : forall f cols p, wf f -> repartition f cols = Ok p -> wf_pre p.
Proof.
  intros f cols p Hf H. unfold repartition in H. inv_bind H as u Hu. inversion H; subst.
  apply same_schema_wf; auto. exact (proj2 Hf).
Qed.

Lemma insert_row_In : forall asc x l y, In y (insert_row asc x l) -> y = x \/ In y l.
Proof.
  induction l as [|z l IH]; simpl; intros y H.
  - destruct H as [<-|[]]; auto.
  - match type of H with context [if ?b then _ :: _ else _] => destruct b end.
    + destruct H as [<-|H]; auto. destruct (IH _ H); auto.
    + destruct H as [<-|H]; auto.
Qed.
Lemma sort_fold_In : forall asc keyed y, In y (fold_right (insert_row asc) [] keyed) -> In y keyed.
Proof.
  induction keyed as [|x keyed IH]; simpl; intros y H; auto.
  apply insert_row_In in H. destruct H; auto.
Qed.
Lemma sort_pass_In : forall f rs k rs' r, sort_pass f rs k = Ok rs' -> In r rs' -> In r rs.
Proof.
  intros f rs k rs' r H Hin. unfold sort_pass in H. inv_bind H as keyed Hk. inversion H; subst.
  apply in_map_iff in Hin. destruct Hin as [[key r0] [<- Hin]]. apply sort_fold_In in Hin.
  destruct (mapM_In _ _ _ _ Hk Hin) as [r1 [Hr1 Hq]]. inv_bind Hq as v Hv. inversion Hq; subst. auto.
Qed.
Lemma sort_passes_In : forall f ks rs rs' r, sort_passes f rs ks = Ok rs' -> In r rs' -> In r rs.
Proof.
  induction ks as [|k ks IH]; simpl; intros rs rs' r H Hin.
  - inversion H; subst; auto.
  - inv_bind H as rs1 H1. eapply sort_pass_In; eauto.
Qed.
Lemma wf_sort : forall f keys p, wf f -> sort f keys = Ok p -> wf_pre p.
Proof.
  intros f keys p Hf H. unfold sort in H. destruct keys as [|k keys]; [discriminate|].
  inv_bind H as rs Hrs. inversion H; subst. apply same_schema_wf; auto.
  destruct Hf as [_ Hf]. rewrite Forall_forall in *. intros r Hin. apply Hf. eapply sort_passes_In; eauto.
Qed.
