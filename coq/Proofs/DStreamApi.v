(* C10 -- lemmas: (1) the local RDD model: parallelize loses nothing, DStream.map/flatMap/reduce/count
   build expressions that are RDD.map / RDD.flatMap / [reduce] / [count]; (2) every API call
   registers nodes whose value, in any solution of the graph equations, is the call's RDD-level
   meaning applied to its argument streams, for every program; (3) monitored directories. *)
From Coq Require Import String ZArith NArith List Bool Lia.
Require Import PV.Base.Val PV.Base.PyArith PV.Gen.Parallelize PV.Model.DStreamRdd PV.Model.DStream.
Require Import PV.Proofs.DStream PV.Proofs.DStreamHist.
Import ListNotations.
Open Scope Z_scope.

(* ---------- Context.parallelize loses nothing: collect() gives the input back ---------- *)
Lemma firstn_add {A} (a b : nat) (l : list A) : firstn a l ++ firstn b (skipn a l) = firstn (a + b) l.
Proof.
  revert l; induction a as [|a IH]; intros l; simpl; auto.
  destruct l as [|x l]; simpl.
  - rewrite firstn_nil; reflexivity.
  - f_equal. apply IH.
Qed.

Fixpoint takes (fuel : nat) (i len n : Z) : nat :=
  match fuel with
  | O => O
  | S f => (Z.to_nat (par_take i len n) + takes f (i + 1) len n)%nat
  end.

Lemma concat_par_slices fuel i len n x :
  concat (par_slices fuel i len n x) = firstn (takes fuel i len n) x.
Proof.
  revert i x; induction fuel as [|f IH]; intros i x; simpl; auto.
  rewrite IH. apply firstn_add.
Qed.

Definition e_of (i len n : Z) : Z := int_truediv (i * len) n.

Lemma par_take_eq i len n :
  par_take i len n = e_of (i + 1) len n - e_of i len n + (if (i + 1) =? n then 1 else 0).
Proof. unfold par_take, e_of. destruct ((i + 1) =? n); lia. Qed.

Lemma takes_enough : forall fuel i len n,
  (fuel >= 1)%nat -> i + Z.of_nat fuel = n ->
  Z.of_nat (takes fuel i len n) >= e_of n len n - e_of i len n + 1.
Proof.
  induction fuel as [|f IH]; intros i len n Hf Hin; [lia|].
  cbn [takes]. rewrite Nat2Z.inj_add.
  assert (Hge : forall a, Z.of_nat (Z.to_nat a) >= a) by (intros; lia).
  pose proof (Hge (par_take i len n)) as H1. rewrite par_take_eq in H1 at 2.
  destruct f as [|f'].
  - assert (Hn : n = i + 1) by lia. clear Hin. subst n. rewrite Z.eqb_refl in H1. simpl takes. lia.
  - assert (Hne : (i + 1 =? n) = false) by (apply Z.eqb_neq; lia).
    rewrite Hne in H1.
    specialize (IH (i + 1) len n ltac:(lia) ltac:(lia)). lia.
Qed.

Lemma parallelize_flat x n : flat (parallelize x n) = x.
Proof.
  unfold parallelize, flat. destruct n as [n|]; [|simpl; apply app_nil_r].
  destruct (par_single n) eqn:E; [simpl; apply app_nil_r|].
  simpl parts. rewrite concat_par_slices.
  unfold par_single in E. apply Z.leb_gt in E.
  pose proof (takes_enough (Z.to_nat n) 0 (Z.of_nat (length x)) n ltac:(lia) ltac:(lia)) as H.
  unfold e_of, int_truediv in H. rewrite Z.mul_0_l, Z.quot_0_l in H by lia.
  rewrite (Z.mul_comm n), Z.quot_mul in H by lia.
  apply firstn_all2. lia.
Qed.

(* ---------- MapPartitionsRDD with element-wise functions ---------- *)
Lemma mapi_from_const {A B} (f : A -> B) i l : mapi_from (fun _ a => f a) i l = map f l.
Proof. revert i; induction l as [|a l IH]; intros i; simpl; auto. f_equal; apply IH. Qed.

Lemma mapi_from_length {A B} (f : Z -> A -> B) i l : length (mapi_from f i l) = length l.
Proof. revert i; induction l as [|a l IH]; intros i; simpl; auto. Qed.

Lemma nparts_map_partitions f r : nparts (map_partitions_rdd f r) = nparts r.
Proof. unfold nparts, map_partitions_rdd; simpl. rewrite mapi_from_length; reflexivity. Qed.

Lemma flat_rdd_map f r : flat (rdd_map f r) = map f (flat r).
Proof.
  unfold rdd_map, map_partitions_rdd, flat; simpl. rewrite mapi_from_const.
  symmetry; apply concat_map.
Qed.
Lemma flat_rdd_flatMap f r : flat (rdd_flatMap f r) = flat_map f (flat r).
Proof.
  unfold rdd_flatMap, map_partitions_rdd, flat; simpl. rewrite mapi_from_const.
  induction (parts r) as [|p ps IH]; simpl; auto. rewrite IH, flat_map_app. reflexivity.
Qed.
Lemma flat_rdd_filter p r : flat (rdd_filter p r) = filter p (flat r).
Proof.
  unfold rdd_filter, map_partitions_rdd, flat; simpl. rewrite mapi_from_const.
  induction (parts r) as [|q qs IH]; simpl; auto. rewrite IH, filter_app. reflexivity.
Qed.
Lemma flat_rdd_mapValues f r :
  flat (rdd_mapValues f r) = map (fun e => v_pair (v_fst e) (f (v_snd e))) (flat r).
Proof.
  unfold rdd_mapValues, map_partitions_rdd, flat; simpl. rewrite mapi_from_const.
  symmetry; apply concat_map.
Qed.

(* DStream.map / flatMap build their RDD through mapPartitionsWithIndex; it is RDD.map / RDD.flatMap *)
Lemma mapPartitionsWithIndex_is_map f r :
  rdd_setName (rdd_setName (rdd_mapPartitionsWithIndex (fun _ p => map f p) r)) = rdd_map f r.
Proof. reflexivity. Qed.
Lemma mapPartitionsWithIndex_is_flatMap f r :
  rdd_setName (rdd_mapPartitionsWithIndex (fun _ p => flat_map f p) r) = rdd_flatMap f r.
Proof. reflexivity. Qed.

(* ---------- DStream.reduce: map to (None, i), reduceByKey, drop the key ---------- *)
Lemma group_dict_none_acc xs acc :
  fold_left (fun d e => dict_append (v_fst e) (v_snd e) d) (map (fun i => v_pair VNone i) xs) [(VNone, acc)]
  = [(VNone, acc ++ xs)].
Proof.
  revert acc; induction xs as [|x xs IH]; intros acc; simpl.
  - rewrite app_nil_r; reflexivity.
  - rewrite IH, <- app_assoc. reflexivity.
Qed.

Lemma group_dict_none xs :
  group_dict (map (fun i => v_pair VNone i) xs) = match xs with [] => [] | _ => [(VNone, xs)] end.
Proof.
  unfold group_dict. destruct xs as [|x xs]; simpl; auto.
  apply (group_dict_none_acc xs [x]).
Qed.

Lemma flat_groupByKey np r :
  flat (rdd_groupByKey np r) = map (fun kv => v_pair (fst kv) (VList (snd kv))) (group_dict (flat r)).
Proof. unfold rdd_groupByKey. apply parallelize_flat. Qed.

Theorem reduce_expr_flat f r :
  flat (rdd_reduce_expr f r) = match flat r with [] => [] | a :: l => [fold_left f l a] end.
Proof.
  unfold rdd_reduce_expr, rdd_reduceByKey.
  rewrite flat_rdd_map, flat_rdd_mapValues, flat_groupByKey, flat_rdd_map, group_dict_none.
  destruct (flat r) as [|a l]; reflexivity.
Qed.

(* ---------- DStream.count ---------- *)
Lemma fold_add_lengths (ps : list (list val)) a :
  fold_left op_add (map (fun p => VInt (Z.of_nat (length p))) ps) (VInt a)
  = VInt (a + Z.of_nat (length (concat ps))).
Proof.
  revert a; induction ps as [|p ps IH]; intros a; simpl.
  - f_equal; lia.
  - rewrite IH, app_length. f_equal; lia.
Qed.

Lemma flat_count_partitions r :
  flat (rdd_mapPartitions (fun p => [VInt (Z.of_nat (length p))]) r)
  = map (fun p => VInt (Z.of_nat (length p))) (parts r).
Proof.
  unfold rdd_mapPartitions, map_partitions_rdd, flat; simpl. rewrite mapi_from_const.
  induction (parts r) as [|p ps IH]; simpl; auto. f_equal; exact IH.
Qed.

(* count(): one element, the number of elements of the interval's RDD -- unless that RDD has no
   partition at all (an EmptyRDD, i.e. no batch in this interval): then the result is empty *)
Theorem count_expr_flat r :
  flat (rdd_count_expr r) = match parts r with [] => [] | _ => [VInt (rdd_count r)] end.
Proof.
  unfold rdd_count_expr. rewrite reduce_expr_flat, flat_count_partitions.
  destruct (parts r) as [|p ps] eqn:E; simpl; auto.
  rewrite fold_add_lengths. unfold rdd_count, flat. rewrite E. simpl.
  rewrite app_length. f_equal. f_equal. lia.
Qed.



Lemma wf_snoc g nd : wf g -> (forall p, In p (parents nd) -> (p < length g)%nat) -> wf (g ++ [nd]).
Proof.
  intros Hwf Hp i nd' Hi p Hin.
  destruct (Nat.lt_ge_cases i (length g)) as [Hl|Hl].
  - rewrite nth_error_app1 in Hi by auto. eapply Hwf; eauto.
  - rewrite nth_error_app2 in Hi by auto.
    destruct (i - length g)%nat as [|k] eqn:E; simpl in Hi.
    + inversion Hi; subst nd'. specialize (Hp p Hin). lia.
    + destruct k; discriminate.
Qed.

Lemma solves_nth_app g1 l rest t srcv V j nd :
  solves ((g1 ++ l) ++ rest) t srcv V -> nth_error l j = Some nd ->
  nth (length g1 + j) V RNone = node_val nd t (srcv (length g1 + j)%nat) V.
Proof.
  intros Hs Hj. apply Hs. rewrite <- app_assoc.
  rewrite nth_error_app2 by lia. replace (length g1 + j - length g1)%nat with j by lia.
  rewrite nth_error_app1; auto. apply nth_error_Some. congruence.
Qed.

Lemma solves_prefix g rest t srcv V : solves (g ++ rest) t srcv V -> solves g t srcv V.
Proof.
  intros Hs i nd Hi. apply Hs. rewrite nth_error_app1; auto. apply nth_error_Some; congruence.
Qed.

(* bookkeeping invariant of expansion *)
Definition handles_ok (g : graph) (hs : list nat) : Prop := forall h, In h hs -> (h < length g)%nat.

Lemma handle_lt g hs s : handles_ok g hs -> (s < length hs)%nat -> (nth s hs O < length g)%nat.
Proof. intros H Hs. apply H. apply nth_In; auto. Qed.

Definition call_post (c : call) (g : graph) (hs : list nat) (g' : graph) (hs' : list nat) : Prop :=
  (exists new, g' = g ++ new) /\ wf g' /\
  exists r, hs' = hs ++ [r] /\ (r < length g')%nat /\
    forall rest t srcv V, solves (g' ++ rest) t srcv V ->
      nth r V RNone = call_sem c t (srcv r) (map (fun s => nth (nth s hs O) V RNone) (call_args c)).

Ltac len_norm := repeat (rewrite app_length; simpl length); try lia.

Lemma one_node_post c g hs nd :
  wf g -> (forall p, In p (parents nd) -> (p < length g)%nat) ->
  (forall t x V, node_val nd t x V =
      call_sem c t x (map (fun s => nth (nth s hs O) V RNone) (call_args c))) ->
  call_post c g hs (g ++ [nd]) (hs ++ [length g]).
Proof.
  intros Hwf Hp Hsem. split; [eexists; reflexivity|]. split; [apply wf_snoc; auto|].
  exists (length g). split; auto. split; [len_norm|].
  intros rest t srcv V Hs.
  pose proof (solves_nth_app g [nd] rest t srcv V 0 nd Hs eq_refl) as H.
  rewrite Nat.add_0_r in H. rewrite H. apply Hsem.
Qed.

Lemma lift1_setName t a : lift1 rdd_setName t a = a.
Proof. destruct a; reflexivity. Qed.
Lemma lift1_comp f h t a : lift1 f t (lift1 h t a) = lift1 (fun r => f (h r)) t a.
Proof. destruct a; reflexivity. Qed.

(* mapPartitions(f): mapPartitionsWithIndex + transform(setName) *)
Lemma mapPartitions_nodes g s f rest t srcv V :
  solves ((g ++ [Trans (lift1 (rdd_mapPartitionsWithIndex (fun _ p => f p))) s;
                 Trans (lift1 rdd_setName) (length g)]) ++ rest) t srcv V ->
  nth (length g + 1) V RNone = lift1 (rdd_mapPartitions f) t (nth s V RNone).
Proof.
  intros Hs.
  pose proof (solves_nth_app g _ rest t srcv V 0 _ Hs eq_refl) as H0.
  pose proof (solves_nth_app g _ rest t srcv V 1 _ Hs eq_refl) as H1.
  simpl in H0, H1. rewrite Nat.add_0_r in H0.
  rewrite H1, H0, lift1_setName. reflexivity.
Qed.

Lemma wf_snoc2 g n1 n2 :
  wf g -> (forall p, In p (parents n1) -> (p < length g)%nat) ->
  (forall p, In p (parents n2) -> (p < length g + 1)%nat) -> wf ((g ++ [n1]) ++ [n2]).
Proof.
  intros. apply wf_snoc; [apply wf_snoc; auto|]. intros p Hp. rewrite app_length; simpl. auto.
Qed.

Lemma wf_app g new :
  wf g -> (forall j nd, nth_error new j = Some nd -> forall p, In p (parents nd) -> (p < length g + j)%nat) ->
  wf (g ++ new).
Proof.
  intros Hwf Hn i nd Hi p Hp.
  destruct (Nat.lt_ge_cases i (length g)) as [Hl|Hl].
  - rewrite nth_error_app1 in Hi by auto. eapply Hwf; eauto.
  - rewrite nth_error_app2 in Hi by auto. specialize (Hn _ _ Hi p Hp). lia.
Qed.

Lemma multi_node_post c g hs new r :
  wf g -> (1 <= length new)%nat ->
  (forall j nd, nth_error new j = Some nd -> forall p, In p (parents nd) -> (p < length g + j)%nat) ->
  r = (length g + length new - 1)%nat ->
  (forall rest t srcv V, solves ((g ++ new) ++ rest) t srcv V ->
      nth r V RNone = call_sem c t (srcv r) (map (fun s => nth (nth s hs O) V RNone) (call_args c))) ->
  call_post c g hs (g ++ new) (hs ++ [r]).
Proof.
  intros Hwf Hne Hp Hr Hsem. split; [eexists; reflexivity|]. split; [apply wf_app; auto|].
  exists r. split; auto. split; [rewrite app_length; lia|]. exact Hsem.
Qed.

Ltac node_eq Hs g rest t srcv V j H :=
  pose proof (solves_nth_app g _ rest t srcv V j _ Hs eq_refl) as H; cbn [node_val] in H.

Ltac parents_lt HL :=
  let j := fresh "j" in let nd := fresh "nd" in let Hj := fresh "Hj" in let p := fresh "p" in let Hp := fresh "Hp" in
  intros j nd Hj p Hp;
  destruct j as [|[|[|j]]]; simpl in Hj; try (destruct j; discriminate); try discriminate;
  inversion Hj; subst nd; simpl in Hp;
  repeat (destruct Hp as [<-|Hp]; [try lia; try (pose proof (HL _ (or_introl eq_refl)); lia)|]);
  try destruct Hp.

Theorem expand_call_post c g hs :
  wf g -> handles_ok g hs -> (forall s, In s (call_args c) -> (s < length hs)%nat) ->
  let '(g', hs') := expand_call c (g, hs) in call_post c g hs g' hs'.
Proof.
  intros Hwf Hh Hargs.
  assert (HL : forall s, In s (call_args c) -> (nth s hs O < length g)%nat)
    by (intros s Hs; apply handle_lt; auto).
  destruct c; cbn [expand_call call_args] in *;
    unfold ds_source, ds_map, ds_flatMap, ds_filter, ds_mapValues, ds_flatMapValues, ds_reduceByKey,
      ds_groupByKey, ds_count, ds_countByValue, ds_reduce, ds_union, ds_cogrouped, ds_repartition,
      ds_slice, ds_foreachRDD, ds_mapPartitions, ds_mapPartitionsWithIndex, ds_transformWith,
      ds_transform, add_node; cbn [fst snd];
    try (apply one_node_post; auto; try (intros; reflexivity);
         simpl; intros pp Hpp; repeat (destruct Hpp as [<-|Hpp]; [apply HL; simpl; auto|]); try destruct Hpp; fail).
  - (* map: mapPartitionsWithIndex, setName, setName *)
    rewrite !app_length; cbn [length]. rewrite <- !app_assoc; cbn [app].
    apply multi_node_post; auto; [simpl; lia|parents_lt HL|simpl; lia|].
    intros rest t srcv V Hs.
    node_eq Hs g rest t srcv V 0%nat H0. node_eq Hs g rest t srcv V 1%nat H1. node_eq Hs g rest t srcv V 2%nat H2.
    rewrite Nat.add_0_r in H0. replace (length g + 1 + 1)%nat with (length g + 2)%nat by lia.
    rewrite H2, H1, H0, !lift1_setName. reflexivity.
  - (* flatMap: mapPartitionsWithIndex, setName *)
    rewrite !app_length; cbn [length]. rewrite <- !app_assoc; cbn [app].
    apply multi_node_post; auto; [simpl; lia|parents_lt HL|simpl; lia|].
    intros rest t srcv V Hs.
    node_eq Hs g rest t srcv V 0%nat H0. node_eq Hs g rest t srcv V 1%nat H1.
    rewrite Nat.add_0_r in H0.
    rewrite H1, H0, !lift1_setName. reflexivity.
  - (* count: mapPartitionsWithIndex, setName, reduce *)
    rewrite !app_length; cbn [length]. rewrite <- !app_assoc; cbn [app].
    apply multi_node_post; auto; [simpl; lia|parents_lt HL|simpl; lia|].
    intros rest t srcv V Hs.
    node_eq Hs g rest t srcv V 0%nat H0. node_eq Hs g rest t srcv V 1%nat H1. node_eq Hs g rest t srcv V 2%nat H2.
    rewrite Nat.add_0_r in H0. replace (length g + 1 + 1)%nat with (length g + 2)%nat by lia.
    rewrite H2, H1, H0, !lift1_setName. simpl. destruct (nth (nth s hs 0%nat) V RNone); reflexivity.
  - (* mapPartitions: mapPartitionsWithIndex, setName *)
    rewrite !app_length; cbn [length]. rewrite <- !app_assoc; cbn [app].
    apply multi_node_post; auto; [simpl; lia|parents_lt HL|simpl; lia|].
    intros rest t srcv V Hs.
    node_eq Hs g rest t srcv V 0%nat H0. node_eq Hs g rest t srcv V 1%nat H1.
    rewrite Nat.add_0_r in H0.
    rewrite H1, H0, !lift1_setName. reflexivity.
Qed.



Definition prog_post (p : list call) (g : graph) (hs : list nat) (G : graph) (hs' : list nat) : Prop :=
  wf G /\ handles_ok G hs' /\ (exists new, G = g ++ new) /\
  (exists hnew, hs' = hs ++ hnew /\ length hnew = length p) /\
  forall k c, nth_error p k = Some c ->
    forall rest t srcv V, solves (G ++ rest) t srcv V ->
      nth (nth (length hs + k) hs' O) V RNone =
      call_sem c t (srcv (nth (length hs + k) hs' O))
               (map (fun s => nth (nth s hs' O) V RNone) (call_args c)).

Lemma map_ext_in' {A B} (f h : A -> B) l : (forall a, In a l -> f a = h a) -> map f l = map h l.
Proof. induction l; simpl; intros H; auto. f_equal; auto. Qed.

Theorem expand_from_post : forall p g hs,
  wf g -> handles_ok g hs -> prog_ok_from (length hs) p ->
  prog_post p g hs (fst (expand_from p (g, hs))) (snd (expand_from p (g, hs))).
Proof.
  induction p as [|c p IH]; intros g hs Hwf Hh Hok.
  - simpl. split; auto. split; auto. split; [exists []; rewrite app_nil_r; auto|].
    split; [exists []; rewrite app_nil_r; auto|]. intros k c Hk. destruct k; discriminate.
  - destruct Hok as [Hargs Hok]. cbn [expand_from fold_left].
    pose proof (expand_call_post c g hs Hwf Hh Hargs) as Hc.
    destruct (expand_call c (g, hs)) as [g1 hs1].
    destruct Hc as [[new1 Hg1] [Hwf1 [r [Hhs1 [Hr Hsem]]]]].
    assert (Hh1 : handles_ok g1 hs1).
    { intros h Hin. subst hs1. apply in_app_or in Hin as [Hin|[<-|[]]]; auto.
      specialize (Hh h Hin). subst g1. rewrite app_length; lia. }
    assert (Hlen1 : length hs1 = S (length hs)) by (subst hs1; rewrite app_length; simpl; lia).
    rewrite <- Hlen1 in Hok.
    specialize (IH g1 hs1 Hwf1 Hh1 Hok). unfold expand_from in IH.
    destruct IH as [HwfG [HhG [[new HG] [[hnew [Hhs' Hlenh]] Hcalls]]]].
    set (G := fst (fold_left (fun acc c0 => expand_call c0 acc) p (g1, hs1))) in *.
    set (hs' := snd (fold_left (fun acc c0 => expand_call c0 acc) p (g1, hs1))) in *.
    split; auto. split; auto.
    split; [exists (new1 ++ new); rewrite HG, Hg1, app_assoc; reflexivity|].
    split; [exists (r :: hnew); split; [rewrite Hhs', Hhs1, <- app_assoc; reflexivity|simpl; lia]|].
    intros k c' Hk rest t srcv V Hs.
    destruct k as [|k]; simpl in Hk.
    + inversion Hk; subst c'. rewrite Nat.add_0_r.
      assert (Hr' : nth (length hs) hs' O = r).
      { rewrite Hhs', Hhs1, <- app_assoc. rewrite app_nth2 by lia. rewrite Nat.sub_diag. reflexivity. }
      rewrite Hr'. rewrite HG, <- app_assoc in Hs.
      rewrite (Hsem _ t srcv V Hs). f_equal.
      apply map_ext_in'. intros s Hin. specialize (Hargs s Hin).
      rewrite Hhs', Hhs1, <- app_assoc. rewrite app_nth1 by lia. reflexivity.
    + replace (length hs + S k)%nat with (length hs1 + k)%nat by lia.
      apply (Hcalls k c' Hk rest t srcv V Hs).
Qed.

Lemma wf_nil : wf [].
Proof. intros i nd H. destruct i; discriminate. Qed.

(* every program of API calls yields a well-formed graph, and every solution of its graph equations
   gives each returned stream the RDD-level meaning of its call applied to its argument streams *)
Theorem prog_sem p :
  prog_ok p ->
  wf (fst (expand p)) /\ length (snd (expand p)) = length p /\
  handles_ok (fst (expand p)) (snd (expand p)) /\
  forall k c, nth_error p k = Some c ->
    forall t srcv V, solves (fst (expand p)) t srcv V ->
      nth (nth k (snd (expand p)) O) V RNone =
      call_sem c t (srcv (nth k (snd (expand p)) O))
               (map (fun s => nth (nth s (snd (expand p)) O) V RNone) (call_args c)).
Proof.
  intros Hok. unfold expand.
  destruct (expand_from_post p [] [] wf_nil ltac:(intros h []) Hok)
    as [Hwf [Hh [_ [[hnew [Hhs Hlen]] Hcalls]]]].
  split; auto. split; [transitivity (length (@nil nat ++ hnew)); [f_equal; exact Hhs|simpl; auto]|]. split; auto.
  intros k c Hk t srcv V Hs.
  specialize (Hcalls k c Hk [] t srcv V). rewrite app_nil_r in Hcalls. simpl in Hcalls.
  apply Hcalls; auto.
Qed.


(* ---------- total graphs never take the early return of TransformedDStream._step ---------- *)
Lemma cg_apply_defined op np x y : cg_apply op np (RRdd x) (RRdd y) <> RNone.
Proof. simpl. discriminate. Qed.

Lemma graph_total_defined g t srcv :
  wf g -> graph_total g -> src_defined g srcv ->
  forall n i nd, (i < n)%nat -> nth_error g i = Some nd -> node_total nd ->
    nth i (denot g t srcv) RNone <> RNone.
Proof.
  intros Hwf Hgt Hsrc. induction n as [|n IH]; intros i nd Hi Hg Htot; [lia|].
  rewrite (denot_eqn g t srcv i nd Hwf Hg).
  assert (Hpar : forall p, In p (parents nd) -> nth p (denot g t srcv) RNone <> RNone).
  { intros p Hp. destruct (Hgt i nd Hg p Hp) as [ndp [Hgp Htp]].
    apply (IH p ndp); auto. pose proof (Hwf i nd Hg p Hp). lia. }
  destruct nd as [k|f p|f p1 p2|op np p1 p2]; simpl in *.
  - eapply Hsrc; eauto.
  - specialize (Hpar p (or_introl eq_refl)).
    destruct (nth p (denot g t srcv) RNone); [congruence|apply Htot].
  - pose proof (Hpar p1 (or_introl eq_refl)). pose proof (Hpar p2 (or_intror (or_introl eq_refl))).
    destruct (nth p1 (denot g t srcv) RNone); [congruence|].
    destruct (nth p2 (denot g t srcv) RNone); [congruence|apply Htot].
  - pose proof (Hpar p1 (or_introl eq_refl)). pose proof (Hpar p2 (or_intror (or_introl eq_refl))).
    destruct (nth p1 (denot g t srcv) RNone); [congruence|].
    destruct (nth p2 (denot g t srcv) RNone); [congruence|discriminate].
Qed.

Theorem graph_total_live g : wf g -> graph_total g -> always_live g.
Proof.
  intros Hwf Hgt t srcv Hsrc i f p Hg.
  destruct (Hgt i _ Hg p (or_introl eq_refl)) as [ndp [Hgp Htp]].
  apply (graph_total_defined g t srcv Hwf Hgt Hsrc (S p) p ndp); auto.
Qed.

(* ---------- the graphs of total programs are total ---------- *)
Definition total_at (g : graph) (i : nat) : Prop := exists nd, nth_error g i = Some nd /\ node_total nd.

Lemma total_at_app g new i : total_at g i -> total_at (g ++ new) i.
Proof.
  intros [nd [H Ht]]. exists nd. split; auto. rewrite nth_error_app1; auto. apply nth_error_Some; congruence.
Qed.

Lemma graph_total_app g new :
  graph_total g ->
  (forall j nd, nth_error new j = Some nd -> forall p, In p (parents nd) -> total_at (g ++ new) p) ->
  graph_total (g ++ new).
Proof.
  intros Hg Hn i nd Hi p Hp.
  destruct (Nat.lt_ge_cases i (length g)) as [Hl|Hl].
  - rewrite nth_error_app1 in Hi by auto. apply total_at_app. exact (Hg i nd Hi p Hp).
  - rewrite nth_error_app2 in Hi by auto. exact (Hn _ _ Hi p Hp).
Qed.

Lemma total_new g new j nd :
  nth_error new j = Some nd -> node_total nd -> total_at (g ++ new) (length g + j).
Proof.
  intros H Ht. exists nd. split; auto. rewrite nth_error_app2 by lia.
  replace (length g + j - length g)%nat with j by lia. exact H.
Qed.

Lemma total_new' g new i j nd :
  i = (length g + j)%nat -> nth_error new j = Some nd -> node_total nd -> total_at (g ++ new) i.
Proof. intros ->. apply total_new. Qed.

Lemma lift1_total f p : node_total (Trans (lift1 f) p).
Proof. simpl. intros; discriminate. Qed.
Lemma lift2_total f p q : node_total (TransWith (lift2 f) p q).
Proof. simpl. intros; discriminate. Qed.
Lemma slice_total b e p : node_total (Trans (slice_fn b e) p).
Proof. simpl. intros t x. unfold slice_fn. destruct ((b <=? t) && (t <=? e)); discriminate. Qed.

Lemma chain_total g new (A : list nat) :
  graph_total g -> (forall a, In a A -> total_at g a) ->
  (forall j nd, nth_error new j = Some nd -> forall p, In p (parents nd) ->
      In p A \/ exists j', p = (length g + j')%nat /\ (j' < j)%nat) ->
  (forall j nd, nth_error new j = Some nd -> (S j < length new)%nat -> node_total nd) ->
  graph_total (g ++ new).
Proof.
  intros Hg HA Hpar Htot. apply graph_total_app; auto.
  intros j nd Hj p Hp. destruct (Hpar j nd Hj p Hp) as [Hin|[j' [-> Hlt]]].
  - apply total_at_app. auto.
  - assert (Hjl : (j < length new)%nat) by (apply nth_error_Some; congruence).
    destruct (nth_error new j') as [nd'|] eqn:E.
    + apply (total_new g new j' nd' E). apply (Htot j' nd' E). lia.
    + apply nth_error_None in E. lia.
Qed.

Definition call_total_post (c : call) (g' : graph) (hs' : list nat) : Prop :=
  graph_total g' /\ (is_action c = false -> total_at g' (last hs' O)).

Ltac par_tac :=
  let j := fresh "j" in let nd := fresh "nd" in let Hj := fresh "Hj" in let p := fresh "pp" in let Hp := fresh "Hpp" in
  intros j nd Hj p Hp;
  destruct j as [|[|[|j]]]; simpl in Hj; try (destruct j; discriminate); try discriminate;
  inversion Hj; subst nd; simpl in Hp;
  repeat (destruct Hp as [<-|Hp];
          [ first [ left; simpl; auto; fail
                  | right; exists 0%nat; split; lia
                  | right; exists 1%nat; split; lia ] |]);
  try destruct Hp.

Ltac tot_tac :=
  let j := fresh "j" in let nd := fresh "nd" in let Hj := fresh "Hj" in let Hl := fresh "Hl" in
  intros j nd Hj Hl; simpl in Hl;
  destruct j as [|[|[|j]]]; simpl in Hj; try lia; try discriminate;
  inversion Hj; subst nd; apply lift1_total.

Theorem expand_call_total c g hs :
  graph_total g -> call_total c ->
  (forall s, In s (call_args c) -> total_at g (nth s hs O)) ->
  call_total_post c (fst (expand_call c (g, hs))) (snd (expand_call c (g, hs))).
Proof.
  intros Hgt Hct HA.
  assert (HA' : forall a, In a (map (fun s => nth s hs O) (call_args c)) -> total_at g a).
  { intros a Ha. apply in_map_iff in Ha as [s [<- Hs]]. auto. }
  destruct c; cbn [expand_call call_args call_total is_action map] in *;
    unfold ds_source, ds_map, ds_flatMap, ds_filter, ds_mapValues, ds_flatMapValues, ds_reduceByKey,
      ds_groupByKey, ds_count, ds_countByValue, ds_reduce, ds_union, ds_cogrouped, ds_repartition,
      ds_slice, ds_foreachRDD, ds_mapPartitions, ds_mapPartitionsWithIndex, ds_transformWith,
      ds_transform, add_node; cbn [fst snd]; unfold call_total_post; rewrite last_last;
    rewrite ?app_length; cbn [length]; rewrite <- ?app_assoc; cbn [app];
    (split; [eapply chain_total; [exact Hgt|exact HA'|par_tac|tot_tac]|]);
    intros Hact; try discriminate Hact.
  all: try (first [ eapply (total_new' g _ _ 0%nat); [lia|reflexivity|]
             | eapply (total_new' g _ _ 1%nat); [lia|reflexivity|]
             | eapply (total_new' g _ _ 2%nat); [lia|reflexivity|] ];
       first [exact I|apply lift1_total|apply lift2_total|apply slice_total|exact Hct]).
Qed.



Record TInv (p : list call) (g : graph) (hs : list nat) : Prop := {
  ti_wf : wf g;
  ti_h : handles_ok g hs;
  ti_gt : graph_total g;
  ti_len : (length hs <= length p)%nat;
  ti_tot : forall k c, (k < length hs)%nat -> nth_error p k = Some c -> is_action c = false ->
             total_at g (nth k hs O)
}.

Theorem expand_from_total p : prog_total p -> forall q pfx g hs,
  p = pfx ++ q -> length hs = length pfx -> TInv p g hs -> prog_ok_from (length hs) q ->
  graph_total (fst (expand_from q (g, hs))).
Proof.
  intros Hpt. induction q as [|c q IH]; intros pfx g hs Hp Hlen HI Hok.
  - simpl. apply (ti_gt _ _ _ HI).
  - destruct Hok as [Hargs Hok]. cbn [expand_from fold_left].
    assert (Hc : nth_error p (length hs) = Some c).
    { rewrite Hp, Hlen, nth_error_app2 by lia. rewrite Nat.sub_diag. reflexivity. }
    destruct (Hpt _ _ Hc) as [Hct Hnoact].
    assert (HA : forall s, In s (call_args c) -> total_at g (nth s hs O)).
    { intros s Hs. pose proof (Hargs s Hs) as Hlt.
      destruct (nth_error p s) as [c'|] eqn:Ec.
      - apply (ti_tot _ _ _ HI s c'); auto. eapply Hnoact; eauto.
      - apply nth_error_None in Ec. pose proof (ti_len _ _ _ HI). lia. }
    pose proof (expand_call_total c g hs (ti_gt _ _ _ HI) Hct HA) as [Hgt1 Htot1].
    pose proof (expand_call_post c g hs (ti_wf _ _ _ HI) (ti_h _ _ _ HI) Hargs) as Hpost.
    destruct (expand_call c (g, hs)) as [g1 hs1]. cbn [fst snd] in *.
    destruct Hpost as [[new Hg1] [Hwf1 [r [Hhs1 [Hr _]]]]].
    fold (expand_from q (g1, hs1)).
    assert (Hlen1 : length hs1 = S (length hs)) by (subst hs1; rewrite app_length; simpl; lia).
    apply (IH (pfx ++ [c]) g1 hs1).
    + rewrite Hp, <- app_assoc. reflexivity.
    + rewrite Hlen1, app_length, Hlen. simpl. lia.
    + constructor; auto.
      * intros h Hin. subst hs1. apply in_app_or in Hin as [Hin|[<-|[]]]; auto.
        pose proof (ti_h _ _ _ HI h Hin). subst g1. rewrite app_length; lia.
      * rewrite Hlen1. apply nth_error_Some. congruence.
      * intros k c' Hk Hck Hact. rewrite Hlen1 in Hk.
        destruct (Nat.eq_dec k (length hs)) as [->|Hne].
        -- assert (c' = c) by congruence. subst c'.
           replace (nth (length hs) hs1 O) with (last hs1 O); auto.
           subst hs1. rewrite last_last, app_nth2, Nat.sub_diag by lia. reflexivity.
        -- subst hs1 g1. rewrite app_nth1 by lia. apply total_at_app.
           apply (ti_tot _ _ _ HI k c'); auto. lia.
    + rewrite Hlen1. exact Hok.
Qed.

Lemma graph_total_nil : graph_total [].
Proof. intros i nd H. destruct i; discriminate. Qed.

Theorem prog_total_live p : prog_ok p -> prog_total p -> always_live (fst (expand p)).
Proof.
  intros Hok Hpt. destruct (prog_sem p Hok) as [Hwf _].
  apply graph_total_live; auto. unfold expand.
  apply (expand_from_total p Hpt p [] [] []); auto.
  constructor.
  - apply wf_nil.
  - intros h [].
  - apply graph_total_nil.
  - simpl; lia.
  - simpl; intros; lia.
Qed.

(* per-batch op = RDD op: after the callback ran at time t on the graph of ANY program, the stream
   returned by every call holds the call's RDD-level meaning applied to what its argument streams
   hold in the same interval *)
Theorem prog_tick p env t st :
  prog_ok p -> prog_total p -> let G := fst (expand p) in let hs := snd (expand p) in
  length (ns st) = length G -> (forall i s, nth_error (ns st) i = Some s -> ctime s < t) ->
  exists st', tick G env t st = Some st' /\
    forall k c, nth_error p k = Some c ->
      crdd_at st' (nth k hs O) =
      call_sem c t (delivered G env st (nth k hs O)) (map (fun s => crdd_at st' (nth s hs O)) (call_args c)).
Proof.
  intros Hok Hpt G hs Hlen Hlt.
  destruct (prog_sem p Hok) as [Hwf [_ [_ Hsem]]]. fold G hs in Hwf, Hsem.
  assert (Hlive : live G t (delivered G env st))
    by (apply (prog_total_live p Hok Hpt); apply delivered_defined; auto).
  destruct (tick_inv G env t st Hwf Hlen Hlt Hlive) as [st' [E [_ [_ Hsol]]]].
  exists st'. split; auto. intros k c Hk.
  assert (Hs : solves G t (delivered G env st) (map crdd (ns st'))).
  { intros i nd Hi. rewrite <- crdd_at_map. apply Hsol; auto. }
  rewrite crdd_at_map, (Hsem k c Hk t _ _ Hs). f_equal.
  apply map_ext. intros s. rewrite crdd_at_map. reflexivity.
Qed.


(* union / repartition keep exactly the elements *)
Lemma flat_ctx_union a b : rdd_ok a -> rdd_ok b -> flat (ctx_union a b) = flat a ++ flat b.
Proof.
  intros Ha Hb. unfold ctx_union. destruct (ecls a && ecls b) eqn:E.
  - apply andb_true_iff in E as [Ea Eb]. unfold flat. rewrite (Ha Ea), (Hb Eb). reflexivity.
  - apply parallelize_flat.
Qed.
Lemma flat_repartition n r : flat (repartition_fn n r) = flat r.
Proof. unfold repartition_fn, rdd_repartition. destruct (ecls r); auto. apply parallelize_flat. Qed.

(* ---------- monitored directory: a file is delivered in the first interval in which it is listed
   and not yet marked done, and is marked done from then on ---------- *)
Definition new_files (ls : listing) (done : list fname) : listing :=
  filter (fun f => negb (name_in (fst f) done)) ls.

Lemma src_get_file d0 ls s :
  src_get (SFile d0) ls s =
    (match new_files ls (fdone s) with [] => QNone | new => QFiles new end,
     mkNs (ctime s) (crdd s) (queue s) (fdone s ++ map fst (new_files ls (fdone s)))).
Proof.
  unfold src_get, new_files. destruct (filter _ ls) eqn:E; simpl.
  - rewrite app_nil_r. destruct s; reflexivity.
  - reflexivity.
Qed.

Theorem file_tick g env t st i d0 s :
  wf g -> nth_error g i = Some (Src (SFile d0)) -> nth_error (ns st) i = Some s ->
  let new := new_files (env i) (fdone s) in
  nth_error (ns (tick_spec g env t st)) i =
    Some (mkNs t (RRdd (deserialize (match new with [] => QNone | _ => QFiles new end)))
               (queue s) (fdone s ++ map fst new)).
Proof.
  intros Hwf Hg Hs new. rewrite (tick_spec_src g env t st i _ s Hwf Hg Hs), src_get_file. cbn [fst snd queue fdone]. subst new. destruct (new_files (env i) (fdone s)); reflexivity.
Qed.

Lemma name_eqb_refl a : name_eqb a a = true.
Proof. induction a; simpl; auto. rewrite N.eqb_refl; auto. Qed.

Lemma name_in_app x a b : name_in x (a ++ b) = name_in x a || name_in x b.
Proof. unfold name_in. apply existsb_app. Qed.

Lemma new_files_fresh ls done f :
  In f (new_files ls done) -> In f ls /\ name_in (fst f) done = false.
Proof.
  unfold new_files. intros H. apply filter_In in H as [H1 H2]. split; auto.
  destruct (name_in (fst f) done); auto; discriminate.
Qed.

Lemma listed_then_done ls done f :
  In f ls -> name_in (fst f) (done ++ map fst (new_files ls done)) = true.
Proof.
  intros Hin. rewrite name_in_app. destruct (name_in (fst f) done) eqn:E; auto. simpl.
  unfold name_in. apply existsb_exists. exists (fst f). split; [|apply name_eqb_refl].
  apply in_map. unfold new_files. apply filter_In. split; auto. rewrite E; auto.
Qed.

Lemma done_monotone x done more : name_in x done = true -> name_in x (done ++ more) = true.
Proof. intros H. rewrite name_in_app, H. reflexivity. Qed.

(* once a file has been listed at some tick of the history it stays marked done: it was delivered
   in that interval (or earlier, or existed before the stream was created) and can never be
   delivered again, because [new_files] only returns files that are not marked done *)
Theorem file_once g i d0 :
  wf g -> nth_error g i = Some (Src (SFile d0)) ->
  forall h, exists s,
    nth_error (ns (spec_hist g h (init g))) i = Some s /\
    (forall x, name_in x d0 = true -> name_in x (fdone s) = true) /\
    (forall k t env f, nth_error h k = Some (t, env) -> In f (env i) -> name_in (fst f) (fdone s) = true).
Proof.
  intros Hwf Hg h. induction h as [|[t env] h IH] using rev_ind.
  - simpl. rewrite nth_error_map, Hg. simpl. eexists; split; [reflexivity|]. split; auto.
    intros k t env f Hk. destruct k; discriminate.
  - destruct IH as [s [Hs [Hd0 Hseen]]].
    rewrite spec_hist_snoc, (file_tick g env t _ i d0 s Hwf Hg Hs).
    eexists; split; [reflexivity|]. cbn [fdone]. split.
    + intros x Hx. apply done_monotone; auto.
    + intros k t' env' f Hk Hin.
      destruct (Nat.lt_ge_cases k (length h)) as [Hl|Hl].
      * rewrite nth_error_app1 in Hk by auto. apply done_monotone. eapply Hseen; eauto.
      * rewrite nth_error_app2 in Hk by auto.
        destruct (k - length h)%nat as [|k'] eqn:E; simpl in Hk; [|destruct k'; discriminate].
        inversion Hk; subst t' env'. apply listed_then_done; auto.
Qed.


(* ---------- the node of a foreachRDD action ---------- *)
Definition action_node (c : call) (hs : list nat) (nd : node) : Prop :=
  match c with
  | CForeachRDD s => exists f, nd = Trans f (nth s hs O)
  | _ => True
  end.

Lemma expand_call_action c g hs :
  let '(g', hs') := expand_call c (g, hs) in
  exists nd, nth_error g' (last hs' O) = Some nd /\ action_node c hs nd.
Proof.
  destruct c; cbn [expand_call];
    unfold ds_source, ds_map, ds_flatMap, ds_filter, ds_mapValues, ds_flatMapValues, ds_reduceByKey,
      ds_groupByKey, ds_count, ds_countByValue, ds_reduce, ds_union, ds_cogrouped, ds_repartition,
      ds_slice, ds_foreachRDD, ds_mapPartitions, ds_mapPartitionsWithIndex, ds_transformWith,
      ds_transform, add_node; cbn [fst snd]; rewrite last_last;
    (eexists; split; [rewrite nth_error_app2 by lia; rewrite Nat.sub_diag; reflexivity|]);
    simpl; auto. eexists; reflexivity.
Qed.

Lemma action_node_ext c hs more nd :
  (forall s, In s (call_args c) -> (s < length hs)%nat) ->
  action_node c hs nd -> action_node c (hs ++ more) nd.
Proof.
  intros Hargs H. destruct c; simpl in *; auto.
  destruct H as [f ->]. exists f. rewrite app_nth1; auto.
Qed.

Theorem expand_from_action : forall p g hs,
  wf g -> handles_ok g hs -> prog_ok_from (length hs) p ->
  forall k c, nth_error p k = Some c ->
  exists nd, nth_error (fst (expand_from p (g, hs))) (nth (length hs + k) (snd (expand_from p (g, hs))) O) = Some nd /\
             action_node c (snd (expand_from p (g, hs))) nd.
Proof.
  induction p as [|c0 p IH]; intros g hs Hwf Hh Hok k c Hk; [destruct k; discriminate|].
  destruct Hok as [Hargs Hok]. cbn [expand_from fold_left].
  pose proof (expand_call_post c0 g hs Hwf Hh Hargs) as Hc.
  pose proof (expand_call_action c0 g hs) as Ha.
  destruct (expand_call c0 (g, hs)) as [g1 hs1].
  destruct Hc as [[new1 Hg1] [Hwf1 [r [Hhs1 [Hr _]]]]].
  destruct Ha as [nd0 [Hnd0 Hact0]].
  assert (Hh1 : handles_ok g1 hs1).
  { intros h Hin. subst hs1. apply in_app_or in Hin as [Hin|[<-|[]]]; auto.
    specialize (Hh h Hin). subst g1. rewrite app_length; lia. }
  assert (Hlen1 : length hs1 = S (length hs)) by (subst hs1; rewrite app_length; simpl; lia).
  rewrite <- Hlen1 in Hok.
  pose proof (expand_from_post p g1 hs1 Hwf1 Hh1 Hok) as [_ [_ [[new HG] [[hnew [Hhs' _]] _]]]].
  fold (expand_from p (g1, hs1)).
  destruct k as [|k]; simpl in Hk.
  - inversion Hk; subst c0. rewrite Nat.add_0_r.
    assert (Hr' : nth (length hs) (snd (expand_from p (g1, hs1))) O = r).
    { rewrite Hhs', Hhs1, <- app_assoc. rewrite app_nth2 by lia. rewrite Nat.sub_diag. reflexivity. }
    rewrite Hr'. exists nd0. split.
    + rewrite HG, nth_error_app1 by auto. rewrite Hhs1, last_last in Hnd0. exact Hnd0.
    + rewrite Hhs', Hhs1, <- app_assoc. apply action_node_ext; auto.
  - replace (length hs + S k)%nat with (length hs1 + k)%nat by lia.
    apply (IH g1 hs1 Hwf1 Hh1 Hok k c Hk).
Qed.

(* every foreachRDD action of ANY program runs exactly once per interval, with the tick time and the
   RDD its stream holds in this interval *)
Theorem action_once p env t st k s :
  prog_ok p -> prog_total p -> nth_error p k = Some (CForeachRDD s) ->
  let G := fst (expand p) in let hs := snd (expand p) in
  length (ns st) = length G -> (forall i x, nth_error (ns st) i = Some x -> ctime x < t) ->
  exists st' evs, tick G env t st = Some st' /\ log st' = log st ++ evs /\
    fires (nth k hs O) evs = 1%nat /\
    forall tt args, In (EvFire (nth k hs O) tt args) evs -> tt = t /\ args = [crdd_at st' (nth s hs O)].
Proof.
  intros Hok Hpt Hk G hs Hlen Hlt.
  destruct (prog_sem p Hok) as [Hwf _]. fold G in Hwf.
  assert (Hlive : live G t (delivered G env st))
    by (apply (prog_total_live p Hok Hpt); apply delivered_defined; auto).
  destruct (expand_from_action p [] [] wf_nil ltac:(intros h []) Hok k _ Hk) as [nd [Hnd [f Hf]]].
  assert (Hnd' : nth_error G (nth k hs O) = Some nd) by exact Hnd.
  assert (Hf' : nd = Trans f (nth s hs O)) by exact Hf.
  clear Hnd Hf. rename Hnd' into Hnd. subst nd.
  destruct (tick_events G env t st Hwf Hlen Hlt Hlive) as [st' [evs [E [Hlog [_ [Hfires Hargs]]]]]].
  exists st', evs. split; auto. split; auto. split.
  - rewrite Hfires. unfold is_fn. rewrite Hnd. reflexivity.
  - intros tt args Hin. destruct (Hargs _ _ _ Hin) as [-> [nd' [Hnd' ->]]].
    split; auto. rewrite Hnd in Hnd'. inversion Hnd'; subst nd'. reflexivity.
Qed.

(* ---------- per-batch op = RDD op along a whole history ---------- *)
Lemma spec_hist_times g : forall h c st t env,
  (forall i s, nth_error (ns st) i = Some s -> ctime s <= c) ->
  increasing c (h ++ [(t, env)]) ->
  forall i s, nth_error (ns (spec_hist g h st)) i = Some s -> ctime s < t.
Proof.
  induction h as [|[t0 env0] h IH]; intros c st t env Hc Hinc i s Hs; simpl in *.
  - destruct Hinc as [Hct _]. specialize (Hc i s Hs). lia.
  - destruct Hinc as [Hct Hinc].
    apply (IH t0 (tick_spec g env0 t0 st) t env) with (i := i); auto.
    intros j x Hx. apply tick_spec_time in Hx. lia.
Qed.

Lemma increasing_app_l {A} c (h1 h2 : list (Z * A)) : increasing c (h1 ++ h2) -> increasing c h1.
Proof.
  revert c; induction h1 as [|[t e] h1 IH]; intros c H; simpl in *; auto.
  destruct H; split; auto.
Qed.

Theorem prog_hist p h t env :
  prog_ok p -> prog_total p -> let G := fst (expand p) in let hs := snd (expand p) in
  increasing 0 (h ++ [(t, env)]) ->
  exists st st', run_hist G h (init G) = Some st /\ run_hist G (h ++ [(t, env)]) (init G) = Some st' /\
    forall k c, nth_error p k = Some c ->
      crdd_at st' (nth k hs O) =
      call_sem c t (delivered G env st (nth k hs O)) (map (fun s => crdd_at st' (nth s hs O)) (call_args c)).
Proof.
  intros Hok Hpt G hs Hinc.
  destruct (prog_sem p Hok) as [Hwf _]. fold G in Hwf.
  pose proof (prog_total_live p Hok Hpt) as Hal. fold G in Hal.
  exists (spec_hist G h (init G)), (spec_hist G (h ++ [(t, env)]) (init G)).
  split; [apply run_hist_init; auto; eapply increasing_app_l; eauto|].
  split; [apply run_hist_init; auto|].
  assert (Hlen : length (ns (spec_hist G h (init G))) = length G) by (apply spec_hist_len, init_len).
  assert (Hlt : forall i s, nth_error (ns (spec_hist G h (init G))) i = Some s -> ctime s < t).
  { apply (spec_hist_times G h 0 (init G) t env); auto. apply init_time. }
  destruct (prog_tick p env t _ Hok Hpt Hlen Hlt) as [st' [E Hsem]]. fold G hs in E, Hsem.
  rewrite tick_refines in E by (auto; apply Hal; apply delivered_defined; auto). inversion E; subst st'.
  rewrite spec_hist_snoc. exact Hsem.
Qed.

(* ---------- programs registered in phases ---------- *)

Lemma prog_ok_from_app : forall p1 p2 n,
  prog_ok_from n (p1 ++ p2) <-> prog_ok_from n p1 /\ prog_ok_from (n + length p1) p2.
Proof.
  induction p1 as [|c p1 IH]; intros p2 n; simpl.
  - rewrite Nat.add_0_r. tauto.
  - rewrite IH. replace (S n + length p1)%nat with (n + S (length p1))%nat by lia. tauto.
Qed.

Lemma prog_total_prefix p1 p2 : prog_ok (p1 ++ p2) -> prog_total (p1 ++ p2) -> prog_total p1.
Proof.
  intros Hok Hpt k c Hk.
  assert (Hk' : nth_error (p1 ++ p2) k = Some c).
  { rewrite nth_error_app1; auto. apply nth_error_Some; congruence. }
  destruct (Hpt k c Hk') as [Hct Hna]. split; auto.
  intros s Hs c' Hc'. apply (Hna s Hs c').
  rewrite nth_error_app1; auto. apply nth_error_Some; congruence.
Qed.

(* registering a program in two phases (before start(), and later) registers the graph of the whole
   program; both the early and the final graph are well formed and never take the early return *)
Theorem phased_program p1 p2 :
  prog_ok (p1 ++ p2) -> prog_total (p1 ++ p2) ->
  let G1 := fst (expand p1) in let G2 := fst (expand (p1 ++ p2)) in
  expand (p1 ++ p2) = expand_from p2 (expand p1) /\
  (exists new, G2 = G1 ++ new) /\
  graphs_ok G1 [HReg (skipn (length G1) G2)].
Proof.
  intros Hok Hpt G1 G2.
  assert (Hok1 : prog_ok p1) by (apply prog_ok_from_app in Hok; tauto).
  assert (Hok2 : prog_ok_from (length p1) p2) by (apply prog_ok_from_app in Hok; tauto).
  assert (Hpt1 : prog_total p1) by (eapply prog_total_prefix; eauto).
  assert (Hexp : expand (p1 ++ p2) = expand_from p2 (expand p1)).
  { unfold expand, expand_from. apply fold_left_app. }
  destruct (prog_sem p1 Hok1) as [Hwf1 [Hlen1 [Hh1 _]]].
  destruct (prog_sem (p1 ++ p2) Hok) as [Hwf2 _].
  assert (Hext : exists new, G2 = G1 ++ new).
  { unfold G2. rewrite Hexp. destruct (expand p1) as [g hs] eqn:E. simpl in *.
    rewrite <- Hlen1 in Hok2.
    destruct (expand_from_post p2 g hs Hwf1 Hh1 Hok2) as [_ [_ [Hnew _]]]. exact Hnew. }
  split; auto. split; auto.
  destruct Hext as [new Hnew]. simpl.
  split; auto. split; [apply prog_total_live; auto|].
  rewrite Hnew, skipn_app, skipn_all, Nat.sub_diag. simpl. rewrite <- Hnew.
  split; auto. split; [apply prog_total_live; auto|exact I].
Qed.
