(* Lemmas about PV.Model.Retry (property C04). *)
From Coq Require Import String ZArith List Bool Lia.
Require Import PV.Base.Val PV.Gen.Retry PV.Model.Retry.
Import ListNotations.
Open Scope Z_scope.

(* ---------- link lemmas: what the development needs from the regenerated kernels *)
Ltac kernel_cases :=
  repeat match goal with
         | |- context [?x =? ?y] => destruct (Z.eqb_spec x y)
         | |- context [?x <=? ?y] => destruct (Z.leb_spec x y)
         | |- context [?x <? ?y] => destruct (Z.ltb_spec x y)
         | |- context [?x >=? ?y] => rewrite (Z.geb_leb x y)
         | |- context [?x >? ?y] => rewrite (Z.gtb_ltb x y)
         end; simpl; try reflexivity; try lia.

Lemma attempt_next_spec : forall a, attempt_next a = a + 1.
Proof. intros; unfold attempt_next; kernel_cases. Qed.

Lemma retry_stop_spec : forall a m, 0 < a <= m -> retry_stop a m = (a =? m).
Proof. intros a m H; unfold retry_stop; kernel_cases. Qed.

Lemma retry_reraise_false : retry_reraise false = true.
Proof. reflexivity. Qed.

Lemma job_refused_spec : forall b, job_refused b = b.
Proof. destruct b; reflexivity. Qed.

Lemma rdd_init_refused_spec : forall b, rdd_init_refused b = b.
Proof. destruct b; reflexivity. Qed.

Lemma lock_on_entry_true : lock_on_entry = true.
Proof. reflexivity. Qed.
Lemma lock_after_ok_false : lock_after_ok = false.
Proof. reflexivity. Qed.
Lemma lock_after_error_false : lock_after_error = false.
Proof. reflexivity. Qed.

(* ---------- nested operations while the lock is held *)
Lemma nested_step_locked : forall n, nested_step true n = (false, true).
Proof.
  intros [k c]; unfold nested_step; simpl; destruct k;
    rewrite ?rdd_init_refused_spec, ?job_refused_spec; reflexivity.
Qed.


Lemma run_nested_locked : forall ns, run_nested true ns = (refusals ns, uncaught ns, true).
Proof.
  induction ns as [|n rest IH]; [reflexivity|].
  cbn [run_nested]. rewrite nested_step_locked. cbn iota beta.
  unfold uncaught; cbn [existsb refusals].
  destruct (n_caught n); cbn [negb orb].
  - rewrite IH. reflexivity.
  - reflexivity.
Qed.

Lemma refusals_all_zero : forall ns, Forall (fun o => o = 0) (refusals ns).
Proof.
  induction ns as [|n rest IH]; cbn; [constructor|].
  constructor; [reflexivity|]. destruct (n_caught n); [exact IH|constructor].
Qed.

Lemma refusals_caught : forall ns, uncaught ns = false -> refusals ns = map (fun _ => 0) ns.
Proof.
  induction ns as [|n rest IH]; [reflexivity|].
  unfold uncaught; cbn [existsb refusals map]. intros H.
  apply orb_false_elim in H. destruct H as [H1 H2].
  destruct (n_caught n); [|discriminate]. f_equal. apply IH. exact H2.
Qed.

(* ---------- one attempt while the lock is held *)
Lemma attempt_locked : forall ns xs f a,
  attempt true ns xs f a =
    (mkRec a (refusals ns)
           (if uncaught ns then [] else match f with None => xs | Some ft => seen_of (f_pos ft) xs end)
           (if uncaught ns then Some E_LOCKED else option_map f_exc f), true).
Proof.
  intros. unfold attempt. rewrite run_nested_locked.
  destruct (uncaught ns); [reflexivity|]. destruct f; reflexivity.
Qed.

Lemma rec_of_spec : forall ns xs pl i,
  rec_of ns xs pl i =
    mkRec (Z.of_nat i + 1) (refusals ns)
          (if uncaught ns then [] else match nth i pl None with None => xs | Some ft => seen_of (f_pos ft) xs end)
          (att_exc ns pl i).
Proof. intros. unfold rec_of, att_exc. rewrite attempt_locked. reflexivity. Qed.

Lemma rec_of_no : forall ns xs pl i, a_no (rec_of ns xs pl i) = Z.of_nat i + 1.
Proof. intros; rewrite rec_of_spec; reflexivity. Qed.
Lemma rec_of_out : forall ns xs pl i, a_out (rec_of ns xs pl i) = att_exc ns pl i.
Proof. intros; rewrite rec_of_spec; reflexivity. Qed.
Lemma rec_of_nest : forall ns xs pl i, Forall (fun o => o = 0) (a_nest (rec_of ns xs pl i)).
Proof. intros; rewrite rec_of_spec; apply refusals_all_zero. Qed.

Lemma seen_of_prefix : forall pos xs, exists n, seen_of pos xs = firstn n xs.
Proof.
  intros. unfold seen_of. destruct (pos =? 0); [exists 0%nat; reflexivity|].
  destruct (pos =? 1); [eexists; reflexivity|]. exists (length xs). symmetry; apply firstn_all.
Qed.

(* every attempt starts from the first element of the partition *)
Lemma rec_of_from_scratch : forall ns xs pl i, exists n, a_seen (rec_of ns xs pl i) = firstn n xs.
Proof.
  intros. rewrite rec_of_spec. cbn [a_seen]. destruct (uncaught ns); [exists 0%nat; reflexivity|].
  destruct (nth i pl None); [apply seen_of_prefix|]. exists (length xs). symmetry; apply firstn_all.
Qed.

Lemma rec_of_success_all : forall ns xs pl i, att_exc ns pl i = None -> a_seen (rec_of ns xs pl i) = xs.
Proof.
  intros ns xs pl i H. rewrite rec_of_spec. cbn [a_seen]. unfold att_exc in H.
  destruct (uncaught ns); [discriminate|]. destruct (nth i pl None); [discriminate|reflexivity].
Qed.

(* ---------- _run_task under the lock *)
Definition rec_at (ns : list nop) (xs : list Z) (pl : plan) (a0 : Z) (i : nat) : arec :=
  fst (attempt true ns xs (nth i pl None) (a0 + Z.of_nat i + 1)).

Lemma rec_at_shift : forall ns xs pl a0 i, rec_at ns xs (tl pl) (a0 + 1) i = rec_at ns xs pl a0 (S i).
Proof.
  intros. unfold rec_at. f_equal. f_equal.
  - destruct pl; [destruct i; reflexivity|reflexivity].
  - lia.
Qed.

Lemma att_exc_tl : forall ns pl i, att_exc ns (tl pl) i = att_exc ns pl (S i).
Proof. intros. unfold att_exc. destruct (uncaught ns); [reflexivity|]. destruct pl; [destruct i|]; reflexivity. Qed.

Lemma rec_at_out : forall ns xs pl a0 i, a_out (rec_at ns xs pl a0 i) = att_exc ns pl i.
Proof. intros. unfold rec_at, att_exc. rewrite attempt_locked. reflexivity. Qed.

Lemma map_seq_S : forall {A} (f : nat -> A) n, map f (seq 0 (S n)) = f 0%nat :: map (fun i => f (S i)) (seq 0 n).
Proof. intros. cbn [seq map]. f_equal. rewrite <- seq_shift, map_map. reflexivity. Qed.

Lemma run_task_success_gen : forall k fuel maxr ns xs pl a0,
  0 <= a0 -> a0 + Z.of_nat k < maxr -> (k < fuel)%nat ->
  (forall i, (i < k)%nat -> att_exc ns pl i <> None) -> att_exc ns pl k = None ->
  run_task fuel maxr true ns xs pl a0 = (TOk xs, map (rec_at ns xs pl a0) (seq 0 (S k)), true).
Proof.
  induction k as [|k IH]; intros fuel maxr ns xs pl a0 Ha Hm Hf Hfail Hok.
  - destruct fuel as [|fuel]; [lia|]. cbn [run_task].
    rewrite attempt_next_spec.
    assert (E : attempt true ns xs (hd None pl) (a0 + 1) = (rec_at ns xs pl a0 0, true)).
    { unfold rec_at. rewrite !attempt_locked. cbn [fst]. replace (a0 + Z.of_nat 0 + 1) with (a0 + 1) by lia.
      destruct pl; reflexivity. }
    rewrite E. pose proof (rec_at_out ns xs pl a0 0) as Ho. rewrite Hok in Ho. rewrite Ho.
    cbn [seq map]. f_equal. f_equal. f_equal.
    unfold rec_at. rewrite attempt_locked. cbn [fst a_seen]. unfold att_exc in Hok.
    destruct (uncaught ns); [discriminate|]. destruct (nth 0 pl None); [discriminate|reflexivity].
  - destruct fuel as [|fuel]; [lia|]. cbn [run_task].
    rewrite attempt_next_spec.
    assert (E : attempt true ns xs (hd None pl) (a0 + 1) = (rec_at ns xs pl a0 0, true)).
    { unfold rec_at. rewrite !attempt_locked. cbn [fst]. replace (a0 + Z.of_nat 0 + 1) with (a0 + 1) by lia.
      destruct pl; reflexivity. }
    rewrite E. pose proof (rec_at_out ns xs pl a0 0) as Ho.
    destruct (att_exc ns pl 0) as [e|] eqn:He; [|exfalso; apply (Hfail 0%nat); [lia|exact He]].
    rewrite Ho. rewrite retry_stop_spec by lia. rewrite retry_reraise_false.
    replace (a0 + 1 =? maxr) with false by (symmetry; apply Z.eqb_neq; lia). cbn [andb].
    rewrite (IH fuel maxr ns xs (tl pl) (a0 + 1)); try lia.
    + rewrite (map_seq_S (rec_at ns xs pl a0) (S k)). f_equal. f_equal. f_equal.
      apply map_ext. intros i. apply rec_at_shift.
    + intros i Hi. rewrite att_exc_tl. apply Hfail. lia.
    + rewrite att_exc_tl. exact Hok.
Qed.

Lemma run_task_exhausted_gen : forall n fuel maxr ns xs pl a0 e,
  0 <= a0 -> a0 + Z.of_nat n = maxr -> (1 <= n)%nat -> (n <= fuel)%nat ->
  (forall i, (i < n)%nat -> att_exc ns pl i <> None) -> att_exc ns pl (n - 1) = Some e ->
  run_task fuel maxr true ns xs pl a0 = (TErr e maxr, map (rec_at ns xs pl a0) (seq 0 n), true).
Proof.
  induction n as [|n IH]; intros fuel maxr ns xs pl a0 e Ha Hm Hn Hf Hfail Hlast; [lia|].
  destruct fuel as [|fuel]; [lia|]. cbn [run_task]. rewrite attempt_next_spec.
  assert (E : attempt true ns xs (hd None pl) (a0 + 1) = (rec_at ns xs pl a0 0, true)).
  { unfold rec_at. rewrite !attempt_locked. cbn [fst]. replace (a0 + Z.of_nat 0 + 1) with (a0 + 1) by lia.
    destruct pl; reflexivity. }
  rewrite E. pose proof (rec_at_out ns xs pl a0 0) as Ho.
  destruct (att_exc ns pl 0) as [e0|] eqn:He; [|exfalso; apply (Hfail 0%nat); [lia|exact He]].
  rewrite Ho. rewrite retry_stop_spec by lia. rewrite retry_reraise_false.
  destruct n as [|n].
  - replace (a0 + 1 =? maxr) with true by (symmetry; apply Z.eqb_eq; lia). cbn [andb].
    cbn [Nat.sub] in Hlast. rewrite He in Hlast. inversion Hlast; subst e0.
    replace (a0 + 1) with maxr by lia. reflexivity.
  - replace (a0 + 1 =? maxr) with false by (symmetry; apply Z.eqb_neq; lia). cbn [andb].
    rewrite (IH fuel maxr ns xs (tl pl) (a0 + 1) e); try lia.
    + rewrite (map_seq_S (rec_at ns xs pl a0) (S n)). f_equal. f_equal. f_equal.
      apply map_ext. intros i. apply rec_at_shift.
    + intros i Hi. rewrite att_exc_tl. apply Hfail. lia.
    + rewrite att_exc_tl. replace (S (S n - 1)) with (S (S n) - 1)%nat by lia. exact Hlast.
Qed.

Lemma rec_at_0 : forall ns xs pl i, rec_at ns xs pl 0 i = rec_of ns xs pl i.
Proof. intros. unfold rec_at, rec_of. reflexivity. Qed.


Lemma retry_success : forall maxr fuel ns xs pl k,
  Z.of_nat k < maxr -> (k < fuel)%nat ->
  (forall i, (i < k)%nat -> att_exc ns pl i <> None) -> att_exc ns pl k = None ->
  run_task fuel maxr true ns xs pl 0 = (TOk xs, task_log ns xs pl (S k), true).
Proof.
  intros. rewrite (run_task_success_gen k) by (assumption || lia).
  unfold task_log. rewrite (map_ext _ _ (rec_at_0 ns xs pl)). reflexivity.
Qed.

Lemma retry_exhausted : forall maxr fuel ns xs pl e,
  1 <= maxr -> (Z.to_nat maxr <= fuel)%nat ->
  (forall i, (i < Z.to_nat maxr)%nat -> att_exc ns pl i <> None) ->
  att_exc ns pl (Z.to_nat maxr - 1) = Some e ->
  run_task fuel maxr true ns xs pl 0 = (TErr e maxr, task_log ns xs pl (Z.to_nat maxr), true).
Proof.
  intros. rewrite (run_task_exhausted_gen (Z.to_nat maxr) fuel maxr ns xs pl 0 e) by (assumption || lia).
  unfold task_log. rewrite (map_ext _ _ (rec_at_0 ns xs pl)). reflexivity.
Qed.

(* ---------- deciding which case applies *)
Lemma forallb_seq_false : forall (f : nat -> bool) n s,
  forallb f (seq s n) = false ->
  exists k, (s <= k < s + n)%nat /\ (forall i, (s <= i < k)%nat -> f i = true) /\ f k = false.
Proof.
  induction n as [|n IH]; intros s H; [discriminate|].
  cbn [seq forallb] in H. destruct (f s) eqn:Fs.
  - cbn [andb] in H. destruct (IH (S s) H) as [k [Hk [Hall Hf]]].
    exists k. split; [lia|]. split; [|exact Hf].
    intros i Hi. destruct (Nat.eq_dec i s) as [->|Hne]; [exact Fs|apply Hall; lia].
  - exists s. split; [lia|]. split; [intros; lia|exact Fs].
Qed.

Lemma is_some_true : forall {A} (o : option A), is_some o = true <-> o <> None.
Proof. intros A [a|]; cbn; split; intros; try discriminate; try reflexivity; congruence. Qed.

Lemma exhausts_true : forall maxr p,
  exhausts maxr p = true <-> forall i, (i < Z.to_nat maxr)%nat -> att_exc (p_nest p) (p_plan p) i <> None.
Proof.
  intros. unfold exhausts. rewrite forallb_forall. split.
  - intros H i Hi. apply is_some_true. apply H. apply in_seq. lia.
  - intros H i Hi. apply is_some_true. apply H. apply in_seq in Hi. lia.
Qed.

Lemma exhausts_false : forall maxr p,
  exhausts maxr p = false ->
  exists k, (k < Z.to_nat maxr)%nat /\ (forall i, (i < k)%nat -> att_exc (p_nest p) (p_plan p) i <> None)
            /\ att_exc (p_nest p) (p_plan p) k = None.
Proof.
  intros maxr p H. unfold exhausts in H. apply forallb_seq_false in H.
  destruct H as [k [Hk [Hall Hf]]]. exists k. split; [lia|]. split.
  - intros i Hi. apply is_some_true. apply Hall. lia.
  - destruct (att_exc (p_nest p) (p_plan p) k); [discriminate|reflexivity].
Qed.

Lemma exhausts_last : forall maxr p, 1 <= maxr -> exhausts maxr p = true ->
  exists e, att_exc (p_nest p) (p_plan p) (Z.to_nat maxr - 1) = Some e.
Proof.
  intros maxr p Hm H. rewrite exhausts_true in H. specialize (H (Z.to_nat maxr - 1)%nat).
  destruct (att_exc (p_nest p) (p_plan p) (Z.to_nat maxr - 1)) as [e|]; [exists e; reflexivity|].
  exfalso. apply H; [lia|reflexivity].
Qed.


Lemma task_ok : forall maxr j p, 1 <= maxr -> exhausts maxr p = false ->
  exists log, run_task (Z.to_nat maxr) maxr true (p_nest p) (stage_in j p) (p_plan p) 0
              = (TOk (stage_in j p), log, true) /\ task_log_ok maxr j p log.
Proof.
  intros maxr j p Hm H. destruct (exhausts_false _ _ H) as [k [Hk [Hfail Hok]]].
  eexists. split.
  - apply (retry_success maxr (Z.to_nat maxr) _ _ _ k); try assumption; lia.
  - exists (S k). split; [reflexivity|]. split; [lia|]. split; [lia|]. split.
    + intros i Hi. apply Hfail. lia.
    + left. replace (S k - 1)%nat with k by lia. exact Hok.
Qed.

Lemma task_err : forall maxr j p e, 1 <= maxr -> exhausts maxr p = true ->
  att_exc (p_nest p) (p_plan p) (Z.to_nat maxr - 1) = Some e ->
  run_task (Z.to_nat maxr) maxr true (p_nest p) (stage_in j p) (p_plan p) 0
    = (TErr e maxr, task_log (p_nest p) (stage_in j p) (p_plan p) (Z.to_nat maxr), true)
  /\ task_log_ok maxr j p (task_log (p_nest p) (stage_in j p) (p_plan p) (Z.to_nat maxr)).
Proof.
  intros maxr j p e Hm H He. rewrite exhausts_true in H. split.
  - apply retry_exhausted; try assumption; lia.
  - exists (Z.to_nat maxr). split; [reflexivity|]. split; [lia|]. split; [lia|]. split.
    + intros i Hi. apply H. lia.
    + right. lia.
Qed.

(* ---------- the tasks of one job, run while the job lock is held *)

Lemma tasks_local_ok : forall ps maxr j idx, 1 <= maxr -> all_ok maxr ps = true ->
  exists logs, tasks_local (Z.to_nat maxr) maxr true j idx ps = (KOk (map (stage_in j) ps), logs, true)
               /\ Forall2 (task_log_ok maxr j) ps logs.
Proof.
  induction ps as [|p rest IH]; intros maxr j idx Hm Hall.
  - exists []. split; [reflexivity|constructor].
  - cbn [all_ok forallb] in Hall. apply andb_prop in Hall. destruct Hall as [Hp Hrest].
    apply negb_true_iff in Hp. destruct (task_ok maxr j p Hm Hp) as [log [Erun Hlog]].
    destruct (IH maxr j (idx + 1) Hm Hrest) as [logs [Etasks Hlogs]].
    exists (log :: logs). split; [|constructor; assumption].
    cbn [tasks_local]. rewrite Erun, Etasks. reflexivity.
Qed.

Lemma tasks_local_err : forall pre maxr j idx p post e, 1 <= maxr ->
  all_ok maxr pre = true -> exhausts maxr p = true ->
  att_exc (p_nest p) (p_plan p) (Z.to_nat maxr - 1) = Some e ->
  exists logs, tasks_local (Z.to_nat maxr) maxr true j idx (pre ++ p :: post)
               = (KErr e (idx + Z.of_nat (length pre)) maxr,
                  logs ++ task_log (p_nest p) (stage_in j p) (p_plan p) (Z.to_nat maxr) :: no_logs post, true)
               /\ Forall2 (task_log_ok maxr j) pre logs.
Proof.
  induction pre as [|q pre IH]; intros maxr j idx p post e Hm Hall Hp He.
  - exists []. split; [|constructor].
    cbn [app tasks_local]. destruct (task_err maxr j p e Hm Hp He) as [Erun _]. rewrite Erun.
    cbn [length]. replace (idx + Z.of_nat 0) with idx by lia. reflexivity.
  - cbn [all_ok forallb] in Hall. apply andb_prop in Hall. destruct Hall as [Hq Hrest].
    apply negb_true_iff in Hq. destruct (task_ok maxr j q Hm Hq) as [log [Erun Hlog]].
    destruct (IH maxr j (idx + 1) p post e Hm Hrest Hp He) as [logs [Etasks Hlogs]].
    exists (log :: logs). split; [|constructor; assumption].
    cbn [app tasks_local]. rewrite Erun, Etasks. cbn [length app].
    replace (idx + 1 + Z.of_nat (length pre)) with (idx + Z.of_nat (S (length pre))) by lia. reflexivity.
Qed.

Lemma tasks_pooled_logs : forall ps maxr j idx, 1 <= maxr ->
  exists r logs, tasks_pooled (Z.to_nat maxr) maxr true j idx ps = (r, logs, true)
                 /\ Forall2 (task_log_ok maxr j) ps logs.
Proof.
  induction ps as [|p rest IH]; intros maxr j idx Hm.
  - exists (KOk []), []. split; [reflexivity|constructor].
  - destruct (IH maxr j (idx + 1) Hm) as [r [logs [Etasks Hlogs]]].
    destruct (exhausts maxr p) eqn:Hp.
    + destruct (exhausts_last maxr p Hm Hp) as [e He].
      destruct (task_err maxr j p e Hm Hp He) as [Erun Hlog].
      eexists; eexists. split; [cbn [tasks_pooled]; rewrite Erun, Etasks; reflexivity|].
      constructor; assumption.
    + destruct (task_ok maxr j p Hm Hp) as [log [Erun Hlog]].
      eexists; eexists. split; [cbn [tasks_pooled]; rewrite Erun, Etasks; reflexivity|].
      constructor; assumption.
Qed.

Lemma tasks_pooled_ok : forall ps maxr j idx, 1 <= maxr -> all_ok maxr ps = true ->
  exists logs, tasks_pooled (Z.to_nat maxr) maxr true j idx ps = (KOk (map (stage_in j) ps), logs, true)
               /\ Forall2 (task_log_ok maxr j) ps logs.
Proof.
  induction ps as [|p rest IH]; intros maxr j idx Hm Hall.
  - exists []. split; [reflexivity|constructor].
  - cbn [all_ok forallb] in Hall. apply andb_prop in Hall. destruct Hall as [Hp Hrest].
    apply negb_true_iff in Hp. destruct (task_ok maxr j p Hm Hp) as [log [Erun Hlog]].
    destruct (IH maxr j (idx + 1) Hm Hrest) as [logs [Etasks Hlogs]].
    exists (log :: logs). split; [|constructor; assumption].
    cbn [tasks_pooled]. rewrite Erun, Etasks. reflexivity.
Qed.

Lemma tasks_pooled_err : forall pre maxr j idx p post e, 1 <= maxr ->
  all_ok maxr pre = true -> exhausts maxr p = true ->
  att_exc (p_nest p) (p_plan p) (Z.to_nat maxr - 1) = Some e ->
  exists logs, tasks_pooled (Z.to_nat maxr) maxr true j idx (pre ++ p :: post)
               = (KErr e (idx + Z.of_nat (length pre)) maxr, logs, true)
               /\ Forall2 (task_log_ok maxr j) (pre ++ p :: post) logs.
Proof.
  induction pre as [|q pre IH]; intros maxr j idx p post e Hm Hall Hp He.
  - destruct (task_err maxr j p e Hm Hp He) as [Erun Hlog].
    destruct (tasks_pooled_logs post maxr j (idx + 1) Hm) as [r [logs [Etasks Hlogs]]].
    eexists. split; [|constructor; eassumption].
    cbn [app tasks_pooled]. rewrite Erun, Etasks.
    cbn [length]. replace (idx + Z.of_nat 0) with idx by lia. reflexivity.
  - cbn [all_ok forallb] in Hall. apply andb_prop in Hall. destruct Hall as [Hq Hrest].
    apply negb_true_iff in Hq. destruct (task_ok maxr j q Hm Hq) as [log [Erun Hlog]].
    destruct (IH maxr j (idx + 1) p post e Hm Hrest Hp He) as [logs [Etasks Hlogs]].
    exists (log :: logs). split; [|constructor; assumption].
    cbn [app tasks_pooled]. rewrite Erun, Etasks. cbn [length].
    replace (idx + 1 + Z.of_nat (length pre)) with (idx + Z.of_nat (S (length pre))) by lia. reflexivity.
Qed.

(* ---------- Context.runJob *)

Lemma run_job_unlocked : forall mode maxr j,
  run_job mode maxr false j =
    (let '(r, logs, _) := tasks_of mode (Z.to_nat maxr) maxr true j 0 (j_parts j) in
     (mkOut (finish j r) logs, false)).
Proof.
  intros. unfold run_job. rewrite rdd_init_refused_spec, job_refused_spec, lock_on_entry_true.
  destruct (tasks_of mode (Z.to_nat maxr) maxr true j 0 (j_parts j)) as [[r logs] lk].
  rewrite lock_after_ok_false, lock_after_error_false. destruct r; reflexivity.
Qed.

Lemma run_job_locked : forall mode maxr j,
  run_job mode maxr true j = (mkOut JRefused (no_logs (j_parts j)), true).
Proof. intros. unfold run_job. rewrite rdd_init_refused_spec. reflexivity. Qed.

Lemma lock_released : forall mode maxr j, snd (run_job mode maxr false j) = false.
Proof.
  intros. rewrite run_job_unlocked.
  destruct (tasks_of mode (Z.to_nat maxr) maxr true j 0 (j_parts j)) as [[r logs] lk]. reflexivity.
Qed.

Lemma plain_parts_spec : forall j, map (map (fn (j_post j))) (map (stage_in j) (j_parts j)) = plain_parts j.
Proof. intros. unfold plain_parts. rewrite map_map. reflexivity. Qed.

Lemma tasks_of_ok : forall mode ps maxr j idx, 1 <= maxr -> all_ok maxr ps = true ->
  exists logs, tasks_of mode (Z.to_nat maxr) maxr true j idx ps = (KOk (map (stage_in j) ps), logs, true)
               /\ Forall2 (task_log_ok maxr j) ps logs.
Proof. intros mode. unfold tasks_of. destruct (mode =? 0); [apply tasks_local_ok|apply tasks_pooled_ok]. Qed.


Lemma Forall2_nth_mid : forall {A B} (R : A -> B -> Prop) pre x post l d,
  Forall2 R (pre ++ x :: post) l -> R x (nth (length pre) l d).
Proof.
  induction pre as [|a pre IH]; intros x post l d H.
  - inversion H; subst. exact H2.
  - inversion H; subst. cbn. eapply IH. eassumption.
Qed.

Lemma task_log_ok_exhausted : forall maxr j p log, 1 <= maxr -> exhausts maxr p = true ->
  task_log_ok maxr j p log -> log = task_log (p_nest p) (stage_in j p) (p_plan p) (Z.to_nat maxr).
Proof.
  intros maxr j p log Hm Hp [n [E [Hn [Hle [Hfail Hlast]]]]].
  rewrite exhausts_true in Hp. destruct Hlast as [Hnone|Heq].
  - exfalso. apply (Hp (n - 1)%nat); [lia|exact Hnone].
  - subst log. f_equal. lia.
Qed.

Lemma tasks_of_err : forall mode pre maxr j p post e, 1 <= maxr ->
  all_ok maxr pre = true -> exhausts maxr p = true ->
  att_exc (p_nest p) (p_plan p) (Z.to_nat maxr - 1) = Some e ->
  exists logs, tasks_of mode (Z.to_nat maxr) maxr true j 0 (pre ++ p :: post)
               = (KErr e (Z.of_nat (length pre)) maxr, logs, true)
               /\ logs_ok mode maxr j pre p post logs.
Proof.
  intros mode pre maxr j p post e Hm Hall Hp He. unfold tasks_of, logs_ok. destruct (mode =? 0).
  - destruct (tasks_local_err pre maxr j 0 p post e Hm Hall Hp He) as [lpre [E H]].
    eexists. split; [exact E|]. exists lpre. split; [reflexivity|exact H].
  - destruct (tasks_pooled_err pre maxr j 0 p post e Hm Hall Hp He) as [logs [E H]].
    exists logs. split; [exact E|]. split; [exact H|].
    apply (task_log_ok_exhausted maxr j p); try assumption.
    eapply Forall2_nth_mid. exact H.
Qed.

(* ---------- job-level statements *)
Lemma job_ok : forall mode maxr j, 1 <= maxr -> all_ok maxr (j_parts j) = true ->
  exists logs, run_job mode maxr false j = (mkOut (JOk (plain_result j)) logs, false)
               /\ Forall2 (task_log_ok maxr j) (j_parts j) logs.
Proof.
  intros mode maxr j Hm Hall. rewrite run_job_unlocked.
  destruct (tasks_of_ok mode (j_parts j) maxr j 0 Hm Hall) as [logs [E H]].
  exists logs. rewrite E. split; [|exact H]. cbn [finish]. rewrite plain_parts_spec. reflexivity.
Qed.

Lemma job_err : forall mode maxr j pre p post e, 1 <= maxr ->
  j_parts j = pre ++ p :: post -> all_ok maxr pre = true -> exhausts maxr p = true ->
  att_exc (p_nest p) (p_plan p) (Z.to_nat maxr - 1) = Some e ->
  exists logs, run_job mode maxr false j = (mkOut (JErr e (Z.of_nat (length pre)) maxr) logs, false)
               /\ logs_ok mode maxr j pre p post logs.
Proof.
  intros mode maxr j pre p post e Hm Hsplit Hall Hp He. rewrite run_job_unlocked, Hsplit.
  destruct (tasks_of_err mode pre maxr j p post e Hm Hall Hp He) as [logs [E H]].
  exists logs. rewrite E. split; [reflexivity|exact H].
Qed.

Lemma all_ok_split : forall maxr ps, all_ok maxr ps = false ->
  exists pre p post, ps = pre ++ p :: post /\ all_ok maxr pre = true /\ exhausts maxr p = true.
Proof.
  induction ps as [|q ps IH]; intros H; [discriminate|].
  cbn [all_ok forallb] in H. destruct (exhausts maxr q) eqn:Hq.
  - exists [], q, ps. split; [reflexivity|]. split; [reflexivity|exact Hq].
  - cbn [negb andb] in H. destruct (IH H) as [pre [p [post [E [Hpre Hp]]]]].
    exists (q :: pre), p, post. split; [rewrite E; reflexivity|]. split; [|exact Hp].
    cbn [all_ok forallb]. rewrite Hq. exact Hpre.
Qed.

Lemma job_result_iff : forall mode maxr j, 1 <= maxr ->
  ((exists v, o_res (fst (run_job mode maxr false j)) = JOk v) <-> all_ok maxr (j_parts j) = true)
  /\ (forall v, o_res (fst (run_job mode maxr false j)) = JOk v -> v = plain_result j).
Proof.
  intros mode maxr j Hm. destruct (all_ok maxr (j_parts j)) eqn:Hall.
  - destruct (job_ok mode maxr j Hm Hall) as [logs [E _]]. rewrite E. cbn [fst o_res]. split.
    + split; [reflexivity|]. intros _. eexists; reflexivity.
    + intros v Hv. inversion Hv. reflexivity.
  - destruct (all_ok_split _ _ Hall) as [pre [p [post [Es [Hpre Hp]]]]].
    destruct (exhausts_last maxr p Hm Hp) as [e He].
    destruct (job_err mode maxr j pre p post e Hm Es Hpre Hp He) as [logs [E _]]. rewrite E. cbn [fst o_res].
    split; [split; [intros [v Hv]; discriminate|discriminate]|intros v Hv; discriminate].
Qed.

(* nested operations: every one recorded in any log of a job is a refusal *)

Lemma task_log_nested : forall ns xs pl n, Forall (fun r => Forall (fun o => o = 0) (a_nest r)) (task_log ns xs pl n).
Proof.
  intros. unfold task_log. apply Forall_forall. intros r Hr. apply in_map_iff in Hr.
  destruct Hr as [i [<- _]]. apply rec_of_nest.
Qed.

Lemma task_log_ok_nested : forall maxr j ps logs, Forall2 (task_log_ok maxr j) ps logs -> nested_all_refused logs.
Proof.
  intros maxr j ps logs H. induction H as [|p log ps logs Hlog _ IH]; [constructor|].
  constructor; [|exact IH]. destruct Hlog as [n [-> _]]. apply task_log_nested.
Qed.

Lemma no_logs_nested : forall ps, nested_all_refused (no_logs ps).
Proof. induction ps; constructor; [constructor|assumption]. Qed.

Lemma nested_refused : forall mode maxr j, 1 <= maxr ->
  nested_all_refused (o_logs (fst (run_job mode maxr false j))).
Proof.
  intros mode maxr j Hm. destruct (all_ok maxr (j_parts j)) eqn:Hall.
  - destruct (job_ok mode maxr j Hm Hall) as [logs [E H]]. rewrite E. cbn [fst o_logs].
    eapply task_log_ok_nested; eassumption.
  - destruct (all_ok_split _ _ Hall) as [pre [p [post [Es [Hpre Hp]]]]].
    destruct (exhausts_last maxr p Hm Hp) as [e He].
    destruct (job_err mode maxr j pre p post e Hm Es Hpre Hp He) as [logs [E H]]. rewrite E. cbn [fst o_logs].
    unfold logs_ok in H. destruct (mode =? 0).
    + destruct H as [lpre [-> H]]. unfold nested_all_refused. apply Forall_app. split.
      * eapply task_log_ok_nested; eassumption.
      * constructor; [apply task_log_nested|apply no_logs_nested].
    + destruct H as [H _]. eapply task_log_ok_nested; eassumption.
Qed.

(* a propagating refusal is an ordinary task failure: the job ends with ContextIsLockedException
   after max_retries attempts of that partition *)
Lemma uncaught_exhausts : forall maxr p, uncaught (p_nest p) = true -> exhausts maxr p = true.
Proof.
  intros maxr p H. apply exhausts_true. intros i _. unfold att_exc. rewrite H. discriminate.
Qed.

Lemma uncaught_att_exc : forall ns pl i, uncaught ns = true -> att_exc ns pl i = Some E_LOCKED.
Proof. intros ns pl i H. unfold att_exc. rewrite H. reflexivity. Qed.

(* ---------- the lazily evaluated actions *)
Lemma run_task_ok_output : forall fuel maxr lk ns xs pl a0 ys log lk',
  run_task fuel maxr lk ns xs pl a0 = (TOk ys, log, lk') -> ys = xs.
Proof.
  induction fuel as [|fuel IH]; intros maxr lk ns xs pl a0 ys log lk' H; [discriminate|].
  cbn [run_task] in H.
  destruct (attempt lk ns xs (hd None pl) (attempt_next a0)) as [r lk1] eqn:Ea.
  destruct (a_out r) as [e|] eqn:Eo.
  - destruct (retry_stop (attempt_next a0) maxr && retry_reraise false); [discriminate|].
    destruct (run_task fuel maxr lk1 ns xs (tl pl) (attempt_next a0)) as [[t l] lk2] eqn:Er.
    inversion H; subst. eapply IH. exact Er.
  - inversion H; subst. unfold attempt in Ea.
    destruct (run_nested lk ns) as [[o raised] lk0]. destruct raised.
    + inversion Ea; subst. discriminate.
    + destruct (hd None pl); inversion Ea; subst; [discriminate|reflexivity].
Qed.

Lemma firstn_prefix_app : forall {A} n (l1 l2 : list A), (n <= length l1)%nat -> firstn n (l1 ++ l2) = firstn n l1.
Proof.
  intros. rewrite firstn_app. replace (n - length l1)%nat with 0%nat by lia. cbn. apply app_nil_r.
Qed.

Lemma firstn_over_app : forall {A} n (l1 l2 : list A), (length l1 <= n)%nat ->
  firstn n (l1 ++ l2) = l1 ++ firstn (n - length l1) l2.
Proof. intros. rewrite firstn_app. rewrite firstn_all2 by assumption. reflexivity. Qed.

Lemma seen_of_firstn : forall pos xs n, (n <= length (seen_of pos xs))%nat -> firstn n (seen_of pos xs) = firstn n xs.
Proof.
  intros pos xs n H. destruct (seen_of_prefix pos xs) as [m E]. rewrite E in *.
  rewrite firstn_firstn. rewrite firstn_length in H. f_equal. lia.
Qed.

(* the fault-free stream the result handler would see *)
Definition lazy_stream (j : job) (ps : list part) : list Z := concat (map (stage_in j) ps).

Definition lazy_post (maxr : Z) (j : job) (need : nat) (ps : list part) (r : lres) : Prop :=
  match r with
  | LOk got => got = firstn need (lazy_stream j ps)
  | LErr e i a => if j_eager j then a = maxr else a = 1
  | LFuel => False
  end.

Lemma no_logs_short : forall ps, Forall (fun l : list arec => (length l <= 1)%nat) (no_logs ps).
Proof. induction ps; constructor; [cbn; lia|assumption]. Qed.

Lemma lazy_tasks_spec : forall maxr j, 1 <= maxr -> forall ps idx need,
  exists r logs, lazy_tasks (Z.to_nat maxr) maxr true j idx need ps = (r, logs, true)
    /\ nested_all_refused logs
    /\ (j_eager j = false -> Forall (fun l => (length l <= 1)%nat) logs)
    /\ lazy_post maxr j need ps r.
Proof.
  intros maxr j Hm. induction ps as [|p rest IH]; intros idx need.
  - exists (LOk []), []. split; [reflexivity|]. split; [constructor|]. split; [constructor|].
    cbn. destruct need; reflexivity.
  - destruct need as [|need'].
    { exists (LOk []), (no_logs (p :: rest)). split; [reflexivity|]. split; [apply no_logs_nested|].
      split; [intros _; apply no_logs_short|reflexivity]. }
    cbn [lazy_tasks]. destruct (j_eager j) eqn:Eager.
    + (* eager task function: ordinary retry while the partition is computed *)
      destruct (exhausts maxr p) eqn:Hp.
      * destruct (exhausts_last maxr p Hm Hp) as [e He].
        destruct (task_err maxr j p e Hm Hp He) as [Erun Hlog]. rewrite Erun.
        eexists; eexists. split; [reflexivity|]. split.
        { constructor; [apply task_log_nested|apply no_logs_nested]. }
        split; [discriminate|]. cbn. rewrite Eager. reflexivity.
      * destruct (task_ok maxr j p Hm Hp) as [log [Erun Hlog]]. rewrite Erun.
        destruct (S need' <=? length (stage_in j p))%nat eqn:Hle.
        { apply Nat.leb_le in Hle. eexists; eexists. split; [reflexivity|]. split.
          { constructor; [destruct Hlog as [n [-> _]]; apply task_log_nested|apply no_logs_nested]. }
          split; [discriminate|]. cbn [lazy_post lazy_stream map concat].
          symmetry. apply firstn_prefix_app. exact Hle. }
        { apply Nat.leb_gt in Hle.
          destruct (IH (idx + 1) (S need' - length (stage_in j p))%nat) as [r [logs [E [Hn [_ Hpost]]]]].
          rewrite E. eexists; eexists. split; [reflexivity|]. split.
          { constructor; [destruct Hlog as [n [-> _]]; apply task_log_nested|exact Hn]. }
          split; [discriminate|].
          destruct r as [got|e i a|]; cbn [lcons lazy_post] in *; [|exact Hpost|exact Hpost].
          subst got. cbn [lazy_stream map concat]. symmetry. apply firstn_over_app. lia. }
    + (* generator task function: it only runs when the result handler pulls from it *)
      rewrite run_nested_locked. destruct (uncaught (p_nest p)) eqn:Hu.
      * eexists; eexists. split; [reflexivity|]. split.
        { constructor; [|apply no_logs_nested]. constructor; [|constructor]. cbn. apply refusals_all_zero. }
        split; [intros _; constructor; [cbn; lia|apply no_logs_short]|]. cbn. rewrite Eager. reflexivity.
      * destruct (hd None (p_plan p)) as [ft|] eqn:Hf.
        { destruct (S need' <=? length (seen_of (f_pos ft) (stage_in j p)))%nat eqn:Hle.
          - apply Nat.leb_le in Hle. eexists; eexists. split; [reflexivity|]. split.
            { constructor; [|apply no_logs_nested]. constructor; [|constructor]. cbn. apply refusals_all_zero. }
            split; [intros _; constructor; [cbn; lia|apply no_logs_short]|].
            cbn [lazy_post lazy_stream map concat]. rewrite seen_of_firstn by exact Hle.
            symmetry. apply firstn_prefix_app.
            destruct (seen_of_prefix (f_pos ft) (stage_in j p)) as [m Em]. rewrite Em, firstn_length in Hle. lia.
          - eexists; eexists. split; [reflexivity|]. split.
            { constructor; [|apply no_logs_nested]. constructor; [|constructor]. cbn. apply refusals_all_zero. }
            split; [intros _; constructor; [cbn; lia|apply no_logs_short]|]. cbn. rewrite Eager. reflexivity. }
        { destruct (S need' <=? length (stage_in j p))%nat eqn:Hle.
          - apply Nat.leb_le in Hle. eexists; eexists. split; [reflexivity|]. split.
            { constructor; [|apply no_logs_nested]. constructor; [|constructor]. cbn. apply refusals_all_zero. }
            split; [intros _; constructor; [cbn; lia|apply no_logs_short]|].
            cbn [lazy_post lazy_stream map concat]. symmetry. apply firstn_prefix_app. exact Hle.
          - apply Nat.leb_gt in Hle.
            destruct (IH (idx + 1) (S need' - length (stage_in j p))%nat) as [r [logs [E [Hn [Hs Hpost]]]]].
            rewrite E. eexists; eexists. split; [reflexivity|]. split.
            { constructor; [|exact Hn]. constructor; [|constructor]. cbn. apply refusals_all_zero. }
            split; [intros _; constructor; [cbn; lia|apply Hs; reflexivity]|].
            destruct r as [got|e i a|]; cbn [lcons lazy_post] in *; [|exact Hpost|exact Hpost].
            subst got. cbn [lazy_stream map concat]. symmetry. apply firstn_over_app. lia. }
Qed.

(* what take / first / isEmpty return on the fault-free stream *)
Definition lazy_plain_result (j : job) : jres :=
  lazy_finish j (LOk (firstn (lazy_need (j_action j)) (lazy_stream j (j_parts j)))).

Lemma run_lazy_unlocked : forall maxr j,
  run_lazy_job maxr false j =
    (let '(r, logs, _) := lazy_tasks (Z.to_nat maxr) maxr true j 0 (lazy_need (j_action j)) (j_parts j) in
     (mkOut (lazy_finish j r) logs, false)).
Proof.
  intros. unfold run_lazy_job. rewrite rdd_init_refused_spec, job_refused_spec, lock_on_entry_true.
  destruct (lazy_tasks (Z.to_nat maxr) maxr true j 0 (lazy_need (j_action j)) (j_parts j)) as [[r logs] lk].
  rewrite lock_after_ok_false, lock_after_error_false. destruct (lazy_finish j r); reflexivity.
Qed.

Lemma lazy_lock_released : forall maxr j, snd (run_lazy_job maxr false j) = false.
Proof.
  intros. rewrite run_lazy_unlocked.
  destruct (lazy_tasks (Z.to_nat maxr) maxr true j 0 (lazy_need (j_action j)) (j_parts j)) as [[r logs] lk].
  reflexivity.
Qed.

Lemma lazy_actions : forall maxr j, 1 <= maxr ->
  let o := fst (run_lazy_job maxr false j) in
  (o_res o = lazy_plain_result j
   \/ exists e i a, o_res o = JErr e i a /\ (if j_eager j then a = maxr else a = 1))
  /\ (j_eager j = false -> Forall (fun l => (length l <= 1)%nat) (o_logs o))
  /\ nested_all_refused (o_logs o).
Proof.
  intros maxr j Hm. cbv zeta. rewrite run_lazy_unlocked.
  destruct (lazy_tasks_spec maxr j Hm (j_parts j) 0 (lazy_need (j_action j))) as [r [logs [E [Hn [Hs Hpost]]]]].
  rewrite E. cbn [fst o_res o_logs]. split; [|split; assumption].
  destruct r as [got|e i a|]; cbn [lazy_post] in Hpost.
  - left. subst got. reflexivity.
  - right. exists e, i, a. split; [reflexivity|exact Hpost].
  - contradiction.
Qed.

(* ---------- sequences of jobs on one context *)
Lemma any_lock_released : forall mode maxr j, snd (run_any mode maxr false j) = false.
Proof. intros. unfold run_any. destruct (is_lazy (j_action j)); [apply lazy_lock_released|apply lock_released]. Qed.

Lemma any_refused_while_locked : forall mode maxr j,
  run_any mode maxr true j = (mkOut JRefused (no_logs (j_parts j)), true).
Proof.
  intros. unfold run_any. destruct (is_lazy (j_action j)); [|apply run_job_locked].
  unfold run_lazy_job. rewrite rdd_init_refused_spec. reflexivity.
Qed.

Lemma usable_after : forall mode maxr js,
  run_jobs mode maxr false js = (map (fun j => fst (run_any mode maxr false j)) js, false).
Proof.
  induction js as [|j js IH]; [reflexivity|].
  cbn [run_jobs map]. pose proof (any_lock_released mode maxr j) as Hl.
  destruct (run_any mode maxr false j) as [o lk]. cbn [snd] in Hl. subst lk.
  rewrite IH. reflexivity.
Qed.

(* the outcome of a job does not depend on the jobs that ran before it on the same context *)
Lemma usable_after_history : forall mode maxr history j d,
  nth (length history) (fst (run_jobs mode maxr false (history ++ [j]))) d = fst (run_any mode maxr false j).
Proof.
  intros. rewrite usable_after. cbn [fst]. rewrite map_app. cbn [map].
  rewrite <- (map_length (fun j0 => fst (run_any mode maxr false j0)) history).
  apply nth_middle.
Qed.

Lemma followup_correct : forall mode maxr history j, 1 <= maxr ->
  is_lazy (j_action j) = false -> all_ok maxr (j_parts j) = true ->
  o_res (nth (length history) (fst (run_jobs mode maxr false (history ++ [j]))) (mkOut JFuel [])) = JOk (plain_result j).
Proof.
  intros mode maxr history j Hm Hstrict Hall. rewrite usable_after_history.
  unfold run_any. rewrite Hstrict.
  destruct (job_ok mode maxr j Hm Hall) as [logs [E _]]. rewrite E. reflexivity.
Qed.

(* with max_retries >= 1 the fuel handed to the tasks is never used up and the driver is never refused *)
Lemma job_total : forall mode maxr j, 1 <= maxr ->
  o_res (fst (run_job mode maxr false j)) = JOk (plain_result j)
  \/ exists e i, o_res (fst (run_job mode maxr false j)) = JErr e i maxr.
Proof.
  intros mode maxr j Hm. destruct (all_ok maxr (j_parts j)) eqn:Hall.
  - left. destruct (job_ok mode maxr j Hm Hall) as [logs [E _]]. rewrite E. reflexivity.
  - right. destruct (all_ok_split _ _ Hall) as [pre [p [post [Es [Hpre Hp]]]]].
    destruct (exhausts_last maxr p Hm Hp) as [e He].
    destruct (job_err mode maxr j pre p post e Hm Es Hpre Hp He) as [logs [E _]]. rewrite E.
    eexists; eexists; reflexivity.
Qed.

(* ---------- packaged statements used by Properties/C04.v *)
Lemma lock_tests_spec : forall b, job_refused b = b /\ rdd_init_refused b = b.
Proof. intros; split; [apply job_refused_spec|apply rdd_init_refused_spec]. Qed.

Lemma lock_protocol_spec : lock_on_entry = true /\ lock_after_ok = false /\ lock_after_error = false.
Proof. repeat split. Qed.

Lemma attempt_from_scratch : forall ns xs pl i,
  a_no (rec_of ns xs pl i) = Z.of_nat i + 1 /\
  a_out (rec_of ns xs pl i) = att_exc ns pl i /\
  (exists n, a_seen (rec_of ns xs pl i) = firstn n xs) /\
  (att_exc ns pl i = None -> a_seen (rec_of ns xs pl i) = xs) /\
  a_nest (rec_of ns xs pl i) = refusals ns /\ Forall (fun o => o = 0) (refusals ns).
Proof.
  intros. split; [apply rec_of_no|]. split; [apply rec_of_out|]. split; [apply rec_of_from_scratch|].
  split; [apply rec_of_success_all|]. split; [rewrite rec_of_spec; reflexivity|apply refusals_all_zero].
Qed.

Lemma nested_uncaught_surfaces : forall mode maxr j pre p post, 1 <= maxr ->
  j_parts j = pre ++ p :: post -> all_ok maxr pre = true -> uncaught (p_nest p) = true ->
  exists logs, run_job mode maxr false j = (mkOut (JErr E_LOCKED (Z.of_nat (length pre)) maxr) logs, false).
Proof.
  intros mode maxr j pre p post Hm Es Hpre Hu.
  destruct (job_err mode maxr j pre p post E_LOCKED Hm Es Hpre (uncaught_exhausts maxr p Hu)
                    (uncaught_att_exc _ _ _ Hu)) as [logs [E _]].
  exists logs. exact E.
Qed.

(* ---------- the whole property for every job of every sequence *)
Lemma run_job_spec : forall mode maxr j, 1 <= maxr -> job_spec mode maxr j (fst (run_job mode maxr false j)).
Proof.
  intros mode maxr j Hm. split; [|split].
  - intros Hall. destruct (job_ok mode maxr j Hm Hall) as [logs [E _]]. rewrite E. reflexivity.
  - intros pre p post e Es Hpre Hp He.
    destruct (job_err mode maxr j pre p post e Hm Es Hpre Hp He) as [logs [E H]]. rewrite E. split; [reflexivity|exact H].
  - apply nested_refused. exact Hm.
Qed.

Lemma sequence_spec : forall mode maxr js, 1 <= maxr ->
  let outs := fst (run_jobs mode maxr false js) in
  length outs = length js /\ snd (run_jobs mode maxr false js) = false /\
  forall k j, nth_error js k = Some j -> is_lazy (j_action j) = false ->
    exists o, nth_error outs k = Some o /\ job_spec mode maxr j o.
Proof.
  intros mode maxr js Hm. cbv zeta. rewrite usable_after. cbn [fst snd].
  split; [apply map_length|]. split; [reflexivity|].
  intros k j Hk Hstrict. exists (fst (run_any mode maxr false j)). split.
  - rewrite nth_error_map, Hk. reflexivity.
  - unfold run_any. rewrite Hstrict. apply run_job_spec. exact Hm.
Qed.
