(* Lemmas about PV.Model.Retry (property C04). *)
From Coq Require Import String ZArith List Bool Lia.
Require Import PV.Base.Val PV.Gen.Retry PV.Model.Retry.
Import ListNotations.
Open Scope Z_scope.

(* ---------- link lemmas: what the development needs from the regenerated kernels *)
Ltac kernel_cases :=
  repeat match goal with
         | |- context [?x =? ?y] => destruct (Z.eqb_spec x y)
         | |- context [?x <=? ?y] => destruct (Z.leb_spec x y)
         | |- context [?x <? ?y] => destruct (Z.ltb_spec x y)
         | |- context [?x >=? ?y] => rewrite (Z.geb_leb x y)
         | |- context [?x >? ?y] => rewrite (Z.gtb_ltb x y)
         end; simpl; try reflexivity; try lia.

Lemma attempt_next_spec : forall a, attempt_next a = a + 1.
Proof. intros; unfold attempt_next; kernel_cases. Qed.

Lemma retry_stop_spec : forall a m, 0 < a <= m -> retry_stop a m = (a =? m).
Proof. intros a m H; unfold retry_stop; kernel_cases. Qed.

Lemma retry_reraise_false : retry_reraise false = true.
Proof. reflexivity. Qed.

Lemma job_refused_spec : forall b, job_refused b = b.
Proof. destruct b; reflexivity. Qed.

Lemma rdd_init_refused_spec : forall b, rdd_init_refused b = b.
Proof. destruct b; reflexivity. Qed.

Lemma lock_on_entry_true : lock_on_entry = true.
Proof. reflexivity. Qed.
Lemma lock_after_ok_false : lock_after_ok = false.
Proof. reflexivity. Qed.
Lemma lock_after_error_false : lock_after_error = false.
Proof. reflexivity. Qed.

(* ---------- nested operations: refused while the lock is held, accepted while it is free; the flag is
   the same afterwards in both cases *)
Lemma nested_step_spec : forall held n, nested_step held n = (negb held, held).
Proof.
  intros held [k c]; unfold nested_step; simpl; destruct k;
    rewrite ?rdd_init_refused_spec, ?job_refused_spec, ?lock_after_ok_false; destruct held; reflexivity.
Qed.

Lemma run_nested_spec : forall held ns,
  run_nested held ns = (nest_outcomes held ns, held && uncaught ns, held).
Proof.
  intros held. induction ns as [|n rest IH].
  - cbn. destruct held; reflexivity.
  - cbn [run_nested]. rewrite nested_step_spec. destruct held; cbn [negb andb nest_outcomes] in *.
    + unfold uncaught; cbn [existsb refusals]. destruct (n_caught n); cbn [negb orb].
      * rewrite IH. reflexivity.
      * reflexivity.
    + rewrite IH. reflexivity.
Qed.

Lemma refusals_all_zero : forall ns, Forall (fun o => o = 0) (refusals ns).
Proof.
  induction ns as [|n rest IH]; cbn; [constructor|].
  constructor; [reflexivity|]. destruct (n_caught n); [exact IH|constructor].
Qed.

Lemma refusals_caught : forall ns, uncaught ns = false -> refusals ns = map (fun _ => 0) ns.
Proof.
  induction ns as [|n rest IH]; [reflexivity|].
  unfold uncaught; cbn [existsb refusals map]. intros H.
  apply orb_false_elim in H. destruct H as [H1 H2].
  destruct (n_caught n); [|discriminate]. f_equal. apply IH. exact H2.
Qed.

(* ---------- one attempt *)
Lemma attempt_spec : forall held ns xs f a,
  attempt held ns xs f a =
    (mkRec a (nest_outcomes held ns)
           (if held && uncaught ns then [] else match f with None => xs | Some ft => seen_of (f_pos ft) xs end)
           (if held && uncaught ns then Some E_LOCKED else option_map f_exc f), held).
Proof.
  intros. unfold attempt. rewrite run_nested_spec.
  destruct (held && uncaught ns); [reflexivity|]. destruct f; reflexivity.
Qed.

Lemma rec_of_spec : forall held ns xs pl i,
  rec_of held ns xs pl i =
    mkRec (Z.of_nat i + 1) (nest_outcomes held ns)
          (if held && uncaught ns then [] else match nth i pl None with None => xs | Some ft => seen_of (f_pos ft) xs end)
          (att_exc held ns pl i).
Proof. intros. unfold rec_of, att_exc. rewrite attempt_spec. reflexivity. Qed.

Lemma rec_of_no : forall held ns xs pl i, a_no (rec_of held ns xs pl i) = Z.of_nat i + 1.
Proof. intros; rewrite rec_of_spec; reflexivity. Qed.
Lemma rec_of_out : forall held ns xs pl i, a_out (rec_of held ns xs pl i) = att_exc held ns pl i.
Proof. intros; rewrite rec_of_spec; reflexivity. Qed.
Lemma rec_of_nest : forall ns xs pl i, Forall (fun o => o = 0) (a_nest (rec_of true ns xs pl i)).
Proof. intros; rewrite rec_of_spec; apply refusals_all_zero. Qed.

Lemma seen_of_prefix : forall pos xs, exists n, seen_of pos xs = firstn n xs.
Proof.
  intros. unfold seen_of. destruct (pos =? 0); [exists 0%nat; reflexivity|].
  destruct (pos =? 1); [eexists; reflexivity|]. exists (length xs). symmetry; apply firstn_all.
Qed.

(* every attempt starts from the first element of the partition *)
Lemma rec_of_from_scratch : forall held ns xs pl i, exists n, a_seen (rec_of held ns xs pl i) = firstn n xs.
Proof.
  intros. rewrite rec_of_spec. cbn [a_seen]. destruct (held && uncaught ns); [exists 0%nat; reflexivity|].
  destruct (nth i pl None); [apply seen_of_prefix|]. exists (length xs). symmetry; apply firstn_all.
Qed.

Lemma rec_of_success_all : forall held ns xs pl i,
  att_exc held ns pl i = None -> a_seen (rec_of held ns xs pl i) = xs.
Proof.
  intros held ns xs pl i H. rewrite rec_of_spec. cbn [a_seen]. unfold att_exc in H.
  destruct (held && uncaught ns); [discriminate|]. destruct (nth i pl None); [discriminate|reflexivity].
Qed.

(* ---------- _run_task *)
Definition rec_at (held : bool) (ns : list nop) (xs : list Z) (pl : plan) (a0 : Z) (i : nat) : arec :=
  fst (attempt held ns xs (nth i pl None) (a0 + Z.of_nat i + 1)).

Lemma rec_at_shift : forall held ns xs pl a0 i,
  rec_at held ns xs (tl pl) (a0 + 1) i = rec_at held ns xs pl a0 (S i).
Proof.
  intros. unfold rec_at. f_equal. f_equal.
  - destruct pl; [destruct i; reflexivity|reflexivity].
  - lia.
Qed.

Lemma att_exc_tl : forall held ns pl i, att_exc held ns (tl pl) i = att_exc held ns pl (S i).
Proof.
  intros. unfold att_exc. destruct (held && uncaught ns); [reflexivity|].
  destruct pl; [destruct i|]; reflexivity.
Qed.

Lemma rec_at_out : forall held ns xs pl a0 i, a_out (rec_at held ns xs pl a0 i) = att_exc held ns pl i.
Proof. intros. unfold rec_at, att_exc. rewrite attempt_spec. reflexivity. Qed.

Lemma map_seq_S : forall {A} (f : nat -> A) n, map f (seq 0 (S n)) = f 0%nat :: map (fun i => f (S i)) (seq 0 n).
Proof. intros. cbn [seq map]. f_equal. rewrite <- seq_shift, map_map. reflexivity. Qed.

Lemma attempt_hd : forall held ns xs pl a0,
  attempt held ns xs (hd None pl) (a0 + 1) = (rec_at held ns xs pl a0 0, held).
Proof.
  intros. unfold rec_at. rewrite !attempt_spec. cbn [fst]. replace (a0 + Z.of_nat 0 + 1) with (a0 + 1) by lia.
  destruct pl; reflexivity.
Qed.

Lemma run_task_success_gen : forall k fuel maxr held ns xs pl a0,
  0 <= a0 -> a0 + Z.of_nat k < maxr -> (k < fuel)%nat ->
  (forall i, (i < k)%nat -> att_exc held ns pl i <> None) -> att_exc held ns pl k = None ->
  run_task fuel maxr held ns xs pl a0 = (TOk xs, map (rec_at held ns xs pl a0) (seq 0 (S k)), held).
Proof.
  induction k as [|k IH]; intros fuel maxr held ns xs pl a0 Ha Hm Hf Hfail Hok.
  - destruct fuel as [|fuel]; [lia|]. cbn [run_task].
    rewrite attempt_next_spec, attempt_hd.
    pose proof (rec_at_out held ns xs pl a0 0) as Ho. rewrite Hok in Ho. rewrite Ho.
    cbn [seq map]. f_equal. f_equal. f_equal.
    unfold rec_at. rewrite attempt_spec. cbn [fst a_seen]. unfold att_exc in Hok.
    destruct (held && uncaught ns); [discriminate|]. destruct (nth 0 pl None); [discriminate|reflexivity].
  - destruct fuel as [|fuel]; [lia|]. cbn [run_task].
    rewrite attempt_next_spec, attempt_hd.
    pose proof (rec_at_out held ns xs pl a0 0) as Ho.
    destruct (att_exc held ns pl 0) as [e|] eqn:He; [|exfalso; apply (Hfail 0%nat); [lia|exact He]].
    rewrite Ho. rewrite retry_stop_spec by lia. rewrite retry_reraise_false.
    replace (a0 + 1 =? maxr) with false by (symmetry; apply Z.eqb_neq; lia). cbn [andb].
    rewrite (IH fuel maxr held ns xs (tl pl) (a0 + 1)); try lia.
    + rewrite (map_seq_S (rec_at held ns xs pl a0) (S k)). f_equal. f_equal. f_equal.
      apply map_ext. intros i. apply rec_at_shift.
    + intros i Hi. rewrite att_exc_tl. apply Hfail. lia.
    + rewrite att_exc_tl. exact Hok.
Qed.

Lemma run_task_exhausted_gen : forall n fuel maxr held ns xs pl a0 e,
  0 <= a0 -> a0 + Z.of_nat n = maxr -> (1 <= n)%nat -> (n <= fuel)%nat ->
  (forall i, (i < n)%nat -> att_exc held ns pl i <> None) -> att_exc held ns pl (n - 1) = Some e ->
  run_task fuel maxr held ns xs pl a0 = (TErr e maxr, map (rec_at held ns xs pl a0) (seq 0 n), held).
Proof.
  induction n as [|n IH]; intros fuel maxr held ns xs pl a0 e Ha Hm Hn Hf Hfail Hlast; [lia|].
  destruct fuel as [|fuel]; [lia|]. cbn [run_task]. rewrite attempt_next_spec, attempt_hd.
  pose proof (rec_at_out held ns xs pl a0 0) as Ho.
  destruct (att_exc held ns pl 0) as [e0|] eqn:He; [|exfalso; apply (Hfail 0%nat); [lia|exact He]].
  rewrite Ho. rewrite retry_stop_spec by lia. rewrite retry_reraise_false.
  destruct n as [|n].
  - replace (a0 + 1 =? maxr) with true by (symmetry; apply Z.eqb_eq; lia). cbn [andb].
    cbn [Nat.sub] in Hlast. rewrite He in Hlast. inversion Hlast; subst e0.
    replace (a0 + 1) with maxr by lia. reflexivity.
  - replace (a0 + 1 =? maxr) with false by (symmetry; apply Z.eqb_neq; lia). cbn [andb].
    rewrite (IH fuel maxr held ns xs (tl pl) (a0 + 1) e); try lia.
    + rewrite (map_seq_S (rec_at held ns xs pl a0) (S n)). f_equal. f_equal. f_equal.
      apply map_ext. intros i. apply rec_at_shift.
    + intros i Hi. rewrite att_exc_tl. apply Hfail. lia.
    + rewrite att_exc_tl. replace (S (S n - 1)) with (S (S n) - 1)%nat by lia. exact Hlast.
Qed.

Lemma rec_at_0 : forall held ns xs pl i, rec_at held ns xs pl 0 i = rec_of held ns xs pl i.
Proof. intros. unfold rec_at, rec_of. reflexivity. Qed.

Lemma retry_success : forall maxr fuel held ns xs pl k,
  Z.of_nat k < maxr -> (k < fuel)%nat ->
  (forall i, (i < k)%nat -> att_exc held ns pl i <> None) -> att_exc held ns pl k = None ->
  run_task fuel maxr held ns xs pl 0 = (TOk xs, task_log held ns xs pl (S k), held).
Proof.
  intros. rewrite (run_task_success_gen k) by (assumption || lia).
  unfold task_log. rewrite (map_ext _ _ (rec_at_0 held ns xs pl)). reflexivity.
Qed.

Lemma retry_exhausted : forall maxr fuel held ns xs pl e,
  1 <= maxr -> (Z.to_nat maxr <= fuel)%nat ->
  (forall i, (i < Z.to_nat maxr)%nat -> att_exc held ns pl i <> None) ->
  att_exc held ns pl (Z.to_nat maxr - 1) = Some e ->
  run_task fuel maxr held ns xs pl 0 = (TErr e maxr, task_log held ns xs pl (Z.to_nat maxr), held).
Proof.
  intros. rewrite (run_task_exhausted_gen (Z.to_nat maxr) fuel maxr held ns xs pl 0 e) by (assumption || lia).
  unfold task_log. rewrite (map_ext _ _ (rec_at_0 held ns xs pl)). reflexivity.
Qed.

(* general facts about _run_task, for every fuel and budget *)
Lemma run_task_general : forall fuel maxr held ns xs pl a0 t log lk,
  run_task fuel maxr held ns xs pl a0 = (t, log, lk) ->
  lk = held /\ (forall ys, t = TOk ys -> ys = xs) /\
  (forall r, In r log -> a_out r = None -> a_seen r = xs) /\
  (forall r, In r log -> a_nest r = nest_outcomes held ns).
Proof.
  induction fuel as [|fuel IH]; intros maxr held ns xs pl a0 t log lk H.
  - cbn in H. inversion H; subst. repeat split; intros; try discriminate; contradiction.
  - cbn [run_task] in H. rewrite attempt_spec in H. cbn [a_out a_seen] in H.
    assert (Hfail : forall e seen,
      (if retry_stop (attempt_next a0) maxr && retry_reraise false
       then (TErr e (attempt_next a0), [mkRec (attempt_next a0) (nest_outcomes held ns) seen (Some e)], held)
       else let '(t0, log0, lk2) := run_task fuel maxr held ns xs (tl pl) (attempt_next a0) in
            (t0, mkRec (attempt_next a0) (nest_outcomes held ns) seen (Some e) :: log0, lk2)) = (t, log, lk) ->
      lk = held /\ (forall ys, t = TOk ys -> ys = xs) /\
      (forall r, In r log -> a_out r = None -> a_seen r = xs) /\
      (forall r, In r log -> a_nest r = nest_outcomes held ns)).
    { intros e seen H'. destruct (retry_stop (attempt_next a0) maxr && retry_reraise false).
      - inversion H'; subst. repeat split; intros; try discriminate.
        + destruct H0 as [<-|[]]. discriminate.
        + destruct H0 as [<-|[]]. reflexivity.
      - destruct (run_task fuel maxr held ns xs (tl pl) (attempt_next a0)) as [[t' l'] lk'] eqn:Er.
        inversion H'; subst. destruct (IH _ _ _ _ _ _ _ _ _ Er) as [Hl [Ht [Hs Hn]]].
        repeat split; try assumption.
        + intros r [<-|Hin] Hout; [discriminate|apply Hs; assumption].
        + intros r [<-|Hin]; [reflexivity|apply Hn; assumption]. }
    destruct (held && uncaught ns).
    + eapply Hfail. exact H.
    + destruct (hd None pl) as [ft|]; cbn [option_map] in H.
      * eapply Hfail. exact H.
      * inversion H; subst. repeat split.
        { intros ys Hy. inversion Hy. reflexivity. }
        { intros r [<-|[]] _. reflexivity. }
        { intros r [<-|[]]. reflexivity. }
Qed.

(* ---------- deciding which case applies *)
Lemma forallb_seq_false : forall (f : nat -> bool) n s,
  forallb f (seq s n) = false ->
  exists k, (s <= k < s + n)%nat /\ (forall i, (s <= i < k)%nat -> f i = true) /\ f k = false.
Proof.
  induction n as [|n IH]; intros s H; [discriminate|].
  cbn [seq forallb] in H. destruct (f s) eqn:Fs.
  - cbn [andb] in H. destruct (IH (S s) H) as [k [Hk [Hall Hf]]].
    exists k. split; [lia|]. split; [|exact Hf].
    intros i Hi. destruct (Nat.eq_dec i s) as [->|Hne]; [exact Fs|apply Hall; lia].
  - exists s. split; [lia|]. split; [intros; lia|exact Fs].
Qed.

Lemma is_some_true : forall {A} (o : option A), is_some o = true <-> o <> None.
Proof. intros A [a|]; cbn; split; intros; try discriminate; try reflexivity; congruence. Qed.

Definition plan_exhausts (held : bool) (maxr : Z) (p : part) : bool :=
  forallb (fun i => is_some (att_exc held (p_nest p) (p_plan p) i)) (seq 0 (Z.to_nat maxr)).

Lemma exhausts_uncached : forall held maxr j p, cached j p = None -> exhausts held maxr j p = plan_exhausts held maxr p.
Proof. intros held maxr j p H. unfold exhausts. rewrite H. reflexivity. Qed.

Lemma exhausts_cached : forall held maxr j p c, cached j p = Some c -> exhausts held maxr j p = false.
Proof. intros held maxr j p c H. unfold exhausts. rewrite H. reflexivity. Qed.

Lemma plan_exhausts_true : forall held maxr p,
  plan_exhausts held maxr p = true <-> forall i, (i < Z.to_nat maxr)%nat -> att_exc held (p_nest p) (p_plan p) i <> None.
Proof.
  intros. unfold plan_exhausts. rewrite forallb_forall. split.
  - intros H i Hi. apply is_some_true. apply H. apply in_seq. lia.
  - intros H i Hi. apply is_some_true. apply H. apply in_seq in Hi. lia.
Qed.

Lemma plan_exhausts_false : forall held maxr p,
  plan_exhausts held maxr p = false ->
  exists k, (k < Z.to_nat maxr)%nat /\ (forall i, (i < k)%nat -> att_exc held (p_nest p) (p_plan p) i <> None)
            /\ att_exc held (p_nest p) (p_plan p) k = None.
Proof.
  intros held maxr p H. unfold plan_exhausts in H. apply forallb_seq_false in H.
  destruct H as [k [Hk [Hall Hf]]]. exists k. split; [lia|]. split.
  - intros i Hi. apply is_some_true. apply Hall. lia.
  - destruct (att_exc held (p_nest p) (p_plan p) k); [discriminate|reflexivity].
Qed.

Lemma exhausts_true_inv : forall held maxr j p, exhausts held maxr j p = true ->
  cached j p = None /\ forall i, (i < Z.to_nat maxr)%nat -> att_exc held (p_nest p) (p_plan p) i <> None.
Proof.
  intros held maxr j p H. unfold exhausts in H. destruct (cached j p) eqn:Ec; [discriminate|].
  split; [reflexivity|]. apply plan_exhausts_true. exact H.
Qed.

Lemma exhausts_last : forall held maxr j p, 1 <= maxr -> exhausts held maxr j p = true ->
  exists e, att_exc held (p_nest p) (p_plan p) (Z.to_nat maxr - 1) = Some e.
Proof.
  intros held maxr j p Hm H. destruct (exhausts_true_inv _ _ _ _ H) as [_ H'].
  specialize (H' (Z.to_nat maxr - 1)%nat).
  destruct (att_exc held (p_nest p) (p_plan p) (Z.to_nat maxr - 1)) as [e|]; [exists e; reflexivity|].
  exfalso. apply H'; [lia|reflexivity].
Qed.

(* what the task of a partition hands downstream when it succeeds *)
Definition task_out (j : job) (p : part) : list Z :=
  match cached j p with Some c => c | None => stage_in j p end.

Lemma task_ok : forall held maxr j p, 1 <= maxr -> exhausts held maxr j p = false ->
  exists log, part_task (Z.to_nat maxr) maxr held j p = (TOk (task_out j p), log, held)
              /\ task_log_ok held maxr j p log.
Proof.
  intros held maxr j p Hm H. unfold part_task, task_out, task_log_ok. destruct (cached j p) as [c|] eqn:Ec.
  - exists []. split; reflexivity.
  - rewrite (exhausts_uncached _ _ _ _ Ec) in H.
    destruct (plan_exhausts_false _ _ _ H) as [k [Hk [Hfail Hok]]].
    eexists. split.
    + apply (retry_success maxr (Z.to_nat maxr) _ _ _ _ k); try assumption; lia.
    + exists (S k). split; [reflexivity|]. split; [lia|]. split; [lia|]. split.
      * intros i Hi. apply Hfail. lia.
      * left. replace (S k - 1)%nat with k by lia. exact Hok.
Qed.

Lemma task_err : forall held maxr j p e, 1 <= maxr -> exhausts held maxr j p = true ->
  att_exc held (p_nest p) (p_plan p) (Z.to_nat maxr - 1) = Some e ->
  part_task (Z.to_nat maxr) maxr held j p
    = (TErr e maxr, task_log held (p_nest p) (stage_in j p) (p_plan p) (Z.to_nat maxr), held)
  /\ task_log_ok held maxr j p (task_log held (p_nest p) (stage_in j p) (p_plan p) (Z.to_nat maxr)).
Proof.
  intros held maxr j p e Hm H He. destruct (exhausts_true_inv _ _ _ _ H) as [Ec H'].
  unfold part_task, task_log_ok. rewrite Ec. split.
  - apply retry_exhausted; try assumption; lia.
  - exists (Z.to_nat maxr). split; [reflexivity|]. split; [lia|]. split; [lia|]. split.
    + intros i Hi. apply H'. lia.
    + right. lia.
Qed.

Lemma part_task_general : forall fuel maxr held j p t log lk,
  part_task fuel maxr held j p = (t, log, lk) ->
  lk = held /\
  (forall r, In r log -> a_out r = None -> a_seen r = stage_in j p) /\
  (forall r, In r log -> a_nest r = nest_outcomes held (p_nest p)).
Proof.
  intros fuel maxr held j p t log lk H. unfold part_task in H. destruct (cached j p).
  - inversion H; subst. repeat split; intros; contradiction.
  - destruct (run_task_general _ _ _ _ _ _ _ _ _ _ H) as [Hl [_ [Hs Hn]]]. repeat split; assumption.
Qed.

(* ---------- the tasks of one job *)
Lemma tasks_local_ok : forall ps held maxr j idx, 1 <= maxr -> all_ok held maxr j ps = true ->
  exists logs, tasks_local (Z.to_nat maxr) maxr held j idx ps = (KOk (map (task_out j) ps), logs, held)
               /\ Forall2 (task_log_ok held maxr j) ps logs.
Proof.
  induction ps as [|p rest IH]; intros held maxr j idx Hm Hall.
  - exists []. split; [reflexivity|constructor].
  - cbn [all_ok forallb] in Hall. apply andb_prop in Hall. destruct Hall as [Hp Hrest].
    apply negb_true_iff in Hp. destruct (task_ok held maxr j p Hm Hp) as [log [Erun Hlog]].
    destruct (IH held maxr j (idx + 1) Hm Hrest) as [logs [Etasks Hlogs]].
    exists (log :: logs). split; [|constructor; assumption].
    cbn [tasks_local]. rewrite Erun, Etasks. reflexivity.
Qed.

Lemma tasks_local_err : forall pre held maxr j idx p post e, 1 <= maxr ->
  all_ok held maxr j pre = true -> exhausts held maxr j p = true ->
  att_exc held (p_nest p) (p_plan p) (Z.to_nat maxr - 1) = Some e ->
  exists logs, tasks_local (Z.to_nat maxr) maxr held j idx (pre ++ p :: post)
               = (KErr e (idx + Z.of_nat (length pre)) maxr,
                  logs ++ task_log held (p_nest p) (stage_in j p) (p_plan p) (Z.to_nat maxr) :: no_logs post, held)
               /\ Forall2 (task_log_ok held maxr j) pre logs.
Proof.
  induction pre as [|q pre IH]; intros held maxr j idx p post e Hm Hall Hp He.
  - exists []. split; [|constructor].
    cbn [app tasks_local]. destruct (task_err held maxr j p e Hm Hp He) as [Erun _]. rewrite Erun.
    cbn [length]. replace (idx + Z.of_nat 0) with idx by lia. reflexivity.
  - cbn [all_ok forallb] in Hall. apply andb_prop in Hall. destruct Hall as [Hq Hrest].
    apply negb_true_iff in Hq. destruct (task_ok held maxr j q Hm Hq) as [log [Erun Hlog]].
    destruct (IH held maxr j (idx + 1) p post e Hm Hrest Hp He) as [logs [Etasks Hlogs]].
    exists (log :: logs). split; [|constructor; assumption].
    cbn [app tasks_local]. rewrite Erun, Etasks. cbn [length app].
    replace (idx + 1 + Z.of_nat (length pre)) with (idx + Z.of_nat (S (length pre))) by lia. reflexivity.
Qed.

Lemma tasks_pooled_logs : forall ps held maxr j idx, 1 <= maxr ->
  exists r logs, tasks_pooled (Z.to_nat maxr) maxr held j idx ps = (r, logs, held)
                 /\ Forall2 (task_log_ok held maxr j) ps logs.
Proof.
  induction ps as [|p rest IH]; intros held maxr j idx Hm.
  - exists (KOk []), []. split; [reflexivity|constructor].
  - destruct (IH held maxr j (idx + 1) Hm) as [r [logs [Etasks Hlogs]]].
    destruct (exhausts held maxr j p) eqn:Hp.
    + destruct (exhausts_last held maxr j p Hm Hp) as [e He].
      destruct (task_err held maxr j p e Hm Hp He) as [Erun Hlog].
      eexists; eexists. split; [cbn [tasks_pooled]; rewrite Erun, Etasks; reflexivity|].
      constructor; assumption.
    + destruct (task_ok held maxr j p Hm Hp) as [log [Erun Hlog]].
      eexists; eexists. split; [cbn [tasks_pooled]; rewrite Erun, Etasks; reflexivity|].
      constructor; assumption.
Qed.

Lemma tasks_pooled_ok : forall ps held maxr j idx, 1 <= maxr -> all_ok held maxr j ps = true ->
  exists logs, tasks_pooled (Z.to_nat maxr) maxr held j idx ps = (KOk (map (task_out j) ps), logs, held)
               /\ Forall2 (task_log_ok held maxr j) ps logs.
Proof.
  induction ps as [|p rest IH]; intros held maxr j idx Hm Hall.
  - exists []. split; [reflexivity|constructor].
  - cbn [all_ok forallb] in Hall. apply andb_prop in Hall. destruct Hall as [Hp Hrest].
    apply negb_true_iff in Hp. destruct (task_ok held maxr j p Hm Hp) as [log [Erun Hlog]].
    destruct (IH held maxr j (idx + 1) Hm Hrest) as [logs [Etasks Hlogs]].
    exists (log :: logs). split; [|constructor; assumption].
    cbn [tasks_pooled]. rewrite Erun, Etasks. reflexivity.
Qed.

Lemma tasks_pooled_err : forall pre held maxr j idx p post e, 1 <= maxr ->
  all_ok held maxr j pre = true -> exhausts held maxr j p = true ->
  att_exc held (p_nest p) (p_plan p) (Z.to_nat maxr - 1) = Some e ->
  exists logs, tasks_pooled (Z.to_nat maxr) maxr held j idx (pre ++ p :: post)
               = (KErr e (idx + Z.of_nat (length pre)) maxr, logs, held)
               /\ Forall2 (task_log_ok held maxr j) (pre ++ p :: post) logs.
Proof.
  induction pre as [|q pre IH]; intros held maxr j idx p post e Hm Hall Hp He.
  - destruct (task_err held maxr j p e Hm Hp He) as [Erun Hlog].
    destruct (tasks_pooled_logs post held maxr j (idx + 1) Hm) as [r [logs [Etasks Hlogs]]].
    eexists. split; [|constructor; eassumption].
    cbn [app tasks_pooled]. rewrite Erun, Etasks.
    cbn [length]. replace (idx + Z.of_nat 0) with idx by lia. reflexivity.
  - cbn [all_ok forallb] in Hall. apply andb_prop in Hall. destruct Hall as [Hq Hrest].
    apply negb_true_iff in Hq. destruct (task_ok held maxr j q Hm Hq) as [log [Erun Hlog]].
    destruct (IH held maxr j (idx + 1) p post e Hm Hrest Hp He) as [logs [Etasks Hlogs]].
    exists (log :: logs). split; [|constructor; assumption].
    cbn [app tasks_pooled]. rewrite Erun, Etasks. cbn [length].
    replace (idx + 1 + Z.of_nat (length pre)) with (idx + Z.of_nat (S (length pre))) by lia. reflexivity.
Qed.

(* for every fuel and budget: the lock flag is what it was, successful attempts saw the whole partition,
   the nested outcomes are those of the flag *)
Definition log_sound (held : bool) (j : job) (p : part) (log : list arec) : Prop :=
  (forall r, In r log -> a_out r = None -> a_seen r = stage_in j p) /\
  (forall r, In r log -> a_nest r = nest_outcomes held (p_nest p)).

Lemma log_sound_nil : forall held j p, log_sound held j p [].
Proof. intros; split; intros; contradiction. Qed.

Lemma no_logs_sound : forall held j ps, Forall2 (log_sound held j) ps (no_logs ps).
Proof. induction ps; constructor; [apply log_sound_nil|assumption]. Qed.

Lemma tasks_local_general : forall ps fuel maxr held j idx r logs lk,
  tasks_local fuel maxr held j idx ps = (r, logs, lk) -> lk = held /\ Forall2 (log_sound held j) ps logs.
Proof.
  induction ps as [|p rest IH]; intros fuel maxr held j idx r logs lk H.
  - cbn in H. inversion H; subst. split; [reflexivity|constructor].
  - cbn [tasks_local] in H. destruct (part_task fuel maxr held j p) as [[t log] lk1] eqn:Ep.
    destruct (part_task_general _ _ _ _ _ _ _ _ Ep) as [-> [Hs Hn]].
    destruct t.
    + destruct (tasks_local fuel maxr held j (idx + 1) rest) as [[r' logs'] lk2] eqn:Er.
      destruct (IH _ _ _ _ _ _ _ _ Er) as [-> Hl]. inversion H; subst.
      split; [reflexivity|constructor; [split; assumption|exact Hl]].
    + inversion H; subst. split; [reflexivity|constructor; [split; assumption|apply no_logs_sound]].
    + inversion H; subst. split; [reflexivity|constructor; [split; assumption|apply no_logs_sound]].
Qed.

Lemma tasks_pooled_general : forall ps fuel maxr held j idx r logs lk,
  tasks_pooled fuel maxr held j idx ps = (r, logs, lk) -> lk = held /\ Forall2 (log_sound held j) ps logs.
Proof.
  induction ps as [|p rest IH]; intros fuel maxr held j idx r logs lk H.
  - cbn in H. inversion H; subst. split; [reflexivity|constructor].
  - cbn [tasks_pooled] in H. destruct (part_task fuel maxr held j p) as [[t log] lk1] eqn:Ep.
    destruct (part_task_general _ _ _ _ _ _ _ _ Ep) as [-> [Hs Hn]].
    destruct (tasks_pooled fuel maxr held j (idx + 1) rest) as [[r' logs'] lk2] eqn:Er.
    destruct (IH _ _ _ _ _ _ _ _ Er) as [-> Hl]. inversion H; subst.
    split; [reflexivity|constructor; [split; assumption|exact Hl]].
Qed.

Lemma tasks_of_general : forall mode ps fuel maxr held j idx r logs lk,
  tasks_of mode fuel maxr held j idx ps = (r, logs, lk) -> lk = held /\ Forall2 (log_sound held j) ps logs.
Proof. intros mode. unfold tasks_of. destruct (mode =? 0); [apply tasks_local_general|apply tasks_pooled_general]. Qed.

(* ---------- Context.runJob *)
Lemma held_of_spec : forall a, held_of a = negb ((act_class a =? 1) && tli_deferred).
Proof.
  intros. unfold held_of. rewrite lock_after_ok_false, lock_on_entry_true.
  destruct ((act_class a =? 1) && tli_deferred); reflexivity.
Qed.

Lemma run_job_unlocked : forall mode maxr j,
  run_job mode maxr false j =
    (let '(r, logs, _) := tasks_of mode (Z.to_nat maxr) maxr (held_of (j_action j)) j 0 (j_parts j) in
     (mkOut (finish j r) logs, false)).
Proof.
  intros. unfold run_job. rewrite rdd_init_refused_spec, job_refused_spec.
  destruct (tasks_of mode (Z.to_nat maxr) maxr (held_of (j_action j)) j 0 (j_parts j)) as [[r logs] lk] eqn:Et.
  destruct (tasks_of_general _ _ _ _ _ _ _ _ _ _ Et) as [-> _].
  rewrite held_of_spec. destruct ((act_class (j_action j) =? 1) && tli_deferred); cbn [negb].
  - reflexivity.
  - rewrite lock_after_ok_false, lock_after_error_false. destruct r; reflexivity.
Qed.

Lemma run_job_locked : forall mode maxr j,
  run_job mode maxr true j = (mkOut JRefused (no_logs (j_parts j)), true).
Proof. intros. unfold run_job. rewrite rdd_init_refused_spec. reflexivity. Qed.

Lemma lock_released : forall mode maxr j, snd (run_job mode maxr false j) = false.
Proof.
  intros. rewrite run_job_unlocked.
  destruct (tasks_of mode (Z.to_nat maxr) maxr (held_of (j_action j)) j 0 (j_parts j)) as [[r logs] lk]. reflexivity.
Qed.

Lemma task_out_sound : forall j ps,
  Forall (fun p => forall c, p_cache p = Some c -> c = stage_in j p) ps -> map (task_out j) ps = map (stage_in j) ps.
Proof.
  intros j ps H. apply map_ext_in. intros p Hp. rewrite Forall_forall in H. specialize (H p Hp).
  unfold task_out, cached. destruct (persist_above j); [|reflexivity].
  destruct (p_cache p) as [c|]; [apply H; reflexivity|reflexivity].
Qed.

Lemma plain_parts_spec : forall j, map (apply_ops (j_post j)) (map (stage_in j) (j_parts j)) = plain_parts j.
Proof. intros. unfold plain_parts. rewrite map_map. reflexivity. Qed.

Lemma tasks_of_ok : forall mode ps held maxr j idx, 1 <= maxr -> all_ok held maxr j ps = true ->
  exists logs, tasks_of mode (Z.to_nat maxr) maxr held j idx ps = (KOk (map (task_out j) ps), logs, held)
               /\ Forall2 (task_log_ok held maxr j) ps logs.
Proof. intros mode. unfold tasks_of. destruct (mode =? 0); [apply tasks_local_ok|apply tasks_pooled_ok]. Qed.

Lemma Forall2_nth_mid : forall {A B} (R : A -> B -> Prop) pre x post l d,
  Forall2 R (pre ++ x :: post) l -> R x (nth (length pre) l d).
Proof.
  induction pre as [|a pre IH]; intros x post l d H.
  - inversion H; subst. exact H2.
  - inversion H; subst. cbn. eapply IH. eassumption.
Qed.

Lemma task_log_ok_exhausted : forall held maxr j p log, 1 <= maxr -> exhausts held maxr j p = true ->
  task_log_ok held maxr j p log -> log = task_log held (p_nest p) (stage_in j p) (p_plan p) (Z.to_nat maxr).
Proof.
  intros held maxr j p log Hm Hp Hlog. destruct (exhausts_true_inv _ _ _ _ Hp) as [Ec Hp'].
  unfold task_log_ok in Hlog. rewrite Ec in Hlog. destruct Hlog as [n [E [Hn [Hle [Hfail Hlast]]]]].
  destruct Hlast as [Hnone|Heq].
  - exfalso. apply (Hp' (n - 1)%nat); [lia|exact Hnone].
  - subst log. f_equal. lia.
Qed.

Lemma tasks_of_err : forall mode pre held maxr j p post e, 1 <= maxr ->
  all_ok held maxr j pre = true -> exhausts held maxr j p = true ->
  att_exc held (p_nest p) (p_plan p) (Z.to_nat maxr - 1) = Some e ->
  exists logs, tasks_of mode (Z.to_nat maxr) maxr held j 0 (pre ++ p :: post)
               = (KErr e (Z.of_nat (length pre)) maxr, logs, held)
               /\ logs_ok mode held maxr j pre p post logs.
Proof.
  intros mode pre held maxr j p post e Hm Hall Hp He. unfold tasks_of, logs_ok. destruct (mode =? 0).
  - destruct (tasks_local_err pre held maxr j 0 p post e Hm Hall Hp He) as [lpre [E H]].
    eexists. split; [exact E|]. exists lpre. split; [reflexivity|exact H].
  - destruct (tasks_pooled_err pre held maxr j 0 p post e Hm Hall Hp He) as [logs [E H]].
    exists logs. split; [exact E|]. split; [exact H|].
    apply (task_log_ok_exhausted held maxr j p); try assumption.
    eapply Forall2_nth_mid. exact H.
Qed.

(* ---------- job-level statements *)
Lemma job_ok : forall mode maxr j, 1 <= maxr -> cache_sound j ->
  all_ok (held_of (j_action j)) maxr j (j_parts j) = true ->
  exists logs, run_job mode maxr false j = (mkOut (JOk (plain_result j)) logs, false)
               /\ Forall2 (task_log_ok (held_of (j_action j)) maxr j) (j_parts j) logs.
Proof.
  intros mode maxr j Hm Hc Hall. rewrite run_job_unlocked.
  destruct (tasks_of_ok mode (j_parts j) _ maxr j 0 Hm Hall) as [logs [E H]].
  exists logs. rewrite E. split; [|exact H]. cbn [finish].
  rewrite (task_out_sound j (j_parts j) Hc), plain_parts_spec. reflexivity.
Qed.

Lemma job_err : forall mode maxr j pre p post e, 1 <= maxr ->
  j_parts j = pre ++ p :: post -> all_ok (held_of (j_action j)) maxr j pre = true ->
  exhausts (held_of (j_action j)) maxr j p = true ->
  att_exc (held_of (j_action j)) (p_nest p) (p_plan p) (Z.to_nat maxr - 1) = Some e ->
  exists logs, run_job mode maxr false j = (mkOut (JErr e (Z.of_nat (length pre)) maxr) logs, false)
               /\ logs_ok mode (held_of (j_action j)) maxr j pre p post logs.
Proof.
  intros mode maxr j pre p post e Hm Hsplit Hall Hp He. rewrite run_job_unlocked, Hsplit.
  destruct (tasks_of_err mode pre _ maxr j p post e Hm Hall Hp He) as [logs [E H]].
  exists logs. rewrite E. split; [reflexivity|exact H].
Qed.

Lemma all_ok_split : forall held maxr j ps, all_ok held maxr j ps = false ->
  exists pre p post, ps = pre ++ p :: post /\ all_ok held maxr j pre = true /\ exhausts held maxr j p = true.
Proof.
  induction ps as [|q ps IH]; intros H; [discriminate|].
  cbn [all_ok forallb] in H. destruct (exhausts held maxr j q) eqn:Hq.
  - exists [], q, ps. split; [reflexivity|]. split; [reflexivity|exact Hq].
  - cbn [negb andb] in H. destruct (IH H) as [pre [p [post [E [Hpre Hp]]]]].
    exists (q :: pre), p, post. split; [rewrite E; reflexivity|]. split; [|exact Hp].
    cbn [all_ok forallb]. rewrite Hq. exact Hpre.
Qed.

Lemma job_result_iff : forall mode maxr j, 1 <= maxr -> cache_sound j ->
  ((exists v, o_res (fst (run_job mode maxr false j)) = JOk v) <-> all_ok (held_of (j_action j)) maxr j (j_parts j) = true)
  /\ (forall v, o_res (fst (run_job mode maxr false j)) = JOk v -> v = plain_result j).
Proof.
  intros mode maxr j Hm Hc. destruct (all_ok (held_of (j_action j)) maxr j (j_parts j)) eqn:Hall.
  - destruct (job_ok mode maxr j Hm Hc Hall) as [logs [E _]]. rewrite E. cbn [fst o_res]. split.
    + split; [reflexivity|]. intros _. eexists; reflexivity.
    + intros v Hv. inversion Hv. reflexivity.
  - destruct (all_ok_split _ _ _ _ Hall) as [pre [p [post [Es [Hpre Hp]]]]].
    destruct (exhausts_last _ maxr j p Hm Hp) as [e He].
    destruct (job_err mode maxr j pre p post e Hm Es Hpre Hp He) as [logs [E _]]. rewrite E. cbn [fst o_res].
    split; [split; [intros [v Hv]; discriminate|discriminate]|intros v Hv; discriminate].
Qed.

Lemma job_total : forall mode maxr j, 1 <= maxr -> cache_sound j ->
  o_res (fst (run_job mode maxr false j)) = JOk (plain_result j)
  \/ exists e i, o_res (fst (run_job mode maxr false j)) = JErr e i maxr.
Proof.
  intros mode maxr j Hm Hc. destruct (all_ok (held_of (j_action j)) maxr j (j_parts j)) eqn:Hall.
  - left. destruct (job_ok mode maxr j Hm Hc Hall) as [logs [E _]]. rewrite E. reflexivity.
  - right. destruct (all_ok_split _ _ _ _ Hall) as [pre [p [post [Es [Hpre Hp]]]]].
    destruct (exhausts_last _ maxr j p Hm Hp) as [e He].
    destruct (job_err mode maxr j pre p post e Hm Es Hpre Hp He) as [logs [E _]]. rewrite E.
    eexists; eexists; reflexivity.
Qed.

(* nested operations: what the logs of any job record for them is decided by the lock flag the tasks see *)
Definition nested_all_accepted (logs : list (list arec)) : Prop :=
  Forall (Forall (fun r => Forall (fun o => o = 1) (a_nest r))) logs.

Lemma log_sound_refused : forall j ps logs, Forall2 (log_sound true j) ps logs -> nested_all_refused logs.
Proof.
  intros j ps logs H. induction H as [|p log ps logs [_ Hn] _ IH]; [constructor|].
  constructor; [|exact IH]. apply Forall_forall. intros r Hr. rewrite (Hn r Hr). apply refusals_all_zero.
Qed.

Lemma log_sound_accepted : forall j ps logs, Forall2 (log_sound false j) ps logs -> nested_all_accepted logs.
Proof.
  intros j ps logs H. induction H as [|p log ps logs [_ Hn] _ IH]; [constructor|].
  constructor; [|exact IH]. apply Forall_forall. intros r Hr. rewrite (Hn r Hr).
  cbn. apply Forall_forall. intros o Ho. apply in_map_iff in Ho. destruct Ho as [_ [<- _]]. reflexivity.
Qed.

Lemma job_logs_sound : forall mode maxr j,
  Forall2 (log_sound (held_of (j_action j)) j) (j_parts j) (o_logs (fst (run_job mode maxr false j))).
Proof.
  intros. rewrite run_job_unlocked.
  destruct (tasks_of mode (Z.to_nat maxr) maxr (held_of (j_action j)) j 0 (j_parts j)) as [[r logs] lk] eqn:Et.
  destruct (tasks_of_general _ _ _ _ _ _ _ _ _ _ Et) as [_ H]. exact H.
Qed.

Lemma nested_refused : forall mode maxr j, held_of (j_action j) = true ->
  nested_all_refused (o_logs (fst (run_job mode maxr false j))).
Proof.
  intros mode maxr j Hh. pose proof (job_logs_sound mode maxr j) as H. rewrite Hh in H.
  eapply log_sound_refused. exact H.
Qed.

Lemma nested_accepted_after_lock : forall mode maxr j, held_of (j_action j) = false ->
  nested_all_accepted (o_logs (fst (run_job mode maxr false j))).
Proof.
  intros mode maxr j Hh. pose proof (job_logs_sound mode maxr j) as H. rewrite Hh in H.
  eapply log_sound_accepted. exact H.
Qed.

Lemma held_of_class0 : forall a, act_class a = 0 -> held_of a = true.
Proof. intros a H. rewrite held_of_spec, H. reflexivity. Qed.

(* a propagating refusal is an ordinary task failure *)
Lemma uncaught_exhausts : forall maxr j p, cached j p = None -> uncaught (p_nest p) = true -> exhausts true maxr j p = true.
Proof.
  intros maxr j p Hc H. rewrite (exhausts_uncached _ _ _ _ Hc). apply plan_exhausts_true.
  intros i _. unfold att_exc. rewrite H. discriminate.
Qed.

Lemma uncaught_att_exc : forall ns pl i, uncaught ns = true -> att_exc true ns pl i = Some E_LOCKED.
Proof. intros ns pl i H. unfold att_exc. rewrite H. reflexivity. Qed.

Lemma nested_uncaught_surfaces : forall mode maxr j pre p post, 1 <= maxr -> held_of (j_action j) = true ->
  j_parts j = pre ++ p :: post -> all_ok true maxr j pre = true -> cached j p = None -> uncaught (p_nest p) = true ->
  exists logs, run_job mode maxr false j = (mkOut (JErr E_LOCKED (Z.of_nat (length pre)) maxr) logs, false).
Proof.
  intros mode maxr j pre p post Hm Hh Es Hpre Hc Hu.
  pose proof (job_err mode maxr j pre p post E_LOCKED Hm Es) as H. rewrite Hh in H.
  destruct (H Hpre (uncaught_exhausts maxr j p Hc Hu) (uncaught_att_exc _ _ _ Hu)) as [logs [E _]].
  exists logs. exact E.
Qed.

Lemma run_job_spec : forall mode maxr j, 1 <= maxr -> cache_sound j -> job_spec mode maxr j (fst (run_job mode maxr false j)).
Proof.
  intros mode maxr j Hm Hc. unfold job_spec. cbv zeta. split; [|split].
  - intros Hall. destruct (job_ok mode maxr j Hm Hc Hall) as [logs [E _]]. rewrite E. reflexivity.
  - intros pre p post e Es Hpre Hp He.
    destruct (job_err mode maxr j pre p post e Hm Es Hpre Hp He) as [logs [E H]]. rewrite E. split; [reflexivity|exact H].
  - apply nested_refused.
Qed.

(* ---------- the lazily evaluated actions *)
Lemma firstn_prefix_app : forall {A} n (l1 l2 : list A), (n <= length l1)%nat -> firstn n (l1 ++ l2) = firstn n l1.
Proof.
  intros. rewrite firstn_app. replace (n - length l1)%nat with 0%nat by lia. cbn. apply app_nil_r.
Qed.

Lemma firstn_over_app : forall {A} n (l1 l2 : list A), (length l1 <= n)%nat ->
  firstn n (l1 ++ l2) = l1 ++ firstn (n - length l1) l2.
Proof. intros. rewrite firstn_app. rewrite firstn_all2 by assumption. reflexivity. Qed.

Lemma seen_of_firstn : forall pos xs n, (n <= length (seen_of pos xs))%nat -> firstn n (seen_of pos xs) = firstn n xs.
Proof.
  intros pos xs n H. destruct (seen_of_prefix pos xs) as [m E]. rewrite E in *.
  rewrite firstn_firstn. rewrite firstn_length in H. f_equal. lia.
Qed.

(* the stream of task outputs the result handler pulls from *)
Definition lazy_stream (j : job) (ps : list part) : list Z := concat (map (task_out j) ps).

Definition lazy_post (maxr : Z) (j : job) (need : nat) (ps : list part) (r : lres) : Prop :=
  match r with
  | LOk got => got = firstn need (lazy_stream j ps)
  | LErr e i a => if lazy_eager j then a = maxr else a = 1
  | LFuel => False
  end.

Lemma no_logs_short : forall ps, Forall (fun l : list arec => (length l <= 1)%nat) (no_logs ps).
Proof. induction ps; constructor; [cbn; lia|assumption]. Qed.

Lemma no_logs_nested : forall ps, nested_all_refused (no_logs ps).
Proof. induction ps; constructor; [constructor|assumption]. Qed.

Lemma persist_materialises : forall j, persist_above j = true -> lazy_eager j = true.
Proof.
  intros j H. unfold lazy_eager. apply orb_true_iff. right.
  unfold persist_above in H. apply existsb_exists in H. destruct H as [c [Hin Hc]].
  apply existsb_exists. exists c. split; [exact Hin|].
  unfold op_persist in Hc. unfold op_materialises. apply orb_true_iff in Hc.
  destruct Hc as [Hc|Hc]; rewrite Hc; rewrite ?orb_true_r; reflexivity.
Qed.

Lemma not_eager_uncached : forall j p, lazy_eager j = false -> task_out j p = stage_in j p.
Proof.
  intros j p H. unfold task_out, cached. destruct (persist_above j) eqn:Hp; [|reflexivity].
  rewrite (persist_materialises j Hp) in H. discriminate.
Qed.

Lemma task_log_nested : forall ns xs pl n, Forall (fun r => Forall (fun o => o = 0) (a_nest r)) (task_log true ns xs pl n).
Proof.
  intros. unfold task_log. apply Forall_forall. intros r Hr. apply in_map_iff in Hr.
  destruct Hr as [i [<- _]]. apply rec_of_nest.
Qed.

Lemma task_log_ok_nested_one : forall maxr j p log, task_log_ok true maxr j p log ->
  Forall (fun r => Forall (fun o => o = 0) (a_nest r)) log.
Proof.
  intros maxr j p log H. unfold task_log_ok in H. destruct (cached j p).
  - subst. constructor.
  - destruct H as [n [-> _]]. apply task_log_nested.
Qed.

Lemma lazy_tasks_spec : forall maxr j, 1 <= maxr -> forall ps idx need,
  exists r logs, lazy_tasks (Z.to_nat maxr) maxr true j idx need ps = (r, logs, true)
    /\ nested_all_refused logs
    /\ (lazy_eager j = false -> Forall (fun l => (length l <= 1)%nat) logs)
    /\ lazy_post maxr j need ps r.
Proof.
  intros maxr j Hm. induction ps as [|p rest IH]; intros idx need.
  - exists (LOk []), []. split; [reflexivity|]. split; [constructor|]. split; [constructor|].
    cbn. destruct need; reflexivity.
  - destruct need as [|need'].
    { exists (LOk []), (no_logs (p :: rest)). split; [reflexivity|]. split; [apply no_logs_nested|].
      split; [intros _; apply no_logs_short|reflexivity]. }
    cbn [lazy_tasks]. destruct (lazy_eager j) eqn:Eager.
    + (* the injected stage runs while the partition is computed: ordinary retry *)
      destruct (exhausts true maxr j p) eqn:Hp.
      * destruct (exhausts_last true maxr j p Hm Hp) as [e He].
        destruct (task_err true maxr j p e Hm Hp He) as [Erun Hlog]. rewrite Erun.
        eexists; eexists. split; [reflexivity|]. split.
        { constructor; [apply task_log_nested|apply no_logs_nested]. }
        split; [discriminate|]. cbn. rewrite Eager. reflexivity.
      * destruct (task_ok true maxr j p Hm Hp) as [log [Erun Hlog]]. rewrite Erun.
        destruct (S need' <=? length (task_out j p))%nat eqn:Hle.
        { apply Nat.leb_le in Hle. eexists; eexists. split; [reflexivity|]. split.
          { constructor; [eapply task_log_ok_nested_one; exact Hlog|apply no_logs_nested]. }
          split; [discriminate|]. cbn [lazy_post lazy_stream map concat].
          symmetry. apply firstn_prefix_app. exact Hle. }
        { apply Nat.leb_gt in Hle.
          destruct (IH (idx + 1) (S need' - length (task_out j p))%nat) as [r [logs [E [Hn [_ Hpost]]]]].
          rewrite E. eexists; eexists. split; [reflexivity|]. split.
          { constructor; [eapply task_log_ok_nested_one; exact Hlog|exact Hn]. }
          split; [discriminate|].
          destruct r as [got|e i a|]; cbn [lcons lazy_post] in *; [|exact Hpost|exact Hpost].
          subst got. cbn [lazy_stream map concat]. symmetry. apply firstn_over_app. lia. }
    + (* generator task function: it only runs when the result handler pulls from it *)
      rewrite run_nested_spec. cbn [andb nest_outcomes]. destruct (uncaught (p_nest p)) eqn:Hu.
      * eexists; eexists. split; [reflexivity|]. split.
        { constructor; [|apply no_logs_nested]. constructor; [|constructor]. cbn. apply refusals_all_zero. }
        split; [intros _; constructor; [cbn; lia|apply no_logs_short]|]. cbn. rewrite Eager. reflexivity.
      * destruct (hd None (p_plan p)) as [ft|] eqn:Hf.
        { destruct (S need' <=? length (seen_of (f_pos ft) (stage_in j p)))%nat eqn:Hle.
          - apply Nat.leb_le in Hle. eexists; eexists. split; [reflexivity|]. split.
            { constructor; [|apply no_logs_nested]. constructor; [|constructor]. cbn. apply refusals_all_zero. }
            split; [intros _; constructor; [cbn; lia|apply no_logs_short]|].
            cbn [lazy_post lazy_stream map concat]. rewrite seen_of_firstn by exact Hle.
            rewrite (not_eager_uncached j p Eager).
            symmetry. apply firstn_prefix_app.
            destruct (seen_of_prefix (f_pos ft) (stage_in j p)) as [m Em]. rewrite Em, firstn_length in Hle. lia.
          - eexists; eexists. split; [reflexivity|]. split.
            { constructor; [|apply no_logs_nested]. constructor; [|constructor]. cbn. apply refusals_all_zero. }
            split; [intros _; constructor; [cbn; lia|apply no_logs_short]|]. cbn. rewrite Eager. reflexivity. }
        { destruct (S need' <=? length (stage_in j p))%nat eqn:Hle.
          - apply Nat.leb_le in Hle. eexists; eexists. split; [reflexivity|]. split.
            { constructor; [|apply no_logs_nested]. constructor; [|constructor]. cbn. apply refusals_all_zero. }
            split; [intros _; constructor; [cbn; lia|apply no_logs_short]|].
            cbn [lazy_post lazy_stream map concat]. rewrite (not_eager_uncached j p Eager).
            symmetry. apply firstn_prefix_app. exact Hle.
          - apply Nat.leb_gt in Hle.
            destruct (IH (idx + 1) (S need' - length (stage_in j p))%nat) as [r [logs [E [Hn [Hs Hpost]]]]].
            rewrite E. eexists; eexists. split; [reflexivity|]. split.
            { constructor; [|exact Hn]. constructor; [|constructor]. cbn. apply refusals_all_zero. }
            split; [intros _; constructor; [cbn; lia|apply Hs; reflexivity]|].
            destruct r as [got|e i a|]; cbn [lcons lazy_post] in *; [|exact Hpost|exact Hpost].
            subst got. cbn [lazy_stream map concat]. rewrite (not_eager_uncached j p Eager).
            symmetry. apply firstn_over_app. lia. }
Qed.

Lemma lazy_tasks_general : forall ps fuel maxr held j idx need r logs lk,
  lazy_tasks fuel maxr held j idx need ps = (r, logs, lk) -> lk = held /\ Forall2 (log_sound held j) ps logs.
Proof.
  induction ps as [|p rest IH]; intros fuel maxr held j idx need r logs lk H.
  - cbn in H. inversion H; subst. split; [reflexivity|constructor].
  - destruct need as [|need'].
    { cbn in H. inversion H; subst. split; [reflexivity|]. apply (no_logs_sound _ j (p :: rest)). }
    cbn [lazy_tasks] in H. destruct (lazy_eager j).
    + destruct (part_task fuel maxr held j p) as [[t log] lk1] eqn:Ep.
      destruct (part_task_general _ _ _ _ _ _ _ _ Ep) as [-> [Hs Hn]].
      destruct t.
      * destruct (S need' <=? length ys)%nat.
        { inversion H; subst. split; [reflexivity|constructor; [split; assumption|apply no_logs_sound]]. }
        { destruct (lazy_tasks fuel maxr held j (idx + 1) (S need' - length ys) rest) as [[r' logs'] lk2] eqn:Er.
          destruct (IH _ _ _ _ _ _ _ _ _ Er) as [-> Hl]. inversion H; subst.
          split; [reflexivity|constructor; [split; assumption|exact Hl]]. }
      * inversion H; subst. split; [reflexivity|constructor; [split; assumption|apply no_logs_sound]].
      * inversion H; subst. split; [reflexivity|constructor; [split; assumption|apply no_logs_sound]].
    + rewrite run_nested_spec in H.
      assert (Hone : forall seen out, (out = None -> seen = stage_in j p) ->
                log_sound held j p [mkRec 1 (nest_outcomes held (p_nest p)) seen out]).
      { intros seen out Hso. split; intros r0 [<-|[]]; [exact Hso|reflexivity]. }
      destruct (held && uncaught (p_nest p)).
      * inversion H; subst. split; [reflexivity|]. constructor; [apply Hone; discriminate|apply no_logs_sound].
      * destruct (hd None (p_plan p)) as [ft|].
        { destruct (S need' <=? length (seen_of (f_pos ft) (stage_in j p)))%nat;
            inversion H; subst; (split; [reflexivity|]); (constructor; [apply Hone; discriminate|apply no_logs_sound]). }
        { destruct (S need' <=? length (stage_in j p))%nat.
          - inversion H; subst. split; [reflexivity|]. constructor; [apply Hone; discriminate|apply no_logs_sound].
          - destruct (lazy_tasks fuel maxr held j (idx + 1) (S need' - length (stage_in j p)) rest) as [[r' logs'] lk2] eqn:Er.
            destruct (IH _ _ _ _ _ _ _ _ _ Er) as [-> Hl]. inversion H; subst.
            split; [reflexivity|]. constructor; [apply Hone; reflexivity|exact Hl]. }
Qed.

(* what take / first / isEmpty return on the fault-free stream *)
Definition lazy_plain_result (j : job) : jres :=
  lazy_finish j (LOk (firstn (lazy_need (j_action j)) (concat (map (stage_in j) (j_parts j))))).

Lemma run_lazy_unlocked : forall maxr j,
  run_lazy_job maxr false j =
    (let '(r, logs, _) := lazy_tasks (Z.to_nat maxr) maxr true j 0 (lazy_need (j_action j)) (j_parts j) in
     (mkOut (lazy_finish j r) logs, false)).
Proof.
  intros. unfold run_lazy_job. rewrite rdd_init_refused_spec, job_refused_spec, lock_on_entry_true.
  destruct (lazy_tasks (Z.to_nat maxr) maxr true j 0 (lazy_need (j_action j)) (j_parts j)) as [[r logs] lk].
  rewrite lock_after_ok_false, lock_after_error_false. destruct (lazy_finish j r); reflexivity.
Qed.

Lemma lazy_lock_released : forall maxr j, snd (run_lazy_job maxr false j) = false.
Proof.
  intros. rewrite run_lazy_unlocked.
  destruct (lazy_tasks (Z.to_nat maxr) maxr true j 0 (lazy_need (j_action j)) (j_parts j)) as [[r logs] lk].
  reflexivity.
Qed.

Lemma lazy_actions : forall maxr j, 1 <= maxr -> cache_sound j ->
  let o := fst (run_lazy_job maxr false j) in
  (o_res o = lazy_plain_result j
   \/ exists e i a, o_res o = JErr e i a /\ (if lazy_eager j then a = maxr else a = 1))
  /\ (lazy_eager j = false -> Forall (fun l => (length l <= 1)%nat) (o_logs o))
  /\ nested_all_refused (o_logs o).
Proof.
  intros maxr j Hm Hc. cbv zeta. rewrite run_lazy_unlocked.
  destruct (lazy_tasks_spec maxr j Hm (j_parts j) 0 (lazy_need (j_action j))) as [r [logs [E [Hn [Hs Hpost]]]]].
  rewrite E. cbn [fst o_res o_logs]. split; [|split; assumption].
  destruct r as [got|e i a|]; cbn [lazy_post] in Hpost.
  - left. subst got. unfold lazy_plain_result, lazy_stream. rewrite (task_out_sound j (j_parts j) Hc). reflexivity.
  - right. exists e, i, a. split; [reflexivity|exact Hpost].
  - contradiction.
Qed.

(* ---------- what a job leaves in its dataset *)
Definition part_sound (j : job) (p : part) : Prop := forall c, p_cache p = Some c -> c = stage_in j p.

Lemma last_rec_in : forall log r, last_rec log = Some r -> In r log.
Proof.
  intros log r H. unfold last_rec in H. destruct (rev log) as [|x l] eqn:E; [discriminate|].
  inversion H; subst. apply in_rev. rewrite E. left. reflexivity.
Qed.

Lemma after_parts_sound : forall held j ps logs fb,
  Forall (part_sound j) ps -> Forall2 (log_sound held j) ps logs ->
  Forall (part_sound j) (after_parts j fb ps logs).
Proof.
  intros held j ps logs fb Hps Hl. revert fb. induction Hl as [|p log ps logs [Hs _] _ IH]; intros fb; [constructor|].
  inversion Hps as [|? ? Hp Hps']; subst. cbn [after_parts]. constructor; [|apply IH; exact Hps'].
  unfold part_sound. cbn [p_cache]. unfold stage_in at 1. cbn [p_data]. fold (stage_in j p).
  intros c Hc. unfold task_success in Hc. destruct (last_rec log) as [r|] eqn:El.
  - destruct (a_out r) eqn:Eo.
    + apply Hp. exact Hc.
    + destruct (persist_above j && negb fb).
      * inversion Hc; subst. apply Hs; [apply last_rec_in; exact El|exact Eo].
      * apply Hp. exact Hc.
  - apply Hp. exact Hc.
Qed.

Lemma any_logs_sound : forall mode maxr j, exists held,
  Forall2 (log_sound held j) (j_parts j) (o_logs (fst (run_any mode maxr false j))).
Proof.
  intros. unfold run_any. destruct (is_lazy (j_action j)).
  - exists true. rewrite run_lazy_unlocked.
    destruct (lazy_tasks (Z.to_nat maxr) maxr true j 0 (lazy_need (j_action j)) (j_parts j)) as [[r logs] lk] eqn:El.
    destruct (lazy_tasks_general _ _ _ _ _ _ _ _ _ _ El) as [_ H]. exact H.
  - exists (held_of (j_action j)). apply job_logs_sound.
Qed.

Lemma after_job_sound : forall mode maxr j, cache_sound j ->
  cache_sound (after_job j (fst (run_any mode maxr false j))).
Proof.
  intros mode maxr j Hc. destruct (any_logs_sound mode maxr j) as [held Hl].
  unfold cache_sound, after_job. cbn [j_parts].
  pose proof (after_parts_sound held j (j_parts j) _ false Hc Hl) as H.
  eapply Forall_impl; [|exact H]. intros p Hp. exact Hp.
Qed.

(* ---------- sequences of jobs on one context *)
Lemma any_lock_released : forall mode maxr j, snd (run_any mode maxr false j) = false.
Proof. intros. unfold run_any. destruct (is_lazy (j_action j)); [apply lazy_lock_released|apply lock_released]. Qed.

Lemma any_refused_while_locked : forall mode maxr j,
  run_any mode maxr true j = (mkOut JRefused (no_logs (j_parts j)), true).
Proof.
  intros. unfold run_any. destruct (is_lazy (j_action j)); [|apply run_job_locked].
  unfold run_lazy_job. rewrite rdd_init_refused_spec. reflexivity.
Qed.

(* the datasets of the requests start with an empty cache *)
Definition fresh_ok (rq : jobreq) : Prop := Forall (fun p => p_cache p = None) (j_parts (r_job rq)).
Definition prev_sound (prev : option (Z * job)) : Prop :=
  match prev with Some (_, pj) => cache_sound pj | None => True end.

Lemma resolve_sound : forall prev idx rq, prev_sound prev -> fresh_ok rq -> cache_sound (snd (resolve prev idx rq)).
Proof.
  intros prev idx rq Hp Hf. unfold resolve.
  assert (Hfresh : cache_sound (r_job rq)).
  { unfold cache_sound. eapply Forall_impl; [|exact Hf]. intros p Hn c Hc. rewrite Hn in Hc. discriminate. }
  destruct (r_reuse rq); [|exact Hfresh]. destruct prev as [[origin pj]|]; [|exact Hfresh].
  cbn [snd]. exact Hp.
Qed.

Definition triple_ok (mode maxr : Z) (t : Z * job * outcome) : Prop :=
  let '(_, j, o) := t in o = fst (run_any mode maxr false j) /\ cache_sound j.

Lemma sequence_idle : forall mode maxr rqs prev idx, Forall fresh_ok rqs -> prev_sound prev ->
  snd (run_jobs mode maxr false prev idx rqs) = false /\
  Forall (triple_ok mode maxr) (fst (run_jobs mode maxr false prev idx rqs)).
Proof.
  induction rqs as [|rq rest IH]; intros prev idx Hf Hp.
  - cbn. split; [reflexivity|constructor].
  - inversion Hf as [|? ? Hrq Hrest]; subst. cbn [run_jobs].
    pose proof (resolve_sound prev idx rq Hp Hrq) as Hs.
    destruct (resolve prev idx rq) as [origin j]. cbn [snd] in Hs.
    pose proof (any_lock_released mode maxr j) as Hl.
    pose proof (after_job_sound mode maxr j Hs) as Ha.
    destruct (run_any mode maxr false j) as [o lk] eqn:Er. cbn [snd fst] in *. subst lk.
    destruct (IH (Some (origin, after_job j o)) (idx + 1) Hrest Ha) as [H1 H2].
    destruct (run_jobs mode maxr false (Some (origin, after_job j o)) (idx + 1) rest) as [os lk2].
    cbn [fst snd] in *. split; [exact H1|]. constructor; [|exact H2]. split; [rewrite Er; reflexivity|exact Hs].
Qed.

(* the whole property for every whole-partition job of every sequence *)
Lemma sequence_spec : forall mode maxr rqs, 1 <= maxr -> Forall fresh_ok rqs ->
  snd (run_jobs mode maxr false None 0 rqs) = false /\
  Forall (fun '(_, j, o) => is_lazy (j_action j) = false -> job_spec mode maxr j o)
         (fst (run_jobs mode maxr false None 0 rqs)).
Proof.
  intros mode maxr rqs Hm Hf. destruct (sequence_idle mode maxr rqs None 0 Hf I) as [H1 H2].
  split; [exact H1|]. eapply Forall_impl; [|exact H2].
  intros [[origin j] o] [Ho Hc] Hstrict. subst o. unfold run_any. rewrite Hstrict.
  apply run_job_spec; assumption.
Qed.

(* a fresh follow-up job whose partitions all succeed within the budget returns the correct result *)
Lemma followup_correct : forall mode maxr history j, 1 <= maxr -> Forall fresh_ok history -> fresh_ok (mkReq j false) ->
  is_lazy (j_action j) = false -> all_ok (held_of (j_action j)) maxr j (j_parts j) = true ->
  exists origin j' o, last (fst (run_jobs mode maxr false None 0 (history ++ [mkReq j false]))) (0, j, mkOut JFuel []) = (origin, j', o)
                      /\ j' = j /\ o_res o = JOk (plain_result j).
Proof.
  intros mode maxr history j Hm Hh Hj Hstrict Hall.
  assert (Hgen : forall prev idx, prev_sound prev ->
            exists origin o, last (fst (run_jobs mode maxr false prev idx (history ++ [mkReq j false]))) (0, j, mkOut JFuel []) = (origin, j, o)
                             /\ o_res o = JOk (plain_result j)).
  { induction history as [|rq rest IH]; intros prev idx Hp.
    - cbn [app run_jobs resolve r_reuse r_job].
      assert (Hc : cache_sound j).
      { unfold cache_sound. eapply Forall_impl; [|exact Hj]. intros p Hn c Hc. cbn in Hn. rewrite Hn in Hc. discriminate. }
      destruct (run_any mode maxr false j) as [o lk] eqn:Er. cbn [run_jobs fst last].
      exists idx, o. split; [reflexivity|].
      unfold run_any in Er. rewrite Hstrict in Er.
      destruct (job_ok mode maxr j Hm Hc Hall) as [logs [E _]]. rewrite E in Er. inversion Er; subst. reflexivity.
    - inversion Hh as [|? ? Hrq Hrest]; subst. cbn [app run_jobs].
      pose proof (resolve_sound prev idx rq Hp Hrq) as Hs.
      destruct (resolve prev idx rq) as [origin jr]. cbn [snd] in Hs.
      pose proof (any_lock_released mode maxr jr) as Hl.
      pose proof (after_job_sound mode maxr jr Hs) as Ha.
      destruct (run_any mode maxr false jr) as [o lk]. cbn [snd fst] in *. subst lk.
      destruct (IH Hrest (Some (origin, after_job jr o)) (idx + 1) Ha) as [og [o' [El Eo]]].
      destruct (run_jobs mode maxr false (Some (origin, after_job jr o)) (idx + 1) (rest ++ [mkReq j false])) as [os lk2] eqn:Er.
      cbn [fst] in *. exists og, o'. split; [|exact Eo].
      destruct os as [|t os']; [|exact El].
      (* the remaining sequence is not empty *)
      exfalso. destruct rest; cbn [app run_jobs] in Er;
        repeat match type of Er with context [let '(_, _) := ?x in _] => destruct x end; discriminate. }
  destruct (Hgen None 0 I) as [og [o [El Eo]]]. exists og, j, o. split; [exact El|split; [reflexivity|exact Eo]].
Qed.

(* ---------- packaged statements used by Properties/C04.v *)
Lemma lock_tests_spec : forall b, job_refused b = b /\ rdd_init_refused b = b.
Proof. intros; split; [apply job_refused_spec|apply rdd_init_refused_spec]. Qed.

Lemma lock_protocol_spec : lock_on_entry = true /\ lock_after_ok = false /\ lock_after_error = false.
Proof. repeat split. Qed.

Lemma attempt_from_scratch : forall held ns xs pl i,
  a_no (rec_of held ns xs pl i) = Z.of_nat i + 1 /\
  a_out (rec_of held ns xs pl i) = att_exc held ns pl i /\
  (exists n, a_seen (rec_of held ns xs pl i) = firstn n xs) /\
  (att_exc held ns pl i = None -> a_seen (rec_of held ns xs pl i) = xs) /\
  a_nest (rec_of held ns xs pl i) = nest_outcomes held ns /\ Forall (fun o => o = 0) (nest_outcomes true ns).
Proof.
  intros. split; [apply rec_of_no|]. split; [apply rec_of_out|]. split; [apply rec_of_from_scratch|].
  split; [apply rec_of_success_all|]. split; [rewrite rec_of_spec; reflexivity|apply refusals_all_zero].
Qed.

(* toLocalIterator evaluates its partitions inside runJob ([tli_deferred] regenerated as false): the tasks of
   EVERY job-triggering method run while the lock is held *)
Lemma held_of_true : forall a, held_of a = true.
Proof. intros. rewrite held_of_spec. unfold tli_deferred. rewrite andb_false_r. reflexivity. Qed.

Lemma nested_refused_full : forall mode maxr j, nested_all_refused (o_logs (fst (run_job mode maxr false j))).
Proof. intros. apply nested_refused. apply held_of_true. Qed.

Lemma nested_uncaught_surfaces_full : forall mode maxr j pre p post, 1 <= maxr ->
  j_parts j = pre ++ p :: post -> all_ok true maxr j pre = true -> cached j p = None -> uncaught (p_nest p) = true ->
  exists logs, run_job mode maxr false j = (mkOut (JErr E_LOCKED (Z.of_nat (length pre)) maxr) logs, false).
Proof. intros mode maxr j pre p post Hm. apply nested_uncaught_surfaces; [exact Hm|apply held_of_true]. Qed.
