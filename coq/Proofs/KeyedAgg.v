(* C02: aggregateByKey / foldByKey / countByKey / reduceByKey (per-partition dicts merged on the driver),
   the set operations, sortByKey and the output slicing of PV.Model.Keyed. *)
From Coq Require Import ZArith List Bool Permutation Sorted Lia.
Require Import PV.Base.PyArith PV.Gen.Parallelize PV.Model.Keyed PV.Model.KeyedSpec PV.Proofs.Keyed.
Import ListNotations.

Section AggProofs.
  Context {K : Type} (keqb : K -> K -> bool).
  Hypothesis keqb_spec : decides_eq keqb.
  Context {V : Type}.

  Lemma firstkeys_concat_firstkeys (ls : list (list K)) :
    firstkeys keqb (concat (map (firstkeys keqb) ls)) = firstkeys keqb (concat ls).
  Proof.
    induction ls as [|l ls IH]; simpl; [reflexivity|].
    rewrite !(firstkeys_app keqb keqb_spec), IH.
    rewrite (firstkeys_nodup_id keqb keqb_spec) by apply (firstkeys_NoDup keqb keqb_spec).
    f_equal. apply filter_ext. intros k. rewrite (kmem_firstkeys keqb keqb_spec). reflexivity.
  Qed.

  Lemma values_mapform {A} (G : K -> A) k ks :
    NoDup ks -> values keqb k (map (fun k' => (k', G k')) ks) = if kmem keqb k ks then [G k] else [].
  Proof.
    induction ks as [|a ks IH]; intros Hnd; [reflexivity|].
    inversion Hnd as [|? ? Hn Hd]; subst. unfold values in *. unfold kmem in *. simpl.
    destruct (keqb a k) eqn:E; simpl.
    - apply keqb_spec in E. subst. rewrite (IH Hd).
      assert (M : existsb (fun k' => keqb k' k) ks = false) by (apply (kmem_false keqb keqb_spec); exact Hn).
      rewrite M. reflexivity.
    - apply IH. exact Hd.
  Qed.

  Lemma values_build {A} (s : A -> V -> A) z k (p : list (K * V)) :
    values keqb k (build keqb s z p) = if kmem keqb k (map fst p) then [fold_left s (values keqb k p) z] else [].
  Proof.
    rewrite (build_closed keqb keqb_spec), values_mapform by apply (firstkeys_NoDup keqb keqb_spec).
    rewrite (kmem_firstkeys keqb keqb_spec). reflexivity.
  Qed.

  Lemma fold_comb {A} (s : A -> V -> A) (c : A -> A -> A) z k : agg_hom z s c ->
    forall (parts : list (list (K * V))) acc,
    fold_left c (flat_map (fun p => values keqb k (build keqb s z p)) parts) (fold_left s acc z)
    = fold_left s (acc ++ flat_map (values keqb k) parts) z.
  Proof.
    intros Hhom parts. induction parts as [|p parts IH]; intros acc; simpl; [rewrite app_nil_r; reflexivity|].
    rewrite fold_left_app, values_build. destruct (kmem keqb k (map fst p)) eqn:M; simpl.
    - rewrite Hhom, IH, app_assoc. reflexivity.
    - assert (E : values keqb k p = []).
      { apply (values_notin keqb keqb_spec). apply (kmem_false keqb keqb_spec). exact M. }
      rewrite E, IH. reflexivity.
  Qed.

  (* aggregateByKey: for a (zero, seqFunc, combFunc) satisfying the contract, the per-partition dicts merged in
     partition order give, per key, the left fold of seqFunc over the values of that key in input order; the
     keys come in order of first occurrence -- a function of the flattened input only *)
  Theorem aggregate_by_key_closed {A} (z : A) (s : A -> V -> A) (c : A -> A -> A) (parts : list (list (K * V))) :
    agg_hom z s c -> aggregate_by_key keqb z s c parts = fold_per_key keqb s z (concat parts).
  Proof.
    intros Hhom. unfold aggregate_by_key, fold_per_key. rewrite (build_closed keqb keqb_spec).
    assert (Hk : map fst (concat (map (build keqb s z) parts))
                 = concat (map (firstkeys keqb) (map (map fst) parts))).
    { rewrite concat_map, !map_map. f_equal. apply map_ext. intros p.
      rewrite (build_closed keqb keqb_spec). apply map_fst_mapform. }
    rewrite Hk, firstkeys_concat_firstkeys, <- concat_map.
    apply map_ext. intros k. f_equal.
    rewrite values_concat, flat_map_map, values_concat.
    apply (fold_comb s c z k Hhom parts []).
  Qed.

  Theorem aggregate_by_key_partition_independent {A} (z : A) (s : A -> V -> A) (c : A -> A -> A) parts parts' :
    agg_hom z s c -> concat parts = concat parts' ->
    aggregate_by_key keqb z s c parts = aggregate_by_key keqb z s c parts'.
  Proof. intros Hh He. rewrite !aggregate_by_key_closed by exact Hh. rewrite He. reflexivity. Qed.

  (* foldByKey(zero, op) with an associative op and a neutral zero *)
  Lemma fold_hom (z : V) (op : V -> V -> V) :
    (forall a b c, op (op a b) c = op a (op b c)) -> (forall a, op z a = a) -> (forall a, op a z = a) ->
    agg_hom z op op.
  Proof.
    intros Hassoc Hzl Hzr a b. rewrite fold_left_app.
    generalize (fold_left op a z). intros x. revert x.
    assert (G : forall l x y, op x (fold_left op l y) = fold_left op l (op x y)).
    { induction l as [|v l IH]; intros x y; simpl; [reflexivity|]. rewrite IH, Hassoc. reflexivity. }
    intros x. rewrite G, Hzr. reflexivity.
  Qed.
  Theorem fold_by_key_closed (z : V) (op : V -> V -> V) (parts : list (list (K * V))) :
    (forall a b c, op (op a b) c = op a (op b c)) -> (forall a, op z a = a) -> (forall a, op a z = a) ->
    fold_by_key keqb z op parts = fold_per_key keqb op z (concat parts).
  Proof. intros H1 H2 H3. apply aggregate_by_key_closed. apply fold_hom; assumption. Qed.

  (* countByKey *)
  Lemma fold_count (a : list V) n0 : fold_left (fun n (_ : V) => (n + 1)%Z) a n0 = (n0 + Z.of_nat (length a))%Z.
  Proof.
    revert n0. induction a as [|v a IH]; intros n0; simpl fold_left; [simpl; lia|].
    rewrite IH. simpl length. lia.
  Qed.
  Theorem count_by_key_closed (parts : list (list (K * V))) :
    count_by_key keqb parts = count_spec keqb (concat parts).
  Proof.
    change (count_by_key keqb parts) with (aggregate_by_key keqb 0%Z (fun n (_ : V) => (n + 1)%Z) Z.add parts).
    rewrite aggregate_by_key_closed.
    - unfold fold_per_key, count_spec. apply map_ext. intros k. rewrite fold_count. reflexivity.
    - intros a b. rewrite !fold_count, app_length. lia.
  Qed.

  (* reduceByKey: per key, functools.reduce over the values of that key in input order *)
  Theorem reduce_by_key_closed (f : V -> V -> V) (xs : list (K * V)) :
    reduce_by_key keqb f xs = map (fun k => (k, reduce1 f (values keqb k xs))) (firstkeys keqb (map fst xs)).
  Proof. unfold reduce_by_key. rewrite (group_by_key_closed keqb keqb_spec), map_map. reflexivity. Qed.
  Theorem reduce_by_key_defined (f : V -> V -> V) (xs : list (K * V)) k r :
    In (k, r) (reduce_by_key keqb f xs) -> r <> None.
  Proof.
    rewrite reduce_by_key_closed, in_map_iff. intros [k' [E Hin]]. inversion E; subst.
    apply (proj1 (firstkeys_In keqb keqb_spec _ _)) in Hin. apply (values_in_nonempty keqb keqb_spec) in Hin.
    destruct (values keqb k xs); [congruence | discriminate].
  Qed.
  (* for a commutative and associative f (Spark's requirement) the order of the values is immaterial *)
  Lemma fold_left_perm (f : V -> V -> V) :
    (forall a b c, f (f a b) c = f a (f b c)) -> (forall a b, f a b = f b a) ->
    forall l l', Permutation l l' -> forall x, fold_left f l x = fold_left f l' x.
  Proof.
    intros Ha Hc l l' Hp. induction Hp as [|a l l' Hp IH|a b l|l l' l'' H1 IH1 H2 IH2]; intros x; simpl.
    - reflexivity.
    - apply IH.
    - f_equal. rewrite !Ha. f_equal. apply Hc.
    - rewrite IH1. apply IH2.
  Qed.
  Theorem reduce1_perm (f : V -> V -> V) :
    (forall a b c, f (f a b) c = f a (f b c)) -> (forall a b, f a b = f b a) ->
    forall l l', Permutation l l' -> reduce1 f l = reduce1 f l'.
  Proof.
    intros Ha Hc l l' Hp. induction Hp as [|a l l' Hp IH|a b l|l l' l'' H1 IH1 H2 IH2]; simpl.
    - reflexivity.
    - f_equal. apply fold_left_perm; assumption.
    - f_equal. f_equal. apply Hc.
    - rewrite IH1. exact IH2.
  Qed.
End AggProofs.

Section SetProofs.
  Context {A : Type} (aeqb : A -> A -> bool).
  Hypothesis aeqb_spec : decides_eq aeqb.

  (* subtract: a partition-wise filter; flattened it is the filter of the flattened input *)
  Theorem subtract_flat (parts : list (list A)) (ys : list A) :
    concat (subtract aeqb parts ys) = filter (fun e => negb (kmem aeqb e ys)) (concat parts).
  Proof.
    unfold subtract. induction parts as [|p parts IH]; simpl; [reflexivity|]. rewrite filter_app, IH. reflexivity.
  Qed.
  Theorem subtract_In (parts : list (list A)) (ys : list A) e :
    In e (concat (subtract aeqb parts ys)) <-> In e (concat parts) /\ ~ In e ys.
  Proof.
    rewrite subtract_flat, filter_In, negb_true_iff, (kmem_false aeqb aeqb_spec). reflexivity.
  Qed.
  Theorem subtract_partition_independent parts parts' ys ys' :
    concat parts = concat parts' -> (forall e, In e ys <-> In e ys') ->
    concat (subtract aeqb parts ys) = concat (subtract aeqb parts' ys').
  Proof.
    intros He Hy. rewrite !subtract_flat, He. apply filter_ext. intros e. f_equal.
    destruct (kmem aeqb e ys) eqn:M; symmetry.
    - apply (kmem_In aeqb aeqb_spec). apply Hy. apply (kmem_In aeqb aeqb_spec). exact M.
    - apply (kmem_false aeqb aeqb_spec). rewrite <- Hy. apply (kmem_false aeqb aeqb_spec). exact M.
  Qed.

  (* distinct *)
  Theorem distinct_NoDup xs : NoDup (distinct aeqb xs).
  Proof. unfold distinct. rewrite (set_of_firstkeys aeqb aeqb_spec). apply (firstkeys_NoDup aeqb aeqb_spec). Qed.
  Theorem distinct_In xs x : In x (distinct aeqb xs) <-> In x xs.
  Proof. unfold distinct. rewrite (set_of_firstkeys aeqb aeqb_spec). apply (firstkeys_In aeqb aeqb_spec). Qed.

  (* intersection *)
  Theorem intersection_NoDup xs ys : NoDup (intersection aeqb xs ys).
  Proof. unfold intersection. apply NoDup_filter. apply distinct_NoDup. Qed.
  Theorem intersection_In xs ys x : In x (intersection aeqb xs ys) <-> In x xs /\ In x ys.
  Proof.
    unfold intersection. rewrite filter_In. fold (distinct aeqb xs). rewrite distinct_In.
    rewrite (kmem_In aeqb aeqb_spec). fold (distinct aeqb ys). rewrite distinct_In. reflexivity.
  Qed.
End SetProofs.

(* cartesian: every combination once; multiplicities multiply *)
Section Cartesian.
  Context {A B : Type}.
  Theorem cartesian_In (xs : list A) (ys : list B) a b : In (a, b) (cartesian xs ys) <-> In a xs /\ In b ys.
  Proof.
    unfold cartesian. rewrite in_flat_map. split.
    - intros [a' [Ha Hin]]. apply in_map_iff in Hin. destruct Hin as [b' [E Hb]]. inversion E; subst. auto.
    - intros [Ha Hb]. exists a. split; [exact Ha|]. apply in_map. exact Hb.
  Qed.
  Theorem cartesian_count (p : A -> bool) (q : B -> bool) (xs : list A) (ys : list B) :
    length (filter (fun ab => p (fst ab) && q (snd ab)) (cartesian xs ys))
    = (length (filter p xs) * length (filter q ys))%nat.
  Proof.
    unfold cartesian. induction xs as [|a xs IH]; simpl; [reflexivity|].
    rewrite filter_app, app_length, IH.
    assert (E : length (filter (fun ab : A * B => p (fst ab) && q (snd ab)) (map (fun b => (a, b)) ys))
                = if p a then length (filter q ys) else 0%nat).
    { clear. induction ys as [|b ys IHy]; simpl; [destruct (p a); reflexivity|].
      destruct (p a); simpl in *; [destruct (q b); simpl; rewrite IHy; reflexivity | exact IHy]. }
    rewrite E. destruct (p a); simpl; lia.
  Qed.
  Theorem cartesian_exact (xs : list A) (ys : list B) : cartesian xs ys = list_prod xs ys.
  Proof. unfold cartesian. induction xs as [|a xs IH]; simpl; [reflexivity | rewrite IH; reflexivity]. Qed.
End Cartesian.

(* sortByKey: sorted, a permutation, and stable -- for any total and transitive key order *)
Section SortProofs.
  Context {K V : Type} (le : K -> K -> bool).
  Hypothesis le_total : forall a b, le a b = true \/ le b a = true.
  Hypothesis le_trans : forall a b c, le a b = true -> le b c = true -> le a c = true.

  Notation kle := (@key_le K V le).

  Lemma insert_by_perm (x : K * V) l : Permutation (insert_by le x l) (x :: l).
  Proof.
    induction l as [|y l IH]; simpl; [apply Permutation_refl|].
    destruct (le (fst x) (fst y)); [apply Permutation_refl|].
    eapply Permutation_trans; [apply perm_skip; exact IH | apply perm_swap].
  Qed.
  Theorem stable_sort_perm (xs : list (K * V)) : Permutation (stable_sort le xs) xs.
  Proof.
    induction xs as [|x xs IH]; simpl; [constructor|].
    eapply Permutation_trans; [apply insert_by_perm | apply perm_skip; exact IH].
  Qed.

  Lemma insert_by_sorted (x : K * V) l : Sorted kle l -> Sorted kle (insert_by le x l).
  Proof.
    induction l as [|y l IH]; intros Hs; simpl; [repeat constructor|].
    destruct (le (fst x) (fst y)) eqn:E.
    - constructor; [exact Hs | constructor; exact E].
    - inversion Hs as [|? ? Hs' Hr]; subst. constructor; [apply IH; exact Hs'|].
      assert (Hyx : kle y x). { unfold key_le. destruct (le_total (fst x) (fst y)) as [H | H]; [congruence | exact H]. }
      destruct l as [|z l]; simpl; [constructor; exact Hyx|].
      destruct (le (fst x) (fst z)); constructor; [exact Hyx|]. inversion Hr; assumption.
  Qed.
  Theorem stable_sort_sorted (xs : list (K * V)) : Sorted kle (stable_sort le xs).
  Proof. induction xs as [|x xs IH]; simpl; [constructor | apply insert_by_sorted; exact IH]. Qed.

  (* stability: the elements whose key is equivalent to k keep their input order *)
  Notation same_key := (@same_key K V le).
  Lemma insert_by_stable k (x : K * V) l :
    filter (same_key k) (insert_by le x l) = if same_key k x then x :: filter (same_key k) l else filter (same_key k) l.
  Proof.
    induction l as [|y l IH]; simpl; [reflexivity|].
    destruct (le (fst x) (fst y)) eqn:E; simpl; [reflexivity|].
    rewrite IH. destruct (same_key k x) eqn:Px; [|reflexivity].
    destruct (same_key k y) eqn:Py; [|reflexivity].
    exfalso. unfold KeyedSpec.same_key in Px, Py. apply andb_prop in Px. apply andb_prop in Py.
    destruct Px as [Px _]. destruct Py as [_ Py]. rewrite (le_trans _ _ _ Px Py) in E. discriminate.
  Qed.
  Theorem stable_sort_stable k (xs : list (K * V)) : filter (same_key k) (stable_sort le xs) = filter (same_key k) xs.
  Proof.
    induction xs as [|x xs IH]; simpl; [reflexivity|]. rewrite insert_by_stable, IH. reflexivity.
  Qed.
End SortProofs.

(* sortByKey(ascending): reverse=True sorts by the flipped order and stays stable *)
Section SortByKey.
  Context {K V : Type} (le : K -> K -> bool).
  Hypothesis le_total : forall a b, le a b = true \/ le b a = true.
  Hypothesis le_trans : forall a b c, le a b = true -> le b c = true -> le a c = true.

  Theorem sort_by_key_perm asc (xs : list (K * V)) : Permutation (sort_by_key le asc xs) xs.
  Proof. unfold sort_by_key. destruct asc; apply stable_sort_perm. Qed.
  Theorem sort_by_key_sorted asc (xs : list (K * V)) : Sorted (key_le (dir_le le asc)) (sort_by_key le asc xs).
  Proof.
    unfold sort_by_key, dir_le. destruct asc; apply stable_sort_sorted.
    - exact le_total.
    - intros a b. destruct (le_total a b); auto.
  Qed.
  Theorem sort_by_key_stable asc k (xs : list (K * V)) :
    filter (same_key le k) (sort_by_key le asc xs) = filter (same_key le k) xs.
  Proof.
    unfold sort_by_key. destruct asc.
    - apply stable_sort_stable. exact le_trans.
    - assert (E : forall l : list (K * V), filter (same_key le k) l = filter (same_key (fun a b => le b a) k) l).
      { intros l. apply filter_ext. intros x. unfold same_key. apply andb_comm. }
      rewrite !E. apply stable_sort_stable. intros a b c H1 H2. exact (le_trans _ _ _ H2 H1).
  Qed.
End SortByKey.
