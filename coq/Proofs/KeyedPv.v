(* C02: the key / element universe of the correspondence run (Python values without floats) satisfies the
   premise of the theorems: pv_eqb decides equality. *)
From Coq Require Import ZArith NArith List Bool Lia.
Require Import PV.Base.Val PV.Model.Keyed PV.Model.KeyedSpec.
Import ListNotations.

Section PvInd.
  Variable P : pv -> Prop.
  Hypothesis HN : P PNone.
  Hypothesis HB : forall b, P (PBool b).
  Hypothesis HI : forall z, P (PInt z).
  Hypothesis HS : forall s, P (PStr s).
  Hypothesis HT : forall l, Forall P l -> P (PTup l).
  Hypothesis HL : forall l, Forall P l -> P (PList l).
  Fixpoint pv_ind' (p : pv) : P p :=
    match p with
    | PNone => HN
    | PBool b => HB b
    | PInt z => HI z
    | PStr s => HS s
    | PTup l => HT l ((fix go (l : list pv) : Forall P l :=
                         match l with [] => Forall_nil P | x :: l' => Forall_cons x (pv_ind' x) (go l') end) l)
    | PList l => HL l ((fix go (l : list pv) : Forall P l :=
                          match l with [] => Forall_nil P | x :: l' => Forall_cons x (pv_ind' x) (go l') end) l)
    end.
End PvInd.

Fixpoint list_eqb {A} (e : A -> A -> bool) (xs ys : list A) : bool :=
  match xs, ys with
  | [], [] => true
  | x :: xs', y :: ys' => e x y && list_eqb e xs' ys'
  | _, _ => false
  end.

Lemma pv_eqb_tup x y : pv_eqb (PTup x) (PTup y) = list_eqb pv_eqb x y.
Proof.
  revert y. induction x as [|a x IH]; destruct y as [|b y]; try reflexivity.
  simpl. f_equal. apply IH.
Qed.
Lemma pv_eqb_list x y : pv_eqb (PList x) (PList y) = list_eqb pv_eqb x y.
Proof.
  revert y. induction x as [|a x IH]; destruct y as [|b y]; try reflexivity.
  simpl. f_equal. apply IH.
Qed.

Lemma list_eqb_spec {A} (e : A -> A -> bool) (xs : list A) :
  Forall (fun x => forall y, e x y = true <-> x = y) xs -> forall ys, list_eqb e xs ys = true <-> xs = ys.
Proof.
  induction 1 as [|x xs Hx Hxs IH]; intros ys; destruct ys as [|y ys]; simpl; try (split; congruence).
  rewrite andb_true_iff, Hx, IH. split; [intros [-> ->]; reflexivity | intros E; inversion E; auto].
Qed.

Lemma list_N_eqb_spec a b : list_N_eqb a b = true <-> a = b.
Proof.
  revert b. induction a as [|x a IH]; destruct b as [|y b]; simpl; try (split; congruence).
  rewrite andb_true_iff, N.eqb_eq, IH. split; [intros [-> ->]; reflexivity | intros E; inversion E; auto].
Qed.

Theorem pv_eqb_decides : decides_eq pv_eqb.
Proof.
  unfold decides_eq. intros a. induction a as [| b | z | s | l Hl | l Hl] using pv_ind'; intros y.
  - destruct y; simpl; split; congruence.
  - destruct y; simpl; try (split; congruence). rewrite Bool.eqb_true_iff. split; congruence.
  - destruct y; simpl; try (split; congruence). rewrite Z.eqb_eq. split; congruence.
  - destruct y; try (simpl; split; congruence). simpl. rewrite list_N_eqb_spec. split; congruence.
  - destruct y; try (simpl; split; congruence). rewrite pv_eqb_tup, (list_eqb_spec _ _ Hl). split; congruence.
  - destruct y; try (simpl; split; congruence). rewrite pv_eqb_list, (list_eqb_spec _ _ Hl). split; congruence.
Qed.

(* decoding a harness value and encoding it again is the identity (no information is lost on the way in) *)
Lemma val_of_pv_of_val : forall p, pv_of_val (val_of_pv p) = Some p.
Proof.
  induction p as [| b | z | s | l Hl | l Hl] using pv_ind'; try reflexivity.
  - simpl. assert (E : (fix lst (l : list val) : option (list pv) :=
                          match l with
                          | [] => Some []
                          | x :: l' => match pv_of_val x, lst l' with Some p, Some r => Some (p :: r) | _, _ => None end
                          end) (map val_of_pv l) = Some l).
    { induction Hl as [|x l Hx Hl IH]; simpl; [reflexivity|]. rewrite Hx, IH. reflexivity. }
    rewrite E. reflexivity.
  - simpl. assert (E : (fix lst (l : list val) : option (list pv) :=
                          match l with
                          | [] => Some []
                          | x :: l' => match pv_of_val x, lst l' with Some p, Some r => Some (p :: r) | _, _ => None end
                          end) (map val_of_pv l) = Some l).
    { induction Hl as [|x l Hx Hl IH]; simpl; [reflexivity|]. rewrite Hx, IH. reflexivity. }
    rewrite E. reflexivity.
Qed.
