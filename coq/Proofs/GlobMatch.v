(* C20 -- lemmas about gmatch: declarative specification, literal prefixes. *)
From Coq Require Import NArith List Bool Lia.
Require Import PV.Gen.FsDispatch PV.Model.Glob PV.Model.GlobSpec.
Import ListNotations.
Open Scope N_scope.

(* ---------- link with the regenerated constants *)
Lemma wildcards_link : local_wildcards = [c_star; c_qm].
Proof. reflexivity. Qed.
Lemma part_suffix_link : local_part_suffix = [c_slash; 112; 97; 114; 116; c_star].
Proof. reflexivity. Qed.
Lemma scheme_prefix_link : local_scheme_prefix = [102; 105; 108; 101; 58; 47; 47] /\ local_scheme_cut = length local_scheme_prefix.
Proof. split; reflexivity. Qed.

Lemma is_wild_spec c : is_wild c = true <-> c = c_star \/ c = c_qm.
Proof.
  unfold is_wild. rewrite wildcards_link. simpl. rewrite orb_false_r, orb_true_iff, !N.eqb_eq. tauto.
Qed.
Lemma is_wild_false c : is_wild c = false <-> c <> c_star /\ c <> c_qm.
Proof.
  split; intro H.
  - split; intro E; assert (W : is_wild c = true) by (apply is_wild_spec; auto); congruence.
  - destruct (is_wild c) eqn:W; auto. apply is_wild_spec in W. tauto.
Qed.

(* ---------- gmatch *)
Definition star_try (f : str -> bool) : str -> bool :=
  fix try (s : str) : bool := f s || match s with [] => false | _ :: s' => try s' end.

Lemma gmatch_star p s : gmatch (c_star :: p) s = star_try (gmatch p) s.
Proof. reflexivity. Qed.

Lemma gmatch_nil s : gmatch [] s = true <-> s = [].
Proof. destruct s; simpl; split; congruence. Qed.

Lemma gmatch_cons c p s : c <> c_star ->
  gmatch (c :: p) s = match s with [] => false | d :: s' => ((c =? c_qm) || (c =? d)) && gmatch p s' end.
Proof. intro H. simpl. apply N.eqb_neq in H. rewrite H. reflexivity. Qed.

Lemma star_try_spec f s : star_try f s = true <-> exists u s', s = u ++ s' /\ f s' = true.
Proof.
  induction s as [|c s IH]; simpl.
  - rewrite orb_false_r. split.
    + intro H. exists [], []. auto.
    + intros (u & s' & E & H). symmetry in E. apply app_eq_nil in E. destruct E; subst. auto.
  - rewrite orb_true_iff, IH. split.
    + intros [H | (u & s' & E & H)].
      * exists [], (c :: s). auto.
      * exists (c :: u), s'. subst. auto.
    + intros (u & s' & E & H). destruct u as [|x u]; simpl in E.
      * left. subst. auto.
      * right. inversion E; subst. eauto.
Qed.

Theorem gmatch_spec p s : gmatch p s = true <-> matches p s.
Proof.
  split.
  - revert s. induction p as [|c p IH]; intros s H.
    + apply gmatch_nil in H. subst. constructor.
    + destruct (N.eq_dec c c_star) as [E | NE].
      * subst c. rewrite gmatch_star in H. apply star_try_spec in H. destruct H as (u & s' & -> & H).
        constructor. auto.
      * rewrite gmatch_cons in H by auto. destruct s as [|d s]; [discriminate|].
        apply andb_true_iff in H. destruct H as [H1 H2]. apply orb_true_iff in H1.
        destruct (N.eq_dec c c_qm) as [Eq | NQ].
        -- subst c. constructor. auto.
        -- destruct H1 as [H1 | H1]; apply N.eqb_eq in H1; [contradiction|]. subst d.
           apply M_lit; auto.
  - induction 1.
    + reflexivity.
    + rewrite gmatch_star. apply star_try_spec. eauto.
    + rewrite gmatch_cons by discriminate. rewrite IHmatches. reflexivity.
    + rewrite gmatch_cons by auto. rewrite N.eqb_refl, orb_true_r, IHmatches. reflexivity.
Qed.

(* a literal start of the pattern is a literal start of every matching string *)
Lemma gmatch_lit_prefix l p s : literal l -> gmatch (l ++ p) s = true -> exists r, s = l ++ r /\ gmatch p r = true.
Proof.
  revert s. induction l as [|c l IH]; intros s L H.
  - exists s. auto.
  - assert (W : is_wild c = false) by (apply L; left; auto). apply is_wild_false in W. destruct W as [W1 W2].
    simpl app in H. rewrite gmatch_cons in H by auto. destruct s as [|d s]; [discriminate|].
    apply andb_true_iff in H. destruct H as [H1 H2]. apply orb_true_iff in H1.
    destruct H1 as [H1 | H1]; apply N.eqb_eq in H1; [contradiction|]. subst d.
    destruct (IH s) as (r & -> & Hr); auto. { intros x Hx. apply L. right. auto. }
    exists r. auto.
Qed.

Lemma gmatch_literal l s : literal l -> (gmatch l s = true <-> s = l).
Proof.
  intro L. split.
  - intro H. rewrite <- (app_nil_r l) in H. apply gmatch_lit_prefix in H; auto. destruct H as (r & -> & H).
    apply gmatch_nil in H. subst. apply app_nil_r.
  - intros ->. apply gmatch_spec. induction l as [|c l IH]. constructor.
    assert (W : is_wild c = false) by (apply L; left; auto). apply is_wild_false in W. destruct W.
    apply M_lit; auto. apply IH. intros x Hx. apply L. right. auto.
Qed.

Lemma gmatch_lit_star l s : literal l -> (gmatch (l ++ [c_star]) s = true <-> exists r, s = l ++ r).
Proof.
  intro L. split.
  - intro H. apply gmatch_lit_prefix in H; auto. destruct H as (r & -> & _). eauto.
  - intros (r & ->). apply gmatch_spec. induction l as [|c l IH].
    + simpl. rewrite <- (app_nil_r r). constructor. constructor.
    + assert (W : is_wild c = false) by (apply L; left; auto). apply is_wild_false in W. destruct W.
      simpl. apply M_lit; auto. apply IH. intros x Hx. apply L. right. auto.
Qed.
