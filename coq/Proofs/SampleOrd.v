From Coq Require Import ZArith Bool List Lia.
From Coq Require Import SpecFloat.
Require Import PV.Base.NumSF.
Import ListNotations.
Open Scope Z_scope.

(* The order of SFcompare on non-NaN values is the lexicographic order of a rank triple. *)
Definition rk (x : fl) : Z * Z * Z :=
  match x with
  | S754_infinity true => (-2, 0, 0)
  | S754_finite true m e => (-1, - e, - Z.pos m)
  | S754_zero _ => (0, 0, 0)
  | S754_nan => (0, 0, 0)
  | S754_finite false m e => (1, e, Z.pos m)
  | S754_infinity false => (2, 0, 0)
  end.
Definition lexlt (a b : Z * Z * Z) : Prop :=
  let '(a1, a2, a3) := a in let '(b1, b2, b3) := b in
  a1 < b1 \/ (a1 = b1 /\ (a2 < b2 \/ (a2 = b2 /\ a3 < b3))).
Definition lexle (a b : Z * Z * Z) : Prop :=
  let '(a1, a2, a3) := a in let '(b1, b2, b3) := b in
  a1 < b1 \/ (a1 = b1 /\ (a2 < b2 \/ (a2 = b2 /\ a3 <= b3))).

Lemma Pcompare_Eq m1 m2 : Pos.compare_cont Eq m1 m2 = (Z.pos m1 ?= Z.pos m2).
Proof. reflexivity. Qed.

Lemma SFcompare_rk a b : sf_is_nan a = false -> sf_is_nan b = false ->
  exists c, SFcompare a b = Some c /\
    (c = Lt <-> lexlt (rk a) (rk b)) /\ (c = Gt <-> lexlt (rk b) (rk a)).
Proof.
  intros Ha Hb.
  destruct a as [sa|sa| |sa ma ea]; try discriminate; destruct b as [sb|sb| |sb mb eb]; try discriminate;
    try destruct sa; try destruct sb; simpl;
    try (eexists; split; [reflexivity|]; split; split; (discriminate || (intros; lia) || (intros; reflexivity))).
  all: change (Pos.compare_cont Eq ma mb) with (Z.pos ma ?= Z.pos mb);
    destruct (Z.compare_spec ea eb); destruct (Z.compare_spec (Z.pos ma) (Z.pos mb)); simpl;
    eexists; (split; [reflexivity|]); split; split; try discriminate; try (intros; lia); try (intros; reflexivity).
Qed.

Lemma SFleb_nonnan a b : SFleb a b = true -> sf_is_nan a = false /\ sf_is_nan b = false.
Proof. destruct a, b; simpl; try discriminate; auto. Qed.
Lemma SFltb_nonnan a b : SFltb a b = true -> sf_is_nan a = false /\ sf_is_nan b = false.
Proof. destruct a, b; simpl; try discriminate; auto. Qed.

Lemma SFltb_iff a b : sf_is_nan a = false -> sf_is_nan b = false -> (SFltb a b = true <-> lexlt (rk a) (rk b)).
Proof.
  intros Ha Hb. destruct (SFcompare_rk a b Ha Hb) as [c [Hc [H1 H2]]]. unfold SFltb. rewrite Hc.
  destruct c; split; intros H; try discriminate; try reflexivity; try (apply H1; reflexivity);
    try (apply H1 in H; discriminate).
Qed.

Lemma SFleb_iff a b : sf_is_nan a = false -> sf_is_nan b = false -> (SFleb a b = true <-> ~ lexlt (rk b) (rk a)).
Proof.
  intros Ha Hb. destruct (SFcompare_rk a b Ha Hb) as [c [Hc [H1 H2]]]. unfold SFleb. rewrite Hc.
  destruct c; split; intros H; try discriminate; try reflexivity.
  - intros G. apply H2 in G. discriminate.
  - intros G. apply H2 in G. discriminate.
  - exfalso. apply H. apply H2. reflexivity.
Qed.

Ltac rk3 := repeat match goal with |- context [rk ?x] => let p := fresh "p" in
                    destruct (rk x) as [[? ?] ?] end.

Lemma lt_not_le r lb : SFltb r lb = true -> SFleb lb r = false.
Proof.
  intros H. destruct (SFltb_nonnan _ _ H) as [Hr Hl]. destruct (SFleb lb r) eqn:E; [|reflexivity].
  apply (SFltb_iff _ _ Hr Hl) in H. apply (SFleb_iff _ _ Hl Hr) in E. contradiction.
Qed.

Lemma lt_le_trans r lb c : SFltb r lb = true -> SFleb lb c = true -> SFltb r c = true.
Proof.
  intros H1 H2. destruct (SFltb_nonnan _ _ H1) as [Hr Hl]. destruct (SFleb_nonnan _ _ H2) as [_ Hc].
  apply (SFltb_iff _ _ Hr Hl) in H1. apply (SFleb_iff _ _ Hl Hc) in H2. apply (SFltb_iff _ _ Hr Hc).
  revert H1 H2. destruct (rk r) as [[? ?] ?], (rk lb) as [[? ?] ?], (rk c) as [[? ?] ?]. unfold lexlt. lia.
Qed.

Lemma le_trans a b c : SFleb a b = true -> SFleb b c = true -> SFleb a c = true.
Proof.
  intros H1 H2. destruct (SFleb_nonnan _ _ H1) as [Ha Hb]. destruct (SFleb_nonnan _ _ H2) as [_ Hc].
  apply (SFleb_iff _ _ Ha Hb) in H1. apply (SFleb_iff _ _ Hb Hc) in H2. apply (SFleb_iff _ _ Ha Hc).
  revert H1 H2. destruct (rk a) as [[? ?] ?], (rk b) as [[? ?] ?], (rk c) as [[? ?] ?]. unfold lexlt. lia.
Qed.

Lemma not_lt_le r c : sf_is_nan r = false -> sf_is_nan c = false -> SFltb r c = false -> SFleb c r = true.
Proof.
  intros Hr Hc H. apply (SFleb_iff _ _ Hc Hr). intros G. apply (SFltb_iff _ _ Hr Hc) in G. congruence.
Qed.

Lemma le_refl a : sf_is_nan a = false -> SFleb a a = true.
Proof.
  intros Ha. apply (SFleb_iff _ _ Ha Ha). destruct (rk a) as [[? ?] ?]. unfold lexlt. lia.
Qed.
