(* C15 -- lemmas about the schema-level DataFrame model. *)
From Coq Require Import String ZArith NArith List Bool Lia.
Require Import PV.Base.Val PV.Model.Schema.
Import ListNotations.
Open Scope Z_scope.
Close Scope string_scope.

Lemma rdd_count_acc : forall parts a,
  fold_left (fun a p => a + Z.of_nat (length p)) parts a = a + Z.of_nat (length (concat parts : list row)).
Proof.
  induction parts as [|p parts IH]; intros a; simpl.
  - lia.
  - rewrite IH, app_length. lia.
Qed.

(* count() sums the partition sizes; collect() concatenates the partitions: for EVERY partitioning *)
Lemma count_collect_parts : forall f parts, concat parts = rows f -> rdd_count parts = Z.of_nat (length (collect f)).
Proof.
  intros f parts H. unfold rdd_count, collect. rewrite rdd_count_acc, H. lia.
Qed.
