(* C15 -- basic lemmas: result monad, well-formedness of frames, schema binding, name lookup. *)
From Coq Require Import String ZArith NArith List Bool Lia.
Require Import PV.Base.Val PV.Model.Schema.
Import ListNotations.
Open Scope Z_scope.
Close Scope string_scope.


(* ---------- generic helpers ---------- *)
Lemma bind_ok {A B} (m : res A) (k : A -> res B) b :
  bind m k = Ok b -> exists a, m = Ok a /\ k a = Ok b.
Proof. destruct m as [a|e]; simpl; intros H; [eauto | discriminate]. Qed.

Tactic Notation "inv_bind" hyp(H) "as" ident(a) ident(Ha) :=
  apply bind_ok in H; destruct H as [a [Ha H]].

Lemma mapM_Forall2 {A B} (f : A -> res B) l r :
  mapM f l = Ok r -> Forall2 (fun x y => f x = Ok y) l r.
Proof.
  revert r; induction l as [|x l IH]; simpl; intros r H.
  - inversion H; constructor.
  - inv_bind H as y Hy. inv_bind H as ys Hys. inversion H; subst. constructor; auto.
Qed.

Lemma mapM_length {A B} (f : A -> res B) l r : mapM f l = Ok r -> length r = length l.
Proof. intros H. apply mapM_Forall2 in H. induction H; simpl; auto. Qed.

Lemma mapM_In {A B} (f : A -> res B) l r y :
  mapM f l = Ok r -> In y r -> exists x, In x l /\ f x = Ok y.
Proof.
  intros H. apply mapM_Forall2 in H. induction H; simpl; intros Hin; [contradiction|].
  destruct Hin as [->|Hin]; [eauto|]. destruct (IHForall2 Hin) as [x0 [? ?]]; eauto.
Qed.

(* mapM of a function that tags its result with a name computed from the input *)
Lemma mapM_tag_fst {A} (g : A -> name) (h : A -> res val) l kv :
  mapM (fun x => bind (h x) (fun v => Ok (g x, v))) l = Ok kv -> map fst kv = map g l.
Proof.
  revert kv; induction l as [|x l IH]; simpl; intros kv H.
  - inversion H; reflexivity.
  - inv_bind H as y Hy. inv_bind Hy as v Hv. inversion Hy; subst.
    inv_bind H as ys Hys. inversion H; subst. simpl. f_equal. auto.
Qed.

Lemma list_N_eqb_eq : forall a b, list_N_eqb a b = true -> a = b.
Proof.
  induction a as [|x a IH]; destruct b as [|y b]; simpl; intros H; try discriminate; auto.
  apply andb_true_iff in H. destruct H as [H1 H2]. apply N.eqb_eq in H1. f_equal; auto.
Qed.
Lemma name_eqb_eq : forall a b, name_eqb a b = true -> a = b.
Proof. exact list_N_eqb_eq. Qed.

Lemma map_fst_combine {A B} (a : list A) (b : list B) :
  length a = length b -> map fst (combine a b) = a.
Proof.
  revert b; induction a as [|x a IH]; destruct b; simpl; intros H; try discriminate; auto.
  f_equal. apply IH. lia.
Qed.
Lemma map_fst_combine_firstn {A B} (a : list A) (b : list B) :
  map fst (combine a b) = firstn (length b) a.
Proof.
  revert b; induction a as [|x a IH]; destruct b; simpl; auto. f_equal. apply IH.
Qed.
Lemma map_snd_combine {A B} (a : list A) (b : list B) :
  length a = length b -> map snd (combine a b) = b.
Proof.
  revert b; induction a as [|x a IH]; destruct b; simpl; intros H; try discriminate; auto.
  f_equal. apply IH. lia.
Qed.

(* ---------- well-formedness ---------- *)
Definition row_ok (ns : list name) (r : row) : Prop := fst r = ns /\ length (snd r) = length ns.
Definition wf (f : frame) : Prop :=
  snames f = columns f /\ Forall (row_ok (columns f)) (rows f).
Definition wf_pre (p : pre) : Prop :=
  p_names p = map pname (p_fields p) /\ Forall (row_ok (map pname (p_fields p))) (p_rows p).

Lemma bind_fields_names : forall pfs c, map fname (fst (bind_fields c pfs)) = map pname pfs.
Proof.
  induction pfs as [|p pfs IH]; intros c; simpl; auto.
  destruct p as [f|n].
  - specialize (IH c). destruct (bind_fields c pfs) as [r c']. simpl in *. f_equal; auto.
  - specialize (IH (c + 1)%N). destruct (bind_fields (c + 1) pfs) as [r c']. simpl in *. f_equal; auto.
Qed.

Lemma finish_wf : forall c p, wf_pre p -> wf (fst (finish c p)).
Proof.
  intros c p [Hn Hr]. unfold finish.
  pose proof (bind_fields_names (p_fields p) c) as Hb.
  destruct (bind_fields c (p_fields p)) as [fs c']. simpl in *.
  unfold wf, columns; simpl. rewrite Hb. split; auto.
Qed.

Lemma row_of_pairs_ok : forall kv ns, map fst kv = ns -> row_ok ns (row_of_pairs kv).
Proof.
  intros kv ns H. unfold row_ok, row_of_pairs; simpl. split; auto.
  rewrite <- H. now rewrite !map_length.
Qed.

Lemma same_schema_wf : forall f rs o v,
  wf f -> Forall (row_ok (columns f)) rs -> wf_pre (same_schema f rs o v).
Proof.
  intros f rs o v [Hn _] Hr. unfold wf_pre, same_schema; simpl.
  rewrite map_map. simpl. fold (columns f). unfold columns in *. split; auto.
Qed.

Lemma struct_of_wf : forall pfs rs o v,
  Forall (row_ok (map pname pfs)) rs -> wf_pre (struct_of pfs rs o v).
Proof. intros. unfold wf_pre, struct_of; simpl. auto. Qed.

(* ---------- find_pos / first_named ---------- *)
Lemma positions_nth : forall n fs i p,
  In p (positions n fs i) -> exists fld, nth_error fs (p - i) = Some fld /\ fname fld = n /\ (i <= p)%nat.
Proof.
  induction fs as [|f fs IH]; simpl; intros i p H; [contradiction|].
  destruct (name_eqb n (fname f)) eqn:E.
  - destruct H as [<-|H].
    + exists f. rewrite Nat.sub_diag. simpl. repeat split; auto. symmetry. now apply name_eqb_eq.
    + destruct (IH _ _ H) as [fld [H1 [H2 H3]]]. exists fld.
      replace (p - i)%nat with (S (p - S i)) by lia. simpl. repeat split; auto. lia.
  - destruct (IH _ _ H) as [fld [H1 [H2 H3]]]. exists fld.
    replace (p - i)%nat with (S (p - S i)) by lia. simpl. repeat split; auto. lia.
Qed.

Lemma find_pos_name : forall n fs p fld,
  find_pos n fs = Ok p -> nth_error fs p = Some fld -> fname fld = n.
Proof.
  unfold find_pos. intros n fs p fld H Hn.
  destruct (positions n fs 0) as [|q [|q' l]] eqn:E; try discriminate.
  inversion H; subst q.
  assert (Hin : In p (positions n fs 0)) by (rewrite E; simpl; auto).
  destruct (positions_nth _ _ _ _ Hin) as [fld' [H1 [H2 _]]].
  rewrite Nat.sub_0_r in H1. congruence.
Qed.

Lemma first_named_name : forall fs c fld, first_named fs c = Ok fld -> fname fld = c.
Proof.
  unfold first_named. intros fs c fld H.
  destruct (find _ fs) eqn:E; [|discriminate]. inversion H; subst.
  apply find_some in E. destruct E as [_ E]. now apply name_eqb_eq.
Qed.
Lemma first_named_names : forall fs on l, mapM (first_named fs) on = Ok l -> map fname l = on.
Proof.
  intros fs on l H. apply mapM_Forall2 in H. induction H; simpl; auto.
  f_equal; auto. eapply first_named_name; eauto.
Qed.

(* ---------- count / collect ---------- *)
Lemma rdd_count_acc : forall parts a,
  fold_left (fun a p => a + Z.of_nat (length p)) parts a = a + Z.of_nat (length (concat parts : list row)).
Proof.
  induction parts as [|p parts IH]; intros a; simpl.
  - lia.
  - rewrite IH, app_length. lia.
Qed.

(* count() sums the partition sizes; collect() concatenates the partitions: for EVERY partitioning *)
Lemma count_collect_parts : forall f parts, concat parts = rows f -> rdd_count parts = Z.of_nat (length (collect f)).
Proof.
  intros f parts H. unfold rdd_count, collect. rewrite rdd_count_acc, H. lia.
Qed.
