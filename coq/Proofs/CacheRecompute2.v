(* C05 -- no recomputation, job level and action level. *)
From Coq Require Import ZArith List Bool Lia.
Require Import PV.Model.Cache PV.Model.CacheSpec PV.Proofs.CacheStream PV.Proofs.CacheRecompute.
Import ListNotations.
Open Scope Z_scope.

Section Jobs.
Variable A : Type.
Implicit Types (m : mgr A) (rn : list (node A)).

Variable now : Z.
Variable rid i : Z.                 (* the kept entry is (rid, i) *)
Variable down up : list (node A).
Hypothesis Hfresh : ~ In rid (map fst down).

Let rn0 := down ++ (rid, SPersist) :: up.
(* calls for partition i come from the stages below the persisted node only *)
Let Qk (e : event A) : Prop := ev_part e = i -> In (ev_rid e) (map fst down).

Lemma task_ok : forall i' src m,
  kept A now (rid, i) m ->
  let c := compute now rn0 i' src m in
  stream_in A Qk (fst (fst c)) /\ Forall Qk (snd c) /\ kept A now (rid, i) (snd (fst c)) /\
  m_timeout (snd (fst c)) = m_timeout m.
Proof.
  intros i' src m Hk. destruct (Z.eq_dec i' i) as [->|Hne].
  - apply compute_hit; auto. intros rid' st x Hin. unfold Qk; simpl. intros _.
    apply (in_map fst) in Hin; auto.
  - simpl. pose proof (compute_events A Qk now rn0 i' src m) as [E1 E2].
    { intros rid' st x _. unfold Qk; simpl. intros; congruence. }
    pose proof (compute_keeps A now rn0 i' src m (rid, i) Hk) as [K1 K2]; [left; simpl; congruence|].
    auto.
Qed.

Lemma run_all_ok : forall parts i0 m,
  kept A now (rid, i) m ->
  Forall Qk (snd (fst (run_all now rn0 parts i0 m))) /\ kept A now (rid, i) (snd (run_all now rn0 parts i0 m)).
Proof.
  induction parts as [|src ps IH]; intros i0 m Hk; simpl; auto.
  pose proof (task_ok i0 src m Hk) as [T1 [T2 [T3 T4]]]. simpl in *.
  destruct (compute now rn0 i0 src m) as [[s m1] ev0]; simpl in *.
  specialize (IH (i0 + 1) m1 T3).
  destruct (run_all now rn0 ps (i0 + 1) m1) as [[rest ev2] m2]; simpl in *.
  destruct IH as [I1 I2]. split; auto.
  apply Forall_app; split; auto. apply Forall_app; split; auto. apply stream_in_events; auto.
Qed.

Lemma run_take_ok : forall parts i0 n m,
  kept A now (rid, i) m ->
  Forall Qk (snd (fst (run_take now rn0 parts i0 n m))) /\ kept A now (rid, i) (snd (run_take now rn0 parts i0 n m)).
Proof.
  induction parts as [|src ps IH]; intros i0 n m Hk.
  - destruct n; simpl; auto.
  - destruct n as [|n']; [simpl; auto|].
    change (run_take now rn0 (src :: ps) i0 (Datatypes.S n') m) with
      (let '(s, m1, ev0) := compute now rn0 i0 src m in
       let '(xs, ev1, r) := ltake (Datatypes.S n') (cells s) (trail s) in
       let '(ys, ev2, m2) := run_take now rn0 ps (i0 + 1) r m1 in
       (xs ++ ys, ev0 ++ ev1 ++ ev2, m2)).
    pose proof (task_ok i0 src m Hk) as [T1 [T2 [T3 T4]]]. cbv zeta in T1, T2, T3, T4.
    destruct (compute now rn0 i0 src m) as [[s m1] ev0].
    destruct T1 as [T1a T1b]. cbn [fst snd] in *.
    pose proof (ltake_events A Qk (Datatypes.S n') (cells s) (trail s) T1a T1b) as L.
    remember (ltake (Datatypes.S n') (cells s) (trail s)) as lt eqn:Elt. clear Elt.
    destruct lt as [[xs ev1] r].
    specialize (IH (i0 + 1) r m1 T3).
    destruct (run_take now rn0 ps (i0 + 1) r m1) as [[ys ev2] m2].
    cbn [fst snd] in *. destruct IH as [I1 I2]. split; auto.
    apply Forall_app; split; auto. apply Forall_app; split; auto.
Qed.

(* pool: events of every task, and none of the joined entries is the kept one *)
Lemma pool_tasks_ok : forall parts i0 m0,
  kept A now (rid, i) m0 ->
  Forall (fun t => Forall Qk (snd (fst t)) /\ ~ In (rid, i) (map fst (snd t))) (pool_tasks now rn0 parts i0 m0).
Proof.
  induction parts as [|src ps IH]; intros i0 m0 Hk; simpl; auto.
  specialize (IH (i0 + 1) m0 Hk).
  destruct (Z.eq_dec i0 i) as [->|Hne].
  - assert (Hc : kept A now (rid, i) (m_clone i m0)).
    { destruct Hk as [Hk Hs]. split.
      - unfold has_key in *. apply in_map_iff in Hk. destruct Hk as [e [E Hin]].
        apply in_map_iff. exists e; split; auto. apply m_clone_In; split; auto. rewrite E; reflexivity.
      - unfold stable, m_clone; simpl. destruct (m_timeout m0); auto. intros t []. }
    pose proof (task_ok i src (m_clone i m0) Hc) as [T1 [T2 [T3 T4]]]. simpl in *.
    destruct (compute now rn0 i src (m_clone i m0)) as [[s cl1] ev0]; simpl in *.
    constructor; auto. simpl. split.
    + apply Forall_app; split; auto. apply stream_in_events; auto.
    + intros Hin. apply in_map_iff in Hin. destruct Hin as [e [E Hin]].
      unfold m_not_in in Hin. apply filter_In in Hin. destruct Hin as [_ Hin]. cbv beta in Hin.
      apply negb_true_iff in Hin. destruct e as [k' v']; simpl in E, Hin; subst k'.
      assert (Ht : key_in (rid, i) (m_idents (m_clone i m0)) = true).
      { unfold key_in. apply existsb_exists. exists (rid, i). split; [|apply key_eqb_refl].
        destruct Hc as [Hc _]. exact Hc. }
      congruence.
  - pose proof (compute_events A Qk now rn0 i0 src (m_clone i0 m0)) as [E1 E2].
    { intros rid' st x _. unfold Qk; simpl. intros; congruence. }
    pose proof (compute_new_keys A now rn0 i0 src (m_clone i0 m0)) as NK.
    destruct (compute now rn0 i0 src (m_clone i0 m0)) as [[s cl1] ev0]; simpl in *.
    constructor; auto. simpl. split.
    + apply Forall_app; split; auto. apply stream_in_events; auto.
    + intros Hin. apply in_map_iff in Hin. destruct Hin as [e [E Hin]].
      apply m_not_in_In in Hin. apply NK in Hin. destruct e as [k' v']; simpl in E; subst k'.
      destruct Hin as [Hin|Hin].
      * apply m_clone_In in Hin. destruct Hin as [_ Hin]. simpl in Hin. congruence.
      * simpl in Hin. congruence.
Qed.

Lemma join_all_keeps : forall (ts : list (list A * list (event A) * list (key * (list A * Z)))) m,
  kept A now (rid, i) m -> Forall (fun t => ~ In (rid, i) (map fst (snd t))) ts ->
  kept A now (rid, i) (fold_left (fun acc t => m_join now (snd t) acc) ts m).
Proof.
  induction ts as [|t ts IH]; intros m Hk Hf; simpl; auto.
  inversion Hf; subst. apply IH; auto. apply kept_join; auto.
Qed.

Lemma run_pool_ok : forall parts m,
  kept A now (rid, i) m ->
  Forall Qk (snd (fst (run_pool now rn0 parts m))) /\ kept A now (rid, i) (snd (run_pool now rn0 parts m)).
Proof.
  intros parts m Hk. unfold run_pool; simpl.
  pose proof (pool_tasks_ok parts 0 m Hk) as P. split.
  - induction (pool_tasks now rn0 parts 0 m) as [|t ts IH]; simpl; auto.
    inversion P; subst. destruct H1. apply Forall_app; split; auto.
  - apply join_all_keeps; auto. eapply Forall_impl; [|exact P]. simpl; tauto.
Qed.

Lemma run_action_ok : forall pool parts a m,
  kept A now (rid, i) m ->
  Forall Qk (snd (fst (run_action_on pool now rn0 parts a m))) /\
  kept A now (rid, i) (snd (run_action_on pool now rn0 parts a m)).
Proof.
  intros pool parts a m Hk.
  assert (Hall : forall ak,
     Forall Qk (snd (fst (let '(ps, ev, m') := if pool then run_pool now rn0 parts m else run_all now rn0 parts 0 m in
               (finish ak ps, ev, m')))) /\
     kept A now (rid, i) (snd (let '(ps, ev, m') := if pool then run_pool now rn0 parts m else run_all now rn0 parts 0 m in
               (finish ak ps, ev, m')))).
  { intros ak. destruct pool.
    - pose proof (run_pool_ok parts m Hk) as [R1 R2].
      destruct (run_pool now rn0 parts m) as [[ps ev] m']; simpl in *; auto.
    - pose proof (run_all_ok parts 0 m Hk) as [R1 R2].
      destruct (run_all now rn0 parts 0 m) as [[ps ev] m']; simpl in *; auto. }
  destruct a as [| |n|]; unfold run_action_on; cbv iota.
  - apply Hall.
  - apply Hall.
  - pose proof (run_take_ok parts 0 n m Hk) as [R1 R2].
    destruct (run_take now rn0 parts 0 n m) as [[xs ev] m']; simpl in *; auto.
  - pose proof (run_take_ok parts 0 1%nat m Hk) as [R1 R2].
    destruct (run_take now rn0 parts 0 1%nat m) as [[xs ev] m']; simpl in *; auto.
Qed.

Lemma Qk_no_upstream : forall ups ev,
  (forall x, In x ups -> ~ In x (map fst down)) -> Forall Qk ev -> user_calls_of ups i ev = [].
Proof.
  intros ups ev Hd. induction ev as [|e ev IH]; intros Hf; simpl; auto.
  inversion Hf; subst. rewrite IH; auto.
  destruct (existsb (Z.eqb (ev_rid e)) ups && (ev_part e =? i)) eqn:E; auto.
  apply andb_true_iff in E. destruct E as [E1 E2]. apply Z.eqb_eq in E2.
  apply existsb_exists in E1. destruct E1 as [x [Hx Ex]]. apply Z.eqb_eq in Ex. subst x.
  exfalso. eapply Hd; eauto.
Qed.

End Jobs.

Section Action.
Variable A : Type.

Lemma rev_prefix_decomp : forall (pre post : list (node A)) (nd : node A) jd,
  rev_prefix (length pre + 1 + jd) (pre ++ nd :: post) = rev (firstn jd post) ++ nd :: rev pre.
Proof.
  intros pre post nd jd. unfold rev_prefix.
  rewrite firstn_app. replace (length pre + 1 + jd - length pre)%nat with (Datatypes.S jd) by lia.
  rewrite firstn_all2 by lia. simpl. rewrite rev_app_distr. simpl. rewrite <- app_assoc. reflexivity.
Qed.

(* the action-level statement: nodes = pre ++ persisted node :: post, action on the persisted node
   (jd = 0) or on a descendant (jd > 0) *)
Theorem no_recompute_action : forall pool now (pre post : list (node A)) rid jd parts a i (m : mgr A),
  NoDup (map fst (pre ++ (rid, SPersist) :: post)) ->
  has_key (rid, i) m -> stable now (rid, i) m ->
  let c := run_action_on pool now (rev_prefix (length pre + 1 + jd) (pre ++ (rid, SPersist) :: post)) parts a m in
  user_calls_of (map fst pre) i (snd (fst c)) = [] /\
  has_key (rid, i) (snd c) /\ stable now (rid, i) (snd c).
Proof.
  intros pool now pre post rid jd parts a i m Hnd Hk Hs. rewrite rev_prefix_decomp.
  rewrite map_app in Hnd; simpl in Hnd.
  assert (Hfresh : ~ In rid (map fst (rev (firstn jd post)))).
  { intros Hin. rewrite map_rev in Hin. apply in_rev in Hin.
    apply NoDup_remove_2 in Hnd. apply Hnd. apply in_or_app. right.
    rewrite <- (firstn_skipn jd post), map_app. apply in_or_app; auto. }
  pose proof (run_action_ok A now rid i (rev (firstn jd post)) (rev pre) Hfresh pool parts a m (conj Hk Hs)) as [R1 [R2 R3]].
  cbv zeta. split; [|split; auto].
  eapply Qk_no_upstream; [|exact R1].
  intros x Hx Hin. rewrite map_rev in Hin. apply in_rev in Hin.
  assert (Hp : In x (map fst post)).
  { rewrite <- (firstn_skipn jd post), map_app. apply in_or_app; auto. }
  clear - Hnd Hx Hp.
  induction pre as [|[r s] pre IH]; simpl in *; [contradiction|].
  inversion Hnd; subst. destruct Hx as [<-|Hx]; [|auto].
  apply H1. apply in_or_app. right; right; auto.
Qed.

End Action.
