(* C05 -- persist is transparent: every action of every history returns what the cache-free
   evaluator returns.  Invariant: every entry of every manager holds the contents its key stands for. *)
From Coq Require Import ZArith List Bool Lia.
Require Import PV.Model.Cache PV.Proofs.CacheStream.
Import ListNotations.
Open Scope Z_scope.

Section Correct.
Variable A : Type.
Implicit Types (m : mgr A) (rn : list (node A)).

(* S k d : "d is what key k stands for" *)
Variable S : key -> list A -> Prop.

Definition mgr_ok m : Prop := forall k d t, In (k, (d, t)) (m_entries m) -> S k d.

(* every persist node of the descent is described by S *)
Fixpoint nodes_ok rn (i : Z) (src : list A) : Prop :=
  match rn with
  | [] => True
  | (rid, st) :: up =>
      match st with
      | SPersist => forall d, S (rid, i) d <-> d = plain_rev i up src
      | _ => True
      end /\ nodes_ok up i src
  end.

Fixpoint parts_ok rn (i : Z) (parts : list (list A)) : Prop :=
  match parts with
  | [] => True
  | src :: ps => nodes_ok rn i src /\ parts_ok rn (i + 1) ps
  end.

Lemma mgr_ok_sub : forall m m', (forall e, In e (m_entries m') -> In e (m_entries m)) -> mgr_ok m -> mgr_ok m'.
Proof. unfold mgr_ok; intros m m' H Hm k d t Hin. eapply Hm, H, Hin. Qed.

Lemma mgr_ok_add : forall now k d m, mgr_ok m -> S k d -> mgr_ok (m_add now k d m).
Proof.
  unfold mgr_ok; intros now k d m Hm Hs k' d' t Hin.
  apply m_add_In in Hin. destruct Hin as [E|Hin]; [inversion E; subst; auto | eauto].
Qed.
Lemma mgr_ok_gc : forall now m, mgr_ok m -> mgr_ok (m_gc now m).
Proof. intros now m; apply mgr_ok_sub. apply m_gc_sub. Qed.
Lemma mgr_ok_delete : forall k m, mgr_ok m -> mgr_ok (m_delete k m).
Proof. intros k m; apply mgr_ok_sub. intros e H; apply m_delete_In in H; tauto. Qed.
Lemma mgr_ok_clone : forall i m, mgr_ok m -> mgr_ok (m_clone i m).
Proof. intros i m; apply mgr_ok_sub. intros e H; apply m_clone_In in H; tauto. Qed.
Lemma mgr_ok_join : forall now new m,
  mgr_ok m -> (forall k d t, In (k, (d, t)) new -> S k d) -> mgr_ok (m_join now new m).
Proof.
  unfold mgr_ok; intros now new m Hm Hn k d t Hin.
  apply m_join_In in Hin. destruct Hin as [Hin|[[k' [d' t']] [Hin E]]]; [eauto|].
  simpl in E; inversion E; subst. eauto.
Qed.

(* ---------------------------------------------------------------- one partition *)
Lemma compute_correct : forall now rn i src m,
  mgr_ok m -> nodes_ok rn i src ->
  stream_elems (fst (fst (compute now rn i src m))) = plain_rev i rn src /\
  mgr_ok (snd (fst (compute now rn i src m))).
Proof.
  induction rn as [|[rid st] up IH]; intros i src m Hm Hn; simpl.
  - split; [apply elems_of_list | exact Hm].
  - destruct Hn as [Hst Hup]. specialize (IH i src m Hm Hup).
    destruct st as [f|p|g|fi|h|].
    4: { destruct (compute now up i src m) as [[s m1] ev]; simpl in *.
         destruct IH as [IH1 IH2]. split; auto. rewrite elems_lidx, IH1; reflexivity. }
    4: { destruct (compute now up i src m) as [[s m1] ev]; simpl in *.
         destruct IH as [IH1 IH2]. split; auto. rewrite elems_lpart, IH1; reflexivity. }
    + destruct (compute now up i src m) as [[s m1] ev]; simpl in *.
      destruct IH as [IH1 IH2]. split; auto. rewrite elems_lmap, IH1; reflexivity.
    + destruct (compute now up i src m) as [[s m1] ev]; simpl in *.
      destruct IH as [IH1 IH2]. split; auto. rewrite elems_lfilter, IH1; reflexivity.
    + destruct (compute now up i src m) as [[s m1] ev]; simpl in *.
      destruct IH as [IH1 IH2]. split; auto. rewrite elems_lflat, IH1; reflexivity.
    + destruct (m_get (rid, i) m) as [data|] eqn:G.
      * simpl. apply m_get_In in G. destruct G as [t G]. apply Hm in G. apply Hst in G.
        split; [rewrite elems_of_list; auto | exact Hm].
      * destruct (compute now up i src m) as [[s m1] ev]; simpl in *.
        destruct IH as [IH1 IH2]. split; [rewrite elems_of_list; auto|].
        apply mgr_ok_add; auto. apply Hst; auto.
Qed.

(* ---------------------------------------------------------------- jobs *)
Lemma run_all_correct : forall now rn parts i m,
  mgr_ok m -> parts_ok rn i parts ->
  fst (fst (run_all now rn parts i m)) = imap_from (fun i' => plain_rev i' rn) i parts /\
  mgr_ok (snd (run_all now rn parts i m)).
Proof.
  induction parts as [|src ps IH]; intros i m Hm Hp; simpl; auto.
  destruct Hp as [Hn Hps].
  pose proof (compute_correct now rn i src m Hm Hn) as [C1 C2].
  destruct (compute now rn i src m) as [[s m1] ev0]; simpl in *.
  specialize (IH (i + 1) m1 C2 Hps).
  destruct (run_all now rn ps (i + 1) m1) as [[rest ev2] m2]; simpl in *.
  destruct IH as [-> IH2]. split; auto. f_equal; auto.
Qed.

Lemma run_take_correct : forall now rn parts i n m,
  mgr_ok m -> parts_ok rn i parts ->
  fst (fst (run_take now rn parts i n m)) = firstn n (concat (imap_from (fun i' => plain_rev i' rn) i parts)) /\
  mgr_ok (snd (run_take now rn parts i n m)).
Proof.
  induction parts as [|src ps IH]; intros i n m Hm Hp.
  - destruct n; simpl; auto. 
  - destruct n as [|n']; [simpl; auto|].
    destruct Hp as [Hn Hps].
    change (run_take now rn (src :: ps) i (Datatypes.S n') m) with
      (let '(s, m1, ev0) := compute now rn i src m in
       let '(xs, ev1, r) := ltake (Datatypes.S n') (cells s) (trail s) in
       let '(ys, ev2, m2) := run_take now rn ps (i + 1) r m1 in
       (xs ++ ys, ev0 ++ ev1 ++ ev2, m2)).
    pose proof (compute_correct now rn i src m Hm Hn) as [C1 C2].
    destruct (compute now rn i src m) as [[s m1] ev0].
    pose proof (ltake_spec A (Datatypes.S n') (cells s) (trail s)) as [T1 T2].
    remember (ltake (Datatypes.S n') (cells s) (trail s)) as lt eqn:Elt. clear Elt.
    destruct lt as [[xs ev1] r].
    specialize (IH (i + 1) r m1 C2 Hps).
    destruct (run_take now rn ps (i + 1) r m1) as [[ys ev2] m2].
    cbn [fst snd] in *.
    destruct IH as [IH1 IH2]. split; auto.
    simpl imap_from; simpl concat. rewrite firstn_app. unfold stream_elems in C1.
    rewrite <- C1, <- T1, IH1, T2, map_length. reflexivity.
Qed.

Lemma pool_tasks_correct : forall now rn parts i m0,
  mgr_ok m0 -> parts_ok rn i parts ->
  map (fun t => fst (fst t)) (pool_tasks now rn parts i m0) = imap_from (fun i' => plain_rev i' rn) i parts /\
  Forall (fun t => forall k d tt, In (k, (d, tt)) (snd t) -> S k d) (pool_tasks now rn parts i m0).
Proof.
  induction parts as [|src ps IH]; intros i m0 Hm Hp; simpl; auto.
  destruct Hp as [Hn Hps].
  pose proof (compute_correct now rn i src (m_clone i m0) (mgr_ok_clone i m0 Hm) Hn) as [C1 C2].
  destruct (compute now rn i src (m_clone i m0)) as [[s cl1] ev0]; simpl in *.
  specialize (IH (i + 1) m0 Hm Hps). destruct IH as [IH1 IH2].
  split; [f_equal; auto|].
  constructor; auto. simpl. intros k d tt Hin. apply m_not_in_In in Hin. eapply C2; eauto.
Qed.

Lemma join_all_ok : forall now (ts : list (list A * list (event A) * list (key * (list A * Z)))) m,
  mgr_ok m -> Forall (fun t => forall k d tt, In (k, (d, tt)) (snd t) -> S k d) ts ->
  mgr_ok (fold_left (fun acc t => m_join now (snd t) acc) ts m).
Proof.
  induction ts as [|t ts IH]; intros m Hm Hf; simpl; auto.
  inversion Hf; subst. apply IH; auto. apply mgr_ok_join; auto.
Qed.

Lemma run_pool_correct : forall now rn parts m,
  mgr_ok m -> parts_ok rn 0 parts ->
  fst (fst (run_pool now rn parts m)) = imap_from (fun i' => plain_rev i' rn) 0 parts /\
  mgr_ok (snd (run_pool now rn parts m)).
Proof.
  intros now rn parts m Hm Hp. unfold run_pool; simpl.
  pose proof (pool_tasks_correct now rn parts 0 m Hm Hp) as [P1 P2].
  split; auto. apply join_all_ok; auto.
Qed.

Lemma run_action_correct : forall pool now rn parts a m,
  mgr_ok m -> parts_ok rn 0 parts ->
  fst (fst (run_action_on pool now rn parts a m)) = finish a (imap_from (fun i' => plain_rev i' rn) 0 parts) /\
  mgr_ok (snd (run_action_on pool now rn parts a m)).
Proof.
  intros pool now rn parts a m Hm Hp.
  assert (Hall : forall ak, (ak = ACollect \/ ak = ACount) ->
     fst (fst (let '(ps, ev, m') := if pool then run_pool now rn parts m else run_all now rn parts 0 m in
               (finish ak ps, ev, m'))) = finish ak (imap_from (fun i' => plain_rev i' rn) 0 parts) /\
     mgr_ok (snd (let '(ps, ev, m') := if pool then run_pool now rn parts m else run_all now rn parts 0 m in
               (finish ak ps, ev, m')))).
  { intros ak _. destruct pool.
    - pose proof (run_pool_correct now rn parts m Hm Hp) as [R1 R2].
      destruct (run_pool now rn parts m) as [[ps ev] m']; simpl in *. subst; auto.
    - pose proof (run_all_correct now rn parts 0 m Hm Hp) as [R1 R2].
      destruct (run_all now rn parts 0 m) as [[ps ev] m']; simpl in *. subst; auto. }
  destruct a as [| |n|]; unfold run_action_on; cbv iota.
  - apply Hall; auto.
  - apply Hall; auto.
  - pose proof (run_take_correct now rn parts 0 n m Hm Hp) as [R1 R2].
    destruct (run_take now rn parts 0 n m) as [[xs ev] m']; simpl in *. subst; auto.
  - pose proof (run_take_correct now rn parts 0 1%nat m Hm Hp) as [R1 R2].
    destruct (run_take now rn parts 0 1%nat m) as [[xs ev] m']; simpl in *. split; auto.
    rewrite R1. destruct (concat (imap_from (fun i' => plain_rev i' rn) 0 parts)); reflexivity.
Qed.

Lemma delete_parts_ok : forall rid n i m, mgr_ok m -> mgr_ok (delete_parts rid n i m).
Proof.
  induction n as [|n IH]; intros i m Hm; simpl; auto. apply IH, mgr_ok_delete, Hm.
Qed.

End Correct.
