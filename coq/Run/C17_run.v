(* Correspondence entry point for C17.  A case is a tuple led by a tag:
     VTup [VInt 0; parts]         RDD with exactly these partitions: stats() fields and the RDD-level accessors
     VTup [VInt 1; parts; prog]   StatCounter objects (one per partition) merged in the order given by [prog]
     VTup [VInt 2; parts]         DataFrame with these partitions of (x, y) rows: covariance helper fields, cov, corr
     VTup [VInt 3; parts; prog]   CovarianceCounter objects merged in the order given by [prog]
   parts : VList of VList of numbers (VInt / VFloat) resp. of VTup [x; y];
   prog  : a merge tree in postfix form: i >= 0 pushes the summary of partition i, -1 pops r then l and pushes
           l.mergeStats(r), -2 pops s and pushes s.mergeStats(s). *)
From Coq Require Import ZArith List Bool String.
From Coq Require Import PrimFloat.
Require Import PV.Base.Val PV.Base.Num PV.Base.SqrtOps PV.Model.Stats.
Import ListNotations.
Open Scope Z_scope.

Definition as_num (v : val) : option float :=
  match v with VInt z => Some (float_of_Z z) | VFloat f => Some f | _ => None end.

Definition as_pair (v : val) : option (float * float) :=
  match v with
  | VTup [a; b] => match as_num a, as_num b with Some x, Some y => Some (x, y) | _, _ => None end
  | _ => None
  end.

Fixpoint all_of {A} (f : val -> option A) (l : list val) : option (list A) :=
  match l with
  | [] => Some []
  | v :: l' => match f v, all_of f l' with Some x, Some r => Some (x :: r) | _, _ => None end
  end.

Definition as_part {A} (f : val -> option A) (v : val) : option (list A) :=
  match v with VList l => all_of f l | _ => None end.

Definition as_partitions {A} (f : val -> option A) (v : val) : option (list (list A)) :=
  match v with VList l => all_of (as_part f) l | _ => None end.

Fixpoint rpn {A} (parts : list (list A)) (prog : list Z) (stack : list (mtree A)) : option (mtree A) :=
  match prog with
  | [] => match stack with [t] => Some t | _ => None end
  | op :: prog' =>
      if op =? -1 then
        match stack with r :: l :: st => rpn parts prog' (MNode l r :: st) | _ => None end
      else if op =? -2 then
        match stack with t :: st => rpn parts prog' (MSelf t :: st) | _ => None end
      else if 0 <=? op then
        match nth_error parts (Z.to_nat op) with
        | Some p => rpn parts prog' (MLeaf p :: stack)
        | None => None
        end
      else None
  end.

Definition as_prog (v : val) : option (list Z) :=
  match v with VList l => all_Z l | _ => None end.

Definition run (c : val) : val :=
  match c with
  | VTup [VInt 0; ps] =>
      match as_partitions as_num ps with
      | Some parts => sc_view (rdd_stats neg_infinity infinity parts)
      | None => VBad
      end
  | VTup [VInt 1; ps; pg] =>
      match as_partitions as_num ps, as_prog pg with
      | Some parts, Some prog =>
          match rpn parts prog [] with
          | Some t => sc_view (tree_stats neg_infinity infinity t)
          | None => VBad
          end
      | _, _ => VBad
      end
  | VTup [VInt 2; ps] =>
      match as_partitions as_pair ps with
      | Some parts =>
          let h := df_cov_helper parts in
          VTup [cc_view h; opt_val (cv_samp h); py_corr h]
      | None => VBad
      end
  | VTup [VInt 3; ps; pg] =>
      match as_partitions as_pair ps, as_prog pg with
      | Some parts, Some prog =>
          match rpn parts prog [] with
          | Some t => cc_view (tree_cov t)
          | None => VBad
          end
      | _, _ => VBad
      end
  | _ => VBad
  end.
