(* Correspondence entry point for C17.  A case is a tuple led by a tag:
     VTup [VInt 0; parts]         RDD with exactly these partitions: stats() fields and the RDD-level accessors
     VTup [VInt 1; parts; prog]   StatCounter objects (one per partition) merged in the order given by [prog]
     VTup [VInt 2; parts]         DataFrame with these partitions of (x, y) rows: covariance helper fields, cov, corr
     VTup [VInt 3; parts; prog]   CovarianceCounter objects merged in the order given by [prog]
     VTup [VInt 4; rdds; sprog]   a session on REUSED RDD objects (Model.Stats.session): observations, final stack
     VTup [VInt 5; parts; oprog]  a session on a pool of StatCounter OBJECTS reused by several folds (sc_osession):
                                  the fields of every live object after every step, full views at the end
     VTup [VInt 6; parts; oprog]  the same on CovarianceCounter objects (cc_osession)
   parts : VList of VList of numbers (VInt / VFloat) resp. of VTup [x; y];
   prog  : a merge tree in postfix form: i >= 0 pushes the summary of partition i, -1 pops r then l and pushes
           l.mergeStats(r), -2 pops s and pushes s.mergeStats(s). *)
From Coq Require Import ZArith List Bool String.
From Coq Require Import PrimFloat.
Require Import PV.Base.Val PV.Base.Num PV.Base.SqrtOps PV.Model.Stats.
Import ListNotations.
Open Scope Z_scope.

Definition as_num (v : val) : option float :=
  match v with VInt z => Some (float_of_Z z) | VFloat f => Some f | _ => None end.

Definition as_pair (v : val) : option (float * float) :=
  match v with
  | VTup [a; b] => match as_num a, as_num b with Some x, Some y => Some (x, y) | _, _ => None end
  | _ => None
  end.

Fixpoint all_of {A} (f : val -> option A) (l : list val) : option (list A) :=
  match l with
  | [] => Some []
  | v :: l' => match f v, all_of f l' with Some x, Some r => Some (x :: r) | _, _ => None end
  end.

Definition as_part {A} (f : val -> option A) (v : val) : option (list A) :=
  match v with VList l => all_of f l | _ => None end.

Definition as_partitions {A} (f : val -> option A) (v : val) : option (list (list A)) :=
  match v with VList l => all_of (as_part f) l | _ => None end.

Fixpoint rpn {A} (parts : list (list A)) (prog : list Z) (stack : list (mtree A)) : option (mtree A) :=
  match prog with
  | [] => match stack with [t] => Some t | _ => None end
  | op :: prog' =>
      if op =? -1 then
        match stack with r :: l :: st => rpn parts prog' (MNode l r :: st) | _ => None end
      else if op =? -2 then
        match stack with t :: st => rpn parts prog' (MSelf t :: st) | _ => None end
      else if 0 <=? op then
        match nth_error parts (Z.to_nat op) with
        | Some p => rpn parts prog' (MLeaf p :: stack)
        | None => None
        end
      else None
  end.

Definition as_prog (v : val) : option (list Z) :=
  match v with VList l => all_Z l | _ => None end.

(* session programs: VList of VTup [VInt opcode; arg]: 0 i push, 1 merge, 2 self-merge, 3 v fold, 4 j observe *)
Definition as_sop (v : val) : option (@sop FloatOps) :=
  match v with
  | VTup [VInt 0; VInt i] => if 0 <=? i then Some (SPush (Z.to_nat i)) else None
  | VTup [VInt 1; _] => Some SMerge
  | VTup [VInt 2; _] => Some SSelf
  | VTup [VInt 3; x] => match as_num x with Some f => Some (SFold f) | None => None end
  | VTup [VInt 4; VInt j] => if 0 <=? j then Some (SObserve (Z.to_nat j)) else None
  | _ => None
  end.

(* object-session programs: VList of VTup [VInt opcode; VInt i; arg]: 0 new, 1 copy i, 2 merge i j, 3 fold i v *)
Definition as_oop {D} (f : val -> option D) (v : val) : option (oop D) :=
  match v with
  | VTup [VInt 0; _; _] => Some ONew
  | VTup [VInt 1; VInt i; _] => if 0 <=? i then Some (OCopy (Z.to_nat i)) else None
  | VTup [VInt 2; VInt i; VInt j] => if (0 <=? i) && (0 <=? j) then Some (OMerge (Z.to_nat i) (Z.to_nat j)) else None
  | VTup [VInt 3; VInt i; x] =>
      match f x with Some d => if 0 <=? i then Some (OFold (Z.to_nat i) d) else None | None => None end
  | _ => None
  end.

Definition last_or_nil {A} (l : list (list A)) : list A := last l [].

Definition run (c : val) : val :=
  match c with
  | VTup [VInt 0; ps] =>
      match as_partitions as_num ps with
      | Some parts => sc_view (rdd_stats neg_infinity infinity parts)
      | None => VBad
      end
  | VTup [VInt 1; ps; pg] =>
      match as_partitions as_num ps, as_prog pg with
      | Some parts, Some prog =>
          match rpn parts prog [] with
          | Some t => sc_view (tree_stats neg_infinity infinity t)
          | None => VBad
          end
      | _, _ => VBad
      end
  | VTup [VInt 2; ps] =>
      match as_partitions as_pair ps with
      | Some parts =>
          let h := df_cov_helper parts in
          VTup [cc_view h; opt_val (cv_samp h); py_corr h]
      | None => VBad
      end
  | VTup [VInt 3; ps; pg] =>
      match as_partitions as_pair ps, as_prog pg with
      | Some parts, Some prog =>
          match rpn parts prog [] with
          | Some t => cc_view (tree_cov t)
          | None => VBad
          end
      | _, _ => VBad
      end
  | VTup [VInt 4; rs; pg] =>
      match (match rs with VList l => all_of (as_partitions as_num) l | _ => None end),
            (match pg with VList l => all_of as_sop l | _ => None end) with
      | Some rdds, Some prog =>
          match session neg_infinity infinity rdds prog [] [] with
          | Some (obs, stack) =>
              VTup [VList (map (fun o => sc_view (fst o)) obs); VList (map (fun o => sc_view (fst o)) (rev stack))]
          | None => VBad
          end
      | _, _ => VBad
      end
  | VTup [VInt 5; ps; pg] =>
      match as_partitions as_num ps, (match pg with VList l => all_of (as_oop as_num) l | _ => None end) with
      | Some parts, Some prog =>
          match sc_osession neg_infinity infinity parts prog with
          | Some tr =>
              VTup [VList (map (fun pool => VList (map (fun o => sc_fields_view (fst o)) pool)) tr);
                    VList (map (fun o => sc_view (fst o)) (last_or_nil tr))]
          | None => VBad
          end
      | _, _ => VBad
      end
  | VTup [VInt 6; ps; pg] =>
      match as_partitions as_pair ps, (match pg with VList l => all_of (as_oop as_pair) l | _ => None end) with
      | Some parts, Some prog =>
          match cc_osession parts prog with
          | Some tr =>
              VTup [VList (map (fun pool => VList (map (fun o => cc_fields_view (fst o)) pool)) tr);
                    VList (map (fun o => cc_view (fst o)) (last_or_nil tr))]
          | None => VBad
          end
      | _, _ => VBad
      end
  | _ => VBad
  end.
