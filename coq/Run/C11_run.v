(* Correspondence entry point for C11.
   case   = VTup [VInt kind; VInt w; VInt s; VInt ucode; VInt k; VList batches; VList times]
            kind 0: window(w, s) with k capturing consumers      1: countByWindow(w, s) with k consumers
                 2: updateStateByKey(u) with k consumers         3: window and updateStateByKey on one source, k each
                 4: countByWindow and (registered after it) updateStateByKey on one source, k consumers each
                 5 / 6: window / countByWindow over a DERIVED stream (variant pv, see Model.derived_parent) with k
                        consumers, plus one consumer (k) on the parent; an optional 8th component carries pv
            7: sibling windowed views of the source (10th component: VList of VTup [VBool count; VInt w; VInt s]), one
               consumer per view
            a queue entry: see as_entry; a 9th component carries the default= batch of queueStream (VNone: none)
            ucode 0 sum, 1 last, 2 count, 3 append, 4 history, 5 idle, 6 decay, 7 reset, 8 min-or-None, 9 first, 10 concat; batches: the queue contents; times: the clock value of every tick
   result = VTup [VList node_kinds; VList ticks]
            node_kinds: the classes of ssc._dstreams in registration order (0 DStream, 1 Transformed, 2 Windowed, 3 Stateful, 4 TransformedWith)
            ticks: per tick VTup [VList [VTup [VInt consumer; captured]]; error], captured = VNone | VList elements
                   (captures of a stateful stream sorted by key), error = VNone | VStr exception class name *)
From Coq Require Import ZArith NArith Bool String Ascii List.
Require Import PV.Base.Val PV.Model.Window.
Import ListNotations.
Open Scope Z_scope.

Definition ufun_of_code (c : Z) : option (list val -> val -> val) :=
  match c with
  | 0 => Some u_sum | 1 => Some u_last | 2 => Some u_count | 3 => Some u_append
  | 4 => Some u_history | 5 => Some u_idle | 6 => Some u_decay
  | 7 => Some u_reset | 8 => Some u_minopt | 9 => Some u_first | 10 => Some u_concat
  | _ => None
  end.

(* a queue entry: VNone (an explicit idle interval), VList data (a plain list), or VTup [VInt form; VInt n; VList data]:
   an RDD -- form 0 sc.parallelize(data, n), 1 sc.parallelize(data, n).map(INC), 2 sc.parallelize(data, n).filter(EVEN)
   (the number of partitions n is not observable, see Model/Window.v), 9 the very same RDD object as the previous entry *)
Definition as_entry (prev : option (list val)) (v : val) : option (option (list val)) :=
  match v with
  | VNone => Some None
  | VList b => Some (Some b)
  | VTup [VInt form; VInt _; VList b] =>
      match form with
      | 0 => Some (Some b)
      | 1 => Some (Some (map v_inc b))
      | 2 => Some (Some (filter v_even b))
      | 9 => Some prev
      | _ => None
      end
  | _ => None
  end.
Fixpoint as_entries (prev : option (list val)) (l : list val) : option (list (option (list val))) :=
  match l with
  | [] => Some []
  | v :: l' => match as_entry prev v with
               | Some e => match as_entries e l' with Some r => Some (e :: r) | None => None end
               | None => None
               end
  end.

Fixpoint as_views (l : list val) : option (list (bool * Z * Z)) :=
  match l with
  | [] => Some []
  | VTup [VBool c; VInt w; VInt s] :: l' => match as_views l' with Some r => Some ((c, w, s) :: r) | None => None end
  | _ => None
  end.

Fixpoint ins_kv (p : Z * val) (l : list (Z * val)) : list (Z * val) :=
  match l with
  | [] => [p]
  | q :: l' => if fst p <? fst q then p :: l else q :: ins_kv p l'
  end.
Definition sort_kv (l : list (Z * val)) : list (Z * val) := fold_right ins_kv [] l.

Definition kind_code (nd : node) : val :=
  match nd with
  | Src _ => VInt 0 | Trans _ _ => VInt 1 | Window _ _ _ => VInt 2 | Stateful _ _ => VInt 3 | Union _ _ => VInt 4
  end.

Definition str_of_string (s : string) : list N := map (fun a => N_of_ascii a) (list_ascii_of_string s).

(* consumers whose captures are state RDDs (compared sorted by key) *)
Definition keyed_consumer (kind k j : Z) : bool :=
  match kind with 2 => true | 3 => k <=? j | 4 => k <=? j | _ => false end.

Definition enc_capture (keyed : bool) (c : option (list val)) : val :=
  match c with
  | None => VNone
  | Some xs =>
      if keyed then match all_kv xs with Some l => VList (map enc_kv (sort_kv l)) | None => VList xs end
      else VList xs
  end.

Definition enc_tick (kind k : Z) (log : list logentry) (te : Z * option string) : val :=
  let '(t, e) := te in
  VTup [VList (map (fun en => let '(_, j, c) := en in VTup [VInt j; enc_capture (keyed_consumer kind k j) c])
                   (filter (fun en => let '(t', _, _) := en in t' =? t) log));
        match e with None => VNone | Some s => VStr (str_of_string s) end].

Definition graph_of (kind w s pv : Z) (u : list val -> val -> val) (k : nat) (q : source) (views : list (bool * Z * Z))
  : option (list node) :=
  match kind with
  | 7 => Some (prog_views q views)
  | 5 => match derived_parent pv u q with Some pre => Some (prog_window_over false pre w s k) | None => None end
  | 6 => match derived_parent pv u q with Some pre => Some (prog_window_over true pre w s k) | None => None end
  | 0 => Some (prog_window q w s k)
  | 1 => Some (prog_count q w s k)
  | 2 => Some (prog_state q u k)
  | 3 => Some (prog_both q w s u k)
  | 4 => Some (prog_count_state q w s u k)
  | _ => None
  end.

(* entries are selected by tick time; a time that occurs twice in the history would mix two ticks, so the
   entries of every tick are taken from the log produced by that tick alone *)
Fixpoint run_enc (kind k : Z) (g : list node) (ts : list Z) (st : gstate) : list val :=
  match ts with
  | [] => []
  | t :: ts' =>
      let '(st1, e) := tick g t (mkG (gnodes st) []) in
      enc_tick kind k (glog st1) (t, e) :: run_enc kind k g ts' st1
  end.

Definition run_with (kind w s uc k : Z) (bs ts : list val) (pv : Z) (dflt : val) (vws : list val) : val :=
  match ufun_of_code uc, as_entries None bs, all_Z ts, as_entry None dflt, as_views vws with
  | Some u, Some q, Some times, Some d, Some views =>
      if k <? 0 then VBad else
      match graph_of kind w s pv u (Z.to_nat k) (mkSource q d) views with
      | Some g => VTup [VList (map kind_code g); VList (run_enc kind k g times (init_state g))]
      | None => VBad
      end
  | _, _, _, _, _ => VBad
  end.

Definition run (c : val) : val :=
  match c with
  | VTup [VInt kind; VInt w; VInt s; VInt uc; VInt k; VList bs; VList ts] => run_with kind w s uc k bs ts 0 VNone []
  | VTup [VInt kind; VInt w; VInt s; VInt uc; VInt k; VList bs; VList ts; VInt pv] =>
      run_with kind w s uc k bs ts pv VNone []
  | VTup [VInt kind; VInt w; VInt s; VInt uc; VInt k; VList bs; VList ts; VInt pv; dflt; VList vws] =>
      run_with kind w s uc k bs ts pv dflt vws
  | _ => VBad
  end.
