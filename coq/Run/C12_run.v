(* Correspondence entry point for C12.
   case = VTup [table1; table2; ops; conv]      (conv: which public calling conventions the harness uses)
     table = VTup [VList names; VList partitions]      partition = VList rows, row = VTup cells
     cell  = VNone | VInt | VFloat | VStr | VBool
     expr  = VTup (VInt tag :: args)                    (tags below)
     op    = VTup (VInt tag :: args)
   result = VTup [VList names; VList rows]; when the chain contains distinct / dropDuplicates the row
   order is unspecified and both sides list the rows sorted by a fixed total order on cells. *)
From Coq Require Import ZArith NArith Bool String List.
From Coq Require Import PrimFloat.
Require Import PV.Base.Val PV.Model.SqlExpr PV.Model.SqlRel.
Import ListNotations.
Open Scope Z_scope.

Definition dec_cell (v : val) : option sval :=
  match v with
  | VNone => Some SNull
  | VInt z => Some (SInt z)
  | VFloat f => Some (SDbl f)
  | VStr s => Some (SStr s)
  | VBool b => Some (SBool b)
  | _ => None
  end.

Definition enc_cell (v : sval) : val :=
  match v with
  | SNull => VNone
  | SInt z => VInt z
  | SDbl f => VFloat f
  | SStr s => VStr s
  | SBool b => VBool b
  end.

Definition dec_aop (z : Z) : option aop :=
  match z with 0 => Some AAdd | 1 => Some ASub | 2 => Some AMul | 3 => Some ADiv | 4 => Some AMod | _ => None end.
Definition dec_cop (z : Z) : option cop :=
  match z with 0 => Some CEq | 1 => Some CLt | 2 => Some CLe | 3 => Some CGt | 4 => Some CGe | _ => None end.
Definition dec_dir (z : Z) : option sdir :=
  match z with
  | 0 => Some DPlain | 1 => Some DAsc | 2 => Some DAscNF | 3 => Some DAscNL
  | 4 => Some DDesc | 5 => Some DDescNF | 6 => Some DDescNL | _ => None
  end.

Definition bind {A B} (o : option A) (f : A -> option B) : option B :=
  match o with Some x => f x | None => None end.

Fixpoint dec_expr (fuel : nat) (v : val) : option expr :=
  match fuel with
  | O => None
  | S fu =>
      let de := dec_expr fu in
      match v with
      | VTup [VInt 0; VStr n] => Some (ECol n)
      | VTup [VInt 1; c] => option_map ELit (dec_cell c)
      | VTup [VInt 2; a] => option_map ENeg (de a)
      | VTup [VInt 3; VInt o; a; b] =>
          bind (dec_aop o) (fun o' => bind (de a) (fun a' => bind (de b) (fun b' => Some (EArith o' a' b'))))
      | VTup [VInt 4; VInt o; a; b] =>
          bind (dec_cop o) (fun o' => bind (de a) (fun a' => bind (de b) (fun b' => Some (ECmp o' a' b'))))
      | VTup [VInt 5; a; b] => bind (de a) (fun a' => bind (de b) (fun b' => Some (EAnd a' b')))
      | VTup [VInt 6; a; b] => bind (de a) (fun a' => bind (de b) (fun b' => Some (EOr a' b')))
      | VTup [VInt 7; a] => option_map ENot (de a)
      | VTup [VInt 8; a] => option_map EIsNull (de a)
      | VTup [VInt 9; a] => option_map EIsNotNull (de a)
      | VTup [VInt 10; VList es] => option_map ECoalesce (map_opt de es)
      | VTup [VInt 11; VList bs; d] =>
          bind (map_opt (fun p => match p with
                                  | VTup [c; x] => bind (de c) (fun c' => bind (de x) (fun x' => Some (c', x')))
                                  | _ => None end) bs)
               (fun bs' => match d with
                           | VNone => Some (ECase bs' None)
                           | _ => bind (de d) (fun d' => Some (ECase bs' (Some d')))
                           end)
      | VTup [VInt 12; a; VStr n] => bind (de a) (fun a' => Some (EAlias a' n))
      | VTup [VInt 13; a; lo; hi] =>
          bind (de a) (fun a' => bind (de lo) (fun lo' => bind (de hi) (fun hi' => Some (EBetween a' lo' hi'))))
      | VTup [VInt 14; a; b] => bind (de a) (fun a' => bind (de b) (fun b' => Some (ENe a' b')))
      | _ => None
      end
  end.

Definition dec_name (v : val) : option name := match v with VStr s => Some s | _ => None end.
Definition dec_names (v : val) : option (list name) :=
  match v with VList l => map_opt dec_name l | _ => None end.

Definition dec_key (fuel : nat) (v : val) : option (expr * sdir) :=
  match v with
  | VTup [e; VInt d] => bind (dec_expr fuel e) (fun e' => bind (dec_dir d) (fun d' => Some (e', d')))
  | _ => None
  end.

Definition FUEL : nat := 24.

Definition dec_flag (v : val) : option bool :=
  match v with VBool b => Some b | VInt z => Some (negb (z =? 0)) | _ => None end.
(* the `ascending` argument: absent (VNone), a bool or int scalar, or a list of bools / ints *)
Definition dec_asc (v : val) : option asc_arg :=
  match v with
  | VNone => Some AscAbsent
  | VList l => option_map AscList (map_opt dec_flag l)
  | _ => option_map AscScalar (dec_flag v)
  end.

Fixpoint dec_op (fuel : nat) (v : val) : option op :=
  match fuel with
  | O => None
  | S fu =>
      match v with
      | VTup [VInt 0; VList es] => option_map OSelect (map_opt (dec_expr FUEL) es)
      | VTup [VInt 1; c] => option_map OFilter (dec_expr FUEL c)
      | VTup [VInt 2; VStr n; e] => option_map (OWithColumn n) (dec_expr FUEL e)
      | VTup [VInt 3; ns] => option_map ODrop (dec_names ns)
      | VTup [VInt 4; VStr a; VStr b] => Some (ORename a b)
      | VTup [VInt 5; ns] => option_map OToDF (dec_names ns)
      | VTup [VInt 6; VList os] => option_map OUnion (map_opt (dec_op fu) os)
      | VTup [VInt 7; VList os] => option_map OUnionByName (map_opt (dec_op fu) os)
      | VTup [VInt 8] => Some ODistinct
      | VTup [VInt 9; ns] => option_map ODropDuplicates (dec_names ns)
      | VTup [VInt 10; VList ks; a] =>
          bind (map_opt (dec_key FUEL) ks) (fun ks' => bind (dec_asc a) (fun a' => Some (OSort ks' a')))
      | VTup [VInt 11; VInt n] => if n <? 0 then None else Some (OLimit (Z.to_nat n))
      | _ => None
      end
  end.

Definition dec_row (v : val) : option row :=
  match v with VTup cs => map_opt dec_cell cs | _ => None end.
Definition dec_part (v : val) : option (list row) :=
  match v with VList rs => map_opt dec_row rs | _ => None end.
Definition dec_table (v : val) : option df :=
  match v with
  | VTup [ns; _; VList ps] =>
      bind (dec_names ns) (fun ns' => bind (map_opt dec_part ps) (fun ps' => Some (mkdf ns' ps')))
  | _ => None
  end.

(* ---------- canonical order of result rows when the implementation's order is unspecified *)
Definition cell_rank (v : val) : Z :=
  match v with VNone => 0 | VBool _ => 1 | VInt _ => 2 | VFloat _ => 3 | VStr _ => 4 | _ => 5 end.

Definition float_cmp (a b : float) : comparison :=
  if PrimFloat.ltb a b then Lt else if PrimFloat.ltb b a then Gt
  else
    let ia := PrimFloat.div PrimFloat.one a in let ib := PrimFloat.div PrimFloat.one b in
    if PrimFloat.ltb ia ib then Lt else if PrimFloat.ltb ib ia then Gt else Eq.

Definition cell_cmp (a b : val) : comparison :=
  match Z.compare (cell_rank a) (cell_rank b) with
  | Eq =>
      match a, b with
      | VBool x, VBool y => bool_cmp x y
      | VInt x, VInt y => Z.compare x y
      | VFloat x, VFloat y => float_cmp x y
      | VStr x, VStr y => str_cmp x y
      | _, _ => Eq
      end
  | c => c
  end.

Fixpoint cells_lt (a b : list val) : bool :=
  match a, b with
  | [], _ :: _ => true
  | x :: a', y :: b' => match cell_cmp x y with Lt => true | Gt => false | Eq => cells_lt a' b' end
  | _, _ => false
  end.

Definition canon_rows (rs : list row) : list row :=
  isort (fun a b => cells_lt (map enc_cell a) (map enc_cell b)) rs.

Fixpoint op_unordered (fuel : nat) (o : op) : bool :=
  match fuel with
  | O => true
  | S fu =>
      match o with
      | ODistinct | ODropDuplicates _ => true
      | OUnion os | OUnionByName os => existsb (op_unordered fu) os
      | _ => false
      end
  end.

Definition one_partition (h : nat) (l : list row) : list (list row) := [l].

Definition enc_frame (unordered : bool) (d : df) : val :=
  let rows := collect d in
  let rows' := if unordered then canon_rows rows else rows in
  VTup [VList (map VStr (cols d)); VList (map (fun r => VTup (map enc_cell r)) rows')].

(* the frame after every step; None as soon as a step raises *)
Fixpoint run_steps (t2 : df) (ops : list op) (d : df) (unordered : bool) : option (list val) :=
  match ops with
  | [] => Some []
  | o :: ops' =>
      match step one_partition t2 o d with
      | Some d' =>
          let u := unordered || op_unordered 4 o in
          match run_steps t2 ops' d' u with
          | Some rest => Some (enc_frame u d' :: rest)
          | None => None
          end
      | None => None
      end
  end.

Definition run (c : val) : val :=
  match c with
  | VTup [t1; t2; VList os; _] =>   (* 4th component: calling-convention seed, used by the harness only *)
      match dec_table t1, dec_table t2, map_opt (dec_op 4) os with
      | Some d1, Some d2, Some ops =>
          match run_steps d2 ops d1 false with
          | Some frames => VList (enc_frame false d1 :: frames)
          | None => VErr "ModelNone"
          end
      | _, _, _ => VBad
      end
  | _ => VBad
  end.
