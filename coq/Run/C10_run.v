(* Correspondence entry point for C10.
   case   = VTup [program; history]
   program = VList of calls, call = VTup (VInt opcode :: arguments), stream arguments are handles
             (= position of an earlier call); the user functions come from the finite library below
             (the same functions exist as Python callables in py/c10.py).
   history = VList of VTup [VInt t; VList of VTup [VInt handle_of_file_source; listing]]
             listing = VList of VTup [VStr name; VList lines]
   result = VTup [structure of ssc._dstreams; per tick (events, node states)]  (see py/c10.py) *)
From Coq Require Import String ZArith NArith List Bool.
Require Import PV.Base.Val PV.Model.DStreamRdd PV.Model.DStream.
Import ListNotations.
Open Scope Z_scope.

(* ---------- function library ---------- *)
Definition zmod (a b : Z) : Z := a mod b.           (* Python % *)
Definition bad : val := VErr "TypeError".
Definition on_int (f : Z -> val) (v : val) : val := match v with VInt x => f x | _ => bad end.
Definition z_of (v : val) : Z := match v with VInt x => x | _ => 0 end.   (* None counts as 0 in f_pairsum *)
Definition sum_ints (l : list val) : Z := fold_left (fun a v => a + z_of v) l 0.

Fixpoint str_to_int (s : list N) (acc : Z) : Z :=
  match s with [] => acc | c :: s' => str_to_int s' (acc * 10 + (Z.of_N c - 48)) end.

(* element -> element *)
Definition efun (tag : Z) : val -> val :=
  match tag with
  | 0 => fun v => v
  | 1 => on_int (fun x => VInt (x + 1))
  | 2 => on_int (fun x => VInt (2 * x))
  | 3 => on_int (fun x => VInt (- x))
  | 4 => on_int (fun x => v_pair (VInt (zmod x 2)) (VInt x))
  | 5 => on_int (fun x => v_pair (VInt (zmod x 3)) (VInt x))
  | 6 => v_snd
  | 7 => fun e => VInt (z_of (v_fst e) + z_of (v_snd e))
  | 8 => fun v => match v with VStr s => VInt (str_to_int s 0) | _ => bad end
  | 9 => fun e => v_pair (v_snd e) (v_fst e)
  (* value -> value (mapValues) *)
  | 20 => fun v => VInt (Z.of_nat (length (v_items v)))
  | 21 => fun v => VInt (sum_ints (v_items v))
  | 22 => fun v => VInt (z_of (v_fst v) + z_of (v_snd v))
  | 23 => fun v => VInt (Z.of_nat (length (v_items (v_fst v)) + length (v_items (v_snd v))))
  | _ => fun _ => bad
  end.

(* element -> list *)
Definition gfun (tag : Z) : val -> list val :=
  match tag with
  | 0 => fun v => [v; v]
  | 1 => fun v => match v with VInt x => map VInt (PV.Base.PyArith.zrange 0 (zmod x 3)) | _ => [] end
  | 2 => fun _ => []
  | 3 => fun v => match v with
                  | VInt x => [v_pair (VInt (zmod x 2)) (VInt x); v_pair (VInt (zmod x 3)) (VInt (x + 1))]
                  | _ => [] end
  | 4 => v_items
  | _ => fun _ => []
  end.

Definition pfun (tag : Z) : val -> bool :=
  match tag with
  | 0 => fun _ => true
  | 1 => fun _ => false
  | 2 => fun v => zmod (z_of v) 2 =? 0
  | 3 => fun v => 0 <? z_of v
  | 4 => fun e => z_of (v_fst e) =? 0
  | 5 => fun e => zmod (z_of (v_snd e)) 2 =? 0
  | _ => fun _ => false
  end.

Definition opfun (tag : Z) : val -> val -> val :=
  match tag with
  | 0 => op_add
  | 1 => fun a b => VInt (Z.max (z_of a) (z_of b))
  | 2 => fun a b => VInt (Z.min (z_of a) (z_of b))
  (* neither associative nor commutative: the bracketing and the order of the RDD operation matter *)
  | 3 => fun a b => VInt (z_of a - z_of b)
  | 4 => fun a b => VInt ((z_of a + z_of b) / 2)       (* Python // *)
  | 5 => fun a _ => a
  | 6 => fun _ b => b
  | 7 => fun a b => VInt (2 * z_of a - z_of b)
  | _ => fun _ _ => bad
  end.

(* rdd -> rdd functions given to transform(); tags 1 and 5 are the two-argument (time, rdd) form *)
Definition tfun (tag : Z) : Z -> rv -> rv :=
  match tag with
  | 0 => lift1 (fun r => r)
  | 1 => fun _ a => a
  | 2 => lift1 (rdd_map (efun 1))
  | 3 => lift1 (rdd_filter (pfun 2))
  | 4 => lift1 (fun r => rdd_map (efun 2) (rdd_filter (pfun 3) r))
  | 5 => fun t a => match a with RRdd r => RRdd (rdd_map (on_int (fun x => VInt (x + t))) r) | RNone => RNone end
  | 6 => fun _ _ => RNone          (* lambda rdd: None -- children take the early return of _step *)
  (* the same functions with other signatures; transform() decides by func.__code__.co_argcount == 1 *)
  | 7 => lift1 (rdd_map (efun 1))        (* def f(rdd, *, n=2): one positional parameter -> f(rdd) *)
  | 8 => lift1 (rdd_filter (pfun 2))     (* def g(rdd, *more) -> g(rdd) *)
  | 9 => fun _ a => a                    (* def k(rdd, **kw) -> k(rdd) *)
  | 10 => fun _ a => a                   (* def h(rdd, n=2): co_argcount 2 -> h(time, rdd), returns its second argument *)
  | 11 => fun t a => match a with RRdd r => RRdd (rdd_map (on_int (fun x => VInt (x + t))) r) | RNone => RNone end   (* bound method m(self, t, rdd) *)
  | _ => fun _ _ => RNone
  end.

(* partition functions for mapPartitions / mapPartitionsWithIndex *)
Definition ppfun (tag : Z) : list val -> list val :=
  match tag with
  | 0 => fun p => p
  | 1 => fun p => [VInt (sum_ints p)]
  | 2 => fun p => rev p
  | _ => fun _ => []
  end.
Definition pifun (tag : Z) : Z -> list val -> list val :=
  match tag with
  | 0 => fun i p => map (fun v => v_pair (VInt i) v) p
  | 1 => fun i p => [VInt i]
  | _ => fun _ _ => []
  end.
Definition twfun (tag : Z) : Z -> rv -> rv -> rv :=
  match tag with
  | 0 => lift2 (fun a b => ctx_union b a)
  | 1 => fun _ a _ => a
  | _ => fun _ _ _ => RNone
  end.

(* ---------- decoding ---------- *)
Definition opt_bind {A B : Type} (o : option A) (f : A -> option B) : option B :=
  match o with Some a => f a | None => None end.

Fixpoint all_lists (l : list val) : option (list (option (list val))) :=
  match l with
  | [] => Some []
  | VList b :: l' => match all_lists l' with Some r => Some (Some b :: r) | None => None end
  | VNone :: l' => match all_lists l' with Some r => Some (None :: r) | None => None end
  | _ => None
  end.
Fixpoint all_names (l : list val) : option (list fname) :=
  match l with
  | [] => Some []
  | VStr b :: l' => match all_names l' with Some r => Some (b :: r) | None => None end
  | _ => None
  end.

Definition dec_np (v : val) : option (option Z) :=
  match v with VNone => Some None | VInt n => Some (Some n) | _ => None end.
Definition dec_cgop (z : Z) : option cgop :=
  match z with
  | 0 => Some OpCogroup | 1 => Some OpJoin | 2 => Some OpLeftOuterJoin
  | 3 => Some OpRightOuterJoin | 4 => Some OpFullOuterJoin | _ => None
  end.
Definition nat_of (z : Z) : nat := Z.to_nat z.

Definition dec_call (v : val) : option call :=
  match v with
  | VTup [VInt 0; VList bs; VBool one; d] =>
      opt_bind (all_lists bs) (fun q =>
        match d with
        | VNone => Some (CSource (SQueue one None (map (option_map (fun b => (b, None))) q)))
        | VList dl => Some (CSource (SQueue one (Some (dl, None)) (map (option_map (fun b => (b, None))) q)))
        | _ => None
        end)
  (* with presentation info: number of partitions of every entry / of the default that is handed over as
     an RDD (0 = a plain iterable); the third component (kind of iterable, later mutation of the
     caller's object) only concerns the harness *)
  | VTup [VInt 0; VList bs; VBool one; d; VTup [VList eparts; VInt dpart; _]] =>
      opt_bind (all_lists bs) (fun q => opt_bind (all_Z eparts) (fun ep =>
        let np := fun k => if k =? 0 then None else Some k in
        let q' := map (fun xb => option_map (fun b => (b, np (snd xb))) (fst xb))
                      (combine q (ep ++ repeat 0 (length q))) in
        match d with
        | VNone => Some (CSource (SQueue one None q'))
        | VList dl => Some (CSource (SQueue one (Some (dl, np dpart)) q'))
        | _ => None
        end))
  | VTup [VInt 1; VList d0; _] => opt_bind (all_names d0) (fun d => Some (CSource (SFile d)))
  | VTup [VInt 2; VInt s; VInt f] => Some (CMap (nat_of s) (efun f))
  | VTup [VInt 3; VInt s; VInt f] => Some (CFlatMap (nat_of s) (gfun f))
  | VTup [VInt 4; VInt s; VInt f] => Some (CFilter (nat_of s) (pfun f))
  | VTup [VInt 5; VInt s; VInt f] => Some (CMapValues (nat_of s) (efun f))
  | VTup [VInt 6; VInt s; VInt f] => Some (CFlatMapValues (nat_of s) (gfun f))
  | VTup [VInt 7; VInt s; VInt f] => Some (CReduceByKey (nat_of s) (opfun f))
  | VTup [VInt 8; VInt s] => Some (CGroupByKey (nat_of s))
  | VTup [VInt 9; VInt s] => Some (CCount (nat_of s))
  | VTup [VInt 10; VInt s] => Some (CCountByValue (nat_of s))
  | VTup [VInt 11; VInt s; VInt f] => Some (CReduce (nat_of s) (opfun f))
  | VTup [VInt 12; VInt s; VInt o] => Some (CUnion (nat_of s) (nat_of o))
  | VTup [VInt 13; VInt s; VInt o; VInt op; np] =>
      opt_bind (dec_cgop op) (fun op' => opt_bind (dec_np np) (fun np' =>
        Some (CCogrouped op' np' (nat_of s) (nat_of o))))
  | VTup [VInt 14; VInt s; VInt f] => Some (CTransform (nat_of s) (tfun f))
  | VTup [VInt 15; VInt s; VInt n] => Some (CRepartition n (nat_of s))
  | VTup [VInt 16; VInt s; VInt b; VInt e] => Some (CSlice b e (nat_of s))
  | VTup [VInt 17; VInt s] => Some (CForeachRDD (nat_of s))
  | VTup [VInt 17; VInt s; VInt _] => Some (CForeachRDD (nat_of s))   (* an action that calls ssc.stop() in the last interval *)
  | VTup [VInt 17; VInt s; VInt _; VInt _] => Some (CForeachRDD (nat_of s))   (* + signature kind of the action *)
  | VTup [VInt 18; VInt s; VInt f] => Some (CMapPartitions (nat_of s) (ppfun f))
  | VTup [VInt 19; VInt s; VInt f] => Some (CMapPartitionsWithIndex (nat_of s) (pifun f))
  | VTup [VInt 20; VInt s; VInt o; VInt f] => Some (CTransformWith (nat_of s) (nat_of o) (twfun f))
  | _ => None
  end.

Fixpoint dec_prog (l : list val) : option (list call) :=
  match l with
  | [] => Some []
  | v :: l' => opt_bind (dec_call v) (fun c => opt_bind (dec_prog l') (fun r => Some (c :: r)))
  end.

Fixpoint dec_listing (l : list val) : option listing :=
  match l with
  | [] => Some []
  | VTup [VStr n; VList lines] :: l' =>
      match dec_listing l' with Some r => Some ((n, lines) :: r) | None => None end
  | _ => None
  end.
Fixpoint dec_env (l : list val) : option (list (nat * listing)) :=
  match l with
  | [] => Some []
  | VTup [VInt h; VList ls] :: l' =>
      opt_bind (dec_listing ls) (fun x => opt_bind (dec_env l') (fun r => Some ((nat_of h, x) :: r)))
  | _ => None
  end.
(* a history entry is
     (t, env)       the callback fires at time t;
     (t, env, raw)  the harness itself calls _step(t) on the registered nodes raw[j] mod (number of
                    nodes), in that order (exercises the recursion);
     (n,)           the next n calls of the program are made now (graph construction interleaved with
                    ticks; start() is called after the first such entry).  A history without (n,)
                    entries registers the whole program before start(). *)
Inductive hentry :=
| ETick (t : Z) (e : list (nat * listing)) (o : option (list Z))
| EReg (n : nat).

Fixpoint dec_hist (l : list val) : option (list hentry) :=
  match l with
  | [] => Some []
  | VTup [VInt n] :: l' => opt_bind (dec_hist l') (fun r => Some (EReg (nat_of n) :: r))
  | VTup [VInt t; VList e] :: l' =>
      opt_bind (dec_env e) (fun x => opt_bind (dec_hist l') (fun r => Some (ETick t x None :: r)))
  | VTup [VInt t; VList e; VList raw] :: l' =>
      opt_bind (dec_env e) (fun x => opt_bind (all_Z raw) (fun o =>
        opt_bind (dec_hist l') (fun r => Some (ETick t x (Some o) :: r))))
  | _ => None
  end.

(* ---------- canonical form of observed contents (multiset comparison) ---------- *)
Definition rank (v : val) : nat :=
  match v with
  | VNone => 0 | VBool _ => 1 | VInt _ => 2 | VFloat _ => 3 | VStr _ => 4 | VTup _ => 5 | VList _ => 6
  | VErr _ => 7
  end%nat.
Fixpoint names_cmp (a b : list N) : comparison :=
  match a, b with
  | [], [] => Eq
  | [], _ => Lt
  | _, [] => Gt
  | x :: a', y :: b' => match N.compare x y with Eq => names_cmp a' b' | c => c end
  end.
Fixpoint val_cmp (a b : val) {struct a} : comparison :=
  let fix lst (xs ys : list val) {struct xs} : comparison :=
      match xs, ys with
      | [], [] => Eq
      | [], _ => Lt
      | _, [] => Gt
      | x :: xs', y :: ys' => match val_cmp x y with Eq => lst xs' ys' | c => c end
      end in
  match a, b with
  | VNone, VNone => Eq
  | VBool x, VBool y => Nat.compare (if x then 1 else 0) (if y then 1 else 0)
  | VInt x, VInt y => Z.compare x y
  | VStr x, VStr y => names_cmp x y
  | VTup x, VTup y => lst x y
  | VList x, VList y => lst x y
  | _, _ => Nat.compare (rank a) (rank b)
  end.
Definition val_leb (a b : val) : bool := match val_cmp a b with Gt => false | _ => true end.
Fixpoint insert_val (v : val) (l : list val) : list val :=
  match l with
  | [] => [v]
  | w :: l' => if val_leb v w then v :: l else w :: insert_val v l'
  end.
Definition sort_vals (l : list val) : list val := fold_right insert_val [] l.
Definition is_vlist (v : val) : bool := match v with VList _ => true | _ => false end.

(* tuples are positional; a list is a multiset unless all its items are lists (the [self, other]
   value lists of cogroup), which is positional *)
Fixpoint canon (v : val) : val :=
  match v with
  | VTup l => VTup (map canon l)
  | VList l =>
      let l' := map canon l in
      match l' with
      | [] => VList []
      | _ => if forallb is_vlist l' then VList l' else VList (sort_vals l')
      end
  | _ => v
  end.
Definition canon_contents (l : list val) : val := VList (sort_vals (map canon l)).

(* ---------- running ---------- *)
(* contents are reported in collect order, untouched, for the streams returned by calls whose result
   order is determined by the RDD operations (no cogroup / fullOuterJoin, whose key order is that of a
   Python set, among the call and its ancestors); canonically sorted (multiset) otherwise *)
Definition contents_of (exact : bool) (l : list val) : val :=
  if exact then VList l else canon_contents l.
Definition obs_rv (exact : bool) (a : rv) : val :=
  match a with
  | RNone => VNone
  | RRdd r => VTup [VBool (ecls r); VInt (nparts r); contents_of exact (flat r)]
  end.
Definition contents_rv (exact : bool) (a : rv) : val :=
  match a with RNone => VNone | RRdd r => contents_of exact (flat r) end.

Definition set_order (c : call) : bool :=
  match c with CCogrouped OpCogroup _ _ _ | CCogrouped OpFullOuterJoin _ _ _ => true | _ => false end.
Fixpoint ordered_from (p : list call) (prev : list bool) : list bool :=
  match p with
  | [] => prev
  | c :: p' =>
      ordered_from p' (prev ++ [negb (set_order c) && forallb (fun s => nth s prev false) (call_args c)])
  end.
(* nodes of the streams returned by ordered calls *)
Definition exact_nodes (done : list call) (hs : list nat) : list nat :=
  flat_map (fun bh : bool * nat => if fst bh then [snd bh] else []) (combine (ordered_from done []) hs).

Definition zi (n : nat) : val := VInt (Z.of_nat n).

Definition obs_struct (g : graph) : val :=
  VList (map (fun nd =>
    match nd with
    | Src _ => VTup [VInt 0; VList []]
    | Trans _ p => VTup [VInt 1; VList [zi p]]
    | TransWith _ p1 p2 => VTup [VInt 2; VList [zi p1; zi p2]]
    | Cogrouped _ _ p1 p2 => VTup [VInt 3; VList [zi p1; zi p2]]
    end) g).

Definition is_cogrouped (g : graph) (i : nat) : bool :=
  match nth_error g i with Some (Cogrouped _ _ _ _) => true | _ => false end.
Definition nat_in (i : nat) (l : list nat) : bool := existsb (Nat.eqb i) l.

(* the events of one callback, as a multiset (sorted): the order in which the callback walks the
   registered nodes is not part of the property *)
Definition obs_events (g : graph) (sinks exact : list nat) (evs : list event) : val :=
  VList (sort_vals (flat_map (fun e =>
    match e with
    | EvPop i => [VTup [VInt 0; zi i]]
    | EvFire i t args =>
        if is_cogrouped g i then []
        else if nat_in i sinks then [VTup [VInt 2; zi i; VInt t; contents_rv (nat_in i exact) (hd RNone args)]]
        else [VTup [VInt 1; zi i]]
    end) evs)).

Definition obs_states (exact : list nat) (st : state) : val :=
  VList (map (fun is => VTup [VInt (ctime (snd is)); obs_rv (nat_in (fst is) exact) (crdd (snd is))])
             (combine (seq 0 (length (ns st))) (ns st))).

Definition env_of (hs : list nat) (e : list (nat * listing)) : nat -> listing :=
  fun i => match find (fun hl => Nat.ltb (fst hl) (length hs) && Nat.eqb (nth (fst hl) hs O) i) e with
           | Some hl => snd hl
           | None => []
           end.

Definition do_tick (g : graph) (env : nat -> listing) (t : Z) (o : option (list Z)) (st : state)
  : option state :=
  match o with
  | None => tick g env t st
  | Some raw => step_all g env t (map (fun x => Z.to_nat (x mod Z.of_nat (length g))) raw) st
  end.

Fixpoint sink_nodes (p : list call) (hs : list nat) : list nat :=
  match p, hs with
  | CForeachRDD _ :: p', n :: hs' => n :: sink_nodes p' hs'
  | _ :: p', _ :: hs' => sink_nodes p' hs'
  | _, _ => []
  end.

(* partition sizes (glom) of the stream returned by every repartition call made so far *)
Fixpoint obs_layouts (done : list call) (hs : list nat) (st : state) (k : nat) : val :=
  match done, hs with
  | c :: done', n :: hs' =>
      let rest := match obs_layouts done' hs' st (S k) with VList l => l | _ => [] end in
      match c with
      | CRepartition _ _ =>
          VList (VTup [zi k; match crdd_at st n with
                             | RNone => VNone
                             | RRdd r => VList (map (fun x => VInt (Z.of_nat (length x))) (parts r))
                             end] :: rest)
      | _ => VList rest
      end
  | _, _ => VList []
  end.

(* state of a run: calls not yet made, graph, handles, calls made so far, node states *)
Fixpoint run_entries (rest done : list call) (g : graph) (hs : list nat) (h : list hentry) (st : state)
  : list val * graph * list nat :=
  match h with
  | [] => ([], g, hs)
  | EReg n :: h' =>
      let now := firstn n rest in
      let '(g', hs') := expand_from now (g, hs) in
      run_entries (skipn n rest) (done ++ now) g' hs' h'
                  (extend_state st (skipn (length g) g'))
  | ETick t e o :: h' =>
      match do_tick g (env_of hs e) t o (mkSt (ns st) []) with
      | Some st' =>
          let '(obs, g2, hs2) := run_entries rest done g hs h' st' in
          (VTup [obs_events g (sink_nodes done hs) (exact_nodes done hs) (log st');
                 obs_states (exact_nodes done hs) st'; obs_layouts done hs st' 0] :: obs, g2, hs2)
      | None => ([VFuel], g, hs)
      end
  end.

Definition has_reg (h : list hentry) : bool :=
  existsb (fun e => match e with EReg _ => true | _ => false end) h.

Definition run2 (prog hist : list val) : val :=
  match dec_prog prog, dec_hist hist with
  | Some p, Some h =>
      let h' := if has_reg h then h else EReg (length p) :: h in
      let '(obs, g, hs) := run_entries p [] [] [] h' (mkSt [] []) in
      VTup [obs_struct g; VList (map zi hs); VList obs]
  | _, _ => VBad
  end.

(* an optional third component describes the clock (batch duration, start): the history then lists tick
   numbers, which is all the model needs -- the times of successive ticks are strictly increasing *)
Definition run (c : val) : val :=
  match c with
  | VTup [VList prog; VList hist] => run2 prog hist
  | VTup [VList prog; VList hist; _] => run2 prog hist
  | _ => VBad
  end.
