(* Correspondence entry point for C13.
   case   = VTup [VInt op; VStr how; on; left; right]
              op 0 = left.join(right, on, how)      op 1 = left.crossJoin(right)   (how/on ignored)
              op 2 = left.join(left, on, how)       op 3 = left.crossJoin(left)    (self-joins; `right` ignored)
              on  = VNone | VStr name | VList [VStr name ...]
              left/right = VTup [VList [VTup [VStr name; VInt dtype; VBool nullable] ...];     bound schema
                                 VList [VList [VTup [cell ...] ...] ...]]                      partitions of rows
              cell = VNone | VInt | VStr          (rows carry their schema's names as __fields__)
   result = VTup [schema fields; df.columns; df.schema.names; rows; count; later] with the rows (each VTup [names;
            values]) of the FIRST collect() sorted by the total order below (the harness sorts the collected rows the
            same way); count = count() on the same object afterwards; later = one entry per further evaluation
            of the same object (collect again, rdd.collect, filter, toLocalIterator, select/limit): VBool true when
            that evaluation saw the same multiset as the first collect() -- or VErr. *)
From Coq Require Import ZArith NArith List Bool String.
Require Import PV.Base.Val PV.Gen.Joins PV.Model.SqlJoin.
Import ListNotations.
Open Scope Z_scope.

(* ---------- decoding *)
Definition dec_cell (v : val) : option cell :=
  match v with VNone => Some CNull | VInt z => Some (CInt z) | VStr s => Some (CStr s) | _ => None end.

Fixpoint mapM {A B} (f : A -> option B) (l : list A) : option (list B) :=
  match l with
  | [] => Some []
  | a :: l' => match f a, mapM f l' with Some b, Some r => Some (b :: r) | _, _ => None end
  end.

Definition dec_field (v : val) : option field :=
  match v with
  | VTup [VStr n; VInt t; VBool b] => Some (mkField 0 n t b)
  | _ => None
  end.

(* FieldIdGenerator.bind_schema: consecutive ids *)
Fixpoint bind_from (i : N) (s : schema) : schema :=
  match s with
  | [] => []
  | f :: s' => mkField i (fname f) (ftype f) (fnullable f) :: bind_from (N.succ i) s'
  end.

Definition dec_row (ns : list name) (v : val) : option row :=
  match v with
  | VTup cs => match mapM dec_cell cs with Some l => Some (ns, l) | None => None end
  | _ => None
  end.

Definition dec_part (ns : list name) (v : val) : option (list row) :=
  match v with VList rs => mapM (dec_row ns) rs | _ => None end.

Definition dec_table (v : val) : option table :=
  match v with
  | VTup [VList fs; VList ps] =>
      match mapM dec_field fs with
      | Some s0 =>
          let s := bind_from 1 s0 in
          match mapM (dec_part (names_of s)) ps with Some parts => Some (s, parts) | None => None end
      | None => None
      end
  | _ => None
  end.

Definition dec_name (v : val) : option name := match v with VStr s => Some s | _ => None end.

Definition dec_on (v : val) : option on_arg :=
  match v with
  | VNone => Some OnNone
  | VStr s => Some (OnStr s)
  | VList l => match mapM dec_name l with Some cs => Some (OnList cs) | None => None end
  | _ => None
  end.

(* ---------- canonical order of rows (only used to compare multisets) *)
Fixpoint name_cmp (a b : name) : comparison :=
  match a, b with
  | [], [] => Eq
  | [], _ => Lt
  | _, [] => Gt
  | x :: a', y :: b' => match N.compare x y with Eq => name_cmp a' b' | c => c end
  end.

Definition cell_cmp (a b : cell) : comparison :=
  match a, b with
  | CNull, CNull => Eq
  | CNull, _ => Lt
  | _, CNull => Gt
  | CInt x, CInt y => Z.compare x y
  | CInt _, CStr _ => Lt
  | CStr _, CInt _ => Gt
  | CStr x, CStr y => name_cmp x y
  end.

Fixpoint list_cmp {A} (cmp : A -> A -> comparison) (a b : list A) : comparison :=
  match a, b with
  | [], [] => Eq
  | [], _ => Lt
  | _, [] => Gt
  | x :: a', y :: b' => match cmp x y with Eq => list_cmp cmp a' b' | c => c end
  end.

Definition row_cmp (a b : row) : comparison :=
  match list_cmp name_cmp (fst a) (fst b) with
  | Eq => list_cmp cell_cmp (snd a) (snd b)
  | c => c
  end.

Fixpoint insert_row (r : row) (l : list row) : list row :=
  match l with
  | [] => [r]
  | x :: l' => match row_cmp r x with Gt => x :: insert_row r l' | _ => r :: l end
  end.
Definition sort_rows (l : list row) : list row := fold_right insert_row [] l.

(* ---------- encoding *)
Definition enc_cell (c : cell) : val :=
  match c with CNull => VNone | CInt z => VInt z | CStr s => VStr s end.
Definition enc_field (f : field) : val := VTup [VStr (fname f); VInt (ftype f); VBool (fnullable f)].
Definition enc_row (r : row) : val := VTup [VTup (map VStr (fst r)); VTup (map enc_cell (snd r))].

Definition rows_eqb (a b : list row) : bool :=
  match list_cmp row_cmp (sort_rows a) (sort_rows b) with Eq => true | _ => false end.

(* the session the harness runs after the first collect() *)
Definition session : list action := [ACount; ACollect; ARddCollect; AFilterTrue; ALocalIterator; ASelectAll].

Definition enc_outcome (first : list row) (o : outcome) : val :=
  match o with
  | OCount (Ok n) => VInt (Z.of_nat n)
  | OCount (Err e) => VErr e
  | ORows (Ok (_, rows)) => VBool (rows_eqb first rows)
  | ORows (Err e) => VErr e
  end.

Definition enc_result (r : result (schema * list row)) : val :=
  match r with
  | Ok (s, rows) =>
      match map (enc_outcome rows) (run_session r session) with
      | count :: later =>
          VTup [VList (map enc_field s); VList (map VStr (names_of s)); VList (map VStr (names_of s));
                VList (map enc_row (sort_rows rows)); count; VList later]
      | [] => VBad
      end
  | Err e => VErr e
  end.

Definition run (c : val) : val :=
  match c with
  | VTup [VInt op; VStr how_str; on; l; r] =>
      match dec_on on, dec_table l, dec_table r with
      | Some on, Some l, Some r =>
          if op =? 0 then enc_result (df_join l r on how_str)
          else if op =? 1 then enc_result (df_cross_join l r)
          else if op =? 2 then enc_result (df_join l l on how_str)
          else if op =? 3 then enc_result (df_cross_join l l)
          else VBad
      | _, _, _ => VBad
      end
  | _ => VBad
  end.
