(* Correspondence entry point for C02:
   case   = VTup [VInt op; VList left_parts; VList right_parts; numPartitions (VNone | VInt); VInt extra]
   result = VTup [VList elements; VList partition_sizes]   (countByKey: sizes = VNone)  |  VErr "TypeError"
   Elements are in collect() order for the ops whose order the code fixes, canonically sorted (pv_cmp) for
   the ops that iterate over a Python set; fullOuterJoin / subtractByKey output is first grouped per key. *)
From Coq Require Import ZArith NArith String List Bool.
Require Import PV.Base.Val PV.Model.Keyed.
Import ListNotations.
Notation concat := List.concat.
Open Scope Z_scope.

Fixpoint all_some {A} (l : list (option A)) : option (list A) :=
  match l with
  | [] => Some []
  | Some a :: l' => option_map (cons a) (all_some l')
  | None :: _ => None
  end.

(* an input RDD: either its partitions given explicitly (VList of VLists: built with _parallelize_partitions)
   or VTup [VInt n; VList xs]: built with the real Context.parallelize(xs, n), modelled by [parallelize] *)
Definition dec_parts (v : val) : option (list (list pv)) :=
  match v with
  | VList ps => all_some (map (fun p => match p with VList l => all_some (map pv_of_val l) | _ => None end) ps)
  | VTup [VInt n; VList xs] => option_map (fun l => parallelize l (Some n)) (all_some (map pv_of_val xs))
  | _ => None
  end.
Definition as_pair (p : pv) : option (pv * pv) :=
  match p with PTup [k; v] => Some (k, v) | _ => None end.
Definition dec_pairs (ps : list (list pv)) : option (list (list (pv * pv))) :=
  all_some (map (fun p => all_some (map as_pair p)) ps).

Definition pair_pv (kv : pv * pv) : pv := PTup [fst kv; snd kv].
Definition opt_pv (o : option pv) : pv := match o with Some p => p | None => PNone end.

(* canonical sorting of set-ordered output *)
Fixpoint cinsert (x : pv) (l : list pv) : list pv :=
  match l with
  | [] => [x]
  | y :: l' => if pv_leb x y then x :: l else y :: cinsert x l'
  end.
Definition csort (l : list pv) : list pv := fold_right cinsert [] l.
Definition group_canon (out : list (pv * pv)) : list pv :=
  csort (map (fun g => PTup [fst g; PList (snd g)]) (group_by_key pv_eqb out)).

Definition sizes_of {A} (parts : list (list A)) : val :=
  VList (map (fun p => VInt (Z.of_nat (List.length p))) parts).
Definition ok (els : list pv) (sizes : val) : val := VTup [VList (map val_of_pv els); sizes].
Definition type_error : val := VErr "TypeError".

Definition keys_hashable (xs : list (pv * pv)) : bool := forallb (fun kv => hashable (fst kv)) xs.

Definition fold_args (extra : Z) : option (pv * Z) :=
  match extra with
  | 0 => Some (PInt 0, 0) | 1 => Some (PInt 1, 0) | 2 => Some (PList [], 0)
  | 3 => Some (PInt (-1000), 1) | 4 => Some (PInt 0, 2) | 5 => Some (PNone, 5) | _ => None
  end.

(* exact: elements in collect() order *)
Definition exact {A} (enc : A -> pv) (parts : list (list A)) : val := ok (map enc (concat parts)) (sizes_of parts).

Definition enc_group (g : pv * list pv) : pv := PTup [fst g; PList (snd g)].
Definition enc_join (e : pv * (pv * pv)) : pv := PTup [fst e; PTup [fst (snd e); snd (snd e)]].

Definition run_keyed (op : Z) (lp rp : list (list (pv * pv))) (np : option Z) (extra : Z) : val :=
  let binary := existsb (Z.eqb op) [5; 6; 7; 8; 9; 10; 16; 17] in
  if negb (Z.eqb op 15) && negb (keys_hashable (concat lp) && (negb binary || keys_hashable (concat rp)))
  then type_error else
  match op with
  | 0 => exact enc_group (rdd_group_by_key pv_eqb lp np)
  | 1 => match bin_fn extra with
         | Some f =>
             let parts := rdd_reduce_by_key pv_eqb f lp np in
             match all_some (map (fun g => option_map (fun r => PTup [fst g; r]) (snd g)) (concat parts)) with
             | Some els => ok els (sizes_of parts)
             | None => VBad
             end
         | None => VBad
         end
  | 2 => match fold_args extra with
         | Some (z, fc) =>
             match bin_fn fc with
             | Some f => exact pair_pv (rdd_aggregate_by_key pv_eqb z f f lp)
             | None => VBad
             end
         | None => VBad
         end
  | 3 => match agg_fn extra with
         | Some (z, s, c) => exact pair_pv (rdd_aggregate_by_key pv_eqb z s c lp)
         | None => VBad
         end
  | 4 => ok (map (fun kc => PTup [fst kc; PInt (snd kc)]) (count_by_key pv_eqb lp)) VNone
  | 5 => let parts := rdd_cogroup pv_eqb lp rp in
         ok (csort (map (fun e => PTup [fst e; PList [PList (fst (snd e)); PList (snd (snd e))]]) (concat parts)))
            (sizes_of parts)
  | 6 => exact enc_join (rdd_join pv_eqb lp rp np)
  | 7 => exact (fun e => PTup [fst e; PTup [fst (snd e); opt_pv (snd (snd e))]]) (rdd_left_outer_join pv_eqb lp rp)
  | 8 => exact (fun e => PTup [fst e; PTup [opt_pv (fst (snd e)); snd (snd e)]]) (rdd_right_outer_join pv_eqb lp rp)
  | 9 => let parts := rdd_full_outer_join pv_eqb lp rp in
         ok (group_canon (map (fun e => (fst e, PTup [opt_pv (fst (snd e)); opt_pv (snd (snd e))])) (concat parts)))
            (sizes_of parts)
  | 10 => let parts := rdd_subtract_by_key pv_eqb lp rp in ok (group_canon (concat parts)) (sizes_of parts)
  | 15 => if sortable (map fst (concat lp))
          then exact pair_pv (rdd_sort_by_key pv_leb (negb (Z.eqb extra 0)) lp np)
          else type_error
  | 16 => exact (fun e => PTup [fst e; PTup [snd e; PTup []]]) (rdd_left_semi_join pv_eqb lp rp)
  | 17 => exact (fun e => PTup [fst e; PTup [snd e; PNone]]) (rdd_left_anti_join pv_eqb lp rp)
  | _ => VBad
  end.

Definition run_elems (op : Z) (lp rp : list (list pv)) (np : option Z) : val :=
  match op with
  | 11 => exact (fun x => x) (rdd_subtract pv_eqb lp rp)
  | 12 => if forallb hashable (concat lp)
          then let parts := rdd_distinct pv_eqb lp np in ok (csort (concat parts)) (sizes_of parts)
          else type_error
  | 13 => if forallb hashable (concat lp) && forallb hashable (concat rp)
          then let parts := rdd_intersection pv_eqb lp rp in ok (csort (concat parts)) (sizes_of parts)
          else type_error
  | 14 => exact pair_pv (rdd_cartesian lp rp)
  (* repartition(n) / partitionBy(n): outside the model of C02 except for what the property needs of them:
     the multiset of elements is the input's (compared canonically sorted, partition sizes not modelled) *)
  | 18 | 19 => ok (csort (concat lp)) VNone
  | _ => VBad
  end.

Definition dec_np (npv : val) : option (option Z) :=
  match npv with VNone => Some None | VInt n => Some (Some n) | _ => None end.

Definition run_one (op : Z) (lp rp : list (list pv)) (np : option Z) (extra : Z) : val :=
  if existsb (Z.eqb op) [11; 12; 13; 14; 18; 19] then run_elems op lp rp np
  else match dec_pairs lp, dec_pairs rp with
       | Some lk, Some rk => run_keyed op lk rk np extra
       | _, _ => VBad
       end.

(* op 20: a sequence of join-family calls on the SAME two RDD objects, each result evaluated before the next
   call is made; step = VTup [VInt op; VBool swapped] (swapped: the method is called on `other` with `self`
   as argument).  The model is pure: each step is the single call on the same inputs. *)
Fixpoint run_steps (lp rp : list (list pv)) (np : option Z) (steps : list val) : option (list val) :=
  match steps with
  | [] => Some []
  | VTup [VInt op; VBool sw] :: steps' =>
      if existsb (Z.eqb op) [5; 6; 7; 8; 9; 10; 16; 17] then
        option_map (cons (if sw then run_one op rp lp np 0 else run_one op lp rp np 0)) (run_steps lp rp np steps')
      else None
  | _ => None
  end.
Fixpoint first_err (l : list val) : option val :=
  match l with
  | [] => None
  | VErr e :: _ => Some (VErr e)
  | _ :: l' => first_err l'
  end.

Definition run (c : val) : val :=
  match c with
  | VTup [VInt op; lpv; rpv; npv; ex] =>
      match dec_parts lpv, dec_parts rpv, dec_np npv with
      | Some lp, Some rp, Some np =>
          match ex with
          | VInt extra => if Z.eqb op 20 then VBad else run_one op lp rp np extra
          | VList steps =>
              if Z.eqb op 20 then
                match run_steps lp rp np steps with
                | Some rs => match first_err rs with Some e => e | None => VList rs end
                | None => VBad
                end
              else VBad
          | _ => VBad
          end
      | _, _, _ => VBad
      end
  | _ => VBad
  end.
