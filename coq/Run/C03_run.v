(* Correspondence entry point for C03.
   case = VTup [VInt backend; VInt timed; VList parts; VList stages; VList draws; VList jobs]
     backend : 0 = SchedPool (threads under a schedule, objects shared)      -> InProcess
               1 = SchedPool + pickling (de)serializer (every task a copy)   -> Copying
               2 = DummyPool (Context._runJob_local)
               3 = ThreadPoolExecutor, 8 = lazy builtin map -> InProcess; 4..7 = process pools with cloudpickle / dill -> Copying
                   (real pools: the schedule is not observable, events are not compared; by the theorems of
                    Properties/C03.v the values and the cache do not depend on it)
     timed   : 1 = the context uses a TimedCacheManager (the result then lists the stamped idents)
     parts   : the source partitions, lists of ints
     stages  : from the source upwards: VTup [0; fcode] map-like | VTup [1] persist |
               VTup [2; seed; 0; fraction] sample(False, ..) | VTup [2; seed; 1; lam; exp(-lam)] sample(True, ..);
               the dataset id of a persist stage is its 1-based position in the list
     draws   : VTup [seed; VList floats]: the first random() values of random.Random(seed)
     jobs    : VTup [depth; action; arg; sched]: run [action] on the dataset made of the first [depth] stages
               action 0 = per-partition lists (runJob(unit_map)), 1 = collect, 2 = count, 3 = sum, 4 = coalesce(arg),
               5 = unpersist() of that dataset (no job runs; value None),
               6 = take(arg): runs in the driver on every backend (allowLocal), lazily: the partitions are computed
                   -- and cached -- one after the other until arg elements are there (a PARTLY materialised dataset)
   result = VTup [VList (VTup [events; value]) ; cache_obj as VList (VTup [VTup [id; index]; data]); stamped idents] *)
From Coq Require Import ZArith NArith String List Bool PrimFloat.
Require Import PV.Base.Val PV.Model.Sched.
Import ListNotations.
Open Scope string_scope.
Open Scope Z_scope.

Definition fn_of_code (c : Z) : option (Z -> list Z) :=
  match c with
  | 0 => Some (fun x => [x + 1])
  | 1 => Some (fun x => [x * 2])
  | 2 => Some (fun x => if x mod 2 =? 0 then [x] else [])
  | 3 => Some (fun x => [x; x + 10])
  | 4 => Some (fun x => [- x])
  | 5 => Some (fun x => if 2 <? x then [x] else [])
  | 6 => Some (fun x => repeat x (Z.to_nat (x mod 3)))
  | _ => None
  end.

Inductive stage := SMap (f : Z -> list Z) | SPersist | SSample (seed : Z) (smp : sampler).

Definition dec_stage (v : val) : option stage :=
  match v with
  | VTup [VInt 0; VInt c] => option_map SMap (fn_of_code c)
  | VTup [VInt 1] => Some SPersist
  | VTup [VInt 2; VInt s; VInt 0; VFloat fr] => Some (SSample s (SBern fr))
  | VTup [VInt 2; VInt s; VInt 1; VFloat lam; VFloat e] => Some (SSample s (SPoisson lam e))
  | _ => None
  end.

Fixpoint dec_all {B} (f : val -> option B) (l : list val) : option (list B) :=
  match l with
  | [] => Some []
  | x :: l' => match f x, dec_all f l' with Some y, Some r => Some (y :: r) | _, _ => None end
  end.

(* the dataset made of the first [n] stages; [pos] is the 1-based position of the next stage *)
Fixpoint build (stages : list stage) (n : nat) (pos : Z) (acc : rdd) : rdd :=
  match n, stages with
  | S n', st :: rest =>
      build rest n' (pos + 1)
        (match st with SMap f => Map f acc | SPersist => Persist pos acc | SSample s fr => Sample s fr acc end)
  | _, _ => acc
  end.

Definition dec_parts (v : val) : option (list (list Z)) :=
  match v with
  | VList l => dec_all (fun p => match p with VList xs => all_Z xs | _ => None end) l
  | _ => None
  end.

Definition dec_floats (l : list val) : option (list float) :=
  dec_all (fun v => match v with VFloat f => Some f | _ => None end) l.
Definition dec_draws (v : val) : option (list (Z * list float)) :=
  match v with
  | VList l => dec_all (fun e => match e with
                                 | VTup [VInt s; VList fs] => option_map (fun r => (s, r)) (dec_floats fs)
                                 | _ => None end) l
  | _ => None
  end.

Definition draw_of (tbl : list (Z * list float)) (s : Z) (n : nat) : float :=
  match assoc_get tbl s with Some l => nth n l nan | None => nan end.
Definition draws_len (tbl : list (Z * list float)) (s : Z) : nat :=
  match assoc_get tbl s with Some l => length l | None => 0%nat end.

(* the table holds every draw the case can ask for *)
Fixpoint table_ok (tbl : list (Z * list float)) (stages : list stage) (n : nat) (parts : list (list Z)) : bool :=
  match n with
  | O => true
  | S n' =>
      table_ok tbl stages n' parts &&
      match nth_error stages n' with
      | Some (SSample s smp) =>
          forallb (fun ip =>
                     let '(_, pos, ok) := samp_run (draw_of tbl) (s + Z.of_nat (fst ip)) smp 0
                                            (eval (draw_of tbl) (build stages n' 1 Src) (Z.of_nat (fst ip)) (snd ip)) in
                     ok && Nat.leb pos (draws_len tbl (s + Z.of_nat (fst ip))))
                  (combine (seq 0 (length parts)) parts)
      | _ => true
      end
  end.

Record job := { j_depth : nat; j_action : Z; j_arg : Z; j_sched : list nat }.
Definition dec_job (np : nat) (v : val) : option job :=
  match v with
  | VTup [VInt d; VInt a; VInt arg; VList s] =>
      match all_Z s with
      | Some zs => if (0 <=? d) && (0 <=? a) && (a <=? 6)
                   then Some {| j_depth := Z.to_nat d; j_action := a; j_arg := arg;
                                j_sched := map (fun z => if 0 <=? z then Z.to_nat z else np) zs |}
                   else None
      | None => None
      end
  | _ => None
  end.

Definition tfun_of_action (a : Z) : tfun := match a with 2 => FCount | 3 => FSum | _ => FCollect end.

Definition enc_key (k : key) : val := VTup [VInt (fst k); VInt (snd k)].
Definition enc_cache (c : cache) : val := VList (map (fun kv => VTup [enc_key (fst kv); vints (snd kv)]) c).
Definition enc_events (ev : list (Z * Z)) : val := VList (map (fun e => VTup [VInt (fst e); VInt (snd e)]) ev).

Fixpoint all_some {B} (l : list (option B)) : option (list B) :=
  match l with
  | [] => Some []
  | Some x :: l' => option_map (cons x) (all_some l')
  | None :: _ => None
  end.

Definition enc_value (a arg : Z) (rs : list (list Z)) : val :=
  match a with
  | 0 => vparts (map (map VInt) rs)
  | 1 => vints (concat rs)
  | 2 | 3 => VInt (fold_left Z.add (concat rs) 0)
  | _ => vparts (map (map VInt) (regroup arg rs))
  end.

(* how many leading partitions take(n) computes: none for n = 0, else the shortest prefix holding n elements *)
Fixpoint prefix_needed (n : nat) (lens : list nat) : nat :=
  match n, lens with
  | O, _ => O
  | _, [] => O
  | _, l :: rest => S (prefix_needed (n - l) rest)
  end.

Section Jobs.
Variable tbl : list (Z * list float).
Variable backend_code : Z.
Variable parts : list (list Z).
Variable stages : list stage.

(* returns the encoded job outcomes (newest first), the driver cache and the stamped idents *)
Fixpoint run_jobs (js : list job) (driver : cache) (stamped : list key) (acc : list val)
  : option (list val * cache * list key) :=
  match js with
  | [] => Some (rev acc, driver, stamped)
  | j :: js' =>
      let r := build stages (j_depth j) 1 Src in
      let tf := tfun_of_action (j_action j) in
      if j_action j =? 5 then
        (* PersistedRDD.unpersist(): every (id, partition) of that dataset leaves the driver's cache; on any other
           dataset RDD.unpersist() does nothing *)
        (* TimedCacheManager.delete forgets the time stamps of the deleted idents as well *)
        run_jobs js'
                 (match r with Persist id _ => c_unpersist (List.length parts) id driver | _ => driver end)
                 (match r with
                  | Persist id _ => c_keys (c_unpersist (List.length parts) id (map (fun k => (k, [])) stamped))
                  | _ => stamped end)
                 (VTup [enc_events []; VNone] :: acc)
      else if j_action j =? 6 then
        let n := Z.to_nat (j_arg j) in
        let lens := map (fun ip => List.length (eval (draw_of tbl) r (Z.of_nat (fst ip)) (snd ip)))
                        (combine (seq 0 (List.length parts)) parts) in
        let '(rs, d', _) := run_local_from (draw_of tbl) (task_prog today r FCollect) 0
                              (firstn (prefix_needed n lens) parts) driver shared0 in
        match all_some rs with
        | Some rs' =>
            run_jobs js' d' (stamped ++ c_keys (c_not_in d' (c_keys driver)))
                     (VTup [enc_events []; vints (firstn n (concat rs'))] :: acc)
        | None => None
        end
      else if backend_code =? 2 then
        let '(rs, d', _) := run_local (draw_of tbl) today r tf parts driver shared0 in
        match all_some rs with
        | Some rs' =>
            run_jobs js' d' (stamped ++ c_keys (c_not_in d' (c_keys driver)))
                     (VTup [enc_events []; enc_value (j_action j) (j_arg j) rs'] :: acc)
        | None => None
        end
      else
        let o := run_job (draw_of tbl) (if (backend_code =? 0) || (backend_code =? 3) || (backend_code =? 8) then InProcess else Copying)
                         today r tf parts (j_sched j) driver shared0 in
        match all_some (o_results o) with
        | Some rs' =>
            run_jobs js' (o_driver o) (stamped ++ o_stamped o)
                     (VTup [enc_events (if backend_code <=? 1 then o_events o else []);
                            enc_value (j_action j) (j_arg j) rs'] :: acc)
        | None => None
        end
  end.
End Jobs.

Definition run (c : val) : val :=
  match c with
  | VTup [VInt b; VInt timed; vparts; VList vstages; vdraws; VList vjobs] =>
      match dec_parts vparts, dec_all dec_stage vstages, dec_draws vdraws with
      | Some parts, Some stages, Some tbl =>
          match dec_all (dec_job (length parts)) vjobs with
          | Some jobs =>
              if negb ((0 <=? b) && (b <=? 8)) then VBad
              else if negb (forallb (fun j => Nat.leb (j_depth j) (length stages)) jobs) then VBad
              else if negb (table_ok tbl stages (length stages) parts) then VFuel
              else
                match run_jobs tbl b parts stages jobs [] [] [] with
                | Some (outs, driver, stamped) =>
                    VTup [VList outs; enc_cache driver;
                          VList (if timed =? 1 then map enc_key stamped else [])]
                | None => VErr "TaskRaised"
                end
          | None => VBad
          end
      | _, _, _ => VBad
      end
  | _ => VBad
  end.
