(* Correspondence entry point for C01.
   case   = VTup [VList xs; numSlices (VInt n | VNone); VList stages; action]   (codes: Model/RddLib.v)
   result = VList [glom().collect() after parallelize; ... after every stage ...; result of the action]
            with VErr "ExceptionClass" in place of (and ending the list at) the first step that raised.
   layout case = VTup [VList partitions; VList stages; action]: the dataset is built from the explicit
            partition lists (unequal sizes); same result format.
   sweep case = VTup [VInt L; VInt n]: parallelize(range(L), n) observed compactly as
            VTup [count(); collect(); number of partitions; (index, size) of the non-empty partitions]. *)
From Coq Require Import String ZArith List.
Require Import PV.Base.Val PV.Model.Rdd PV.Model.RddLib.
Import ListNotations.
Open Scope Z_scope.

Definition run (c : val) : val :=
  match c with
  | VTup [VList xs; nv; VList stages; a] =>
      match (match nv with VInt n => Some n | VNone => Some 1 | _ => None end),
            decode_trs stages, decode_act a with
      | Some n, Some ts, Some a' => VList (observe ts a' (parallelize xs n))
      | _, _, _ => VBad
      end
  | VTup [VList layout; VList stages; a] =>           (* explicit partitions: ctx._parallelize_partitions(layout) *)
      match as_parts layout, decode_trs stages, decode_act a with
      | Some ps, Some ts, Some a' => VList (observe ts a' ps)
      | _, _, _ => VBad
      end
  | VTup [VInt L; VInt n] => observe_sweep L n      (* slice-count sweep: parallelize(range(L), n) *)
  | _ => VBad
  end.
