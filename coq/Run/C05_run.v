(* Correspondence entry point for C05.
   case = VTup [managers; contexts; pipelines; history]
     managers  : VList of (VNone | VInt timeout)
     contexts  : VList of VTup [VInt manager_index; VBool pool]
     pipelines : VList of VTup [VInt ctx; VList (VList ints) partitions; VList of VTup [VInt tag; VInt fn]]
                 tag 0 map, 1 filter, 2 flatMap, 3 persist, 4 mapPartitions[WithIndex] with a generator function,
                 5 index-dependent element function (fn<3: mapPartitionsWithIndex, fn>=3: task context's partition id)
     history   : VList of VTup [VInt 0; k; j; kind; n] (kind 0 collect, 1 count, 2 take n, 3 first)
                          | VTup [VInt 1; k; j] unpersist | VTup [VInt 2; dt] advance | VTup [VInt 3; mi] gc
   result = VTup [ids per pipeline; VList, per action, of VTup [result; user calls; managers] (ids relative to the counter at case start). *)
From Coq Require Import ZArith List Bool String.
Require Import PV.Base.Val PV.Model.Cache.
Import ListNotations.
Open Scope Z_scope.

(* the function library (Python twins in py/c05.py) *)
Definition lib_map (n : Z) : option (Z -> Z) :=
  match n with
  | 0 => Some (fun x => x + 1) | 1 => Some (fun x => x * 2) | 2 => Some (fun x => - x)
  | 3 => Some (fun x => x mod 3) | 4 => Some (fun x => x * x) | 5 => Some (fun x => x / 2)
  | _ => None
  end.
Definition lib_filter (n : Z) : option (Z -> bool) :=
  match n with
  | 0 => Some (fun x => x mod 2 =? 0) | 1 => Some (fun x => x >? 0) | 2 => Some (fun x => negb (x mod 3 =? 0))
  | 3 => Some (fun _ => false) | 4 => Some (fun _ => true) | 5 => Some (fun x => x <? 2)
  | _ => None
  end.
Definition zrange0 (n : Z) : list Z := map Z.of_nat (seq 0 (Z.to_nat n)).
Definition lib_flat (n : Z) : option (Z -> list Z) :=
  match n with
  | 0 => Some (fun x => [x; x]) | 1 => Some (fun _ => []) | 2 => Some (fun x => [x])
  | 3 => Some (fun x => zrange0 (x mod 3)) | 4 => Some (fun x => [x; x + 1; x + 2])
  | 5 => Some (fun x => if x mod 2 =? 0 then [] else [x])
  | _ => None
  end.

(* generator functions over the partition iterator (the Python twins consume it in two steps) *)
Fixpoint pair_sums (l : list Z) : list Z :=
  match l with a :: b :: r => (a + b) :: pair_sums r | _ => [] end.
Definition lib_part (n : Z) : option (list Z -> list Z) :=
  match n mod 3 with
  | 0 => Some (fun xs => match xs with [] => [] | a :: r => [a * 100 + fold_left Z.add r 0] end)   (* islice(it,1) + list(it) *)
  | 1 => Some (fun xs => match xs with [] => [] | a :: r => [a; Z.of_nat (List.length r)] end)           (* next(it) + list(it) *)
  | _ => Some pair_sums                                                                             (* zip(it, it) *)
  end.

(* functions of (partition index, position in the partition, element) *)
Definition lib_idx (n : Z) : option (Z -> Z -> Z -> Z) :=
  match n mod 3 with
  | 0 => Some (fun i _ x => x + 10 * i)
  | 1 => Some (fun i e _ => e * 7 + i)            (* zipWithUniqueId-like: e * n + partition id *)
  | _ => Some (fun i e x => x * (i + 1) + e)
  end.

Definition dec_stage (v : val) : option (stage Z) :=
  match v with
  | VTup [VInt 0; VInt f] => option_map SMap (lib_map f)
  | VTup [VInt 1; VInt p] => option_map SFilter (lib_filter p)
  | VTup [VInt 2; VInt g] => option_map SFlatMap (lib_flat g)
  | VTup [VInt 3; VInt _] => Some SPersist
  | VTup [VInt 4; VInt h] => option_map SPart (lib_part h)
  | VTup [VInt 5; VInt f] => option_map SIdx (lib_idx f)
  | _ => None
  end.

Fixpoint opt_all {X Y} (f : X -> option Y) (l : list X) : option (list Y) :=
  match l with
  | [] => Some []
  | x :: l' => match f x, opt_all f l' with Some y, Some r => Some (y :: r) | _, _ => None end
  end.

Definition dec_part (v : val) : option (list Z) := match v with VList l => all_Z l | _ => None end.

Definition dec_pipe (v : val) : option (pipe_spec Z) :=
  match v with
  | VTup [VInt c; VList parts; VList sts] =>
      match opt_all dec_part parts, opt_all dec_stage sts with
      | Some ps, Some ss => Some (Z.to_nat c, ps, ss)
      | _, _ => None
      end
  | _ => None
  end.

Definition dec_mgr (v : val) : option (mgr Z) :=
  match v with VNone => Some (empty_mgr Z None) | VInt t => Some (empty_mgr Z (Some t)) | _ => None end.
Definition dec_ctx (v : val) : option ctx_cfg :=
  match v with VTup [VInt m; VBool p] => Some (Ctx (Z.to_nat m) p) | _ => None end.

Definition dec_action (v : val) : option action :=
  match v with
  | VTup [VInt 0; VInt k; VInt j; VInt kind; VInt n] =>
      match kind with
      | 0 => Some (Act (Z.to_nat k) (Z.to_nat j) ACollect)
      | 1 => Some (Act (Z.to_nat k) (Z.to_nat j) ACount)
      | 2 => Some (Act (Z.to_nat k) (Z.to_nat j) (ATake (Z.to_nat n)))
      | 3 => Some (Act (Z.to_nat k) (Z.to_nat j) AFirst)
      | _ => None
      end
  | VTup [VInt 1; VInt k; VInt j] => Some (Unpersist (Z.to_nat k) (Z.to_nat j))
  | VTup [VInt 2; VInt dt] => Some (Advance dt)
  | VTup [VInt 3; VInt mi] => Some (Gc (Z.to_nat mi))
  | _ => None
  end.

Definition enc_key (k : key) : val := VTup [VInt (fst k); VInt (snd k)].
Definition enc_event (e : event Z) : val :=
  VTup [VInt (ev_rid e); VInt (ev_part e); match ev_arg e with Some x => VInt x | None => VNone end].
Definition enc_mgr (m : mgr Z) : val :=
  VTup [VList (map (fun kv => VTup [enc_key (fst kv); vints (fst (snd kv))]) (m_entries m));
        VList (map (fun kt => VTup [enc_key (fst kt); VInt (snd kt)]) (m_times m))].
Definition enc_result (r : result Z) : val :=
  match r with
  | RList l => vints l
  | RCount n => VInt n
  | RElem x => VTup [VInt x]
  | RStop => VErr "StopIteration"%string
  | RNode j c => VTup [VInt (Z.of_nat j); vints c]
  | RUnit => VNone
  | RBad => VBad
  end.

Definition run (c : val) : val :=
  match c with
  | VTup [VList ms; VList cs; VList ps; VList h] =>
      match opt_all dec_mgr ms, opt_all dec_ctx cs, opt_all dec_pipe ps, opt_all dec_action h with
      | Some mgrs, Some ctxs, Some specs, Some hist =>
          let w := World ctxs (fst (alloc_all 0 specs)) in
          VTup [VList (map (fun P : pipeline Z => vints (p_src P :: map fst (p_nodes P))) (w_pipes w));
          VList (map (fun t : result Z * list (event Z) * state Z =>
                        let '(r, ev, st) := t in
                        VTup [enc_result r; VList (map enc_event ev); VList (map enc_mgr (s_mgrs st))])
                     (run_history w (St 0 mgrs) hist))]
      | _, _, _, _ => VBad
      end
  | _ => VBad
  end.
