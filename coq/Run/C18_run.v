(* Correspondence entry point for C18: case = VTup [VInt from_code; VInt to_code; value] *)
From Coq Require Import ZArith List.
Require Import PV.Base.Val PV.Model.Cast.
Import ListNotations.
Open Scope Z_scope.

Definition ty_of_code (z : Z) : option ty :=
  match z with
  | 0 => Some TByte | 1 => Some TShort | 2 => Some TInt | 3 => Some TLong | 4 => Some TBool
  | 5 => Some TString | 6 => Some TFloat | 7 => Some TDouble | 8 => Some TDate | 9 => Some TNull
  | _ => None
  end.

Definition run (c : val) : val :=
  match c with
  | VTup [VInt f; VInt t; v] =>
      match ty_of_code f, ty_of_code t with
      | Some a, Some b => cast a b v
      | _, _ => VBad
      end
  | _ => VBad
  end.
