(* Correspondence entry point for C04.
   case = VTup [VInt max_retries; VInt mode; VList jobs]
   job  = VTup [VInt action; VInt style; VList pre_ops; VList post_ops; VList parts; VInt reuse]
   part = VTup [VList data; VList plan; VList nest]
   plan entry = VNone | VTup [VInt exception_class; VInt position]
   nest entry = VTup [VInt kind; VInt caught]   (kind < 40: a dataset creation, otherwise an action)
   result = VList of VTup [res; VList logs] per job (see py/c04.py). *)
From Coq Require Import String ZArith List Bool.
Require Import PV.Base.Val PV.Model.Retry.
Import ListNotations.
Open Scope Z_scope.

Fixpoint dec_plan (l : list val) : option plan :=
  match l with
  | [] => Some []
  | VNone :: r => option_map (cons None) (dec_plan r)
  | VTup [VInt e; VInt p] :: r => option_map (cons (Some (mkFault e p))) (dec_plan r)
  | _ => None
  end.

Fixpoint dec_nest (l : list val) : option (list nop) :=
  match l with
  | [] => Some []
  | VTup [VInt k; VInt c] :: r =>
      option_map (cons (mkNop (if k <? 40 then NCreate else NAction) (negb (c =? 0)))) (dec_nest r)
  | _ => None
  end.

Definition dec_part (v : val) : option part :=
  match v with
  | VTup [VList d; VList pl; VList ns] =>
      match all_Z d, dec_plan pl, dec_nest ns with
      | Some d', Some pl', Some ns' => Some (mkPart d' pl' ns' None 0)
      | _, _, _ => None
      end
  | _ => None
  end.

Fixpoint dec_all {A} (f : val -> option A) (l : list val) : option (list A) :=
  match l with
  | [] => Some []
  | v :: r => match f v, dec_all f r with Some a, Some r' => Some (a :: r') | _, _ => None end
  end.

Definition dec_job (v : val) : option jobreq :=
  match v with
  | VTup [VInt a; VInt st; VList pre; VList post; VList ps; VInt reuse] =>
      match all_Z pre, all_Z post, dec_all dec_part ps with
      | Some pre', Some post', Some ps' => Some (mkReq (mkJob a (negb (st =? 0)) pre' post' ps') (negb (reuse =? 0)))
      | _, _, _ => None
      end
  | _ => None
  end.

(* the attempt log numbers the calls of the injected function: earlier jobs on the same dataset count *)
Definition enc_rec (calls : nat) (r : arec) : val :=
  VTup [VInt (a_no r + Z.of_nat calls); vints (a_nest r); vints (a_seen r);
        VInt (match a_out r with None => -1 | Some e => e end)].

(* mode 2 (free-running pool): the logs of the partitions after the failing one are not determined *)
Fixpoint enc_logs (mask_after : option Z) (idx : Z) (ps : list part) (logs : list (list arec)) : list val :=
  match ps, logs with
  | p :: ps', l :: rest =>
      (match mask_after with
       | Some i => if i <? idx then VInt 1 else VList (map (enc_rec (p_calls p)) l)
       | None => VList (map (enc_rec (p_calls p)) l)
       end) :: enc_logs mask_after (idx + 1) ps' rest
  | _, _ => []
  end.

Definition calls_of (j : job) (i : Z) : Z := Z.of_nat (p_calls (nth (Z.to_nat i) (j_parts j) (mkPart [] [] [] None 0))).

Definition enc_outcome (mode : Z) (origin : Z) (j : job) (o : outcome) : val :=
  match o_res o with
  | JFuel => VFuel
  | JOk v => VTup [VTup [VInt 0; v]; VList (enc_logs None 0 (j_parts j) (o_logs o))]
  | JRefused => VTup [VTup [VInt 1; VInt E_LOCKED; VTup []]; VList (enc_logs None 0 (j_parts j) (o_logs o))]
  | JErr e i a =>
      VTup [VTup [VInt 1; VInt e;
                  if (e =? E_LOCKED) || (e =? E_STOP) then VTup [] else VTup [VInt origin; VInt i; VInt (a + calls_of j i)]];
            VList (enc_logs (if (mode =? 2) && negb (is_lazy (j_action j)) then Some i else None) 0 (j_parts j) (o_logs o))]
  end.

Definition run (c : val) : val :=
  match c with
  | VTup [VInt maxr; VInt mode; VList jobs] =>
      match dec_all dec_job jobs with
      | Some rqs => VList (map (fun '(origin, j, o) => enc_outcome mode origin j o)
                               (fst (run_jobs mode maxr false None 0 rqs)))
      | None => VBad
      end
  | _ => VBad
  end.
