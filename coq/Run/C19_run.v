(* Correspondence entry point for C19.  case = VTup [VStr kind; payload...]:
     ("json",  tree)          -> (jsonValue(), _parse_datatype_json_string(json()))
     ("parse", json)          -> _parse_datatype_json_value(json)
   Encodings (py/c19.py produces the same):
     type tree : VStr typeName | ("decimal", p, s) | ("array", elem, containsNull) |
                 ("map", key, value, valueContainsNull) | ("struct", [(name, type, nullable, metadata-object)])
     JSON      : None/bool/int/float/str as themselves, list -> VList, object -> VTup [VList [(key, value)]] *)
From Coq Require Import ZArith NArith List Bool String PrimFloat.
Require Import PV.Base.Val PV.Gen.TypeTables PV.Model.Types.
Import ListNotations.
Open Scope Z_scope.

Definition exn_name (e : exn) : string :=
  match e with
  | EKey => "KeyError" | EValue => "ValueError" | EType => "TypeError" | EAssertion => "AssertionError"
  | EAttribute => "AttributeError" | ENotImplemented => "NotImplementedError" | EStopIteration => "StopIteration"
  | EFuel => "OutOfFuel" | EUnmodelled => "Unmodelled"
  end%string.

(* ---------- JSON *)
Fixpoint json_of_val (v : val) : option json :=
  match v with
  | VNone => Some JNull
  | VBool b => Some (JBool b)
  | VInt z => Some (JInt z)
  | VFloat f => Some (JFloat f)
  | VStr s => Some (JStr s)
  | VList l =>
      option_map JArr
        ((fix go (l : list val) : option (list json) :=
            match l with
            | [] => Some []
            | x :: r => match json_of_val x, go r with Some j, Some js => Some (j :: js) | _, _ => None end
            end) l)
  | VTup [VList kvs] =>
      option_map JObj
        ((fix go (l : list val) : option (list (str * json)) :=
            match l with
            | [] => Some []
            | VTup [VStr k; x] :: r =>
                match json_of_val x, go r with Some j, Some js => Some ((k, j) :: js) | _, _ => None end
            | _ => None
            end) kvs)
  | _ => None
  end.

Fixpoint val_of_json (j : json) : val :=
  match j with
  | JNull => VNone
  | JBool b => VBool b
  | JInt z => VInt z
  | JFloat f => VFloat f
  | JStr s => VStr s
  | JArr l => VList (map val_of_json l)
  | JObj kv => VTup [VList (map (fun p => VTup [VStr (fst p); val_of_json (snd p)]) kv)]
  end.

Definition meta_of_val (v : val) : option (list (str * json)) :=
  match json_of_val v with Some (JObj m) => Some m | _ => None end.

(* ---------- type trees *)
Definition s_decimal := lit "decimal".
Definition s_array := lit "array".
Definition s_map := lit "map".
Definition s_struct := lit "struct".

Definition atom_of_name (s : str) : option atomic :=
  find (fun a => str_eqb (atom_name a) s) all_atomics.

Fixpoint dtype_of_val (v : val) : option dtype :=
  match v with
  | VStr s => option_map TAtom (atom_of_name s)
  | VTup [VStr tag; VInt p; VInt s] =>
      if str_eqb tag s_decimal then (if p <? 0 then None else Some (TDecimal (Z.to_N p) s)) else None
  | VTup [VStr tag; e; VBool b] =>
      if str_eqb tag s_array then option_map (fun e' => TArray e' b) (dtype_of_val e) else None
  | VTup [VStr tag; k; x; VBool b] =>
      if str_eqb tag s_map then
        match dtype_of_val k, dtype_of_val x with Some k', Some x' => Some (TMap k' x' b) | _, _ => None end
      else None
  | VTup [VStr tag; VList fs] =>
      if str_eqb tag s_struct then
        option_map TStruct
          ((fix go (l : list val) : option (list (sfield dtype)) :=
              match l with
              | [] => Some []
              | VTup [VStr n; ty; VBool nl; md] :: r =>
                  match dtype_of_val ty, meta_of_val md, go r with
                  | Some ty', Some m, Some fs' => Some (SField n ty' nl m :: fs')
                  | _, _, _ => None
                  end
              | _ => None
              end) fs)
      else None
  | _ => None
  end.

Fixpoint val_of_dtype (t : dtype) : val :=
  match t with
  | TAtom a => VStr (atom_name a)
  | TDecimal p s => VTup [VStr s_decimal; VInt (Z.of_N p); VInt s]
  | TArray e b => VTup [VStr s_array; val_of_dtype e; VBool b]
  | TMap k v b => VTup [VStr s_map; val_of_dtype k; val_of_dtype v; VBool b]
  | TStruct fs =>
      VTup [VStr s_struct;
            VList (map (fun f => match f with
                                 | SField n ty nl m => VTup [VStr n; val_of_dtype ty; VBool nl; val_of_json (JObj m)]
                                 end) fs)]
  end.

Definition val_of_res {A} (enc : A -> val) (r : res A) : val :=
  match r with Ok a => enc a | Err e => VErr (exn_name e) end.

(* ---------- Python values:
     None/bool/int/float/str as themselves, list -> VList,
     ("bytearray", s) ("bytes", s) ("Decimal", s) ("date", ordinal) ("datetime", us, None | offset)
     ("tuple", [..]) ("dict", [(k, v)..]) ("Row", [names], [values]) *)
Definition g_bytearray := lit "bytearray".
Definition g_bytes := lit "bytes".
Definition g_decimal := lit "Decimal".
Definition g_date := lit "date".
Definition g_datetime := lit "datetime".
Definition g_tuple := lit "tuple".
Definition g_dict := lit "dict".
Definition g_row := lit "Row".
Definition g_namedtuple := lit "namedtuple".

Fixpoint strs_of_vals (l : list val) : option (list str) :=
  match l with
  | [] => Some []
  | VStr s :: r => option_map (cons s) (strs_of_vals r)
  | _ => None
  end.

Fixpoint pyval_of_val (v : val) : option pyval :=
  let many :=
    fix go (l : list val) : option (list pyval) :=
      match l with
      | [] => Some []
      | x :: r => match pyval_of_val x, go r with Some y, Some ys => Some (y :: ys) | _, _ => None end
      end in
  match v with
  | VNone => Some PNone
  | VBool b => Some (PBool b)
  | VInt z => Some (PInt z)
  | VFloat f => Some (PFloat f)
  | VStr s => Some (PStr s)
  | VList l => option_map PList (many l)
  | VTup [VStr tag; VStr s] =>
      if str_eqb tag g_bytearray then Some (PBytearray s)
      else if str_eqb tag g_bytes then Some (PBytes s)
      else if str_eqb tag g_decimal then Some (PDecimal s)
      else None
  | VTup [VStr tag; VInt d] => if str_eqb tag g_date then Some (PDate d) else None
  | VTup [VStr tag; VInt us; VNone] => if str_eqb tag g_datetime then Some (PDatetime us None) else None
  | VTup [VStr tag; VInt us; VInt off] => if str_eqb tag g_datetime then Some (PDatetime us (Some off)) else None
  | VTup [VStr tag; VList l] =>
      if str_eqb tag g_tuple then option_map PTuple (many l)
      else if str_eqb tag g_dict then
        option_map PDict
          ((fix go (l : list val) : option (list (pyval * pyval)) :=
              match l with
              | [] => Some []
              | VTup [k; x] :: r =>
                  match pyval_of_val k, pyval_of_val x, go r with
                  | Some k', Some x', Some r' => Some ((k', x') :: r')
                  | _, _, _ => None
                  end
              | _ => None
              end) l)
      else None
  | VTup [VStr tag; VList names; VList vals] =>
      if str_eqb tag g_row || str_eqb tag g_namedtuple then      (* a top-level namedtuple: modelled as a Row *)
        match strs_of_vals names, many vals with
        | Some ns, Some vs => Some (PRow ns vs)
        | _, _ => None
        end
      else None
  | _ => None
  end.

Fixpoint val_of_pyval (v : pyval) : val :=
  match v with
  | PNone => VNone
  | PBool b => VBool b
  | PInt z => VInt z
  | PFloat f => VFloat f
  | PStr s => VStr s
  | PBytearray s => VTup [VStr g_bytearray; VStr s]
  | PBytes s => VTup [VStr g_bytes; VStr s]
  | PDecimal s => VTup [VStr g_decimal; VStr s]
  | PDate d => VTup [VStr g_date; VInt d]
  | PDatetime us None => VTup [VStr g_datetime; VInt us; VNone]
  | PDatetime us (Some off) => VTup [VStr g_datetime; VInt us; VInt off]
  | PList l => VList (map val_of_pyval l)
  | PTuple l => VTup [VStr g_tuple; VList (map val_of_pyval l)]
  | PDict kv => VTup [VStr g_dict; VList (map (fun p => VTup [val_of_pyval (fst p); val_of_pyval (snd p)]) kv)]
  | PRow names vals => VTup [VStr g_row; VList (map VStr names); VList (map val_of_pyval vals)]
  end.

Fixpoint pyvals_of_vals (l : list val) : option (list pyval) :=
  match l with
  | [] => Some []
  | x :: r => match pyval_of_val x, pyvals_of_vals r with Some y, Some ys => Some (y :: ys) | _, _ => None end
  end.

Definition val_of_unit (_ : unit) : val := VNone.
Definition val_of_rows (l : list pyval) : val := VList (map val_of_pyval l).

(* the harness runs with TZ=UTC: astimezone() converts to offset 0 *)
Definition local_offset : Z := 0.

Definition k_json := lit "json".
Definition k_infer := lit "infer".
Definition k_merge := lit "merge".
Definition k_verify := lit "verify".
Definition k_create := lit "create".
Definition k_create_s := lit "create_s".
Definition k_create_rdd := lit "create_rdd".
Definition k_create_named := lit "create_named".
Definition k_rdd := lit "rdd".
Definition k_row := lit "row".

Definition run_more (kind : str) (args : list val) : val :=
  if str_eqb kind k_infer then
    match args with
    | VList rows :: _ =>
        match pyvals_of_vals rows with
        | Some rs => val_of_res val_of_dtype (infer_schema_from_list rs)
        | None => VBad
        end
    | _ => VBad
    end
  else if str_eqb kind k_merge then
    match args with
    | a :: b :: _ =>
        match dtype_of_val a, dtype_of_val b with
        | Some a', Some b' => val_of_res val_of_dtype (merge_type a' b')
        | _, _ => VBad
        end
    | _ => VBad
    end
  else if str_eqb kind k_verify then
    match args with
    | t :: VBool nullable :: v :: _ =>
        match dtype_of_val t, pyval_of_val v with
        | Some t', Some v' => val_of_res val_of_unit (verify t' nullable v')
        | _, _ => VBad
        end
    | _ => VBad
    end
  else if str_eqb kind k_create then
    match args with
    | VList rows :: _ =>
        match pyvals_of_vals rows with
        | Some rs =>
            match infer_schema_from_list rs with
            | Ok s => val_of_res (fun out => VTup [val_of_dtype s; val_of_rows out]) (create_inferred local_offset rs)
            | Err e => VErr (exn_name e)
            end
        | None => VBad
        end
    | _ => VBad
    end
  else if str_eqb kind k_create_rdd then
    match args with
    | VList rows :: _ =>
        match pyvals_of_vals rows with
        | Some rs =>
            match infer_schema_rdd rs with
            | Ok s => val_of_res (fun out => VTup [val_of_dtype s; val_of_rows out]) (create_inferred_rdd local_offset rs)
            | Err e => VErr (exn_name e)
            end
        | None => VBad
        end
    | _ => VBad
    end
  else if str_eqb kind k_create_named then
    match args with
    | VList rows :: VList names :: VStr path :: _ =>
        match pyvals_of_vals rows, strs_of_vals names with
        | Some rs, Some ns =>
            val_of_res (fun p => VTup [val_of_dtype (fst p); val_of_rows (snd p)])
                       (if str_eqb path k_rdd then create_named_rdd local_offset ns rs
                        else create_named local_offset ns rs)
        | _, _ => VBad
        end
    | _ => VBad
    end
  else if str_eqb kind k_create_s then
    match args with
    | t :: VList rows :: _ =>
        match dtype_of_val t, pyvals_of_vals rows with
        | Some s, Some rs => val_of_res val_of_rows (create_with_schema local_offset s rs)
        | _, _ => VBad
        end
    | _ => VBad
    end
  else if str_eqb kind k_row then
    match args with
    | v :: _ =>
        match pyval_of_val v with
        | Some r => VTup [val_of_res val_of_pyval (pickle_loads (pickle_dumps r));
                          val_of_res val_of_pyval (as_dict r);
                          val_of_pyval (as_dict_conv r)]
        | None => VBad
        end
    | _ => VBad
    end
  else VBad.

Definition k_parse := lit "parse".

Definition run (c : val) : val :=
  match c with
  | VTup (VStr kind :: payload :: _) =>
      if str_eqb kind k_json then
        match dtype_of_val payload with
        | Some t => VTup [val_of_json (to_json t); val_of_res val_of_dtype (parse_json_string_of t)]
        | None => VBad
        end
      else if str_eqb kind k_parse then
        match json_of_val payload with
        | Some j => val_of_res val_of_dtype (parse_json_value j)
        | None => VBad
        end
      else match c with VTup (_ :: args) => run_more kind args | _ => VBad end
  | _ => VBad
  end.
