(* Correspondence entry point for C19.  case = VTup [VStr kind; payload...]:
     ("json",  tree)          -> (jsonValue(), _parse_datatype_json_string(json()))
     ("parse", json)          -> _parse_datatype_json_value(json)
   Encodings (py/c19.py produces the same):
     type tree : VStr typeName | ("decimal", p, s) | ("array", elem, containsNull) |
                 ("map", key, value, valueContainsNull) | ("struct", [(name, type, nullable, metadata-object)])
     JSON      : None/bool/int/float/str as themselves, list -> VList, object -> VTup [VList [(key, value)]] *)
From Coq Require Import ZArith NArith List Bool String PrimFloat.
Require Import PV.Base.Val PV.Gen.TypeTables PV.Model.Types.
Import ListNotations.
Open Scope Z_scope.

Definition exn_name (e : exn) : string :=
  match e with
  | EKey => "KeyError" | EValue => "ValueError" | EType => "TypeError" | EAssertion => "AssertionError"
  | EAttribute => "AttributeError" | ENotImplemented => "NotImplementedError"
  | EFuel => "OutOfFuel" | EUnmodelled => "Unmodelled"
  end%string.

(* ---------- JSON *)
Fixpoint json_of_val (v : val) : option json :=
  match v with
  | VNone => Some JNull
  | VBool b => Some (JBool b)
  | VInt z => Some (JInt z)
  | VFloat f => Some (JFloat f)
  | VStr s => Some (JStr s)
  | VList l =>
      option_map JArr
        ((fix go (l : list val) : option (list json) :=
            match l with
            | [] => Some []
            | x :: r => match json_of_val x, go r with Some j, Some js => Some (j :: js) | _, _ => None end
            end) l)
  | VTup [VList kvs] =>
      option_map JObj
        ((fix go (l : list val) : option (list (str * json)) :=
            match l with
            | [] => Some []
            | VTup [VStr k; x] :: r =>
                match json_of_val x, go r with Some j, Some js => Some ((k, j) :: js) | _, _ => None end
            | _ => None
            end) kvs)
  | _ => None
  end.

Fixpoint val_of_json (j : json) : val :=
  match j with
  | JNull => VNone
  | JBool b => VBool b
  | JInt z => VInt z
  | JFloat f => VFloat f
  | JStr s => VStr s
  | JArr l => VList (map val_of_json l)
  | JObj kv => VTup [VList (map (fun p => VTup [VStr (fst p); val_of_json (snd p)]) kv)]
  end.

Definition meta_of_val (v : val) : option (list (str * json)) :=
  match json_of_val v with Some (JObj m) => Some m | _ => None end.

(* ---------- type trees *)
Definition s_decimal := lit "decimal".
Definition s_array := lit "array".
Definition s_map := lit "map".
Definition s_struct := lit "struct".

Definition atom_of_name (s : str) : option atomic :=
  find (fun a => str_eqb (atom_name a) s) all_atomics.

Fixpoint dtype_of_val (v : val) : option dtype :=
  match v with
  | VStr s => option_map TAtom (atom_of_name s)
  | VTup [VStr tag; VInt p; VInt s] =>
      if str_eqb tag s_decimal then (if p <? 0 then None else Some (TDecimal (Z.to_N p) s)) else None
  | VTup [VStr tag; e; VBool b] =>
      if str_eqb tag s_array then option_map (fun e' => TArray e' b) (dtype_of_val e) else None
  | VTup [VStr tag; k; x; VBool b] =>
      if str_eqb tag s_map then
        match dtype_of_val k, dtype_of_val x with Some k', Some x' => Some (TMap k' x' b) | _, _ => None end
      else None
  | VTup [VStr tag; VList fs] =>
      if str_eqb tag s_struct then
        option_map TStruct
          ((fix go (l : list val) : option (list (sfield dtype)) :=
              match l with
              | [] => Some []
              | VTup [VStr n; ty; VBool nl; md] :: r =>
                  match dtype_of_val ty, meta_of_val md, go r with
                  | Some ty', Some m, Some fs' => Some (SField n ty' nl m :: fs')
                  | _, _, _ => None
                  end
              | _ => None
              end) fs)
      else None
  | _ => None
  end.

Fixpoint val_of_dtype (t : dtype) : val :=
  match t with
  | TAtom a => VStr (atom_name a)
  | TDecimal p s => VTup [VStr s_decimal; VInt (Z.of_N p); VInt s]
  | TArray e b => VTup [VStr s_array; val_of_dtype e; VBool b]
  | TMap k v b => VTup [VStr s_map; val_of_dtype k; val_of_dtype v; VBool b]
  | TStruct fs =>
      VTup [VStr s_struct;
            VList (map (fun f => match f with
                                 | SField n ty nl m => VTup [VStr n; val_of_dtype ty; VBool nl; val_of_json (JObj m)]
                                 end) fs)]
  end.

Definition val_of_res {A} (enc : A -> val) (r : res A) : val :=
  match r with Ok a => enc a | Err e => VErr (exn_name e) end.

Definition k_json := lit "json".
Definition k_parse := lit "parse".

Definition run (c : val) : val :=
  match c with
  | VTup (VStr kind :: payload :: _) =>
      if str_eqb kind k_json then
        match dtype_of_val payload with
        | Some t => VTup [val_of_json (to_json t); val_of_res val_of_dtype (parse_json_string_of t)]
        | None => VBad
        end
      else if str_eqb kind k_parse then
        match json_of_val payload with
        | Some j => val_of_res val_of_dtype (parse_json_value j)
        | None => VBad
        end
      else VBad
  | _ => VBad
  end.
