(* Correspondence entry point for C15.
   case   = VList of instructions (see py/c15.py [enc_*]), every instruction builds one DataFrame;
   result = VTup [VList observations (one per DataFrame built before the first exception); status]
   observation = VTup [columns; schema.names; rows; count; rdd-collect = collect]. *)
From Coq Require Import String ZArith NArith List Bool.
Require Import PV.Base.Val PV.Model.Schema.
Import ListNotations.
Open Scope Z_scope.
Close Scope string_scope.

Fixpoint omap {A B} (f : A -> option B) (l : list A) : option (list B) :=
  match l with
  | [] => Some []
  | x :: l' => match f x, omap f l' with Some y, Some ys => Some (y :: ys) | _, _ => None end
  end.

Definition dec_name (v : val) : option name := match v with VStr s => Some s | _ => None end.
Definition dec_names (v : val) : option (list name) :=
  match v with VList l | VTup l => omap dec_name l | _ => None end.
Definition dec_nat (v : val) : option nat := match v with VInt z => Some (Z.to_nat z) | _ => None end.
Definition dec_bool (v : val) : option bool := match v with VBool b => Some b | _ => None end.
Definition dec_vals (v : val) : option (list val) := match v with VList l | VTup l => Some l | _ => None end.

Fixpoint dec_expr (v : val) : option expr :=
  match v with
  | VTup [VInt 0; VStr n] => Some (ECol n)
  | VTup [VInt 1; x] => Some (ELit x)
  | VTup [VInt 2; a; b] => match dec_expr a, dec_expr b with Some x, Some y => Some (EAdd x y) | _, _ => None end
  | VTup [VInt 3; a; b] => match dec_expr a, dec_expr b with Some x, Some y => Some (EMul x y) | _, _ => None end
  | VTup [VInt 4; a] => option_map ENeg (dec_expr a)
  | VTup [VInt 5; a; VStr n] => option_map (fun e => EAlias e n) (dec_expr a)
  | _ => None
  end.
Definition dec_exprs (v : val) : option (list expr) :=
  match v with VList l | VTup l => omap dec_expr l | _ => None end.

Definition dec_scol (v : val) : option scol :=
  match v with
  | VTup [VInt 0] => Some SStar
  | VTup [VInt 1; e] => option_map SExpr (dec_expr e)
  | _ => None
  end.

Definition dec_how (v : val) : option jointype :=
  match v with
  | VInt 0 => Some JInner | VInt 1 => Some JLeft | VInt 2 => Some JRight
  | VInt 3 => Some JFull | VInt 4 => Some JSemi | VInt 5 => Some JAnti | _ => None
  end.

Definition dec_aggfn (v : val) : option aggfn :=
  match v with VInt 0 => Some ACount | VInt 1 => Some ASum | VInt 2 => Some AMin | VInt 3 => Some AMax | _ => None end.
Definition dec_agg (v : val) : option agg :=
  match v with
  | VTup [fn; arg; al] =>
      match dec_aggfn fn with
      | None => None
      | Some f =>
          match (match arg with VNone => Some None | e => option_map Some (dec_expr e) end),
                (match al with VNone => Some None | VStr s => Some (Some s) | _ => None end) with
          | Some a, Some l => Some (mkAgg f a l)
          | _, _ => None
          end
      end
  | _ => None
  end.
Definition dec_pivot (v : val) : option (option (name * option (list val))) :=
  match v with
  | VNone => Some None
  | VTup [VStr pc; VNone] => Some (Some (pc, None))
  | VTup [VStr pc; VList vs] => Some (Some (pc, Some vs))
  | _ => None
  end.
Definition dec_sortkey (v : val) : option (expr * bool) :=
  match v with
  | VTup [e; VBool b] => option_map (fun x => (x, b)) (dec_expr e)
  | _ => None
  end.

Definition dec_instr (v : val) : option instr :=
  match v with
  | VTup [VInt 0; VBool m; ns; VList data] =>
      match dec_names ns, omap dec_vals data with Some n, Some d => Some (ICreate m n d) | _, _ => None end
  | VTup [VInt 1; VInt a; VInt b; VInt s; _] => Some (IRange a b s)
  | VTup [VInt 2; src; VList cols] =>
      match dec_nat src, omap dec_scol cols with Some s, Some c => Some (ISelect s c) | _, _ => None end
  | VTup [VInt 3; src; VStr n; e] =>
      match dec_nat src, dec_expr e with Some s, Some x => Some (IWithColumn s n x) | _, _ => None end
  | VTup [VInt 4; src; ns] =>
      match dec_nat src, dec_names ns with Some s, Some n => Some (IDrop s n) | _, _ => None end
  | VTup [VInt 5; src; VStr o; VStr n] => option_map (fun s => IRename s o n) (dec_nat src)
  | VTup [VInt 6; src; ns] =>
      match dec_nat src, dec_names ns with Some s, Some n => Some (IToDF s n) | _, _ => None end
  | VTup [VInt 7; src; oth; how; on] =>
      match dec_nat src, dec_nat oth, dec_how how, dec_names on with
      | Some s, Some o, Some h, Some n => Some (IJoin s o h n) | _, _, _, _ => None end
  | VTup [VInt 8; src; oth] =>
      match dec_nat src, dec_nat oth with Some s, Some o => Some (ICross s o) | _, _ => None end
  | VTup [VInt 9; src; oth] =>
      match dec_nat src, dec_nat oth with Some s, Some o => Some (IUnion s o) | _, _ => None end
  | VTup [VInt 10; src; oth] =>
      match dec_nat src, dec_nat oth with Some s, Some o => Some (IUnionByName s o) | _, _ => None end
  | VTup [VInt 11; src; keys; pv; VList aggs; _] =>
      match dec_nat src, dec_exprs keys, dec_pivot pv, omap dec_agg aggs with
      | Some s, Some k, Some p, Some a => Some (IAgg s k p a) | _, _, _, _ => None end
  | VTup [VInt 12; src; VList keys] =>
      match dec_nat src, omap dec_sortkey keys with Some s, Some k => Some (ISort s k) | _, _ => None end
  | VTup [VInt 13; src; VInt n] => option_map (fun s => ILimit s n) (dec_nat src)
  | VTup [VInt 14; src] => option_map IDistinct (dec_nat src)
  | VTup [VInt 15; src; VBool wr; VInt a; VInt m] => option_map (fun s => ISample s wr a m) (dec_nat src)
  | VTup [VInt 16; src; _; cols] =>
      match dec_nat src, dec_exprs cols with Some s, Some c => Some (IRepartition s c) | _, _ => None end
  | VTup [VInt 17; VBool m; own; ns; VList data; VInt flavor] =>
      match dec_names own, dec_names ns, omap dec_vals data with
      | Some o, Some n, Some d => Some (ICreateRows (negb (Z.eqb (flavor mod 4) 2)) m o n d)
      | _, _, _ => None end
  | VTup [VInt 18; ns; VList attrs; VList data] =>
      match dec_names ns, omap dec_vals data with
      | Some n, Some d => Some (ICreateStrict n (map (fun a => match a with VInt z => Z.odd z | _ => false end) attrs) d)
      | _, _ => None end
  | VTup [VInt 19; src; ns] =>
      match dec_nat src, dec_names ns with Some s, Some n => Some (IDropDup s n) | _, _ => None end
  | _ => None
  end.

(* ---- canonical order for frames whose row order the model does not determine ---- *)
Definition cmp_val (a b : val) : comparison :=
  match a, b with
  | VNone, VNone => Eq | VNone, _ => Lt | _, VNone => Gt
  | VInt x, VInt y => Z.compare x y
  | _, _ => Eq
  end.
Fixpoint cmp_list {A} (c : A -> A -> comparison) (a b : list A) : comparison :=
  match a, b with
  | [], [] => Eq | [], _ => Lt | _, [] => Gt
  | x :: a', y :: b' => match c x y with Eq => cmp_list c a' b' | r => r end
  end.
Definition cmp_name : name -> name -> comparison := cmp_list N.compare.
Definition cmp_row (a b : row) : comparison :=
  match cmp_list cmp_val (snd a) (snd b) with Eq => cmp_list cmp_name (fst a) (fst b) | r => r end.
Definition cmp_shape (a b : row) : comparison :=
  match Nat.compare (length (snd a)) (length (snd b)) with Eq => cmp_list cmp_name (fst a) (fst b) | r => r end.
Fixpoint insert_by (c : row -> row -> comparison) (x : row) (l : list row) : list row :=
  match l with
  | [] => [x]
  | y :: r => match c x y with Gt => y :: insert_by c x r | _ => x :: l end
  end.
Definition sort_by (c : row -> row -> comparison) (l : list row) : list row := fold_right (insert_by c) [] l.

Definition vnames (l : list name) : val := VList (map VStr l).
Definition observe (f : frame) : val :=
  let rs := if fval f
            then map (fun r => VTup [vnames (fst r); VList (snd r)])
                     (if ford f then collect f else sort_by cmp_row (collect f))
            else map (fun r => VTup [vnames (fst r); VInt (Z.of_nat (length (snd r)))])
                     (sort_by cmp_shape (collect f)) in
  VTup [vnames (columns f); vnames (snames f); VList rs; VInt (count f); VBool true].

Definition run (c : val) : val :=
  match c with
  | VList l =>
      match omap dec_instr l with
      | None => VBad
      | Some prog =>
          let (env, st) := run_prog [] 1%N prog in
          VTup [VList (map observe env); match st with None => VNone | Some e => VErr e end]
      end
  | _ => VBad
  end.
