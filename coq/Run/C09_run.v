(* Correspondence entry point for C09.
   case   = VTup [VInt saver; VInt max_retries; parts; pre; wfaults; cfaults; VStr ext]
     ext     = codec extension of the target path ('' | '.gz' | '.tar.gz' ...); file contents are compared decoded
     saver 0 = saveAsTextFile  : parts = VList [VList [VStr line; ...]; ...]
     saver 1 = saveAsPickleFile: parts = VList [VTup [VStr pickled_bytes; VList elements]; ...]
                                 (pickle is a black box: its output is handed to the model)
     pre     = VTup [VInt 0] (absent) | VTup [VInt 1; VStr bytes] (file) | VTup [VInt 2; VList [VTup [name; VStr bytes]; ...]]
     name    = VTup [VInt 0; VInt i] (part-i) | VTup [VInt 1; VInt 0] (_SUCCESS) | VTup [VInt 2; VInt k] (old-k)
     wfaults = VList [VTup [VInt call; VInt mode; VInt j; VInt cls]; ...]   mode 0 before, 1 after mkdir, 2 torn after j bytes
     cfaults = VList [VTup [VInt partition; VInt attempt; VInt cls; VBool lazy]; ...]
     cls     = 0 injector's own Exception | 1 OSError | 2 StopIteration | 3 GeneratorExit | 4 StopIteration from next() on an empty iterator
   result = VTup [outcome; final fs; VList history; VInt dump_calls; VBool locked; follow-up job; read-back; names; per-part read; read through <path>/part-*; second save]
     names = the real file names in the final directory (from the regenerated format), in byte order
     entries of a directory in name order; read-back = VNone when not read (no marker / failed save) *)
From Coq Require Import ZArith NArith List Bool String.
Require Import PV.Base.Val PV.Gen.SaveOrder PV.Model.Save.
Import ListNotations.
Open Scope Z_scope.

Definition dec_name (v : val) : option name :=
  match v with
  | VTup [VInt 0; VInt i] => Some (NPart (Z.to_nat i))
  | VTup [VInt 1; VInt _] => Some NMarker
  | VTup [VInt 2; VInt k] => Some (NOther (Z.to_nat k))
  | _ => None
  end.

Definition enc_name (n : name) : val :=
  match n with
  | NPart i => VTup [VInt 0; VInt (Z.of_nat i)]
  | NMarker => VTup [VInt 1; VInt 0]
  | NOther k => VTup [VInt 2; VInt (Z.of_nat k)]
  end.

Fixpoint dec_entries (l : list val) : option (list (name * bytes)) :=
  match l with
  | [] => Some []
  | VTup [n; VStr b] :: r =>
      match dec_name n, dec_entries r with
      | Some nm, Some es => Some ((nm, b) :: es)
      | _, _ => None
      end
  | _ => None
  end.

Definition dec_fs (v : val) : option fs :=
  match v with
  | VTup [VInt 0] => Some FAbsent
  | VTup [VInt 1; VStr b] => Some (FFile b)
  | VTup [VInt 2; VList l] => match dec_entries l with Some es => Some (FDir es) | None => None end
  | _ => None
  end.

Definition enc_fs (f : fs) : val :=
  match f with
  | FAbsent => VTup [VInt 0]
  | FFile b => VTup [VInt 1; VStr b]
  | FDir ch => VTup [VInt 2; VList (map (fun e => VTup [enc_name (fst e); VStr (snd e)]) (sort_entries ch))]
  end.

Definition dec_cls (z : Z) : option cls :=
  match z with
  | 0 => Some KInjected | 1 => Some KOSError | 2 => Some KStop | 3 => Some KGenExit
  | 4 => Some KStop      (* "natural": next() on an empty iterator inside the partition function *)
  | _ => None
  end.

Fixpoint dec_wfaults (l : list val) : option (list (nat * (wfault * cls))) :=
  match l with
  | [] => Some []
  | VTup [VInt k; VInt mode; VInt j; VInt c] :: r =>
      match dec_wfaults r, dec_cls c with
      | Some fs, Some k' =>
          match mode with
          | 0 => Some ((Z.to_nat k, (WBefore, k')) :: fs)
          | 1 => Some ((Z.to_nat k, (WMkdir, k')) :: fs)
          | 2 => Some ((Z.to_nat k, (WTorn (Z.to_nat j), k')) :: fs)
          | _ => None
          end
      | _, _ => None
      end
  | _ => None
  end.

Fixpoint dec_cfaults (l : list val) : option (list (nat * nat * (cls * bool))) :=
  match l with
  | [] => Some []
  | VTup [VInt i; VInt a; VInt c; VBool lazy; VInt _] :: r =>   (* last: element position of a lazy fault *)
      match dec_cfaults r, dec_cls c with
      | Some fs, Some k => Some ((Z.to_nat i, Z.to_nat a, (k, lazy)) :: fs)
      | _, _ => None
      end
  | _ => None
  end.

Fixpoint find_wf (l : list (nat * (wfault * cls))) (k : nat) : option (wfault * cls) :=
  match l with
  | [] => None
  | (k', w) :: r => if Nat.eqb k k' then Some w else find_wf r k
  end.

Fixpoint find_cf (l : list (nat * nat * (cls * bool))) (i a : nat) : option (cls * bool) :=
  match l with
  | [] => None
  | (i', a', c) :: r => if Nat.eqb i i' && Nat.eqb a a' then Some c else find_cf r i a
  end.

Definition mk_plan (w : list (nat * (wfault * cls))) (c : list (nat * nat * (cls * bool))) : plan :=
  mkplan (fun k => match find_wf w k with Some x => Some (fst x) | None => None end)
         (fun k => match find_wf w k with Some x => snd x | None => KInjected end)
         (fun i a => match find_cf c i a with Some _ => true | None => false end)
         (fun i a => match find_cf c i a with Some x => fst x | None => KInjected end)
         (fun i a => match find_cf c i a with Some x => snd x | None => false end).

Definition cls_name (own : string) (c : cls) : string :=
  match c with
  | KInjected => own | KOSError => "OSError" | KStop => "StopIteration" | KGenExit => "GeneratorExit"
  end.

Definition exn_name (e : exn) : string :=
  match e with
  | EExists => "FileAlreadyExistsException"
  | EWrite c => cls_name "InjectedWriteFault" c
  | ECompute c => cls_name "InjectedComputeFault" c
  | ERuntime => "RuntimeError"
  | ELocked => "ContextIsLockedException"
  | ENotADir => "NotADirectoryError"
  | EIsADir => "IsADirectoryError"
  | ENoRetries => "RecursionError"
  end.

Definition enc_res (r : res unit) : val := match r with Ok _ => VNone | Err e => VErr (exn_name e) end.

Section Observe.
Variable A : Type.
Variable render : A -> bytes.
Variable decode : bytes -> res (list val).
Variable sv : saver.
Variable ext : list N.      (* codec extension of the target path ('' for a plain one) *)

Definition has_marker (f : fs) : bool := match child f NMarker with Some _ => true | None => false end.

Definition observe (p : plan) (m : nat) (xs : list A) (f0 : fs) : val :=
  let '(r, s1) := save A render sv p m xs (init_st f0 0 false) in
  (* follow-up job: ctx.parallelize([0, 1, 2], 2).collect() with the default plan *)
  let '(r2, _) := collect_job nat no_faults m [0%nat; 1%nat] s1 in
  let readback :=
    let ok := match r with Ok _ => true | Err _ => false end in
    if ok || (negb (fs_exists f0) && has_marker (s_fs s1))
    then match read_target val decode (s_fs s1) with
         | Ok vs => VList vs
         | Err e => VErr (exn_name e)
         end
    else VNone in
  let names := match s_fs s1 with
               | FDir ch => map (fun e => VStr (name_string (suffix_from_last_dot ext) (fst e))) (sort_entries ch)
               | _ => []
               end in
  (* every part file read on its own, in name order *)
  let per_part :=
    match readback, s_fs s1 with
    | VNone, _ => VNone
    | _, FDir ch => VList (map (fun e => match decode (snd e) with
                                          | Ok vs => VList vs
                                          | Err e' => VErr (exn_name e')
                                          end) (sort_entries (filter is_part ch)))
    | _, _ => VNone
    end in
  (* the same directory read through the pattern <path>/part-*: the part files, in name order *)
  let read_glob :=
    match readback, s_fs s1 with
    | VNone, _ => VNone
    | _, FDir _ => readback
    | _, _ => VNone
    end in
  (* a second, fault-free save of the same data to the same path after a successful one: outcome, and whether
     the target is unchanged *)
  let resave :=
    match r with
    | Ok _ => let '(r3, s3) := save A render sv no_faults m xs (init_st (s_fs s1) 0 false) in
              VTup [enc_res r3; VBool (val_eqb (enc_fs (s_fs s3)) (enc_fs (s_fs s1)))]
    | Err _ => VNone
    end in
  VTup [enc_res r; enc_fs (s_fs s1); VList (map enc_fs (s_hist s1)); VInt (Z.of_nat (s_calls s1));
        VBool (s_locked s1); enc_res r2; readback; VList names; per_part; read_glob; resave;
        VList []   (* paths created outside the target: never any *)].
End Observe.

(* text *)
Fixpoint dec_lines (l : list val) : option (list bytes) :=
  match l with
  | [] => Some []
  | VStr s :: r => match dec_lines r with Some ls => Some (s :: ls) | None => None end
  | _ => None
  end.
Fixpoint dec_text_parts (l : list val) : option (list (list bytes)) :=
  match l with
  | [] => Some []
  | VList ls :: r => match dec_lines ls, dec_text_parts r with
                     | Some x, Some xs => Some (x :: xs)
                     | _, _ => None
                     end
  | _ => None
  end.
Definition decode_text_val (b : bytes) : res (list val) :=
  match decode_text b with Ok ls => Ok (map VStr ls) | Err e => Err e end.

(* pickle: black box given by the case as a table *)
Fixpoint dec_pickle_parts (l : list val) : option (list (bytes * list val)) :=
  match l with
  | [] => Some []
  | VTup [VStr b; VList es] :: r => match dec_pickle_parts r with Some xs => Some ((b, es) :: xs) | None => None end
  | _ => None
  end.
Fixpoint unpickle (tbl : list (bytes * list val)) (b : bytes) : res (list val) :=
  match tbl with
  | [] => Err ENoRetries   (* not a pickle the case knows: cannot happen on the states that are read back *)
  | (b', es) :: r => if list_N_eqb b b' then Ok es else unpickle r b
  end.

Definition run (c : val) : val :=
  match c with
  | VTup [VInt saver; VInt m; VList parts; pre; VList wfs; VList cfs; VStr ext; VTup [VInt pmode; VInt pk]; VStr _; VInt _] =>   (* last two: the name of the target and how its path is spelled -- opaque *)
      match dec_fs pre, dec_wfaults wfs, dec_cfaults cfs with
      | Some f0, Some w, Some cfl =>
          let sizes := map (fun v => match v with
                                     | VList ls => List.length ls
                                     | VTup [_; VList es] => List.length es
                                     | _ => 0%nat
                                     end) parts in
          (* pmode 1: the saved data set itself is persisted and take(pk) ran before; 0: not persisted;
             2: persisted below the failing function (no difference for the save) *)
          let p := match pmode with
                   | 1 => persist_plan (take_visits sizes (Z.to_nat pk)) (mk_plan w cfl)
                   | _ => mk_plan w cfl
                   end in
          match saver with
          | 0 => match dec_text_parts parts with
                 | Some xs => observe (list bytes) render_text decode_text_val SvText ext p (Z.to_nat m) xs f0
                 | None => VBad
                 end
          | 1 => match dec_pickle_parts parts with
                 | Some xs => observe (bytes * list val) fst (unpickle xs) SvPickle ext p (Z.to_nat m) xs f0
                 | None => VBad
                 end
          (* 2, 3: the same savers, the target given as a file:// URL (no difference for the model) *)
          | 2 => match dec_text_parts parts with
                 | Some xs => observe (list bytes) render_text decode_text_val SvText ext p (Z.to_nat m) xs f0
                 | None => VBad
                 end
          | 3 => match dec_pickle_parts parts with
                 | Some xs => observe (bytes * list val) fst (unpickle xs) SvPickle ext p (Z.to_nat m) xs f0
                 | None => VBad
                 end
          | _ => VBad
          end
      | _, _, _ => VBad
      end
  | _ => VBad
  end.
