(* Correspondence entry point for C14.
   case = VTup [VStr mode; VList keycols; pivot; VList aggs; VList partitions]
     mode      "groupBy" | "rollup" | "cube" | "describe" | "summary"   (decoded by its first letter)
     pivot     VNone | VTup [VInt column; VNone | VList values]
     aggs      VList of VTup [VInt code; VList columns; VInt 0]
     partition VList of rows, row = VTup of cells (VNone | VInt | VFloat | VStr)
   result = VList of rows, row = VList (shown key values ++ aggregate cells); collect_set cells sorted. *)
From Coq Require Import ZArith NArith List Bool PrimFloat.
Require Import PV.Base.Val PV.Base.Num PV.Base.NumSqrt PV.Model.Agg.
Import ListNotations.
Open Scope Z_scope.

Definition fcell := @cell FloatOps.
Definition frow := list fcell.

Definition dec_cell (v : val) : option fcell :=
  match v with
  | VNone => Some CNull
  | VInt z => Some (CNum (NI z))
  | VFloat f => Some (CNum (NF (f : @F FloatOps)))
  | VStr s => Some (CStr s)
  | _ => None
  end.

Fixpoint dec_list {X} (f : val -> option X) (l : list val) : option (list X) :=
  match l with
  | [] => Some []
  | v :: l' => match f v, dec_list f l' with Some x, Some r => Some (x :: r) | _, _ => None end
  end.

Definition dec_row (v : val) : option frow :=
  match v with VTup l => dec_list dec_cell l | VList l => dec_list dec_cell l | _ => None end.
Definition dec_part (v : val) : option (list frow) :=
  match v with VList l => dec_list dec_row l | VTup l => dec_list dec_row l | _ => None end.
Definition dec_nat (v : val) : option nat := match v with VInt z => Some (Z.to_nat z) | _ => None end.
Definition dec_nats (v : val) : option (list nat) :=
  match v with VList l => dec_list dec_nat l | VTup l => dec_list dec_nat l | _ => None end.

Definition aggname_of (z : Z) : option aggname :=
  match z with
  | 0 => Some ACount | 1 => Some ACountStar | 2 => Some ASum | 3 => Some AAvg | 4 => Some AMin | 5 => Some AMax
  | 6 => Some AVarSamp | 7 => Some AVarPop | 8 => Some AStdSamp | 9 => Some AStdPop | 10 => Some ASkew
  | 11 => Some AKurt | 12 => Some ACollectList | 13 => Some ACollectSet | 14 => Some ACountDistinct
  | 15 => Some ASumDistinct | 16 => Some AFirst | 17 => Some AFirstIgn | 18 => Some ALast | 19 => Some ALastIgn
  | _ => None
  end.

Definition dec_agg (v : val) : option (aggname * list nat) :=
  match v with
  | VTup [VInt code; cols; _] =>
      match aggname_of code, dec_nats cols with Some a, Some c => Some (a, c) | _, _ => None end
  | _ => None
  end.

Definition dec_pivot (v : val) : option (option (nat * option (list fcell))) :=
  match v with
  | VNone => Some None
  | VTup [VInt c; VNone] => Some (Some (Z.to_nat c, None))
  | VTup [VInt c; VList vals] =>
      match dec_list dec_cell vals with Some l => Some (Some (Z.to_nat c, Some l)) | None => None end
  | _ => None
  end.

Definition enc_cell (c : fcell) : val :=
  match c with
  | CNull => VNone
  | CNum (NI z) => VInt z
  | CNum (NF f) => VFloat f
  | CStr s => VStr s
  end.

Definition is_collect_set (a : aggname) : bool := match a with ACollectSet => true | _ => false end.

Definition enc_oval (sorted : bool) (o : @oval FloatOps) : val :=
  match o with
  | OCell c => enc_cell c
  | OList l => VList (map enc_cell (if sorted then sort_cells l else l))
  end.

(* cell j of a row belongs to aggregate (j mod number of aggregates) *)
Fixpoint enc_cells (specs cur : list (aggname * list nat)) (outs : list (@oval FloatOps)) : list val :=
  match outs with
  | [] => []
  | o :: outs' =>
      match cur with
      | s :: cur' => enc_oval (is_collect_set (fst s)) o :: enc_cells specs cur' outs'
      | [] => match specs with
              | s :: cur' => enc_oval (is_collect_set (fst s)) o :: enc_cells specs cur' outs'
              | [] => enc_oval false o :: enc_cells specs [] outs'
              end
      end
  end.

Definition enc_key (k : @gkey FloatOps) : list val :=
  map (fun x => match x with Some c => enc_cell c | None => VNone end) k.

Definition str (l : list Z) : val := VStr (map Z.to_N l).
Definition stat_names : list val :=
  [str [99;111;117;110;116]; str [109;101;97;110]; str [115;116;100;100;101;118]; str [109;105;110]; str [109;97;120]].

Definition describe_cols : list nat := [0%nat; 1%nat; 2%nat; 3%nat].

Definition run (c : val) : val :=
  match c with
  | VTup [VStr (m :: _); keycols; pivot; VList aggs; VList parts] =>
      match dec_nats keycols, dec_pivot pivot, dec_list dec_agg aggs, dec_list dec_part parts with
      | Some kc, Some pv, Some specs, Some ps =>
          let go mode :=
            VList (map (fun kr => VList (enc_key (fst kr) ++ enc_cells specs specs (snd kr)))
                       (run_agg mode kc pv specs ps)) in
          if (m =? 103)%N then go GroupBy
          else if (m =? 114)%N then go Rollup
          else if (m =? 99)%N then go Cube
          else if ((m =? 100) || (m =? 115))%N then
            VList (map (fun nr => VList (fst nr :: map enc_cell (snd nr)))
                       (combine stat_names (run_describe describe_cols ps)))
          else VBad
      | _, _, _, _ => VBad
      end
  | _ => VBad
  end.
