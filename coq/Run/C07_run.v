(* Correspondence entry point for C07.  case = VTup (VInt kind :: args):
     kind 0  pipeline   [src; VList ops]            -> VTup [num_partitions; glom; indices] | VErr
              src = VTup [0; VList xs; n|None]   parallelize(xs, n)
                  | VTup [1; VList parts]        _parallelize_partitions(parts)
                  | VTup [2; N; n|None]          parallelize(range(N), n)
              op  = VTup [0; m] coalesce | [1; m] repartition | [2; n; fcode] partitionBy
                  | [3] zipWithUniqueId | [4] mapPartitionsWithIndex(tag)
     kind 4  pipeline with a transient task fault and at most one logging stage: as kind 0 with the ops
              [5; c] map | [6; c] flatMap | [7; c] keyBy | [8] mapValues | [9] persist | [10] zipWithIndex
              | [11; fi; where] faulty stage | [12] logging index tag (these ops are accepted in kind 0 too)
              -> VTup [num_partitions; glom; indices; indices logged per attempt during the final job]
     kind 5  [src; VList ops; VList sel]: the pipeline, then ONE job on the partitions sel (positions in
              rdd.partitions(), any order; [] = all) -> VTup [VList [VTup [tc.partition_id; contents]]; logged indices]
     kind 1  summary    [N; n|None]                 -> VList [VTup [count; first|None]] of parallelize(range(N), n)
     kind 2  hash       [key]                       -> VTup [portable_hash key; _hash key]
     kind 3  probe      [N; n; VList is]            -> VTup [n; VList [VTup [count_i; first_i|None]]]  (n > 1) *)
From Coq Require Import String.
From Coq Require Import ZArith NArith List Bool.
Require Import PV.Base.Val PV.Base.PyArith PV.Gen.Parallelize PV.Gen.Layout PV.Model.Layout.
Import ListNotations.
Open Scope Z_scope.

Definition ph := portable_hash no_runtime_hash.

(* number of decimal digits of a non-negative integer (len(str(z))) *)
Fixpoint ndigits_fuel (fuel : nat) (z : Z) : Z :=
  match fuel with
  | O => 1
  | S k => if z <? 10 then 1 else 1 + ndigits_fuel k (z / 10)
  end.
Definition ndigits (z : Z) : Z := ndigits_fuel (Z.to_nat (Z.log2 (Z.abs z) + 2)) (Z.abs z).
Definition int_str_len (z : Z) : Z := ndigits z + (if z <? 0 then 1 else 0).

(* a decimal.Decimal travels as the tagged tuple ('$dec', str(d)); only plain notations with an
   all-zero fraction are generated ('2', '2.00', '-10.0') *)
Definition dec_tag : list N := [36; 100; 101; 99]%N.
Definition as_dec (k : val) : option (list N) :=
  match k with VTup [VStr t; VStr s] => if list_N_eqb t dec_tag then Some s else None | _ => None end.
Fixpoint dec_digits (s : list N) (acc : Z) : Z :=
  match s with
  | [] => acc
  | c :: s' => if (48 <=? c)%N && (c <=? 57)%N then dec_digits s' (10 * acc + (Z.of_N c - 48)) else acc
  end.
Definition dec_int (s : list N) : Z :=
  match s with 45%N :: s' => - dec_digits s' 0 | _ => dec_digits s 0 end.

(* repr / str of an integral float below 1e16: '<int>.0', '-0.0' *)
Definition float_repr_len (f : PrimFloat.float) : Z :=
  match FloatOps.Prim2SF f with
  | SpecFloat.S754_zero s => if s then 4 else 3
  | SpecFloat.S754_finite s m e =>
      let z := if 0 <=? e then Zpos m * 2 ^ e else Zpos m / 2 ^ (- e) in
      ndigits z + 2 + (if s then 1 else 0)
  | _ => 3
  end.

(* len(repr(k)) and len(str(k)) on None / bool / int / integral float / Decimal *)
Definition repr_len (is_repr : bool) (k : val) : Z :=
  match as_dec k with
  | Some s => Z.of_nat (length s) + (if is_repr then 11 else 0)
  | None =>
      match k with
      | VNone => 4
      | VBool b => if b then 4 else 5
      | VInt z => int_str_len z
      | VFloat f => float_repr_len f
      | _ => 0
      end
  end.

(* len(type(k).__name__) *)
Definition type_name_len (k : val) : Z :=
  match as_dec k with
  | Some _ => 7
  | None =>
      match k with
      | VNone => 8 | VBool _ => 4 | VInt _ => 3 | VFloat _ => 5 | VStr _ => 3 | VTup _ => 5 | VList _ => 4
      | VErr _ => 0
      end
  end.

(* the partition-function library (Python twins in py/c07.py, FUNCS) *)
Definition fz (code : Z) (k : val) : Z :=
  match code, k with
  | 0, _ => match as_dec k with
            | Some s => rdd_hash_mask (py_hash_int (dec_int s))     (* hash(Decimal) of an integral value *)
            | None => rdd_hash no_runtime_hash k
            end
  | 1, VInt z => z
  | 2, VInt z => - z
  | 3, VInt z => z / 3
  | 4, VInt z => z * z + 1
  | 5, _ => 0
  | 6, VStr s => Z.of_nat (length s)
  | 6, VTup l | 6, VList l => Z.of_nat (length l)
  | 7, _ => type_name_len k
  | 8, _ => repr_len true k
  | 9, _ => repr_len false k
  | _, _ => 0
  end.

Definition dec_n (v : val) : option (option Z) :=
  match v with VNone => Some None | VInt n => Some (Some n) | _ => None end.

Definition dec_src (v : val) : option source :=
  match v with
  | VTup [VInt 0; VList xs; n] => match dec_n n with Some n' => Some (SPar xs n') | None => None end
  | VTup [VInt 1; VList ps] => match as_parts ps with Some ps' => Some (SParts ps') | None => None end
  | VTup [VInt 2; VInt N; n] =>
      match dec_n n with Some n' => Some (SPar (map VInt (zrange 0 N)) n') | None => None end
  | _ => None
  end.

(* element-function libraries (Python twins in py/c07.py: MAPS, FLATMAPS, KEYBYS, mapValues) *)
Definition gmap (code : Z) (v : val) : val :=
  match code, v with
  | 0, VTup [a; b] => VTup [b; a]
  | 1, VTup [k; x] => VTup [VTup [k]; x]
  | 2, VTup [VInt k; x] => VTup [VInt (k + 1); x]
  | 3, x => VTup [x; x]
  | _, _ => VNone
  end.
Definition gflat (code : Z) (v : val) : list val :=
  match code, v with
  | 0, VTup [a; b] => [VTup [a; b]; VTup [b; a]]
  | 1, x => [x; x]
  | _, _ => []
  end.
Definition gkey (code : Z) (e : val) : val :=
  match code, e with
  | 0, VTup [_; x] => VTup [x; e]
  | 1, _ => VTup [VInt 0; e]
  | 2, _ => VTup [e; e]
  | 3, VInt z => VTup [VInt (z mod 3); e]
  | _, _ => VNone
  end.
Definition gvalues (v : val) : val :=
  match v with VTup [k; x] => VTup [k; VTup [x]] | _ => VNone end.

Definition dec_op (v : val) : option op :=
  match v with
  | VTup [VInt 0; VInt m] => Some (OCoalesce m)
  | VTup [VInt 1; VInt m] => Some (ORepartition m)
  | VTup [VInt 2; VInt n; VInt c] => if (0 <=? c) && (c <=? 9) then Some (OPartitionBy n (fz c)) else None
  | VTup [VInt 3] => Some OZipUid
  | VTup [VInt 4] => Some OTagIndex
  | VTup [VInt 5; VInt c] => if (0 <=? c) && (c <=? 3) then Some (OMap (gmap c)) else None
  | VTup [VInt 6; VInt c] => if (0 <=? c) && (c <=? 1) then Some (OFlatMap (gflat c)) else None
  | VTup [VInt 7; VInt c] => if (0 <=? c) && (c <=? 3) then Some (OMap (gkey c)) else None
  | VTup [VInt 8] => Some (OMap gvalues)
  | VTup [VInt 9] => Some OPersist
  | VTup [VInt 10] => Some OZipIndex
  | VTup [VInt 11; VInt fi; VInt _] => Some (OFault fi)
  | VTup [VInt 12] => Some OTagIndex        (* the same stage, with a Python function that logs its index argument *)
  | _ => None
  end.

(* ops that run a job when they are applied (their input lineage is evaluated there) *)
Definition materialising (v : val) : bool :=
  match v with
  | VTup (VInt c :: _) => (c =? 0) || (c =? 1) || (c =? 2) || (c =? 10)
  | _ => false
  end.

(* the lazy stages evaluated by the final glom().collect(): everything after the last materialising op *)
Fixpoint final_segment (ops : list val) : list val :=
  match ops with
  | [] => []
  | o :: ops' =>
      let rest := final_segment ops' in
      if existsb materialising ops' then rest else if materialising o then ops' else o :: rest
  end.

Definition is_log (v : val) : bool := match v with VTup [VInt 12] => true | _ => false end.
Fixpoint fault_of (ops : list val) : option Z :=
  match ops with
  | [] => None
  | VTup [VInt 11; VInt fi; _] :: _ => Some fi
  | _ :: ops' => fault_of ops'
  end.

(* indices logged by the logging stage during the final job: one entry per attempt of every task *)
Definition attempt_log (ops : list val) (r : rdd) : list Z :=
  let seg := final_segment ops in
  if existsb is_log seg then
    let plans := fun i => match fault_of seg with
                          | Some fi => if i =? fi then [true] else []
                          | None => [] end in
    snd (run_job plans (fun _ p => p) r)
  else [].

Fixpoint dec_ops (l : list val) : option (list op) :=
  match l with
  | [] => Some []
  | v :: l' => match dec_op v, dec_ops l' with Some o, Some r => Some (o :: r) | _, _ => None end
  end.

(* Context.runJob(rdd, func, partitions=[rdd.partitions()[i] for i in sel]): the chosen Partition objects *)
Fixpoint select_parts (r : rdd) (sel : list Z) : option (list (Z * list val)) :=
  match sel with
  | [] => Some []
  | i :: sel' =>
      match py_idx (length r) i with
      | Some j => match nth_error r j, select_parts r sel' with
                  | Some ip, Some rest => Some (ip :: rest)
                  | _, _ => None
                  end
      | None => None
      end
  end.

Definition enc_rdd (r : rdd) : val :=
  VTup [VInt (num_partitions r); vparts (glom r); vints (indices r)].

Definition enc_summary (sc : Z * Z) : val :=
  VTup [VInt (snd sc); if snd sc =? 0 then VNone else VInt (fst sc)].

Definition run (c : val) : val :=
  match c with
  | VTup [VInt 0; src; VList ops] =>
      match dec_src src, dec_ops ops with
      | Some s, Some os =>
          match run_pipeline s os with Ok r => enc_rdd r | Err e => VErr e end
      | _, _ => VBad
      end
  | VTup [VInt 4; src; VList ops] =>
      match dec_src src, dec_ops ops with
      | Some s, Some os =>
          match run_pipeline s os with
          | Ok r => VTup [VInt (num_partitions r); vparts (glom r); vints (indices r); vints (attempt_log ops r)]
          | Err e => VErr e
          end
      | _, _ => VBad
      end
  | VTup [VInt 5; src; VList ops; VList sel] =>
      match dec_src src, dec_ops ops, all_Z sel with
      | Some s, Some os, Some sel' =>
          match run_pipeline s os with
          | Ok r =>
              let chosen := if match sel' with [] => true | _ => false end then Some r else select_parts r sel' in
              match chosen with
              | Some ch =>
                  let j := run_job (fun _ => []) (fun _ p => p) ch in
                  match fst j with
                  | Ok ps =>
                      VTup [VList (map (fun ip => VTup [VInt (fst (fst ip)); VList (snd ip)]) (combine ch ps));
                            vints (if existsb is_log (final_segment ops) then snd j else [])]
                  | Err e => VErr e
                  end
              | None => VErr "IndexError"
              end
          | Err e => VErr e
          end
      | _, _, _ => VBad
      end
  | VTup [VInt 1; VInt N; n] =>
      if N <? 0 then VBad else
      match dec_n n with
      | Some None => VList [enc_summary (0, N)]
      | Some (Some n') =>
          if par_single n' then VList [enc_summary (0, N)]
          else VList (map enc_summary (range_slices 0 N n' (zrange 0 n')))
      | None => VBad
      end
  | VTup [VInt 2; k] => VTup [VInt (ph k); VInt (rdd_hash no_runtime_hash k)]
  | VTup [VInt 3; VInt N; VInt n; VList is_] =>
      match all_Z is_ with
      | Some l =>
          if (N <? 0) || par_single n || negb (forallb (fun i => (0 <=? i) && (i <? n)) l) then VBad
          else VTup [VInt n; VList (map (fun i => enc_summary (range_probe N n i)) l)]
      | None => VBad
      end
  | _ => VBad
  end.
