(* Correspondence entry point for C07.  case = VTup (VInt kind :: args):
     kind 0  pipeline   [src; VList ops]            -> VTup [num_partitions; glom; indices] | VErr
              src = VTup [0; VList xs; n|None]   parallelize(xs, n)
                  | VTup [1; VList parts]        _parallelize_partitions(parts)
                  | VTup [2; N; n|None]          parallelize(range(N), n)
              op  = VTup [0; m] coalesce | [1; m] repartition | [2; n; fcode] partitionBy
                  | [3] zipWithUniqueId | [4] mapPartitionsWithIndex(tag)
     kind 1  summary    [N; n|None]                 -> VList [VTup [count; first|None]] of parallelize(range(N), n)
     kind 2  hash       [key]                       -> VTup [portable_hash key; _hash key]
     kind 3  probe      [N; n; VList is]            -> VTup [n; VList [VTup [count_i; first_i|None]]]  (n > 1) *)
From Coq Require Import String.
From Coq Require Import ZArith NArith List Bool.
Require Import PV.Base.Val PV.Base.PyArith PV.Gen.Parallelize PV.Gen.Layout PV.Model.Layout.
Import ListNotations.
Open Scope Z_scope.

Definition ph := portable_hash no_runtime_hash.

(* the partition-function library (Python twins in py/c07.py, FUNCS) *)
Definition fz (code : Z) (k : val) : Z :=
  match code, k with
  | 0, _ => rdd_hash no_runtime_hash k
  | 1, VInt z => z
  | 2, VInt z => - z
  | 3, VInt z => z / 3
  | 4, VInt z => z * z + 1
  | 5, _ => 0
  | 6, VStr s => Z.of_nat (length s)
  | 6, VTup l | 6, VList l => Z.of_nat (length l)
  | _, _ => 0
  end.

Definition dec_n (v : val) : option (option Z) :=
  match v with VNone => Some None | VInt n => Some (Some n) | _ => None end.

Definition dec_src (v : val) : option source :=
  match v with
  | VTup [VInt 0; VList xs; n] => match dec_n n with Some n' => Some (SPar xs n') | None => None end
  | VTup [VInt 1; VList ps] => match as_parts ps with Some ps' => Some (SParts ps') | None => None end
  | VTup [VInt 2; VInt N; n] =>
      match dec_n n with Some n' => Some (SPar (map VInt (zrange 0 N)) n') | None => None end
  | _ => None
  end.

Definition dec_op (v : val) : option op :=
  match v with
  | VTup [VInt 0; VInt m] => Some (OCoalesce m)
  | VTup [VInt 1; VInt m] => Some (ORepartition m)
  | VTup [VInt 2; VInt n; VInt c] => if (0 <=? c) && (c <=? 6) then Some (OPartitionBy n (fz c)) else None
  | VTup [VInt 3] => Some OZipUid
  | VTup [VInt 4] => Some OTagIndex
  | _ => None
  end.

Fixpoint dec_ops (l : list val) : option (list op) :=
  match l with
  | [] => Some []
  | v :: l' => match dec_op v, dec_ops l' with Some o, Some r => Some (o :: r) | _, _ => None end
  end.

Definition enc_rdd (r : rdd) : val :=
  VTup [VInt (num_partitions r); vparts (glom r); vints (indices r)].

Definition enc_summary (sc : Z * Z) : val :=
  VTup [VInt (snd sc); if snd sc =? 0 then VNone else VInt (fst sc)].

Definition run (c : val) : val :=
  match c with
  | VTup [VInt 0; src; VList ops] =>
      match dec_src src, dec_ops ops with
      | Some s, Some os =>
          match run_pipeline s os with Ok r => enc_rdd r | Err e => VErr e end
      | _, _ => VBad
      end
  | VTup [VInt 1; VInt N; n] =>
      if N <? 0 then VBad else
      match dec_n n with
      | Some None => VList [enc_summary (0, N)]
      | Some (Some n') =>
          if par_single n' then VList [enc_summary (0, N)]
          else VList (map enc_summary (range_slices 0 N n' (zrange 0 n')))
      | None => VBad
      end
  | VTup [VInt 2; k] => VTup [VInt (ph k); VInt (rdd_hash no_runtime_hash k)]
  | VTup [VInt 3; VInt N; VInt n; VList is_] =>
      match all_Z is_ with
      | Some l =>
          if (N <? 0) || par_single n || negb (forallb (fun i => (0 <=? i) && (i <? n)) l) then VBad
          else VTup [VInt n; VList (map (fun i => enc_summary (range_probe N n i)) l)]
      | None => VBad
      end
  | _ => VBad
  end.
