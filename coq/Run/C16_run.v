(* Correspondence entry point for C16.
   case = VTup [VInt op; VList data; layout; seed; params; streams; exps; logs; tag]
     layout = VInt numSlices                 the dataset is parallelize(data, numSlices)
            | VTup [_; _; VList partitions; ...]  the dataset is some other parent (union, mapPartitions(list), cached ...)
                                             whose partitions are given; sampling only sees the partitions
     op 0 sample        params = VTup [VBool withReplacement; VFloat fraction; _]
     op 1 sampleByKey   params = VTup [VBool withReplacement; VList [VTup [key; VFloat fraction]]]
     op 2 takeSample    params = VTup [VBool withReplacement; VInt num]
     op 3 randomSplit   params = VTup [VList weights]            (VInt / VFloat)
     op 4 the same sampled dataset s = sample(...) / sampleByKey(...) evaluated at different depths
                        params = VTup [VBool withReplacement; VBool keyed; VFloat fraction | fractions; VInt seed2]
                        value  = [collect; count; eight more views that must all be collect; s.sample(False, 1.0, seed2)]
     seed    = VInt z | VNone
     streams = VList [VTup [key; VList floats; VList raw ints]]   key = VInt z | VNone | VStr "g" (module level)
     exps / logs = VList [VTup [VFloat x; VFloat (math.exp x / math.log x)]]
   result = VTup [value; VTup [tag; VInt nU; VInt nB]]   (what happened to the module-level generator)
          | VErr name *)
From Coq Require Import ZArith NArith List Bool String.
From Coq Require Import SpecFloat PrimFloat FloatOps.
Require Import PV.Base.Val PV.Base.NumSF PV.Model.Sample.
Import ListNotations.
Open Scope Z_scope.

Definition dec_float (v : val) : option fl :=
  match v with VFloat f => Some (Prim2SF f) | _ => None end.

Fixpoint dec_list {B} (f : val -> option B) (l : list val) : option (list B) :=
  match l with
  | [] => Some []
  | v :: l' => match f v, dec_list f l' with Some b, Some r => Some (b :: r) | _, _ => None end
  end.

Definition dec_seed (v : val) : option seedk :=
  match v with VInt z => Some (KInt z) | VNone => Some KNone | _ => None end.

Definition dec_stream (v : val) : option (val * gen) :=
  match v with
  | VTup [k; VList us; VList bs] =>
      match dec_list dec_float us, all_Z bs with
      | Some u, Some b => Some (k, mkGen u b)
      | _, _ => None
      end
  | _ => None
  end.

Fixpoint find_gen (k : val) (t : list (val * gen)) : gen :=
  match t with
  | [] => mkGen [] []
  | (k', g) :: t' => if val_eqb k k' then g else find_gen k t'
  end.
Definition key_val (k : seedk) : val := match k with KInt z => VInt z | KNone => VNone end.
Definition g_key : val := VStr [103%N].
Definition oracle_of (t : list (val * gen)) : oracle := fun k => find_gen (key_val k) t.

Definition dec_pair (v : val) : option (fl * fl) :=
  match v with
  | VTup [VFloat x; VFloat y] => Some (Prim2SF x, Prim2SF y)
  | _ => None
  end.
Fixpoint table_fun (t : list (fl * fl)) (x : fl) : fl :=
  match t with
  | [] => S754_nan
  | (a, b) :: t' => if sf_same a x then b else table_fun t' x
  end.

(* sample[0] on an encoded Python value *)
Definition key_of_val (v : val) : res val :=
  match v with
  | VTup (k :: _) | VList (k :: _) => Ok k
  | VTup [] | VList [] | VStr [] => Err "IndexError"
  | VStr (c :: _) => Ok (VStr [c])
  | _ => Err "TypeError"
  end.

Definition dec_frac (v : val) : option (val * fl) :=
  match v with
  | VTup [k; VFloat f] => Some (k, Prim2SF f)
  | _ => None
  end.
Definition dec_weight (v : val) : option wnum :=
  match v with
  | VInt z => Some (WInt z)
  | VFloat f => Some (WFloat (Prim2SF f))
  | _ => None
  end.

Definition gsig (O : oracle) (g0 g : gstate) : val :=
  let base := match gtag g with None => ggen g0 | Some k => O k end in
  VTup [match gtag g with None => g_key | Some k => key_val k end;
        VInt (lenZ (gu base) - lenZ (gu (ggen g)));
        VInt (lenZ (gb base) - lenZ (gb (ggen g)))].

Definition enc_parts (O : oracle) (g0 : gstate) (r : res (list (list val) * gstate)) : val :=
  match r with
  | Err e => VErr e
  | Ok (ps, g) => VTup [vparts ps; gsig O g0 g]
  end.
Definition enc_list (O : oracle) (g0 : gstate) (r : res (list val * gstate)) : val :=
  match r with
  | Err e => VErr e
  | Ok (l, g) => VTup [VList l; gsig O g0 g]
  end.

Definition dec_layout (data : list val) (layout : val) : option (list (list val)) :=
  match layout with
  | VInt nsl => Some (parallelize val data nsl)
  | VTup (_ :: _ :: VList ps :: _) => as_parts ps
  | _ => None
  end.

Definition run (c : val) : val :=
  match c with
  | VTup [VInt op; VList data; layout; vseed; params; VList vstreams; VList vexps; VList vlogs; _] =>
    match dec_layout data layout with
    | None => VBad
    | Some parts =>
      match dec_seed vseed, dec_list dec_stream vstreams, dec_list dec_pair vexps, dec_list dec_pair vlogs with
      | Some seed, Some table, Some exps, Some logs =>
          let O := oracle_of table in
          let g0 := mkG None (find_gen g_key table) in
          let fexp := table_fun exps in
          let flog := table_fun logs in
          match op, params with
          | 0, VTup [VBool wr; VFloat f; _] =>
              let s := if wr then SPois val (Prim2SF f) else SBern val (Prim2SF f) in
              enc_parts O g0 (sample_rdd fexp val val key_of_val val_eqb O s seed parts g0)
          | 1, VTup [VBool wr; VList fr] =>
              match dec_list dec_frac fr with
              | Some tbl =>
                  let s := if wr then SPoisKey val tbl else SBernKey val tbl in
                  enc_parts O g0 (sample_rdd fexp val val key_of_val val_eqb O s seed parts g0)
              | None => VBad
              end
          | 2, VTup [VBool wr; VInt num] =>
              enc_list O g0 (takeSample fexp flog val val key_of_val val_eqb O wr num seed parts g0)
          | 4, VTup [VBool wr; VBool keyed; fr; VInt seed2] =>
              let so :=
                if keyed then
                  match fr with
                  | VList l => match dec_list dec_frac l with
                               | Some tbl => Some (if wr then SPoisKey val tbl else SBernKey val tbl)
                               | None => None
                               end
                  | _ => None
                  end
                else
                  match fr with
                  | VFloat f => Some (if wr then SPois val (Prim2SF f) else SBern val (Prim2SF f))
                  | _ => None
                  end in
              match so with
              | None => VBad
              | Some s =>
                  match sample_rdd fexp val val key_of_val val_eqb O s seed parts g0 with
                  | Err e => VErr e
                  | Ok (ps, g1) =>
                      match sample_rdd fexp val val key_of_val val_eqb O (SBern val sf_one) (KInt seed2) ps g1 with
                      | Err e => VErr e
                      | Ok (ps2, g2) =>
                          let fl := VList (List.concat ps) in
                          VTup [VList [fl; VInt (lenZ (List.concat ps)); fl; fl; fl; fl; fl; fl; fl; VList (List.concat ps2)];
                                gsig O g0 g2]
                      end
                  end
              end
          | 3, VTup [VList ws] =>
              match dec_list dec_weight ws with
              | Some w => enc_parts O g0 (randomSplit val O w seed parts g0)
              | None => VBad
              end
          | _, _ => VBad
          end
      | _, _, _, _ => VBad
      end
    end
  | _ => VBad
  end.
