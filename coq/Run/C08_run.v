(* Correspondence entry point for C08.

   case = VTup (VStr kind :: arguments); files are given as [(name, decoded content)] and are stored in
   the model file system compressed by the codec the model's get_codec assigns to the name (the harness
   writes the real files with the STANDARD-LIBRARY compressor named by the extension).
   The compression libraries are instantiated by a toy family  compress c b = tag c :: b  whose decoder
   fails on a foreign tag, pickle by a table (objects |-> stdlib pickle bytes) carried in the case.

     ("text",    files, path, parts, minP)          -> (listing with decoded contents, glom of textFile)
     ("textwhole", files, path, parts, minP)        -> (listing with decoded contents, glom of wholeTextFiles)
     ("pickle",  files, path, parts, minP, table)   -> (listing with decoded contents, glom of pickleFile)
     ("ctext",   files, path, parts, minP, cfg)     -> as "text"   (implementation runs on a thread pool; cfg ignored)
     ("cpickle", files, path, parts, minP, table, cfg) -> as "pickle"
     ("read",    files, path, minP, meta)           -> glom of textFile
     ("whole",   files, path, minP, meta)           -> glom of wholeTextFiles
     ("binfiles",files, path, minP, meta)           -> glom of binaryFiles
     ("records", files, path, recordLength, meta)   -> glom of binaryRecords   (meta: for the oracle only)
     ("codec",   path)                              -> class name chosen by get_codec *)
From Coq Require Import String Ascii ZArith NArith List Bool.
Require Import PV.Base.Val PV.Base.PyStrOps PV.Gen.Codecs PV.Model.Files.
Import ListNotations.
Open Scope Z_scope.

Definition tag (c : codec) : N :=
  match c with
  | CCodec => 200 | CNoCodec => 201 | CTar => 202 | CTarGz => 203 | CTarBz2 => 204 | CGz => 205
  | CZip => 206 | CBz2 => 207 | CLzma => 208 | CSevenZ => 209 | COther => 210
  end%N.
Definition toy_compress (c : codec) (b : bytes) : bytes := tag c :: b.
Definition toy_decompress (c : codec) (b : bytes) : option bytes :=
  match b with
  | t :: b' => if N.eqb t (tag c) then Some b' else None
  | [] => None
  end.

Definition str_of_string (s : string) : str := map (fun a => N_of_ascii a) (list_ascii_of_string s).

Definition kind_is (k : list N) (s : string) : bool := str_eqb k (str_of_string s).

(* ---------- decoding *)
Fixpoint all_str (l : list val) : option (list str) :=
  match l with
  | [] => Some []
  | VStr s :: l' => match all_str l' with Some r => Some (s :: r) | None => None end
  | _ => None
  end.
Fixpoint all_str_parts (l : list val) : option (list (list str)) :=
  match l with
  | [] => Some []
  | VList p :: l' =>
      match all_str p, all_str_parts l' with Some a, Some r => Some (a :: r) | _, _ => None end
  | _ => None
  end.
Fixpoint all_files (l : list val) : option (list (str * bytes)) :=
  match l with
  | [] => Some []
  | VTup [VStr n; VStr b] :: l' => match all_files l' with Some r => Some ((n, b) :: r) | None => None end
  | _ => None
  end.
Fixpoint all_table (l : list val) : option (list (list val * bytes)) :=
  match l with
  | [] => Some []
  | VTup [VList o; VStr b] :: l' => match all_table l' with Some r => Some ((o, b) :: r) | None => None end
  | _ => None
  end.
Definition as_minP (v : val) : option (option Z) :=
  match v with VNone => Some None | VInt z => Some (Some z) | _ => None end.
Definition as_reclen (v : val) : option reclen :=
  match v with
  | VNone => Some RLNone
  | VInt z => Some (RLFixed z)
  | VTup [VBool be; VInt w] => Some (RLVar be (Z.to_nat w))
  (* with the struct format string it came from (used by the implementation side only) *)
  | VTup [VBool be; VInt w; VStr _] => Some (RLVar be (Z.to_nat w))
  | _ => None
  end.

(* the model file system holding the given decoded contents *)
Definition mk_fs (files : list (str * bytes)) : fs :=
  fold_left (fun f nb => dump toy_compress f (fst nb) (snd nb)) files [].

(* ---------- encoding *)
Definition of_res {A} (enc : A -> val) (r : res A) : val :=
  match r with Ok a => enc a | Err e => VErr e end.
Definition vglom {A} (enc : A -> val) (ps : list (list A)) : val := VList (map (fun p => VList (map enc p)) ps).

(* every file with its content decoded by the codec of its name, sorted by path *)
Definition listing (f : fs) : val :=
  VList (map (fun n =>
                VTup [VStr n; match load_bytes toy_decompress f n with Ok b => VStr b | Err e => VErr e end])
             (sort_str (map fst f))).

(* ---------- pickle by table *)
Fixpoint vals_eqb (a b : list val) : bool :=
  match a, b with
  | [], [] => true
  | x :: a', y :: b' => val_eqb x y && vals_eqb a' b'
  | _, _ => false
  end.
Definition tbl_dumps (t : list (list val * bytes)) (o : list val) : bytes :=
  match find (fun e => vals_eqb (fst e) o) t with Some e => snd e | None => [] end.
Definition tbl_loads (t : list (list val * bytes)) (b : bytes) : res (list val) :=
  match find (fun e => str_eqb (snd e) b) t with Some e => Ok (fst e) | None => Err "UnpicklingError" end.

Fixpoint as_obj_parts (l : list val) : option (list (list val)) :=
  match l with
  | [] => Some []
  | VList p :: l' => match as_obj_parts l' with Some r => Some (p :: r) | None => None end
  | _ => None
  end.

Definition run_text (files p parts minP : val) : val :=
  match files, p, parts with
  | VList files, VStr p, VList parts =>
      match all_files files, all_str_parts parts, as_minP minP with
      | Some fl, Some ps, Some m =>
          match save_text toy_compress (mk_fs fl) p ps with
          | Ok f' => VTup [listing f'; of_res (vglom VStr) (read_text toy_decompress f' p m)]
          | Err e => VErr e
          end
      | _, _, _ => VBad
      end
  | _, _, _ => VBad
  end.

Definition run_pickle (files p parts minP table : val) : val :=
  match files, p, parts, table with
  | VList files, VStr p, VList parts, VList table =>
      match all_files files, as_obj_parts parts, as_minP minP, all_table table with
      | Some fl, Some ps, Some m, Some t =>
          match save_pickle toy_compress val (tbl_dumps t) (mk_fs fl) p ps with
          | Ok f' => VTup [listing f';
                           of_res (vglom (fun v => v)) (pickle_file toy_decompress val (tbl_loads t) f' p m)]
          | Err e => VErr e
          end
      | _, _, _, _ => VBad
      end
  | _, _, _, _ => VBad
  end.

Definition run (c : val) : val :=
  match c with
  | VTup (VStr k :: args) =>
      if kind_is k "codec" then
        match args with
        | [VStr p] => VStr (str_of_string (get_codec_name p))
        | _ => VBad
        end
      else if kind_is k "text" then
        match args with
        | [files; p; parts; minP] => run_text files p parts minP
        | _ => VBad
        end
      (* the same save / re-read executed by concurrently running tasks (thread pool, forced overlap inside
         Local.dump): the sequential model is the specification, the pool configuration is ignored *)
      else if kind_is k "ctext" then
        match args with
        | [files; p; parts; minP; _] => run_text files p parts minP
        | _ => VBad
        end
      else if kind_is k "cpickle" then
        match args with
        | [files; p; parts; minP; table; _] => run_pickle files p parts minP table
        | _ => VBad
        end
      else if kind_is k "textwhole" then
        match args with
        | [VList files; VStr p; VList parts; minP] =>
            match all_files files, all_str_parts parts, as_minP minP with
            | Some fl, Some ps, Some m =>
                match save_text toy_compress (mk_fs fl) p ps with
                | Ok f' => VTup [listing f';
                                 of_res (vglom (fun ns : path * str => VTup [VStr (fst ns); VStr (snd ns)]))
                                        (whole_text_files toy_decompress f' p m)]
                | Err e => VErr e
                end
            | _, _, _ => VBad
            end
        | _ => VBad
        end
      else if kind_is k "pickle" then
        match args with
        | [files; p; parts; minP; table] => run_pickle files p parts minP table
        | _ => VBad
        end
      else
        match args with
        | [VList files; VStr p; a; _] =>
            match all_files files with
            | Some fl =>
                let f := mk_fs fl in
                if kind_is k "read" then
                  match as_minP a with
                  | Some m => of_res (vglom VStr) (read_text toy_decompress f p m)
                  | None => VBad
                  end
                else if kind_is k "whole" then
                  match as_minP a with
                  | Some m => of_res (vglom (fun ns : path * str => VTup [VStr (fst ns); VStr (snd ns)]))
                                     (whole_text_files toy_decompress f p m)
                  | None => VBad
                  end
                else if kind_is k "binfiles" then
                  match as_minP a with
                  | Some m => of_res (vglom (fun ns : path * bytes => VTup [VStr (fst ns); VStr (snd ns)]))
                                     (binary_files toy_decompress f p m)
                  | None => VBad
                  end
                else if kind_is k "records" then
                  match as_reclen a with
                  | Some rl => of_res (vglom VStr) (binary_records toy_decompress f p rl)
                  | None => VBad
                  end
                else VBad
            | None => VBad
            end
        | _ => VBad
        end
  | _ => VBad
  end.
