(* Correspondence entry point for C06.
   case   = VTup [src; VList stages; action]
   src    = VTup [VInt 0; VList xs; VInt n] (parallelize xs n)  |  VTup [VInt 1; VList parts; VInt 0] (explicit partitions)
   stage  = VTup [VInt kind; VInt code; VInt flag]      action = VTup [VInt a; VInt a1; VInt a2; VInt a3]
            (a sample stage with flag >= 2 is the real sampler at a boundary fraction; its certain outcome is [code])
   action = VTup [VInt 13; VList actions; _; _] is a history: log and result become lists, one entry per action
   result = VTup [VList (calls logged after each definition step); VList log; action result; partitioning]
   Elements are ints or codes of None / '' / False / () / [] (NONE ... LST).
   The function library below is the Gallina twin of FN/PRED/GFN/MFN/HFN/OP in py/c06.py. *)
From Coq Require Import ZArith List Bool String.
Require Import PV.Base.Val PV.Model.Lazy.
Import ListNotations.
Open Scope Z_scope.

(* ints and the falsy / sentinel-like values None, '', False, (), [] ("specials"), written as codes > 100000 *)
Definition NONE := 100001.
Definition STR := 100002.
Definition FALSE := 100003.
Definition TUP := 100004.
Definition LST := 100005.
Definition sp (x : Z) : bool := x >? 100000.
Definition lift (f : Z -> Z) (x : Z) : Z := if sp x then x else f x.
Definition lift2 (f : Z -> Z -> Z) (a b : Z) : Z := if sp a || sp b then b else f a b.

(* (key, value) pairs of small ints are codes >= 200000 *)
Definition pair (k v : Z) : Z := 200000 + (k + 100) * 1000 + (v + 100).
Definition ispair (c : Z) : bool := c >=? 200000.
Definition pkey (c : Z) : Z := (c - 200000) / 1000 - 100.
Definition pval (c : Z) : Z := (c - 200000) mod 1000 - 100.

Definition lib_fn (c : Z) : option (Z -> Z) :=
  match c with
  | 0 => Some (lift (fun x => x + 1)) | 1 => Some (lift (fun x => 2 * x)) | 2 => Some (lift (fun x => - x))
  | 3 => Some (lift (fun x => x mod 7)) | 4 => Some (fun _ => 0)
  | 5 => Some (lift (fun x => if x =? 0 then NONE else x))
  | 6 => Some (fun _ => NONE)
  | 7 => Some (lift (fun x => if x mod 2 =? 0 then FALSE else x))
  | 8 => Some (fun _ => STR)
  | 9 => Some (lift (fun x => nth (Z.to_nat (x mod 5)) [NONE; STR; FALSE; TUP; LST] NONE))
  | 10 => Some (lift (fun x => if x mod 2 =? 1 then 0 else x))
  | 11 => Some (lift (fun x => pair (x mod 3) x))
  | _ => None
  end.
Definition lib_pred (c : Z) : option (Z -> bool) :=
  match c with
  | 0 => Some (fun x => sp x || (x mod 2 =? 0)) | 1 => Some (fun x => sp x || (x >? 0)) | 2 => Some (fun _ => true)
  | 3 => Some (fun _ => false) | 4 => Some (fun x => sp x || (x mod 5 <? 3))
  | 5 => Some sp | 6 => Some (fun x => negb (sp x)) | _ => None
  end.
Definition zupto (n : Z) : list Z := map Z.of_nat (seq 0 (Z.to_nat n)).
Definition lib_gfn (c : Z) : option (Z -> list Z) :=
  match c with
  | 0 => Some (fun x => [x; x]) | 1 => Some (fun x => if sp x then [x] else zupto (x mod 4)) | 2 => Some (fun _ => [])
  | 3 => Some (fun x => [x]) | 4 => Some (fun x => if sp x then [x] else [x; x + 1])
  | 5 => Some (fun x => [NONE; x])
  | 6 => Some (fun x => if sp x then [x] else if x mod 2 =? 0 then [NONE] else [x])
  | 7 => Some (fun _ => [NONE; NONE])
  | 8 => Some (fun x => [x; FALSE; STR])
  | _ => None
  end.
Definition lib_mfn (c : Z) : option (Z -> Z) :=
  match c with
  | 0 => Some (fun _ => 0) | 1 => Some (fun _ => 1) | 2 => Some (fun x => if sp x then 1 else x mod 3)
  | 3 => Some (fun x => if sp x || (x mod 2 =? 0) then 1 else 0) | 4 => Some (fun _ => 2) | _ => None
  end.
Definition lib_hfn (c : Z) : option (list Z -> list Z) :=
  match c with
  | 0 => Some (fun xs => xs) | 1 => Some zsort | 2 => Some (@rev Z) | 3 => Some (@tl Z)
  | 4 => Some (fun xs => [zsum xs]) | _ => None
  end.
Definition lib_op (c : Z) : option (Z -> Z -> Z) :=
  match c with
  | 0 => Some (lift2 Z.add) | 1 => Some (lift2 Z.max) | 2 => Some (lift2 Z.sub) | 3 => Some (fun _ b => b)
  | 4 => Some (fun a b => if sp a then b else a)
  | 5 => Some (fun a b => ((a mod 1009) * 3 + b mod 1009) mod 1009)
  | _ => None
  end.

(* pair datasets: keyBy, mapValues, flatMapValues, sampleByKey at fractions where the real per-key sampler is certain *)
Definition lib_kf (c : Z) : option (Z -> Z) :=
  match c with 0 => Some (fun x => x mod 2) | 1 => Some (fun x => x mod 3) | 2 => Some (fun _ => 0) | _ => None end.
Definition lib_vf (c : Z) : option (Z -> Z) :=
  match c with 0 => Some (fun v => v + 1) | 1 => Some (fun v => 2 * v) | 2 => Some (fun _ => 0) | _ => None end.
Definition lib_gv (c : Z) : option (Z -> list Z) :=
  match c with 0 => Some (fun v => [v; v]) | 1 => Some (fun _ => []) | 2 => Some (fun v => zupto (v mod 3)) | _ => None end.
(* keys that the Bernoulli per-key sampler keeps for fractions table c (1.0 -> always; 0.0 or no fraction -> never) *)
Definition lib_kept (c : Z) : option (Z -> bool) :=
  match c with
  | 0 => Some (fun k => (k =? 0) || (k =? 2)) | 1 | 2 | 3 => Some (fun _ => false) | 4 => Some (fun k => k =? 0)
  | _ => None
  end.
Definition keyby_stage (kf : Z -> Z) : stage := SMap (fun x => if sp x then x else pair (kf x) x).
Definition mapvalues_stage (vf : Z -> Z) : stage := SMap (fun pc => if ispair pc then pair (pkey pc) (vf (pval pc)) else pc).
Definition flatmapvalues_stage (gv : Z -> list Z) : stage :=
  SFlatMap (fun pc => if ispair pc then map (pair (pkey pc)) (gv (pval pc)) else [pc]).
Definition samplebykey_stage (kept : Z -> bool) : stage :=
  SSample (fun pc => if ispair pc then (if kept (pkey pc) then 1 else 0) else 0).

Definition omap {A B : Type} (f : A -> B) (o : option A) : option B :=
  match o with Some a => Some (f a) | None => None end.

Definition dec_stage (v : val) : option stage :=
  match v with
  | VTup [VInt k; VInt c; VInt flag] =>
      match k with
      | 0 => omap SMap (lib_fn c)
      | 1 => omap SFilter (lib_pred c)
      | 2 => omap SFlatMap (lib_gfn c)
      | 3 => omap SSample (lib_mfn c)
      | 4 | 7 => Some SPersist
      | 5 => if (c =? 4) && (flag =? 0) then None else omap (SEager (negb (flag =? 0))) (lib_hfn c)
      | 6 => Some SGenSum
      | 8 => omap keyby_stage (lib_kf c)
      | 9 => omap mapvalues_stage (lib_vf c)
      | 10 => omap flatmapvalues_stage (lib_gv c)
      | 12 => Some (SSilentMap (fun pc => if ispair pc then pkey pc else pc))     (* keys() *)
      | 13 => Some (SSilentMap (fun pc => if ispair pc then pval pc else pc))     (* values() *)
      | 11 => if (flag =? 0) || (c =? 1) || (c =? 2) || (c =? 3) then omap samplebykey_stage (lib_kept c) else None
      | _ => None
      end
  | _ => None
  end.

Fixpoint dec_stages (l : list val) : option (list stage) :=
  match l with
  | [] => Some []
  | v :: r =>
      match dec_stage v, dec_stages r with
      | Some s, Some ss => Some (s :: ss)
      | _, _ => None
      end
  end.

Definition dec_query (v : val) : option query :=
  match v with
  | VTup [VInt a; VInt a1; VInt a2; VInt a3] =>
      match a with
      | 0 => Some (QAction ACollect) | 1 => Some (QAction ACount) | 2 => Some (QAction ASum)
      | 3 => omap (fun op => QAction (AReduce op)) (lib_op a1)
      | 4 => omap (fun op => QAction (AFold a1 op)) (lib_op a2)
      | 5 => match lib_op a2, lib_op a3 with
             | Some sq, Some cb => Some (QAction (AAggregate a1 sq cb))
             | _, _ => None
             end
      | 6 => Some (QAction AForeach) | 7 => Some (QAction ACountByValue) | 8 => Some (QAction AStats)
      | 9 => Some (QAction ASaveText)
      | 10 => if a1 <? 0 then None else Some (QTake (Z.to_nat a1))
      | 11 => Some QFirst | 12 => Some QIsEmpty
      | _ => None
      end
  | _ => None
  end.

Fixpoint dec_parts (l : list val) : option (list (list Z)) :=
  match l with
  | [] => Some []
  | VList p :: r =>
      match all_Z p, dec_parts r with
      | Some zs, Some ps => Some (zs :: ps)
      | _, _ => None
      end
  | _ => None
  end.

Definition dec_src (v : val) : option (list (list Z)) :=
  match v with
  | VTup [VInt 0; VList xs; VInt n] => omap (fun zs => parallelize zs n) (all_Z xs)
  | VTup [VInt 1; VList ps; VInt _] => dec_parts ps
  | _ => None
  end.

Definition enc_event (e : event) : val :=
  match e with (s, p, j, v) => VTup [VInt s; VInt p; VInt j; VInt v] end.

Definition enc_result (r : result) : val :=
  match r with
  | RList l => vints l
  | RInt z => VInt z
  | RNone => VNone
  | RBool b => VBool b
  | RPairs l => VList (map (fun kv => VTup [VInt (fst kv); VInt (snd kv)]) l)
  | RErr s => VErr s
  end.

(* every member of the stats family (mean, max, ... = code 8 with a1 > 0) is one pass through stats(); only the
   count of stats() itself is compared, the other values are C17's business *)
Definition enc_query_result (act : val) (r : result) : val :=
  match act with
  | VTup [VInt 8; VInt a1; _; _] => if a1 =? 0 then enc_result r else VBool true
  | _ => enc_result r
  end.

Fixpoint dec_queries (l : list val) : option (list query) :=
  match l with
  | [] => Some []
  | v :: r =>
      match dec_query v, dec_queries r with
      | Some q, Some qs => Some (q :: qs)
      | _, _ => None
      end
  end.

Fixpoint enc_results (acts : list val) (rs : list (list event * result)) : list val :=
  match acts, rs with
  | a :: acts', (_, r) :: rs' => enc_query_result a r :: enc_results acts' rs'
  | _, _ => []
  end.

Definition run3 (c : val) : val :=
  match c with
  | VTup [src; VList sts; VTup [VInt 13; VList acts; _; _]] =>
      (* a history: several actions on the same dataset object; claimed for uncached lineages only *)
      match dec_src src, dec_stages sts, dec_queries acts with
      | Some parts, Some stages, Some qs =>
          if uncached stages then
            let '(ndef, rs) := run_program_history stages qs parts in
            VTup [VList (map (fun k => VInt (Z.of_nat k)) ndef);
                  VList (map (fun lr => VList (map enc_event (fst lr))) rs);
                  VList (enc_results acts rs); vparts (map (map VInt) parts)]
          else VBad
      | _, _, _ => VBad
      end
  | VTup [src; VList sts; act] =>
      match dec_src src, dec_stages sts, dec_query act with
      | Some parts, Some stages, Some q =>
          let '(ndef, (log, res)) := run_program stages q parts in
          VTup [VList (map (fun k => VInt (Z.of_nat k)) ndef); VList (map enc_event log); enc_query_result act res;
                vparts (map (map VInt) parts)]
      | _, _, _ => VBad
      end
  | _ => VBad
  end.

(* an optional 4th component is the process configuration (1 = DEBUG logging enabled for the pysparkling loggers):
   it must not change what is evaluated, so the model ignores it *)
Definition run (c : val) : val :=
  match c with
  | VTup [src; sts; act; VInt _] => run3 (VTup [src; sts; act])
  | _ => run3 c
  end.
