(* Correspondence entry point for C20.
   case = VTup (VInt kind :: args):
     0 "res"     [VStr cwd; VList [VStr relative file ...]; VList [VStr text of that file ...];
                  VList [VInt attribute ...] (ignored: the resolution must not depend on them); VStr all_expr]
                 -> VTup [sorted File.resolve_filenames; textFile(...).collect(); file names in the order
                          wholeTextFiles delivers them; the same for binaryFiles]   (or VErr each)
                    (collect() = the lines of the resolved files, in reading order)
     1 "fnm"     [VStr pattern]  -> VInt bit mask of fnmatch(name, pattern) over all names of length <= 5
                                    over the alphabet 'a' '.' '/' (by length, then lexicographically)
     2 "dirname" [VStr s] -> VStr (posixpath.dirname)
     3 "strip"   [VStr s] -> VStr (str.strip)
     4 "tok"     [VStr s] -> VStr (Tokenizer(s).get_next(['*', '?']))
     5 "getfs"   [VStr s] -> VStr (get_fs(s).__name__)
     6 "split"   [VStr s] -> VList (s.split(',')) *)
From Coq Require Import ZArith NArith List Bool String.
Require Import PV.Base.Val PV.Model.Glob.
Import ListNotations.
Open Scope Z_scope.

Fixpoint all_strs (l : list val) : option (list (list N)) :=
  match l with
  | [] => Some []
  | VStr s :: l' => match all_strs l' with Some r => Some (s :: r) | None => None end
  | _ => None
  end.

Definition mk_fs (cwd_s : list N) (rels : list (list N)) : fsys :=
  let c := norm_comps (split_on c_slash cwd_s) in
  {| cwd := c; files := map (fun r => c ++ split_on c_slash r) rels |}.

Definition enc_names (l : list (list N)) : val := VList (map VStr l).

(* str.splitlines for texts whose only line break is \n *)
Definition splitlines (t : list N) : list (list N) :=
  match t with
  | [] => []
  | _ => let l := split_on 10%N t in
         match last l [1%N] with [] => removelast l | _ => l end
  end.

Fixpoint text_of (f : list (list N)) (tbl : list (list (list N) * list N)) : list N :=
  match tbl with
  | [] => []
  | (g, t) :: tbl' => if comps_eqb f g then t else text_of f tbl'
  end.

Definition run_res (fs : fsys) (texts : list (list N)) (e : list N) : val :=
  if negb (wf_fs fs) || negb (Nat.eqb (List.length texts) (List.length (files fs))) then VBad else
  match read_order fs e with
  | Fail m => VTup [VErr m; VErr m; VErr m; VErr m]
  | Names l =>
      let tbl := combine (files fs) texts in
      VTup [enc_names l; enc_names (flat_map (fun s => splitlines (text_of (denote fs s) tbl)) l);
            enc_names l; enc_names l]
  end.

Fixpoint words (alpha : list N) (n : nat) : list (list N) :=
  match n with
  | O => [[]]
  | S k => flat_map (fun c => map (cons c) (words alpha k)) alpha
  end.
Definition all_words (alpha : list N) (n : nat) : list (list N) := flat_map (words alpha) (seq 0 (S n)).
Definition fnm_names : list (list N) := all_words [97; 46; 47]%N 5.

Fixpoint mask (l : list bool) : Z :=
  match l with
  | [] => 0
  | b :: r => (if b then 1 else 0) + 2 * mask r
  end.

Definition run (c : val) : val :=
  match c with
  | VTup [VInt 0; VStr cwd_s; VList fl; VList cl; VList _; VStr e] =>
      match all_strs fl, all_strs cl with
      | Some rels, Some texts => run_res (mk_fs cwd_s rels) texts e
      | _, _ => VBad
      end
  | VTup [VInt 1; VStr p] => VInt (mask (map (gmatch p) fnm_names))
  | VTup [VInt 2; VStr s] => VStr (dirname s)
  | VTup [VInt 3; VStr s] => VStr (strip s)
  | VTup [VInt 4; VStr s] => VStr (lit_prefix s)
  | VTup [VInt 5; VStr s] => VStr (get_fs s)
  | VTup [VInt 6; VStr s] => enc_names (split_on c_comma s)
  | _ => VBad
  end.
