(* C16 -- Sampling is seed-deterministic and returns only existing elements.

   Every statement is over the executable model PV.Model.Sample and holds for EVERY oracle [O]
   (= every family of draw streams, one per generator key), every partitioning [parts], every element
   type [A] (with any key projection [key_of] / key equality [keq] for sampleByKey), every value of the
   uninterpreted math.exp / math.log ([fexp], [flog]) and every state [g] of the module-level generator.
   [draws01 O]: all draws of random() lie in [0, 1).   Only statements, each closed by [exact]. *)
From Coq Require Import ZArith NArith Bool String List Permutation.
From Coq Require Import SpecFloat.
Require Import PV.Base.Val PV.Base.NumSF PV.Model.Sample.
Require Import PV.Proofs.Sample PV.Proofs.SampleMore PV.Proofs.SampleSplit PV.Proofs.SampleFloat PV.Proofs.SampleRS.
Import ListNotations.
Open Scope Z_scope.

(* sample(False, f, seed) and sampleByKey(False, ...): every partition of the result is a subsequence of the
   corresponding input partition (order-preserving sub-multiset) *)
Theorem C16_sample_subseq :
  forall fexp A K key_of keq (O : oracle) (s : sampler K) seed (parts : list (list A)) g rs g',
  is_bern K s = true ->
  sample_rdd fexp A K key_of keq O s seed parts g = Ok (rs, g') -> Forall2 Subseq rs parts.
Proof. exact sample_subseq. Qed.

Theorem C16_sample_submultiset :
  forall fexp A K key_of keq (O : oracle) (s : sampler K) seed (parts : list (list A)) g rs g',
  is_bern K s = true ->
  sample_rdd fexp A K key_of keq O s seed parts g = Ok (rs, g') ->
  Subseq (List.concat rs) (List.concat parts) /\ SubMultiset (List.concat rs) (List.concat parts).
Proof. exact sample_submultiset. Qed.

(* empty for f = 0 (either zero), complete for f = 1 *)
Theorem C16_sample_f0_empty :
  forall fexp A K key_of keq (O : oracle) p seed (parts : list (list A)) g rs g',
  draws01 O -> sf_is_zero p = true ->
  sample_rdd fexp A K key_of keq O (SBern K p) seed parts g = Ok (rs, g') -> Forall (fun r => r = []) rs.
Proof. exact sample_f0_empty. Qed.

Theorem C16_sample_f1_full :
  forall fexp A K key_of keq (O : oracle) seed (parts : list (list A)) g rs g',
  draws01 O ->
  sample_rdd fexp A K key_of keq O (SBern K sf_one) seed parts g = Ok (rs, g') -> rs = parts.
Proof. exact sample_f1_full. Qed.

(* sample(True, ...) and sampleByKey (any sampler): every partition of the result is the input partition with
   each element repeated some number of times in place; in particular only existing elements *)
Theorem C16_sample_repl_members :
  forall fexp A K key_of keq (O : oracle) (s : sampler K) seed (parts : list (list A)) g rs g',
  sample_rdd fexp A K key_of keq O s seed parts g = Ok (rs, g') ->
  Forall2 (fun r p => exists ns, List.length ns = List.length p /\ r = expand A p ns) rs parts
  /\ forall y, In y (List.concat rs) -> In y (List.concat parts).
Proof. exact sample_repl_members_both. Qed.

(* keys whose fraction is 0, or that are missing from the fractions (default 0.0), never appear *)
Theorem C16_sampleByKey_zero_or_missing_absent :
  forall fexp A K key_of keq (O : oracle) (s : sampler K) tbl seed (parts : list (list A)) g rs g',
  draws01 O -> is_keyed K s tbl ->
  sample_rdd fexp A K key_of keq O s seed parts g = Ok (rs, g') ->
  forall y k, In y (List.concat rs) -> key_of y = Ok k -> sf_is_zero (lookup K keq k tbl sf_zero) = false.
Proof. exact sampleByKey_zero_or_missing_absent. Qed.
Theorem C16_missing_key_has_fraction_zero :
  forall K keq (k : K) tbl d, (forall k' v, In (k', v) tbl -> keq k k' = false) -> lookup K keq k tbl d = d.
Proof. exact lookup_missing. Qed.

(* identical for equal seed and partitioning: with an integer seed the result is determined by the input, the
   partitioning and the streams of the generators seeded with seed + partition index -- it neither depends on
   nor advances the module-level generator, and no other generator matters *)
Theorem C16_deterministic :
  forall fexp A K key_of keq (O O' : oracle) (s : sampler K) z (parts : list (list A)) g g',
  (forall j, 0 <= j < lenZ parts -> gu (O (KInt (z + j))) = gu (O' (KInt (z + j)))) ->
  value (sample_rdd fexp A K key_of keq O s (KInt z) parts g)
  = value (sample_rdd fexp A K key_of keq O' s (KInt z) parts g').
Proof. exact sample_deterministic. Qed.
Theorem C16_deterministic_frame :
  forall fexp A K key_of keq (O : oracle) (s : sampler K) z (parts : list (list A)) g rs g',
  sample_rdd fexp A K key_of keq O s (KInt z) parts g = Ok (rs, g') -> g' = g.
Proof. exact sample_int_seed_frame. Qed.
Theorem C16_takeSample_deterministic :
  forall fexp flog A K key_of keq (O : oracle) wr num z (parts : list (list A)) g1 g2,
  value (takeSample fexp flog A K key_of keq O wr num (KInt z) parts g1)
  = value (takeSample fexp flog A K key_of keq O wr num (KInt z) parts g2).
Proof. exact takeSample_deterministic. Qed.
(* randomSplit reseeds the module-level generator before drawing, so its model does not read the incoming
   state at all (definitional, hence not listed as a theorem; the tie is the generator-usage signature that the
   correspondence compares). *)
(* non-vacuity of the [Ok] hypotheses: Bernoulli sampling succeeds when every task has one draw per element *)
Theorem C16_sample_total :
  forall fexp A K key_of keq (O : oracle) p z (parts : list (list A)) g,
  (forall j, 0 <= j < lenZ parts ->
     (List.length (nth (Z.to_nat j) parts []) <= List.length (gu (O (KInt (z + j)))))%nat) ->
  exists rs, sample_rdd fexp A K key_of keq O (SBern K p) (KInt z) parts g = Ok (rs, g).
Proof. exact sample_bern_total. Qed.

(* takeSample(False, n): exactly min(n, size) elements, a permutation of a prefix of the data (so a sub-multiset);
   the module-level generator is untouched *)
Theorem C16_takeSample_norepl :
  forall fexp flog A K key_of keq (O : oracle) num seed (parts : list (list A)) g l g',
  0 <= num ->
  takeSample fexp flog A K key_of keq O false num seed parts g = Ok (l, g') ->
  lenZ l = Z.min num (lenZ (List.concat parts))
  /\ Permutation l (takeZ num (List.concat parts))
  /\ SubMultiset l (List.concat parts)
  /\ g' = g.
Proof. exact takeSample_norepl_all. Qed.

(* takeSample(True, n) on a non-empty dataset.  The full statement (a result with exactly n elements for every
   draw stream) is FALSE of the code: the re-sampling loop `while len(samples) < num` does not terminate on
   a stream of zeros.  Proved: whenever the loop exits within the given streams, exactly n elements, all existing. *)
Definition C16_takeSample_repl_full : Prop :=
  forall fexp flog A K key_of keq (O : oracle) num seed (parts : list (list A)) g,
  draws01 O -> 0 < num -> List.concat parts <> [] ->
  exists l g', takeSample fexp flog A K key_of keq O true num seed parts g = Ok (l, g') /\ lenZ l = num.
Theorem C16_takeSample_repl_partial :
  forall fexp flog A K key_of keq (O : oracle) num seed (parts : list (list A)) g l g',
  0 < num -> List.concat parts <> [] ->
  takeSample fexp flog A K key_of keq O true num seed parts g = Ok (l, g') ->
  lenZ l = num /\ forall y, In y l -> In y (List.concat parts).
Proof. exact takeSample_repl_partial. Qed.
Theorem C16_takeSample_repl_refuted : ~ C16_takeSample_repl_full.
Proof. exact takeSample_repl_full_false. Qed.

(* randomSplit: for finite non-negative weights with a positive sum and draws in [0, 1), every element is
   assigned to exactly one split (the assignment [a]) and every split lists its elements in input order *)
Theorem C16_randomSplit_partition :
  forall A (O : oracle) ws seed (parts : list (list A)) g splits g',
  weights_ok ws -> draws01 O ->
  randomSplit A O ws seed parts g = Ok (splits, g') ->
  exists a : list nat,
    List.length a = List.length (List.concat parts) /\
    Forall (fun i => (i < List.length ws)%nat) a /\
    splits = map (fun i => select A i (List.concat parts) a) (seq 0 (List.length ws)).
Proof. exact randomSplit_partition. Qed.
Theorem C16_randomSplit_order_and_partition :
  forall A (O : oracle) ws seed (parts : list (list A)) g splits g',
  weights_ok ws -> draws01 O ->
  randomSplit A O ws seed parts g = Ok (splits, g') ->
  List.length splits = List.length ws /\
  Forall (fun s => Subseq s (List.concat parts)) splits /\
  Permutation (List.concat splits) (List.concat parts).
Proof. exact randomSplit_order_and_partition. Qed.
(* the float facts it rests on (IEEE-754 binary64, round to nearest even), for all valid values *)
Theorem C16_float_add_monotone :
  forall b q, valid b -> valid q -> SFleb sf_zero b = true -> SFleb sf_zero q = true -> SFleb b (sf_add b q) = true.
Proof. exact add_mono. Qed.
Theorem C16_float_div_nonneg :
  forall w s, valid w -> valid s -> sf_finite w = true -> SFleb sf_zero w = true -> SFltb sf_zero s = true ->
  SFleb sf_zero (sf_div w s) = true.
Proof. exact div_nonneg. Qed.

(* ---------------------------------------------------------------- non-vacuity / sanity *)
Definition q25 : fl := S754_finite false 4503599627370496 (-54).
Definition q50 : fl := S754_finite false 4503599627370496 (-53).
Definition q75 : fl := S754_finite false 6755399441055744 (-53).
Definition ex_oracle : oracle := fun k =>
  match k with
  | KInt 5 => mkGen [q25; q75; q25] [2; 0]
  | KInt 6 => mkGen [q75; q25] []
  | _ => mkGen [] []
  end.
Definition ex_g : gstate := mkG None (mkGen [] []).
Definition idk (x : Z) : res Z := Ok x.

(* seed 5, two partitions: generators 5 and 6; f = 0.5 keeps the elements whose draw is 0.25 *)
Example ex_sample :
  sample_rdd (fun _ => q50) Z Z idk Z.eqb ex_oracle (SBern Z q50) (KInt 5) [[1; 2; 3]; [4; 5]] ex_g
  = Ok ([[1; 3]; [5]], ex_g).
Proof. vm_compute. reflexivity. Qed.
(* weights [2, 3]: boundaries 0, 0.4, 1.0 *)
Example ex_weights_ok : weights_ok [WInt 2; WInt 3].
Proof. split; [repeat (constructor; [repeat split; vm_compute; reflexivity|]); constructor | vm_compute; reflexivity]. Qed.
Example ex_randomSplit :
  randomSplit Z ex_oracle [WInt 2; WInt 3] (KInt 5) [[1; 2]; [3]] ex_g
  = Ok ([[1; 3]; [2]], mkG (Some (KInt 5)) (mkGen [] [2; 0])).
Proof. vm_compute. reflexivity. Qed.
(* takeSample(False, 2) of [1, 2, 3]: shuffle of the first two elements with raw integers 2, 0 *)
Example ex_takeSample :
  takeSample (fun _ => q50) (fun _ => q50) Z Z idk Z.eqb ex_oracle false 2 (KInt 5) [[1; 2]; [3]] ex_g
  = Ok ([2; 1], ex_g).
Proof. vm_compute. reflexivity. Qed.
Example ex_draws01 : draws01 zero_oracle.
Proof. exact zero_oracle_01. Qed.
(* the classic accumulation [0.1]*10 ends at 1 - 2^-53; the forced last boundary still catches the draw 1 - 2^-53 *)
Definition tenth : fl := S754_finite false 7205759403792794 (-56).
Definition one_minus : fl := S754_finite false 9007199254740991 (-53).
Example ex_tenths :
  randomSplit Z (fun _ => mkGen [one_minus] []) (repeat (WFloat tenth) 10) (KInt 0) [[7]] ex_g
  = Ok ([[]; []; []; []; []; []; []; []; []; [7]], mkG (Some (KInt 0)) (mkGen [] [])).
Proof. vm_compute. reflexivity. Qed.
