(* C09 -- existing outputs are never overwritten and _SUCCESS marks only complete saves.
   Only statements, each closed by [exact] of a lemma from PV.Proofs.Save.
   [save A render sv p m xs s]: the saver [sv] (text / pickle, interpreting the step list regenerated from
   rdd.py) on partitions [xs] rendered by [render], under fault plan [p] with max_retries [m], from state [s]. *)
From Coq Require Import List Bool Arith NArith.
Require Import PV.Gen.SaveOrder PV.Model.Save PV.Proofs.Save.
Import ListNotations.

(* An existing target (file, directory, empty directory -- anything): FileAlreadyExistsException, and the
   whole state is EQUAL to the initial one: same file system, no dump call even attempted, lock untouched. *)
Theorem C09_no_overwrite : forall A render sv p m xs f0 c0 lk,
  fs_exists f0 = true ->
  save A render sv p m xs (init_st f0 c0 lk) = (Err EExists, init_st f0 c0 lk).
Proof. exact no_overwrite. Qed.

(* Invariant over every prefix of the effect sequence: in every state the file system goes through (after
   each dump call, failed or not) and in the final one, the marker is present only on the complete directory. *)
Theorem C09_marker_implies_complete : forall A render sv p m xs c0 r s',
  save A render sv p m xs (init_st FAbsent c0 false) = (r, s') ->
  forall f, In f (s_hist s' ++ [s_fs s']) -> child f NMarker <> None ->
  f = complete_dir A render xs /\ length xs <> 1.
Proof. exact marker_implies_complete. Qed.
Theorem C09_complete_dir_parts : forall A render xs i,
  child (complete_dir A render xs) (NPart i) = option_map render (nth_error xs i).
Proof. exact complete_dir_parts. Qed.

(* A failed save leaves no marker -- for every fault plan; the only exception is a torn write of the marker
   file itself (created, then the write raises), and then every part file is complete. *)
Theorem C09_failure_no_marker : forall A render sv p m xs c0 e s',
  save A render sv p m xs (init_st FAbsent c0 false) = (Err e, s') ->
  child (s_fs s') NMarker = None
  \/ (s_fs s' = complete_dir A render xs /\ e = EWrite /\ exists j, wf p (pred (s_calls s')) = Some (WTorn j)).
Proof. exact failure_no_marker. Qed.
Theorem C09_failure_no_marker_atomic : forall A render sv p m xs c0 e s',
  (forall k j, wf p k <> Some (WTorn j)) ->
  save A render sv p m xs (init_st FAbsent c0 false) = (Err e, s') ->
  child (s_fs s') NMarker = None.
Proof. exact failure_no_marker_atomic. Qed.
