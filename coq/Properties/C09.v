(* C09 -- existing outputs are never overwritten and _SUCCESS marks only complete saves.
   Only statements, each closed by [exact] of a lemma from PV.Proofs.Save.

   [save A render sv p m xs s]: the saver [sv] (SvText / SvPickle; Model/Save.v interprets the statement
   order regenerated from rdd.py into Gen/SaveOrder.v) on the partitions [xs], partition [x] being written
   as the bytes [render x], with max_retries [m], under the fault plan [p]:
     [wf p k]   = how the k-th call of Local.dump fails (None: it does not) -- before anything, after the
                  directory was made, or torn after j bytes -- and [wc p k] the exception class it raises;
     [cf p i a] = the computation of partition i fails on attempt a, raising class [cc p i a], lazily from a
                  generator when [cl p i a];
     classes [cls]: an ordinary Exception, OSError, StopIteration, GeneratorExit (not an Exception: not retried).
   [from_write e] / [from_compute e]: e is an injected write / compute fault of any class, or the RuntimeError a
   StopIteration turns into when it crosses a generator.
   [init_st f0 c0 lk]: target path in state [f0] (FAbsent | FFile bytes | FDir entries), [c0] dump calls made
   so far on this context, job lock [lk].  The result is (Ok tt | Err exception, final state); [s_hist] of the
   final state lists the file system after every dump call (every prefix of the effect sequence).
   Every theorem quantifies over ALL plans, partition lists, retry counts and call offsets. *)
From Coq Require Import List Bool Arith NArith.
Require Import PV.Gen.SaveOrder PV.Model.Save PV.Proofs.Save PV.Proofs.SaveNames PV.Proofs.SaveHistory PV.Proofs.SavePersist.
Import ListNotations.

(* ---- clause 1: an existing target is refused before anything is written or modified ----
   Target exists as a file, a directory or an empty directory (anything but absent): the result is
   FileAlreadyExistsException and the WHOLE state is equal to the initial one -- same file system, no dump
   call was even attempted (call counter and history unchanged), lock untouched. *)
Theorem C09_no_overwrite : forall A render sv p m xs f0 c0 lk,
  fs_exists f0 = true ->
  save A render sv p m xs (init_st f0 c0 lk) = (Err EExists, init_st f0 c0 lk).
Proof. exact no_overwrite. Qed.

(* after a successful save (one file or marked directory) a second save to the same path -- any data, plan, saver --
   is refused and changes nothing.  Paths are opaque in the model: the NAME of the target plays no role. *)
Theorem C09_second_save_refused : forall A render sv p m xs c0 s1,
  save A render sv p m xs (init_st FAbsent c0 false) = (Ok tt, s1) ->
  forall (B : Type) (render2 : B -> bytes) sv2 p2 m2 (ys : list B) c1 lk,
  save B render2 sv2 p2 m2 ys (init_st (s_fs s1) c1 lk) = (Err EExists, init_st (s_fs s1) c1 lk).
Proof. exact second_save_refused. Qed.

(* ---- clause 2: the marker is written only after every partition file ----
   Invariant over every prefix of the effect sequence: in every state the target goes through and in the final
   one, if _SUCCESS is there then the directory is exactly the complete one (and the save is multi-partition). *)
Theorem C09_marker_implies_complete : forall A render sv p m xs c0 r s',
  save A render sv p m xs (init_st FAbsent c0 false) = (r, s') ->
  forall f, In f (s_hist s' ++ [s_fs s']) -> child f NMarker <> None ->
  f = complete_dir A render xs /\ length xs <> 1.
Proof. exact marker_implies_complete. Qed.
(* the history quantified over above is faithful: exactly one entry per dump call made by this save, and the
   final file system is its last entry (the initial one when nothing was called) -- for any target pre-state *)
Theorem C09_history_faithful : forall A render sv p m xs f0 c0 lk r s',
  save A render sv p m xs (init_st f0 c0 lk) = (r, s') ->
  s_calls s' = c0 + length (s_hist s') /\ s_fs s' = last (s_hist s') f0.
Proof. exact history_faithful. Qed.
(* ... and the complete directory holds, for every i, the final content of partition i and no other part file *)
Theorem C09_complete_dir_parts : forall A render xs i,
  child (complete_dir A render xs) (NPart i) = option_map render (nth_error xs i).
Proof. exact complete_dir_parts. Qed.

(* ---- "if the save fails at any point the marker is absent" ----
   For every fault plan.  The one exception is a torn write of the marker file itself (the file was created,
   then the write raised: an empty file cannot be half-written); then every part file is complete. *)
Theorem C09_failure_no_marker : forall A render sv p m xs c0 e s',
  save A render sv p m xs (init_st FAbsent c0 false) = (Err e, s') ->
  child (s_fs s') NMarker = None
  \/ (s_fs s' = complete_dir A render xs /\ from_write e /\ exists j, wf p (pred (s_calls s')) = Some (WTorn j)).
Proof. exact failure_no_marker. Qed.
(* when failed writes leave no file behind (before / after mkdir), without exception: *)
Theorem C09_failure_no_marker_atomic : forall A render sv p m xs c0 e s',
  (forall k j, wf p k <> Some (WTorn j)) ->
  save A render sv p m xs (init_st FAbsent c0 false) = (Err e, s') ->
  child (s_fs s') NMarker = None.
Proof. exact failure_no_marker_atomic. Qed.

(* ---- "the error reaches the caller" ---- *)
(* a save that returns normally has produced the complete output (one file, or all parts + marker) *)
Theorem C09_ok_implies_complete : forall A render sv p m xs c0 s',
  save A render sv p m xs (init_st FAbsent c0 false) = (Ok tt, s') ->
  s_fs s' = match xs with [x] => FFile (render x) | _ => complete_dir A render xs end.
Proof. exact ok_implies_complete. Qed.
(* what the caller sees is the injected fault itself, never another exception *)
Theorem C09_failure_is_injected_fault : forall A render sv p m xs f0 c0 e s',
  1 <= m ->
  save A render sv p m xs (init_st f0 c0 false) = (Err e, s') ->
  (e = EExists /\ fs_exists f0 = true)
  \/ (from_write e /\ exists k, wf p k <> None)
  \/ (from_compute e /\ exists i a, cf p i a = true).
Proof. exact failure_is_injected_fault. Qed.
(* crash plan "the computation of partition i fails on every attempt" (whatever else the plan contains) *)
Theorem C09_compute_failure_surfaces : forall A render sv p m xs c0 i r s',
  1 <= m -> i < length xs -> (forall a, 1 <= a <= m -> cf p i a = true) ->
  save A render sv p m xs (init_st FAbsent c0 false) = (r, s') ->
  exists e, r = Err e /\ (from_compute e \/ from_write e) /\ child (s_fs s') NMarker = None.
Proof. exact compute_failure_surfaces. Qed.
(* crash plan "the k-th file write fails" (k < n: on each of its max_retries attempts) *)
Theorem C09_write_failure_surfaces_part : forall A render sv p m xs c0 k r s',
  1 <= m -> length xs <> 1 -> k < length xs -> (forall i a, cf p i a = false) ->
  (forall k', c0 <= k' < c0 + k -> wf p k' = None) ->
  (forall k', c0 + k <= k' < c0 + k + m -> wf p k' <> None) ->
  save A render sv p m xs (init_st FAbsent c0 false) = (r, s') ->
  (exists e, r = Err e /\ from_write e) /\ c0 + k < s_calls s' <= c0 + k + m /\ child (s_fs s') NMarker = None.
Proof. exact write_failure_surfaces_part. Qed.
(* k = n: the marker write fails (it is not retried); all part files are there *)
Theorem C09_write_failure_surfaces_marker : forall A render sv p m xs c0 r s',
  1 <= m -> length xs <> 1 -> (forall i a, cf p i a = false) ->
  (forall k', c0 <= k' < c0 + length xs -> wf p k' = None) ->
  wf p (c0 + length xs) <> None ->
  save A render sv p m xs (init_st FAbsent c0 false) = (r, s') ->
  (exists e, r = Err e /\ from_write e) /\ s_calls s' = c0 + length xs + 1 /\
  forall i x, nth_error xs i = Some x -> child (s_fs s') (NPart i) = Some (render x).
Proof. exact write_failure_surfaces_marker. Qed.
(* single-partition save: its one write fails *)
Theorem C09_write_failure_surfaces_single : forall A render sv p m x c0 r s',
  1 <= m -> (forall a, cf p 0 a = false) -> wf p c0 <> None ->
  save A render sv p m [x] (init_st FAbsent c0 false) = (r, s') ->
  (exists e, r = Err e /\ from_write e) /\ s_calls s' = S c0.
Proof. exact write_failure_surfaces_single. Qed.

(* ---- StopIteration: what the code does with it today ----
   A StopIteration raised by a partition computation (every attempt; eagerly, lazily, or by next() on an empty
   iterator inside the partition function), nothing else failing: the caller gets RuntimeError -- it crossed the
   generator of Context._runJob_local (regenerated [runjob_local_kind = TaskGenerator]; a map object would let it
   end the job silently) --, exactly the partitions before i were written, no marker. *)
Theorem C09_compute_stop_surfaces_as_runtime_error : forall A render sv p m xs c0 i r s',
  1 <= m -> i < length xs ->
  (forall a, 1 <= a <= m -> cf p i a = true /\ cc p i a = KStop) ->
  (forall i' a, i' <> i -> cf p i' a = false) -> (forall k, wf p k = None) ->
  save A render sv p m xs (init_st FAbsent c0 false) = (r, s') ->
  r = Err ERuntime /\ s_calls s' = c0 + (if length xs =? 1 then 0 else i) /\ child (s_fs s') NMarker = None.
Proof. exact compute_stop_surfaces_as_runtime_error. Qed.
(* for every plan and pre-state: a computation's StopIteration never reaches the caller as StopIteration *)
Theorem C09_compute_stop_never_bare : forall A render sv p m xs f0 c0 lk e s',
  save A render sv p m xs (init_st f0 c0 lk) = (Err e, s') -> e <> ECompute KStop.
Proof. exact compute_stop_never_bare. Qed.

(* ---- saving a PERSISTED data set ----
   [persist_plan cached p]: the plan as a persisted (cache()) data set sees it -- the first [cached] partitions were
   materialised beforehand and are not computed again; within a task a partition is computed again only while every
   earlier attempt failed computing it.  Every theorem of this file quantifies over all plans, hence holds for
   [persist_plan cached p] too; in particular: a partition not yet materialised that fails while being computed
   (at its first, a middle, its last element or after it) on every attempt makes the save fail, without marker. *)
Theorem C09_persisted_compute_failure_surfaces : forall A render sv p m xs c0 cached i r s',
  1 <= m -> i < length xs -> cached <= i -> (forall a, 1 <= a <= m -> cf p i a = true) ->
  save A render sv (persist_plan cached p) m xs (init_st FAbsent c0 false) = (r, s') ->
  exists e, r = Err e /\ (from_compute e \/ from_write e) /\ child (s_fs s') NMarker = None.
Proof. exact persisted_compute_failure_surfaces. Qed.

(* ---- "and the context remains usable" ----
   After ANY save (successful, refused, failed anywhere) started with the lock free, the lock is free and a
   later job on the same context runs.  Depends on the regenerated [runjob_lock_release = ReleaseFinally]. *)
Theorem C09_context_usable_after_failed_save : forall A render sv p m xs f0 c0 r s',
  save A render sv p m xs (init_st f0 c0 false) = (r, s') ->
  s_locked s' = false /\
  forall (B : Type) p2 m2 (ys : list B), 1 <= m2 -> (forall j a, cf p2 j a = false) ->
    collect_job B p2 m2 ys s' = (Ok tt, s').
Proof. exact context_usable_after_save. Qed.

(* ---- clause 3: a directory that carries the marker reads back every partition's data in partition order ----
   [decode] is any decoder that inverts [render] ([items x] = the elements of partition x). *)
Theorem C09_read_marked_dir : forall A render B items decode,
  (forall x : A, decode (render x) = Ok (items x)) ->
  forall sv p m xs c0 r s',
  save A render sv p m xs (init_st FAbsent c0 false) = (r, s') ->
  forall f, In f (s_hist s' ++ [s_fs s']) -> child f NMarker <> None ->
  read_target B decode f = Ok (concat (map items xs)).
Proof. exact read_marked_dir. Qed.
(* ... and each part file on its own decodes to the data of its partition (any partition size) *)
Theorem C09_read_each_part_file : forall A render B (items : A -> list B) decode,
  (forall x : A, decode (render x) = Ok (items x)) ->
  forall sv p m xs c0 r s',
  save A render sv p m xs (init_st FAbsent c0 false) = (r, s') ->
  forall f, In f (s_hist s' ++ [s_fs s']) -> child f NMarker <> None ->
  forall i x, nth_error xs i = Some x ->
  exists c, child f (NPart i) = Some c /\ decode c = Ok (items x).
Proof. exact read_each_part_file. Qed.
(* the text saver with the text reader: elements without a line break *)
Theorem C09_read_marked_dir_text : forall p m (xs : list (list bytes)) c0 r s',
  Forall (Forall (fun l => ~ In nl l)) xs ->
  save (list bytes) render_text SvText p m xs (init_st FAbsent c0 false) = (r, s') ->
  forall f, In f (s_hist s' ++ [s_fs s']) -> child f NMarker <> None ->
  read_target bytes decode_text f = Ok (concat xs).
Proof. exact read_marked_dir_text. Qed.

(* the order on names the reader model sorts by (parts by index) IS the byte order of the real file names, for
   the name format regenerated from both savers (part_prefix = "part-", part_width = 5), below 10^5 partitions *)
Theorem C09_part_names_sort_by_index : forall sfx a b, valid_name a -> valid_name b ->
  name_leb a b = lex_leb (name_string sfx a) (name_string sfx b).
Proof. exact name_order. Qed.
(* for every codec suffix [sfx] of the target ('.gz', '.bz2', ... or none): the marker's file name is exactly
   '_SUCCESS' (regenerated marker_base / marker_suffixed: only part files carry the suffix), and no part file
   can take its place *)
Theorem C09_marker_name_is_plain : forall sfx, name_string sfx NMarker = [95; 83; 85; 67; 67; 69; 83; 83]%N.
Proof. exact marker_name_plain. Qed.
Theorem C09_part_name_not_marker : forall sfx i, name_string sfx (NPart i) <> name_string sfx NMarker.
Proof. exact part_name_not_marker. Qed.

(* ---- the tie to the source: these fail when the statement order of the savers / of runJob changes ---- *)
Theorem C09_text_order : text_steps = [SCheckExists; SSingle; SRunJob; SMarker].
Proof. exact text_steps_link. Qed.
Theorem C09_pickle_order : pickle_steps = [SCheckExists; SSingle; SRunJob; SMarker].
Proof. exact pickle_steps_link. Qed.
Theorem C09_lock_released_in_finally : runjob_lock_release = ReleaseFinally.
Proof. exact lock_release_link. Qed.
Theorem C09_tasks_run_in_a_generator : runjob_local_kind = TaskGenerator.
Proof. exact local_kind_link. Qed.

(* ---------------- non-vacuity: concrete instances of every hypothesis ---------------- *)
Definition ex_parts : list (list bytes) := [[[97%N]]; [[98%N]; []]; []].     (* ['a'] ['b', ''] [] *)
Definition plan_w (l : list (nat * wfault)) : plan :=
  mkplan (fun k => match find (fun e => Nat.eqb (fst e) k) l with Some e => Some (snd e) | None => None end)
         (fun _ => KInjected) (fun _ _ => false) (fun _ _ => KInjected) (fun _ _ => false).
Definition plan_c (c : cls) (lazy : bool) (l : list (nat * nat)) : plan :=
  mkplan (fun _ => None) (fun _ => KInjected)
         (fun i a => existsb (fun e => Nat.eqb (fst e) i && Nat.eqb (snd e) a) l) (fun _ _ => c) (fun _ _ => lazy).
Definition run_text p m xs f0 := save (list bytes) render_text SvText p m xs (init_st f0 0 false).

(* the three pre-states of the property all satisfy the hypothesis of C09_no_overwrite *)
Example pre_states_exist :
  fs_exists (FFile [111%N]) = true /\ fs_exists (FDir [(NOther 0, [1%N])]) = true /\ fs_exists (FDir []) = true.
Proof. repeat split. Qed.
(* a clean three-partition save: the marker is there, on the complete directory, and reads back in order *)
Example clean_save :
  let '(r, s) := run_text no_faults 3 ex_parts FAbsent in
  r = Ok tt /\ child (s_fs s) NMarker = Some [] /\ s_fs s = complete_dir _ render_text ex_parts /\
  read_target bytes decode_text (s_fs s) = Ok [[97%N]; [98%N]; []] /\ length (s_hist s) = 4.
Proof. vm_compute. repeat split. Qed.
(* a fault masked by the retry: part 1 is torn on its first attempt, rewritten on the second *)
Example masked_fault :
  let '(r, s) := run_text (plan_w [(1, WTorn 1)]) 2 ex_parts FAbsent in
  r = Ok tt /\ s_calls s = 5 /\ nth_error (s_hist s) 1 = Some (FDir [(NPart 0, [97; 10]%N); (NPart 1, [98%N])]) /\
  s_fs s = complete_dir _ render_text ex_parts.
Proof. vm_compute. repeat split. Qed.
(* crash at the write of part 1 on every attempt: hypotheses of C09_write_failure_surfaces_part with k = 1, m = 2 *)
Example crash_part :
  let '(r, s) := run_text (plan_w [(1, WMkdir); (2, WBefore)]) 2 ex_parts FAbsent in
  r = Err (EWrite KInjected) /\ s_fs s = FDir [(NPart 0, [97; 10]%N)] /\ s_calls s = 3 /\ s_locked s = false.
Proof. vm_compute. repeat split. Qed.
(* crash at the marker write (k = n) *)
Example crash_marker :
  let '(r, s) := run_text (plan_w [(3, WBefore)]) 2 ex_parts FAbsent in
  r = Err (EWrite KInjected) /\ child (s_fs s) NMarker = None /\ child (s_fs s) (NPart 2) = Some [] /\ s_calls s = 4.
Proof. vm_compute. repeat split. Qed.
(* the exception in C09_failure_no_marker is real: a torn marker write leaves the (empty = complete) marker *)
Example torn_marker_write :
  let '(r, s) := run_text (plan_w [(3, WTorn 0)]) 2 ex_parts FAbsent in
  r = Err (EWrite KInjected) /\ child (s_fs s) NMarker = Some [] /\ s_fs s = complete_dir _ render_text ex_parts.
Proof. vm_compute. repeat split. Qed.
(* partition 1 fails to compute on every attempt: hypotheses of C09_compute_failure_surfaces *)
Example crash_compute :
  let '(r, s) := run_text (plan_c KInjected false [(1, 1); (1, 2)]) 2 ex_parts FAbsent in
  r = Err (ECompute KInjected) /\ s_fs s = FDir [(NPart 0, [97; 10]%N)] /\ s_locked s = false /\
  fst (collect_job nat no_faults 3 [0; 1] s) = Ok tt.
Proof. vm_compute. repeat split. Qed.
(* single partition: one file, never a marker *)
Example single_partition :
  let '(r, s) := run_text no_faults 3 [[[97%N]; [98%N]]] FAbsent in
  r = Ok tt /\ s_fs s = FFile [97; 10; 98; 10]%N /\ s_calls s = 1.
Proof. vm_compute. repeat split. Qed.
(* re-saving over a previous complete save changes nothing *)
Example resave_refused :
  let f0 := complete_dir _ render_text ex_parts in
  run_text no_faults 3 [[[99%N]]; []] f0 = (Err EExists, init_st f0 0 false).
Proof. vm_compute. reflexivity. Qed.
(* the real names: part-00007, and the bound of C09_part_names_sort_by_index is the format's own *)
Example part_name_example :
  name_string [] (NPart 7) = [112; 97; 114; 116; 45; 48; 48; 48; 48; 55]%N /\ valid_name (NPart 4321) /\ valid_name (NOther 4).
Proof. split; [reflexivity|split]; [reflexivity|]. unfold valid_name. repeat constructor. Qed.
(* a target 'out.tar.gz': part-00007.gz and _SUCCESS *)
Example codec_target_names :
  let sfx := suffix_from_last_dot [46; 116; 97; 114; 46; 103; 122]%N in
  sfx = [46; 103; 122]%N /\
  name_string sfx (NPart 7) = [112; 97; 114; 116; 45; 48; 48; 48; 48; 55; 46; 103; 122]%N /\
  name_string sfx NMarker = [95; 83; 85; 67; 67; 69; 83; 83]%N.
Proof. repeat split. Qed.
(* StopIteration from partition 1 on every attempt (hypotheses of C09_compute_stop_surfaces_as_runtime_error):
   RuntimeError at the caller, part 0 written, parts 1 and 2 not, no marker, lock free *)
Example stop_iteration_in_task :
  let '(r, s) := run_text (plan_c KStop false [(1, 1); (1, 2)]) 2 ex_parts FAbsent in
  r = Err ERuntime /\ s_fs s = FDir [(NPart 0, [97; 10]%N)] /\ s_locked s = false.
Proof. vm_compute. repeat split. Qed.
(* GeneratorExit is not an Exception: one attempt only, although max_retries = 3 and only attempt 1 is faulted *)
Example generator_exit_not_retried :
  let '(r, s) := run_text (plan_c KGenExit true [(1, 1)]) 3 ex_parts FAbsent in
  r = Err (ECompute KGenExit) /\ s_fs s = FDir [(NPart 0, [97; 10]%N)] /\ s_calls s = 1 /\ s_locked s = false.
Proof. vm_compute. repeat split. Qed.
(* persisted data set, partition 1 fails on both attempts (hypotheses of C09_persisted_compute_failure_surfaces);
   and: a write fault on attempt 1 followed by a compute fault scripted for attempt 2 -- the partition was cached by
   attempt 1, attempt 2 does not compute it again and the save completes *)
Example persisted_save :
  (let '(r, s) := run_text (persist_plan 0 (plan_c KInjected true [(1, 1); (1, 2)])) 2 ex_parts FAbsent in
   r = Err (ECompute KInjected) /\ child (s_fs s) NMarker = None) /\
  (let p := mkplan (fun k => if Nat.eqb k 1 then Some WBefore else None) (fun _ => KInjected)
                   (fun i a => Nat.eqb i 1 && Nat.eqb a 2) (fun _ _ => KInjected) (fun _ _ => true) in
   fst (run_text (persist_plan 0 p) 3 ex_parts FAbsent) = Ok tt /\ fst (run_text p 3 ex_parts FAbsent) = Ok tt /\
   s_calls (snd (run_text (persist_plan 0 p) 3 ex_parts FAbsent)) = 5 /\ take_visits [1; 0; 2; 3] 2 = 3).
Proof. vm_compute. repeat split. Qed.
