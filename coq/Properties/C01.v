(* C01 -- RDD pipelines compute plain-list semantics for every partitioning.
   Only statements, each closed by [exact] of a lemma from PV.Proofs.Rdd*. *)
From Coq Require Import String ZArith NArith List Bool.
Require Import PV.Base.Val PV.Model.Rdd PV.Model.RddLib PV.Proofs.Rdd.
Import ListNotations.
Open Scope Z_scope.

(* contiguous slicing: for EVERY input list and EVERY slice count (negative, zero, larger than the input)
   the partitions of parallelize, read in order, are the input *)
Theorem C01_parallelize_flat : forall (xs : list val) (n : Z), concat (parallelize xs n) = xs.
Proof. exact parallelize_flat. Qed.
